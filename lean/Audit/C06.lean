import MCHap.Properties.C06
#print axioms MCHap.C06.passes_iff
#print axioms MCHap.C06.rows_iff
#print axioms MCHap.C06.rows_order
#print axioms MCHap.C06.rows_unselected
#print axioms MCHap.C06.cell_spec
#print axioms MCHap.C06.used_calls_ok
#print axioms MCHap.C06.calls_spec
#print axioms MCHap.C06.mergeChar_spec
#print axioms MCHap.C06.merge_order_independent
#print axioms MCHap.C06.filter_monotone
#print axioms MCHap.C06.stats_consistent
#print axioms MCHap.C06.uniqueCounts_spec
#print axioms MCHap.C06.dp_round
#print axioms MCHap.C06.ref_mismatch_is_error
#print axioms MCHap.C06.validateRef_ok_iff
#print axioms MCHap.C06.pairs_spec
