import MCHap.Properties.C01
#print axioms MCHap.C01.factProd_swap
#print axioms MCHap.C01.mh_core
#print axioms MCHap.C01.base_step_db
#print axioms MCHap.C01.pathwise_db
#print axioms MCHap.C01.copies_eq_count
#print axioms MCHap.C01.base_step_kernel_db
#print axioms MCHap.C01.dosage_db
#print axioms MCHap.C01.recomb_db
#print axioms MCHap.C01.dosage_return_pos
#print axioms MCHap.C01.recomb_return_pos
#print axioms MCHap.C01.exchange_db
#print axioms MCHap.C01.assemblePrior_dosage_perm
#print axioms MCHap.C01.asmW_perm
#print axioms MCHap.C01.stationary_of_db
