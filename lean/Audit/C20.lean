import MCHap.Properties.C20
#print axioms MCHap.C20.pos_spec
#print axioms MCHap.C20.gt_projection
#print axioms MCHap.C20.block_gts
#print axioms MCHap.C20.block_alleles_ac
#print axioms MCHap.C20.numbering_first_appearance
#print axioms MCHap.C20.alleles_first_appearance
#print axioms MCHap.C20.marginal_spec
#print axioms MCHap.C20.ac_marginal
#print axioms MCHap.C20.acp_marginal
#print axioms MCHap.C20.acp_sums_to_ploidy
#print axioms MCHap.C20.block_no_snv
#print axioms MCHap.C20.block_total
#print axioms MCHap.C20.block_line_shape
#print axioms MCHap.C20.monomorphic_site_line
#print axioms MCHap.C20.no_alt_all_monomorphic
#print axioms MCHap.C20.missing_counts_are_missing
