import MCHap.Properties.C10
#print axioms MCHap.C10.callRecord_eq_map
#print axioms MCHap.C10.column_independent
#print axioms MCHap.C10.subset_columns
#print axioms MCHap.C10.perm_columns
#print axioms MCHap.C10.column_index_seed_partial
#print axioms MCHap.C10.column_seed_once_partial
#print axioms MCHap.C10.dedupCounts_perm
#print axioms MCHap.C10.dedupCounts_expand
#print axioms MCHap.C10.pool_eq_union
#print axioms MCHap.C10.pool_lik_eq_union
#print axioms MCHap.C10.callPosteriorHaplotypes_spec
#print axioms MCHap.C10.haplotypes_monotone
#print axioms MCHap.C10.dots_only_become_named
