import MCHap.Properties.C03
#print axioms MCHap.C03.posterior_sum_one
#print axioms MCHap.C03.posterior_entry
#print axioms MCHap.C03.argmaxFirst_spec
#print axioms MCHap.C03.first_max_unique
#print axioms MCHap.C03.mode_is_max
#print axioms MCHap.C03.streamMode_spec
#print axioms MCHap.C03.stream_eq_array
#print axioms MCHap.C03.acp_sum_ploidy
#print axioms MCHap.C03.afp_sum_one
#print axioms MCHap.C03.gpm_le_spm_le_one
#print axioms MCHap.C03.lik_nonneg
#print axioms MCHap.C03.callPrior_nonneg
#print axioms MCHap.C03.posterior_nonneg
#print axioms MCHap.C03.gpm_le_spm_le_one_of_inputs
