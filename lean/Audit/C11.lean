import MCHap.Properties.C11
#print axioms MCHap.C11.comb_exact
#print axioms MCHap.C11.comb_no_overflow
#print axioms MCHap.C11.cwr_exact
#print axioms MCHap.C11.cwr_no_overflow
#print axioms MCHap.C11.genotype_count
#print axioms MCHap.C11.index_lt
#print axioms MCHap.C11.index_injective
#print axioms MCHap.C11.index_is_vcf_order
#print axioms MCHap.C11.vcf_order_length
#print axioms MCHap.C11.index_surjective
#print axioms MCHap.C11.decode_spec
#print axioms MCHap.C11.decode_encode
#print axioms MCHap.C11.increment_spec
#print axioms MCHap.C11.enumeration_is_vcf_order
