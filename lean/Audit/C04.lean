import MCHap.Properties.C04
#print axioms MCHap.C04.cell_gap
#print axioms MCHap.C04.readProb_all_gaps
#print axioms MCHap.C04.lik_perm_haps
#print axioms MCHap.C04.lik_perm_reads
#print axioms MCHap.C04.lik_count
#print axioms MCHap.C04.lik_count_zero
#print axioms MCHap.C04.lik_positiveReads
#print axioms MCHap.C04.likAlleles_perm
#print axioms MCHap.C04.likAllelesPedigree_eq
#print axioms MCHap.C04.lik_structural
#print axioms MCHap.C04.logLik_eq_log_lik
