import MCHap.Properties.C12
#print axioms MCHap.C12.fromRecord_isSome_iff
#print axioms MCHap.C12.ref_is_allele_zero
#print axioms MCHap.C12.ref_encodes_to_zero
#print axioms MCHap.C12.alleles_nodup
#print axioms MCHap.C12.encode_valid
#print axioms MCHap.C12.format_encode
#print axioms MCHap.C12.snvColumns_spec
#print axioms MCHap.C12.snvless_record
#print axioms MCHap.C12.encode_format
#print axioms MCHap.C12.snv_positions_subset
#print axioms MCHap.C12.snv_positions_sublist
