import MCHap.Properties.C15
#print axioms MCHap.C15.mem_substeps
#print axioms MCHap.C15.substeps_nodup
#print axioms MCHap.C15.substeps_length
#print axioms MCHap.C15.substeps_all_pairs
#print axioms MCHap.C15.sweep_visits_each_once
#print axioms MCHap.C15.sweep_no_other_pairs
#print axioms MCHap.C15.int8_table_counterexample
#print axioms MCHap.C15.drawPoints_spec
#print axioms MCHap.C15.breaks_partition
#print axioms MCHap.C15.fixed_iff
#print axioms MCHap.C15.reinsert_spec
#print axioms MCHap.C15.restrict_reinsert
#print axioms MCHap.C15.reinsertHap_injective
#print axioms MCHap.C15.reinsert_count
#print axioms MCHap.C15.restrict_length
#print axioms MCHap.C15.reinsert_restrict_iff
