import MCHap.Properties.C09
#print axioms MCHap.C09.walk_append
#print axioms MCHap.C09.walk_upd_fresh
#print axioms MCHap.C09.WF_link
#print axioms MCHap.C09.insertPath_spec
#print axioms MCHap.C09.WF_new
#print axioms MCHap.C09.get_new_miss
#print axioms MCHap.C09.flushed_empty
#print axioms MCHap.C09.insertLoop_ok
#print axioms MCHap.C09.coherent_set
#print axioms MCHap.C09.cachedCall_spec
#print axioms MCHap.C09.cache_transparent
#print axioms MCHap.C09.carried_llk_invariant
#print axioms MCHap.C09.carried_llk_invariant_history
#print axioms MCHap.C09.exchange_keeps_invariant
