import MCHap.Properties.C07
#print axioms MCHap.C07.validRecord_sound
#print axioms MCHap.C07.gt_wellformed
#print axioms MCHap.C07.cardinality_ok
#print axioms MCHap.C07.alt_differs_only_at_snvs
#print axioms MCHap.C07.counts_recomputed
#print axioms MCHap.C07.float_sums_recomputed
#print axioms MCHap.C07.summarise_recompute
#print axioms MCHap.C07.summarise_total
#print axioms MCHap.C07.gArray_length
#print axioms MCHap.C07.callGArray_length
#print axioms MCHap.C07.assembleGP_length_partial
#print axioms MCHap.C07.assembleGP_no_IndexError_partial
#print axioms MCHap.C07.relabel_nAllele_partial
#print axioms MCHap.C07.formatGT_sorted_dots_last
#print axioms MCHap.C07.genotypeAsAlleles_perm
#print axioms MCHap.C07.round3_error
#print axioms MCHap.C07.sum_round_tolerance
