import MCHap.Properties.C19
#print axioms MCHap.C19.enginePasses_engineCfgOf
#print axioms MCHap.C19.depths_eq_spec_partial
#print axioms MCHap.C19.filter_option_effect
#print axioms MCHap.C19.depths_monotone_in_filters
#print axioms MCHap.C19.depths_ne_spec_witness
#print axioms MCHap.C19.old_engine_regression
#print axioms MCHap.C19.specDepth_monotone_in_filters
#print axioms MCHap.C19.specDepth_filter_effect
#print axioms MCHap.C19.keepAllele_iff
#print axioms MCHap.C19.indOk_iff
#print axioms MCHap.C19.listed_iff_thresholds
#print axioms MCHap.C19.emitted_iff_two
#print axioms MCHap.C19.ref_first_masked_iff
#print axioms MCHap.C19.alts_sorted
#print axioms MCHap.C19.alts_nodup_complete
