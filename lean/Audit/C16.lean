import MCHap.Properties.C16
#print axioms MCHap.C16.locusPrior_shape
#print axioms MCHap.C16.freq_normalised
#print axioms MCHap.C16.raw_is_named_info
#print axioms MCHap.C16.filter_removes_exactly_failing_alts
#print axioms MCHap.C16.select_spec
#print axioms MCHap.C16.failing_ref_masked_not_removed
#print axioms MCHap.C16.masked_ref_zero_prior
#print axioms MCHap.C16.masked_never_called
#print axioms MCHap.C16.masked_zero_posterior
#print axioms MCHap.C16.unmasked_positive_prior
#print axioms MCHap.C16.no_usable_allele_is_filtered
#print axioms MCHap.C16.call_exact_same_scenario
#print axioms MCHap.C16.arrays_have_record_length
#print axioms MCHap.C16.relabel_default_n_allele_iff
#print axioms MCHap.C16.relabel_n_allele_counterexample
