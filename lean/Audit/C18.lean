import MCHap.Properties.C18
#print axioms MCHap.C18.blanket_factor
#print axioms MCHap.C18.rest_invariant
#print axioms MCHap.C18.blanket_ratio
#print axioms MCHap.C18.ped_mh_db
#print axioms MCHap.C18.swap_db
#print axioms MCHap.C18.swap_same_individual
#print axioms MCHap.C18.hyper_allele_step
#print axioms MCHap.C18.unknown_allele_step
#print axioms MCHap.C18.trio_allele_balanced
#print axioms MCHap.C18.ped_gibbs_is_conditional_partial
#print axioms MCHap.C18.gibbs_unbalanced_counterexample
