import MCHap.Properties.C05
#print axioms MCHap.C05.compositions_spec
#print axioms MCHap.C05.countsOf_ofCounts
#print axioms MCHap.C05.dm_sum_one
#print axioms MCHap.C05.multinomial_sum_one
#print axioms MCHap.C05.callPrior_sum_one
#print axioms MCHap.C05.dmCounts_zero_of_zero_alpha
#print axioms MCHap.C05.dmOrdered_insert
#print axioms MCHap.C05.allele_conditional
#print axioms MCHap.C05.allelePrior_eq_urn
#print axioms MCHap.C05.allelePrior_flat_eq_urn
#print axioms MCHap.C05.allelePrior_F0
#print axioms MCHap.C05.dmCounts_eq_perms_mul_ordered
#print axioms MCHap.C05.assemblePrior_perm
#print axioms MCHap.C05.assemblePrior_zero
#print axioms MCHap.C05.assemblePrior_eq_callPrior_flat
#print axioms MCHap.C05.gamma_ratio_eq_rising
#print axioms MCHap.C05.gamma_factorial
