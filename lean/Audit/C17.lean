import MCHap.Properties.C17
#print axioms MCHap.C17.compositions_nodup
#print axioms MCHap.C17.mem_compositions_iff
#print axioms MCHap.C17.hyper_sum_one
#print axioms MCHap.C17.gamete_sum_one
#print axioms MCHap.C17.gameteSpec_nonneg
#print axioms MCHap.C17.unknown_sum_one
#print axioms MCHap.C17.mixture_sum_one
#print axioms MCHap.C17.sum_regroup
#print axioms MCHap.C17.trio_sum_one
#print axioms MCHap.C17.increment_decreasing
#print axioms MCHap.C17.enumerator_sound
#print axioms MCHap.C17.gameteSpec_pos_iff
#print axioms MCHap.C17.positive_iff_valid
#print axioms MCHap.C17.duo_positive_iff_valid
#print axioms MCHap.C17.enumerator_complete_small
