import MCHap.Properties.C02
#print axioms MCHap.C02.normalise_sum_one
#print axioms MCHap.C02.gibbs_sum_one
#print axioms MCHap.C02.gibbs_is_conditional
#print axioms MCHap.C02.gibbs_is_conditional_F0
#print axioms MCHap.C02.allelePrior_none_eq_flat
#print axioms MCHap.C02.gibbs_flat_eq_explicit
#print axioms MCHap.C02.gibbs_reversible
#print axioms MCHap.C02.callW_eq_perms_mul_ordered
#print axioms MCHap.C02.callW_perm
#print axioms MCHap.C02.sortAlleles_perm
#print axioms MCHap.C02.callW_sort
#print axioms MCHap.C02.mhProbs_entry
#print axioms MCHap.C02.mh_db
#print axioms MCHap.C02.call_compound_step_invariant
#print axioms MCHap.C02.call_sampler_invariant
#print axioms MCHap.C02.compoundStep_perm_choices
#print axioms MCHap.C02.compoundWrites_getD_mem
