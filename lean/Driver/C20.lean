import MCHap.Model.Atomize
import Driver.Util
open MCHap MCHap.Atomize
/-
C20 ops

  atom <pos> <id|.> <ref> <alts: A,B | .> <snvpos: 1,2 | .> <sample>…
      sample = `<gt 0/1/.>;<sq int|.>;<acp q,q,nan | ->;<afp … | ->;<snvdp q,q | ->`
    → `none` (no SNV) | `error:<IndexError|ValueError>` |
      lines joined by ` ; `, each `pos id ref alts|. AC=..|. ACP=.. DP=.. PS=.. <sample>…`
      with sample = `gt(|-separated):pq:dp:ds`, rationals as num/den, missing as `nan`
  atom.idx <column of bases>    → allele numbers of one site, `|` first-appearance bases
-/
namespace Driver.C20

def parseOptCell? (s : String) : Option (Option Rat) := parseCell? s

def parseOptList? (s : String) : Option (Option (List (Option Rat))) :=
  if s = "-" then some none else (allSome ((s.splitOn ",").map parseCell?)).map some

def parseRatList? (s : String) : Option (Option (List Rat)) :=
  if s = "-" then some none else (allSome ((s.splitOn ",").map parseRat?)).map some

def parseGt? (s : String) : Option (List (Option Nat)) :=
  allSome ((s.splitOn "/").map (fun t => if t = "." then some none else (parseNat? t).map some))

def parseSample? (s : String) : Option Sample :=
  match s.splitOn ";" with
  | [gt, sq, acp, afp, dp] => do
    let gt ← parseGt? gt
    let sq ← if sq = "." then some none else (parseInt? sq).map some
    let acp ← parseOptList? acp
    let afp ← parseOptList? afp
    let dp ← parseRatList? dp
    some { gt := gt, sq := sq, acp := acp, afp := afp, snvdp := dp }
  | _ => none

def showOptRat : Option Rat → String
  | none => "nan"
  | some q => showRat q

def showOptNat : Option Nat → String
  | none => "."
  | some n => toString n

def showList (f : α → String) (l : List α) : String := if l.isEmpty then "." else ",".intercalate (l.map f)

def showLine (l : SnvLine) : String :=
  let samples := (List.range l.gts.length).map (fun i =>
    let gt := "|".intercalate ((l.gts.getD i []).map showOptNat)
    let pq := match l.pq.getD i none with | none => "." | some n => toString n
    s!"{gt}:{pq}:{showOptRat (l.sdp.getD i none)}:{showList showOptRat (l.ds.getD i [])}")
  s!"{l.pos} {l.id} {l.ref} {showList (fun c => String.singleton c) l.alts} AC={showList toString l.ac} ACP={showList showOptRat l.acp} DP={showOptRat l.dp} PS={l.ps} " ++ " ".intercalate samples

def handle : String → Handler
  | "atom", pos :: id :: ref :: alts :: snvpos :: samples => do
    let pos ← parseNat? pos
    let alts := if alts = "." then none else some ((alts.splitOn ",").map String.toList)
    let snvpos ← if snvpos = "." then some none else (parseNats? (snvpos.splitOn ",")).map some
    let samples ← allSome (samples.map parseSample?)
    let r : HapRecord := { pos := pos, id := if id = "." then none else some id, ref := ref.toList,
                           alts := alts, snvpos := snvpos, samples := samples }
    match block r with
    | .error e => some s!"error:{e.name}"
    | .ok none => some "none"
    | .ok (some lines) => some (" ; ".intercalate (lines.map showLine))
  | "atom.idx", [col] =>
    some s!"{showNats (indexLoop col.toList [])} | {String.ofList (firstAppear col.toList)}"
  | _, _ => none

end Driver.C20
