import Driver.Loop
import Driver.C08
import Driver.C10

/-- handlers of this executable; each builder adds `Driver.Cxx.handle` here -/
def main : IO Unit := Driver.runMain [Driver.C08.handle, Driver.C10.handle]
