import MCHap.Model.Likelihood
import Driver.Util
open MCHap
namespace Driver

/-- take `n` tokens -/
def takeN (n : Nat) (l : List String) : Option (List String × List String) :=
  if l.length < n then none else some (l.take n, l.drop n)

/-- `<n_base> <n_nucl> <n_reads> <counts: n_reads> <cells: n_reads*n_base*n_nucl>` -/
def parseReads (toks : List String) : Option (Nat × Nat × Reads × List String) := do
  match toks with
  | nb :: nn :: nr :: rest =>
    let nb ← parseNat? nb; let nn ← parseNat? nn; let nr ← parseNat? nr
    let (cs, rest) ← takeN nr rest
    let counts ← parseNats? cs
    let (cells, rest) ← takeN (nr * nb * nn) rest
    let cells ← parseCells? cells
    let perRead := chunks (nb * nn) cells
    let reads : List Read := perRead.map (fun c => chunks nn c)
    let reads := if nb * nn = 0 then List.replicate nr (List.replicate nb []) else reads
    some (nb, nn, reads.zip counts, rest)
  | _ => none

/-- `<ploidy> <alleles: ploidy*n_base>` -/
def parseGenotype (nb : Nat) (toks : List String) : Option (Genotype × List String) := do
  match toks with
  | p :: rest =>
    let p ← parseNat? p
    let (gs, rest) ← takeN (p * nb) rest
    let gs ← parseNats? gs
    let g := if nb = 0 then List.replicate p [] else chunks nb gs
    some (g, rest)
  | _ => none

def showGenotype (g : Genotype) : String :=
  "|".intercalate (g.map showNats)

end Driver
