import MCHap.Model.Prior
import Driver.Instance
open MCHap
namespace Driver.C05

/-- `flat` or `n` rationals; returns the frequencies option and the remaining tokens -/
def parseFreqs (n : Nat) (toks : List String) : Option (Option (List Rat) × List String) :=
  match toks with
  | "flat" :: rest => some (none, rest)
  | _ => do
    let (fs, rest) ← takeN n toks
    let fs ← parseRats? fs
    some (some fs, rest)

def handle : String → Handler
  | "prior.call", n :: f :: rest => do
    let n ← parseNat? n; let f ← parseRat? f
    let (freqs, rest) ← parseFreqs n rest
    let g ← parseNats? rest
    some (showRat (callPrior n f freqs g))
  | "prior.allele", n :: f :: rest => do
    let n ← parseNat? n; let f ← parseRat? f
    let (freqs, rest) ← parseFreqs n rest
    match rest with
    | k :: g =>
      let k ← parseNat? k; let g ← parseNats? g
      if k < g.length then some (showRat (allelePrior n f freqs g k)) else none
    | _ => none
  | "prior.asm", u :: f :: dosage => do
    let u ← parseNat? u; let f ← parseRat? f; let d ← parseNats? dosage
    some (showRat (assemblePrior u f d))
  | "prior.perms", dosage => do
    let d ← parseNats? dosage
    some (showRat (permsOfDosage d))
  | "prior.dosage", nb :: rest => do
    let nb ← parseNat? nb
    let (g, rest) ← parseGenotype nb rest
    if rest ≠ [] then none else some (showNats (haplotypeDosage g))
  | _, _ => none

end Driver.C05
