/-
Line-protocol helpers shared by the driver's handlers. Core Lean only.
-/
namespace Driver

def parseNat? (s : String) : Option Nat := s.toNat?

def parseInt? (s : String) : Option Int := s.toInt?

/-- rationals as `num/den`, or a plain integer -/
def parseRat? (s : String) : Option Rat :=
  match s.splitOn "/" with
  | [n] => (n.toInt?).map (fun i => (i : Rat))
  | [n, d] => do
    let ni ← n.toInt?
    let di ← d.toNat?
    if di = 0 then none else some ((ni : Rat) / (di : Rat))
  | _ => none

/-- `nan` is a gap (`none`), anything else a rational -/
def parseCell? (s : String) : Option (Option Rat) :=
  if s = "nan" then some none else (parseRat? s).map some

def showRat (q : Rat) : String := s!"{q.num}/{q.den}"

def showNats (l : List Nat) : String := " ".intercalate (l.map toString)
def showInts (l : List Int) : String := " ".intercalate (l.map toString)

def allSome {α} : List (Option α) → Option (List α)
  | [] => some []
  | none :: _ => none
  | some a :: t => (allSome t).map (a :: ·)

def parseNats? (l : List String) : Option (List Nat) := allSome (l.map parseNat?)
def parseInts? (l : List String) : Option (List Int) := allSome (l.map parseInt?)
def parseRats? (l : List String) : Option (List Rat) := allSome (l.map parseRat?)
def parseCells? (l : List String) : Option (List (Option Rat)) := allSome (l.map parseCell?)

/-- split a list into consecutive chunks of size `n` (last chunk may be short) -/
def chunks {α} (n : Nat) (l : List α) : List (List α) :=
  if n = 0 then [] else
  let rec go (fuel : Nat) (l : List α) (acc : List (List α)) : List (List α) :=
    match fuel, l with
    | 0, _ => acc.reverse
    | _, [] => acc.reverse
    | fuel + 1, l => go fuel (l.drop n) (l.take n :: acc)
  go (l.length + 1) l []

/-- A handler gets the tokens after the op name and answers one line, or `none` = `bad-op`. -/
abbrev Handler := List String → Option String

end Driver
