import Driver.Instance
open MCHap
namespace Driver.C04

def handle : String → Handler
  | "lik", toks => do
    let (nb, _, rs, rest) ← parseReads toks
    let (g, rest) ← parseGenotype nb rest
    if rest ≠ [] then none else some (showRat (lik rs nb g))
  | "lik.struct", toks => do
    let (nb, _, rs, rest) ← parseReads toks
    let (g, rest) ← parseGenotype nb rest
    let (idx, rest) ← takeN g.length rest
    let idx ← parseNats? idx
    match rest with
    | [lo, hi] =>
      let lo ← parseNat? lo; let hi ← parseNat? hi
      some s!"{showRat (likStructural rs nb g idx lo hi)} {showGenotype (structuralChange g nb idx lo hi)}"
    | _ => none
  | "lik.alleles", toks => do
    -- reads, then haplotypes as a "genotype" block, then the allele indices
    let (nb, _, rs, rest) ← parseReads toks
    let (haps, rest) ← parseGenotype nb rest
    let alleles ← parseNats? rest
    some s!"{showRat (likAlleles rs nb haps alleles)} {showRat (likAllelesPedigree rs nb haps alleles)}"
  | _, _ => none

end Driver.C04
