import MCHap.Model.Comb
import Driver.Util
open MCHap
namespace Driver.C11

def showOptNat : Option Nat → String
  | some n => toString n
  | none => "overflow"

def handle : String → Handler
  | "comb", [n, k] => do
    let n ← parseNat? n; let k ← parseNat? k
    some s!"{comb n k} {showOptNat (combChecked n k)}"
  | "cwr", [n, k] => do
    let n ← parseNat? n; let k ← parseNat? k
    some s!"{cwr n k} {showOptNat (cwrChecked n k)}"
  | "idx.enc", toks => do
    let g ← parseNats? toks
    some (toString (genotypeIndex g))
  | "idx.dec", [i, p] => do
    let i ← parseNat? i; let p ← parseNat? p
    some (showNats (indexGenotype i p))
  | "idx.inc", toks => do
    let g ← parseNats? toks
    match incrementGenotype g with
    | some g' => some (showNats g')
    | none => some "error:ValueError"
  | "idx.enum", [n, p] => do
    let n ← parseNat? n; let p ← parseNat? p
    some (";".intercalate ((enumGenotypes n p).map showNats))
  | "idx.vcf", [n, p] => do
    let n ← parseNat? n; let p ← parseNat? p
    if n = 0 then none else
    some (";".intercalate ((vcfOrder p (n - 1)).map showNats))
  | _, _ => none

end Driver.C11
