import MCHap.Model.HapCalling
import Driver.Instance
open MCHap MCHap.Trace MCHap.HapCalling
namespace Driver.C13
/-
Line protocol of C13 (haplotype reporting of `mchap assemble`).
  posterior block  = `<nGenotypes> <ploidy> { <prob num/den> <ploidy * nBase alleles> }`
  haplotype (reply) = alleles joined by `,` (`-` for the empty haplotype of a locus without SNVs)
-/

def showHap (h : List Nat) : String := if h.isEmpty then "-" else ",".intercalate (h.map toString)

/-- `nGen` entries of `<prob> <ploidy * nBase alleles>` -/
def parseEntries (ploidy nBase : Nat) : Nat → List String → Option (Post × List String)
  | 0, toks => some ([], toks)
  | k + 1, toks => do
    match toks with
    | pS :: rest =>
      let pr ← parseRat? pS
      let (vs, rest) ← takeN (ploidy * nBase) rest
      let vs ← parseNats? vs
      let g : List Hap := if nBase = 0 then List.replicate ploidy [] else chunks nBase vs
      let (more, rest) ← parseEntries ploidy nBase k rest
      some ((g, pr) :: more, rest)
    | _ => none

/-- `<nGenotypes> <ploidy> entries…` -/
def parsePost (nBase : Nat) (toks : List String) : Option (Post × Nat × List String) := do
  match toks with
  | ng :: p :: rest =>
    let ng ← parseNat? ng; let p ← parseNat? p
    if p = 0 then none else
    let (post, rest) ← parseEntries p nBase ng rest
    some (post, p, rest)
  | _ => none

def parsePosts (nBase : Nat) : Nat → List String → Option (List Post × List String)
  | 0, toks => some ([], toks)
  | k + 1, toks => do
    let (post, _, rest) ← parsePost nBase toks
    let (more, rest) ← parsePosts nBase k rest
    some (post :: more, rest)

/-- `<nHaps> { nBase alleles }` -/
def parseHaps (nBase : Nat) (toks : List String) : Option (List Hap × List String) := do
  match toks with
  | nh :: rest =>
    let nh ← parseNat? nh
    let (vs, rest) ← takeN (nh * nBase) rest
    let vs ← parseNats? vs
    let hs : List Hap := if nBase = 0 then List.replicate nh [] else chunks nBase vs
    if hs.length ≠ nh then none else some (hs, rest)
  | _ => none

def showRats (l : List Rat) : String := " ".intercalate (l.map showRat)

def handle : String → Handler
  /- hc.call <thr> <nBase> <nSamples> posts… → `hap=value …;ref_observed` (haplotypes in reported order, with the
     value the sort used) -/
  | "hc.call", thrS :: nbS :: nsS :: toks => do
    let thr ← parseRat? thrS; let nb ← parseNat? nbS; let ns ← parseNat? nsS
    if ns = 0 then none else
    let (posts, rest) ← parsePosts nb ns toks
    if rest ≠ [] then none else
    let (haps, refObs) := callPosteriorHaplotypes thr posts nb
    let table := sortDesc (valueTable thr posts nb)
    if table.map (·.1) ≠ haps then none else
    some (" ".intercalate (table.map (fun hv => s!"{showHap hv.1}={showRat hv.2}")) ++ ";" ++
      (if refObs then "1" else "0"))
  /- hc.occ <nBase> post → `hap=weight=occurrence …` (allele_frequencies(dosage=True)) -/
  | "hc.occ", nbS :: toks => do
    let nb ← parseNat? nbS
    let (post, p, rest) ← parsePost nb toks
    if rest ≠ [] then none else
    some (" ".intercalate ((alleleFrequencies post p true).map (fun x =>
      s!"{showHap x.1}={showRat x.2.1}={showRat x.2.2}={showRat (dosageWeight post x.1)}={showRat (occurrence post x.1)}")))
  /- hc.sample <refCalled 0|1> <nBase> <haps block> <genotype: ploidy haps> <post block>
     → `GT ints;AFP…;AOP…;GP…|error` with the label map of call_sample_genotypes -/
  | "hc.sample", rcS :: nbS :: toks => do
    let rc ← parseNat? rcS; let nb ← parseNat? nbS
    if rc > 1 then none else
    let (haps, rest) ← parseHaps nb toks
    let (post, p, rest) ← parsePost nb rest
    let (gv, rest) ← takeN (p * nb) rest
    if rest ≠ [] then none else
    let gv ← parseNats? gv
    let g : List Hap := if nb = 0 then List.replicate p [] else chunks nb gv
    let labels := labelsOf haps (rc = 1)
    let aa := afpAop post p haps
    some (";".intercalate [
      showInts (genotypeAsAlleles g labels),
      showRats (aa.map (·.1)),
      showRats (aa.map (·.2)),
      (match sampleGP post haps (rc = 1) p with
        | some arr => showRats arr
        | none => "error")])
  /- hc.labels <nBase> <nLabels> { nBase alleles, label } <post block> <genotype> <n_alleles | none>:
     arbitrary label dict and allele count -/
  | "hc.labels", nbS :: nlS :: toks => do
    let nb ← parseNat? nbS; let nl ← parseNat? nlS
    let (ls, rest) ← takeN (nl * (nb + 1)) toks
    let ls ← parseNats? ls
    let labels : List (Hap × Nat) := (chunks (nb + 1) ls).map (fun c => (c.take nb, c.getD nb 0))
    let labels := if nl = 0 then [] else labels
    let (post, p, rest) ← parsePost nb rest
    let (gv, rest) ← takeN (p * nb) rest
    let nAll : Option Nat ← match rest with
      | ["none"] => some none
      | [x] => (parseNat? x).map some
      | _ => none
    let gv ← parseNats? gv
    let g : List Hap := if nb = 0 then List.replicate p [] else chunks nb gv
    some (";".intercalate [
      showInts (genotypeAsAlleles g labels),
      (match genotypePosteriorAsArray post labels p nAll with
        | some arr => showRats arr
        | none => "error")])
  | _, _ => none

end Driver.C13
