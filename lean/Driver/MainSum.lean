import Driver.Loop
import Driver.C13
import Driver.C14

/-- handlers of this executable; each builder adds `Driver.Cxx.handle` here -/
def main : IO Unit := Driver.runMain [Driver.C13.handle, Driver.C14.handle]
