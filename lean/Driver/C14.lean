import MCHap.Model.Trace
import Driver.Instance
open MCHap MCHap.Trace
namespace Driver.C14
/-
Line protocol of C14 (trace summaries).  Encodings of the replies:
  haplotype  = alleles joined by `,`          genotype = haplotypes (or alleles) joined by `:`
  entry      = `<genotype>=<num/den>`          lists of entries separated by one blank, sections by `;`
  `error`    = the implementation raises on this input
-/

def showHap (h : List Nat) : String := ",".intercalate (h.map toString)
def showGeno (g : List (List Nat)) : String := ":".intercalate (g.map showHap)
def showAlleles (g : List Nat) : String := ":".intercalate (g.map toString)

def showDist {β} (sh : β → String) (d : List (β × Rat)) : String :=
  " ".intercalate (d.map (fun gp => s!"{sh gp.1}={showRat gp.2}"))

def showOptEntry {β} (sh : β → String) : Option (β × Rat) → String
  | some gp => s!"{sh gp.1}={showRat gp.2}"
  | none => "error"

/-- `<nChains> <nSteps> <ploidy> <nBase> <values…>` → chains × steps × ploidy × nBase -/
def parseAsmTrace (toks : List String) : Option (RawTrace (List Nat) × Nat × List String) := do
  match toks with
  | c :: s :: p :: b :: rest =>
    let c ← parseNat? c; let s ← parseNat? s; let p ← parseNat? p; let b ← parseNat? b
    if b = 0 ∨ p = 0 then none else
    let (vs, rest) ← takeN (c * s * p * b) rest
    let vs ← parseNats? vs
    let perChain := if s = 0 then List.replicate c [] else chunks (s * p * b) vs
    let t : RawTrace (List Nat) := perChain.map (fun ch => (chunks (p * b) ch).map (fun st => chunks b st))
    if t.length ≠ c then none else
    some (t, p, rest)
  | _ => none

/-- `<nChains> <nSteps> <ploidy> <values…>` → chains × steps × ploidy -/
def parseCallTrace (toks : List String) : Option (RawTrace Nat × Nat × List String) := do
  match toks with
  | c :: s :: p :: rest =>
    let c ← parseNat? c; let s ← parseNat? s; let p ← parseNat? p
    if p = 0 then none else
    let (vs, rest) ← takeN (c * s * p) rest
    let vs ← parseNats? vs
    let perChain := if s = 0 then List.replicate c [] else chunks (s * p) vs
    let t : RawTrace Nat := perChain.map (fun ch => chunks p ch)
    if t.length ≠ c then none else
    some (t, p, rest)
  | _ => none

def showOptNat : Option Nat → String
  | some n => toString n
  | none => "error"

def showFreqs {β} (sh : β → String) (l : List (β × Rat × Rat)) : String :=
  " ".intercalate (l.map (fun x => s!"{sh x.1}={showRat x.2.1}={showRat x.2.2}"))

def handle : String → Handler
  | "tr.asm", burnS :: thrS :: toks => do
    let n ← parseNat? burnS; let thr ← parseRat? thrS
    let (t, p, rest) ← parseAsmTrace toks
    if rest ≠ [] then none else
    let post := posterior lexLe n t
    let ct := burn n (canonTrace lexLe t)
    some (";".intercalate [
      showDist showGeno post,
      showOptEntry showGeno (modeOf post),
      showDist showGeno (modeSupportDist post),
      showRat (supportProb post),
      showOptEntry showGeno (supportModeGenotype post),
      (match supportAlleles post with | some a => showGeno a | none => "error"),
      showFreqs showHap (alleleFrequencies post p false),
      showFreqs showHap (alleleFrequencies post p true),
      showOptNat (replicateIncongruence thr ct),
      showDist showGeno (supportGroups post)])
  | "tr.call", burnS :: thrS :: naS :: toks => do
    let n ← parseNat? burnS; let thr ← parseRat? thrS; let na ← parseNat? naS
    let (t, p, rest) ← parseCallTrace toks
    if rest ≠ [] then none else
    let bt := burn n t
    let post := callPosterior n t
    some (";".intercalate [
      showDist showAlleles post,
      showOptEntry showAlleles (modeOf post),
      showOptEntry showAlleles (supportModeGenotype post),
      showRat (supportProb post),
      (match callFrequencies (merged bt) p na with
        | some l => " ".intercalate (l.map (fun x => s!"{showRat x.1},{showRat x.2.1},{showRat x.2.2}"))
        | none => "error"),
      (match asArray post na p with
        | some arr => " ".intercalate (arr.map showRat)
        | none => "error"),
      showOptNat (callReplicateIncongruence thr bt)])
  | "tr.relabel", naS :: nlS :: toks => do
    let nAllele : Option Nat ← if naS = "none" then some none else (parseNat? naS).map some
    let nl ← parseNat? nlS
    let (ls, rest) ← takeN nl toks
    let labels ← parseNats? ls
    let (t, _, rest) ← parseCallTrace rest
    if rest ≠ [] then none else
    match relabel labels nAllele t with
    | some (t', na) => some s!"{na};{showNats (t'.flatten.flatten)}"
    | none => some "error"
  | "tr.ped", idxS :: c :: s :: ns :: mp :: toks => do
    let idx ← parseNat? idxS; let c ← parseNat? c; let s ← parseNat? s
    let ns ← parseNat? ns; let mp ← parseNat? mp
    if s = 0 ∨ ns = 0 ∨ mp = 0 ∨ c = 0 ∨ idx ≥ ns then none else
    let (vs, rest) ← takeN (c * s * ns * mp) toks
    if rest ≠ [] then none else
    let vs ← parseInts? vs
    let t := (chunks (s * ns * mp) vs).map (fun ch => (chunks (ns * mp) ch).map (fun st => chunks mp st))
    let r := pedIndividual t idx
    let ploidy := ((r.head?.bind List.head?).getD []).length
    some s!"{ploidy};{showInts (r.flatten.flatten)}"
  | _, _ => none

end Driver.C14
