import Driver.Loop
import Driver.C12
import Driver.C16

/-- handlers of this executable; each builder adds `Driver.Cxx.handle` here -/
def main : IO Unit := Driver.runMain [Driver.C12.handle, Driver.C16.handle]
