import Driver.Loop
import Driver.C11
import Driver.C04
import Driver.C05
import Driver.C01
import Driver.C02
import Driver.C15
import Driver.C09

def main : IO Unit :=
  Driver.runMain [Driver.C11.handle, Driver.C04.handle, Driver.C05.handle, Driver.C01.handle,
    Driver.C02.handle, Driver.C15.handle, Driver.C09.handle]
