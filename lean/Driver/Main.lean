import Driver.Loop
import Driver.C11

def main : IO Unit := Driver.runMain [Driver.C11.handle]
