import Driver.Util
import Driver.C11
/-
Line protocol: one request per line (`<op> <tokens…>`), one canonical reply line per request.
Unknown or malformed requests answer `bad-op`; nothing is ever defaulted.
-/
namespace Driver

def dispatch (op : String) (args : List String) : Option String :=
  (C11.handle op args)

def answer (line : String) : String :=
  match (line.splitOn " ").filter (· ≠ "") with
  | [] => "bad-op"
  | op :: args =>
    match dispatch op args with
    | some r => r
    | none => "bad-op"

partial def loop (hin : IO.FS.Stream) (hout : IO.FS.Stream) : IO Unit := do
  let line ← hin.getLine
  if line.isEmpty then return ()
  let line := (line.trimAsciiEnd).toString
  hout.putStrLn (answer line)
  loop hin hout

end Driver

def main : IO Unit := do
  let hin ← IO.getStdin
  let hout ← IO.getStdout
  Driver.loop hin hout
  hout.flush
