import MCHap.Model.Programs
import Driver.Util
open MCHap
/-
Line protocol of C10:

* `pool.dedup <m> <len_1> .. <len_m> <id ...>`   reads are given as integer ids (equal id = identical row), one
      list per pool member → `<RCOUNT> | <id>:<count> ...` (`encodeSample`: first-occurrence order)
* `asm.haps <thr> <nBase> <nPosts> { <nStats> { <hap> <weight> <occ> } }`    hap = alleles joined by `,`, `-` if empty
      → `<ref_observed 0|1> | <hap> <weight-sum> ...` (reference first with weight `ref`)
* `asm.gt <ref 0|1> <nHaps> <hap ...> <ploidy> <hap ...>`   → allele labels, `.` for unknown
-/
namespace Driver.C10

def parseHap (s : String) : Option Hap :=
  if s = "-" then some [] else parseNats? (s.splitOn ",")

def showHap (h : Hap) : String := if h.isEmpty then "-" else ",".intercalate (h.map toString)

/-- `<nStats> { <hap> <weight> <occ> }` -/
def parseStats : Nat → List String → Option (List HapStat × List String)
  | 0, rest => some ([], rest)
  | n + 1, h :: w :: o :: rest => do
    let h ← parseHap h; let w ← parseRat? w; let o ← parseRat? o
    let (sts, rest) ← parseStats n rest
    some (⟨h, w, o⟩ :: sts, rest)
  | _, _ => none

def parsePosts : Nat → List String → Option (List (List HapStat) × List String)
  | 0, rest => some ([], rest)
  | n + 1, k :: rest => do
    let k ← parseNat? k
    let (sts, rest) ← parseStats k rest
    let (ps, rest) ← parsePosts n rest
    some (sts :: ps, rest)
  | _, _ => none

def cutLens {α} : List Nat → List α → Option (List (List α))
  | [], [] => some []
  | [], _ => none
  | n :: ns, l => if l.length < n then none else (cutLens ns (l.drop n)).map (l.take n :: ·)

def weightOf (all : List (Hap × Rat)) (h : Hap) : String :=
  match all.find? (fun p => p.1 = h) with
  | some p => showRat p.2
  | none => "ref"

def handle : String → Handler
  | "pool.dedup", m :: rest => do
    let m ← parseNat? m
    if rest.length < m then none else
    let lens ← parseNats? (rest.take m)
    let ids ← parseNats? (rest.drop m)
    let members ← cutLens lens ids
    let enc := encodeSample members
    some s!"{readCount members} | {" ".intercalate (enc.map (fun p => s!"{p.1}:{p.2}"))}"
  | "asm.haps", thr :: nb :: np :: rest => do
    let thr ← parseRat? thr; let nb ← parseNat? nb; let np ← parseNat? np
    let (posts, rest) ← parsePosts np rest
    if rest ≠ [] then none else
    let C := callPosteriorHaplotypes thr posts nb
    let all := collectHaps thr posts
    let alts := C.1.drop 1
    some s!"{if C.2 then 1 else 0} | {" ".intercalate (alts.map (fun h => s!"{showHap h} {weightOf all h}"))}"
  | "asm.gt", r :: nh :: rest => do
    let r ← parseNat? r; let nh ← parseNat? nh
    if rest.length < nh + 1 then none else
    let haps ← allSome ((rest.take nh).map parseHap)
    match rest.drop nh with
    | p :: g =>
      let p ← parseNat? p
      let g ← allSome (g.map parseHap)
      if g.length ≠ p then none else
      let labs := genotypeAsAlleles (haps, r ≠ 0) g
      some (" ".intercalate (labs.map (fun o => match o with | some i => toString i | none => ".")))
    | [] => none
  | _, _ => none

end Driver.C10
