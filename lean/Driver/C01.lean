import MCHap.Model.AssembleMoves
import Driver.Instance
open MCHap
namespace Driver.C01

def showOption (o : MoveOption) : String :=
  s!"{showGenotype o.target},{showRat o.R},{showRat o.Q}"

def showOptions (os : List MoveOption) : String :=
  ";".intercalate (toString os.length :: os.map showOption)

def showLabels (l : List (Nat × Nat)) : String :=
  " ".intercalate (l.map (fun ab => s!"{ab.1}:{ab.2}"))

/-- `<reads block> <genotype block> <U> <F> …` -/
def parseCommon (toks : List String) : Option (AsmParams × Genotype × List String) := do
  let (nb, _, rs, rest) ← parseReads toks
  let (g, rest) ← parseGenotype nb rest
  match rest with
  | u :: f :: rest =>
    let u ← parseNat? u; let f ← parseRat? f
    some ({ reads := rs, nb := nb, U := u, F := f }, g, rest)
  | _ => none

def handle : String → Handler
  | "kern.base", toks => do
    let (P, g, rest) ← parseCommon toks
    match rest with
    | [h, j, na] =>
      let h ← parseNat? h; let j ← parseNat? j; let na ← parseNat? na
      if h < g.length ∧ j < P.nb then some (showOptions (baseStepOptions P g h j na)) else none
    | _ => none
  | "kern.interval", toks => do
    let (P, g, rest) ← parseCommon toks
    match rest with
    | [lo, hi, st] =>
      let lo ← parseNat? lo; let hi ← parseNat? hi; let st ← parseNat? st
      if lo ≤ hi ∧ hi ≤ P.nb ∧ st ≤ 1 then
        some (showLabels (segmentLabels g lo hi) ++ ";" ++ showOptions (intervalStepOptions P g lo hi st))
      else none
    | _ => none
  | "kern.exchange", toks => do
    let (P, gi, rest) ← parseCommon toks
    let (gj, rest) ← parseGenotype P.nb rest
    if rest ≠ [] then none else
    some s!"{showRat (exchangeRatio P gi gj)} {showRat (asmW P gi)} {showRat (asmW P gj)}"
  | "kern.w", toks => do
    let (P, g, rest) ← parseCommon toks
    if rest ≠ [] then none else some (showRat (asmW P g))
  | _, _ => none

end Driver.C01
