import MCHap.Model.Pedigree
import Driver.Instance
import Driver.C17
open MCHap
namespace Driver.C18
open Driver.C17 (showRats showVecs parseVec parseRVec)

def pairUp {α} : List α → List (α × α)
  | a :: b :: t => (a, b) :: pairUp t
  | _ => []

/-- `N` per-sample read blocks (`parseReads` format), all with the same `n_base` -/
def parseReadBlocks : Nat → List String → Option (Nat × List Reads × List String)
  | 0, toks => some (0, [], toks)
  | k + 1, toks => do
    let (nb, _, rs, rest) ← parseReads toks
    let (nb', more, rest) ← parseReadBlocks k rest
    if k ≠ 0 ∧ nb' ≠ nb then none else
    some (nb, rs :: more, rest)

/-- `N` genotypes: `<ploidy> <alleles>` each -/
def parseState : Nat → List String → Option (PedState × List String)
  | 0, toks => some ([], toks)
  | k + 1, toks => do
    let (g, rest) ← parseVec toks
    let (more, rest) ← parseState k rest
    some (g :: more, rest)

/-- `<n_haps> <n_base> <haplotypes: n_haps*n_base> <freqs vec> <N> <ploidy: N> <parents: 2N ints>
     <tau: 2N> <lambda: 2N> <error: 2N> <N read blocks> <N genotypes> …` -/
def parsePed (toks : List String) : Option (Ped × PedState × List String) := do
  match toks with
  | nh :: nb :: rest =>
    let nh ← parseNat? nh; let nb ← parseNat? nb
    let (hs, rest) ← takeN (nh * nb) rest
    let hs ← parseNats? hs
    let haps : List Hap := if nb = 0 then List.replicate nh [] else chunks nb hs
    let (fs, rest) ← parseRVec rest
    if fs.length ≠ nh then none else
    match rest with
    | n :: rest =>
      let n ← parseNat? n
      let (pl, rest) ← takeN n rest; let pl ← parseNats? pl
      let (pa, rest) ← takeN (2 * n) rest; let pa ← parseInts? pa
      let (ta, rest) ← takeN (2 * n) rest; let ta ← parseNats? ta
      let (la, rest) ← takeN (2 * n) rest; let la ← parseRats? la
      let (er, rest) ← takeN (2 * n) rest; let er ← parseRats? er
      let (nb', reads, rest) ← parseReadBlocks n rest
      if n ≠ 0 ∧ nb' ≠ nb then none else
      let (st, rest) ← parseState n rest
      if (List.zipWith (fun (g : List Nat) (p : Nat) => decide (g.length = p)) st pl).all id = false then none else
      if st.any (fun g => g.any (fun a => decide (a ≥ nh))) then none else
      if pa.any (fun (j : Int) => decide (j ≥ (n : Int))) then none else
      some ({ nb := nb, haps := haps, freqs := fs, ploidy := pl, parents := pairUp pa, tau := pairUp ta,
              lam := pairUp la, err := pairUp er, reads := reads }, st, rest)
    | _ => none
  | _ => none

/-- every `trio_log_pmf` call of the Markov blanket of `t` succeeds -/
def blanketGuard (P : Ped) (s : PedState) (t : Nat) : Bool :=
  trioGuard (trioOf P s t) && (childrenOf P t).all (fun c => trioGuard (trioOf P s c))

def gibbsGuard (P : Ped) (s : PedState) (t k : Nat) : Bool :=
  (List.range P.n).all (fun x =>
    let s' := setAllele s t k x
    trioAlleleGuard (trioOf P s' t) x && (childrenOf P t).all (fun c => trioGuard (trioOf P s' c)))

def mhGuard (P : Ped) (s : PedState) (t k : Nat) : Bool :=
  (List.range P.n).all (fun x => blanketGuard P (setAllele s t k x) t)

def handle : String → Handler
  | "ped.children", toks => do
    let (P, _, rest) ← parsePed toks
    if rest ≠ [] then none else
    some ("|".intercalate ((sampleChildrenMatrix P).map showInts))
  | "ped.gibbs", toks => do
    -- weights of the model (code structure) ; weights with the specification-level trio functions
    let (P, s, rest) ← parsePed toks
    match rest with
    | [t, k] =>
      let t ← parseNat? t; let k ← parseNat? k
      if t ≥ P.size ∨ k ≥ (s.getD t []).length then none else
      if !gibbsGuard P s t k then some "err" else
      let w := pedGibbsWeights P s t k
      if w.sum = 0 then some "nan" else
      let ws := pedGibbsWeightsWith trioAlleleSpec trioPmf P s t k
      some (showRats (gibbsProbabilities P s t k) ++ ";" ++
        (if ws.sum = 0 then "nan" else showRats (ws.map (· / ws.sum))))
    | _ => none
  | "ped.mh", toks => do
    let (P, s, rest) ← parsePed toks
    match rest with
    | [t, k] =>
      let t ← parseNat? t; let k ← parseNat? k
      if t ≥ P.size ∨ k ≥ (s.getD t []).length then none else
      if !mhGuard P s t k then some "err" else
      if likOf P s t * markovBlanketProb P s t = 0 ∨ P.n < 2 then some "nan" else
      some (showRats (metropolisHastingsProbabilities P s t k))
    | _ => none
  | "ped.swap", toks => do
    let (P, s, rest) ← parsePed toks
    match rest with
    | [p, q, ip, iq] =>
      let p ← parseNat? p; let q ← parseNat? q; let ip ← parseNat? ip; let iq ← parseNat? iq
      if p ≥ P.size ∨ q ≥ P.size ∨ ip ≥ (s.getD p []).length ∨ iq ≥ (s.getD q []).length then none else
      let s' := swapState s p q ip iq
      if !((pairBlanket P p q).all (fun i => trioGuard (trioOf P s i) && trioGuard (trioOf P s' i))) then
        some "err" else
      match swapAccept P s p q ip iq with
      | none => some "none"
      | some a =>
        if swapLik P s p q * pairPrior trioPmfCode P s p q = 0 then some "nan" else
        some (showRat a ++ " " ++ showNats (pairBlanket P p q))
    | _ => none
  | "ped.joint", toks => do
    let (P, s, rest) ← parsePed toks
    if rest ≠ [] then none else
    some (showRat (joint P s) ++ " " ++ showRat (jointWith trioPmfCode P s))
  | "ped.blanket", toks => do
    let (P, s, rest) ← parsePed toks
    match rest with
    | [t] =>
      let t ← parseNat? t
      if t ≥ P.size then none else
      if !blanketGuard P s t then some "err" else some (showRat (markovBlanketProb P s t))
    | _ => none
  | _, _ => none

end Driver.C18
