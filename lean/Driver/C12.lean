import MCHap.Model.Loci
import Driver.Util
/-
C12 requests (sequences are tokens over letters / `-`; `,` separates list elements, `|` separates rows,
`~` is an empty list, `!` an empty list of rows):

  loci.derive <ref> <alts>                       → err:assertion | <offs> <alleles> <rows> <formatted|err:index>
  loci.format <seq> <offs> <alleles> <gap> <rows> → <seqs> | err:index
  loci.encode <offs> <alleles> <seqs>            → <rows> | err:index
-/
open MCHap
namespace Driver.C12

def splitList (s : String) : List String := if s = "~" then [] else s.splitOn ","

def parseSeqs (s : String) : List Seq := (splitList s).map String.toList

def parseNatList (s : String) : Option (List Nat) := parseNats? (splitList s)

def parseIntList (s : String) : Option (List Int) := parseInts? (splitList s)

def parseRows (s : String) : Option (List (List Int)) :=
  if s = "!" then some [] else allSome ((s.splitOn "|").map parseIntList)

def showList (l : List String) : String := if l.isEmpty then "~" else ",".intercalate l

def showSeqs (l : List Seq) : String := showList (l.map String.ofList)

def showRows (rows : List (List Int)) : String :=
  if rows.isEmpty then "!" else "|".intercalate (rows.map (fun r => showList (r.map toString)))

def parseVariants (offs alleles : String) : Option (List Variant) := do
  let o ← parseNatList offs
  let a := parseSeqs alleles
  if o.length = a.length then some (o.zip a) else none

def handle : String → Handler
  | "loci.derive", [ref, alts] =>
    match fromRecord ref.toList (parseSeqs alts) with
    | none => some "err:assertion"
    | some L =>
      let offs := showList (L.variants.map (fun v => toString v.1))
      let als := showSeqs (L.variants.map (·.2))
      match encodeHaplotypes L with
      | none => some s!"{offs} {als} err:index err:index"
      | some rows =>
        let fmt := match formatHaplotypes L.sequence L.variants rows with
          | none => "err:index"
          | some ss => showSeqs ss
        some s!"{offs} {als} {showRows rows} {fmt}"
  | "loci.format", [seq, offs, alleles, gap, rows] => do
    let vs ← parseVariants offs alleles
    let rows ← parseRows rows
    match gap.toList with
    | [g] =>
      match formatHaplotypes seq.toList vs rows g with
      | none => some "err:index"
      | some ss => some (showSeqs ss)
    | _ => none
  | "loci.encode", [offs, alleles, seqs] => do
    let vs ← parseVariants offs alleles
    match encodeWith vs (parseSeqs seqs) with
    | none => some "err:index"
    | some rows => some (showRows rows)
  | _, _ => none

end Driver.C12
