import MCHap.Model.Reads
import Driver.Util
open MCHap
/-
Line protocol of C06 (all names are whitespace-free; `*` = empty string / empty list, `-` = absent):

  locus  := <contig> <start> <stop> <n_snv> { <pos> <alleles|*> }
  opts   := <SM|ID> <min_quality> <skip_dup 0|1> <skip_qcfail 0|1> <skip_supp 0|1> <n_samples> { <name> }
  hdr    := <n_rg> { <ID> <SM> }
  read   := <qname> <contig> <flag> <mapq> <pos> <cigar|*> <seq|*> <q,q,…|*|-> <rg|-> <refbases|*|-> <mpos> <isize> <mate_other 0|1>
  reads  := <n_reads> { read }

  c06.extract  locus opts hdr reads                      → ok { <key> <n_rows> { <qname> <chars|*> <quals|*> } } | error:<kind>
  c06.sample   locus opts <err> <-| n {q p}> <n_pool> { <name> hdr reads }
               → ok <rcount> <dp|nan> <snvdp|*> <rcalls> <n_rows> { <calls|*> } <n_unique> { <count> <cells|*> } | keyerror | error:<kind>
  c06.validate <start> <seq|*> <n_snv> { <pos> <alleles|*> }   → ok | mismatch | indexError
-/
namespace Driver.C06

abbrev P (α : Type) := List String → Option (α × List String)

def tok : P String
  | [] => none
  | t :: rest => some (t, rest)

def nat : P Nat := fun ts => do
  let (t, rest) ← tok ts
  let n ← parseNat? t
  some (n, rest)

def int : P Int := fun ts => do
  let (t, rest) ← tok ts
  let n ← parseInt? t
  some (n, rest)

def bool01 : P Bool := fun ts => do
  let (t, rest) ← tok ts
  if t = "1" then some (true, rest) else if t = "0" then some (false, rest) else none

/-- `n` repetitions of a parser -/
def rep {α} (p : P α) : Nat → P (List α)
  | 0, ts => some ([], ts)
  | n + 1, ts => do
    let (x, rest) ← p ts
    let (xs, rest) ← rep p n rest
    some (x :: xs, rest)

def counted {α} (p : P α) : P (List α) := fun ts => do
  let (n, rest) ← nat ts
  rep p n rest

def starString (t : String) : List Char := if t = "*" then [] else t.toList

def parseOp? : Char → Option CigarOp
  | 'M' => some .M | 'I' => some .I | 'D' => some .D | 'N' => some .N | 'S' => some .S
  | 'H' => some .H | 'P' => some .P | '=' => some .EQ | 'X' => some .X
  | _ => none

/-- "20M2D10M" → [(20,M),(2,D),(10,M)]; every op needs a length -/
def parseCigar? (s : String) : Option (List (Nat × CigarOp)) :=
  if s = "*" then some [] else
  let rec go : List Char → Option Nat → List (Nat × CigarOp) → Option (List (Nat × CigarOp))
    | [], none, acc => some acc.reverse
    | [], some _, _ => none
    | c :: t, cur, acc =>
      if c.isDigit then go t (some (cur.getD 0 * 10 + (c.toNat - '0'.toNat))) acc
      else match cur, parseOp? c with
        | some n, some op => go t none ((n, op) :: acc)
        | _, _ => none
  go s.toList none []

def parseQuals? (s : String) : Option (Option (List Nat)) :=
  if s = "-" then some none
  else if s = "*" then some (some [])
  else (parseNats? (s.splitOn ",")).map some

def snv : P Snv := fun ts => do
  let (p, rest) ← nat ts
  let (a, rest) ← tok rest
  some ({ pos := p, alleles := starString a }, rest)

def locus : P Locus := fun ts => do
  let (c, rest) ← tok ts
  let (s, rest) ← nat rest
  let (e, rest) ← nat rest
  let (snvs, rest) ← counted snv rest
  some ({ contig := c, start := s, stop := e, snvs := snvs }, rest)

def opts : P ExtractOpts := fun ts => do
  let (f, rest) ← tok ts
  let f ← if f = "SM" then some IdField.SM else if f = "ID" then some IdField.ID else none
  let (q, rest) ← nat rest
  let (d, rest) ← bool01 rest
  let (qc, rest) ← bool01 rest
  let (su, rest) ← bool01 rest
  let (names, rest) ← counted tok rest
  some ({ idField := f, minQ := q, skipDup := d, skipQc := qc, skipSupp := su, samples := names }, rest)

def rgLine : P ReadGroup := fun ts => do
  let (i, rest) ← tok ts
  let (s, rest) ← tok rest
  some ((i, s), rest)

def hdr : P (List ReadGroup) := counted rgLine

def aln : P Aln := fun ts => do
  let (qn, rest) ← tok ts
  let (c, rest) ← tok rest
  let (fl, rest) ← nat rest
  let (mq, rest) ← nat rest
  let (p, rest) ← nat rest
  let (cg, rest) ← tok rest
  let cg ← parseCigar? cg
  let (sq, rest) ← tok rest
  let (ql, rest) ← tok rest
  let ql ← parseQuals? ql
  let (rg, rest) ← tok rest
  let (rb, rest) ← tok rest
  let (mp, rest) ← int rest
  let (isz, rest) ← int rest
  let (mo, rest) ← bool01 rest
  some ({ qname := qn, contig := c, flag := fl, mapq := mq, pos := p, cigar := cg, seq := starString sq,
          quals := ql, rg := if rg = "-" then none else some rg,
          refBases := if rb = "-" then none else some (starString rb),
          mpos := mp, isize := isz, mateOtherContig := mo }, rest)

def alns : P (List Aln) := counted aln

def showErr : ExtractError → String
  | .refMismatch => "error:refMismatch"
  | .noMD => "error:noMD"
  | .noRGTag => "error:noRGTag"
  | .unknownRG => "error:unknownRG"
  | .noBaseOrQual => "error:noBaseOrQual"
  | .noAlleles => "error:noAlleles"

def starIfEmpty (s : String) : String := if s = "" then "*" else s

def showRow (qr : String × Row) : String :=
  s!"{qr.1} {starIfEmpty (String.ofList (qr.2.map Prod.fst))} {starIfEmpty (",".intercalate (qr.2.map (fun c => toString c.2)))}"

def showSample (ks : String × SampleData) : String :=
  " ".intercalate (s!"{ks.1} {ks.2.length}" :: ks.2.map showRow)

def showCall : Option Nat → String
  | none => "-1"
  | some a => toString a

def showCell : Option Rat → String
  | none => "nan"
  | some q => showRat q

def showDist (dc : Dist × Nat) : String :=
  s!"{dc.2} {starIfEmpty (",".intercalate (dc.1.flatMap (fun site => site.map showCell)))}"

def showStats (s : SampleStats) : Option String := do
  let ds ← s.dists
  let dp := match s.dp with | none => "nan" | some d => toString d
  let head := s!"ok {s.rcount} {dp} {starIfEmpty (",".intercalate (s.snvdp.map toString))} {s.rcalls} {s.calls.length}"
  let calls := s.calls.map (fun r => starIfEmpty (",".intercalate (r.map showCall)))
  some (" ".intercalate ([head] ++ calls ++ [toString ds.length] ++ ds.map showDist))

def phredEntry : P (Nat × Rat) := fun ts => do
  let (q, rest) ← nat ts
  let (p, rest) ← tok rest
  let p ← parseRat? p
  some ((q, p), rest)

def phredTable : P (Option (List (Nat × Rat))) := fun ts =>
  match ts with
  | "-" :: rest => some (none, rest)
  | _ => do
    let (tbl, rest) ← counted phredEntry ts
    some (some tbl, rest)

def member : P PoolMember := fun ts => do
  let (n, rest) ← tok ts
  let (h, rest) ← hdr rest
  let (rs, rest) ← alns rest
  some ({ name := n, hdr := h, reads := rs }, rest)

def handle : String → Handler
  | "c06.extract", toks => do
    let (L, rest) ← locus toks
    let (o, rest) ← opts rest
    let (h, rest) ← hdr rest
    let (rs, rest) ← alns rest
    if rest ≠ [] then none else
    match extract L h o rs with
    | .error e => some (showErr e)
    | .ok d => some (" ".intercalate ("ok" :: d.map showSample))
  | "c06.sample", toks => do
    let (L, rest) ← locus toks
    let (o, rest) ← opts rest
    let (e, rest) ← tok rest
    let e ← parseRat? e
    let (ph, rest) ← phredTable rest
    let (pool, rest) ← counted member rest
    if rest ≠ [] then none else
    match poolRows L o pool with
    | .error e => some (showErr e)
    | .ok none => some "keyerror"
    | .ok (some rows) => showStats (sampleStats L e ph rows)
  | "c06.validate", toks => do
    let (start, rest) ← nat toks
    let (sq, rest) ← tok rest
    let (snvs, rest) ← counted snv rest
    if rest ≠ [] then none else
    match validateRef (starString sq) start snvs with
    | .ok => some "ok"
    | .mismatch => some "mismatch"
    | .indexError => some "indexError"
  | _, _ => none

end Driver.C06
