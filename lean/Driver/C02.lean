import MCHap.Model.CallMoves
import Driver.Instance
import Driver.C05
open MCHap
namespace Driver.C02

def showRats (l : List Rat) : String := " ".intercalate (l.map showRat)

/-- `<reads block> <haplotypes block> <F> <flat|freqs…> …` -/
def parseCall (toks : List String) : Option (CallParams × List String) := do
  let (nb, _, rs, rest) ← parseReads toks
  let (haps, rest) ← parseGenotype nb rest
  match rest with
  | f :: rest =>
    let f ← parseRat? f
    let (freqs, rest) ← Driver.C05.parseFreqs haps.length rest
    some ({ reads := rs, nb := nb, haps := haps, F := f, freqs := freqs }, rest)
  | _ => none

def handle : String → Handler
  | "call.gibbs", toks => do
    let (P, rest) ← parseCall toks
    match rest with
    | k :: a =>
      let k ← parseNat? k; let a ← parseNats? a
      if k < a.length then some (showRats (gibbsProbs P a k)) else none
    | _ => none
  | "call.mh", toks => do
    let (P, rest) ← parseCall toks
    match rest with
    | k :: a =>
      let k ← parseNat? k; let a ← parseNats? a
      if k < a.length then some (showRats (mhProbs P a k)) else none
    | _ => none
  | "call.w", toks => do
    let (P, rest) ← parseCall toks
    let a ← parseNats? rest
    some (showRat (callW P a))
  | "exact.all", toks => do
    -- posterior array ; stream (idx gpm) ; array (idx gpm) ; mode genotype ; spm ; afp ; acp ; aop
    let (P, rest) ← parseCall toks
    match rest with
    | [p] =>
      let p ← parseNat? p
      let post := exactPosterior P p
      let (si, sg) := streamCall P p
      let (ai, ag) := arrayCall P p
      let g := indexGenotype si p
      some (";".intercalate [showRats post, s!"{si} {showRat sg}", s!"{ai} {showRat ag}", showNats g,
        showRat (supportProb P p g), showRats (alleleFreqs P p), showRats (alleleCounts P p),
        showRats (alleleOccur P p), showRats (exactJoint P p)])
    | _ => none
  | "call.compound", toks => do
    -- <ploidy> <genotype…> <order…> <choices…>
    match toks with
    | n :: rest =>
      let n ← parseNat? n
      let xs ← parseNats? rest
      if xs.length = 3 * n then
        some (showNats (compoundStep (xs.take n) ((xs.drop n).take n) (xs.drop (2 * n))))
      else none
    | _ => none
  | "call.sort", toks => do
    let a ← parseNats? toks
    some (showNats (sortAlleles a))
  | _, _ => none

end Driver.C02
