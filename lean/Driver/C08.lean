import MCHap.Model.Sched
import Driver.Util
open MCHap
/-
Line protocol of C08 (all loci are the numbers `0 .. n-1`; a failing locus is one whose `call` is `none`):

* `sched.split <n> <k>`                     → the block sizes of `arraySplit k (range n)`, or `error:ValueError` for k = 0
* `sched.shuffle <k> <n> <o_1> .. <o_m>`    → `true` / `false`: is the order an interleaving of the blocks (`isShuffle`)
* `sched.single <n> <nf> <f_1..f_nf>`       → `<ok|err> | <lines written>` of `runSingle`
* `sched.run <k> <n> <nf> <f_1..f_nf> <a_1> .. <a_m>`   with actors `w<i>`, `m`, `r`
      → `<exit> | <out> | <queue length> | <main>` after the whole schedule (`exit` = ok / err / running),
        or `stuck <j>` when move `j` (0-based) is not enabled
-/
namespace Driver.C08

def callOf (fails : List Nat) (l : Nat) : Option Nat := if fails.contains l then none else some l

def parseActor (s : String) : Option Actor :=
  if s = "m" then some .main
  else if s = "r" then some .writer
  else if s.startsWith "w" then (s.drop 1).toNat?.map .worker
  else none

def showExit : Option Bool → String
  | some true => "ok"
  | some false => "err"
  | none => "running"

def showMain : MainSt → String
  | .waiting j => s!"waiting{j}"
  | .raised => "raised"
  | .finished => "finished"

/-- like `runSchedule`, but reports the index of the first move that is not enabled -/
def runFrom (call : Nat → Option Nat) : Proto Nat Nat → List Actor → Nat → Except Nat (Proto Nat Nat)
  | s, [], _ => .ok s
  | s, a :: as, j =>
    match step? call s a with
    | none => .error j
    | some s' => runFrom call s' as (j + 1)

def handle : String → Handler
  | "sched.split", [n, k] => do
    let n ← parseNat? n; let k ← parseNat? k
    match arraySplit k (List.range n) with
    | none => some "error:ValueError"
    | some bs => some (showNats (bs.map List.length))
  | "sched.shuffle", k :: n :: order => do
    let k ← parseNat? k; let n ← parseNat? n
    let order ← parseNats? order
    match arraySplit k (List.range n) with
    | none => some "error:ValueError"
    | some bs => some (toString (isShuffle bs order))
  | "sched.single", n :: nf :: rest => do
    let n ← parseNat? n; let nf ← parseNat? nf
    let fails ← parseNats? rest
    if fails.length ≠ nf then none else
    let P : Prog Nat Nat Nat := { list := some, call := callOf fails }
    let (ok, out) := runSingle P (List.range n)
    some s!"{if ok then "ok" else "err"} | {showNats out}"
  | "sched.run", k :: n :: nf :: rest => do
    let k ← parseNat? k; let n ← parseNat? n; let nf ← parseNat? nf
    if rest.length < nf then none else
    let fails ← parseNats? (rest.take nf)
    let acts ← allSome ((rest.drop nf).map parseActor)
    match arraySplit k (List.range n) with
    | none => some "error:ValueError"
    | some bs =>
      match runFrom (callOf fails) (Proto.init bs) acts 0 with
      | .error j => some s!"stuck {j}"
      | .ok s => some s!"{showExit s.exited} | {showNats s.out} | {s.queue.length} | {showMain s.main}"
  | _, _ => none

end Driver.C08
