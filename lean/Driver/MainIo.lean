import Driver.Loop
import Driver.C06
import Driver.C19

/-- handlers of this executable; each builder adds `Driver.Cxx.handle` here -/
def main : IO Unit := Driver.runMain [Driver.C06.handle, Driver.C19.handle]
