import MCHap.Model.FindSnvs
import Driver.C06
open MCHap
/-
Line protocol of C19 (record syntax as in C06):

  thresh := <maf> <mad> <ind_maf> <ind_mad> <min_ind>            (rationals as num/den, integers signed)
  cfg    := <min_quality> <skip_dup 0|1> <skip_qcfail 0|1> <skip_supp 0|1>

  c19.depths <contig> <start> <stop> cfg <n_bam> { reads }        → per position `a,c,g,t|a,c,g,t|…` (one group per BAM)
  c19.sites  thresh <n_samples> <n_pos> { <ref_char> { <a,c,g,t> per sample } }
                                                                  → per position `-` or `<ref> <alts|*> <0|1 refmasked> <popAD> <ADMF> <AD|AD…>`
  c19.block  <contig> <start> <stop> <refseq> thresh cfg <n_bam> { reads }
                                                                  → <n_records> { <pos0> <ref> <alts|*> <refmasked> <popAD> <ADMF> <AD|AD…> }
-/
namespace Driver.C19
open Driver.C06

def cfg : P FilterCfg := fun ts => do
  let (q, rest) ← nat ts
  let (d, rest) ← bool01 rest
  let (qc, rest) ← bool01 rest
  let (su, rest) ← bool01 rest
  some ({ minQ := q, skipDup := d, skipQc := qc, skipSupp := su }, rest)

def rat : P Rat := fun ts => do
  let (t, rest) ← tok ts
  let q ← parseRat? t
  some (q, rest)

def thresh : P Thresh := fun ts => do
  let (maf, rest) ← rat ts
  let (mad, rest) ← int rest
  let (imaf, rest) ← rat rest
  let (imad, rest) ← int rest
  let (mi, rest) ← int rest
  some ({ maf := maf, mad := mad, indMaf := imaf, indMad := imad, minInd := mi }, rest)

def depth4 : P (List Nat) := fun ts => do
  let (t, rest) ← tok ts
  let d ← parseNats? (t.splitOn ",")
  if d.length = 4 then some (d, rest) else none

def showDepth (d : List Nat) : String := ",".intercalate (d.map toString)

def nucl (i : Nat) : String := (["A", "C", "G", "T"].getD i "?")

def showKey : Option Rat → String
  | none => "nan"
  | some q => showRat q

def showSite (r : SiteRecord) : String :=
  let alts := "".intercalate (r.alts.map nucl)
  s!"{nucl r.ref} {if alts = "" then "*" else alts} {if r.refMasked then 1 else 0} {showDepth r.popAd} " ++
  s!"{",".intercalate (r.admf.map showKey)} {"|".intercalate (r.ad.map showDepth)}"

def site (n : Nat) : P (Char × List (List Nat)) := fun ts => do
  let (c, rest) ← tok ts
  let c ← match c.toList with | [c] => some c | _ => none
  let (ds, rest) ← rep depth4 n rest
  some ((c, ds), rest)

def handle : String → Handler
  | "c19.depths", toks => do
    let (c, rest) ← tok toks
    let (s, rest) ← nat rest
    let (e, rest) ← nat rest
    let (f, rest) ← cfg rest
    let (bams, rest) ← counted alns rest
    if rest ≠ [] then none else
    let d := bamRegionDepths f bams c s e
    some (if d.isEmpty then "*" else " ".intercalate (d.map (fun per => "|".intercalate (per.map showDepth))))
  | "c19.sites", toks => do
    let (t, rest) ← thresh toks
    let (n, rest) ← nat rest
    let (sites, rest) ← counted (site n) rest
    if rest ≠ [] then none else
    some (if sites.isEmpty then "*" else
      " ; ".intercalate (sites.map (fun cd => match siteRecord t cd.1 cd.2 with | none => "-" | some r => showSite r)))
  | "c19.block", toks => do
    let (c, rest) ← tok toks
    let (s, rest) ← nat rest
    let (e, rest) ← nat rest
    let (sq, rest) ← tok rest
    let (t, rest) ← thresh rest
    let (f, rest) ← cfg rest
    let (bams, rest) ← counted alns rest
    if rest ≠ [] then none else
    let d := bamRegionDepths f bams c s e
    let recs := blockRecords t s (starString sq) d
    some (" ; ".intercalate (toString recs.length :: recs.map (fun pr => s!"{pr.1} {showSite pr.2}")))
  | _, _ => none

end Driver.C19
