import MCHap.Model.ArrayMap
import Driver.Util
open MCHap
namespace Driver.C09

def showVal : Option Rat → String
  | none => "nan"
  | some q => showRat q

def showState (m : AMap) : String :=
  s!"{m.treeLen} {m.valuesLen} {m.emptyNode} {m.emptyValues} {if m.boundsOk then 1 else 0}"

/-- a whole operation sequence in one request (the map is state):
    `amap.run <keyLen> <branches> <initial> <max> <ops…>` with ops
    `s <key…> <value|nan>` and `g <key…>`; reply: one token group per op separated by `;` -/
partial def runOps (m : AMap) (keyLen : Nat) : List String → List String → Option (List String)
  | [], acc => some acc.reverse
  | "g" :: rest, acc => do
    let (k, rest) ← (if rest.length < keyLen then none else some (rest.take keyLen, rest.drop keyLen))
    let key ← parseNats? k
    runOps m keyLen rest (s!"g {showVal (m.get key)}" :: acc)
  | "s" :: rest, acc => do
    let (k, rest) ← (if rest.length < keyLen + 1 then none else some (rest.take keyLen, rest.drop keyLen))
    let key ← parseNats? k
    match rest with
    | v :: rest =>
      let v ← parseCell? v
      match m.set key v true with
      | .ok m' => runOps m' keyLen rest (s!"s ok {showState m'}" :: acc)
      | .flushed m' => runOps m' keyLen rest (s!"s flushed {showState m'}" :: acc)
      | .full => some (("s full" :: acc).reverse)
    | [] => none
  | "S" :: rest, acc => do   -- set with empty_if_full = False
    let (k, rest) ← (if rest.length < keyLen + 1 then none else some (rest.take keyLen, rest.drop keyLen))
    let key ← parseNats? k
    match rest with
    | v :: rest =>
      let v ← parseCell? v
      match m.set key v false with
      | .ok m' => runOps m' keyLen rest (s!"s ok {showState m'}" :: acc)
      | .flushed m' => runOps m' keyLen rest (s!"s flushed {showState m'}" :: acc)
      | .full => runOps m keyLen rest ("s error:ValueError" :: acc)
    | [] => none
  | _, _ => none

def handle : String → Handler
  | "amap.run", kl :: br :: ini :: mx :: ops => do
    let kl ← parseNat? kl; let br ← parseNat? br; let ini ← parseNat? ini; let mx ← parseNat? mx
    let out ← runOps (AMap.new kl br ini mx) kl ops []
    some (";".intercalate out)
  | _, _ => none

end Driver.C09
