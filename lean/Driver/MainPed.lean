import Driver.Loop

/-- handlers of this executable; each builder adds `Driver.Cxx.handle` here -/
def main : IO Unit := Driver.runMain []
