import Driver.Loop
import Driver.C17
import Driver.C18

/-- handlers of this executable; each builder adds `Driver.Cxx.handle` here -/
def main : IO Unit := Driver.runMain [Driver.C17.handle, Driver.C18.handle]
