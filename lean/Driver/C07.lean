import MCHap.Model.Vcf
import Driver.Util
open MCHap MCHap.Vcf
/-
C07 ops (tokens are whitespace separated; a VCF line is sent with its tabs turned into spaces — the
harness refuses lines with empty columns or embedded blanks before they get here):

  vcf.check <header> <ploidies> <refwindow> <snvs> <col1> … <colN>   → ok | err:<conjunct> | err:parse
      header   = `I:<id>:<number>:<type>,…,F:<id>:<number>:<type>,…,X:<filter id>,…`
      ploidies = `p1,p2,…`            snvs = `-` | `pos:ALLELES,pos:ALLELES,…`
  vcf.card <nAlt> <ploidy> <number>                                   → n | any
  vcf.gtsort <int…>            (labels, −1 = unlisted)                → sorted alleles, negatives last
  vcf.gtfmt <int…>                                                    → GT string
  vcf.gtparse <GT string> <nAlt>                                      → ok:<sorted 0/1>:<entries> | bad
  vcf.sum <nAlt> <gt>…         (gt = `0/1/.` tokens)                  → AC(,) AN UAN NS | error:IndexError
  vcf.rsum <ACP|AFP|AOP|SUM> <nAlt> <totalPloidy> <row>…  (row = `q,q,nan`) → values | error:ValueError
  vcf.str <s|a> <rat|nan>…                                            → vcfstr text
  vcf.gsize <nAlt> <ploidy> <refCalled 0|1>             → call size, assemble GP size (program), default-sized (len(labels))
  vcf.gparr <prog|default> <nAlt> <ploidy> <refCalled> <g>…  (g = `0/1/1`)   → length | error:IndexError
  vcf.relabel <prog|default> <mask bits e.g. 0101>                    → n_allele of `relabel`
-/
namespace Driver.C07

def parseNumber? (s : String) : Option Number :=
  match s with
  | "A" => some .A
  | "R" => some .R
  | "G" => some .G
  | "." => some .dot
  | _ => (Vcf.parseNat? s.toList).map .fixed

def parseType? (s : String) : Option VType :=
  match s with
  | "Integer" => some .integer
  | "Float" => some .float
  | "String" => some .string
  | "Flag" => some .flag
  | "Character" => some .character
  | _ => none

def parseHeader? (s : String) : Option Header :=
  (s.splitOn ",").foldlM (fun (h : Header) item =>
    match item.splitOn ":" with
    | ["I", id, n, t] => do
      let n ← parseNumber? n; let t ← parseType? t
      some { h with info := h.info ++ [⟨id, n, t⟩] }
    | ["F", id, n, t] => do
      let n ← parseNumber? n; let t ← parseType? t
      some { h with format := h.format ++ [⟨id, n, t⟩] }
    | ["X", id] => some { h with filters := h.filters ++ [id] }
    | _ => none) ⟨[], [], []⟩

def parseSnvs? (s : String) : Option (List (Nat × List Char)) :=
  if s = "-" then some [] else
  allSome ((s.splitOn ",").map (fun item =>
    match item.splitOn ":" with
    | [p, als] => (Vcf.parseNat? p.toList).map (fun p => (p, als.toList))
    | _ => none))

def parseGTTok? (s : String) : Option (List (Option Nat)) := parseGT s

def parseRow? (s : String) : Option (List (Option Rat)) :=
  allSome ((s.splitOn ",").map parseCell?)

def showCell : Option Rat → String
  | none => "nan"
  | some q => showRat q

def showRow (l : List (Option Rat)) : String := ",".intercalate (l.map showCell)

def showEntries (g : List (Option Nat)) : String := "/".intercalate (g.map renderEntry)

def handle : String → Handler
  | "vcf.check", hdr :: pls :: refw :: snvs :: cols => do
    let h ← parseHeader? hdr
    let pls ← parseNats? (pls.splitOn ",")
    let snvs ← parseSnvs? snvs
    match parseLine cols with
    | none => some "err:parse"
    | some r =>
      match validRecord h r ⟨pls, refw.toList, snvs⟩ with
      | .ok _ => some "ok"
      | .error e => some s!"err:{e.name}"
  | "vcf.card", [nAlt, p, num] => do
    let nAlt ← parseNat? nAlt; let p ← parseNat? p; let num ← parseNumber? num
    match expectedCard nAlt p num with
    | some n => some (toString n)
    | none => some "any"
  | "vcf.gtsort", toks => do
    let l ← parseInts? toks
    some (showInts (genotypeAsAlleles l))
  | "vcf.gtfmt", toks => do
    let l ← parseInts? toks
    some (formatGT l)
  | "vcf.gtparse", [gt, nAlt] => do
    let nAlt ← parseNat? nAlt
    match parseGT gt with
    | none => some "bad"
    | some g => some s!"ok:{if gtSortedB g && gtAllelesOkB nAlt g then 1 else 0}:{showEntries g}"
  | "vcf.sum", nAlt :: gts => do
    let nAlt ← parseNat? nAlt
    let gts ← allSome (gts.map parseGTTok?)
    match summariseGT nAlt gts with
    | none => some "error:IndexError"
    | some s => some s!"{",".intercalate (s.ac.map toString)} {s.an} {s.uan} {s.ns}"
  | "vcf.rsum", kind :: nAlt :: tp :: rows => do
    let nAlt ← parseNat? nAlt; let tp ← parseNat? tp
    let rows ← allSome (rows.map parseRow?)
    let res ← match kind with
      | "ACP" => some (infoACP nAlt rows)
      | "AFP" => some (infoAFP nAlt rows tp)
      | "AOP" => some (infoAOP nAlt rows)
      | "SUM" => some (sumRows rows)
      | _ => none
    match res with
    | none => some "error:ValueError"
    | some v => some (showRow v)
  | "vcf.str", kind :: vals => do
    let vals ← parseCells? vals
    match kind, vals with
    | "s", [v] => some (vcfstrScalar v)
    | "a", vs => some (vcfstrArray vs)
    | _, _ => none
  | "vcf.gsize", [nAlt, p, rc] => do
    let nAlt ← parseNat? nAlt; let p ← parseNat? p; let rc ← parseNat? rc
    some s!"{callGArraySize nAlt p} {assembleGPSize nAlt (rc != 0) p} {gpArraySize (assembleNLabels nAlt (rc != 0)) none p}"
  | "vcf.gparr", mode :: nAlt :: p :: rc :: gs => do
    let nAlt ← parseNat? nAlt; let p ← parseNat? p; let rc ← parseNat? rc
    let gs ← allSome (gs.map (fun g => parseNats? (g.splitOn "/")))
    let entries := gs.map (fun g => (g, (1 : Rat)))
    let res ← match mode with
      | "prog" => some (assembleGPArray nAlt (rc != 0) p entries)
      | "default" => some (gpArrayFill (gpArraySize (assembleNLabels nAlt (rc != 0)) none p) entries)
      | _ => none
    match res with
    | none => some "error:IndexError"
    | some a => some (toString a.length)
  | "vcf.relabel", [mode, bits] => do
    let mask ← allSome (bits.toList.map (fun c => if c = '1' then some true else if c = '0' then some false else none))
    match mode with
    | "prog" => some (toString (callRelabelNAllele mask))
    | "default" => some (toString (relabelNAllele (keptLabels mask) none))
    | _ => none
  | _, _ => none

end Driver.C07
