import MCHap.Model.Sweep
import Driver.Instance
open MCHap
namespace Driver.C15

def showRats (l : List Rat) : String := " ".intercalate (l.map showRat)

def handle : String → Handler
  | "sweep.table", [p, nb] => do
    let p ← parseNat? p; let nb ← parseNat? nb
    some (" ".intercalate ((substeps p nb).map (fun hj => s!"{hj.1}:{hj.2}")))
  | "sweep.table8", [p, nb] => do
    let p ← parseNat? p; let nb ← parseNat? nb
    some (" ".intercalate ((substepsInt8 p nb).map (fun hj => s!"{hj.1}:{hj.2}")))
  | "sweep.breaks", n :: choices => do
    let n ← parseNat? n; let cs ← parseNats? choices
    match randomBreaks n cs with
    | none => some "error:ValueError"
    | some ivs => some (" ".intercalate (ivs.map (fun ab => s!"{ab.1}:{ab.2}")))
  | "sweep.hom", toks => do
    let (_, _, rs, rest) ← parseReads toks
    match rest with
    | p :: f :: nas =>
      let p ← parseNat? p; let f ← parseRat? f; let nas ← parseNats? nas
      some (";".intercalate ((homProbs rs nas p f).map showRats))
    | _ => none
  | "sweep.fix", thr :: probs => do
    let thr ← parseRat? thr; let ps ← parseRats? probs
    match fixedAllele thr ps with
    | none => some "none"
    | some a => some (toString a)
  | "sweep.reinsert", toks => do
    -- `<n_sites> <pattern: x | allele>… <ploidy> <n_het> <alleles…>`
    match toks with
    | n :: rest =>
      let n ← parseNat? n
      let (pat, rest) ← takeN n rest
      let fixed ← allSome (pat.map (fun t => if t = "x" then some none else (parseNat? t).map some))
      let nHet := (fixed.filter Option.isNone).length
      let (g, rest) ← parseGenotype nHet rest
      if rest ≠ [] then none else some (showGenotype (reinsert fixed g))
    | _ => none
  | "sweep.restrict", toks => do
    -- `<n_sites> <pattern: x | allele>… <ploidy> <alleles…>` (full-length rows)
    match toks with
    | n :: rest =>
      let n ← parseNat? n
      let (pat, rest) ← takeN n rest
      let fixed ← allSome (pat.map (fun t => if t = "x" then some none else (parseNat? t).map some))
      let (g, rest) ← parseGenotype n rest
      if rest ≠ [] then none else some (showGenotype (restrict fixed g))
    | _ => none
  | _, _ => none

end Driver.C15
