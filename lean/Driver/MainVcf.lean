import Driver.Loop
import Driver.C07
import Driver.C20

/-- handlers of this executable; each builder adds `Driver.Cxx.handle` here -/
def main : IO Unit := Driver.runMain [Driver.C07.handle, Driver.C20.handle]
