import MCHap.Model.Loci
import Driver.Util
import Driver.C12
/-
C16 requests. Strings (filter strings, field names, tags) are hex-encoded byte strings, `~` = empty.

  flt.parse <hex>                              → ok <fieldhex> <op> <num/den> <int|float> | err:<kind>
  flt.apply <record…> <fieldhex> <op> <value>  → <keep bits> | err:<kind>
  lp <record…> <taghex|-> <filterhex|->        → err:<kind>
        | <keep> <maskRef> <raw> <freqs|nan> <labels> <scenario> <exactScenario> <callFreqs> <callNAllele> <defaultRelabelN>
  relabel <labels> <genotype> <n_allele|->     → <alleles> <n_allele> | err:index
  postcounts <nAllele> <rows>                  → <counts>

  record = <nAlts> <refMasked 0|1> <k> then k × (<namehex> <R|A|1|N> <i|f> <absent | v,v,…>), a value is num/den or `.`
-/
open MCHap
namespace Driver.C16
open Driver.C12 (splitList showList parseNatList parseRows)

def hexVal (c : Char) : Option Nat :=
  if c.isDigit then some (c.toNat - 48)
  else if 'a' ≤ c ∧ c ≤ 'f' then some (c.toNat - 87)
  else none

def unhexChars : List Char → Option (List Char)
  | [] => some []
  | a :: b :: t => do
    let x ← hexVal a; let y ← hexVal b
    let r ← unhexChars t
    some (Char.ofNat (16 * x + y) :: r)
  | _ => none

def unhex (s : String) : Option String :=
  if s = "~" then some "" else (unhexChars s.toList).map String.ofList

def hexDigit (n : Nat) : Char := if n < 10 then Char.ofNat (48 + n) else Char.ofNat (87 + n)

def hex (s : String) : String :=
  if s.isEmpty then "~" else
  String.ofList (s.toList.flatMap (fun c => [hexDigit (c.toNat / 16 % 16), hexDigit (c.toNat % 16)]))

def showErr : Err → String
  | .invalidFilter => "err:invalidFilter"
  | .invalidOperator => "err:invalidOperator"
  | .nonNumeric => "err:nonNumeric"
  | .notInHeader => "err:notInHeader"
  | .invalidLength => "err:invalidLength"
  | .assertion => "err:assertion"
  | .typeError => "err:typeError"
  | .invalidHeader => "err:invalidHeader"
  | .freqLength => "err:freqLength"

def showCmp : Cmp → String
  | .eq => "eq" | .gt => "gt" | .ge => "ge" | .lt => "lt" | .le => "le" | .ne => "ne"

def parseCmp : String → Option Cmp
  | "eq" => some .eq | "gt" => some .gt | "ge" => some .ge
  | "lt" => some .lt | "le" => some .le | "ne" => some .ne
  | _ => none

def parseObs (s : String) : Option (Option Rat) :=
  if s = "." then some none else (parseRat? s).map some

def parseValues (s : String) : Option (Option (List (Option Rat))) :=
  if s = "absent" then some none else (allSome ((splitList s).map parseObs)).map some

def parseNumber : String → Option Number
  | "R" => some .R | "A" => some .A | "1" => some .one | "N" => some .other | _ => none

def parseFields : Nat → List String → Option (List InfoField × List String)
  | 0, rest => some ([], rest)
  | k + 1, name :: num :: ty :: vals :: rest => do
    let name ← unhex name
    let num ← parseNumber num
    let isInt ← (if ty = "i" then some true else if ty = "f" then some false else none)
    let vals ← parseValues vals
    let (fs, rest) ← parseFields k rest
    some ({ name := name, number := num, isInt := isInt, values := vals } :: fs, rest)
  | _, _ => none

def parseRecord : List String → Option (RecordM × List String)
  | n :: m :: k :: rest => do
    let n ← parseNat? n
    let m ← (if m = "1" then some true else if m = "0" then some false else none)
    let k ← parseNat? k
    let (fs, rest) ← parseFields k rest
    some ({ nAlts := n, refMasked := m, info := fs }, rest)
  | _ => none

def showBits (l : List Bool) : String := showList (l.map (fun b => if b then "1" else "0"))
def showRats (l : List Rat) : String := showList (l.map showRat)
def showNatL (l : List Nat) : String := showList (l.map toString)

def showScenario : Scenario → String
  | .valid => "valid" | .noa => "NOA" | .af0 => "AF0"

def optStr (s : String) : Option (Option String) :=
  if s = "-" then some none else (unhex s).map some

def handle : String → Handler
  | "flt.parse", [h] => do
    let s ← unhex h
    match parseAlleleFilter s with
    | .error e => some (showErr e)
    | .ok f => some s!"ok {hex f.field} {showCmp f.op} {showRat f.value} {if f.isInt then "int" else "float"}"
  | "flt.apply", toks => do
    let (r, rest) ← parseRecord toks
    match rest with
    | [field, op, v] =>
      let field ← unhex field; let op ← parseCmp op; let v ← parseRat? v
      match applyAlleleFilter r field op v with
      | .error e => some (showErr e)
      | .ok keep => some (showBits keep)
    | _ => none
  | "lp", toks => do
    let (r, rest) ← parseRecord toks
    match rest with
    | [tag, flt] =>
      let tag ← optStr tag; let flt ← optStr flt
      match locusPrior r tag flt with
      | .error e => some (showErr e)
      | .ok P =>
        let fr := match P.freqs with | none => "nan" | some fs => showRats fs
        some s!"{showBits P.keep} {if P.maskRef then 1 else 0} {showRats P.raw} {fr} {showNatL (callLabels P)} {showScenario (callScenario P)} {showScenario (exactScenario P)} {showRats (callFrequencies P)} {callNAllele P} {relabelNAllele (callLabels P)}"
    | _ => none
  | "relabel", [labels, g, n] => do
    let labels ← parseNatList labels; let g ← parseNatList g
    let n ← (if n = "-" then some none else (parseNat? n).map some)
    match relabel labels g with
    | none => some "err:index"
    | some a => some s!"{showNatL a} {relabelNAlleleWith labels n}"
  | "postcounts", [n, rows] => do
    let n ← parseNat? n
    let rows ← parseRows rows
    if rows.any (fun r => r.any (· < 0)) then none else
    some (showNatL (posteriorCounts n (rows.map (fun r => r.map Int.toNat))))
  | _, _ => none

end Driver.C16
