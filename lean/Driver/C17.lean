import MCHap.Model.Pedigree
import Driver.Instance
open MCHap
namespace Driver.C17

def showRats (l : List Rat) : String := " ".intercalate (l.map showRat)
def showVecs (l : List (List Nat)) : String := "|".intercalate (l.map showNats)

/-- `<m> <m naturals>` -/
def parseVec (toks : List String) : Option (List Nat × List String) :=
  match toks with
  | m :: rest => do
    let m ← parseNat? m
    let (v, rest) ← takeN m rest
    let v ← parseNats? v
    some (v, rest)
  | _ => none

/-- `<m> <m integers>` -/
def parseIVec (toks : List String) : Option (List Int × List String) :=
  match toks with
  | m :: rest => do
    let m ← parseNat? m
    let (v, rest) ← takeN m rest
    let v ← parseInts? v
    some (v, rest)
  | _ => none

def parseRVec (toks : List String) : Option (List Rat × List String) :=
  match toks with
  | m :: rest => do
    let m ← parseNat? m
    let (v, rest) ← takeN m rest
    let v ← parseRats? v
    some (v, rest)
  | _ => none

/-- `<d vec> <dp vec> <dq vec> pp pq tp tq lp lq ep eq <fs vec>` -/
def parseTrio (toks : List String) : Option (Trio × List String) := do
  let (d, rest) ← parseVec toks
  let (dp, rest) ← parseVec rest
  let (dq, rest) ← parseVec rest
  match rest with
  | pp :: pq :: tp :: tq :: lp :: lq :: ep :: eq :: rest =>
    let pp ← parseNat? pp; let pq ← parseNat? pq; let tp ← parseNat? tp; let tq ← parseNat? tq
    let lp ← parseRat? lp; let lq ← parseRat? lq; let ep ← parseRat? ep; let eq ← parseRat? eq
    let (fs, rest) ← parseRVec rest
    if dp.length ≠ d.length ∨ dq.length ≠ d.length ∨ fs.length ≠ d.length then none else
    some ({ d := d, dp := dp, dq := dq, pp := pp, pq := pq, tp := tp, tq := tq,
            lp := lp, lq := lq, ep := ep, eq := eq, fs := fs }, rest)
  | _ => none

def showOptBool : Option Bool → String
  | none => "err"
  | some true => "true"
  | some false => "false"

def handle : String → Handler
  | "ped.slots", toks => do
    -- progeny, parent p, parent q as allele arrays -> the three scratch vectors of the code
    let (g, rest) ← parseIVec toks
    let (p, rest) ← parseIVec rest
    let (q, rest) ← parseIVec rest
    if rest ≠ [] then none else
    some (showVecs [setAllelicDosage g, setParentalCopies p g, setParentalCopies q g])
  | "ped.init", tau :: toks => do
    let tau ← parseNat? tau
    let (c, rest) ← parseVec toks
    if rest ≠ [] then none else
    match setInitialDosage tau c with
    | none => some "err"
    | some g => some (showNats g)
  | "ped.incr", toks => do
    let (d, rest) ← parseVec toks
    let (c, rest) ← parseVec rest
    if rest ≠ [] ∨ d.length ≠ c.length then none else
    match incrementDosage d c with
    | none => some "err"
    | some g => some (showNats g)
  | "ped.enum", tau :: toks => do
    let tau ← parseNat? tau
    let (c, rest) ← parseVec toks
    if rest ≠ [] then none else
    match enumDosage? tau c with
    | none => some "err"
    | some l => some (showVecs l)
  | "ped.gamete", toks => do
    -- <g vec> tau <dp vec> pp lam
    let (g, rest) ← parseVec toks
    match rest with
    | tau :: rest =>
      let tau ← parseNat? tau
      let (dp, rest) ← parseVec rest
      match rest with
      | [pp, lam] =>
        let pp ← parseNat? pp; let lam ← parseRat? lam
        if dp.length ≠ g.length then none else
        if gameteGuard g tau dp pp lam then
          some (showRat (gametePmf g tau dp pp lam) ++ " " ++ showRat (gameteSpec dp pp tau lam g))
        else some "err"
      | _ => none
    | _ => none
  | "ped.trio", toks => do
    let (T, rest) ← parseTrio toks
    if rest ≠ [] then none else
    if trioGuard T then some (showRat (trioPmfCode T) ++ " " ++ showRat (trioPmf T)) else some "err"
  | "ped.allele", toks => do
    let (T, rest) ← parseTrio toks
    match rest with
    | [x] =>
      let x ← parseNat? x
      if x ≥ T.d.length then none else
      if trioAlleleGuard T x then
        some (showRat (trioAlleleCode T x) ++ " " ++ showRat (trioAlleleSpec T x))
      else some "err"
    | _ => none
  | "ped.valid.trio", toks => do
    -- <d> <dp> <dq> tp tq lp lq
    let (d, rest) ← parseVec toks
    let (dp, rest) ← parseVec rest
    let (dq, rest) ← parseVec rest
    match rest with
    | [tp, tq, lp, lq] =>
      let tp ← parseNat? tp; let tq ← parseNat? tq; let lp ← parseRat? lp; let lq ← parseRat? lq
      if dp.length ≠ d.length ∨ dq.length ≠ d.length then none else
      some (showOptBool (trioValid d dp dq tp tq lp lq) ++ " " ++
        showOptBool (some (trioValidSpec d dp dq tp tq lp lq)))
    | _ => none
  | "ped.valid.duo", toks => do
    let (d, rest) ← parseVec toks
    let (dp, rest) ← parseVec rest
    match rest with
    | [tau, lam] =>
      let tau ← parseNat? tau; let lam ← parseRat? lam
      if dp.length ≠ d.length then none else
      some (showOptBool (duoValid d dp tau lam))
    | _ => none
  | _, _ => none

end Driver.C17
