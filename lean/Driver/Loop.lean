import Driver.Util
/-
Line protocol: one request per line (`<op> <tokens…>`), one canonical reply line per request.
Unknown or malformed requests answer `bad-op`; nothing is ever defaulted.
-/
namespace Driver

def answer (handlers : List (String → Handler)) (line : String) : String :=
  match (line.splitOn " ").filter (· ≠ "") with
  | [] => "bad-op"
  | op :: args =>
    match handlers.findSome? (fun h => h op args) with
    | some r => r
    | none => "bad-op"

partial def loop (handlers : List (String → Handler)) (hin hout : IO.FS.Stream) : IO Unit := do
  let line ← hin.getLine
  if line.isEmpty then return ()
  let line := (line.trimAsciiEnd).toString
  hout.putStrLn (answer handlers line)
  loop handlers hin hout

def runMain (handlers : List (String → Handler)) : IO Unit := do
  let hin ← IO.getStdin
  let hout ← IO.getStdout
  loop handlers hin hout
  hout.flush

end Driver
