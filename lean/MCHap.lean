import MCHap.Properties.C04
import MCHap.Properties.C05
import MCHap.Properties.C11
