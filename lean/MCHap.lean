import MCHap.Model.Comb
import MCHap.Properties.C11
