import MCHap.Properties.C01
import MCHap.Properties.C02
import MCHap.Properties.C03
import MCHap.Properties.C04
import MCHap.Properties.C05
import MCHap.Properties.C11
import MCHap.Properties.C15
import MCHap.Properties.C09
