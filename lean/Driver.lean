import Driver.Loop
