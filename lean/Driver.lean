import Driver.Main
