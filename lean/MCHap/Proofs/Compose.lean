import MCHap.Properties.C01
import Mathlib.GroupTheory.Perm.Basic
import Mathlib.Data.Fintype.Perm
/-!
# Composition of invariant kernels: compound steps and sampler iterations

Generic (any finite state type): used by C01, C02 and C18 to lift the per-move theorems (detailed balance of one
update of one slot, of one exchange) to what the samplers run — a shuffled pass over all slots, followed by further
moves, iterated.  The wiring streams of the correspondence checks observe that the callers do run exactly this
structure with the sample's own arguments.
-/
namespace MCHap.Compose
open MCHap MCHap.C01

/-- the identity kernel -/
def kid {S : Type} [DecidableEq S] : S → S → ℝ := fun s s' => if s = s' then 1 else 0

/-- one pass over the kernels `K i`, `i` running through `order` -/
def sweepOf {S : Type} [Fintype S] [DecidableEq S] {ι : Type} (K : ι → S → S → ℝ) (order : List ι) : S → S → ℝ :=
  (order.map K).foldr kcomp kid

theorem invariant_sweepOf {S : Type} [Fintype S] [DecidableEq S] {ι : Type} (π : S → ℝ) (K : ι → S → S → ℝ)
    (h : ∀ i, Invariant π (K i)) (order : List ι) : Invariant π (sweepOf K order) := by
  unfold sweepOf kid
  apply invariant_sweep
  intro K' hK'
  obtain ⟨i, _, rfl⟩ := List.mem_map.mp hK'
  exact h i

/-- **compound step**: the `n` slots (allele copies of a genotype; individuals of a pedigree) are visited in a
    uniformly random order — `np.random.shuffle` of `arange(n)` — and slot `k` is updated by a kernel `K k` that
    leaves `π` invariant.  The compound step leaves `π` invariant.  (Nothing is needed about the order except that
    it is drawn independently of the state; that every slot is visited matters for irreducibility, not here.) -/
theorem compound_step_invariant {S : Type} [Fintype S] [DecidableEq S] (π : S → ℝ) (n : ℕ)
    (K : Fin n → S → S → ℝ) (h : ∀ k, Invariant π (K k)) :
    Invariant π (fun s s' => ∑ σ : Equiv.Perm (Fin n),
      (1 / (n.factorial : ℝ)) * sweepOf K ((List.finRange n).map σ) s s') := by
  apply invariant_mix π (fun _ : Equiv.Perm (Fin n) => 1 / (n.factorial : ℝ))
  · rw [Finset.sum_const, Finset.card_univ, Fintype.card_perm, Fintype.card_fin, nsmul_eq_mul]
    have : (n.factorial : ℝ) ≠ 0 := by exact_mod_cast Nat.factorial_ne_zero n
    field_simp
  · intro σ; exact invariant_sweepOf π K h _

/-- any fixed sequence of invariant moves — the iterations of a sampler run, an iteration made of a compound step
    followed by the exchange moves of every parental pair — is invariant -/
theorem invariant_iterate {S : Type} [Fintype S] [DecidableEq S] (π : S → ℝ) (K : S → S → ℝ) (h : Invariant π K) (m : ℕ) :
    Invariant π (sweepOf (fun _ : Unit => K) (List.replicate m ())) :=
  invariant_sweepOf π _ (fun _ => h) _

end MCHap.Compose
