import MCHap.Model.Trace
import Mathlib.Tactic
import Mathlib.Data.List.Perm.Basic
import Mathlib.Data.List.Sort
import Mathlib.Algebra.BigOperators.Group.Finset.Basic
import Mathlib.Algebra.BigOperators.Group.List.Basic
import Mathlib.Algebra.Order.BigOperators.Group.List

/-! Helper lemmas for C14 / C13: first-occurrence de-duplication, the stable insertion sort, counting
    distributions, the insertion-ordered accumulator and the scatter into a G-ordered array. -/
namespace MCHap.Trace
open MCHap
set_option linter.unusedSectionVars false

/-! ### `uniq` (= `mset.unique`) -/

section uniq
variable {β : Type} [DecidableEq β]

theorem mem_uniq {x : β} : ∀ {l : List β}, x ∈ uniq l ↔ x ∈ l
  | [] => by simp [uniq]
  | y :: t => by
    have ih := @mem_uniq x t
    by_cases h : x = y
    · subst h; simp [uniq]
    · simp [uniq, List.mem_filter, ih, h]

theorem nodup_uniq : ∀ (l : List β), (uniq l).Nodup
  | [] => by simp [uniq]
  | y :: t => by
    simp only [uniq, List.nodup_cons, List.mem_filter]
    refine ⟨by simp, (nodup_uniq t).filter _⟩

theorem uniq_sublist : ∀ (l : List β), (uniq l).Sublist l
  | [] => by simp [uniq]
  | y :: t => by
    simp only [uniq]
    exact List.Sublist.cons_cons _ ((List.filter_sublist).trans (uniq_sublist t))

theorem toFinset_uniq (l : List β) : (uniq l).toFinset = l.toFinset := by
  ext x; simp [mem_uniq]

/-- `Σ_{x ∈ unique(l)} count(x, l) • f x = Σ_{s ∈ l} f s` -/
theorem sum_uniq_count {M : Type} [AddCommMonoid M] (l : List β) (f : β → M) :
    ((uniq l).map (fun x => l.count x • f x)).sum = (l.map f).sum := by
  rw [← List.sum_toFinset _ (nodup_uniq l), toFinset_uniq, Finset.sum_list_map_count]

theorem sum_uniq_count_nat (l : List β) : ((uniq l).map (fun x => l.count x)).sum = l.length := by
  have := sum_uniq_count l (fun _ => (1 : ℕ))
  simpa using this

theorem uniq_eq_nil {l : List β} : uniq l = [] ↔ l = [] := by
  cases l <;> simp [uniq]

end uniq

/-! ### the insertion sort -/

structure LinLe {β : Type} (le : β → β → Bool) : Prop where
  total : ∀ a b, le a b || le b a
  trans : ∀ a b c, le a b → le b c → le a c
  antisymm : ∀ a b, le a b → le b a → a = b

section sort
variable {β : Type} (le : β → β → Bool)

theorem insertBy_perm (x : β) : ∀ l, (insertBy le x l).Perm (x :: l)
  | [] => by simp [insertBy]
  | y :: t => by
    unfold insertBy
    split
    · exact List.Perm.refl _
    · exact ((insertBy_perm x t).cons y).trans (List.Perm.swap x y t)

theorem sortBy_perm : ∀ l, (sortBy le l).Perm l
  | [] => by simp [sortBy]
  | x :: t => by
    show (insertBy le x (sortBy le t)).Perm (x :: t)
    exact (insertBy_perm le x _).trans ((sortBy_perm t).cons x)

theorem insertBy_pairwise (htot : ∀ a b, le a b || le b a) (htr : ∀ a b c, le a b → le b c → le a c)
    (x : β) : ∀ l, l.Pairwise (fun a b => le a b) → (insertBy le x l).Pairwise (fun a b => le a b)
  | [], _ => by simp [insertBy]
  | y :: t, h => by
    unfold insertBy
    split
    · rename_i hxy
      rw [List.pairwise_cons] at h ⊢
      refine ⟨?_, List.pairwise_cons.mpr h⟩
      intro z hz
      rcases List.mem_cons.mp hz with rfl | hz
      · exact hxy
      · exact htr _ _ _ hxy (h.1 z hz)
    · rename_i hxy
      have hyx : le y x = true := by
        have := htot x y
        simp only [Bool.or_eq_true] at this
        rcases this with h1 | h1
        · exact absurd h1 hxy
        · exact h1
      rw [List.pairwise_cons] at h ⊢
      refine ⟨?_, insertBy_pairwise htot htr x t h.2⟩
      intro z hz
      rcases List.mem_cons.mp ((insertBy_perm le x t).subset hz) with rfl | hz
      · exact hyx
      · exact h.1 z hz

theorem sortBy_pairwise (htot : ∀ a b, le a b || le b a) (htr : ∀ a b c, le a b → le b c → le a c) :
    ∀ l, (sortBy le l).Pairwise (fun a b => le a b)
  | [] => by simp [sortBy]
  | x :: t => by
    show (insertBy le x (sortBy le t)).Pairwise _
    exact insertBy_pairwise le htot htr x _ (sortBy_pairwise htot htr t)

theorem sortBy_of_pairwise (hrefl : ∀ a, le a a) : ∀ l, l.Pairwise (fun a b => le a b) → sortBy le l = l
  | [], _ => by simp [sortBy]
  | x :: t, h => by
    rw [List.pairwise_cons] at h
    show insertBy le x (sortBy le t) = x :: t
    rw [sortBy_of_pairwise hrefl t h.2]
    cases t with
    | nil => simp [insertBy]
    | cons y t' => simp [insertBy, h.1 y (by simp)]

theorem LinLe.refl {le : β → β → Bool} (h : LinLe le) (a : β) : le a a := by
  have := h.total a a; simpa using this

end sort

section canon
variable {α : Type} [DecidableEq α] {le : α → α → Bool}

theorem canon_perm (g : List α) : (canon le g).Perm g := sortBy_perm le g

theorem canon_pairwise (h : LinLe le) (g : List α) : (canon le g).Pairwise (fun a b => le a b) :=
  sortBy_pairwise le h.total h.trans g

theorem canon_of_pairwise (h : LinLe le) {g : List α} (hg : g.Pairwise (fun a b => le a b)) : canon le g = g :=
  sortBy_of_pairwise le h.refl g hg

theorem eq_of_perm_of_pairwise (h : LinLe le) {a b : List α} (hp : a.Perm b)
    (ha : a.Pairwise (fun x y => le x y)) (hb : b.Pairwise (fun x y => le x y)) : a = b :=
  List.Perm.eq_of_pairwise (le := fun x y => le x y = true) (fun x y _ _ h1 h2 => h.antisymm x y h1 h2) ha hb hp

theorem canon_eq_iff (h : LinLe le) (g g' : List α) : canon le g = canon le g' ↔ g.Perm g' := by
  constructor
  · intro e
    exact (canon_perm g).symm.trans (e ▸ canon_perm g')
  · intro hp
    exact eq_of_perm_of_pairwise h ((canon_perm g).trans (hp.trans (canon_perm g').symm))
      (canon_pairwise h g) (canon_pairwise h g')

theorem canon_idem (h : LinLe le) (g : List α) : canon le (canon le g) = canon le g :=
  canon_of_pairwise h (canon_pairwise h g)

/-- for canonical genotypes, "same `mset.unique`" is "same set of distinct elements" -/
theorem uniq_eq_iff_same_set (h : LinLe le) {a b : List α}
    (ha : a.Pairwise (fun x y => le x y)) (hb : b.Pairwise (fun x y => le x y)) :
    uniq a = uniq b ↔ ∀ x, x ∈ a ↔ x ∈ b := by
  constructor
  · intro e x
    rw [← mem_uniq (l := a), ← mem_uniq (l := b), e]
  · intro hs
    apply eq_of_perm_of_pairwise h
    · rw [List.perm_ext_iff_of_nodup (nodup_uniq a) (nodup_uniq b)]
      intro x; rw [mem_uniq, mem_uniq]; exact hs x
    · exact ha.sublist (uniq_sublist a)
    · exact hb.sublist (uniq_sublist b)

end canon

theorem linLe_natLe : LinLe natLe where
  total a b := by simp [natLe]; omega
  trans a b c := by simp [natLe]; omega
  antisymm a b := by simp [natLe]; omega

theorem lexLe_total : ∀ a b : List Nat, lexLe a b || lexLe b a
  | [], _ => by simp [lexLe]
  | _ :: _, [] => by simp [lexLe]
  | a :: as, b :: bs => by
    have ih := lexLe_total as bs
    simp only [lexLe]
    rcases Nat.lt_trichotomy a b with h | h | h
    · simp [h]
    · subst h; simpa using ih
    · have h1 : ¬ a < b := by omega
      have h2 : ¬ a = b := by omega
      simp [h1, h2, h]

theorem lexLe_trans : ∀ a b c : List Nat, lexLe a b → lexLe b c → lexLe a c
  | [], _, _ => by simp [lexLe]
  | _ :: _, [], _ => by simp [lexLe]
  | _ :: _, _ :: _, [] => by simp [lexLe]
  | a :: as, b :: bs, c :: cs => by
    have ih := lexLe_trans as bs cs
    simp only [lexLe]
    intro h1 h2
    split_ifs at h1 h2 ⊢ <;> first | rfl | (exfalso; omega) | (subst_vars; exact ih h1 h2)

theorem lexLe_antisymm : ∀ a b : List Nat, lexLe a b → lexLe b a → a = b
  | [], [] => by simp
  | [], _ :: _ => by simp [lexLe]
  | _ :: _, [] => by simp [lexLe]
  | a :: as, b :: bs => by
    have ih := lexLe_antisymm as bs
    simp only [lexLe]
    intro h1 h2
    split_ifs at h1 h2 <;> first | (exfalso; omega) | (subst_vars; rw [ih h1 h2])

theorem linLe_lexLe : LinLe lexLe := ⟨lexLe_total, lexLe_trans, lexLe_antisymm⟩

end MCHap.Trace
