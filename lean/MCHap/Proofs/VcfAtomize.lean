import MCHap.Model.Atomize
import Mathlib.Data.List.Basic
import Mathlib.Data.List.Nodup
import Mathlib.Data.List.Range
import Mathlib.Algebra.BigOperators.Group.List.Basic
import Mathlib.Algebra.BigOperators.Ring.List
import Mathlib.Algebra.Order.Field.Rat
import Mathlib.Tactic

/-! Helper lemmas for C20: `mapE`, the first-appearance numbering loop, marginal sums. -/
namespace MCHap.Atomize

/-! ### `mapE` -/

theorem mapE_ok_cons {α β} {f : α → Except Err β} {a : α} {t : List α} {bs : List β}
    (h : mapE f (a :: t) = .ok bs) : ∃ b bt, f a = .ok b ∧ mapE f t = .ok bt ∧ bs = b :: bt := by
  unfold mapE at h
  split at h
  · simp at h
  · rename_i b hb
    split at h
    · simp at h
    · rename_i bt hbt
      exact ⟨b, bt, hb, hbt, by simpa using h.symm⟩

theorem mapE_length {α β} {f : α → Except Err β} : ∀ {l : List α} {bs : List β},
    mapE f l = .ok bs → bs.length = l.length
  | [], bs, h => by simp [mapE] at h; subst h; rfl
  | a :: t, bs, h => by
    obtain ⟨b, bt, _, ht, rfl⟩ := mapE_ok_cons h
    simp [mapE_length ht]

theorem mapE_getElem? {α β} {f : α → Except Err β} : ∀ {l : List α} {bs : List β},
    mapE f l = .ok bs → ∀ (i : ℕ) (a : α), l[i]? = some a → ∃ b, bs[i]? = some b ∧ f a = .ok b
  | [], _, _, i, a, hi => by simp at hi
  | x :: t, bs, h, i, a, hi => by
    obtain ⟨b, bt, hb, ht, rfl⟩ := mapE_ok_cons h
    cases i with
    | zero => simp at hi; subst hi; exact ⟨b, by simp, hb⟩
    | succ i => simpa using mapE_getElem? ht i a (by simpa using hi)

theorem mapE_mem {α β} {f : α → Except Err β} : ∀ {l : List α} {bs : List β},
    mapE f l = .ok bs → ∀ b ∈ bs, ∃ a ∈ l, f a = .ok b
  | [], bs, h, b, hb => by simp [mapE] at h; subst h; simp at hb
  | x :: t, bs, h, b, hb => by
    obtain ⟨b0, bt, hb0, ht, rfl⟩ := mapE_ok_cons h
    rcases List.mem_cons.mp hb with rfl | hb
    · exact ⟨x, by simp, hb0⟩
    · obtain ⟨a, ha, hfa⟩ := mapE_mem ht b hb
      exact ⟨a, by simp [ha], hfa⟩

theorem mapE_total {α β} {f : α → Except Err β} : ∀ (l : List α),
    (∀ a ∈ l, ∃ b, f a = .ok b) → ∃ bs, mapE f l = .ok bs
  | [], _ => ⟨[], rfl⟩
  | a :: t, h => by
    obtain ⟨b, hb⟩ := h a (by simp)
    obtain ⟨bt, ht⟩ := mapE_total t (fun x hx => h x (by simp [hx]))
    exact ⟨b :: bt, by simp [mapE, hb, ht]⟩

theorem mapE_error_of_mem {α β} {f : α → Except Err β} : ∀ (l : List α) (a : α),
    a ∈ l → (∃ e, f a = .error e) → ∃ e, mapE f l = .error e
  | x :: t, a, hmem, herr => by
    unfold mapE
    cases hx : f x with
    | error e => exact ⟨e, rfl⟩
    | ok b =>
      have hat : a ∈ t := by
        rcases List.mem_cons.mp hmem with rfl | h
        · obtain ⟨e, he⟩ := herr; rw [hx] at he; cases he
        · exact h
      obtain ⟨e, he⟩ := mapE_error_of_mem t a hat herr
      exact ⟨e, by simp [he]⟩

/-! ### the numbering loop -/

theorem indexLoop_length : ∀ (col seen : List Char), (indexLoop col seen).length = col.length
  | [], _ => rfl
  | c :: cs, seen => by
    unfold indexLoop
    split <;> simp [indexLoop_length cs]

/-- invariant of `get_haplotype_snv_indices`' dict loop -/
theorem indexLoop_spec : ∀ (col seen : List Char), seen.Nodup →
    (firstAppearFrom col seen).Nodup ∧ seen <+: firstAppearFrom col seen ∧
    (∀ (h : ℕ) (c : Char), col[h]? = some c →
      ∃ i, (indexLoop col seen)[h]? = some i ∧ (firstAppearFrom col seen)[i]? = some c) ∧
    (∀ (h i a : ℕ), (indexLoop col seen)[h]? = some i → a < i →
      a < seen.length ∨ ∃ h', h' < h ∧ (indexLoop col seen)[h']? = some a)
  | [], seen, hnd => by
    simp [firstAppearFrom, indexLoop, hnd]
  | c :: cs, seen, hnd => by
    by_cases hc : seen.contains c = true
    · have hmem : c ∈ seen := List.contains_iff_mem.mp hc
      obtain ⟨h1, h2, h3, h4⟩ := indexLoop_spec cs seen hnd
      have hfa : firstAppearFrom (c :: cs) seen = firstAppearFrom cs seen := by
        rw [firstAppearFrom, if_pos hc]
      have hil : indexLoop (c :: cs) seen = seen.idxOf c :: indexLoop cs seen := by
        rw [indexLoop, if_pos hc]
      rw [hfa, hil]
      refine ⟨h1, h2, ?_, ?_⟩
      · intro h ch hh
        cases h with
        | zero =>
          simp at hh; subst hh
          refine ⟨seen.idxOf c, by simp, ?_⟩
          have hlt : seen.idxOf c < seen.length := List.idxOf_lt_length_iff.mpr hmem
          obtain ⟨t, ht⟩ := h2
          rw [← ht, List.getElem?_append_left hlt]
          exact List.getElem?_idxOf hmem
        | succ h => simpa using h3 h ch (by simpa using hh)
      · intro h i a hi ha
        cases h with
        | zero =>
          simp at hi; subst hi
          exact Or.inl (lt_trans ha (List.idxOf_lt_length_iff.mpr hmem))
        | succ h =>
          rcases h4 h i a (by simpa using hi) ha with hl | ⟨h', hh', he⟩
          · exact Or.inl hl
          · exact Or.inr ⟨h' + 1, by omega, by simpa using he⟩
    · have hnm : c ∉ seen := fun hm => hc (List.contains_iff_mem.mpr hm)
      have hnd' : (seen ++ [c]).Nodup := by
        rw [List.nodup_append]
        refine ⟨hnd, by simp, ?_⟩
        intro a ha b hb
        simp at hb; subst hb
        exact fun e => hnm (e ▸ ha)
      obtain ⟨h1, h2, h3, h4⟩ := indexLoop_spec cs (seen ++ [c]) hnd'
      have hfa : firstAppearFrom (c :: cs) seen = firstAppearFrom cs (seen ++ [c]) := by
        rw [firstAppearFrom, if_neg hc]
      have hil : indexLoop (c :: cs) seen = seen.length :: indexLoop cs (seen ++ [c]) := by
        rw [indexLoop, if_neg hc]
      rw [hfa, hil]
      have hpre : seen <+: firstAppearFrom cs (seen ++ [c]) :=
        (List.prefix_append seen [c]).trans h2
      refine ⟨h1, hpre, ?_, ?_⟩
      · intro h ch hh
        cases h with
        | zero =>
          simp at hh; subst hh
          refine ⟨seen.length, by simp, ?_⟩
          obtain ⟨t, ht⟩ := h2
          rw [← ht, List.append_assoc]
          simp
        | succ h => simpa using h3 h ch (by simpa using hh)
      · intro h i a hi ha
        cases h with
        | zero =>
          simp at hi; subst hi
          exact Or.inl ha
        | succ h =>
          rcases h4 h i a (by simpa using hi) ha with hl | ⟨h', hh', he⟩
          · simp at hl
            by_cases hal : a < seen.length
            · exact Or.inl hal
            · have : a = seen.length := by omega
              subst this
              exact Or.inr ⟨0, by omega, by simp⟩
          · exact Or.inr ⟨h' + 1, by omega, by simpa using he⟩

theorem firstAppear_head (c : Char) (cs : List Char) : (firstAppear (c :: cs)).head? = some c := by
  have hfa : firstAppear (c :: cs) = firstAppearFrom cs [c] := by simp [firstAppear, firstAppearFrom]
  obtain ⟨_, ⟨t, ht⟩, _, _⟩ := indexLoop_spec cs [c] (by simp)
  rw [hfa, ← ht]; rfl

/-! ### marginal sums -/

section marginal
variable {α : Type} [AddCommMonoid α]

theorem marginal_eq_sum (siteIdx : List ℕ) (counts : List α) (a : ℕ) :
    marginal siteIdx counts a =
      ((siteIdx.zip counts).map (fun hc => if hc.1 = a then hc.2 else 0)).sum := by
  unfold marginal
  induction siteIdx.zip counts with
  | nil => simp
  | cons x t ih =>
    by_cases hx : x.1 = a
    · simp [List.filter_cons, hx, ih]
    · simp [List.filter_cons, hx, ih]

theorem sum_indicator_range' (i : ℕ) (c : α) : ∀ N : ℕ,
    ((List.range N).map (fun a => if i = a then c else 0)).sum = if i < N then c else 0
  | 0 => by simp
  | N + 1 => by
    rw [List.range_succ, List.map_append, List.sum_append, sum_indicator_range' i c N]
    by_cases h1 : i < N
    · have : ¬ i = N := by omega
      simp [h1, this, Nat.lt_succ_of_lt h1]
    · by_cases h2 : i = N
      · subst h2; simp
      · have : ¬ i < N + 1 := by omega
        simp [h1, h2, this]

/-- the site's allele counts add up to the haplotype counts they were marginalised from -/
theorem sum_marginal (siteIdx : List ℕ) (counts : List α) (N : ℕ)
    (h : ∀ hc ∈ siteIdx.zip counts, hc.1 < N) :
    ((List.range N).map (fun a => marginal siteIdx counts a)).sum =
      ((siteIdx.zip counts).map Prod.snd).sum := by
  simp only [marginal_eq_sum]
  generalize siteIdx.zip counts = l at h ⊢
  induction l with
  | nil => simp
  | cons x t ih =>
    have hx : x.1 < N := h x (by simp)
    simp only [List.map_cons, List.sum_cons]
    rw [List.sum_map_add, sum_indicator_range', ih (fun y hy => h y (by simp [hy]))]
    simp [hx]

end marginal

end MCHap.Atomize
