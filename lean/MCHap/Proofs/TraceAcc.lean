import MCHap.Proofs.TraceDist

/-! The insertion-ordered accumulator `addTo` (Python dict `d[k] += v`) and `scatter` (`arr[idx] = v`). -/
namespace MCHap.Trace
open MCHap
set_option linter.unusedSectionVars false

section acc
variable {κ : Type} [DecidableEq κ]

theorem probOf_addTo (key : κ) (p : ℚ) (k : κ) : ∀ d : List (κ × ℚ),
    probOf (addTo key p d) k = probOf d k + if k = key then p else 0
  | [] => by
    by_cases h : k = key
    · subst h; simp [addTo, probOf, List.find?]
    · have : ¬ key = k := fun e => h e.symm
      simp [addTo, probOf, List.find?, h, this]
  | (k0, q) :: t => by
    have ih := probOf_addTo key p k t
    unfold addTo
    by_cases h0 : k0 = key
    · subst h0
      by_cases h : k0 = k
      · subst h; simp [probOf, List.find?]
      · have : ¬ k = k0 := fun e => h e.symm
        simp [probOf, List.find?, h, this]
    · simp only [h0, if_false]
      by_cases h : k0 = k
      · subst h
        have : ¬ k0 = key := h0
        simp [probOf, List.find?, this]
      · unfold probOf at ih ⊢
        simp only [List.find?, h, decide_false]
        exact ih

theorem mem_keys_addTo (key : κ) (p : ℚ) (k : κ) : ∀ d : List (κ × ℚ),
    k ∈ (addTo key p d).map (·.1) ↔ k ∈ d.map (·.1) ∨ k = key
  | [] => by simp [addTo]
  | (k0, q) :: t => by
    have ih := mem_keys_addTo key p k t
    unfold addTo
    by_cases h0 : k0 = key
    · subst h0
      simp only [if_true, List.map_cons, List.mem_cons]
      tauto
    · simp only [h0, if_false, List.map_cons, List.mem_cons, ih]
      tauto

theorem nodup_keys_addTo (key : κ) (p : ℚ) : ∀ d : List (κ × ℚ),
    (d.map (·.1)).Nodup → ((addTo key p d).map (·.1)).Nodup
  | [], _ => by simp [addTo]
  | (k0, q) :: t, h => by
    unfold addTo
    simp only [List.map_cons, List.nodup_cons] at h
    by_cases h0 : k0 = key
    · subst h0
      simp only [if_true, List.map_cons, List.nodup_cons]
      exact h
    · simp only [h0, if_false, List.map_cons, List.nodup_cons]
      refine ⟨?_, nodup_keys_addTo key p t h.2⟩
      rw [mem_keys_addTo]
      rintro (h1 | h1)
      · exact h.1 h1
      · exact h0 h1

/-- the loop `for x in items: d[kf x] += vf x` -/
theorem probOf_foldl_addTo {γ : Type} (kf : γ → κ) (vf : γ → ℚ) (k : κ) : ∀ (items : List γ) (d : List (κ × ℚ)),
    probOf (items.foldl (fun acc x => addTo (kf x) (vf x) acc) d) k
      = probOf d k + ((items.filter (fun x => decide (kf x = k))).map vf).sum
  | [], d => by simp
  | x :: t, d => by
    rw [List.foldl_cons, probOf_foldl_addTo kf vf k t, probOf_addTo]
    by_cases h : kf x = k
    · subst h
      simp [List.filter]; ring
    · have : ¬ k = kf x := fun e => h e.symm
      simp [List.filter, h, this]

theorem mem_keys_foldl_addTo {γ : Type} (kf : γ → κ) (vf : γ → ℚ) (k : κ) : ∀ (items : List γ) (d : List (κ × ℚ)),
    k ∈ (items.foldl (fun acc x => addTo (kf x) (vf x) acc) d).map (·.1)
      ↔ k ∈ d.map (·.1) ∨ ∃ x ∈ items, kf x = k
  | [], d => by simp
  | x :: t, d => by
    rw [List.foldl_cons, mem_keys_foldl_addTo kf vf k t, mem_keys_addTo]
    simp only [List.mem_cons, exists_eq_or_imp]
    constructor
    · rintro ((h | h) | h)
      · exact Or.inl h
      · exact Or.inr (Or.inl h.symm)
      · exact Or.inr (Or.inr h)
    · rintro (h | h | h)
      · exact Or.inl (Or.inl h)
      · exact Or.inl (Or.inr h.symm)
      · exact Or.inr h

theorem nodup_keys_foldl_addTo {γ : Type} (kf : γ → κ) (vf : γ → ℚ) : ∀ (items : List γ) (d : List (κ × ℚ)),
    (d.map (·.1)).Nodup → ((items.foldl (fun acc x => addTo (kf x) (vf x) acc) d).map (·.1)).Nodup
  | [], d, h => by simpa using h
  | x :: t, d, h => by
    rw [List.foldl_cons]
    exact nodup_keys_foldl_addTo kf vf t _ (nodup_keys_addTo _ _ d h)

/-- an entry of an accumulator with distinct keys is its look-up value -/
theorem mem_iff_probOf {d : List (κ × ℚ)} (hnd : (d.map (·.1)).Nodup) {k : κ} {v : ℚ} :
    (k, v) ∈ d ↔ k ∈ d.map (·.1) ∧ probOf d k = v := by
  constructor
  · intro h
    exact ⟨List.mem_map.mpr ⟨(k, v), h, rfl⟩, probOf_of_mem hnd h⟩
  · rintro ⟨hk, hv⟩
    obtain ⟨⟨k', v'⟩, hm, e⟩ := List.mem_map.mp hk
    simp only at e
    subst e
    rw [probOf_of_mem hnd hm] at hv
    subst hv
    exact hm

end acc

/-! ### `scatter` -/

theorem sum_set (l : List ℚ) (i : ℕ) (v : ℚ) (hi : i < l.length) :
    (l.set i v).sum = l.sum - l.getD i 0 + v := by
  induction l generalizing i with
  | nil => simp at hi
  | cons a t ih =>
    cases i with
    | zero => simp; ring
    | succ i =>
      simp only [List.set_cons_succ, List.sum_cons, List.getD_cons_succ]
      rw [ih i (by simpa using hi)]
      ring

def scatterFrom (size : ℕ) (pairs : List (ℕ × ℚ)) (init : Option (List ℚ)) : Option (List ℚ) :=
  pairs.foldl (fun acc iv => acc.bind (fun arr =>
    if iv.1 < size then some (arr.set iv.1 iv.2) else none)) init

theorem scatter_eq (size : ℕ) (pairs : List (ℕ × ℚ)) :
    scatter size pairs = scatterFrom size pairs (some (List.replicate size 0)) := rfl

theorem scatterFrom_none (size : ℕ) : ∀ pairs, scatterFrom size pairs none = none
  | [] => rfl
  | _ :: t => by
    unfold scatterFrom
    rw [List.foldl_cons]
    exact scatterFrom_none size t

/-- all indices in range: the scatter succeeds, keeps the length; an index written once holds its value, an
    index never written keeps the old value; the sum changes by `Σ (v − old)` -/
theorem scatterFrom_spec (size : ℕ) : ∀ (pairs : List (ℕ × ℚ)) (arr : List ℚ), arr.length = size →
    (∀ iv ∈ pairs, iv.1 < size) → (pairs.map (·.1)).Nodup →
    ∃ out, scatterFrom size pairs (some arr) = some out ∧ out.length = size ∧
      (∀ iv ∈ pairs, out.getD iv.1 0 = iv.2) ∧
      (∀ j, j ∉ pairs.map (·.1) → out.getD j 0 = arr.getD j 0) ∧
      out.sum = arr.sum + (pairs.map (fun iv => iv.2 - arr.getD iv.1 0)).sum
  | [], arr, hl, _, _ => ⟨arr, rfl, hl, by simp, by simp, by simp⟩
  | (i, v) :: t, arr, hl, hlt, hnd => by
    have hi : i < size := hlt (i, v) (by simp)
    simp only [List.map_cons, List.nodup_cons] at hnd
    obtain ⟨out, ho, hol, hov, hoj, hos⟩ := scatterFrom_spec size t (arr.set i v) (by simpa using hl)
      (fun iv h => hlt iv (List.mem_cons_of_mem _ h)) hnd.2
    refine ⟨out, ?_, hol, ?_, ?_, ?_⟩
    · unfold scatterFrom at ho ⊢
      rw [List.foldl_cons]
      simpa [hi] using ho
    · intro iv hiv
      rcases List.mem_cons.mp hiv with e | h
      · subst e
        rw [hoj i hnd.1]
        simp [List.getD_eq_getElem?_getD, hl, hi]
      · exact hov iv h
    · intro j hj
      simp only [List.map_cons, List.mem_cons, not_or] at hj
      rw [hoj j hj.2]
      simp [List.getD_eq_getElem?_getD, Ne.symm hj.1]
    · rw [hos, sum_set arr i v (by omega)]
      have : (t.map (fun iv => iv.2 - (arr.set i v).getD iv.1 0)) = t.map (fun iv => iv.2 - arr.getD iv.1 0) := by
        apply List.map_congr_left
        intro iv hiv
        have hne : i ≠ iv.1 := by
          intro e
          apply hnd.1
          rw [e]
          exact List.mem_map.mpr ⟨iv, hiv, rfl⟩
        simp [List.getD_eq_getElem?_getD, hne]
      rw [this]
      simp only [List.map_cons, List.sum_cons]
      ring

/-- non-negative values: whatever the indices, a successful scatter into zeros sums to at most `Σ v` -/
theorem scatterFrom_sum_le (size : ℕ) : ∀ (pairs : List (ℕ × ℚ)) (arr out : List ℚ),
    (∀ x ∈ arr, 0 ≤ x) → (∀ iv ∈ pairs, 0 ≤ iv.2) → scatterFrom size pairs (some arr) = some out →
    out.length = arr.length ∧ (∀ x ∈ out, 0 ≤ x) ∧ out.sum ≤ arr.sum + (pairs.map (·.2)).sum
  | [], arr, out, ha, _, h => by
    have : arr = out := by simpa [scatterFrom] using h
    subst this
    exact ⟨rfl, ha, by simp⟩
  | (i, v) :: t, arr, out, ha, hv, h => by
    unfold scatterFrom at h
    rw [List.foldl_cons] at h
    by_cases hi : i < size
    · simp only [Option.bind_some, hi, if_true] at h
      have hv0 : 0 ≤ v := hv (i, v) (by simp)
      have ha' : ∀ x ∈ arr.set i v, 0 ≤ x := by
        intro x hx
        rcases List.mem_or_eq_of_mem_set hx with h1 | h1
        · exact ha x h1
        · rw [h1]; exact hv0
      obtain ⟨h1, h2, h3⟩ := scatterFrom_sum_le size t (arr.set i v) out ha'
        (fun iv hiv => hv iv (List.mem_cons_of_mem _ hiv)) h
      refine ⟨by simpa using h1, h2, ?_⟩
      have hset : (arr.set i v).sum ≤ arr.sum + v := by
        by_cases hil : i < arr.length
        · rw [sum_set arr i v hil]
          have : 0 ≤ arr.getD i 0 := by
            rw [List.getD_eq_getElem?_getD, List.getElem?_eq_getElem hil]
            exact ha _ (List.getElem_mem hil)
          linarith
        · rw [List.set_eq_of_length_le (by omega)]
          linarith
      simp only [List.map_cons, List.sum_cons]
      linarith
    · simp only [Option.bind_some, hi, if_false] at h
      have := scatterFrom_none size t
      unfold scatterFrom at this
      rw [this] at h
      exact absurd h (by simp)

end MCHap.Trace
