import MCHap.Model.Pedigree
import Mathlib.Tactic

/-! Bounded completeness of the literal gamete enumerator, by kernel evaluation (slow to check: kept
    in its own module so that it is compiled once). -/
namespace MCHap

/-- all vectors of length exactly `m` with entries `≤ k` -/
def boxVecs : ℕ → ℕ → List (List ℕ)
  | 0, _ => [[]]
  | m + 1, k => (List.range (k + 1)).flatMap (fun x => (boxVecs m k).map (x :: ·))

/-- the enumerator visits exactly the vectors under the constraint with the right total, in
    decreasing lexicographic order (`compositions` lists them increasingly) -/
def EnumComplete (tau : ℕ) (c : List ℕ) : Prop := enumDosage tau c = (enumSpec tau c).reverse

instance (tau : ℕ) (c : List ℕ) : Decidable (EnumComplete tau c) := by unfold EnumComplete; infer_instance

theorem enumerator_complete_small_aux :
    ∀ m ∈ List.range 5, ∀ c ∈ boxVecs m 3, ∀ tau ∈ List.range (c.sum + 1), EnumComplete tau c := by
  decide +kernel

end MCHap
