import MCHap.Model.Pedigree
import Mathlib.Data.List.Forall2
import Mathlib.Data.List.Lex
import Mathlib.Data.List.TakeWhile
import Mathlib.Algebra.BigOperators.Group.List.Basic
import Mathlib.Tactic

/-! The literal gamete enumerator (`fillGreedy`, `raiseFirst`, `searchLeft`, `incrementDosage`):
    structure of one successful step. -/
namespace MCHap

theorem fillGreedy_spec : ∀ (cs : List ℕ) (p : ℕ),
    (fillGreedy p cs).1.sum + (fillGreedy p cs).2 = p ∧ List.Forall₂ (· ≤ ·) (fillGreedy p cs).1 cs := by
  intro cs
  induction cs with
  | nil => intro p; simp [fillGreedy]
  | cons c cs ih =>
    intro p
    obtain ⟨h1, h2⟩ := ih (p - min p c)
    simp only [fillGreedy, List.sum_cons]
    refine ⟨by omega, List.Forall₂.cons (Nat.min_le_right _ _) h2⟩

theorem raiseFirst_spec : ∀ (zs : List (ℕ × ℕ)) (out : List ℕ), (∀ x ∈ zs, x.1 ≤ x.2) →
    raiseFirst zs = some out →
    out.sum = (zs.map (·.1)).sum + 1 ∧ List.Forall₂ (fun o (x : ℕ × ℕ) => o ≤ x.2) out zs := by
  intro zs
  induction zs with
  | nil => intro out _ h; simp [raiseFirst] at h
  | cons x zs ih =>
    intro out hle h
    obtain ⟨d, c⟩ := x
    have hx : d ≤ c := hle (d, c) (by simp)
    have hle' : ∀ y ∈ zs, y.1 ≤ y.2 := fun y hy => hle y (List.mem_cons_of_mem _ hy)
    simp only [raiseFirst] at h
    split at h
    · rename_i hdc
      simp only [Option.some.injEq] at h
      subst h
      refine ⟨by simp; omega, List.Forall₂.cons (by simpa using hdc) ?_⟩
      rw [List.forall₂_map_left_iff]
      exact List.forall₂_same.mpr (fun y hy => hle' y hy)
    · cases hr : raiseFirst zs with
      | none => simp [hr] at h
      | some r =>
        simp only [hr, Option.map_some, Option.some.injEq] at h
        subst h
        obtain ⟨h1, h2⟩ := ih r hle' hr
        refine ⟨by simp [h1]; omega, List.Forall₂.cons hx h2⟩

theorem searchLeft_spec : ∀ (l : List (ℕ × ℕ)) (change space : ℕ) (cr out : List ℕ),
    searchLeft l change space cr = some out →
    ∃ (skipped : List (ℕ × ℕ)) (dk ck : ℕ) (l' : List (ℕ × ℕ)) (r : List ℕ),
      l = skipped ++ (dk, ck) :: l' ∧ 0 < dk ∧
      fillGreedy (change + (skipped.map (·.1)).sum + 1) (skipped.reverse.map (·.2) ++ cr) = (r, 0) ∧
      out = l'.reverse.map (·.1) ++ (dk - 1) :: r := by
  intro l
  induction l with
  | nil => intro change space cr out h; simp [searchLeft] at h
  | cons x l ih =>
    intro change space cr out h
    obtain ⟨d, c⟩ := x
    simp only [searchLeft] at h
    split at h
    · rename_i hc
      split at h
      · simp at h
      · rename_i hr
        simp only [Option.some.injEq] at h
        refine ⟨[], d, c, l, (fillGreedy (change + 1) cr).1, by simp, hc.1, ?_, h.symm⟩
        simp only [List.map_nil, List.sum_nil, Nat.add_zero, List.reverse_nil, List.nil_append]
        have : (fillGreedy (change + 1) cr).2 = 0 := by omega
        rw [← this]
    · obtain ⟨sk, dk, ck, l', r, h1, h2, h3, h4⟩ := ih (change + d) (space + c) (c :: cr) out h
      refine ⟨(d, c) :: sk, dk, ck, l', r, by simp [h1], h2, ?_, h4⟩
      simp only [List.map_cons, List.sum_cons, List.reverse_cons, List.map_append, List.map_nil,
        List.append_assoc, List.cons_append, List.nil_append]
      rw [← h3]; congr 1; omega

/-- **one successful `increment_dosage` step**: the vector splits as `pre ++ d_k :: suf`, the result is
    `pre ++ (d_k − 1) :: r` with `r` of the same length as `suf`, one more in total, inside the constraint -/
theorem incrementDosage_spec (d c out : List ℕ) (hlen : d.length = c.length)
    (hle : ∀ x ∈ d.zip c, x.1 ≤ x.2) (h : incrementDosage d c = some out) :
    ∃ (pre : List (ℕ × ℕ)) (dk ck : ℕ) (suf : List (ℕ × ℕ)) (r : List ℕ),
      d.zip c = pre ++ (dk, ck) :: suf ∧ 0 < dk ∧ out = pre.map (·.1) ++ (dk - 1) :: r ∧
      r.sum = (suf.map (·.1)).sum + 1 ∧ List.Forall₂ (fun o (x : ℕ × ℕ) => o ≤ x.2) r suf := by
  have _ := hlen
  unfold incrementDosage at h
  set l := d.zip c with hl
  have hsplit : l.reverse = l.reverse.takeWhile (fun x => x.1 = 0) ++ l.reverse.dropWhile (fun x => x.1 = 0) :=
    (List.takeWhile_append_dropWhile).symm
  set tw := l.reverse.takeWhile (fun x => x.1 = 0) with htw
  have htw0 : ∀ x ∈ tw, x.1 = 0 := by
    intro x hx
    have := List.mem_takeWhile_imp hx
    simpa using this
  cases hdw : l.reverse.dropWhile (fun x => decide (x.1 = 0)) with
  | nil => simp [hdw] at h
  | cons y left =>
    obtain ⟨di, ci⟩ := y
    rw [hdw] at hsplit
    have hdi : di ≠ 0 := by
      have := List.head_dropWhile_not (fun x : ℕ × ℕ => decide (x.1 = 0)) (l := l.reverse)
        (by rw [hdw]; simp)
      simp only [hdw, List.head_cons] at this
      simpa using this
    have hl2 : l = left.reverse ++ (di, ci) :: tw.reverse := by
      have := congrArg List.reverse hsplit
      simpa using this
    simp only [hdw] at h
    have hzs0 : ((tw.reverse).map (·.1)).sum = 0 := by
      apply List.sum_eq_zero
      intro v hv
      obtain ⟨x, hx, rfl⟩ := List.mem_map.mp hv
      exact htw0 x (List.mem_reverse.mp hx)
    rw [← htw] at h
    cases hrf : raiseFirst tw.reverse with
    | some zs' =>
      simp only [hrf, Option.some.injEq] at h
      have hlez : ∀ x ∈ tw.reverse, x.1 ≤ x.2 := by
        intro x hx; apply hle; rw [hl2]; simp [hx]
      obtain ⟨h1, h2⟩ := raiseFirst_spec _ _ hlez hrf
      exact ⟨left.reverse, di, ci, tw.reverse, zs', hl2, Nat.pos_of_ne_zero hdi, by rw [← h, List.map_reverse], h1, h2⟩
    | none =>
      simp only [hrf] at h
      obtain ⟨sk, dk, ck, l', r, e1, e2, e3, e4⟩ := searchLeft_spec _ _ _ _ _ h
      have hfg := fillGreedy_spec (sk.reverse.map (·.2) ++ ci :: tw.reverse.map (·.2)) (di + (sk.map (·.1)).sum + 1)
      rw [e3] at hfg
      obtain ⟨hs, hf⟩ := hfg
      refine ⟨l'.reverse, dk, ck, sk.reverse ++ (di, ci) :: tw.reverse, r, ?_, e2, by rw [e4, List.map_reverse], ?_, ?_⟩
      · rw [hl2, e1]; simp
      · simp only [List.map_reverse, List.sum_reverse] at hzs0
        simp only [List.map_append, List.map_cons, List.sum_append, List.sum_cons, List.map_reverse,
          List.sum_reverse, hzs0] at hs ⊢
        omega
      · rw [show sk.reverse.map (·.2) ++ ci :: tw.reverse.map (·.2)
            = (sk.reverse ++ (di, ci) :: tw.reverse).map (·.2) by simp] at hf
        rw [List.forall₂_map_right_iff] at hf
        exact hf

theorem incrementDosage_decreasing (d c out : List ℕ) (hle : List.Forall₂ (· ≤ ·) d c)
    (h : incrementDosage d c = some out) :
    out.length = d.length ∧ out.sum = d.sum ∧ List.Forall₂ (· ≤ ·) out c ∧ List.Lex (· < ·) out d := by
  obtain ⟨hlen, hz⟩ := List.forall₂_iff_zip.mp hle
  obtain ⟨pre, dk, ck, suf, r, e, hdk, rfl, hsum, hr⟩ :=
    incrementDosage_spec d c out hlen (fun x hx => hz (a := x.1) (b := x.2) hx) h
  have hd : d = pre.map (·.1) ++ dk :: suf.map (·.1) := by
    have := List.map_fst_zip (l₁ := d) (l₂ := c) (by omega)
    rw [e] at this; rw [← this]; simp
  have hc : c = pre.map (·.2) ++ ck :: suf.map (·.2) := by
    have := List.map_snd_zip (l₁ := d) (l₂ := c) (by omega)
    rw [e] at this; rw [← this]; simp
  have hall : ∀ x ∈ pre ++ (dk, ck) :: suf, x.1 ≤ x.2 := by
    intro x hx; rw [← e] at hx; exact hz (a := x.1) (b := x.2) hx
  refine ⟨?_, ?_, ?_, ?_⟩
  · rw [hd]; simp [hr.length_eq]
  · rw [hd]; simp only [List.sum_append, List.sum_cons, hsum]; omega
  · rw [hc]
    apply List.rel_append
    · rw [List.forall₂_map_left_iff, List.forall₂_map_right_iff]
      exact List.forall₂_same.mpr (fun x hx => hall x (by simp [hx]))
    · refine List.Forall₂.cons ?_ ?_
      · have := hall (dk, ck) (by simp); simp at this; omega
      · rw [List.forall₂_map_right_iff]; exact hr
  · rw [hd]
    exact List.Lex.append_left _ (List.Lex.rel (by omega)) _

/-! ### soundness of the enumeration: every visited vector has the right total and respects the constraint -/

theorem setInitialDosage_sound (tau : ℕ) (c g : List ℕ) (h : setInitialDosage tau c = some g) :
    g.sum = tau ∧ List.Forall₂ (· ≤ ·) g c := by
  unfold setInitialDosage at h
  obtain ⟨h1, h2⟩ := fillGreedy_spec c tau
  simp only at h
  split at h
  · simp at h
  · simp only [Option.some.injEq] at h
    subst h
    exact ⟨by omega, h2⟩

theorem enumGo_sound : ∀ (f : ℕ) (c g : List ℕ) (out : List (List ℕ)), List.Forall₂ (· ≤ ·) g c →
    enumGo f c g = some out → ∀ x ∈ out, x.sum = g.sum ∧ List.Forall₂ (· ≤ ·) x c := by
  intro f
  induction f with
  | zero => intro c g out _ h; simp [enumGo] at h
  | succ f ih =>
    intro c g out hle h
    simp only [enumGo] at h
    cases hi : incrementDosage g c with
    | none =>
      simp only [hi, Option.some.injEq] at h
      subst h
      intro x hx; simp at hx; subst hx; exact ⟨rfl, hle⟩
    | some g' =>
      simp only [hi] at h
      obtain ⟨_, hs, hle', _⟩ := incrementDosage_decreasing g c g' hle hi
      cases hr : enumGo f c g' with
      | none => simp [hr] at h
      | some r =>
        simp only [hr, Option.map_some, Option.some.injEq] at h
        subst h
        intro x hx
        rcases List.mem_cons.mp hx with rfl | hx
        · exact ⟨rfl, hle⟩
        · obtain ⟨h1, h2⟩ := ih c g' r hle' hr x hx
          exact ⟨by omega, h2⟩

/-- every gamete the code's loops visit has total `τ` and lies under the constraint -/
theorem enumDosage_sound (tau : ℕ) (c : List ℕ) : ∀ x ∈ enumDosage tau c,
    x.sum = tau ∧ List.Forall₂ (· ≤ ·) x c := by
  intro x hx
  unfold enumDosage enumDosage? at hx
  cases hi : setInitialDosage tau c with
  | none => simp [hi] at hx
  | some g0 =>
    obtain ⟨h1, h2⟩ := setInitialDosage_sound tau c g0 hi
    simp only [hi] at hx
    cases hr : enumGo (boxSize c + 1) c g0 with
    | none => simp [hr] at hx
    | some r =>
      simp only [hr, Option.getD_some] at hx
      obtain ⟨h3, h4⟩ := enumGo_sound _ c g0 r h2 hr x hx
      exact ⟨by omega, h4⟩

/-! ### constraints lie below the progeny vector -/

theorem forall₂_le_trans {a b c : List ℕ} (h1 : List.Forall₂ (· ≤ ·) a b) (h2 : List.Forall₂ (· ≤ ·) b c) :
    List.Forall₂ (· ≤ ·) a c := by
  induction h1 generalizing c with
  | nil => cases h2; exact List.Forall₂.nil
  | cons hab _ ih =>
    cases h2 with
    | cons hbc h2' => exact List.Forall₂.cons (le_trans hab hbc) (ih h2')

theorem minVec_le : ∀ (d dp : List ℕ), d.length = dp.length → List.Forall₂ (· ≤ ·) (minVec d dp) d := by
  intro d
  induction d with
  | nil => intro dp _; simp [minVec]
  | cons x d ih =>
    intro dp h
    cases dp with
    | nil => simp at h
    | cons y dp =>
      have := ih dp (by simpa using h)
      simp only [minVec] at this ⊢
      exact List.Forall₂.cons (Nat.min_le_left _ _) this

theorem widen_le : ∀ (d c : List ℕ), List.Forall₂ (· ≤ ·) c d → List.Forall₂ (· ≤ ·) (widen d c) d := by
  intro d c h
  induction h with
  | nil => simp [widen]
  | cons hab _ ih =>
    simp only [widen] at ih ⊢
    refine List.Forall₂.cons ?_ ih
    show (if _ then 2 else _) ≤ _
    split <;> omega

theorem constraintOf_le (d dp : List ℕ) (lam : ℚ) (h : d.length = dp.length) :
    List.Forall₂ (· ≤ ·) (constraintOf d dp lam) d := by
  unfold constraintOf
  split
  · exact widen_le _ _ (minVec_le d dp h)
  · exact minVec_le d dp h

end MCHap
