import MCHap.Model.AssembleMoves
import MCHap.Proofs.Paths
import Mathlib.Algebra.BigOperators.Group.Finset.Basic
import Mathlib.Data.Finset.Card
import Mathlib.Tactic

/-! Refinement of the literal option enumerators of the interval moves
    (`dosage_step_n_options`, `recombination_step_n_options`: double loops over haplotype indices that
    skip duplicates through `get_haplotype_dosage`) to the abstract path sets on the multiset of
    (inside-segment, outside-segment) label pairs used by `pathwise_db`. -/
namespace MCHap.Refine
open MCHap MCHap.Paths Finset

variable {α : Type} [BEq α] [LawfulBEq α] [DecidableEq α]

/-- `dosageOf.go` entry by entry: 0 for a value already seen (before or earlier in the list),
    otherwise its multiplicity in the remaining list -/
theorem go_getD (seen : List α) : ∀ (l : List α) (i : ℕ) (hi : i < l.length),
    (dosageOf.go seen l).getD i 0
      = if l[i] ∈ seen ∨ l[i] ∈ l.take i then 0 else (l.drop i).count l[i] := by
  intro l
  induction l generalizing seen with
  | nil => intro i hi; simp at hi
  | cons x t ih =>
    intro i hi
    cases i with
    | zero =>
      simp only [dosageOf.go, List.getD_cons_zero, List.getElem_cons_zero, List.take_zero,
        List.not_mem_nil, or_false, List.drop_zero]
      by_cases hx : x ∈ seen
      · simp [hx]
      · simp [hx]
    | succ i =>
      have hi' : i < t.length := by simpa using hi
      simp only [dosageOf.go, List.getD_cons_succ, List.getElem_cons_succ, List.take_succ_cons,
        List.drop_succ_cons]
      rw [ih (x :: seen) i hi']
      simp only [List.mem_cons]
      by_cases h1 : t[i] = x <;> by_cases h2 : t[i] ∈ seen <;> by_cases h3 : t[i] ∈ t.take i <;>
        simp [h1, h2, h3]

theorem dosageOf_length (l : List α) : (dosageOf l).length = l.length := by
  unfold dosageOf
  have : ∀ (seen l : List α), (dosageOf.go seen l).length = l.length := by
    intro seen l
    induction l generalizing seen with
    | nil => rfl
    | cons x t ih => simp [dosageOf.go, ih]
  exact this [] l

/-- an entry of `get_haplotype_dosage` is 0 exactly at a repeated occurrence, and is the total
    multiplicity at a first occurrence -/
theorem dosageOf_getD (l : List α) (i : ℕ) (hi : i < l.length) :
    (dosageOf l).getD i 0 = if l[i] ∈ l.take i then 0 else l.count l[i] := by
  unfold dosageOf
  rw [go_getD [] l i hi]
  simp only [List.not_mem_nil, false_or]
  by_cases h : l[i] ∈ l.take i
  · simp [h]
  · simp only [h, if_false]
    have : l.count l[i] = (l.take i).count l[i] + (l.drop i).count l[i] := by
      rw [← List.count_append, List.take_append_drop]
    rw [this, List.count_eq_zero_of_not_mem h, zero_add]

/-- summing a function of the element over the first occurrences = summing over the distinct elements -/
theorem sum_first_occurrences (F : α → ℕ) (d : α) : ∀ (l : List α),
    ∑ i ∈ range l.length, (if l.getD i d ∈ l.take i then 0 else F (l.getD i d))
      = ∑ x ∈ l.toFinset, F x := by
  intro l
  induction l using List.reverseRecOn with
  | nil => simp
  | append_singleton l a ih =>
    rw [List.length_append, List.length_singleton, Finset.sum_range_succ]
    have hlt : ∀ i ∈ range l.length,
        (if (l ++ [a]).getD i d ∈ (l ++ [a]).take i then 0 else F ((l ++ [a]).getD i d))
          = (if l.getD i d ∈ l.take i then 0 else F (l.getD i d)) := by
      intro i hi
      have hi' : i < l.length := Finset.mem_range.mp hi
      have e1 : (l ++ [a]).getD i d = l.getD i d := by
        simp [List.getD_eq_getElem?_getD, List.getElem?_append_left hi']
      have e2 : (l ++ [a]).take i = l.take i := by
        rw [List.take_append_of_le_length (by omega)]
      rw [e1, e2]
    rw [Finset.sum_congr rfl hlt, ih]
    have e3 : (l ++ [a]).getD l.length d = a := by simp [List.getD_eq_getElem?_getD]
    have e4 : (l ++ [a]).take l.length = l := by simp
    rw [e3, e4]
    have e5 : (l ++ [a]).toFinset = insert a l.toFinset := by
      ext x; simp [or_comm]
    rw [e5]
    by_cases ha : a ∈ l
    · simp [ha]
    · have : a ∉ l.toFinset := by simpa using ha
      rw [Finset.sum_insert this]; simp [ha]; ring

/-- the same with the indicator written as the model writes it (`dosage[i] == 0`) -/
theorem sum_first_occurrences' (F : α → ℕ) (d : α) (l : List α) :
    ∑ i ∈ range l.length, (if (dosageOf l).getD i 0 = 0 then 0 else F (l.getD i d))
      = ∑ x ∈ l.toFinset, F x := by
  rw [← sum_first_occurrences F d l]
  apply Finset.sum_congr rfl
  intro i hi
  have hi' : i < l.length := Finset.mem_range.mp hi
  have hg : l.getD i d = l[i] := by simp [List.getD_eq_getElem?_getD, hi']
  rw [dosageOf_getD l i hi', hg]
  by_cases h : l[i] ∈ l.take i
  · simp [h]
  · have hc : l.count l[i] ≠ 0 := by
      have : 0 < l.count l[i] := List.count_pos_iff.mpr (List.getElem_mem hi')
      omega
    simp [h, hc]

/-- `dosage[i] ≠ 1` says the element occurs at least twice -/
theorem dosageOf_ne_one_iff (l : List α) (i : ℕ) (hi : i < l.length) :
    (dosageOf l).getD i 0 ≠ 1 ↔ 2 ≤ l.count l[i] := by
  rw [dosageOf_getD l i hi]
  have hpos : 0 < l.count l[i] := List.count_pos_iff.mpr (List.getElem_mem hi)
  by_cases h : l[i] ∈ l.take i
  · simp only [h, if_true]
    -- occurs before position i and at position i
    have h1 : 0 < (l.take i).count l[i] := List.count_pos_iff.mpr h
    have h2 : 0 < (l.drop i).count l[i] := by
      apply List.count_pos_iff.mpr
      have : l.drop i = l[i] :: l.drop (i + 1) := List.drop_eq_getElem_cons hi
      rw [this]; exact List.mem_cons_self
    have : l.count l[i] = (l.take i).count l[i] + (l.drop i).count l[i] := by
      rw [← List.count_append, List.take_append_drop]
    constructor
    · intro _; omega
    · intro _; omega
  · simp only [h, if_false]; omega

/-! ### counting the options of the dosage move -/

omit [BEq α] [LawfulBEq α] [DecidableEq α] in
theorem length_flatMap_range {β : Type} (p : ℕ) (f : ℕ → List β) :
    ((List.range p).flatMap f).length = ∑ i ∈ range p, (f i).length := by
  rw [List.length_flatMap, ← List.sum_toFinset _ List.nodup_range, List.toFinset_range]

omit [BEq α] [LawfulBEq α] [DecidableEq α] in
theorem length_filterMap_range {β : Type} (p : ℕ) (c : ℕ → Prop) [DecidablePred c] (g : ℕ → β) :
    ((List.range p).filterMap (fun i => if c i then none else some (g i))).length
      = ∑ i ∈ range p, (if c i then 0 else 1) := by
  induction p with
  | zero => simp
  | succ p ih =>
    rw [List.range_succ, List.filterMap_append, List.length_append, ih, Finset.sum_range_succ]
    by_cases h : c p <;> simp [h]

/-- the number of options `dosage_step_n_options` counts (double loop over haplotype indices,
    duplicates skipped through the two dosage vectors) is the number of abstract dosage paths
    (receiver type whose in-interval segment has ≥ 2 copies, donor segment different from it) -/
theorem dosageNOptions_eq_card (L : List (ℕ × ℕ)) :
    dosageNOptions L = (dPaths (L : Multiset (ℕ × ℕ))).card := by
  set segs := L.map (·.1) with hsegs
  have hslen : segs.length = L.length := by rw [hsegs, List.length_map]
  -- right-hand side as a double sum
  have hR : (dPaths (L : Multiset (ℕ × ℕ))).card
      = ∑ x ∈ L.toFinset, (if 2 ≤ segs.count x.1 then
          ∑ s ∈ segs.toFinset, (if x.1 = s then 0 else 1) else 0) := by
    unfold dPaths segCount
    rw [Finset.card_filter, Finset.sum_product]
    have e1 : (↑L : Multiset (ℕ × ℕ)).toFinset = L.toFinset := rfl
    have e2 : (Multiset.map Prod.fst (↑L : Multiset (ℕ × ℕ))).toFinset = segs.toFinset := rfl
    have e3 : ∀ a, Multiset.count a (Multiset.map Prod.fst (↑L : Multiset (ℕ × ℕ))) = segs.count a := by
      intro a; rw [Multiset.map_coe, Multiset.coe_count]
    rw [e1, e2]
    apply Finset.sum_congr rfl
    intro x _
    by_cases h2 : 2 ≤ segs.count x.1
    · rw [if_pos h2]
      apply Finset.sum_congr rfl
      intro s _
      simp only [e3]
      by_cases hs : x.1 = s
      · have : ¬ (2 ≤ segs.count x.1 ∧ s ≠ x.1) := fun h => h.2 hs.symm
        rw [if_pos hs, if_neg this]
      · have : 2 ≤ segs.count x.1 ∧ s ≠ x.1 := ⟨h2, fun e => hs e.symm⟩
        rw [if_neg hs, if_pos this]
    · rw [if_neg h2]
      apply Finset.sum_eq_zero
      intro s _
      simp only [e3]
      have : ¬ (2 ≤ segs.count x.1 ∧ s ≠ x.1) := fun h => h2 h.1
      rw [if_neg this]
  rw [hR]
  unfold dosageNOptions dosagePairs
  simp only
  rw [length_flatMap_range]
  rw [← sum_first_occurrences' (fun x => if 2 ≤ segs.count x.1 then
      ∑ s ∈ segs.toFinset, (if x.1 = s then 0 else 1) else 0) (0, 0) L]
  apply Finset.sum_congr rfl
  intro h0 hh0
  have hh0' : h0 < L.length := Finset.mem_range.mp hh0
  by_cases hd0 : (dosageOf L).getD h0 0 = 0
  · rw [if_pos hd0, if_pos hd0]; rfl
  · rw [if_neg hd0, if_neg hd0]
    have hx : L.getD h0 (0, 0) = L[h0] := by
      rw [List.getD_eq_getElem?_getD, List.getElem?_eq_getElem hh0']; rfl
    have hseg0 : segs[h0]'(by rw [hslen]; exact hh0') = L[h0].1 := by
      simp only [hsegs, List.getElem_map]
    have hne1 := dosageOf_ne_one_iff segs h0 (by rw [hslen]; exact hh0')
    rw [hseg0] at hne1
    by_cases hs1 : (dosageOf segs).getD h0 0 = 1
    · have h2 : ¬ 2 ≤ segs.count L[h0].1 := fun h => (hne1.mpr h) hs1
      rw [if_pos hs1, hx, if_neg h2]; rfl
    · have h2 : 2 ≤ segs.count L[h0].1 := hne1.mp hs1
      rw [if_neg hs1, hx, if_pos h2]
      have hfm : (List.range L.length).filterMap (fun h1 =>
            if (dosageOf segs).getD h1 0 = 0 then none
            else if L[h0].1 = (L.getD h1 (0, 0)).1 then none else some (h0, h1))
          = (List.range L.length).filterMap (fun h1 =>
            if ((dosageOf segs).getD h1 0 = 0 ∨ L[h0].1 = (L.getD h1 (0, 0)).1) then none
            else some (h0, h1)) := by
        apply List.filterMap_congr
        intro h1 _
        by_cases ha : (dosageOf segs).getD h1 0 = 0
        · rw [if_pos ha, if_pos (Or.inl ha)]
        · by_cases hb : L[h0].1 = (L.getD h1 (0, 0)).1
          · rw [if_neg ha, if_pos hb, if_pos (Or.inr hb)]
          · rw [if_neg ha, if_neg hb, if_neg (by tauto)]
      rw [hfm, length_filterMap_range L.length
        (fun h1 => (dosageOf segs).getD h1 0 = 0 ∨ L[h0].1 = (L.getD h1 (0, 0)).1)
        (fun h1 => (h0, h1))]
      rw [← sum_first_occurrences' (fun s => if L[h0].1 = s then 0 else 1) 0 segs, hslen]
      apply Finset.sum_congr rfl
      intro h1 hh1
      have hh1' : h1 < L.length := Finset.mem_range.mp hh1
      have hs : segs.getD h1 0 = (L.getD h1 (0, 0)).1 := by
        rw [List.getD_eq_getElem?_getD, List.getD_eq_getElem?_getD,
          List.getElem?_eq_getElem hh1', List.getElem?_eq_getElem (by rw [hslen]; exact hh1')]
        simp only [hsegs, List.getElem_map, Option.getD_some]
      rw [hs]
      by_cases ha : (dosageOf segs).getD h1 0 = 0
      · rw [if_pos (Or.inl ha), if_pos ha]
      · by_cases hb : L[h0].1 = (L.getD h1 (0, 0)).1
        · rw [if_pos (Or.inr hb), if_neg ha, if_pos hb]
        · rw [if_neg (by tauto), if_neg ha, if_neg hb]

/-! ### counting the options of the recombination move -/

omit [BEq α] [LawfulBEq α] [DecidableEq α] in
theorem length_filterMap_filter_range {β : Type} (p : ℕ) (q c : ℕ → Prop) [DecidablePred q]
    [DecidablePred c] (g : ℕ → β) :
    (((List.range p).filter (fun i => decide (q i))).filterMap
        (fun i => if c i then none else some (g i))).length
      = ∑ i ∈ range p, (if q i then (if c i then 0 else 1) else 0) := by
  induction p with
  | zero => simp
  | succ p ih =>
    rw [List.range_succ, List.filter_append, List.filterMap_append, List.length_append, ih,
      Finset.sum_range_succ]
    by_cases hq : q p <;> by_cases hc : c p <;> simp [hq, hc]

/-- for a symmetric `f` vanishing on the diagonal, the full double sum is twice the sum over `i < j` -/
theorem sum_symm_double (p : ℕ) (f : ℕ → ℕ → ℕ) (hs : ∀ i j, f i j = f j i) (hd : ∀ i, f i i = 0) :
    ∑ i ∈ range p, ∑ j ∈ range p, f i j
      = 2 * ∑ i ∈ range p, ∑ j ∈ range p, (if i < j then f i j else 0) := by
  have hsplit : ∀ i j, f i j = (if i < j then f i j else 0) + (if j < i then f i j else 0) := by
    intro i j
    rcases lt_trichotomy i j with h | h | h
    · have : ¬ j < i := by omega
      simp [h, this]
    · subst h; simp [hd]
    · have : ¬ i < j := by omega
      simp [h, this]
  have h1 : ∑ i ∈ range p, ∑ j ∈ range p, f i j
      = ∑ i ∈ range p, ∑ j ∈ range p, (if i < j then f i j else 0)
        + ∑ i ∈ range p, ∑ j ∈ range p, (if j < i then f i j else 0) := by
    rw [← Finset.sum_add_distrib]
    apply Finset.sum_congr rfl; intro i _
    rw [← Finset.sum_add_distrib]
    apply Finset.sum_congr rfl; intro j _
    exact hsplit i j
  have h2 : ∑ i ∈ range p, ∑ j ∈ range p, (if j < i then f i j else 0)
      = ∑ i ∈ range p, ∑ j ∈ range p, (if i < j then f i j else 0) := by
    rw [Finset.sum_comm]
    apply Finset.sum_congr rfl; intro i _
    apply Finset.sum_congr rfl; intro j _
    rw [hs j i]
  rw [h1, h2]; ring

/-- the number of options `recombination_step_n_options` counts (pairs `h0 < h1` of first
    occurrences of haplotype types differing inside and outside the interval) is half the number of
    ordered abstract recombination paths -/
theorem recombNOptions_double_eq_card (L : List (ℕ × ℕ)) :
    2 * recombNOptions L = (rPaths (L : Multiset (ℕ × ℕ))).card := by
  let T : (ℕ × ℕ) → (ℕ × ℕ) → ℕ := fun x y => if x.1 = y.1 ∨ x.2 = y.2 then 0 else 1
  let f : ℕ → ℕ → ℕ := fun i j =>
    if (dosageOf L).getD i 0 = 0 then 0 else
      if (dosageOf L).getD j 0 = 0 then 0 else T (L.getD i (0, 0)) (L.getD j (0, 0))
  have hTs : ∀ x y, T x y = T y x := by
    intro x y; simp only [T]
    by_cases h : x.1 = y.1 ∨ x.2 = y.2
    · have h' : y.1 = x.1 ∨ y.2 = x.2 := by rcases h with h | h <;> [left; right] <;> exact h.symm
      rw [if_pos h, if_pos h']
    · have h' : ¬ (y.1 = x.1 ∨ y.2 = x.2) := by
        intro hh; apply h; rcases hh with hh | hh <;> [left; right] <;> exact hh.symm
      rw [if_neg h, if_neg h']
  have hfs : ∀ i j, f i j = f j i := by
    intro i j; simp only [f]
    by_cases hi : (dosageOf L).getD i 0 = 0 <;> by_cases hj : (dosageOf L).getD j 0 = 0
    · rw [if_pos hi, if_pos hj]
    · rw [if_pos hi, if_neg hj, if_pos hi]
    · rw [if_neg hi, if_pos hj, if_pos hj]
    · rw [if_neg hi, if_neg hj, if_neg hj, if_neg hi, hTs]
  have hfd : ∀ i, f i i = 0 := by
    intro i; simp only [f, T]
    by_cases hi : (dosageOf L).getD i 0 = 0
    · rw [if_pos hi]
    · rw [if_neg hi, if_neg hi]; simp
  -- left: the literal double loop
  have hL : recombNOptions L = ∑ i ∈ range L.length, ∑ j ∈ range L.length, (if i < j then f i j else 0) := by
    unfold recombNOptions recombPairs
    simp only
    rw [length_flatMap_range]
    apply Finset.sum_congr rfl
    intro h0 _
    by_cases hd0 : (dosageOf L).getD h0 0 = 0
    · rw [if_pos hd0]
      symm
      apply Finset.sum_eq_zero
      intro j _
      simp only [f]; rw [if_pos hd0]; simp
    · rw [if_neg hd0]
      have hfm : ((List.range L.length).filter (fun h1 => decide (h0 < h1))).filterMap (fun h1 =>
            if (dosageOf L).getD h1 0 = 0 then none
            else if (L.getD h0 (0, 0)).1 = (L.getD h1 (0, 0)).1 ∨ (L.getD h0 (0, 0)).2 = (L.getD h1 (0, 0)).2
              then none else some (h0, h1))
          = ((List.range L.length).filter (fun h1 => decide (h0 < h1))).filterMap (fun h1 =>
            if ((dosageOf L).getD h1 0 = 0 ∨
                ((L.getD h0 (0, 0)).1 = (L.getD h1 (0, 0)).1 ∨ (L.getD h0 (0, 0)).2 = (L.getD h1 (0, 0)).2))
              then none else some (h0, h1)) := by
        apply List.filterMap_congr
        intro h1 _
        by_cases ha : (dosageOf L).getD h1 0 = 0
        · rw [if_pos ha, if_pos (Or.inl ha)]
        · by_cases hb : (L.getD h0 (0, 0)).1 = (L.getD h1 (0, 0)).1 ∨ (L.getD h0 (0, 0)).2 = (L.getD h1 (0, 0)).2
          · rw [if_neg ha, if_pos hb, if_pos (Or.inr hb)]
          · rw [if_neg ha, if_neg hb, if_neg (by tauto)]
      rw [hfm, length_filterMap_filter_range L.length (fun h1 => h0 < h1)
        (fun h1 => (dosageOf L).getD h1 0 = 0 ∨
          ((L.getD h0 (0, 0)).1 = (L.getD h1 (0, 0)).1 ∨ (L.getD h0 (0, 0)).2 = (L.getD h1 (0, 0)).2))
        (fun h1 => (h0, h1))]
      apply Finset.sum_congr rfl
      intro j _
      by_cases hlt : h0 < j
      · rw [if_pos hlt, if_pos hlt]
        simp only [f, T]
        rw [if_neg hd0]
        by_cases ha : (dosageOf L).getD j 0 = 0
        · rw [if_pos (Or.inl ha), if_pos ha]
        · by_cases hb : (L.getD h0 (0, 0)).1 = (L.getD j (0, 0)).1 ∨ (L.getD h0 (0, 0)).2 = (L.getD j (0, 0)).2
          · rw [if_pos (Or.inr hb), if_neg ha, if_pos hb]
          · rw [if_neg (by tauto), if_neg ha, if_neg hb]
      · rw [if_neg hlt, if_neg hlt]
  -- right: ordered pairs of distinct types
  have hR : (rPaths (L : Multiset (ℕ × ℕ))).card = ∑ x ∈ L.toFinset, ∑ y ∈ L.toFinset, T x y := by
    unfold rPaths
    rw [Finset.card_filter, Finset.sum_product]
    have e1 : (↑L : Multiset (ℕ × ℕ)).toFinset = L.toFinset := rfl
    rw [e1]
    apply Finset.sum_congr rfl; intro x _
    apply Finset.sum_congr rfl; intro y _
    simp only [T]
    by_cases h : x.1 = y.1 ∨ x.2 = y.2
    · have : ¬ (x.1 ≠ y.1 ∧ x.2 ≠ y.2) := by tauto
      rw [if_pos h, if_neg this]
    · have : x.1 ≠ y.1 ∧ x.2 ≠ y.2 := by tauto
      rw [if_neg h, if_pos this]
  rw [hL, ← sum_symm_double L.length f hfs hfd, hR]
  rw [← sum_first_occurrences' (fun x => ∑ y ∈ L.toFinset, T x y) (0, 0) L]
  apply Finset.sum_congr rfl
  intro i _
  by_cases hi : (dosageOf L).getD i 0 = 0
  · rw [if_pos hi]
    apply Finset.sum_eq_zero
    intro j _; simp only [f]; rw [if_pos hi]
  · rw [if_neg hi]
    rw [← sum_first_occurrences' (fun y => T (L.getD i (0, 0)) y) (0, 0) L]
    apply Finset.sum_congr rfl
    intro j _
    simp only [f]; rw [if_neg hi]

/-! ### every literal dosage option is an abstract path with the same target -/

omit [BEq α] [LawfulBEq α] in
theorem coe_set_eq (l : List α) (i : ℕ) (hi : i < l.length) (y : α) :
    ((l.set i y : List α) : Multiset α) = y ::ₘ (l : Multiset α).erase l[i] := by
  induction l generalizing i with
  | nil => simp at hi
  | cons x t ih =>
    cases i with
    | zero => simp
    | succ i =>
      have hi' : i < t.length := by simpa using hi
      simp only [List.set_cons_succ, List.getElem_cons_succ]
      rw [← Multiset.cons_coe, ih i hi', ← Multiset.cons_coe]
      by_cases hx : x = t[i]
      · subst hx
        rw [Multiset.erase_cons_head, Multiset.cons_swap,
          Multiset.cons_erase (by exact List.getElem_mem hi')]
      · rw [Multiset.erase_cons_tail _ (fun e => hx e), Multiset.cons_swap]

/-- a value has only one first occurrence -/
theorem first_occurrence_unique (l : List α) (i j : ℕ) (hi : i < l.length) (hj : j < l.length)
    (di : (dosageOf l).getD i 0 ≠ 0) (dj : (dosageOf l).getD j 0 ≠ 0) (he : l[i] = l[j]) : i = j := by
  rw [dosageOf_getD l i hi] at di
  rw [dosageOf_getD l j hj] at dj
  have ni : l[i] ∉ l.take i := by
    intro h; rw [if_pos h] at di; exact di rfl
  have nj : l[j] ∉ l.take j := by
    intro h; rw [if_pos h] at dj; exact dj rfl
  rcases lt_trichotomy i j with h | h | h
  · exfalso; apply nj; rw [← he]
    rw [List.mem_take_iff_getElem]
    exact ⟨i, by omega, rfl⟩
  · exact h
  · exfalso; apply ni; rw [he]
    rw [List.mem_take_iff_getElem]
    exact ⟨j, by omega, rfl⟩

theorem mem_dosagePairs (L : List (ℕ × ℕ)) (h0 h1 : ℕ) :
    (h0, h1) ∈ dosagePairs L ↔
      h0 < L.length ∧ h1 < L.length ∧ (dosageOf L).getD h0 0 ≠ 0 ∧
      (dosageOf (L.map (·.1))).getD h0 0 ≠ 1 ∧ (dosageOf (L.map (·.1))).getD h1 0 ≠ 0 ∧
      (L.getD h0 (0, 0)).1 ≠ (L.getD h1 (0, 0)).1 := by
  unfold dosagePairs
  simp only [List.mem_flatMap, List.mem_range]
  constructor
  · rintro ⟨a, ha, hmem⟩
    by_cases c1 : (dosageOf L).getD a 0 = 0
    · rw [if_pos c1] at hmem; simp at hmem
    · rw [if_neg c1] at hmem
      by_cases c2 : (dosageOf (L.map (·.1))).getD a 0 = 1
      · rw [if_pos c2] at hmem; simp at hmem
      · rw [if_neg c2] at hmem
        rw [List.mem_filterMap] at hmem
        obtain ⟨b, hb, hsome⟩ := hmem
        by_cases c3 : (dosageOf (L.map (·.1))).getD b 0 = 0
        · rw [if_pos c3] at hsome; cases hsome
        · rw [if_neg c3] at hsome
          by_cases c4 : (L.getD a (0, 0)).1 = (L.getD b (0, 0)).1
          · rw [if_pos c4] at hsome; cases hsome
          · rw [if_neg c4] at hsome
            simp only [Option.some.injEq, Prod.mk.injEq] at hsome
            obtain ⟨rfl, rfl⟩ := hsome
            exact ⟨ha, List.mem_range.mp hb, c1, c2, c3, c4⟩
  · rintro ⟨a1, a2, c1, c2, c3, c4⟩
    refine ⟨h0, a1, ?_⟩
    rw [if_neg c1, if_neg c2, List.mem_filterMap]
    exact ⟨h1, List.mem_range.mpr a2, by rw [if_neg c3, if_neg c4]⟩

/-- **soundness of the literal enumeration**: every option `dosage_step_options` produces is an
    abstract dosage path, and the label array it produces represents that path's target -/
theorem dosagePairs_sound (L : List (ℕ × ℕ)) (h0 h1 : ℕ) (h : (h0, h1) ∈ dosagePairs L) :
    ∃ (a0 : h0 < L.length) (a1 : h1 < L.length),
      (L[h0], L[h1].1) ∈ dPaths (L : Multiset (ℕ × ℕ)) ∧
      ((L.set h0 (L[h1].1, L[h0].2) : List (ℕ × ℕ)) : Multiset (ℕ × ℕ))
        = dTgt (L : Multiset (ℕ × ℕ)) (L[h0], L[h1].1) := by
  obtain ⟨a0, a1, c1, c2, c3, c4⟩ := (mem_dosagePairs L h0 h1).mp h
  refine ⟨a0, a1, ?_, ?_⟩
  · rw [mem_dPaths]
    have hs0 : (L.map (·.1))[h0]'(by simpa using a0) = L[h0].1 := by simp
    have hs1 : (L.map (·.1))[h1]'(by simpa using a1) = L[h1].1 := by simp
    have e : ∀ a, segCount (L : Multiset (ℕ × ℕ)) a = (L.map (·.1)).count a := by
      intro a; unfold segCount; rw [Multiset.map_coe, Multiset.coe_count]
    refine ⟨by simp, ?_, ?_, ?_⟩
    · rw [e]
      have : 0 < (L.map (·.1)).count L[h1].1 := by
        apply List.count_pos_iff.mpr
        exact List.mem_map.mpr ⟨L[h1], List.getElem_mem a1, rfl⟩
      exact this
    · rw [e]
      have := (dosageOf_ne_one_iff (L.map (·.1)) h0 (by simpa using a0)).mp c2
      rwa [hs0] at this
    · have g0 : L.getD h0 (0, 0) = L[h0] := by
        rw [List.getD_eq_getElem?_getD, List.getElem?_eq_getElem a0]; rfl
      have g1 : L.getD h1 (0, 0) = L[h1] := by
        rw [List.getD_eq_getElem?_getD, List.getElem?_eq_getElem a1]; rfl
      rw [g0, g1] at c4
      exact fun e' => c4 e'.symm
  · rw [coe_set_eq L h0 a0]; rfl

/-- distinct literal options are distinct abstract paths -/
theorem dosagePairs_injective (L : List (ℕ × ℕ)) (h0 h1 k0 k1 : ℕ)
    (h : (h0, h1) ∈ dosagePairs L) (k : (k0, k1) ∈ dosagePairs L)
    (e0 : L.getD h0 (0, 0) = L.getD k0 (0, 0))
    (e1 : (L.getD h1 (0, 0)).1 = (L.getD k1 (0, 0)).1) : h0 = k0 ∧ h1 = k1 := by
  obtain ⟨a0, a1, c1, _, c3, _⟩ := (mem_dosagePairs L h0 h1).mp h
  obtain ⟨b0, b1, d1, _, d3, _⟩ := (mem_dosagePairs L k0 k1).mp k
  have g : ∀ i (hi : i < L.length), L.getD i (0, 0) = L[i] := by
    intro i hi; rw [List.getD_eq_getElem?_getD, List.getElem?_eq_getElem hi]; rfl
  rw [g h0 a0, g k0 b0] at e0
  rw [g h1 a1, g k1 b1] at e1
  constructor
  · exact first_occurrence_unique L h0 k0 a0 b0 c1 d1 e0
  · have := first_occurrence_unique (L.map (·.1)) h1 k1 (by simpa using a1) (by simpa using b1) c3 d3
      (by simpa using e1)
    exact this

theorem mem_recombPairs (L : List (ℕ × ℕ)) (h0 h1 : ℕ) :
    (h0, h1) ∈ recombPairs L ↔
      h0 < L.length ∧ h1 < L.length ∧ h0 < h1 ∧ (dosageOf L).getD h0 0 ≠ 0 ∧ (dosageOf L).getD h1 0 ≠ 0 ∧
      (L.getD h0 (0, 0)).1 ≠ (L.getD h1 (0, 0)).1 ∧ (L.getD h0 (0, 0)).2 ≠ (L.getD h1 (0, 0)).2 := by
  unfold recombPairs
  simp only [List.mem_flatMap, List.mem_range]
  constructor
  · rintro ⟨a, ha, hmem⟩
    by_cases c1 : (dosageOf L).getD a 0 = 0
    · rw [if_pos c1] at hmem; simp at hmem
    · rw [if_neg c1] at hmem
      rw [List.mem_filterMap] at hmem
      obtain ⟨b, hb, hsome⟩ := hmem
      rw [List.mem_filter] at hb
      by_cases c3 : (dosageOf L).getD b 0 = 0
      · rw [if_pos c3] at hsome; cases hsome
      · rw [if_neg c3] at hsome
        by_cases c4 : (L.getD a (0, 0)).1 = (L.getD b (0, 0)).1 ∨ (L.getD a (0, 0)).2 = (L.getD b (0, 0)).2
        · rw [if_pos c4] at hsome; cases hsome
        · rw [if_neg c4] at hsome
          simp only [Option.some.injEq, Prod.mk.injEq] at hsome
          obtain ⟨rfl, rfl⟩ := hsome
          refine ⟨ha, List.mem_range.mp hb.1, by simpa using hb.2, c1, c3, ?_, ?_⟩
          · exact fun e => c4 (Or.inl e)
          · exact fun e => c4 (Or.inr e)
  · rintro ⟨a1, a2, hlt, c1, c3, c4, c5⟩
    refine ⟨h0, a1, ?_⟩
    rw [if_neg c1, List.mem_filterMap]
    refine ⟨h1, ?_, ?_⟩
    · rw [List.mem_filter]; exact ⟨List.mem_range.mpr a2, by simpa using hlt⟩
    · rw [if_neg c3, if_neg (by tauto)]

/-- **soundness of the literal recombination enumeration**: every option is an abstract
    recombination path and the label array produced represents that path's target -/
theorem recombPairs_sound (L : List (ℕ × ℕ)) (h0 h1 : ℕ) (h : (h0, h1) ∈ recombPairs L) :
    ∃ (a0 : h0 < L.length) (a1 : h1 < L.length),
      (L[h0], L[h1]) ∈ rPaths (L : Multiset (ℕ × ℕ)) ∧
      (((L.set h0 (L[h1].1, L[h0].2)).set h1 (L[h0].1, L[h1].2) : List (ℕ × ℕ)) : Multiset (ℕ × ℕ))
        = rTgt (L : Multiset (ℕ × ℕ)) (L[h0], L[h1]) := by
  obtain ⟨a0, a1, hlt, c1, c3, c4, c5⟩ := (mem_recombPairs L h0 h1).mp h
  have g : ∀ i (hi : i < L.length), L.getD i (0, 0) = L[i] := by
    intro i hi; rw [List.getD_eq_getElem?_getD, List.getElem?_eq_getElem hi]; rfl
  rw [g h0 a0, g h1 a1] at c4 c5
  refine ⟨a0, a1, ?_, ?_⟩
  · rw [mem_rPaths]
    exact ⟨by simp, by simp, c4, c5⟩
  · have hlen : h1 < (L.set h0 (L[h1].1, L[h0].2)).length := by simpa using a1
    rw [coe_set_eq _ h1 hlen]
    have hget : (L.set h0 (L[h1].1, L[h0].2))[h1]'hlen = L[h1] := by
      rw [List.getElem_set_ne (by omega)]
    rw [hget, coe_set_eq L h0 a0]
    have hne : (L[h1].1, L[h0].2) ≠ L[h1] := by
      intro e
      have := congrArg Prod.snd e
      exact c5 this
    rw [Multiset.erase_cons_tail _ (fun e => hne e)]
    unfold rTgt
    simp only
    rw [Multiset.cons_swap]

end MCHap.Refine
