import MCHap.Model.Pedigree
import MCHap.Proofs.Prior
import MCHap.Proofs.Comb
import MCHap.Properties.C05
import Mathlib.Data.List.Nodup
import Mathlib.Data.List.Count
import Mathlib.Data.Nat.Choose.Vandermonde
import Mathlib.Tactic

/-! Helper lemmas for C17 / C18: facts about `compositions`, regrouping of sums, vector algebra. -/
namespace MCHap
open Finset

/-! ### `compositions n p` is exactly the set of count vectors of length `n` and sum `p` -/

theorem mem_compositions_iff : ∀ (n p : ℕ) (c : List ℕ),
    c ∈ compositions n p ↔ c.length = n ∧ c.sum = p := by
  intro n p c
  constructor
  · exact C05.compositions_spec n p c
  · revert p c
    induction n with
    | zero =>
      intro p c ⟨hl, hs⟩
      have : c = [] := List.length_eq_zero_iff.mp hl
      subst this
      simp at hs; subst hs; simp [compositions]
    | succ n ih =>
      intro p c ⟨hl, hs⟩
      cases c with
      | nil => simp at hl
      | cons i c' =>
        simp only [List.length_cons, Nat.add_right_cancel_iff] at hl
        simp only [List.sum_cons] at hs
        simp only [compositions, List.mem_flatMap, List.mem_range, List.mem_map]
        refine ⟨i, by omega, c', ih (p - i) c' ⟨hl, by omega⟩, rfl⟩

theorem compositions_nodup : ∀ (n p : ℕ), (compositions n p).Nodup := by
  intro n
  induction n with
  | zero => intro p; cases p <;> simp [compositions]
  | succ n ih =>
    intro p
    simp only [compositions]
    rw [List.nodup_flatMap]
    constructor
    · intro i _
      exact (ih (p - i)).map (fun a b h => by simpa using h)
    · apply List.Pairwise.imp_of_mem (R := fun a b => a ≠ b)
      · intro i j _ _ hij
        simp only [Function.onFun, List.disjoint_left, List.mem_map]
        rintro x ⟨a, _, rfl⟩ ⟨b, _, hb⟩
        simp at hb
        exact hij hb.1.symm
      · exact List.nodup_range

/-! ### multivariate Vandermonde -/

def chq (a k : ℕ) : ℚ := (Nat.choose a k : ℚ)

theorem chq_add (a b p : ℕ) : ∑ ij ∈ antidiagonal p, chq a ij.1 * chq b ij.2 = chq (a + b) p := by
  unfold chq
  rw [Nat.add_choose_eq]
  push_cast
  rfl

theorem chq_zero (k : ℕ) : chq 0 k = if k = 0 then 1 else 0 := by
  cases k <;> simp [chq]

theorem dosagePermutations_eq : ∀ (g dp : List ℕ),
    (dosagePermutations g dp : ℚ) = ((dp.zip g).map (fun ac => chq ac.1 ac.2)).prod := by
  intro g
  induction g with
  | nil => intro dp; cases dp <;> simp [dosagePermutations]
  | cons a g ih =>
    intro dp
    cases dp with
    | nil => simp [dosagePermutations]
    | cons b dp =>
      have := ih dp
      simp only [dosagePermutations] at this ⊢
      simp only [List.zip_cons_cons, List.map_cons, List.foldr_cons, List.prod_cons, Nat.cast_mul]
      rw [this, comb_eq_choose]; rfl

/-- `Σ_g ∏ C(d_i, g_i) = C(Σ d_i, τ)` over all count vectors `g` of sum `τ` -/
theorem vandermonde_multi (dp : List ℕ) (tau : ℕ) :
    ((compositions dp.length tau).map (fun g => (dosagePermutations g dp : ℚ))).sum
      = (Nat.choose dp.sum tau : ℚ) := by
  have h := conv_compositions chq chq_add chq_zero dp tau
  simp only [chq] at h ⊢
  rw [← h]
  congr 1
  apply List.map_congr_left
  intro g _
  rw [dosagePermutations_eq]; rfl

/-! ### list-sum bookkeeping -/

theorem sum_map_sum_comm {α β : Type} (L : List α) (R : List β) (f : α → β → ℚ) :
    (L.map (fun g => (R.map (f g)).sum)).sum = (R.map (fun i => (L.map (fun g => f g i)).sum)).sum := by
  induction L with
  | nil => simp
  | cons a L ih =>
    simp only [List.map_cons, List.sum_cons, ih]
    rw [← List.sum_map_add]

theorem sum_indicator {α : Type} [DecidableEq α] (L : List α) (hL : L.Nodup) (a : α) (v : ℚ) :
    (L.map (fun g => if g = a then v else 0)).sum = if a ∈ L then v else 0 := by
  induction L with
  | nil => simp
  | cons b L ih =>
    obtain ⟨hb, hL'⟩ := List.nodup_cons.mp hL
    simp only [List.map_cons, List.sum_cons, ih hL', List.mem_cons]
    by_cases h : b = a
    · subst h; simp [hb]
    · have h' : ¬ a = b := fun e => h e.symm
      simp [h, h']

theorem twoUnit_mem (n i : ℕ) (hi : i < n) : twoUnit n i ∈ compositions n 2 := by
  rw [mem_compositions_iff]
  refine ⟨by simp [twoUnit], ?_⟩
  unfold twoUnit
  rw [List.sum_map_eq_nsmul_single i]
  · simp [List.count_range, hi]
  · intro j hj _; simp [hj]

theorem sum_getD_range_rat (l : List ℕ) :
    ((List.range l.length).map (fun a => (l.getD a 0 : ℚ))).sum = (l.sum : ℚ) := by
  have : (List.range l.length).map (fun a => (l.getD a 0 : ℚ)) = l.map (Nat.cast : ℕ → ℚ) := by
    apply List.ext_getElem
    · simp
    · intro i h1 h2
      simp only [List.length_map, List.length_range] at h1
      simp [List.getD_eq_getElem?_getD, h1]
  rw [this, Nat.cast_list_sum]

/-- numerator of the double-reduction term as a rational -/
theorem drSpec_eq (dp : List ℕ) (pp : ℕ) (g : List ℕ) :
    drSpec dp pp g
      = ((List.range g.length).map (fun i => if g = twoUnit g.length i then (dp.getD i 0 : ℚ) else 0)).sum
        / (pp : ℚ) := by
  unfold drSpec
  congr 1
  induction (List.range g.length) with
  | nil => simp
  | cons a l ih =>
    simp only [List.map_cons, List.sum_cons, Nat.cast_add, ih]
    split <;> simp

/-- the double-reduction term sums to one over the diploid gametes -/
theorem dr_sum (dp : List ℕ) (pp : ℕ) (hs : dp.sum = pp) (hpp : 0 < pp) :
    ((compositions dp.length 2).map (drSpec dp pp)).sum = 1 := by
  have h1 : ∀ g ∈ compositions dp.length 2, drSpec dp pp g
      = ((List.range dp.length).map (fun i => if g = twoUnit dp.length i then (dp.getD i 0 : ℚ) else 0)).sum
        * (pp : ℚ)⁻¹ := by
    intro g hg
    rw [drSpec_eq, ((mem_compositions_iff _ _ _).mp hg).1, div_eq_mul_inv]
  rw [List.map_congr_left h1, List.sum_map_mul_right, sum_map_sum_comm]
  have h2 : ∀ i ∈ List.range dp.length,
      ((compositions dp.length 2).map (fun g => if g = twoUnit dp.length i then (dp.getD i 0 : ℚ) else 0)).sum
        = (dp.getD i 0 : ℚ) := by
    intro i hi
    rw [sum_indicator _ (compositions_nodup _ _), if_pos (twoUnit_mem _ _ (List.mem_range.mp hi))]
  rw [List.map_congr_left h2, sum_getD_range_rat, hs]
  have : (pp : ℚ) ≠ 0 := by exact_mod_cast hpp.ne'
  field_simp

/-! ### regrouping a sum over pairs by the value of a function -/

theorem sum_regroup {α β : Type} [DecidableEq β] (D : List β) (hD : D.Nodup) (L : List α) (f : α → β)
    (F : α → ℚ) (hf : ∀ x ∈ L, f x ∈ D) :
    (D.map (fun d => ((L.filter (fun x => f x = d)).map F).sum)).sum = (L.map F).sum := by
  induction L with
  | nil => simp
  | cons x L ih =>
    have hx : f x ∈ D := hf x (by simp)
    have ih' := ih (fun y hy => hf y (List.mem_cons_of_mem _ hy))
    have e : ∀ d ∈ D, (((x :: L).filter (fun y => f y = d)).map F).sum
        = (if d = f x then F x else 0) + ((L.filter (fun y => f y = d)).map F).sum := by
      intro d _
      by_cases h : f x = d
      · have h' : d = f x := h.symm
        rw [List.filter_cons_of_pos (by simpa using h), if_pos h']; simp
      · have h' : ¬ d = f x := fun e => h e.symm
        rw [List.filter_cons_of_neg (by simpa using h), if_neg h']; simp
    rw [List.map_congr_left e, List.sum_map_add, ih', sum_indicator D hD (f x) (F x), if_pos hx]
    simp

theorem sum_map_flatMap {α β : Type} (L : List α) (g : α → List β) (F : β → ℚ) :
    ((L.flatMap g).map F).sum = (L.map (fun a => ((g a).map F).sum)).sum := by
  induction L with
  | nil => simp
  | cons a L ih => simp [List.flatMap_cons, ih]

theorem vadd_length (a b : List ℕ) (h : a.length = b.length) : (vadd a b).length = a.length := by
  simp [vadd, h]

theorem vadd_sum : ∀ (a b : List ℕ), a.length = b.length → (vadd a b).sum = a.sum + b.sum := by
  intro a
  induction a with
  | nil => intro b h; cases b <;> simp_all [vadd]
  | cons x a ih =>
    intro b h
    cases b with
    | nil => simp at h
    | cons y b =>
      simp only [List.length_cons, Nat.add_right_cancel_iff] at h
      have := ih b h
      simp only [vadd] at this ⊢
      simp only [List.zipWith_cons_cons, List.sum_cons, this]; omega

theorem mem_gametePairs (n tp tq : ℕ) (ab : List ℕ × List ℕ) :
    ab ∈ gametePairs n tp tq ↔ ab.1 ∈ compositions n tp ∧ ab.2 ∈ compositions n tq := by
  unfold gametePairs
  simp only [List.mem_flatMap, List.mem_map]
  constructor
  · rintro ⟨a, ha, b, hb, rfl⟩; exact ⟨ha, hb⟩
  · rintro ⟨ha, hb⟩; exact ⟨ab.1, ha, ab.2, hb, rfl⟩

/-- a product of two sums as one sum over all pairs -/
theorem sum_gametePairs (n tp tq : ℕ) (F G : List ℕ → ℚ) :
    ((gametePairs n tp tq).map (fun ab => F ab.1 * G ab.2)).sum
      = ((compositions n tp).map F).sum * ((compositions n tq).map G).sum := by
  unfold gametePairs
  rw [sum_map_flatMap]
  simp only [List.map_map]
  have : ∀ a ∈ compositions n tp,
      ((compositions n tq).map ((fun ab : List ℕ × List ℕ => F ab.1 * G ab.2) ∘ fun b => (a, b))).sum
        = F a * ((compositions n tq).map G).sum := by
    intro a _
    have e : ((fun ab : List ℕ × List ℕ => F ab.1 * G ab.2) ∘ fun b => (a, b)) = fun b => F a * G b := rfl
    rw [e, List.sum_map_mul_left]
  rw [List.map_congr_left this, List.sum_map_mul_right]

end MCHap
