import MCHap.Model.Reads
import Mathlib.Data.List.Basic
import Mathlib.Data.List.Perm.Basic
import Mathlib.Tactic

/-! Helper lemmas for C06: association-list updates, the read loop projected on one sample, cell merging. -/
set_option linter.unusedSimpArgs false
set_option linter.unusedVariables false

namespace MCHap

/-! ### `appendNew`: insertion order of a dict fed with a sequence of keys -/

/-- keys of a dict after `for q in xs: if q not in d: d[q] = …`, starting from keys `l` -/
def appendNew (l : List String) (xs : List String) : List String :=
  xs.foldl (fun acc q => if q ∈ acc then acc else acc ++ [q]) l

theorem appendNew_nil (l : List String) : appendNew l [] = l := rfl

theorem appendNew_cons (l : List String) (q : String) (xs : List String) :
    appendNew l (q :: xs) = appendNew (if q ∈ l then l else l ++ [q]) xs := rfl

theorem mem_appendNew {l xs : List String} {q : String} : q ∈ appendNew l xs ↔ q ∈ l ∨ q ∈ xs := by
  induction xs generalizing l with
  | nil => simp [appendNew_nil]
  | cons x xs ih =>
    rw [appendNew_cons, ih]
    by_cases hx : x ∈ l
    · simp only [hx, if_true, List.mem_cons]
      constructor
      · rintro (h | h); exact Or.inl h; exact Or.inr (Or.inr h)
      · rintro (h | h | h); exact Or.inl h; exact Or.inl (h ▸ hx); exact Or.inr h
    · simp only [hx, if_false, List.mem_append, List.mem_singleton, List.mem_cons]
      tauto

theorem nodup_appendNew {l xs : List String} (h : l.Nodup) : (appendNew l xs).Nodup := by
  induction xs generalizing l with
  | nil => simpa [appendNew_nil]
  | cons x xs ih =>
    rw [appendNew_cons]
    apply ih
    by_cases hx : x ∈ l
    · simpa [hx]
    · simp only [hx, if_false]
      exact List.Nodup.append h (List.nodup_singleton x) (by
        intro a ha hb
        simp only [List.mem_singleton] at hb
        exact hx (hb ▸ ha))

/-! ### association lists -/

theorem map_fst_updateSample (d : Data) (k : String) (f : SampleData → SampleData) :
    (updateSample d k f).map Prod.fst = d.map Prod.fst := by
  induction d with
  | nil => rfl
  | cons x t ih =>
    obtain ⟨k', sd⟩ := x
    unfold updateSample
    by_cases h : k' = k
    · simp [h]
    · simp [h, ih]

theorem lookup_updateSample_self (d : Data) (k : String) (f : SampleData → SampleData) :
    (updateSample d k f).lookup k = (d.lookup k).map f := by
  induction d with
  | nil => rfl
  | cons x t ih =>
    obtain ⟨k', sd⟩ := x
    unfold updateSample
    by_cases h : k' = k
    · subst h; simp [List.lookup_cons]
    · have h' : (k == k') = false := by simpa using fun e => h e.symm
      simp [h, List.lookup_cons, h', ih]

theorem lookup_updateSample_ne (d : Data) {k k' : String} (hne : k' ≠ k) (f : SampleData → SampleData) :
    (updateSample d k f).lookup k' = d.lookup k' := by
  induction d with
  | nil => rfl
  | cons x t ih =>
    obtain ⟨k'', sd⟩ := x
    unfold updateSample
    by_cases h : k'' = k
    · subst h
      have h' : (k' == k'') = false := by simpa using hne
      simp [List.lookup_cons, h']
    · simp only [h, if_false, List.lookup_cons, ih]

theorem lookup_isSome_iff_mem_keys {β} (d : List (String × β)) (k : String) :
    (d.lookup k).isSome ↔ k ∈ d.map Prod.fst := by
  induction d with
  | nil => simp
  | cons x t ih =>
    obtain ⟨k', v⟩ := x
    by_cases h : k = k'
    · subst h; simp [List.lookup_cons]
    · have h' : (k == k') = false := by simpa using h
      simp [List.lookup_cons, h', ih, h]

theorem map_fst_upsertRow (sd : SampleData) (q : String) (b : Row) (f : Row → Row) :
    (upsertRow sd q b f).map Prod.fst = if q ∈ sd.map Prod.fst then sd.map Prod.fst else sd.map Prod.fst ++ [q] := by
  induction sd with
  | nil => simp [upsertRow]
  | cons x t ih =>
    obtain ⟨q', r⟩ := x
    unfold upsertRow
    by_cases h : q' = q
    · subst h; simp
    · have h2 : ¬ q = q' := fun e => h e.symm
      simp only [h, if_false, List.map_cons, ih, List.mem_cons, h2, false_or]
      split_ifs <;> simp

theorem lookup_upsertRow_self (sd : SampleData) (q : String) (b : Row) (f : Row → Row) :
    (upsertRow sd q b f).lookup q = some (f ((sd.lookup q).getD b)) := by
  induction sd with
  | nil => simp [upsertRow, List.lookup_cons]
  | cons x t ih =>
    obtain ⟨q', r⟩ := x
    unfold upsertRow
    by_cases h : q' = q
    · subst h; simp [List.lookup_cons]
    · have h' : (q == q') = false := by simpa using fun e => h e.symm
      simp [h, List.lookup_cons, h', ih]

theorem lookup_upsertRow_ne (sd : SampleData) {q q' : String} (hne : q' ≠ q) (b : Row) (f : Row → Row) :
    (upsertRow sd q b f).lookup q' = sd.lookup q' := by
  induction sd with
  | nil =>
    have h' : (q' == q) = false := by simpa using hne
    simp [upsertRow, List.lookup_cons, h']
  | cons x t ih =>
    obtain ⟨q'', r⟩ := x
    unfold upsertRow
    by_cases h : q'' = q
    · subst h
      have h' : (q' == q'') = false := by simpa using hne
      simp [List.lookup_cons, h']
    · simp only [h, if_false, List.lookup_cons, ih]

/-! ### the read loop projected on one sample -/

/-- sample key of a record: `sample_keys[read.get_tag("RG")]` -/
def keyOf (hdr : List ReadGroup) (o : ExtractOpts) (a : Aln) : Option String :=
  a.rg.bind (sampleKey hdr o.idField)

/-- the calls a record contributes (empty when the record raises) -/
def callsOf (L : Locus) (a : Aln) : List (Nat × Char × Nat) :=
  match readCalls L a with
  | .ok c => c
  | .error _ => []

/-- the record reaches the row update of sample `k` -/
def usedB (hdr : List ReadGroup) (o : ExtractOpts) (k : String) (a : Aln) : Bool :=
  passes o a && (keyOf hdr o a == some k) && selected o k

/-- `data[k]` -/
def comp (d : Data) (k : String) : SampleData := (d.lookup k).getD []

/-- the row update one used record performs on its sample's dict -/
def upd (L : Locus) (sd : SampleData) (a : Aln) : SampleData :=
  upsertRow sd a.qname (blankRow L.snvs.length) (applyCalls (callsOf L a))

theorem usedB_false_of_key_ne {hdr : List ReadGroup} {o : ExtractOpts} {k k0 : String} {a : Aln}
    (hkey : keyOf hdr o a = some k0) (hne : k0 ≠ k) : usedB hdr o k a = false := by
  have h : (keyOf hdr o a == some k) = false := by
    rw [hkey]; simpa using hne
  simp [usedB, h]

theorem step_comp {L : Locus} {hdr : List ReadGroup} {o : ExtractOpts} {d d' : Data} {a : Aln} (k : String)
    (h : step L hdr o d a = .ok d') (hk : k ∈ d.map Prod.fst) :
    d'.map Prod.fst = d.map Prod.fst ∧
      comp d' k = if usedB hdr o k a then upd L (comp d k) a else comp d k := by
  unfold step at h
  by_cases hp : passes o a = true
  · simp only [hp, Bool.not_true, Bool.false_eq_true, if_false] at h
    cases hrg : a.rg with
    | none => simp [hrg] at h
    | some rgid =>
      simp only [hrg] at h
      cases hsk : sampleKey hdr o.idField rgid with
      | none => simp [hsk] at h
      | some k0 =>
        simp only [hsk] at h
        have hkey : keyOf hdr o a = some k0 := by simp [keyOf, hrg, hsk]
        by_cases hsel : selected o k0 = true
        · simp only [hsel, Bool.not_true, Bool.false_eq_true, if_false] at h
          cases hrc : readCalls L a with
          | error e => simp [hrc] at h
          | ok calls =>
            simp only [hrc] at h
            injection h with h
            subst h
            refine ⟨map_fst_updateSample _ _ _, ?_⟩
            by_cases hkk : k0 = k
            · subst hkk
              have hu : usedB hdr o k0 a = true := by simp [usedB, hp, hkey, hsel]
              obtain ⟨sd, hsd⟩ := Option.isSome_iff_exists.mp ((lookup_isSome_iff_mem_keys d k0).mpr hk)
              simp only [hu, if_true, comp, lookup_updateSample_self, hsd, Option.map_some, Option.getD_some, upd,
                callsOf, hrc]
            · have hu : usedB hdr o k a = false := usedB_false_of_key_ne hkey hkk
              have hne : k ≠ k0 := fun e => hkk e.symm
              simp only [hu, Bool.false_eq_true, if_false, comp, lookup_updateSample_ne d hne]
        · have hsel' : selected o k0 = false := by simpa using hsel
          simp only [hsel', Bool.not_false, if_true] at h
          injection h with h
          subst h
          refine ⟨rfl, ?_⟩
          have hu : usedB hdr o k a = false := by
            by_cases hkk : k0 = k
            · subst hkk; simp [usedB, hsel']
            · exact usedB_false_of_key_ne hkey hkk
          simp [hu]
  · have hp' : passes o a = false := by simpa using hp
    simp only [hp', Bool.not_false, if_true] at h
    injection h with h
    subst h
    exact ⟨rfl, by simp [usedB, hp']⟩

theorem foldlM_step_comp {L : Locus} {hdr : List ReadGroup} {o : ExtractOpts} (k : String) :
    ∀ (reads : List Aln) (d d' : Data), reads.foldlM (step L hdr o) d = .ok d' → k ∈ d.map Prod.fst →
      d'.map Prod.fst = d.map Prod.fst ∧
        comp d' k = (reads.filter (usedB hdr o k)).foldl (upd L) (comp d k) := by
  intro reads
  induction reads with
  | nil =>
    intro d d' h _
    simp only [List.foldlM_nil, pure, Except.pure] at h
    injection h with h
    subst h
    exact ⟨rfl, rfl⟩
  | cons a t ih =>
    intro d d' h hk
    rw [List.foldlM_cons] at h
    cases hs : step L hdr o d a with
    | error e => simp [hs, bind, Except.bind] at h
    | ok d1 =>
      simp only [hs, bind, Except.bind] at h
      obtain ⟨hk1, hc1⟩ := step_comp k hs hk
      obtain ⟨hk2, hc2⟩ := ih d1 d' h (hk1 ▸ hk)
      refine ⟨hk2.trans hk1, ?_⟩
      rw [hc2, hc1]
      by_cases hu : usedB hdr o k a = true
      · simp [List.filter_cons, hu]
      · have hu' : usedB hdr o k a = false := by simpa using hu
        simp [List.filter_cons, hu']

/-! ### the per-sample fold as list functions -/

theorem map_fst_foldl_upd (L : Locus) : ∀ (rs : List Aln) (sd : SampleData),
    (rs.foldl (upd L) sd).map Prod.fst = appendNew (sd.map Prod.fst) (rs.map Aln.qname) := by
  intro rs
  induction rs with
  | nil => intro sd; rfl
  | cons a t ih =>
    intro sd
    rw [List.foldl_cons, ih, List.map_cons, appendNew_cons]
    congr 1
    exact map_fst_upsertRow _ _ _ _

theorem applyCalls_append (c1 c2 : List (Nat × Char × Nat)) (row : Row) :
    applyCalls (c1 ++ c2) row = applyCalls c2 (applyCalls c1 row) := by
  unfold applyCalls; rw [List.foldl_append]

theorem applyCalls_nil (row : Row) : applyCalls [] row = row := rfl

theorem lookup_foldl_upd (L : Locus) (q : String) : ∀ (rs : List Aln) (sd : SampleData),
    (rs.foldl (upd L) sd).lookup q =
      if rs.filter (fun a => a.qname == q) = [] then sd.lookup q
      else some (applyCalls ((rs.filter (fun a => a.qname == q)).flatMap (callsOf L))
                  ((sd.lookup q).getD (blankRow L.snvs.length))) := by
  intro rs
  induction rs with
  | nil => intro sd; simp
  | cons a t ih =>
    intro sd
    rw [List.foldl_cons, ih]
    by_cases ha : a.qname = q
    · have hb : (a.qname == q) = true := by simpa using ha
      have hl : (upd L sd a).lookup q
          = some (applyCalls (callsOf L a) ((sd.lookup q).getD (blankRow L.snvs.length))) := by
        unfold upd; rw [ha]; exact lookup_upsertRow_self _ _ _ _
      simp only [List.filter_cons, hb, if_true, reduceCtorEq, if_false, List.flatMap_cons, hl, Option.getD_some]
      split_ifs with ht
      · simp [ht, applyCalls_nil]
      · rw [applyCalls_append]
    · have hb : (a.qname == q) = false := by simpa using ha
      have hl : (upd L sd a).lookup q = sd.lookup q := by
        unfold upd; exact lookup_upsertRow_ne _ (fun e => ha e.symm) _ _
      simp only [List.filter_cons, hb, Bool.false_eq_true, if_false, hl]

/-- fold of the three-way cell update over a list of observed bases -/
def mergeAll (c : Cell) (bs : List (Char × Nat)) : Cell :=
  bs.foldl (fun c b => mergeCell c b.1 b.2) c

theorem getElem?_applyCalls (j : Nat) : ∀ (calls : List (Nat × Char × Nat)) (row : Row),
    (applyCalls calls row)[j]? =
      (row[j]?).map (fun c => mergeAll c ((calls.filter (fun c => c.1 == j)).map Prod.snd)) := by
  intro calls
  induction calls with
  | nil => intro row; simp [applyCalls, mergeAll]
  | cons c t ih =>
    intro row
    have h1 : applyCalls (c :: t) row = applyCalls t (row.modify c.1 (fun cell => mergeCell cell c.2.1 c.2.2)) := rfl
    rw [h1, ih, List.getElem?_modify]
    by_cases hc : c.1 = j
    · have hb : (c.1 == j) = true := by simpa using hc
      cases hr : row[j]? with
      | none => simp
      | some x => simp [List.filter_cons, hb, hc, mergeAll]
    · have hb : (c.1 == j) = false := by simpa using hc
      cases hr : row[j]? with
      | none => simp
      | some x => simp [List.filter_cons, hb, hc]

theorem length_applyCalls : ∀ (calls : List (Nat × Char × Nat)) (row : Row),
    (applyCalls calls row).length = row.length := by
  intro calls
  induction calls with
  | nil => intro row; rfl
  | cons c t ih =>
    intro row
    have h1 : applyCalls (c :: t) row = applyCalls t (row.modify c.1 (fun cell => mergeCell cell c.2.1 c.2.2)) := rfl
    rw [h1, ih, List.length_modify]

/-! ### cell merging -/

/-- what the merged character must be: gap, the common base, or `N` -/
def specChar : List Char → Char
  | [] => '-'
  | c :: t => if t.all (fun x => x == c) then c else 'N'

theorem mergeAll_from (c : Char) (q : Nat) (hc : c ≠ '-') : ∀ (bs : List (Char × Nat)) (q : Nat),
    (mergeAll (c, q) bs).1 = if bs.all (fun b => b.1 == c) then c else 'N' := by
  intro bs
  induction bs generalizing c with
  | nil => intro q; simp [mergeAll]
  | cons b t ih =>
    intro q
    have h1 : mergeAll (c, q) (b :: t) = mergeAll (mergeCell (c, q) b.1 b.2) t := rfl
    rw [h1]
    unfold mergeCell
    simp only [hc, if_false]
    by_cases hb : c = b.1
    · simp only [hb, if_true]
      have := ih b.1 (hb ▸ hc) (q + b.2)
      rw [this]
      have e : (b.1 == b.1) = true := by simp
      rw [List.all_cons, e, Bool.true_and]
    · simp only [hb, if_false]
      rw [ih 'N' (by decide) q]
      have : (b.1 == c) = false := by simpa using fun e => hb e.symm
      simp [this]

theorem mergeAll_char (bs : List (Char × Nat)) (h : ∀ b ∈ bs, b.1 ≠ '-') :
    (mergeAll ('-', 0) bs).1 = specChar (bs.map Prod.fst) := by
  cases bs with
  | nil => rfl
  | cons b t =>
    have h1 : mergeAll ('-', 0) (b :: t) = mergeAll (b.1, b.2) t := by
      simp [mergeAll, mergeCell]
    rw [h1, mergeAll_from b.1 b.2 (h b (by simp)) t b.2]
    have h2 : (List.map Prod.fst t).all (fun x => x == b.1) = t.all (fun b' => b'.1 == b.1) := by
      rw [List.all_map]; rfl
    simp only [List.map_cons, specChar, h2]

theorem specChar_eq_gap_iff (cs : List Char) (h : ∀ c ∈ cs, c ≠ '-') : specChar cs = '-' ↔ cs = [] := by
  cases cs with
  | nil => simp [specChar]
  | cons c t =>
    simp only [specChar, reduceCtorEq, iff_false]
    split_ifs
    · exact h c (by simp)
    · decide

theorem specChar_of_all_eq {cs : List Char} {c : Char} (hne : cs ≠ []) (h : ∀ x ∈ cs, x = c) : specChar cs = c := by
  cases cs with
  | nil => exact absurd rfl hne
  | cons c0 t =>
    have h0 : c0 = c := h c0 (by simp)
    subst h0
    have : t.all (fun x => x == c0) = true := by
      rw [List.all_eq_true]; intro x hx; simpa using h x (by simp [hx])
    simp [specChar, this]

theorem specChar_of_not_all_eq {cs : List Char} (h : ¬ ∃ c, ∀ x ∈ cs, x = c) : specChar cs = 'N' := by
  cases cs with
  | nil => exact absurd ⟨'-', by simp⟩ h
  | cons c0 t =>
    have : t.all (fun x => x == c0) = false := by
      by_contra hc
      have hc' : t.all (fun x => x == c0) = true := by simpa using hc
      rw [List.all_eq_true] at hc'
      apply h
      refine ⟨c0, ?_⟩
      intro x hx
      rcases List.mem_cons.mp hx with rfl | hx
      · rfl
      · simpa using hc' x hx
    simp [specChar, this]

theorem specChar_perm {cs cs' : List Char} (hp : cs.Perm cs') : specChar cs = specChar cs' := by
  by_cases hnil : cs = []
  · subst hnil; rw [List.nil_perm.mp hp]
  · have hnil' : cs' ≠ [] := fun e => hnil (by subst e; exact List.perm_nil.mp hp)
    by_cases hall : ∃ c, ∀ x ∈ cs, x = c
    · obtain ⟨c, hc⟩ := hall
      rw [specChar_of_all_eq hnil hc, specChar_of_all_eq hnil' (fun x hx => hc x (hp.mem_iff.mpr hx))]
    · have hall' : ¬ ∃ c, ∀ x ∈ cs', x = c := by
        rintro ⟨c, hc⟩; exact hall ⟨c, fun x hx => hc x (hp.mem_iff.mp hx)⟩
      rw [specChar_of_not_all_eq hall, specChar_of_not_all_eq hall']

/-! ### the header loop -/

theorem mem_of_lookup {β} : ∀ (d : List (String × β)) (k : String) (v : β), d.lookup k = some v → (k, v) ∈ d := by
  intro d
  induction d with
  | nil => intro k v h; simp at h
  | cons x t ih =>
    intro k v h
    obtain ⟨k', v'⟩ := x
    rw [List.lookup_cons] at h
    by_cases hk : k = k'
    · subst hk
      simp at h
      subst h
      simp
    · have h' : (k == k') = false := by simpa using hk
      rw [h'] at h
      exact List.mem_cons_of_mem _ (ih k v h)

def initStep (o : ExtractOpts) (d : Data) (g : ReadGroup) : Data :=
  let k := rgKey o.idField g
  if selected o k then (if (d.map Prod.fst).contains k then d else d ++ [(k, [])]) else d

theorem initData_eq (hdr : List ReadGroup) (o : ExtractOpts) : initData hdr o = hdr.foldl (initStep o) [] := rfl

theorem foldl_initStep_values (o : ExtractOpts) : ∀ (hdr : List ReadGroup) (d : Data),
    (∀ x ∈ d, x.2 = []) → ∀ x ∈ hdr.foldl (initStep o) d, x.2 = [] := by
  intro hdr
  induction hdr with
  | nil => intro d h; simpa using h
  | cons g t ih =>
    intro d h
    rw [List.foldl_cons]
    apply ih
    intro x hx
    unfold initStep at hx
    simp only at hx
    split_ifs at hx
    · exact h x hx
    · rcases List.mem_append.mp hx with hx | hx
      · exact h x hx
      · simp only [List.mem_singleton] at hx; subst hx; rfl
    · exact h x hx

theorem foldl_initStep_keys (o : ExtractOpts) (k : String) : ∀ (hdr : List ReadGroup) (d : Data),
    k ∈ (hdr.foldl (initStep o) d).map Prod.fst ↔
      k ∈ d.map Prod.fst ∨ (selected o k = true ∧ ∃ g ∈ hdr, rgKey o.idField g = k) := by
  intro hdr
  induction hdr with
  | nil => intro d; simp
  | cons g t ih =>
    intro d
    rw [List.foldl_cons, ih]
    have hstep : k ∈ (initStep o d g).map Prod.fst ↔
        k ∈ d.map Prod.fst ∨ (selected o k = true ∧ rgKey o.idField g = k) := by
      unfold initStep
      simp only
      by_cases hs : selected o (rgKey o.idField g) = true
      · simp only [hs, if_true]
        cases hc : (d.map Prod.fst).contains (rgKey o.idField g) with
        | true =>
          simp only [if_true]
          constructor
          · exact Or.inl
          · rintro (h | ⟨_, h⟩)
            · exact h
            · subst h; simpa using hc
        | false =>
          simp only [Bool.false_eq_true, if_false, List.map_append, List.map_cons, List.map_nil, List.mem_append,
            List.mem_singleton]
          constructor
          · rintro (h | h)
            · exact Or.inl h
            · subst h; exact Or.inr ⟨hs, rfl⟩
          · rintro (h | ⟨_, h⟩)
            · exact Or.inl h
            · exact Or.inr h.symm
      · simp only [hs, if_false]
        constructor
        · exact Or.inl
        · rintro (h | ⟨h1, h2⟩)
          · exact h
          · subst h2; exact absurd h1 hs
    rw [hstep]
    simp only [List.mem_cons, exists_eq_or_imp]
    tauto

theorem comp_initData (hdr : List ReadGroup) (o : ExtractOpts) (k : String) : comp (initData hdr o) k = [] := by
  unfold comp
  cases h : (initData hdr o).lookup k with
  | none => rfl
  | some sd =>
    have := foldl_initStep_values o hdr [] (by simp) (k, sd) (by rw [← initData_eq]; exact mem_of_lookup _ _ _ h)
    simpa using this

theorem sampleKey_mem {hdr : List ReadGroup} {f : IdField} {rgid k : String} (h : sampleKey hdr f rgid = some k) :
    ∃ g ∈ hdr, rgKey f g = k := by
  unfold sampleKey at h
  cases hl : (hdr.filter (fun g => g.1 == rgid)).getLast? with
  | none => simp [hl] at h
  | some g =>
    simp only [hl, Option.map_some, Option.some.injEq] at h
    exact ⟨g, (List.mem_filter.mp (List.mem_of_getLast? hl)).1, h⟩

theorem mem_keys_initData_of_used {hdr : List ReadGroup} {o : ExtractOpts} {k : String} {a : Aln}
    (h : usedB hdr o k a = true) : k ∈ (initData hdr o).map Prod.fst := by
  simp only [usedB, Bool.and_eq_true, beq_iff_eq] at h
  obtain ⟨⟨_, hkey⟩, hsel⟩ := h
  rw [initData_eq, foldl_initStep_keys]
  right
  refine ⟨hsel, ?_⟩
  unfold keyOf at hkey
  cases hrg : a.rg with
  | none => simp [hrg] at hkey
  | some rgid =>
    simp only [hrg, Option.bind_some] at hkey
    exact sampleKey_mem hkey

/-! ### the calls of one record -/

/-- the call one aligned pair contributes -/
def pairCall (L : Locus) (a : Aln) (p : Nat × Nat) : Option (Nat × Char × Nat) :=
  match L.idxOfPos p.2, a.seq[p.1]?, a.quals.bind (fun qs => qs[p.1]?) with
  | some j, some ch, some q => some (j, ch, q)
  | _, _, _ => none

theorem callsOfPairs_ok (L : Locus) (a : Aln) : ∀ (l : List ((Nat × Nat) × Char)) (calls : List (Nat × Char × Nat)),
    callsOfPairs L a l = .ok calls → calls = l.filterMap (fun x => pairCall L a x.1) := by
  intro l
  induction l with
  | nil => intro calls h; simp [callsOfPairs] at h; simp [h]
  | cons x t ih =>
    intro calls h
    obtain ⟨⟨qi, r⟩, rc⟩ := x
    unfold callsOfPairs at h
    cases hi : L.idxOfPos r with
    | none =>
      simp only [hi] at h
      rw [ih calls h]
      simp [List.filterMap_cons, pairCall, hi]
    | some j =>
      simp only [hi] at h
      cases hra : L.refAllele j with
      | none => simp [hra] at h
      | some ra =>
        simp only [hra] at h
        split_ifs at h with hm
        cases hs : a.seq[qi]? with
        | none => simp [hs] at h
        | some ch =>
          cases hq : a.quals.bind (fun qs => qs[qi]?) with
          | none => simp [hs, hq] at h
          | some q =>
            simp only [hs, hq] at h
            cases ht : callsOfPairs L a t with
            | error e => simp [ht, Except.map] at h
            | ok ct =>
              simp only [ht, Except.map, Except.ok.injEq] at h
              subst h
              rw [ih ct ht]
              simp [List.filterMap_cons, pairCall, hi, hs, hq]

theorem readCalls_ok {L : Locus} {a : Aln} {calls : List (Nat × Char × Nat)} (h : readCalls L a = .ok calls) :
    calls = a.pairs.filterMap (pairCall L a) := by
  unfold readCalls at h
  cases hrb : a.refBases with
  | none => simp [hrb] at h
  | some rb =>
    simp only [hrb] at h
    split_ifs at h with hl
    have := callsOfPairs_ok L a _ _ h
    rw [this]
    have hl' : rb.length = a.pairs.length := by simpa using hl
    have hz : (a.pairs.zip rb).map Prod.fst = a.pairs := List.map_fst_zip (by omega)
    conv_rhs => rw [← hz]
    rw [List.filterMap_map]
    rfl

theorem callsOf_eq (L : Locus) (a : Aln) (h : ∃ c, readCalls L a = .ok c) :
    callsOf L a = a.pairs.filterMap (pairCall L a) := by
  obtain ⟨c, hc⟩ := h
  unfold callsOf; rw [hc]; exact readCalls_ok hc

theorem callsOfPairs_error_of_mismatch (L : Locus) (a : Aln) : ∀ (l : List ((Nat × Nat) × Char)),
    (∃ x ∈ l, ∃ j ra, L.idxOfPos x.1.2 = some j ∧ L.refAllele j = some ra ∧ ra.toUpper ≠ x.2.toUpper) →
      ∃ e, callsOfPairs L a l = .error e := by
  intro l
  induction l with
  | nil => rintro ⟨x, hx, _⟩; simp at hx
  | cons y t ih =>
    rintro ⟨x, hx, j, ra, hi, hra, hne⟩
    obtain ⟨⟨qi, r⟩, rc⟩ := y
    have htail : (∃ x ∈ t, ∃ j ra, L.idxOfPos x.1.2 = some j ∧ L.refAllele j = some ra ∧ ra.toUpper ≠ x.2.toUpper) →
        ∃ e, (callsOfPairs L a t) = .error e := ih
    unfold callsOfPairs
    rcases List.mem_cons.mp hx with rfl | hx
    · simp only at hi hra hne
      simp only [hi, hra]
      exact ⟨ExtractError.refMismatch, by simp [hne]⟩
    · obtain ⟨e, he⟩ := htail ⟨x, hx, j, ra, hi, hra, hne⟩
      cases hi' : L.idxOfPos r with
      | none => exact ⟨e, by simp [he]⟩
      | some j' =>
        simp only
        cases hra' : L.refAllele j' with
        | none => exact ⟨ExtractError.noAlleles, by simp⟩
        | some ra' =>
          simp only
          by_cases hm : ra'.toUpper ≠ rc.toUpper
          · exact ⟨ExtractError.refMismatch, by simp [hm]⟩
          · simp only [hm, if_false]
            cases hs : a.seq[qi]? with
            | none => exact ⟨ExtractError.noBaseOrQual, by simp⟩
            | some ch =>
              cases hq : a.quals.bind (fun qs => qs[qi]?) with
              | none => exact ⟨ExtractError.noBaseOrQual, by simp⟩
              | some q => exact ⟨e, by simp [he, Except.map]⟩

/-! ### error propagation in the loop -/

theorem foldlM_error_of_mem {σ α ε} (f : σ → α → Except ε σ) (a : α) (ha : ∀ s, ∃ e, f s a = .error e) :
    ∀ (l : List α), a ∈ l → ∀ s, ∃ e, l.foldlM f s = .error e := by
  intro l
  induction l with
  | nil => intro h; simp at h
  | cons x t ih =>
    intro h s
    rw [List.foldlM_cons]
    cases hx : f s x with
    | error e => exact ⟨e, by simp [bind, Except.bind]⟩
    | ok s1 =>
      simp only [bind, Except.bind]
      rcases List.mem_cons.mp h with rfl | h
      · obtain ⟨e, he⟩ := ha s; rw [he] at hx; cases hx
      · exact ih h s1

/-! ### de-duplication -/

section Unique
variable {α : Type} [BEq α] [LawfulBEq α]

theorem mem_uniqueFirst : ∀ (l seen : List α) (x : α), x ∈ uniqueFirst l seen ↔ x ∈ l ∧ x ∉ seen := by
  intro l
  induction l with
  | nil => intro seen x; simp [uniqueFirst]
  | cons y t ih =>
    intro seen x
    unfold uniqueFirst
    by_cases hy : seen.contains y = true
    · simp only [hy, if_true, ih, List.mem_cons]
      constructor
      · rintro ⟨h1, h2⟩; exact ⟨Or.inr h1, h2⟩
      · rintro ⟨h1 | h1, h2⟩
        · subst h1; exact absurd (by simpa using hy) h2
        · exact ⟨h1, h2⟩
    · have hy' : y ∉ seen := by simpa using hy
      have hy'' : seen.contains y = false := by simpa using hy
      simp only [hy'', Bool.false_eq_true, if_false, List.mem_cons, ih]
      constructor
      · rintro (h | ⟨h1, h2⟩)
        · subst h; exact ⟨Or.inl rfl, hy'⟩
        · exact ⟨Or.inr h1, fun h => h2 (Or.inr h)⟩
      · rintro ⟨h1 | h1, h2⟩
        · exact Or.inl h1
        · by_cases hxy : x = y
          · exact Or.inl hxy
          · refine Or.inr ⟨h1, ?_⟩
            rintro (h | h)
            · exact hxy h
            · exact h2 h

theorem nodup_uniqueFirst : ∀ (l seen : List α), (uniqueFirst l seen).Nodup := by
  intro l
  induction l with
  | nil => intro seen; simp [uniqueFirst]
  | cons y t ih =>
    intro seen
    unfold uniqueFirst
    split_ifs with hy
    · exact ih seen
    · refine List.nodup_cons.mpr ⟨?_, ih _⟩
      intro h
      exact ((mem_uniqueFirst t (y :: seen) y).mp h).2 (by simp)

theorem sum_count_uniqueFirst : ∀ (l seen : List α),
    ((uniqueFirst l seen).map (fun x => l.count x)).sum = (l.filter (fun y => !seen.contains y)).length := by
  intro l
  induction l with
  | nil => intro seen; simp [uniqueFirst]
  | cons y t ih =>
    intro seen
    unfold uniqueFirst
    by_cases hy : seen.contains y = true
    · simp only [hy, if_true, List.filter_cons, Bool.not_true, Bool.false_eq_true, if_false]
      rw [← ih seen]
      congr 1
      apply List.map_congr_left
      intro x hx
      have hx' := ((mem_uniqueFirst t seen x).mp hx).2
      have hne : ¬ (y == x) = true := by
        intro e
        have : y = x := by simpa using e
        subst this
        exact hx' (by simpa using hy)
      simp [List.count_cons, hne]
    · have hy' : seen.contains y = false := by simpa using hy
      simp only [hy', Bool.false_eq_true, if_false, List.map_cons, List.sum_cons, List.filter_cons, Bool.not_false,
        if_true, List.length_cons]
      have h1 : ((uniqueFirst t (y :: seen)).map (fun x => (y :: t).count x)).sum
          = ((uniqueFirst t (y :: seen)).map (fun x => t.count x)).sum := by
        congr 1
        apply List.map_congr_left
        intro x hx
        have hx' := ((mem_uniqueFirst t (y :: seen) x).mp hx).2
        have hne : ¬ (y == x) = true := by
          intro e
          have : y = x := by simpa using e
          subst this
          exact hx' (by simp)
        simp [List.count_cons, hne]
      rw [h1, ih (y :: seen)]
      have h2 : (t.filter (fun z => !seen.contains z)).length
          = ((t.filter (fun z => !seen.contains z)).filter (fun z => z == y)).length
            + ((t.filter (fun z => !seen.contains z)).filter (fun z => !(z == y))).length :=
        List.length_eq_length_filter_add _
      have h3 : (t.filter (fun z => !seen.contains z)).filter (fun z => z == y) = t.filter (fun z => z == y) := by
        rw [List.filter_filter]
        apply List.filter_congr
        intro z _
        by_cases hz : z = y
        · subst hz
          have hzs : z ∉ seen := by simpa using hy'
          simp [hzs]
        · have : (z == y) = false := by simpa using hz
          simp [this]
      have h4 : (t.filter (fun z => !seen.contains z)).filter (fun z => !(z == y))
          = t.filter (fun z => !(y :: seen).contains z) := by
        rw [List.filter_filter]
        apply List.filter_congr
        intro z _
        simp only [List.contains_cons, Bool.not_or, Bool.and_comm]
      have h5 : (y :: t).count y = 1 + t.count y := by simp [List.count_cons, Nat.add_comm]
      have h6 : t.count y = (t.filter (fun z => z == y)).length := by
        rw [List.count, List.countP_eq_length_filter]
      rw [h5, h2, h3, h4, h6]
      omega

theorem sum_snd_uniqueCounts (l : List α) : ((uniqueCounts l).map Prod.snd).sum = l.length := by
  unfold uniqueCounts
  rw [List.map_map]
  have : (Prod.snd ∘ fun x => (x, l.count x)) = fun x => l.count x := rfl
  rw [this, sum_count_uniqueFirst l []]
  simp

end Unique

/-! ### rounding -/

theorem roundHalfEven_spec (s n : Nat) (hn : 0 < n) :
    2 * (roundHalfEven s n * n) ≤ 2 * s + n ∧ 2 * s ≤ 2 * (roundHalfEven s n * n) + n ∧
      (2 * (s % n) = n → roundHalfEven s n % 2 = 0) := by
  have hd := Nat.div_add_mod s n
  have hr := Nat.mod_lt s hn
  have e1 : s / n * n = n * (s / n) := Nat.mul_comm _ _
  have e2 : (s / n + 1) * n = n * (s / n) + n := by rw [Nat.add_mul, Nat.one_mul, Nat.mul_comm]
  unfold roundHalfEven
  simp only
  split_ifs with h1 h2 h3
  · rw [e1]; omega
  · rw [e2]; omega
  · rw [e1]; omega
  · rw [e2]; omega

/-! ### CIGAR walk -/

theorem alignedPairsFrom_noP : ∀ (cig : List (Nat × CigarOp)) (q r : Nat), (∀ x ∈ cig, x.2 ≠ CigarOp.P) →
    alignedPairsFrom true cig q r = alignedPairsFrom false cig q r := by
  intro cig
  induction cig with
  | nil => intro q r _; rfl
  | cons x t ih =>
    intro q r h
    obtain ⟨n, op⟩ := x
    have ht : ∀ x ∈ t, x.2 ≠ CigarOp.P := fun x hx => h x (List.mem_cons_of_mem _ hx)
    cases op with
    | P => exact absurd rfl (h (n, CigarOp.P) List.mem_cons_self)
    | _ => simp only [alignedPairsFrom]; rw [ih _ _ ht]

end MCHap
