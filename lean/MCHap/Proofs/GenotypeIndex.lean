import MCHap.Proofs.Comb

/-! Helper lemmas for C11: the combinatorial number system behind G-length VCF fields. -/
namespace MCHap

/-- multiset coefficient `C(a+k-1, k)`; equals the code's `comb_with_replacement a k` for `k ≥ 1`. -/
def cw (a k : ℕ) : ℕ := Nat.choose (a + k - 1) k

theorem cwr_eq_cw (a k : ℕ) (hk : 1 ≤ k) : cwr a k = cw a k := by
  unfold cwr cw
  have : ¬ (a = 0 ∧ k = 0) := by omega
  simp only [this, if_false, comb_eq_choose]

theorem cwr_zero_zero : cwr 0 0 = 0 := by simp [cwr]

theorem cwr_eq_multichoose (a k : ℕ) (h : ¬ (a = 0 ∧ k = 0)) : cwr a k = Nat.multichoose a k := by
  unfold cwr
  simp only [h, if_false, comb_eq_choose, Nat.multichoose_eq]

def gIndexFrom (i : ℕ) : List ℕ → ℕ
  | [] => 0
  | a :: as => cw a (i + 1) + gIndexFrom (i + 1) as

theorem genotypeIndexFrom_eq (i : ℕ) (g : List ℕ) : genotypeIndexFrom i g = gIndexFrom i g := by
  induction g generalizing i with
  | nil => rfl
  | cons a as ih => simp [genotypeIndexFrom, gIndexFrom, ih, cwr_eq_cw]

theorem diag_sum (v m : ℕ) :
    (∑ i ∈ Finset.range m, Nat.choose (v + i) (i + 1)) + 1 = Nat.choose (v + m) m := by
  induction m with
  | zero => simp
  | succ m ih =>
    rw [Finset.sum_range_succ, add_right_comm, ih]
    have : v + (m + 1) = (v + m) + 1 := by ring
    rw [this, Nat.choose_succ_succ]

theorem gIndexFrom_replicate (v m j : ℕ) :
    gIndexFrom j (List.replicate m v) = ∑ i ∈ Finset.range m, cw v (j + i + 1) := by
  induction m generalizing j with
  | zero => simp [gIndexFrom]
  | succ m ih =>
    rw [List.replicate_succ, gIndexFrom, ih, Finset.sum_range_succ']
    have : ∀ i, j + 1 + i + 1 = j + (i + 1) + 1 := by intro i; ring
    simp only [this, add_zero]
    ring

theorem gIndexFrom_append (j : ℕ) (xs ys : List ℕ) :
    gIndexFrom j (xs ++ ys) = gIndexFrom j xs + gIndexFrom (j + xs.length) ys := by
  induction xs generalizing j with
  | nil => simp [gIndexFrom]
  | cons x xs ih =>
    simp only [List.cons_append, gIndexFrom, ih, List.length_cons]
    have : j + 1 + xs.length = j + (xs.length + 1) := by ring
    rw [this]; ring

/-- leading run `v^(m+1) ++ rest ↦ 0^m ++ (v+1) :: rest` advances the index by exactly one -/
theorem increment_index_core (v m : ℕ) (rest : List ℕ) :
    gIndexFrom 0 (List.replicate m 0 ++ (v + 1) :: rest)
      = gIndexFrom 0 (List.replicate (m + 1) v ++ rest) + 1 := by
  rw [gIndexFrom_append, gIndexFrom_append, gIndexFrom_replicate, gIndexFrom_replicate]
  simp only [List.length_replicate, zero_add, gIndexFrom]
  have hz : ∑ i ∈ Finset.range m, cw 0 (i + 1) = 0 := by
    apply Finset.sum_eq_zero; intro i _; unfold cw; simp
  have hd := diag_sum v (m + 1)
  have e1 : ∑ i ∈ Finset.range (m + 1), cw v (i + 1)
      = ∑ i ∈ Finset.range (m + 1), Nat.choose (v + i) (i + 1) := by
    apply Finset.sum_congr rfl; intro i _; unfold cw; congr 1
  rw [hz, e1]
  have e2 : cw (v + 1) (m + 1) = Nat.choose (v + (m + 1)) (m + 1) := by unfold cw; congr 1; omega
  rw [e2, ← hd]; ring

theorem gIndex_snoc (init : List ℕ) (t : ℕ) :
    gIndexFrom 0 (init ++ [t]) = gIndexFrom 0 init + cw t (init.length + 1) := by
  rw [gIndexFrom_append]; simp [gIndexFrom]

theorem cw_mono {a b : ℕ} (k : ℕ) (h : a ≤ b) : cw a k ≤ cw b k := by
  unfold cw; exact Nat.choose_le_choose k (by omega)

/-- Pascal for multiset coefficients -/
theorem cw_succ (t k : ℕ) : cw (t + 1) (k + 1) = cw t (k + 1) + cw (t + 1) k := by
  unfold cw
  have e1 : t + 1 + (k + 1) - 1 = (t + k) + 1 := by omega
  have e2 : t + (k + 1) - 1 = t + k := by omega
  have e3 : t + 1 + k - 1 = t + k := by omega
  rw [e1, e2, e3, Nat.choose_succ_succ, add_comm]

/-- a genotype whose entries are all ≤ t has index < cw (t+1) p -/
theorem gIndex_lt_of_le (t : ℕ) : ∀ (a : List ℕ), (∀ x ∈ a, x ≤ t) →
    gIndexFrom 0 a < cw (t + 1) a.length := by
  intro a
  induction a using List.reverseRecOn with
  | nil => intro _; simp [gIndexFrom, cw]
  | append_singleton init x ih =>
    intro h
    have hinit : ∀ y ∈ init, y ≤ t := fun y hy => h y (by simp [hy])
    have hx : x ≤ t := h x (by simp)
    rw [gIndex_snoc, List.length_append, List.length_singleton, cw_succ]
    have := ih hinit
    have := cw_mono (init.length + 1) hx
    omega

/-- two ascending genotypes of the same length with the same index are equal -/
theorem gIndex_inj : ∀ (a b : List ℕ), a.length = b.length → a.Pairwise (· ≤ ·) →
    b.Pairwise (· ≤ ·) → gIndexFrom 0 a = gIndexFrom 0 b → a = b := by
  intro a
  induction a using List.reverseRecOn with
  | nil => intro b hl _ _ _; exact (List.length_eq_zero_iff.mp hl.symm).symm
  | append_singleton ia x ih =>
    intro b
    induction b using List.reverseRecOn with
    | nil => intro hl; simp at hl
    | append_singleton ib y _ =>
      intro hl sa sb he
      have hlen : ia.length = ib.length := by simpa using hl
      rw [gIndex_snoc, gIndex_snoc, hlen] at he
      have sia : ia.Pairwise (· ≤ ·) := (List.pairwise_append.mp sa).1
      have sib : ib.Pairwise (· ≤ ·) := (List.pairwise_append.mp sb).1
      have hia : ∀ z ∈ ia, z ≤ x := fun z hz => (List.pairwise_append.mp sa).2.2 z hz x (by simp)
      have hib : ∀ z ∈ ib, z ≤ y := fun z hz => (List.pairwise_append.mp sb).2.2 z hz y (by simp)
      have ba := gIndex_lt_of_le x ia hia
      have bb := gIndex_lt_of_le y ib hib
      have hxy : x = y := by
        rcases lt_trichotomy x y with h | h | h
        · exfalso
          have h1 : cw (x + 1) (ib.length + 1) ≤ cw y (ib.length + 1) := cw_mono _ h
          have h2 := cw_succ x ib.length
          rw [hlen] at ba
          omega
        · exact h
        · exfalso
          have h1 : cw (y + 1) (ib.length + 1) ≤ cw x (ib.length + 1) := cw_mono _ h
          have h2 := cw_succ y ib.length
          rw [hlen] at ba
          omega
      subst hxy
      have : gIndexFrom 0 ia = gIndexFrom 0 ib := by omega
      rw [ih ib hlen sia sib this]

/-! ### `increment_genotype` -/

theorem takeWhile_replicate_append (a m : ℕ) (rest : List ℕ)
    (hr : rest = [] ∨ ∃ b tl, rest = b :: tl ∧ a < b) :
    (List.replicate m a ++ rest).takeWhile (· == a) = List.replicate m a ∧
    (List.replicate m a ++ rest).dropWhile (· == a) = rest := by
  induction m with
  | zero =>
    rcases hr with h | ⟨b, tl, h, hlt⟩
    · subst h; simp
    · subst h
      have : (b == a) = false := by simp; omega
      simp [this]
  | succ m ih =>
    simp [List.replicate_succ, ih.1, ih.2]

/-- what `incrementGenotype` computes on `v^(m+1) ++ rest` with `rest` empty or starting above `v` -/
theorem incrementGenotype_run (v m : ℕ) (rest : List ℕ)
    (hr : rest = [] ∨ ∃ b tl, rest = b :: tl ∧ v < b) :
    incrementGenotype (List.replicate (m + 1) v ++ rest)
      = some (List.replicate m 0 ++ (v + 1) :: rest) := by
  obtain ⟨h1, h2⟩ := takeWhile_replicate_append v m rest hr
  rw [List.replicate_succ, List.cons_append]
  cases hm : List.replicate m v ++ rest with
  | nil =>
    have : m = 0 ∧ rest = [] := by
      cases m with
      | zero => simpa using hm
      | succ m => simp [List.replicate_succ] at hm
    obtain ⟨rfl, rfl⟩ := this
    simp [incrementGenotype]
  | cons c cs =>
    rw [← hm]
    unfold incrementGenotype
    rw [hm]
    simp only
    rw [← hm, h1, h2]
    rcases hr with h | ⟨b, tl, h, hlt⟩
    · subst h; simp
    · subst h
      simp [hlt]

/-- every non-empty ascending list is a leading run followed by nothing or something larger -/
theorem ascending_run : ∀ (g : List ℕ), g ≠ [] → g.Pairwise (· ≤ ·) →
    ∃ v m rest, g = List.replicate (m + 1) v ++ rest ∧
      (rest = [] ∨ ∃ b tl, rest = b :: tl ∧ v < b) ∧ (∀ x ∈ rest, v < x) := by
  intro g
  induction g with
  | nil => intro h; exact absurd rfl h
  | cons a as ih =>
    intro _ hs
    cases as with
    | nil => exact ⟨a, 0, [], by simp, Or.inl rfl, by simp⟩
    | cons b bs =>
      have hs' : (b :: bs).Pairwise (· ≤ ·) := (List.pairwise_cons.mp hs).2
      have hab : a ≤ b := (List.pairwise_cons.mp hs).1 b (by simp)
      have hall : ∀ x ∈ b :: bs, a ≤ x := (List.pairwise_cons.mp hs).1
      obtain ⟨v, m, rest, he, hr, hgt⟩ := ih (by simp) hs'
      have hbv : b = v := by
        have := congrArg List.head? he
        simpa [List.replicate_succ] using this
      subst hbv
      rcases Nat.lt_or_ge a b with hlt | hge
      · refine ⟨a, 0, b :: bs, by simp, Or.inr ⟨b, bs, rfl, hlt⟩, ?_⟩
        intro x hx
        have := hall x hx
        have hb : b ≤ x := by
          rcases List.mem_cons.mp hx with h | h
          · omega
          · exact (List.pairwise_cons.mp hs').1 x h
        omega
      · have : a = b := by omega
        subst this
        refine ⟨a, m + 1, rest, ?_, hr, hgt⟩
        rw [he]; simp [List.replicate_succ]

/-! ### the VCF specification's ordering -/

theorem vcfOrder_length : ∀ (p a : ℕ), (vcfOrder p a).length = cw (a + 1) p := by
  intro p
  induction p with
  | zero => intro a; simp [vcfOrder, cw]
  | succ p ihp =>
    intro a
    induction a with
    | zero => simp [vcfOrder, cw]
    | succ a iha =>
      rw [vcfOrder, List.length_append, List.length_map, iha, ihp, cw_succ (a + 1) p]

theorem vcfOrder_mem : ∀ (p a : ℕ) (g : List ℕ), g ∈ vcfOrder p a →
    g.length = p ∧ g.Pairwise (· ≤ ·) ∧ ∀ x ∈ g, x ≤ a := by
  intro p
  induction p with
  | zero => intro a g hg; simp [vcfOrder] at hg; subst hg; simp
  | succ p ihp =>
    intro a
    induction a with
    | zero =>
      intro g hg
      simp only [vcfOrder, List.mem_singleton] at hg
      subst hg
      refine ⟨by simp, ?_, ?_⟩
      · exact List.pairwise_replicate.mpr (Or.inr (le_refl _))
      · intro x hx; exact le_of_eq (List.eq_of_mem_replicate hx)
    | succ a iha =>
      intro g hg
      rw [vcfOrder, List.mem_append] at hg
      rcases hg with hg | hg
      · obtain ⟨h1, h2, h3⟩ := iha g hg
        exact ⟨h1, h2, fun x hx => Nat.le_succ_of_le (h3 x hx)⟩
      · obtain ⟨g', hg', rfl⟩ := List.mem_map.mp hg
        obtain ⟨h1, h2, h3⟩ := ihp (a + 1) g' hg'
        refine ⟨by simp [h1], ?_, ?_⟩
        · rw [List.pairwise_append]
          refine ⟨h2, by simp, ?_⟩
          intro x hx y hy
          simp only [List.mem_singleton] at hy
          subst hy; exact h3 x hx
        · intro x hx
          rcases List.mem_append.mp hx with h | h
          · exact h3 x h
          · simp only [List.mem_singleton] at h; omega

/-- the genotype at position `i` of the VCF ordering has index `i` -/
theorem vcfOrder_index : ∀ (p a i : ℕ) (h : i < (vcfOrder p a).length),
    gIndexFrom 0 ((vcfOrder p a)[i]) = i := by
  intro p
  induction p with
  | zero =>
    intro a i h
    simp only [vcfOrder, List.length_singleton] at h
    have : i = 0 := by omega
    subst this; simp [vcfOrder, gIndexFrom]
  | succ p ihp =>
    intro a
    induction a with
    | zero =>
      intro i h
      simp only [vcfOrder, List.length_singleton] at h
      have : i = 0 := by omega
      subst this
      simp only [vcfOrder, List.getElem_cons_zero]
      rw [gIndexFrom_replicate]
      apply Finset.sum_eq_zero; intro j _; unfold cw; simp
    | succ a iha =>
      intro i h
      have hlen := vcfOrder_length (p + 1) a
      simp only [vcfOrder] at h ⊢
      rcases Nat.lt_or_ge i (vcfOrder (p + 1) a).length with hi | hi
      · rw [List.getElem_append_left hi]; exact iha i hi
      · rw [List.getElem_append_right hi, List.getElem_map]
        have hj : i - (vcfOrder (p + 1) a).length < (vcfOrder p (a + 1)).length := by
          rw [List.length_append, List.length_map] at h; omega
        rw [gIndex_snoc, ihp (a + 1) _ hj]
        have hl := (vcfOrder_mem p (a + 1) _ (List.getElem_mem hj)).1
        rw [hl, ← hlen]; omega

/-! ### `index_as_genotype_alleles` -/

theorem cw_pos (t k : ℕ) : 1 ≤ cw (t + 1) k := by
  unfold cw; exact Nat.choose_pos (by omega)

theorem cw_strict (t k : ℕ) : cw t (k + 1) < cw (t + 1) (k + 1) := by
  rw [cw_succ]; have := cw_pos t k; omega

theorem le_cw (n k : ℕ) : n ≤ cw n (k + 1) := by
  induction n with
  | zero => omega
  | succ n ih => have := cw_strict n k; omega

theorem searchAllele_spec (p r : ℕ) : ∀ (fuel n : ℕ), cw n (p + 1) ≤ r → r < n + fuel →
    (searchAllele (p + 1) r fuel n).2 = cw (searchAllele (p + 1) r fuel n).1 (p + 1) ∧
    cw (searchAllele (p + 1) r fuel n).1 (p + 1) ≤ r ∧
    r < cw ((searchAllele (p + 1) r fuel n).1 + 1) (p + 1) := by
  intro fuel
  induction fuel with
  | zero =>
    intro n h1 h2
    have := le_cw n p
    omega
  | succ fuel ih =>
    intro n h1 h2
    unfold searchAllele
    rw [cwr_eq_cw _ _ (by omega)]
    split
    · rename_i h
      exact ih (n + 1) h (by omega)
    · rename_i h
      simp only [cwr_eq_cw _ _ (Nat.succ_pos p)]
      exact ⟨trivial, h1, by omega⟩

theorem indexGenotypeAux_spec : ∀ (p r t : ℕ) (acc : List ℕ), r < cw (t + 1) p →
    ∃ g, indexGenotypeAux r p acc = g ++ acc ∧ g.length = p ∧ g.Pairwise (· ≤ ·) ∧
      (∀ x ∈ g, x ≤ t) ∧ gIndexFrom 0 g = r := by
  intro p
  induction p with
  | zero =>
    intro r t acc h
    simp only [cw] at h
    refine ⟨[], by simp [indexGenotypeAux], rfl, List.Pairwise.nil, by simp, ?_⟩
    simp [gIndexFrom]; simp at h; omega
  | succ p ih =>
    intro r t acc h
    unfold indexGenotypeAux
    have hs := searchAllele_spec p r (r + 1) 0 (by simp [cw]) (by omega)
    generalize hsa : searchAllele (p + 1) r (r + 1) 0 = sa at hs
    obtain ⟨n, c⟩ := sa
    simp only at hs ⊢
    obtain ⟨hc, hle, hlt⟩ := hs
    subst hc
    -- n ≤ t
    have hnt : n ≤ t := by
      by_contra hcon
      have : cw (t + 1) (p + 1) ≤ cw n (p + 1) := cw_mono _ (by omega)
      omega
    have hr' : r - cw n (p + 1) < cw (n + 1) p := by
      have := cw_succ n p; omega
    obtain ⟨g, hg, hl, hs, hb, hi⟩ := ih (r - cw n (p + 1)) n (n :: acc) hr'
    refine ⟨g ++ [n], by simp [hg], by simp [hl], ?_, ?_, ?_⟩
    · rw [List.pairwise_append]
      refine ⟨hs, by simp, ?_⟩
      intro x hx y hy
      simp only [List.mem_singleton] at hy; subst hy; exact hb x hx
    · intro x hx
      rcases List.mem_append.mp hx with h' | h'
      · exact le_trans (hb x h') hnt
      · simp only [List.mem_singleton] at h'; omega
    · rw [gIndex_snoc, hi, hl]; omega

/-! ### the enumerator -/

/-- iterate `incrementGenotype` (stopping if it fails) -/
def iterInc : ℕ → List ℕ → List (List ℕ)
  | 0, _ => []
  | k + 1, g => g :: (match incrementGenotype g with
      | some g' => iterInc k g'
      | none => [])

theorem enumGo_eq (k : ℕ) : ∀ (g : List ℕ) (acc : List (List ℕ)),
    enumGenotypes.go k g acc = acc.reverse ++ iterInc k g := by
  induction k with
  | zero => intro g acc; simp [enumGenotypes.go, iterInc]
  | succ k ih =>
    intro g acc
    unfold enumGenotypes.go iterInc
    cases h : incrementGenotype g with
    | none => simp
    | some g' => simp [ih]

end MCHap
