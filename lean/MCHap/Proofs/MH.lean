import Mathlib.Data.Multiset.Basic
import Mathlib.Algebra.BigOperators.Group.Finset.Basic
import Mathlib.Data.Nat.Factorial.Basic
import Mathlib.Analysis.SpecialFunctions.Pow.Real
import Mathlib.Tactic

/-! Metropolis–Hastings algebra shared by C01, C02 and C18:
    copy-count proposal ratio, single-slot detailed balance, generic path-wise detailed balance. -/
open Finset
namespace MCHap.MH
variable {α : Type} [DecidableEq α]

def factProd (l : List α) : ℕ := ∏ x ∈ l.toFinset, (l.count x).factorial

theorem factProd_cons (a : α) (l : List α) :
    factProd (a :: l) = factProd l * (l.count a + 1) := by
  unfold factProd
  by_cases h : a ∈ l
  · have hmem : a ∈ l.toFinset := List.mem_toFinset.mpr h
    have : (a :: l).toFinset = l.toFinset := by
      rw [List.toFinset_cons]; exact Finset.insert_eq_of_mem hmem
    rw [this, ← Finset.mul_prod_erase _ _ hmem, ← Finset.mul_prod_erase _ _ hmem]
    have h2 : ∀ x ∈ l.toFinset.erase a, ((a :: l).count x).factorial = (l.count x).factorial := by
      intro x hx
      have : x ≠ a := (Finset.mem_erase.mp hx).1
      rw [List.count_cons_of_ne (Ne.symm this)]
    rw [Finset.prod_congr rfl h2, List.count_cons_self, Nat.factorial_succ]
    ring
  · have hnm : a ∉ l.toFinset := by simpa using h
    rw [List.toFinset_cons, Finset.prod_insert hnm]
    have h2 : ∀ x ∈ l.toFinset, ((a :: l).count x).factorial = (l.count x).factorial := by
      intro x hx
      have : x ≠ a := fun e => hnm (e ▸ hx)
      rw [List.count_cons_of_ne (Ne.symm this)]
    rw [Finset.prod_congr rfl h2, List.count_cons_self, List.count_eq_zero_of_not_mem h]
    simp

theorem factProd_perm {l l' : List α} (h : l.Perm l') : factProd l = factProd l' := by
  unfold factProd
  have : l.toFinset = l'.toFinset := List.toFinset_eq_of_perm _ _ h
  rw [this]
  exact Finset.prod_congr rfl (fun x _ => by rw [h.count_eq])

theorem mh_core (p q : ℝ) (hp : 0 < p) (hq : 0 < q) :
    p * min 1 (q / p) = q * min 1 (p / q) := by
  rcases le_total p q with h | h
  · have h1 : 1 ≤ q / p := by rw [le_div_iff₀ hp]; linarith
    have h2 : p / q ≤ 1 := by rw [div_le_iff₀ hq]; linarith
    rw [min_eq_left h1, min_eq_right h2]; field_simp
  · have h1 : q / p ≤ 1 := by rw [div_le_iff₀ hp]; linarith
    have h2 : 1 ≤ p / q := by rw [le_div_iff₀ hq]; linarith
    rw [min_eq_right h1, min_eq_left h2]; field_simp

theorem factProd_mid (pre post : List α) (a : α) :
    factProd (pre ++ a :: post) = factProd (pre ++ post) * ((pre ++ post).count a + 1) := by
  rw [factProd_perm (List.perm_middle (a := a) (l₁ := pre) (l₂ := post)), factProd_cons]

theorem count_mid (pre post : List α) (a : α) :
    (pre ++ a :: post).count a = (pre ++ post).count a + 1 := by
  rw [(List.perm_middle (a := a) (l₁ := pre) (l₂ := post)).count_eq, List.count_cons_self]

theorem factProd_swap (pre post : List α) (a b : α) :
    factProd (pre ++ a :: post) * (pre ++ b :: post).count b
      = factProd (pre ++ b :: post) * (pre ++ a :: post).count a := by
  rw [factProd_mid, factProd_mid, count_mid, count_mid]; ring

/-- detailed balance of the single-slot MH move on ORDERED genotypes w.r.t. w · ∏mult!  (∝ w / perms) -/
theorem base_step_db (w : List α → ℝ) (hw : ∀ g, 0 < w g) (pre post : List α) (a b : α) :
    let g := pre ++ a :: post
    let g' := pre ++ b :: post
    let πo := fun x : List α => w x * (factProd x : ℝ)
    πo g * min 1 ((w g' / w g) * ((g'.count b : ℝ) / (g.count a : ℝ)))
      = πo g' * min 1 ((w g / w g') * ((g.count a : ℝ) / (g'.count b : ℝ))) := by
  intro g g' πo
  have hca : (0:ℝ) < (g.count a : ℝ) := by
    have : 0 < g.count a := by rw [count_mid]; omega
    exact_mod_cast this
  have hcb : (0:ℝ) < (g'.count b : ℝ) := by
    have : 0 < g'.count b := by rw [count_mid]; omega
    exact_mod_cast this
  have hf : (0:ℝ) < (factProd g : ℝ) := by
    have : 0 < factProd g := Finset.prod_pos (fun x _ => Nat.factorial_pos _)
    exact_mod_cast this
  have hf' : (0:ℝ) < (factProd g' : ℝ) := by
    have : 0 < factProd g' := Finset.prod_pos (fun x _ => Nat.factorial_pos _)
    exact_mod_cast this
  have key : (factProd g : ℝ) * (g'.count b : ℝ) = (factProd g' : ℝ) * (g.count a : ℝ) := by
    exact_mod_cast factProd_swap pre post a b
  have hp : 0 < πo g := mul_pos (hw g) hf
  have hq : 0 < πo g' := mul_pos (hw g') hf'
  have e1 : (w g' / w g) * ((g'.count b : ℝ) / (g.count a : ℝ)) = πo g' / πo g := by
    simp only [πo]; have := hw g; have := hw g'; field_simp; linear_combination key
  have e2 : (w g / w g') * ((g.count a : ℝ) / (g'.count b : ℝ)) = πo g / πo g' := by
    simp only [πo]; have := hw g; have := hw g'; field_simp; linear_combination -key
  rw [e1, e2]
  exact mh_core _ _ hp hq


/-- Generic path-wise detailed balance: uniform proposal among `paths s`, acceptance
    `min 1 (π s'/π s · n s / n s')`, with an involutive reversal of paths. -/
theorem pathwise_db {S P : Type} [DecidableEq S] [DecidableEq P]
    (paths : S → Finset P) (tgt : S → P → S) (rev : S → P → P)
    (hmem : ∀ s p, p ∈ paths s → rev s p ∈ paths (tgt s p))
    (htgt : ∀ s p, p ∈ paths s → tgt (tgt s p) (rev s p) = s)
    (hinv : ∀ s p, p ∈ paths s → rev (tgt s p) (rev s p) = p)
    (π : S → ℝ) (hπ : ∀ s, 0 < π s) (s s' : S) :
    let n := fun x => ((paths x).card : ℝ)
    let acc := fun x y => min 1 ((π y / π x) * (n x / n y))
    ∑ p ∈ (paths s).filter (fun p => tgt s p = s'), π s * (1 / n s * acc s s')
      = ∑ q ∈ (paths s').filter (fun q => tgt s' q = s), π s' * (1 / n s' * acc s' s) := by
  intro n acc
  -- the two filtered path sets are in bijection via rev
  have hcard : ((paths s).filter (fun p => tgt s p = s')).card
      = ((paths s').filter (fun q => tgt s' q = s)).card := by
    apply Finset.card_bij (fun p _ => rev s p)
    · intro p hp
      rw [mem_filter] at hp ⊢
      obtain ⟨hp1, hp2⟩ := hp
      subst hp2
      exact ⟨hmem s p hp1, htgt s p hp1⟩
    · intro p hp q hq h
      rw [mem_filter] at hp hq
      have e1 := hinv s p hp.1
      have e2 := hinv s q hq.1
      rw [hp.2] at e1; rw [hq.2] at e2
      rw [← e1, ← e2, h]
    · intro q hq
      rw [mem_filter] at hq
      refine ⟨rev s' q, ?_, ?_⟩
      · rw [mem_filter]
        have := hmem s' q hq.1
        rw [hq.2] at this
        refine ⟨this, ?_⟩
        have := htgt s' q hq.1
        rw [hq.2] at this; exact this
      · have := hinv s' q hq.1
        rw [hq.2] at this; exact this
  rw [Finset.sum_const, Finset.sum_const, hcard]
  by_cases hz : ((paths s').filter (fun q => tgt s' q = s)).card = 0
  · simp [hz]
  · -- both path sets non-empty, hence n s, n s' > 0
    have hne' : ((paths s').filter (fun q => tgt s' q = s)).Nonempty := Finset.card_pos.mp (Nat.pos_of_ne_zero hz)
    have hne : ((paths s).filter (fun p => tgt s p = s')).Nonempty := by
      rw [← Finset.card_pos, hcard]; exact Nat.pos_of_ne_zero hz
    have hns : 0 < n s := by
      have : 0 < (paths s).card := Finset.card_pos.mpr (hne.mono (Finset.filter_subset _ _))
      show (0:ℝ) < ((paths s).card : ℝ)
      exact_mod_cast this
    have hns' : 0 < n s' := by
      have : 0 < (paths s').card := Finset.card_pos.mpr (hne'.mono (Finset.filter_subset _ _))
      show (0:ℝ) < ((paths s').card : ℝ)
      exact_mod_cast this
    congr 1
    have hp : 0 < π s / n s := div_pos (hπ s) hns
    have hq : 0 < π s' / n s' := div_pos (hπ s') hns'
    have e1 : (π s' / π s) * (n s / n s') = (π s' / n s') / (π s / n s) := by
      have := hπ s; have := hπ s'; field_simp
    have e2 : (π s / π s') * (n s' / n s) = (π s / n s) / (π s' / n s') := by
      have := hπ s; have := hπ s'; field_simp
    simp only [acc]
    rw [e1, e2]
    have := mh_core _ _ hp hq
    calc π s * (1 / n s * min 1 (π s' / n s' / (π s / n s)))
        = (π s / n s) * min 1 (π s' / n s' / (π s / n s)) := by ring
      _ = (π s' / n s') * min 1 (π s / n s / (π s' / n s')) := this
      _ = π s' * (1 / n s' * min 1 (π s / n s / (π s' / n s'))) := by ring

end MCHap.MH
