import MCHap.Proofs.PedigreeAllele
import MCHap.Proofs.PedigreeEnum

/-! Support of the gamete pmf versus the constraint vectors of the validity test (index-wise). -/
namespace MCHap

/-! ### index-wise view of the vector operations -/

theorem getD_zipWith (f : ℕ → ℕ → ℕ) (hf : f 0 0 = 0) : ∀ (a b : List ℕ), a.length = b.length → ∀ i,
    (List.zipWith f a b).getD i 0 = f (a.getD i 0) (b.getD i 0) := by
  intro a
  induction a with
  | nil => intro b h i; cases b <;> simp_all
  | cons x a ih =>
    intro b h i
    cases b with
    | nil => simp at h
    | cons y b =>
      cases i with
      | zero => simp
      | succ i => simpa using ih b (by simpa using h) i

theorem vle_iff : ∀ (a b : List ℕ), a.length = b.length →
    (vle a b = true ↔ ∀ i, a.getD i 0 ≤ b.getD i 0) := by
  intro a
  induction a with
  | nil => intro b h; cases b <;> simp_all [vle]
  | cons x a ih =>
    intro b h
    cases b with
    | nil => simp at h
    | cons y b =>
      have := ih b (by simpa using h)
      simp only [vle] at this ⊢
      simp only [List.zipWith_cons_cons, List.all_cons, id, Bool.and_eq_true, decide_eq_true_eq, this]
      constructor
      · rintro ⟨h1, h2⟩ i
        cases i with
        | zero => simpa using h1
        | succ i => simpa using h2 i
      · intro h
        exact ⟨by simpa using h 0, fun i => by simpa using h (i + 1)⟩

theorem forall₂_le_iff (a b : List ℕ) (h : a.length = b.length) :
    List.Forall₂ (· ≤ ·) a b ↔ ∀ i, a.getD i 0 ≤ b.getD i 0 := by
  rw [← vle_iff a b h]
  revert b
  induction a with
  | nil => intro b h; cases b <;> simp_all [vle]
  | cons x a ih =>
    intro b h
    cases b with
    | nil => simp at h
    | cons y b =>
      have := ih b (by simpa using h)
      simp only [vle] at this ⊢
      simp [List.forall₂_cons, this]

theorem getD_of_length_le (a : List ℕ) (i : ℕ) (h : a.length ≤ i) : a.getD i 0 = 0 := by
  simp [List.getD_eq_getElem?_getD, List.getElem?_eq_none h]

theorem list_ext_getD (a b : List ℕ) (h : a.length = b.length) (hi : ∀ i, a.getD i 0 = b.getD i 0) : a = b := by
  apply List.ext_getElem h
  intro i h1 h2
  have := hi i
  simpa [List.getD_eq_getElem?_getD, h1, h2] using this

/-- the product of binomials is positive exactly when the gamete fits inside the parent -/
theorem dosagePermutations_pos_iff : ∀ (g dp : List ℕ), g.length = dp.length →
    (0 < dosagePermutations g dp ↔ ∀ i, g.getD i 0 ≤ dp.getD i 0) := by
  intro g
  induction g with
  | nil => intro dp h; cases dp <;> simp_all [dosagePermutations]
  | cons x g ih =>
    intro dp h
    cases dp with
    | nil => simp at h
    | cons y dp =>
      have := ih dp (by simpa using h)
      simp only [dosagePermutations] at this ⊢
      simp only [List.zip_cons_cons, List.map_cons, List.foldr_cons]
      rw [comb_eq_choose]
      have hc : 0 < Nat.choose y x ↔ x ≤ y := by
        rw [Nat.pos_iff_ne_zero, Ne, Nat.choose_eq_zero_iff]; omega
      rw [Nat.pos_iff_ne_zero, Nat.mul_ne_zero_iff, ← Nat.pos_iff_ne_zero, ← Nat.pos_iff_ne_zero, hc, this]
      constructor
      · rintro ⟨h1, h2⟩ i
        cases i with
        | zero => simpa using h1
        | succ i => simpa using h2 i
      · intro h
        exact ⟨by simpa using h 0, fun i => by simpa using h (i + 1)⟩

theorem two_getD_le_sum : ∀ (a : List ℕ) (i j : ℕ), i ≠ j → a.getD i 0 + a.getD j 0 ≤ a.sum := by
  intro a
  induction a with
  | nil => intro i j _; simp
  | cons x a ih =>
    intro i j hij
    cases i with
    | zero =>
      cases j with
      | zero => exact absurd rfl hij
      | succ j => have := getD_le_sum a j; simp only [List.getD_cons_zero, List.getD_cons_succ, List.sum_cons]; omega
    | succ i =>
      cases j with
      | zero => have := getD_le_sum a i; simp only [List.getD_cons_zero, List.getD_cons_succ, List.sum_cons]; omega
      | succ j =>
        have := ih i j (by omega)
        simp only [List.getD_cons_succ, List.sum_cons]; omega

theorem twoUnit_getD (n i j : ℕ) : (twoUnit n i).getD j 0 = if j < n ∧ j = i then 2 else 0 := by
  unfold twoUnit
  by_cases hj : j < n
  · simp [List.getD_eq_getElem?_getD, hj]
  · rw [getD_of_length_le _ _ (by simp; omega)]; simp [hj]

theorem eq_twoUnit_of_sum_two (a : List ℕ) (i : ℕ) (hs : a.sum = 2) (hi : a.getD i 0 = 2) :
    a = twoUnit a.length i := by
  have hil : i < a.length := lt_length_of_getD_pos a i (by omega)
  apply list_ext_getD _ _ (by simp [twoUnit])
  intro j
  rw [twoUnit_getD]
  by_cases hji : j = i
  · subst hji; rw [if_pos ⟨hil, rfl⟩, hi]
  · have := two_getD_le_sum a i j (fun e => hji e.symm)
    have h0 : a.getD j 0 = 0 := by omega
    rw [if_neg (fun h => hji h.2), h0]

/-! ### positivity of the gamete pmf -/

theorem hyperPmf_pos_iff (dp a : List ℕ) (pp tau : ℕ) (hl : a.length = dp.length) (ht : tau ≤ pp) :
    0 < hyperPmf dp pp tau a ↔ ∀ i, a.getD i 0 ≤ dp.getD i 0 := by
  unfold hyperPmf
  rw [comb_eq_choose]
  have hc : (0 : ℚ) < (Nat.choose pp tau : ℚ) := by exact_mod_cast Nat.choose_pos ht
  rw [div_pos_iff_of_pos_right hc, ← dosagePermutations_pos_iff a dp hl]
  exact Nat.cast_pos

theorem hyperPmf_nonneg (dp a : List ℕ) (pp tau : ℕ) : 0 ≤ hyperPmf dp pp tau a := by
  unfold hyperPmf; positivity

theorem drSpec_nonneg (dp : List ℕ) (pp : ℕ) (a : List ℕ) : 0 ≤ drSpec dp pp a := by
  unfold drSpec; positivity

theorem drSpec_pos_iff (dp : List ℕ) (pp : ℕ) (a : List ℕ) (hpp : 0 < pp) :
    0 < drSpec dp pp a ↔ ∃ i, i < a.length ∧ a = twoUnit a.length i ∧ 0 < dp.getD i 0 := by
  unfold drSpec
  have hc : (0 : ℚ) < (pp : ℚ) := by exact_mod_cast hpp
  rw [div_pos_iff_of_pos_right hc, Nat.cast_pos, Nat.pos_iff_ne_zero, Ne, List.sum_eq_zero_iff]
  constructor
  · intro h
    by_contra hne
    apply h
    intro v hv
    obtain ⟨i, hi, rfl⟩ := List.mem_map.mp hv
    by_cases he : a = twoUnit a.length i
    · rw [if_pos he]
      by_contra h0
      exact hne ⟨i, List.mem_range.mp hi, he, Nat.pos_of_ne_zero h0⟩
    · rw [if_neg he]
  · rintro ⟨i, hi, he, hd⟩ hall
    have := hall (dp.getD i 0) (List.mem_map.mpr ⟨i, List.mem_range.mpr hi, by rw [if_pos he]⟩)
    omega

theorem gameteSpec_pos (dp : List ℕ) (pp tau : ℕ) (lam : ℚ) (a : List ℕ) (h0 : 0 ≤ lam) (h1 : lam < 1) :
    0 < gameteSpec dp pp tau lam a ↔
      0 < hyperPmf dp pp tau a ∨ (tau = 2 ∧ 0 < lam ∧ 0 < drSpec dp pp a) := by
  unfold gameteSpec
  have hH := hyperPmf_nonneg dp a pp tau
  have hD := drSpec_nonneg dp pp a
  have h1' : 0 < 1 - lam := by linarith
  constructor
  · intro h
    by_contra hc
    rw [not_or] at hc
    obtain ⟨c1, c2⟩ := hc
    have eH : hyperPmf dp pp tau a = 0 := le_antisymm (not_lt.mp c1) hH
    rw [eH] at h
    by_cases ht : tau = 2
    · rw [if_pos ht] at h
      simp only [mul_zero, zero_add] at h
      have hl : 0 < lam := by
        by_contra hl
        have : lam = 0 := le_antisymm (not_lt.mp hl) h0
        rw [this] at h; simp at h
      have hd : 0 < drSpec dp pp a := by
        by_contra hd
        have : drSpec dp pp a = 0 := le_antisymm (not_lt.mp hd) hD
        rw [this] at h; simp at h
      exact c2 ⟨ht, hl, hd⟩
    · rw [if_neg ht] at h; simp at h
  · rintro (h | ⟨ht, hl, hd⟩)
    · have : 0 ≤ (if tau = 2 then lam * drSpec dp pp a else 0) := by split <;> positivity
      have := mul_pos h1' h
      linarith
    · rw [if_pos ht]
      have := mul_pos hl hd
      have := mul_nonneg h1'.le hH
      linarith

/-! ### the constraint vectors, index-wise -/

theorem constraintOf_length (d dp : List ℕ) (lam : ℚ) (h : d.length = dp.length) :
    (constraintOf d dp lam).length = d.length := by
  unfold constraintOf widen minVec
  split <;> simp [h]

theorem constraintOf_getD (d dp : List ℕ) (lam : ℚ) (h : d.length = dp.length) (i : ℕ) :
    (constraintOf d dp lam).getD i 0
      = if lam > 0 then
          (if d.getD i 0 ≥ 2 ∧ min (d.getD i 0) (dp.getD i 0) = 1 then 2 else min (d.getD i 0) (dp.getD i 0))
        else min (d.getD i 0) (dp.getD i 0) := by
  unfold constraintOf
  have hm : ∀ j, (minVec d dp).getD j 0 = min (d.getD j 0) (dp.getD j 0) :=
    fun j => getD_zipWith min (by simp) d dp h j
  split
  · unfold widen
    rw [getD_zipWith _ (by simp) d (minVec d dp) (by simp [minVec, h]) i, hm]
  · exact hm i

/-- **support of the gamete pmf = the constraint of the validity test**: for a gamete `a` of size `τ`
    that fits into the progeny `d`, the probability of drawing it from the parent is positive exactly
    when `a` lies under `min(d, parental copies)`, widened to 2 for double reduction -/
theorem gameteSpec_pos_iff (d dp a : List ℕ) (pp tau : ℕ) (lam : ℚ)
    (hd : d.length = dp.length) (ha : a.length = dp.length) (hs : a.sum = tau)
    (had : ∀ i, a.getD i 0 ≤ d.getD i 0) (hdp : dp.sum = pp) (htp : tau ≤ pp) (ht1 : 1 ≤ tau)
    (h0 : 0 ≤ lam) (h1 : lam < 1) (hlam : lam ≠ 0 → tau = 2) :
    0 < gameteSpec dp pp tau lam a ↔ vle a (constraintOf d dp lam) = true := by
  have _ := hdp
  rw [vle_iff a _ (by rw [constraintOf_length d dp lam hd]; omega), gameteSpec_pos dp pp tau lam a h0 h1,
    hyperPmf_pos_iff dp a pp tau ha htp]
  by_cases hl : lam > 0
  · have ht2 : tau = 2 := hlam (ne_of_gt hl)
    have hpp : 0 < pp := by omega
    rw [drSpec_pos_iff dp pp a hpp]
    constructor
    · rintro (h | ⟨_, _, i0, hi0, he, hdi⟩) i
      · rw [constraintOf_getD d dp lam hd i, if_pos hl]
        have := h i; have := had i
        split <;> omega
      · rw [constraintOf_getD d dp lam hd i, if_pos hl]
        have hai : a.getD i 0 = if i < a.length ∧ i = i0 then 2 else 0 := by
          rw [he]; simp only [twoUnit_getD]; simp [twoUnit]
        have hadi := had i
        by_cases hii : i = i0
        · subst hii
          rw [if_pos ⟨hi0, rfl⟩] at hai
          split <;> omega
        · rw [if_neg (fun h => hii h.2)] at hai
          omega
    · intro h
      by_cases hall : ∀ i, a.getD i 0 ≤ dp.getD i 0
      · exact Or.inl hall
      · right
        rw [not_forall] at hall
        obtain ⟨i0, hi0⟩ := hall
        have hw := h i0
        rw [constraintOf_getD d dp lam hd i0, if_pos hl] at hw
        have hsum := getD_le_sum a i0
        have ha2 : a.getD i0 0 = 2 ∧ dp.getD i0 0 = 1 := by
          split at hw <;> omega
        have hil : i0 < a.length := lt_length_of_getD_pos a i0 (by omega)
        exact ⟨ht2, hl, i0, hil, eq_twoUnit_of_sum_two a i0 (by omega) ha2.1, by omega⟩
  · have hl0 : lam = 0 := le_antisymm (not_lt.mp hl) h0
    constructor
    · rintro (h | ⟨_, hpos, _⟩) i
      · rw [constraintOf_getD d dp lam hd i, if_neg hl]
        have := h i; have := had i; omega
      · exact absurd hpos hl
    · intro h
      left
      intro i
      have := h i
      rw [constraintOf_getD d dp lam hd i, if_neg hl] at this
      omega

/-! ### the per-parent mixture with zero error -/

theorem pw_prod_zeros : ∀ (fs : List ℚ) (a : List ℕ), (∀ y ∈ a, y = 0) →
    ((fs.zip a).map (fun fc => pw fc.1 fc.2)).prod = 1 := by
  intro fs
  induction fs with
  | nil => intro a _; simp
  | cons f fs ih =>
    intro a h
    cases a with
    | nil => simp
    | cons v a =>
      have hv : v = 0 := h v (by simp)
      subst hv
      have := ih a (fun y hy => h y (List.mem_cons_of_mem _ hy))
      simp only [List.zip_cons_cons, List.map_cons, List.prod_cons, this, pw_zero, mul_one]

theorem unknownPmf_zeros (fs : List ℚ) (a : List ℕ) (h : a.sum = 0) : unknownPmf fs a = 1 := by
  unfold unknownPmf
  rw [C05.multinomialCounts_eq, h, pw_prod_zeros fs a (sum_zero_all a h)]
  simp [factorial]

theorem sum_le_of_getD_le : ∀ (a b : List ℕ), a.length = b.length → (∀ i, a.getD i 0 ≤ b.getD i 0) →
    a.sum ≤ b.sum := by
  intro a
  induction a with
  | nil => intro b _ _; simp
  | cons x a ih =>
    intro b h hi
    cases b with
    | nil => simp at h
    | cons y b =>
      have h0 := hi 0
      have := ih b (by simpa using h) (fun i => by simpa using hi (i + 1))
      simp only [List.getD_cons_zero] at h0
      simp only [List.sum_cons]; omega

/-- zero error, known parent: the mixture is positive exactly under the constraint -/
theorem mixPmf_pos_iff (d dp a : List ℕ) (pp tau : ℕ) (lam : ℚ) (fs : List ℚ)
    (hd : d.length = dp.length) (ha : a.length = dp.length) (hs : a.sum = tau)
    (had : ∀ i, a.getD i 0 ≤ d.getD i 0) (hpp : pp ≠ 0) (hdp : dp.sum = pp) (htp : tau ≤ pp)
    (h0 : 0 ≤ lam) (h1 : lam < 1) (hlam : lam ≠ 0 → tau = 2) :
    0 < mixPmf dp pp tau lam 0 fs a ↔ vle a (constraintOf d dp lam) = true := by
  unfold mixPmf specErr
  by_cases ht : tau = 0
  · subst ht
    have hz : ∀ i, a.getD i 0 = 0 := fun i => by have := getD_le_sum a i; omega
    simp only [true_or, if_true, sub_self, zero_mul, zero_add, one_mul]
    rw [unknownPmf_zeros fs a hs, vle_iff a _ (by rw [constraintOf_length d dp lam hd]; omega)]
    constructor
    · intro _ i; rw [hz i]; exact Nat.zero_le _
    · intro _; norm_num
  · simp only [ht, hpp, or_self, if_false, sub_zero, one_mul, zero_mul, add_zero]
    exact gameteSpec_pos_iff d dp a pp tau lam hd ha hs had hdp htp (by omega) h0 h1 hlam

theorem mixPmf_nonneg_zero_err (dp a : List ℕ) (pp tau : ℕ) (lam : ℚ) (fs : List ℚ)
    (hs : a.sum = tau) (hpp : pp ≠ 0) (h0 : 0 ≤ lam) (h1 : lam ≤ 1) :
    0 ≤ mixPmf dp pp tau lam 0 fs a := by
  unfold mixPmf specErr
  by_cases ht : tau = 0
  · subst ht
    simp only [true_or, if_true, sub_self, zero_mul, zero_add, one_mul]
    rw [unknownPmf_zeros fs a hs]; norm_num
  · simp only [ht, hpp, or_self, if_false, sub_zero, one_mul, zero_mul, add_zero]
    unfold gameteSpec
    have := hyperPmf_nonneg dp a pp tau
    have := drSpec_nonneg dp pp a
    have : 0 ≤ 1 - lam := by linarith
    split <;> positivity

/-! ### duos: the other gamete is of unknown origin -/

theorem fillGreedy_rem_zero : ∀ (cs : List ℕ) (p : ℕ), p ≤ cs.sum → (fillGreedy p cs).2 = 0 := by
  intro cs
  induction cs with
  | nil => intro p h; simp at h; subst h; rfl
  | cons c cs ih =>
    intro p h
    simp only [List.sum_cons] at h
    simp only [fillGreedy]
    apply ih
    omega

theorem unknownPmf_pos (fs : List ℚ) (hf : ∀ f ∈ fs, 0 < f) (b : List ℕ) : 0 < unknownPmf fs b := by
  unfold unknownPmf
  rw [C05.multinomialCounts_eq]
  apply mul_pos (factorial_pos' _)
  apply List.prod_pos
  intro v hv
  obtain ⟨fc, hfc, rfl⟩ := List.mem_map.mp hv
  have := hf fc.1 (List.of_mem_zip hfc).1
  unfold pw
  have := factorial_pos' fc.2
  positivity

end MCHap
