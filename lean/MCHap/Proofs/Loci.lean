import MCHap.Model.Loci
import Mathlib.Data.List.Basic
import Mathlib.Data.List.Nodup
import Mathlib.Data.List.Range
import Mathlib.Data.List.Forall2
import Mathlib.Data.List.Sort
import Mathlib.Tactic

/-! Helper lemmas for C12 (round trip of `encode_haplotypes` / `format_haplotypes`). -/
namespace MCHap

/-! ### first-appearance numbering -/

theorem mem_firstAppearance {x : Char} : ∀ {l : List Char}, x ∈ firstAppearance l ↔ x ∈ l
  | [] => by simp [firstAppearance]
  | c :: cs => by
    have ih := @mem_firstAppearance x cs
    by_cases hx : x = c
    · subst hx; simp [firstAppearance]
    · simp [firstAppearance, List.mem_filter, ih, hx]

theorem nodup_firstAppearance : ∀ (l : List Char), (firstAppearance l).Nodup
  | [] => by simp [firstAppearance]
  | c :: cs => by
    have ih := nodup_firstAppearance cs
    simp only [firstAppearance, List.nodup_cons]
    refine ⟨?_, ih.filter _⟩
    simp [List.mem_filter]

theorem firstAppearance_head (c : Char) (cs : List Char) :
    (firstAppearance (c :: cs)).head? = some c := rfl

/-! ### allele index ↔ allele character -/

theorem alleleIndex_of_mem {als : List Char} {c : Char} (h : c ∈ als) :
    allelicIndex als c = ((als.idxOf c : ℕ) : ℤ) := by
  simp [allelicIndex, h]

theorem alleleIndex_nonneg_lt {als : List Char} {c : Char} (h : c ∈ als) :
    0 ≤ allelicIndex als c ∧ allelicIndex als c < als.length := by
  rw [alleleIndex_of_mem h]
  exact ⟨Int.natCast_nonneg _, by exact_mod_cast List.idxOf_lt_length_of_mem h⟩

theorem alleleChar_alleleIndex (gap : Char) {als : List Char} {c : Char} (h : c ∈ als) :
    alleleChar gap als (allelicIndex als c) = some c := by
  rw [alleleIndex_of_mem h]
  unfold alleleChar
  have : ¬ (((als.idxOf c : ℕ) : ℤ) < 0) := by omega
  simp only [this, if_false, Int.toNat_natCast]
  exact List.getElem?_idxOf h

theorem alleleIndex_head (c : Char) (cs : List Char) : allelicIndex (c :: cs) c = 0 := by
  simp [allelicIndex]

/-- for a duplicate-free allele tuple the index of the `a`-th character is `a` -/
theorem alleleIndex_getElem {als : List Char} (hn : als.Nodup) {a : ℕ} (ha : a < als.length) :
    allelicIndex als als[a] = (a : ℤ) := by
  have hm : als[a] ∈ als := List.getElem_mem ha
  rw [alleleIndex_of_mem hm]
  congr 1
  exact hn.idxOf_getElem a ha

/-! ### `variantChars`, `optAll`, `fillTemplate` on mapped lists -/

theorem variantChars_map {β} (gap : Char) (l : List β) (als : β → List Char) (ix : β → ℤ)
    (ch : β → Char) (h : ∀ b ∈ l, alleleChar gap (als b) (ix b) = some (ch b)) :
    variantChars gap (l.map als) (l.map ix) = some (l.map ch) := by
  induction l with
  | nil => simp [variantChars]
  | cons b l ih =>
    have hb := h b (by simp)
    have ih' := ih (fun b' hb' => h b' (by simp [hb']))
    simp only [List.map_cons, variantChars, hb, ih']

theorem optAll_map_some {α β} (l : List α) (f : α → Option β) (g : α → β)
    (h : ∀ x ∈ l, f x = some (g x)) : optAll (l.map f) = some (l.map g) := by
  induction l with
  | nil => simp [optAll]
  | cons a l ih =>
    have ha := h a (by simp)
    have ih' := ih (fun x hx => h x (by simp [hx]))
    simp [optAll, ha, ih']

/-- filling the template built over the index list `idx` (placeholder where `p`) with the arguments
    `f` of the placeholder positions gives `f` at placeholders and the literal elsewhere -/
theorem fillTemplate_map (idx : List ℕ) (p : ℕ → Bool) (r f : ℕ → Char) :
    fillTemplate (idx.map (fun i => if p i then none else some (r i))) ((idx.filter p).map f)
      = some (idx.map (fun i => if p i then f i else r i)) := by
  induction idx with
  | nil => simp [fillTemplate]
  | cons i idx ih =>
    by_cases hp : p i = true
    · simp [hp, fillTemplate, ih]
    · have hp' : p i = false := by simpa using hp
      simp [hp', fillTemplate, ih]

theorem map_charAt_range (s : Seq) : (List.range s.length).map (charAt s) = s := by
  apply List.ext_getElem
  · simp
  · intro i h1 h2
    simp [charAt, List.getD_eq_getElem?_getD, List.getElem?_eq_getElem (by simpa using h2 : i < s.length)]

/-! ### SNV columns -/

theorem colDiffers_eq_true {ref : Seq} {alts : List Seq} {j : ℕ} :
    colDiffers ref alts j = true ↔ ∃ s ∈ alts, charAt s j ≠ charAt ref j := by
  simp [colDiffers, List.any_eq_true]

theorem colDiffers_eq_false {ref : Seq} {alts : List Seq} {j : ℕ} :
    colDiffers ref alts j = false ↔ ∀ s ∈ alts, charAt s j = charAt ref j := by
  rw [← Bool.not_eq_true, colDiffers_eq_true]
  push Not
  rfl

theorem mem_snvColumns {ref : Seq} {alts : List Seq} {j : ℕ} :
    j ∈ snvColumns ref alts ↔ j < ref.length ∧ ∃ s ∈ alts, charAt s j ≠ charAt ref j := by
  simp [snvColumns, List.mem_filter, colDiffers_eq_true]

theorem snvColumns_sorted (ref : Seq) (alts : List Seq) :
    (snvColumns ref alts).Pairwise (· < ·) :=
  List.Pairwise.filter _ List.pairwise_lt_range

theorem deriveVariants_offsets (ref : Seq) (alts : List Seq) :
    (deriveVariants ref alts).map (·.1) = snvColumns ref alts := by
  simp [deriveVariants, List.map_map, Function.comp_def]

theorem charAt_mem_alleles {ref : Seq} {alts : List Seq} {s : Seq} (hs : s ∈ ref :: alts) (j : ℕ) :
    charAt s j ∈ firstAppearanceAlleles ref alts j := by
  unfold firstAppearanceAlleles
  rw [mem_firstAppearance]
  unfold column
  exact List.mem_map.mpr ⟨s, hs, rfl⟩

/-- a strictly increasing list of indices below `n` is the filter of `range n` by membership -/
theorem filter_range_mem_eq {offs : List ℕ} {n : ℕ} (hs : offs.Pairwise (· < ·))
    (hb : ∀ j ∈ offs, j < n) : (List.range n).filter (fun i => decide (i ∈ offs)) = offs := by
  apply List.Pairwise.eq_of_mem_iff (r := (· < ·))
  · exact List.Pairwise.filter _ List.pairwise_lt_range
  · exact hs
  · intro a
    simp only [List.mem_filter, List.mem_range, decide_eq_true_eq]
    exact ⟨fun h => h.2, fun h => ⟨hb a h, h⟩⟩

/-! ### formatting arbitrary valid index vectors (the other direction) -/

/-- the variant stored at offset `j` -/
def lookVariant (variants : List Variant) (j : ℕ) : Variant :=
  (variants.find? (fun v => v.1 == j)).getD (0, [])

theorem lookVariant_of_mem : ∀ {variants : List Variant}, (variants.map (·.1)).Nodup →
    ∀ {v : Variant}, v ∈ variants → lookVariant variants v.1 = v
  | [], _, v, hv => by simp at hv
  | w :: vs, hnd, v, hv => by
    simp only [List.map_cons, List.nodup_cons] at hnd
    rcases List.mem_cons.mp hv with rfl | hv'
    · simp [lookVariant]
    · have hne : w.1 ≠ v.1 := by
        intro he
        exact hnd.1 (he ▸ List.mem_map.mpr ⟨v, hv', rfl⟩)
      have ih := lookVariant_of_mem hnd.2 hv'
      simp only [lookVariant, List.find?_cons] at ih ⊢
      have : (w.1 == v.1) = false := by simpa using hne
      simp only [this]
      exact ih

theorem charAt_map_range (g : ℕ → Char) {n i : ℕ} (hi : i < n) :
    charAt ((List.range n).map g) i = g i := by
  simp [charAt, List.getD_eq_getElem?_getD, hi]

/-- the allele number haplotype `row` carries at the SNV with offset `j` -/
def rowFun (variants : List Variant) (row : List ℤ) (j : ℕ) : ℕ :=
  (row.getD ((variants.map (·.1)).idxOf j) 0).toNat

/-- a row of non-negative entries is the image of a function of the (distinct) offsets -/
theorem row_eq_map {variants : List Variant} (hnd : (variants.map (·.1)).Nodup) {row : List ℤ}
    (hlen : row.length = variants.length) (hnn : ∀ x ∈ row, 0 ≤ x) :
    row = variants.map (fun v => ((rowFun variants row v.1 : ℕ) : ℤ)) := by
  apply List.ext_getElem
  · simp [hlen]
  · intro i h1 h2
    have hi : i < variants.length := by simpa using h2
    have hidx : (variants.map (·.1)).idxOf (variants[i]).1 = i := by
      have := hnd.idxOf_getElem i (by simpa using hi)
      simpa using this
    simp only [List.getElem_map, rowFun, hidx]
    have : row.getD i 0 = row[i] := by
      simp [List.getD_eq_getElem?_getD, List.getElem?_eq_getElem h1]
    rw [this, Int.toNat_of_nonneg (hnn _ (List.getElem_mem h1))]

/-- filling the template of a locus with one character per (strictly increasing) offset -/
theorem fillTemplate_on_template {seq : Seq} {offs : List ℕ} {t : List (Option Char)}
    (hs : offs.Pairwise (· < ·)) (ht : templateSequence seq offs = some t) (f : ℕ → Char) :
    fillTemplate t (offs.map f)
      = some ((List.range seq.length).map (fun i => if i ∈ offs then f i else charAt seq i)) := by
  unfold templateSequence at ht
  split at ht
  · rename_i hb
    have hb' : ∀ j ∈ offs, j < seq.length := by simpa [List.all_eq_true] using hb
    have ht' := (Option.some.inj ht).symm
    have h1 : t = (List.range seq.length).map
        (fun i => if (decide (i ∈ offs)) = true then none else some (charAt seq i)) := by
      rw [ht']
      apply List.map_congr_left
      intro i _
      by_cases hi : i ∈ offs <;> simp [hi]
    have h2 := fillTemplate_map (List.range seq.length) (fun i => decide (i ∈ offs)) (charAt seq) f
    rw [filter_range_mem_eq hs hb'] at h2
    rw [h1, h2]
    congr 1
    apply List.map_congr_left
    intro i _
    by_cases hi : i ∈ offs <;> simp [hi]
  · exact absurd ht (by simp)

/-- formatting the row `v ↦ a v.offset` and reading it back with the same locus -/
theorem format_row (seq : Seq) (variants : List Variant) (gap : Char) (t : List (Option Char))
    (hs : (variants.map (·.1)).Pairwise (· < ·))
    (ht : templateSequence seq (variants.map (·.1)) = some t)
    (a : ℕ → ℕ) (ha : ∀ v ∈ variants, a v.1 < v.2.length) :
    (match variantChars gap (variants.map (·.2)) (variants.map (fun v => ((a v.1 : ℕ) : ℤ))) with
      | none => none
      | some cs => fillTemplate t cs)
    = some ((List.range seq.length).map (fun i =>
        if i ∈ variants.map (·.1) then (lookVariant variants i).2.getD (a i) gap else charAt seq i)) := by
  have hnd : (variants.map (·.1)).Nodup := hs.imp (fun h => Nat.ne_of_lt h)
  have hvc : variantChars gap (variants.map (·.2)) (variants.map (fun v => ((a v.1 : ℕ) : ℤ)))
      = some (variants.map (fun v => v.2.getD (a v.1) gap)) := by
    apply variantChars_map
    intro v hv
    have hlt := ha v hv
    unfold alleleChar
    have : ¬ (((a v.1 : ℕ) : ℤ) < 0) := by omega
    simp [this, List.getD_eq_getElem?_getD, List.getElem?_eq_getElem hlt]
  have hargs : variants.map (fun v => v.2.getD (a v.1) gap)
      = (variants.map (·.1)).map (fun j => (lookVariant variants j).2.getD (a j) gap) := by
    rw [List.map_map]
    apply List.map_congr_left
    intro v hv
    simp [lookVariant_of_mem hnd hv]
  simp only [hvc]
  rw [hargs]
  exact fillTemplate_on_template hs ht _

/-- a locus as `assemble` holds it: strictly increasing in-range offsets, duplicate-free allele tuples -/
structure ValidLocus (seq : Seq) (variants : List Variant) : Prop where
  sorted : (variants.map (·.1)).Pairwise (· < ·)
  bounded : ∀ v ∈ variants, v.1 < seq.length
  nodup : ∀ v ∈ variants, v.2.Nodup

/-- an index vector with one valid allele number per SNV -/
def ValidRow (variants : List Variant) (row : List ℤ) : Prop :=
  List.Forall₂ (fun (a : ℤ) (v : Variant) => 0 ≤ a ∧ a < v.2.length) row variants

theorem ValidRow.spec {variants : List Variant} (hnd : (variants.map (·.1)).Nodup) {row : List ℤ}
    (h : ValidRow variants row) :
    row = variants.map (fun v => ((rowFun variants row v.1 : ℕ) : ℤ)) ∧
      ∀ v ∈ variants, rowFun variants row v.1 < v.2.length := by
  obtain ⟨hlen, hget⟩ := List.forall₂_iff_get.mp h
  have hnn : ∀ x ∈ row, 0 ≤ x := by
    intro x hx
    obtain ⟨i, hi, rfl⟩ := List.getElem_of_mem hx
    exact (hget i hi (hlen ▸ hi)).1
  have hrow := row_eq_map hnd hlen hnn
  refine ⟨hrow, ?_⟩
  intro v hv
  obtain ⟨i, hi, rfl⟩ := List.getElem_of_mem hv
  have h1 : i < row.length := hlen ▸ hi
  have hidx : (variants.map (·.1)).idxOf (variants[i]).1 = i := by
    have := hnd.idxOf_getElem i (by simpa using hi)
    simpa using this
  have hg := hget i h1 hi
  simp only [List.get_eq_getElem] at hg
  have : row.getD i 0 = row[i] := by
    simp [List.getD_eq_getElem?_getD, List.getElem?_eq_getElem h1]
  simp only [rowFun, hidx, this]
  omega

/-- the string `format_haplotypes` renders for `row` -/
def formatted (seq : Seq) (variants : List Variant) (gap : Char) (row : List ℤ) : Seq :=
  (List.range seq.length).map (fun i =>
    if i ∈ variants.map (·.1) then (lookVariant variants i).2.getD (rowFun variants row i) gap
    else charAt seq i)

theorem templateSequence_isSome {seq : Seq} {variants : List Variant}
    (hb : ∀ v ∈ variants, v.1 < seq.length) :
    ∃ t, templateSequence seq (variants.map (·.1)) = some t := by
  unfold templateSequence
  have : ((variants.map (·.1)).all (· < seq.length)) = true := by
    simp only [List.all_eq_true, decide_eq_true_eq, List.mem_map]
    rintro j ⟨v, hv, rfl⟩
    exact hb v hv
  simp [this]

theorem formatHaplotypes_eq (seq : Seq) (variants : List Variant) (rows : List (List ℤ)) (gap : Char)
    (hL : ValidLocus seq variants) (hr : ∀ row ∈ rows, ValidRow variants row) :
    formatHaplotypes seq variants rows gap = some (rows.map (formatted seq variants gap)) := by
  obtain ⟨t, ht⟩ := templateSequence_isSome hL.bounded
  have hnd : (variants.map (·.1)).Nodup := hL.sorted.imp (fun h => Nat.ne_of_lt h)
  unfold formatHaplotypes
  simp only [ht]
  apply optAll_map_some
  intro row hrow
  obtain ⟨hrow_eq, ha⟩ := (hr row hrow).spec hnd
  have := format_row seq variants gap t hL.sorted ht (rowFun variants row) ha
  rw [← hrow_eq] at this
  exact this

theorem formatted_length (seq : Seq) (variants : List Variant) (gap : Char) (row : List ℤ) :
    (formatted seq variants gap row).length = seq.length := by
  simp [formatted]

/-- the character rendered at the offset of a variant -/
theorem charAt_formatted_variant {seq : Seq} {variants : List Variant} (gap : Char) {row : List ℤ}
    (hL : ValidLocus seq variants) (hr : ValidRow variants row) {v : Variant} (hv : v ∈ variants) :
    ∃ h : rowFun variants row v.1 < v.2.length,
      charAt (formatted seq variants gap row) v.1 = v.2[rowFun variants row v.1] := by
  have hnd : (variants.map (·.1)).Nodup := hL.sorted.imp (fun h => Nat.ne_of_lt h)
  have hlt := (hr.spec hnd).2 v hv
  refine ⟨hlt, ?_⟩
  unfold formatted
  rw [charAt_map_range _ (hL.bounded v hv)]
  have hm : v.1 ∈ variants.map (·.1) := List.mem_map.mpr ⟨v, hv, rfl⟩
  simp [hm, lookVariant_of_mem hnd hv, List.getD_eq_getElem?_getD, List.getElem?_eq_getElem hlt]

theorem charAt_formatted_other {seq : Seq} {variants : List Variant} (gap : Char) (row : List ℤ)
    {i : ℕ} (hi : i < seq.length) (hn : i ∉ variants.map (·.1)) :
    charAt (formatted seq variants gap row) i = charAt seq i := by
  unfold formatted
  rw [charAt_map_range _ hi]
  simp [hn]

end MCHap
