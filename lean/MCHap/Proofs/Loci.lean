import MCHap.Model.Loci
import Mathlib.Data.List.Basic
import Mathlib.Data.List.Nodup
import Mathlib.Data.List.Range
import Mathlib.Tactic

/-! Helper lemmas for C12 (round trip of `encode_haplotypes` / `format_haplotypes`). -/
namespace MCHap

/-! ### first-appearance numbering -/

theorem mem_firstAppearance {x : Char} : ∀ {l : List Char}, x ∈ firstAppearance l ↔ x ∈ l
  | [] => by simp [firstAppearance]
  | c :: cs => by
    have ih := @mem_firstAppearance x cs
    by_cases hx : x = c
    · subst hx; simp [firstAppearance]
    · simp [firstAppearance, List.mem_filter, ih, hx]

theorem nodup_firstAppearance : ∀ (l : List Char), (firstAppearance l).Nodup
  | [] => by simp [firstAppearance]
  | c :: cs => by
    have ih := nodup_firstAppearance cs
    simp only [firstAppearance, List.nodup_cons]
    refine ⟨?_, ih.filter _⟩
    simp [List.mem_filter]

theorem firstAppearance_head (c : Char) (cs : List Char) :
    (firstAppearance (c :: cs)).head? = some c := rfl

/-! ### allele index ↔ allele character -/

theorem alleleIndex_of_mem {als : List Char} {c : Char} (h : c ∈ als) :
    alleleIndex als c = ((als.idxOf c : ℕ) : ℤ) := by
  simp [alleleIndex, h]

theorem alleleIndex_nonneg_lt {als : List Char} {c : Char} (h : c ∈ als) :
    0 ≤ alleleIndex als c ∧ alleleIndex als c < als.length := by
  rw [alleleIndex_of_mem h]
  exact ⟨Int.natCast_nonneg _, by exact_mod_cast List.idxOf_lt_length_of_mem h⟩

theorem alleleChar_alleleIndex (gap : Char) {als : List Char} {c : Char} (h : c ∈ als) :
    alleleChar gap als (alleleIndex als c) = some c := by
  rw [alleleIndex_of_mem h]
  unfold alleleChar
  have : ¬ (((als.idxOf c : ℕ) : ℤ) < 0) := by omega
  simp only [this, if_false, Int.toNat_natCast]
  exact List.getElem?_idxOf h

theorem alleleIndex_head (c : Char) (cs : List Char) : alleleIndex (c :: cs) c = 0 := by
  simp [alleleIndex]

/-- for a duplicate-free allele tuple the index of the `a`-th character is `a` -/
theorem alleleIndex_getElem {als : List Char} (hn : als.Nodup) {a : ℕ} (ha : a < als.length) :
    alleleIndex als als[a] = (a : ℤ) := by
  have hm : als[a] ∈ als := List.getElem_mem ha
  rw [alleleIndex_of_mem hm]
  congr 1
  exact hn.idxOf_getElem a ha

/-! ### `variantChars`, `optAll`, `fillTemplate` on mapped lists -/

theorem variantChars_map {β} (gap : Char) (l : List β) (als : β → List Char) (ix : β → ℤ)
    (ch : β → Char) (h : ∀ b ∈ l, alleleChar gap (als b) (ix b) = some (ch b)) :
    variantChars gap (l.map als) (l.map ix) = some (l.map ch) := by
  induction l with
  | nil => simp [variantChars]
  | cons b l ih =>
    have hb := h b (by simp)
    have ih' := ih (fun b' hb' => h b' (by simp [hb']))
    simp only [List.map_cons, variantChars, hb, ih']

theorem optAll_map_some {α β} (l : List α) (f : α → Option β) (g : α → β)
    (h : ∀ x ∈ l, f x = some (g x)) : optAll (l.map f) = some (l.map g) := by
  induction l with
  | nil => simp [optAll]
  | cons a l ih =>
    have ha := h a (by simp)
    have ih' := ih (fun x hx => h x (by simp [hx]))
    simp [optAll, ha, ih']

/-- filling the template built over the index list `idx` (placeholder where `p`) with the arguments
    `f` of the placeholder positions gives `f` at placeholders and the literal elsewhere -/
theorem fillTemplate_map (idx : List ℕ) (p : ℕ → Bool) (r f : ℕ → Char) :
    fillTemplate (idx.map (fun i => if p i then none else some (r i))) ((idx.filter p).map f)
      = some (idx.map (fun i => if p i then f i else r i)) := by
  induction idx with
  | nil => simp [fillTemplate]
  | cons i idx ih =>
    by_cases hp : p i = true
    · simp [hp, fillTemplate, ih]
    · have hp' : p i = false := by simpa using hp
      simp [hp', fillTemplate, ih]

theorem map_charAt_range (s : Seq) : (List.range s.length).map (charAt s) = s := by
  apply List.ext_getElem
  · simp
  · intro i h1 h2
    simp [charAt, List.getD_eq_getElem?_getD, List.getElem?_eq_getElem (by simpa using h2 : i < s.length)]

/-! ### SNV columns -/

theorem colDiffers_eq_true {ref : Seq} {alts : List Seq} {j : ℕ} :
    colDiffers ref alts j = true ↔ ∃ s ∈ alts, charAt s j ≠ charAt ref j := by
  simp [colDiffers, List.any_eq_true]

theorem colDiffers_eq_false {ref : Seq} {alts : List Seq} {j : ℕ} :
    colDiffers ref alts j = false ↔ ∀ s ∈ alts, charAt s j = charAt ref j := by
  rw [← Bool.not_eq_true, colDiffers_eq_true]
  push Not
  rfl

theorem mem_snvColumns {ref : Seq} {alts : List Seq} {j : ℕ} :
    j ∈ snvColumns ref alts ↔ j < ref.length ∧ ∃ s ∈ alts, charAt s j ≠ charAt ref j := by
  simp [snvColumns, List.mem_filter, colDiffers_eq_true]

theorem snvColumns_sorted (ref : Seq) (alts : List Seq) :
    (snvColumns ref alts).Pairwise (· < ·) :=
  List.Pairwise.filter _ List.pairwise_lt_range

theorem deriveVariants_offsets (ref : Seq) (alts : List Seq) :
    (deriveVariants ref alts).map (·.1) = snvColumns ref alts := by
  simp [deriveVariants, List.map_map, Function.comp_def]

theorem charAt_mem_alleles {ref : Seq} {alts : List Seq} {s : Seq} (hs : s ∈ ref :: alts) (j : ℕ) :
    charAt s j ∈ firstAppearanceAlleles ref alts j := by
  unfold firstAppearanceAlleles
  rw [mem_firstAppearance]
  unfold column
  exact List.mem_map.mpr ⟨s, hs, rfl⟩

/-- a strictly increasing list of indices below `n` is the filter of `range n` by membership -/
theorem filter_range_mem_eq {offs : List ℕ} {n : ℕ} (hs : offs.Pairwise (· < ·))
    (hb : ∀ j ∈ offs, j < n) : (List.range n).filter (fun i => decide (i ∈ offs)) = offs := by
  apply List.Pairwise.eq_of_mem_iff (r := (· < ·))
  · exact List.Pairwise.filter _ List.pairwise_lt_range
  · exact hs
  · intro a
    simp only [List.mem_filter, List.mem_range, decide_eq_true_eq]
    exact ⟨fun h => h.2, fun h => ⟨hb a h, h⟩⟩

end MCHap
