import MCHap.Model.Loci
import Mathlib.Algebra.Order.Field.Rat
import Mathlib.Data.List.Basic
import Mathlib.Data.List.Forall2
import Mathlib.Data.List.Range
import Mathlib.Tactic

/-! Helper lemmas for C16: inversion of the `Except` pipelines of `locusPrior`, sums, `select`. -/
namespace MCHap

/-! ### sums and normalisation -/

theorem sumRat_cons (x : ℚ) (l : List ℚ) : sumRat (x :: l) = x + sumRat l := rfl

theorem sumRat_map_div (l : List ℚ) (c : ℚ) : sumRat (l.map (· / c)) = sumRat l / c := by
  induction l with
  | nil => simp [sumRat]
  | cons x l ih => simp only [List.map_cons, sumRat_cons, ih, add_div]

theorem sumRat_pos_exists : ∀ {l : List ℚ}, 0 < sumRat l → ∃ x ∈ l, 0 < x
  | [], h => by simp [sumRat] at h
  | x :: l, h => by
    rw [sumRat_cons] at h
    by_cases hx : 0 < x
    · exact ⟨x, by simp, hx⟩
    · have : 0 < sumRat l := by linarith
      obtain ⟨y, hy, hy0⟩ := sumRat_pos_exists this
      exact ⟨y, by simp [hy], hy0⟩

theorem sumRat_nonneg : ∀ {l : List ℚ}, (∀ x ∈ l, 0 ≤ x) → 0 ≤ sumRat l
  | [], _ => by simp [sumRat]
  | x :: l, h => by
    rw [sumRat_cons]
    have h1 := h x (by simp)
    have h2 := sumRat_nonneg (l := l) (fun y hy => h y (by simp [hy]))
    linarith

theorem sumRat_pos_of_nonneg : ∀ {l : List ℚ}, (∀ x ∈ l, 0 ≤ x) → (∃ x ∈ l, 0 < x) → 0 < sumRat l
  | [], _, ⟨x, hx, _⟩ => by simp at hx
  | y :: l, h, ⟨x, hx, hx0⟩ => by
    rw [sumRat_cons]
    have h1 := h y (by simp)
    have h2 := sumRat_nonneg (l := l) (fun z hz => h z (by simp [hz]))
    rcases List.mem_cons.mp hx with rfl | hx'
    · linarith
    · have := sumRat_pos_of_nonneg (l := l) (fun z hz => h z (by simp [hz])) ⟨x, hx', hx0⟩
      linarith

theorem sumRat_zero_of_all_zero : ∀ {l : List ℚ}, (∀ x ∈ l, x = 0) → sumRat l = 0
  | [], _ => rfl
  | x :: l, h => by
    rw [sumRat_cons, h x (by simp), sumRat_zero_of_all_zero (l := l) (fun y hy => h y (by simp [hy]))]
    simp

theorem normalise_some {raw fs : List ℚ} (h : normaliseFreqs raw = some fs) :
    0 < sumRat raw ∧ fs = raw.map (· / sumRat raw) ∧ sumRat fs = 1 := by
  unfold normaliseFreqs at h
  split at h
  · rename_i hpos
    have hfs := (Option.some.inj h).symm
    refine ⟨hpos, hfs, ?_⟩
    rw [hfs, sumRat_map_div, div_self (ne_of_gt hpos)]
  · exact absurd h (by simp)

theorem normalise_eq_none {raw : List ℚ} : normaliseFreqs raw = none ↔ sumRat raw ≤ 0 := by
  unfold normaliseFreqs
  split
  · rename_i h; simp only [reduceCtorEq, false_iff, not_le]; exact h
  · rename_i h; simp only [true_iff]; exact not_lt.mp h

/-! ### `select` -/

theorem select_cons_true {α} (x : α) (xs : List α) (ks : List Bool) :
    select (x :: xs) (true :: ks) = x :: select xs ks := by simp [select]

theorem select_cons_false {α} (x : α) (xs : List α) (ks : List Bool) :
    select (x :: xs) (false :: ks) = select xs ks := by simp [select]

theorem mem_select {α} {a : α} : ∀ {xs : List α} {keep : List Bool},
    a ∈ select xs keep ↔ ∃ i : ℕ, xs[i]? = some a ∧ keep[i]? = some true
  | [], keep => by simp [select]
  | x :: xs, [] => by simp [select]
  | x :: xs, k :: ks => by
    have ih := @mem_select α a xs ks
    cases k
    · rw [select_cons_false, ih]
      constructor
      · rintro ⟨i, h1, h2⟩; exact ⟨i + 1, by simpa using h1, by simpa using h2⟩
      · rintro ⟨i, h1, h2⟩
        cases i with
        | zero => simp at h2
        | succ i => exact ⟨i, by simpa using h1, by simpa using h2⟩
    · rw [select_cons_true, List.mem_cons, ih]
      constructor
      · rintro (rfl | ⟨i, h1, h2⟩)
        · exact ⟨0, by simp, by simp⟩
        · exact ⟨i + 1, by simpa using h1, by simpa using h2⟩
      · rintro ⟨i, h1, h2⟩
        cases i with
        | zero => left; simpa using h1.symm
        | succ i => right; exact ⟨i, by simpa using h1, by simpa using h2⟩

/-! ### comparison of all observations -/

theorem cmpAll_forall₂ {op : Cmp} {v : ℚ} : ∀ {obs : List (Option ℚ)} {bs : List Bool},
    cmpAll op v obs = .ok bs → List.Forall₂ (fun x b => cmpObs op v x = .ok b) obs bs
  | [], bs, h => by
    simp only [cmpAll, Except.ok.injEq] at h
    subst h; exact List.Forall₂.nil
  | x :: xs, bs, h => by
    simp only [cmpAll] at h
    split at h
    · rename_i b bs' h1 h2
      simp only [Except.ok.injEq] at h
      subst h
      exact List.Forall₂.cons h1 (cmpAll_forall₂ h2)
    · exact absurd h (by simp)
    · exact absurd h (by simp)

theorem applyAlleleFilter_inv {r : RecordM} {field : String} {op : Cmp} {v : ℚ} {keep : List Bool}
    (h : applyAlleleFilter r field op v = .ok keep) :
    ∃ f, findField r field = some f ∧
      (((f.values = none ∨ (f.number = .A ∧ r.nAlts = 0)) ∧ (f.number = .R ∨ f.number = .A) ∧
          keep = List.replicate (1 + r.nAlts) true) ∨
       (∃ obs, f.values = some obs ∧ f.number = .R ∧ obs.length = 1 + r.nAlts ∧ cmpAll op v obs = .ok keep) ∨
       (∃ obs bs, f.values = some obs ∧ f.number = .A ∧ obs.length = r.nAlts ∧ cmpAll op v obs = .ok bs ∧
          keep = true :: bs)) := by
  unfold applyAlleleFilter at h
  split at h
  · exact absurd h (by simp)
  · rename_i f hf
    refine ⟨f, hf, ?_⟩
    split at h
    · rename_i hnum
      split at h
      · rename_i hv
        simp only [Except.ok.injEq] at h
        exact Or.inl ⟨Or.inl hv, Or.inl hnum, h.symm⟩
      · rename_i obs hv
        split at h
        · rename_i hlen
          exact Or.inr (Or.inl ⟨obs, hv, hnum, hlen, h⟩)
        · exact absurd h (by simp)
    · rename_i hnum
      split at h
      · rename_i hv
        simp only [Except.ok.injEq] at h
        exact Or.inl ⟨Or.inl hv, Or.inr hnum, h.symm⟩
      · rename_i obs hv
        split at h
        · rename_i h0
          simp only [Except.ok.injEq] at h
          exact Or.inl ⟨Or.inr ⟨hnum, h0⟩, Or.inr hnum, h.symm⟩
        split at h
        · rename_i hlen
          split at h
          · rename_i bs hbs
            simp only [Except.ok.injEq] at h
            exact Or.inr (Or.inr ⟨obs, bs, hv, hnum, hlen, hbs, h.symm⟩)
          · exact absurd h (by simp)
        · exact absurd h (by simp)
    · exact absurd h (by simp)

theorem applyAlleleFilter_length {r : RecordM} {field : String} {op : Cmp} {v : ℚ} {keep : List Bool}
    (h : applyAlleleFilter r field op v = .ok keep) : keep.length = r.nAlts + 1 := by
  obtain ⟨f, _, h1 | ⟨obs, _, _, hlen, hc⟩ | ⟨obs, bs, _, _, hlen, hc, rfl⟩⟩ := applyAlleleFilter_inv h
  · rw [h1.2.2]; simp [Nat.add_comm]
  · rw [← (cmpAll_forall₂ hc).length_eq, hlen, Nat.add_comm]
  · rw [List.length_cons, ← (cmpAll_forall₂ hc).length_eq, hlen]

/-! ### inversion of the pipeline -/

theorem filterKeep_inv {r : RecordM} {filter : Option String} {keep : List Bool} {m : Bool}
    (h : filterKeep r filter = .ok (keep, m)) :
    keep.length = r.nAlts + 1 ∧ keep.head? = some true ∧
    (filter = none → keep = List.replicate (r.nAlts + 1) true ∧ m = r.refMasked) ∧
    (∀ fs, filter = some fs → ∃ f keep0, parseAlleleFilter fs = .ok f ∧
        applyAlleleFilter r f.field f.op f.value = .ok keep0 ∧
        keep = true :: keep0.tail ∧ m = (r.refMasked || !keep0.headD true)) := by
  unfold filterKeep at h
  split at h
  · simp only [Except.ok.injEq, Prod.mk.injEq] at h
    obtain ⟨rfl, rfl⟩ := h
    refine ⟨by simp, by simp [List.replicate_succ], fun _ => ⟨rfl, rfl⟩, fun fs hfs => by simp at hfs⟩
  · rename_i fs
    split at h
    · exact absurd h (by simp)
    · rename_i f hp
      split at h
      · exact absurd h (by simp)
      · rename_i keep0 ha
        have hlen := applyAlleleFilter_length ha
        obtain ⟨b, t, rfl⟩ : ∃ b t, keep0 = b :: t := by
          cases keep0 with
          | nil => simp at hlen
          | cons b t => exact ⟨b, t, rfl⟩
        split at h
        · rename_i hb
          simp only [List.headD_cons] at hb
          simp only [Except.ok.injEq, Prod.mk.injEq] at h
          obtain ⟨rfl, rfl⟩ := h
          subst hb
          refine ⟨hlen, by simp, fun hn => by simp at hn, ?_⟩
          intro fs' hfs'
          simp only [Option.some.injEq] at hfs'
          subst hfs'
          exact ⟨f, _, hp, ha, by simp, by simp⟩
        · rename_i hb
          simp only [List.headD_cons, Bool.not_eq_true] at hb
          simp only [Except.ok.injEq, Prod.mk.injEq, List.tail_cons] at h
          obtain ⟨rfl, rfl⟩ := h
          subst hb
          refine ⟨by simpa using hlen, by simp, fun hn => by simp at hn, ?_⟩
          intro fs' hfs'
          simp only [Option.some.injEq] at hfs'
          subst hfs'
          exact ⟨f, _, hp, ha, by simp, by simp⟩

theorem frequencyArray_inv {r : RecordM} {tag : Option String} {vals : List (Option ℚ)}
    (h : frequencyArray r tag = .ok vals) :
    vals.length = r.nAlts + 1 ∧
    ((tag = none ∨ tag = some "") → vals = List.replicate (r.nAlts + 1) (some (1 / ((r.nAlts + 1 : ℕ) : ℚ)))) ∧
    (∀ t, tag = some t → t ≠ "" → ∃ f, findField r t = some f ∧ f.values = some vals) := by
  unfold frequencyArray at h
  dsimp only at h
  split at h
  · simp only [Except.ok.injEq] at h
    subst h
    exact ⟨by simp, fun _ => rfl, fun t ht => by simp at ht⟩
  · rename_i t
    split at h
    · rename_i ht
      have ht' : t = "" := by simpa using ht
      simp only [Except.ok.injEq] at h
      subst h
      exact ⟨by simp, fun _ => rfl, fun t' h1 h2 => by simp only [Option.some.injEq] at h1; exact absurd (h1 ▸ ht') h2⟩
    · rename_i ht
      have ht' : t ≠ "" := by simpa using ht
      split at h
      · exact absurd h (by simp)
      · rename_i f hf
        split at h
        · exact absurd h (by simp)
        · rename_i vs hvs
          split at h
          · exact absurd h (by simp)
          · split at h
            · exact absurd h (by simp)
            · rename_i hlen
              simp only [Except.ok.injEq] at h
              subst h
              refine ⟨by simpa using hlen, ?_, ?_⟩
              · rintro (h1 | h1)
                · simp at h1
                · simp only [Option.some.injEq] at h1; exact absurd h1 ht'
              · intro t' h1 _
                simp only [Option.some.injEq] at h1
                subst h1
                exact ⟨f, hf, hvs⟩

theorem finishPrior_spec (keep : List Bool) (m : Bool) (vals : List (Option ℚ)) :
    (finishPrior keep m vals).keep = keep ∧ (finishPrior keep m vals).maskRef = m ∧
    (finishPrior keep m vals).nanRaw = (select (maskedVals m vals) keep).any Option.isNone ∧
    (finishPrior keep m vals).raw = (select (maskedVals m vals) keep).map (fun x => x.getD 0) ∧
    (finishPrior keep m vals).freqs
      = if (finishPrior keep m vals).nanRaw then none else normaliseFreqs (finishPrior keep m vals).raw :=
  ⟨rfl, rfl, rfl, rfl, rfl⟩

theorem locusPrior_inv {r : RecordM} {tag filter : Option String} {P : LocusPriorM}
    (h : locusPrior r tag filter = .ok P) :
    ∃ keep m vals, filterKeep r filter = .ok (keep, m) ∧ frequencyArray r tag = .ok vals ∧
      P = finishPrior keep m vals := by
  unfold locusPrior at h
  split at h
  · exact absurd h (by simp)
  · rename_i keep m hk
    split at h
    · exact absurd h (by simp)
    · rename_i vals hf
      simp only [Except.ok.injEq] at h
      exact ⟨keep, m, vals, hk, hf, h.symm⟩

/-! ### labels -/

theorem mem_callLabels {P : LocusPriorM} {a : ℕ} :
    a ∈ callLabels P ↔ a < P.raw.length ∧ maskAt P a = false := by
  simp [callLabels, List.mem_filter]

theorem optAll_eq_some {α} : ∀ {l : List (Option α)} {l' : List α}, optAll l = some l' → l = l'.map some
  | [], l', h => by simp only [optAll, Option.some.injEq] at h; subst h; rfl
  | none :: t, l', h => by simp [optAll] at h
  | some a :: t, l', h => by
    simp only [optAll, Option.map_eq_some_iff] at h
    obtain ⟨t', ht, rfl⟩ := h
    rw [optAll_eq_some ht]; rfl

theorem relabel_mem {labels g g' : List ℕ} (h : relabel labels g = some g') :
    ∀ a ∈ g', a ∈ labels := by
  unfold relabel at h
  have := optAll_eq_some h
  intro a ha
  have hm : some a ∈ g'.map some := List.mem_map.mpr ⟨a, ha, rfl⟩
  rw [← this] at hm
  obtain ⟨x, _, hx⟩ := List.mem_map.mp hm
  exact List.mem_of_getElem? hx

theorem le_foldl_max : ∀ {l : List ℕ} {init x : ℕ}, x ∈ l → x ≤ l.foldl max init
  | y :: l, init, x, h => by
    simp only [List.foldl_cons]
    rcases List.mem_cons.mp h with rfl | h'
    · exact le_trans (le_max_right _ _) (init_le_foldl_max _ _)
    · exact le_foldl_max h'
where
  init_le_foldl_max : ∀ (l : List ℕ) (init : ℕ), init ≤ l.foldl max init
    | [], init => le_refl _
    | y :: l, init => by
      simp only [List.foldl_cons]
      exact le_trans (le_max_left _ _) (init_le_foldl_max l _)

theorem foldl_max_mem : ∀ {l : List ℕ} {init : ℕ}, l.foldl max init = init ∨ l.foldl max init ∈ l
  | [], init => Or.inl rfl
  | y :: l, init => by
    simp only [List.foldl_cons]
    rcases foldl_max_mem (l := l) (init := max init y) with h | h
    · rw [h]
      rcases max_choice init y with h' | h'
      · left; exact h'
      · right; rw [h']; simp
    · right; exact List.mem_cons_of_mem _ h

end MCHap
