import MCHap.Proofs.PedigreeComplete

/-! Bridge between the code-structure model `trioPmfWith` and the specification `trioPmf`. -/
namespace MCHap

theorem sum_filter_ite {α : Type} (L : List α) (p : α → Bool) (f : α → ℚ) :
    ((L.filter p).map f).sum = (L.map (fun x => if p x then f x else 0)).sum := by
  induction L with
  | nil => simp
  | cons x L ih =>
    by_cases h : p x
    · simp [h, ih]
    · simp [h, ih]

/-! ### multinomial convolution -/

theorem pw_split (f : ℚ) (a d : ℕ) (h : a ≤ d) :
    pw f a * pw f (d - a) = pw f d * (Nat.choose d a : ℚ) := by
  unfold pw
  rw [factorial_eq, factorial_eq, factorial_eq]
  have hc := Nat.choose_mul_factorial_mul_factorial h
  have hc' : (Nat.choose d a : ℚ) * (a.factorial : ℚ) * ((d - a).factorial : ℚ) = (d.factorial : ℚ) := by
    exact_mod_cast hc
  have h1 : (0 : ℚ) < (a.factorial : ℚ) := by exact_mod_cast Nat.factorial_pos a
  have h2 : (0 : ℚ) < ((d - a).factorial : ℚ) := by exact_mod_cast Nat.factorial_pos _
  have h3 : (0 : ℚ) < (d.factorial : ℚ) := by exact_mod_cast Nat.factorial_pos d
  have hp : f ^ d = f ^ a * f ^ (d - a) := by rw [← pow_add]; congr 1; omega
  rw [hp]
  field_simp
  linear_combination (-(f ^ a * f ^ (d - a))) * hc'

theorem pw_prod_split : ∀ {a d : List ℕ}, List.Forall₂ (· ≤ ·) a d → ∀ (fs : List ℚ), d.length ≤ fs.length →
    ((fs.zip a).map (fun fc => pw fc.1 fc.2)).prod * ((fs.zip (vsub d a)).map (fun fc => pw fc.1 fc.2)).prod
      = ((fs.zip d).map (fun fc => pw fc.1 fc.2)).prod * ((d.zip a).map (fun ac => chq ac.1 ac.2)).prod := by
  intro a d h
  induction h with
  | nil => intro fs _; simp [vsub]
  | @cons a0 d0 a' d' h0 _ ih =>
    intro fs hl
    cases fs with
    | nil => simp at hl
    | cons f fs =>
      have := ih fs (by simpa using hl)
      have hs := pw_split f a0 d0 h0
      simp only [vsub] at this ⊢
      simp only [List.zipWith_cons_cons, List.zip_cons_cons, List.map_cons, List.prod_cons, chq]
      simp only [chq] at this
      linear_combination (pw f a0 * pw f (d0 - a0)) * this
        + ((List.map (fun fc : ℚ × ℕ => pw fc.1 fc.2) (fs.zip d')).prod
            * (List.map (fun ac : ℕ × ℕ => (Nat.choose ac.1 ac.2 : ℚ)) (d'.zip a')).prod) * hs

theorem vle_forall₂ (a d : List ℕ) (hl : a.length = d.length) : vle a d = true ↔ List.Forall₂ (· ≤ ·) a d := by
  rw [vle_iff a d hl, forall₂_le_iff a d hl]

/-- `Σ_{a ≤ d, |a| = τ_p} U(a) · U(d − a) = U(d)`: two gametes of unknown origin make a progeny of
    unknown origin (the closed-form "both parents invalid" term of `trio_log_pmf`) -/
theorem multinomial_convolution_aux (fs : List ℚ) (d : List ℕ) (tp tq : ℕ) (hs : d.sum = tp + tq)
    (hl : d.length ≤ fs.length) :
    (((compositions d.length tp).filter (fun a => vle a d)).map
        (fun a => unknownPmf fs a * unknownPmf fs (vsub d a))).sum = unknownPmf fs d := by
  set P := fun v : List ℕ => ((fs.zip v).map (fun fc => pw fc.1 fc.2)).prod with hP
  have hterm : ∀ a ∈ (compositions d.length tp).filter (fun a => vle a d),
      unknownPmf fs a * unknownPmf fs (vsub d a)
        = ((factorial tp : ℚ) * (factorial tq : ℚ) * P d) * (dosagePermutations a d : ℚ) := by
    intro a ha
    obtain ⟨hc, hv⟩ := List.mem_filter.mp ha
    obtain ⟨h1, h2⟩ := (mem_compositions_iff _ _ _).mp hc
    have hle := (vle_forall₂ a d h1).mp hv
    obtain ⟨c1, c2, _⟩ := vsub_spec hle
    unfold unknownPmf
    rw [C05.multinomialCounts_eq, C05.multinomialCounts_eq, h2, show (vsub d a).sum = tq by omega,
      dosagePermutations_eq]
    have := pw_prod_split hle fs hl
    simp only [hP]
    linear_combination ((factorial tp : ℚ) * (factorial tq : ℚ)) * this
  rw [List.map_congr_left hterm, List.sum_map_mul_left, sum_filter_ite]
  have hz : ∀ a ∈ compositions d.length tp,
      (if vle a d then (dosagePermutations a d : ℚ) else 0) = (dosagePermutations a d : ℚ) := by
    intro a hc
    obtain ⟨h1, _⟩ := (mem_compositions_iff _ _ _).mp hc
    by_cases hv : vle a d = true
    · rw [if_pos hv]
    · rw [if_neg hv]
      have : ¬ ∀ i, a.getD i 0 ≤ d.getD i 0 := fun h => hv ((vle_iff a d h1).mpr h)
      rw [not_forall] at this
      obtain ⟨i, hi⟩ := this
      rw [dosagePermutations_eq, chq_prod_zero i d a (by omega) (by omega)]
  rw [List.map_congr_left hz, vandermonde_multi d tp, hs]
  unfold unknownPmf
  rw [C05.multinomialCounts_eq, hs]
  have hf : (tp + tq).choose tp * tp.factorial * tq.factorial = (tp + tq).factorial := by
    have := Nat.choose_mul_factorial_mul_factorial (Nat.le_add_right tp tq)
    rwa [Nat.add_sub_cancel_left] at this
  have hf' : (Nat.choose (tp + tq) tp : ℚ) * (tp.factorial : ℚ) * (tq.factorial : ℚ) = ((tp + tq).factorial : ℚ) := by
    exact_mod_cast hf
  rw [factorial_eq, factorial_eq, factorial_eq]
  simp only [hP]
  linear_combination (List.map (fun fc : ℚ × ℕ => pw fc.1 fc.2) (fs.zip d)).prod * hf'

/-! ### the code's gamete pmf is the specification's; it vanishes outside the constraint -/

theorem exists_pos_of_sum_pos : ∀ (a : List ℕ), 0 < a.sum → ∃ x, 0 < a.getD x 0 := by
  intro a
  induction a with
  | nil => intro h; simp at h
  | cons v a ih =>
    intro h
    by_cases hv : 0 < v
    · exact ⟨0, by simpa using hv⟩
    · simp only [List.sum_cons] at h
      obtain ⟨x, hx⟩ := ih (by omega)
      exact ⟨x + 1, by simpa using hx⟩

theorem drPerms_eq_spec (dp a : List ℕ) (hl : a.length = dp.length) (hs : a.sum = 2) :
    doubleReductionPermutations a dp
      = some (((List.range a.length).map (fun i => if a = twoUnit a.length i then dp.getD i 0 else 0)).sum) := by
  by_cases hex : ∃ x, a.getD x 0 = 2
  · obtain ⟨x, hx⟩ := hex
    have hxl := lt_length_of_getD_pos a x (by omega)
    have he := eq_twoUnit_of_sum_two a x hs hx
    rw [drPerms_two x a dp hl hs hx]
    congr 1
    rw [List.sum_map_eq_nsmul_single x]
    · simp [List.count_range, hxl, ← he]
    · intro i hix _
      rw [if_neg]
      intro hi
      have h1 : a.getD i 0 = 0 := by
        have := two_getD_le_sum a x i (fun e => hix e.symm); omega
      have h2 : a.getD i 0 = (twoUnit a.length i).getD i 0 := by rw [← hi]
      rw [twoUnit_getD] at h2
      have hil : i < a.length := by
        by_contra hc
        have : x < a.length := hxl
        -- a = twoUnit len i with i out of range is the zero vector, but a_x = 2
        have h3 : a.getD x 0 = (twoUnit a.length i).getD x 0 := by rw [← hi]
        rw [twoUnit_getD] at h3
        have : ¬ (x < a.length ∧ x = i) := fun h => hc (h.2 ▸ h.1)
        rw [if_neg this] at h3; omega
      rw [if_pos ⟨hil, rfl⟩] at h2; omega
  · rw [not_exists] at hex
    obtain ⟨x, hx⟩ := exists_pos_of_sum_pos a (by omega)
    have hle := getD_le_sum a x
    have h1 : a.getD x 0 = 1 := by have := hex x; omega
    rw [drPerms_one a dp x hl hs h1]
    congr 1
    symm
    apply List.sum_eq_zero
    intro v hv
    obtain ⟨i, hi, rfl⟩ := List.mem_map.mp hv
    rw [if_neg]
    intro he
    have h2 : a.getD i 0 = (twoUnit a.length i).getD i 0 := by rw [← he]
    rw [twoUnit_getD, if_pos ⟨List.mem_range.mp hi, rfl⟩] at h2
    exact hex i h2

/-- `exp(gamete_log_pmf)` as the code computes it is the specification's gamete pmf -/
theorem gametePmf_eq_spec (dp a : List ℕ) (pp tau : ℕ) (lam : ℚ) (hl : a.length = dp.length)
    (hs : a.sum = tau) (h0 : 0 ≤ lam) (hlam : lam ≠ 0 → tau = 2) :
    gametePmf a tau dp pp lam = gameteSpec dp pp tau lam a := by
  rw [gametePmf_eq]
  unfold gameteSpec
  by_cases hl0 : lam > 0
  · have ht : tau = 2 := hlam (ne_of_gt hl0)
    rw [if_pos hl0, if_pos ht, drPerms_eq_spec dp a hl (by omega)]
    unfold drSpec
    simp only [Option.getD_some]
    ring
  · have : lam = 0 := le_antisymm (not_lt.mp hl0) h0
    subst this
    simp

/-- **support lemma**: a gamete that fits into the progeny but not under the constraint
    (`min(d, parental copies)`, widened for double reduction) has probability zero -/
theorem gameteSpec_zero_outside (d dp a : List ℕ) (pp tau : ℕ) (lam : ℚ)
    (hd : d.length = dp.length) (ha : a.length = dp.length)
    (had : ∀ i, a.getD i 0 ≤ d.getD i 0) (h0 : 0 ≤ lam)
    (hv : ¬ vle a (constraintOf d dp lam) = true) : gameteSpec dp pp tau lam a = 0 := by
  rw [vle_iff a _ (by rw [constraintOf_length d dp lam hd]; omega), not_forall] at hv
  obtain ⟨i, hi⟩ := hv
  have hadi := had i
  have hcons := constraintOf_getD d dp lam hd i
  -- the parent has fewer copies of allele i than the gamete
  have hlt : dp.getD i 0 < a.getD i 0 := by
    rw [hcons] at hi
    split at hi
    · split at hi <;> omega
    · omega
  have hH : hyperPmf dp pp tau a = 0 := by
    unfold hyperPmf
    rw [dosagePermutations_eq, chq_prod_zero i dp a (by omega) hlt]; simp
  unfold gameteSpec
  rw [hH, mul_zero, zero_add]
  by_cases ht : tau = 2
  · rw [if_pos ht]
    by_cases hl0 : lam > 0
    · have hD : drSpec dp pp a = 0 := by
        unfold drSpec
        have : ((List.range a.length).map (fun j => if a = twoUnit a.length j then dp.getD j 0 else 0)).sum = 0 := by
          apply List.sum_eq_zero
          intro v hv
          obtain ⟨j, hj, rfl⟩ := List.mem_map.mp hv
          by_cases he : a = twoUnit a.length j
          · rw [if_pos he]
            have hai : a.getD i 0 = (twoUnit a.length j).getD i 0 := by rw [← he]
            rw [twoUnit_getD] at hai
            have hij : i = j := by
              by_contra hne
              rw [if_neg (fun h => hne h.2)] at hai; omega
            subst hij
            rw [if_pos ⟨List.mem_range.mp hj, rfl⟩] at hai
            -- a_i = 2, d_i ≥ 2; with one parental copy the constraint is widened to 2
            rw [hcons, if_pos hl0] at hi
            by_contra hne
            have hd1 : dp.getD i 0 = 1 := by omega
            have hmin : min (d.getD i 0) (dp.getD i 0) = 1 := by omega
            rw [if_pos ⟨by omega, hmin⟩] at hi
            omega
          · rw [if_neg he]
        rw [this]; simp
      rw [hD, mul_zero]
    · have : lam = 0 := le_antisymm (not_lt.mp hl0) h0
      rw [this, zero_mul]
  · rw [if_neg ht]

/-! ### the sum over gamete pairs, indexed by one of the two gametes -/

theorem vadd_comm : ∀ (a b : List ℕ), vadd a b = vadd b a := by
  intro a
  induction a with
  | nil => intro b; cases b <;> simp [vadd]
  | cons x a ih =>
    intro b
    cases b with
    | nil => simp [vadd]
    | cons y b =>
      have := ih b
      simp only [vadd] at this ⊢
      simp [this, Nat.add_comm]

theorem vadd_getD' (a b : List ℕ) (h : a.length = b.length) (i : ℕ) :
    (vadd a b).getD i 0 = a.getD i 0 + b.getD i 0 := getD_zipWith (· + ·) rfl a b h i

theorem vsub_getD' (a b : List ℕ) (h : a.length = b.length) (i : ℕ) :
    (vsub a b).getD i 0 = a.getD i 0 - b.getD i 0 := getD_zipWith (· - ·) rfl a b h i

theorem inner_collapse (n t : ℕ) (x d : List ℕ) (hx : x.length = n) (hd : d.length = n)
    (hs : d.sum = x.sum + t) (H : List ℕ → ℚ) :
    ((compositions n t).map (fun y => if vadd x y = d then H y else 0)).sum
      = if vle x d = true then H (vsub d x) else 0 := by
  by_cases hv : vle x d = true
  · rw [if_pos hv]
    have hle := (vle_forall₂ x d (by omega)).mp hv
    obtain ⟨c1, c2, c3⟩ := vsub_spec hle
    have hcm : vsub d x ∈ compositions n t := (mem_compositions_iff _ _ _).mpr ⟨by omega, by omega⟩
    have e : ∀ y ∈ compositions n t,
        (if vadd x y = d then H y else 0) = (if y = vsub d x then H (vsub d x) else 0) := by
      intro y hy
      obtain ⟨hy1, _⟩ := (mem_compositions_iff _ _ _).mp hy
      by_cases h : vadd x y = d
      · have : y = vsub d x := by
          apply list_ext_getD _ _ (by omega)
          intro i
          rw [vsub_getD' d x (by omega) i, ← h, vadd_getD' x y (by omega) i]; omega
        rw [if_pos h, if_pos this, this]
      · rw [if_neg h, if_neg]
        intro hy'
        apply h
        rw [hy']
        apply list_ext_getD _ _ (by rw [vadd_length x _ (by omega)]; omega)
        intro i
        rw [vadd_getD' x _ (by omega) i]; have := c3 i; omega
    rw [List.map_congr_left e, sum_indicator _ (compositions_nodup _ _), if_pos hcm]
  · rw [if_neg hv]
    apply List.sum_eq_zero
    intro v hvm
    obtain ⟨y, hy, rfl⟩ := List.mem_map.mp hvm
    obtain ⟨hy1, _⟩ := (mem_compositions_iff _ _ _).mp hy
    rw [if_neg]
    intro h
    apply hv
    rw [vle_iff x d (by omega)]
    intro i
    rw [← h, vadd_getD' x y (by omega) i]; omega

theorem sum_pairs (n tp tq : ℕ) (G : List ℕ → List ℕ → ℚ) :
    ((gametePairs n tp tq).map (fun ab => G ab.1 ab.2)).sum
      = ((compositions n tp).map (fun a => ((compositions n tq).map (fun b => G a b)).sum)).sum := by
  unfold gametePairs
  rw [sum_map_flatMap]
  simp only [List.map_map]
  rfl

/-- pair sum indexed by the first gamete -/
theorem pair_sum_first (n tp tq : ℕ) (d : List ℕ) (hd : d.length = n) (hs : d.sum = tp + tq)
    (F : List ℕ → List ℕ → ℚ) :
    (((gametePairs n tp tq).filter (fun ab => decide (vadd ab.1 ab.2 = d))).map (fun ab => F ab.1 ab.2)).sum
      = (((compositions n tp).filter (fun a => vle a d)).map (fun a => F a (vsub d a))).sum := by
  rw [sum_filter_ite, sum_filter_ite]
  simp only [decide_eq_true_eq]
  refine (sum_pairs n tp tq (fun a b => if vadd a b = d then F a b else 0)).trans ?_
  apply congrArg
  apply List.map_congr_left
  intro a ha
  obtain ⟨h1, h2⟩ := (mem_compositions_iff _ _ _).mp ha
  exact inner_collapse n tq a d h1 hd (by omega) (F a)

/-- pair sum indexed by the second gamete -/
theorem pair_sum_second (n tp tq : ℕ) (d : List ℕ) (hd : d.length = n) (hs : d.sum = tp + tq)
    (F : List ℕ → List ℕ → ℚ) :
    (((gametePairs n tp tq).filter (fun ab => decide (vadd ab.1 ab.2 = d))).map (fun ab => F ab.1 ab.2)).sum
      = (((compositions n tq).filter (fun b => vle b d)).map (fun b => F (vsub d b) b)).sum := by
  rw [sum_filter_ite, sum_filter_ite]
  simp only [decide_eq_true_eq]
  refine (sum_pairs n tp tq (fun a b => if vadd a b = d then F a b else 0)).trans ?_
  rw [sum_map_sum_comm]
  apply congrArg
  apply List.map_congr_left
  intro b hb
  obtain ⟨h1, h2⟩ := (mem_compositions_iff _ _ _).mp hb
  have e2 : (fun a => if vadd a b = d then F a b else 0) = (fun a => if vadd b a = d then (fun a => F a b) a else 0) := by
    funext a; rw [vadd_comm]
  rw [e2]
  exact inner_collapse n tp b d h1 hd (by omega) (fun a => F a b)

/-! ### assembly -/

theorem sum_filter_restrict (L : List (List ℕ)) (p q : List ℕ → Bool) (f : List ℕ → ℚ)
    (hqp : ∀ a ∈ L, q a = true → p a = true) (hz : ∀ a ∈ L, p a = true → ¬ q a = true → f a = 0) :
    ((L.filter p).map f).sum = ((L.filter q).map f).sum := by
  rw [sum_filter_ite, sum_filter_ite]
  apply congrArg
  apply List.map_congr_left
  intro a ha
  by_cases h1 : q a = true
  · rw [if_pos h1, if_pos (hqp a ha h1)]
  · rw [if_neg h1]
    by_cases h2 : p a = true
    · rw [if_pos h2, hz a ha h2 h1]
    · rw [if_neg h2]

theorem constraintOf_getD_le (d dp : List ℕ) (lam : ℚ) (h : d.length = dp.length) (i : ℕ) :
    (constraintOf d dp lam).getD i 0 ≤ d.getD i 0 := by
  rw [constraintOf_getD d dp lam h i]
  split
  · split <;> omega
  · omega

/-- one parent's gamete terms vanish on every compatible gamete when the code prunes that parent -/
theorem pruned_zero (d dp : List ℕ) (pp tau : ℕ) (lam e : ℚ) (hd : d.length = dp.length)
    (he1 : effErr tau e ≤ 1) (h0 : 0 ≤ lam) (hlam : lam ≠ 0 → tau = 2)
    (hv : validSide (constraintOf d dp lam) tau (effErr tau e) = false) (a : List ℕ)
    (ha : a ∈ compositions d.length tau) (had : vle a d = true) :
    (1 - effErr tau e) * gametePmf a tau dp pp lam = 0 := by
  obtain ⟨h1, h2⟩ := (mem_compositions_iff _ _ _).mp ha
  unfold validSide at hv
  simp only [Bool.and_eq_false_iff, decide_eq_false_iff_not] at hv
  rcases hv with (hv | hv) | hv
  · -- the constraint is too small: no compatible gamete lies under it
    have hnv : ¬ vle a (constraintOf d dp lam) = true := by
      intro hvle
      have hl : a.length = (constraintOf d dp lam).length := by rw [constraintOf_length d dp lam hd]; omega
      have := sum_le_of_getD_le a _ hl ((vle_iff a _ hl).mp hvle)
      omega
    rw [gametePmf_eq_spec dp a pp tau lam (by omega) h2 h0 hlam,
      gameteSpec_zero_outside d dp a pp tau lam hd (by omega) ((vle_iff a d (by omega)).mp had) h0 hnv, mul_zero]
  · have : tau = 0 := by omega
    subst this
    simp [effErr]
  · have : effErr tau e = 1 := le_antisymm he1 (not_lt.mp hv)
    rw [this]; simp

theorem effErr_le_one (tau : ℕ) (e : ℚ) (h : e ≤ 1) : effErr tau e ≤ 1 := by
  unfold effErr; split <;> linarith

theorem specErr_eq (pp tau : ℕ) (e : ℚ) (h : pp = 0 → e = 1) : specErr pp tau e = effErr tau e := by
  unfold specErr effErr
  by_cases ht : tau = 0
  · simp [ht]
  · by_cases hp : pp = 0
    · simp [ht, hp, h hp]
    · simp [ht, hp]

/-- **the code's evaluation of `trio_log_pmf` (four `valid_p / valid_q` branches over an enumerator of
    gametes) equals the specification (sum over all pairs of gametes)**, for any enumerator that is a
    permutation of the reference enumeration on the constraints the code actually enumerates -/
theorem trioPmfWith_eq_spec (enum : GameteEnum) (T : Trio)
    (hdp : T.dp.length = T.d.length) (hdq : T.dq.length = T.d.length) (hfs : T.d.length ≤ T.fs.length)
    (hsum : T.d.sum = T.tp + T.tq)
    (hep : T.pp = 0 → T.ep = 1) (heq : T.pq = 0 → T.eq = 1) (hep1 : T.ep ≤ 1) (heq1 : T.eq ≤ 1)
    (hlp0 : 0 ≤ T.lp) (hlp : T.lp ≠ 0 → T.tp = 2) (hlq0 : 0 ≤ T.lq) (hlq : T.lq ≠ 0 → T.tq = 2)
    (hEp : T.validP = true → (enum T.tp T.consP).Perm (enumSpec T.tp T.consP))
    (hEq : T.validQ = true → (enum T.tq T.consQ).Perm (enumSpec T.tq T.consQ)) :
    trioPmfWith enum T = trioPmf T := by
  set n := T.d.length with hn
  set eP := T.errP with heP
  set eQ := T.errQ with heQ
  set GP := fun g => gametePmf g T.tp T.dp T.pp T.lp with hGP
  set GQ := fun g => gametePmf g T.tq T.dq T.pq T.lq with hGQ
  set U := unknownPmf T.fs with hU
  set A := (compositions n T.tp).filter (fun a => vle a T.d) with hA
  set B := (compositions n T.tq).filter (fun b => vle b T.d) with hB
  have heP1 : eP ≤ 1 := effErr_le_one _ _ hep1
  have heQ1 : eQ ≤ 1 := effErr_le_one _ _ heq1
  -- facts about members of A and B
  have memA : ∀ a ∈ A, a ∈ compositions n T.tp ∧ vle a T.d = true ∧
      vsub T.d a ∈ compositions n T.tq ∧ vle (vsub T.d a) T.d = true := by
    intro a ha
    obtain ⟨hc, hv⟩ := List.mem_filter.mp ha
    obtain ⟨h1, h2⟩ := (mem_compositions_iff _ _ _).mp hc
    have hle := (vle_forall₂ a T.d (by omega)).mp hv
    obtain ⟨c1, c2, c3⟩ := vsub_spec hle
    refine ⟨hc, hv, (mem_compositions_iff _ _ _).mpr ⟨by omega, by omega⟩, ?_⟩
    rw [vle_iff _ _ (by omega)]
    intro i; have := c3 i; omega
  have memB : ∀ b ∈ B, b ∈ compositions n T.tq ∧ vle b T.d = true ∧
      vsub T.d b ∈ compositions n T.tp ∧ vle (vsub T.d b) T.d = true := by
    intro b hb
    obtain ⟨hc, hv⟩ := List.mem_filter.mp hb
    obtain ⟨h1, h2⟩ := (mem_compositions_iff _ _ _).mp hc
    have hle := (vle_forall₂ b T.d (by omega)).mp hv
    obtain ⟨c1, c2, c3⟩ := vsub_spec hle
    refine ⟨hc, hv, (mem_compositions_iff _ _ _).mpr ⟨by omega, by omega⟩, ?_⟩
    rw [vle_iff _ _ (by omega)]
    intro i; have := c3 i; omega
  -- the specification as four sums
  have hspec : trioPmf T
      = (A.map (fun a => GP a * ((1 - eP) * (1 - eQ) * GQ (vsub T.d a) + (1 - eP) * eQ * U (vsub T.d a)))).sum
        + (B.map (fun b => GQ b * (eP * (1 - eQ) * U (vsub T.d b)))).sum
        + eP * eQ * (A.map (fun a => U a * U (vsub T.d a))).sum := by
    unfold trioPmf
    have hexp : ∀ ab ∈ (gametePairs n T.tp T.tq).filter (fun ab => decide (vadd ab.1 ab.2 = T.d)),
        mixPmf T.dp T.pp T.tp T.lp T.ep T.fs ab.1 * mixPmf T.dq T.pq T.tq T.lq T.eq T.fs ab.2
          = (fun a b => GP a * ((1 - eP) * (1 - eQ) * GQ b + (1 - eP) * eQ * U b)) ab.1 ab.2
            + ((fun a b => GQ b * (eP * (1 - eQ) * U a)) ab.1 ab.2
              + (fun a b => eP * eQ * (U a * U b)) ab.1 ab.2) := by
      intro ab hab
      obtain ⟨hm, _⟩ := List.mem_filter.mp hab
      obtain ⟨ha, hb⟩ := (mem_gametePairs _ _ _ _).mp hm
      obtain ⟨ha1, ha2⟩ := (mem_compositions_iff _ _ _).mp ha
      obtain ⟨hb1, hb2⟩ := (mem_compositions_iff _ _ _).mp hb
      unfold mixPmf
      rw [specErr_eq T.pp T.tp T.ep hep, specErr_eq T.pq T.tq T.eq heq,
        ← gametePmf_eq_spec T.dp ab.1 T.pp T.tp T.lp (by omega) ha2 hlp0 hlp,
        ← gametePmf_eq_spec T.dq ab.2 T.pq T.tq T.lq (by omega) hb2 hlq0 hlq]
      show ((1 - eP) * GP ab.1 + eP * U ab.1) * ((1 - eQ) * GQ ab.2 + eQ * U ab.2) = _
      ring
    rw [List.map_congr_left hexp, List.sum_map_add, List.sum_map_add]
    have s1 := pair_sum_first n T.tp T.tq T.d rfl hsum
      (fun a b => GP a * ((1 - eP) * (1 - eQ) * GQ b + (1 - eP) * eQ * U b))
    have s2 := pair_sum_second n T.tp T.tq T.d rfl hsum (fun a b => GQ b * (eP * (1 - eQ) * U a))
    have s3 := pair_sum_first n T.tp T.tq T.d rfl hsum (fun a b => eP * eQ * (U a * U b))
    beta_reduce at s1 s2 s3 ⊢
    rw [s1, s2, s3, List.sum_map_mul_left]
    ring
  -- the closed-form term
  have hconv : (A.map (fun a => U a * U (vsub T.d a))).sum = U T.d :=
    multinomial_convolution_aux T.fs T.d T.tp T.tq hsum hfs
  -- sums over the compatible gametes of one parent become sums over the enumerator
  have toEnumP : T.validP = true → ∀ X : List ℕ → ℚ,
      (A.map (fun a => GP a * X a)).sum = ((enum T.tp T.consP).map (fun a => GP a * X a)).sum := by
    intro hv X
    have hcl : T.consP.length = n := constraintOf_length T.d T.dp T.lp (by omega)
    rw [((hEp hv).map _).sum_eq]
    unfold enumSpec
    rw [hcl]
    apply sum_filter_restrict
    · intro a ha hq
      obtain ⟨h1, _⟩ := (mem_compositions_iff _ _ _).mp ha
      rw [vle_iff a _ (by omega)] at hq
      rw [vle_iff a _ (by omega)]
      intro i
      exact le_trans (hq i) (constraintOf_getD_le T.d T.dp T.lp (by omega) i)
    · intro a ha hp hq
      obtain ⟨h1, h2⟩ := (mem_compositions_iff _ _ _).mp ha
      show gametePmf a T.tp T.dp T.pp T.lp * X a = 0
      rw [gametePmf_eq_spec T.dp a T.pp T.tp T.lp (by omega) h2 hlp0 hlp,
        gameteSpec_zero_outside T.d T.dp a T.pp T.tp T.lp (by omega) (by omega)
          ((vle_iff a T.d (by omega)).mp hp) hlp0 hq, zero_mul]
  have toEnumQ : T.validQ = true → ∀ X : List ℕ → ℚ,
      (B.map (fun b => GQ b * X b)).sum = ((enum T.tq T.consQ).map (fun b => GQ b * X b)).sum := by
    intro hv X
    have hcl : T.consQ.length = n := constraintOf_length T.d T.dq T.lq (by omega)
    rw [((hEq hv).map _).sum_eq]
    unfold enumSpec
    rw [hcl]
    apply sum_filter_restrict
    · intro b hb hq
      obtain ⟨h1, _⟩ := (mem_compositions_iff _ _ _).mp hb
      rw [vle_iff b _ (by omega)] at hq
      rw [vle_iff b _ (by omega)]
      intro i
      exact le_trans (hq i) (constraintOf_getD_le T.d T.dq T.lq (by omega) i)
    · intro b hb hp hq
      obtain ⟨h1, h2⟩ := (mem_compositions_iff _ _ _).mp hb
      show gametePmf b T.tq T.dq T.pq T.lq * X b = 0
      rw [gametePmf_eq_spec T.dq b T.pq T.tq T.lq (by omega) h2 hlq0 hlq,
        gameteSpec_zero_outside T.d T.dq b T.pq T.tq T.lq (by omega) (by omega)
          ((vle_iff b T.d (by omega)).mp hp) hlq0 hq, zero_mul]
  -- pruned parents contribute nothing
  have zeroP : T.validP = false → ∀ a, a ∈ compositions n T.tp → vle a T.d = true → (1 - eP) * GP a = 0 :=
    fun hv a ha had => pruned_zero T.d T.dp T.pp T.tp T.lp T.ep (by omega) heP1 hlp0 hlp hv a ha had
  have zeroQ : T.validQ = false → ∀ b, b ∈ compositions n T.tq → vle b T.d = true → (1 - eQ) * GQ b = 0 :=
    fun hv b hb hbd => pruned_zero T.d T.dq T.pq T.tq T.lq T.eq (by omega) heQ1 hlq0 hlq hv b hb hbd
  rw [hspec, hconv]
  unfold trioPmfWith
  simp only
  rw [← heP, ← heQ]
  congr 1
  swap
  · ring
  congr 1
  · -- the loops over p's gametes
    by_cases hvp : T.validP = true
    · by_cases hvq : T.validQ = true
      · rw [toEnumP hvp]
        simp only [hvp, hvq, Bool.and_self, if_true]
        apply congrArg
        apply List.map_congr_left
        intro a _
        simp only [hGP, hGQ, hU]
        ring
      · have hvq' : T.validQ = false := by simpa using hvq
        have hA2 : (A.map (fun a => GP a * ((1 - eP) * (1 - eQ) * GQ (vsub T.d a) + (1 - eP) * eQ * U (vsub T.d a)))).sum
            = (A.map (fun a => GP a * ((1 - eP) * eQ * U (vsub T.d a)))).sum := by
          apply congrArg
          apply List.map_congr_left
          intro a ha
          obtain ⟨_, _, hbc, hbd⟩ := memA a ha
          have hz := zeroQ hvq' (vsub T.d a) hbc hbd
          linear_combination (GP a * (1 - eP)) * hz
        rw [hA2, toEnumP hvp]
        simp only [hvp, hvq', Bool.and_false, Bool.false_eq_true, if_false, if_true]
        apply congrArg
        apply List.map_congr_left
        intro a _
        simp only [hGP, hU]
        ring
    · have hvp' : T.validP = false := by simpa using hvp
      simp only [hvp', Bool.false_and, Bool.false_eq_true, if_false]
      symm
      apply List.sum_eq_zero
      intro v hv
      obtain ⟨a, ha, rfl⟩ := List.mem_map.mp hv
      obtain ⟨hac, had, _, _⟩ := memA a ha
      have hz := zeroP hvp' a hac had
      linear_combination ((1 - eQ) * GQ (vsub T.d a) + eQ * U (vsub T.d a)) * hz
  · -- the loop over q's gametes
    by_cases hvq : T.validQ = true
    · rw [toEnumQ hvq]
      simp only [hvq, if_true]
      apply congrArg
      apply List.map_congr_left
      intro b _
      simp only [hGQ, hU]
      ring
    · have hvq' : T.validQ = false := by simpa using hvq
      simp only [hvq', Bool.false_eq_true, if_false]
      symm
      apply List.sum_eq_zero
      intro v hv
      obtain ⟨b, hb, rfl⟩ := List.mem_map.mp hv
      obtain ⟨hbc, hbd, _, _⟩ := memB b hb
      have hz := zeroQ hvq' b hbc hbd
      linear_combination (eP * U (vsub T.d b)) * hz

/-- the well-formedness the code relies on for one trio: vectors of one length, progeny total
    `τ_p + τ_q`, an unknown parent (ploidy 0) carries error 1, errors ≤ 1, λ ≥ 0 and non-zero only
    for `τ = 2` -/
structure TrioWF (T : Trio) : Prop where
  hdp : T.dp.length = T.d.length
  hdq : T.dq.length = T.d.length
  hfs : T.d.length ≤ T.fs.length
  hsum : T.d.sum = T.tp + T.tq
  hep : T.pp = 0 → T.ep = 1
  heq : T.pq = 0 → T.eq = 1
  hep1 : T.ep ≤ 1
  heq1 : T.eq ≤ 1
  hlp0 : 0 ≤ T.lp
  hlp : T.lp ≠ 0 → T.tp = 2
  hlq0 : 0 ≤ T.lq
  hlq : T.lq ≠ 0 → T.tq = 2

theorem validSide_sum {cons : List ℕ} {tau : ℕ} {e : ℚ} (h : validSide cons tau e = true) : tau ≤ cons.sum := by
  unfold validSide at h
  simp only [Bool.and_eq_true, decide_eq_true_eq] at h
  exact h.1.1

/-- **the model of `trio_log_pmf` (four branches, literal `increment_dosage` enumerator) equals the
    specification (sum over all pairs of gametes)** -/
theorem trioPmfCode_eq_spec (T : Trio) (h : TrioWF T) : trioPmfCode T = trioPmf T := by
  unfold trioPmfCode
  exact trioPmfWith_eq_spec enumDosage T h.hdp h.hdq h.hfs h.hsum h.hep h.heq h.hep1 h.heq1
    h.hlp0 h.hlp h.hlq0 h.hlq
    (fun hv => enumDosage_perm_spec _ _ (validSide_sum hv))
    (fun hv => enumDosage_perm_spec _ _ (validSide_sum hv))

end MCHap
