import MCHap.Model.Sched
import Mathlib.Data.List.Basic
import Mathlib.Data.List.Perm.Basic
import Mathlib.Algebra.BigOperators.Group.List.Basic
import Mathlib.Tactic

/-!
Helper lemmas for C08: interleavings (`Shuffled`) and the invariant of the worker / queue / writer protocol
of `Model/Sched.lean`, preserved by every `Step` (`inv_step`) and hence by every execution (`inv_steps`).
-/
namespace MCHap.Sched
open MCHap

variable {L A : Type}

/-- `l` grew by appending one element at a time, each time also to one of the lists of `E` -/
inductive Shuffled : List (List A) → List A → Prop
  | nil (k : ℕ) : Shuffled (List.replicate k []) []
  | snoc {E : List (List A)} {l : List A} {i : ℕ} {e : List A} (a : A) :
      Shuffled E l → E[i]? = some e → Shuffled (E.set i (e ++ [a])) (l ++ [a])

theorem flatten_set_append_perm (E : List (List A)) (i : ℕ) (e : List A) (a : A) (h : E[i]? = some e) :
    (E.set i (e ++ [a])).flatten.Perm (E.flatten ++ [a]) := by
  induction E generalizing i with
  | nil => simp at h
  | cons e' E ih =>
    cases i with
    | zero =>
      simp at h; subst h
      simp only [List.set_cons_zero, List.flatten_cons, List.append_assoc]
      exact List.Perm.append_left _ List.perm_append_comm
    | succ i =>
      simp at h
      simp only [List.set_cons_succ, List.flatten_cons, List.append_assoc]
      exact List.Perm.append_left _ (ih i h)

theorem Shuffled.perm {E : List (List A)} {l : List A} (h : Shuffled E l) : l.Perm E.flatten := by
  induction h with
  | nil k => induction k <;> simp_all [List.replicate_succ]
  | snoc a _ hi ih =>
    exact ((List.Perm.append_right _ ih).trans (flatten_set_append_perm _ _ _ a hi).symm)

theorem Shuffled.sublist {E : List (List A)} {l : List A} (h : Shuffled E l) :
    ∀ e ∈ E, e.Sublist l := by
  induction h with
  | nil k => intro e he; rw [List.eq_of_mem_replicate he]
  | snoc a _ hi ih =>
    intro e' he'
    rcases List.mem_or_eq_of_mem_set he' with h1 | h1
    · exact (ih _ h1).trans (List.sublist_append_left _ _)
    · subst h1
      exact List.Sublist.append (ih _ (List.mem_of_getElem? hi)) (List.Sublist.refl _)

theorem Shuffled.length {E : List (List A)} {l : List A} (h : Shuffled E l) :
    (E.map List.length).sum = l.length := by
  have := h.perm.length_eq
  rw [this, List.length_flatten]


/-- the sentinel is in the queue exactly between `kill` and `stop` -/
def tailOf (s : Proto L A) : List (Msg A) :=
  if s.main = .finished ∧ s.writerOn = true then [Msg.kill] else []

structure Inv (call : L → Option A) (blocks : List (List L)) (s : Proto L A)
    (E : List (List A)) (ls : List A) : Prop where
  wlen : s.workers.length = blocks.length
  elen : E.length = blocks.length
  shuf : Shuffled E (s.out ++ ls)
  queue : s.queue = ls.map Msg.line ++ tailOf s
  woff : s.writerOn = false → s.main = .finished ∧ ls = []
  w1 : ∀ (i : ℕ) (b todo : List L), blocks[i]? = some b → s.workers[i]? = some (some todo) →
        ∃ (done : List L) (e : List A), b = done ++ todo ∧ E[i]? = some e ∧ done.map call = e.map some
  w2 : ∀ (i : ℕ) (b : List L), blocks[i]? = some b → s.workers[i]? = some none → ∃ l ∈ b, call l = none
  m1 : ∀ (j : ℕ), s.main = .waiting j → j ≤ blocks.length ∧ ∀ i < j, s.workers[i]? = some (some [])
  m2 : s.main = .finished → ∀ i < blocks.length, s.workers[i]? = some (some [])
  m3 : s.main = .raised → ∃ l ∈ blocks.flatten, call l = none

theorem inv_init (call : L → Option A) (blocks : List (List L)) :
    Inv call blocks (Proto.init blocks) (List.replicate blocks.length []) [] := by
  refine ⟨by simp [Proto.init], by simp, ?_, by simp [Proto.init, tailOf], by simp [Proto.init],
    ?_, ?_, ?_, by simp [Proto.init], by simp [Proto.init]⟩
  · simpa [Proto.init] using Shuffled.nil (A := A) blocks.length
  · intro i b todo hb hw
    have hi : i < blocks.length := (List.getElem?_eq_some_iff.mp hb).1
    simp only [Proto.init, List.getElem?_map, hb, Option.map_some, Option.some.injEq] at hw
    subst hw
    exact ⟨[], [], by simp, by simp [hi], by simp⟩
  · intro i b hb hw
    simp [Proto.init, hb] at hw
  · intro j hj
    simp only [Proto.init, MainSt.waiting.injEq] at hj
    subst hj
    simp

theorem inv_step {call : L → Option A} {blocks : List (List L)} {s s' : Proto L A}
    {E : List (List A)} {ls : List A} (hI : Inv call blocks s E ls) (hs : Step call s s') :
    ∃ E' ls', Inv call blocks s' E' ls' := by
  cases hs with
  | @emit i l rest a hm hw hc =>
    have hi : i < blocks.length := hI.wlen ▸ (List.getElem?_eq_some_iff.mp hw).1
    obtain ⟨b, hb⟩ : ∃ b, blocks[i]? = some b := ⟨blocks[i], List.getElem?_eq_getElem hi⟩
    obtain ⟨done, e, hbd, hE, hde⟩ := hI.w1 i b _ hb hw
    have hnf : s.main ≠ .finished := by
      intro h; have := hI.m2 h i hi; rw [hw] at this; simp at this
    have htail : tailOf s = [] := by simp [tailOf, hnf]
    refine ⟨E.set i (e ++ [a]), ls ++ [a], ?_⟩
    constructor
    · simp [hI.wlen]
    · simp [hI.elen]
    · dsimp only; rw [← List.append_assoc]; exact Shuffled.snoc a hI.shuf hE
    · dsimp only; rw [hI.queue, htail]; simp [tailOf, hnf]
    · dsimp only; intro h; exact absurd (hI.woff h).1 hnf
    · dsimp only
      intro i' b' todo hb' hw'
      by_cases hii : i = i'
      · subst hii
        rw [hb] at hb'; cases hb'
        rw [List.getElem?_set_self (hI.wlen ▸ hi)] at hw'
        cases hw'
        refine ⟨done ++ [l], e ++ [a], by simp [hbd], ?_, by simp [hde, hc]⟩
        rw [List.getElem?_set_self (hI.elen ▸ hi)]
      · rw [List.getElem?_set_ne hii] at hw'
        obtain ⟨d', e', h1, h2, h3⟩ := hI.w1 i' b' todo hb' hw'
        exact ⟨d', e', h1, by rw [List.getElem?_set_ne hii]; exact h2, h3⟩
    · dsimp only
      intro i' b' hb' hw'
      by_cases hii : i = i'
      · subst hii; rw [List.getElem?_set_self (hI.wlen ▸ hi)] at hw'; simp at hw'
      · rw [List.getElem?_set_ne hii] at hw'; exact hI.w2 i' b' hb' hw'
    · dsimp only
      intro j hj
      obtain ⟨h1, h2⟩ := hI.m1 j hj
      refine ⟨h1, fun i' hi' => ?_⟩
      by_cases hii : i = i'
      · subst hii; have := h2 i hi'; rw [hw] at this; simp at this
      · rw [List.getElem?_set_ne hii]; exact h2 i' hi'
    · dsimp only; intro h; exact absurd h hnf
    · dsimp only; intro h; exact absurd h hm
  | @crash i l rest hm hw hc =>
    have hi : i < blocks.length := hI.wlen ▸ (List.getElem?_eq_some_iff.mp hw).1
    obtain ⟨b, hb⟩ : ∃ b, blocks[i]? = some b := ⟨blocks[i], List.getElem?_eq_getElem hi⟩
    obtain ⟨done, e, hbd, hE, hde⟩ := hI.w1 i b _ hb hw
    have hnf : s.main ≠ .finished := by
      intro h; have := hI.m2 h i hi; rw [hw] at this; simp at this
    refine ⟨E, ls, ?_⟩
    constructor
    · simp [hI.wlen]
    · exact hI.elen
    · exact hI.shuf
    · dsimp only; rw [hI.queue]; simp [tailOf]
    · dsimp only; exact hI.woff
    · dsimp only
      intro i' b' todo hb' hw'
      by_cases hii : i = i'
      · subst hii; rw [List.getElem?_set_self (hI.wlen ▸ hi)] at hw'; simp at hw'
      · rw [List.getElem?_set_ne hii] at hw'; exact hI.w1 i' b' todo hb' hw'
    · dsimp only
      intro i' b' hb' hw'
      by_cases hii : i = i'
      · subst hii
        rw [hb] at hb'; cases hb'
        exact ⟨l, by simp [hbd], hc⟩
      · rw [List.getElem?_set_ne hii] at hw'; exact hI.w2 i' b' hb' hw'
    · dsimp only
      intro j hj
      obtain ⟨h1, h2⟩ := hI.m1 j hj
      refine ⟨h1, fun i' hi' => ?_⟩
      by_cases hii : i = i'
      · subst hii; have := h2 i hi'; rw [hw] at this; simp at this
      · rw [List.getElem?_set_ne hii]; exact h2 i' hi'
    · dsimp only; intro h; exact absurd h hnf
    · dsimp only; intro h; exact absurd h hm
  | @join j hm hw =>
    have hj : j < blocks.length := hI.wlen ▸ (List.getElem?_eq_some_iff.mp hw).1
    refine ⟨E, ls, ?_⟩
    constructor
    · exact hI.wlen
    · exact hI.elen
    · exact hI.shuf
    · dsimp only; rw [hI.queue]; simp [tailOf, hm]
    · dsimp only; intro h; have := (hI.woff h).1; rw [hm] at this; cases this
    · exact hI.w1
    · exact hI.w2
    · dsimp only
      intro j' hj'
      cases hj'
      obtain ⟨_, h2⟩ := hI.m1 j hm
      refine ⟨hj, fun i' hi' => ?_⟩
      rcases Nat.lt_succ_iff_lt_or_eq.mp hi' with h | h
      · exact h2 i' h
      · subst h; exact hw
    · dsimp only; intro h; cases h
    · dsimp only; intro h; cases h
  | @raise j hm hw =>
    have hj : j < blocks.length := hI.wlen ▸ (List.getElem?_eq_some_iff.mp hw).1
    obtain ⟨b, hb⟩ : ∃ b, blocks[j]? = some b := ⟨blocks[j], List.getElem?_eq_getElem hj⟩
    obtain ⟨l, hl, hc⟩ := hI.w2 j b hb hw
    refine ⟨E, ls, ?_⟩
    constructor
    · exact hI.wlen
    · exact hI.elen
    · exact hI.shuf
    · dsimp only; rw [hI.queue]; simp [tailOf, hm]
    · dsimp only; intro h; have := (hI.woff h).1; rw [hm] at this; cases this
    · exact hI.w1
    · exact hI.w2
    · dsimp only; intro j' hj'; cases hj'
    · dsimp only; intro h; cases h
    · dsimp only; intro _
      exact ⟨l, List.mem_flatten.mpr ⟨b, List.mem_of_getElem? hb, hl⟩, hc⟩
  | kill hm =>
    have hwon : s.writerOn = true := by
      by_contra h
      have := (hI.woff (by simpa using h)).1; rw [hm] at this; cases this
    refine ⟨E, ls, ?_⟩
    constructor
    · exact hI.wlen
    · exact hI.elen
    · exact hI.shuf
    · dsimp only; rw [hI.queue]; simp [tailOf, hm, hwon]
    · dsimp only; intro h; rw [hwon] at h; cases h
    · exact hI.w1
    · exact hI.w2
    · dsimp only; intro j' hj'; cases hj'
    · dsimp only; intro _ i hi
      exact (hI.m1 _ hm).2 i (hI.wlen ▸ hi)
    · dsimp only; intro h; cases h
  | @write a q hm hwon hq =>
    have hq' := hI.queue
    rw [hq] at hq'
    cases ls with
    | nil =>
      simp only [List.map_nil, List.nil_append, tailOf] at hq'
      (split_ifs at hq'; all_goals simp at hq')
    | cons a' ls' =>
      simp only [List.map_cons, List.cons_append, List.cons.injEq, Msg.line.injEq] at hq'
      obtain ⟨rfl, hq'⟩ := hq'
      refine ⟨E, ls', ?_⟩
      constructor
      · exact hI.wlen
      · exact hI.elen
      · dsimp only; simpa using hI.shuf
      · dsimp only; rw [hq']; simp [tailOf]
      · dsimp only; intro h; rw [hwon] at h; cases h
      · exact hI.w1
      · exact hI.w2
      · exact hI.m1
      · exact hI.m2
      · exact hI.m3
  | @stop q hm hwon hq =>
    have hq' := hI.queue
    rw [hq] at hq'
    cases ls with
    | cons a' ls' => simp at hq'
    | nil =>
      simp only [List.map_nil, List.nil_append, tailOf] at hq'
      split_ifs at hq' with hfin
      · simp only [List.cons.injEq, true_and] at hq'
        refine ⟨E, [], ?_⟩
        constructor
        · exact hI.wlen
        · exact hI.elen
        · exact hI.shuf
        · dsimp only; rw [hq']; simp [tailOf]
        · dsimp only; intro _; exact ⟨hfin.1, rfl⟩
        · exact hI.w1
        · exact hI.w2
        · exact hI.m1
        · exact hI.m2
        · exact hI.m3

theorem inv_steps {call : L → Option A} {blocks : List (List L)} {s : Proto L A}
    (h : Steps call (Proto.init blocks) s) : ∃ E ls, Inv call blocks s E ls := by
  induction h with
  | refl => exact ⟨_, _, inv_init call blocks⟩
  | tail _ hstep ih =>
    obtain ⟨E, ls, hI⟩ := ih
    exact inv_step hI hstep

end MCHap.Sched
