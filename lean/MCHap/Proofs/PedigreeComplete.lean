import MCHap.Proofs.PedigreeValid
import Mathlib.Data.List.Lex
import Mathlib.Data.List.Perm.Basic

/-! General completeness of the literal gamete enumerator: `incrementDosage` yields the
    lexicographic predecessor among the vectors under the constraint with the same total. -/
namespace MCHap

/-- no position of the (dosage, constraint) list can be lowered with room to its right -/
def Tight : List (ℕ × ℕ) → Prop
  | [] => True
  | (x, _) :: v => ¬(x > 0 ∧ (v.map (·.2)).sum > (v.map (·.1)).sum) ∧ Tight v

theorem tight_of_zero : ∀ (l : List (ℕ × ℕ)), (∀ x ∈ l, x.1 = 0) → Tight l := by
  intro l
  induction l with
  | nil => intro _; trivial
  | cons y l ih =>
    intro h
    obtain ⟨x, c⟩ := y
    have hx : x = 0 := h (x, c) (by simp)
    exact ⟨by omega, ih (fun z hz => h z (List.mem_cons_of_mem _ hz))⟩

/-- the greedy fill is the lexicographic maximum among the vectors under the constraint with its total -/
theorem fillGreedy_lexmax : ∀ (cs : List ℕ) (p : ℕ) (b : List ℕ), (fillGreedy p cs).2 = 0 →
    List.Forall₂ (· ≤ ·) b cs → b.sum = p → b ≤ (fillGreedy p cs).1 := by
  intro cs
  induction cs with
  | nil => intro p b _ hb _; cases hb; simp [fillGreedy]
  | cons c cs ih =>
    intro p b hrem hb hs
    cases hb with
    | cons h0 hb' =>
      rename_i b0 b'
      simp only [List.sum_cons] at hs
      simp only [fillGreedy] at hrem ⊢
      rcases Nat.lt_or_ge b0 (min p c) with hlt | hge
      · exact le_of_lt (List.cons_lt_cons_iff.mpr (Or.inl hlt))
      · have heq : b0 = min p c := by
          have : b0 ≤ min p c := by simp only [le_min_iff]; omega
          omega
        have := ih (p - min p c) b' hrem hb' (by omega)
        rcases lt_or_eq_of_le this with h | h
        · exact le_of_lt (List.cons_lt_cons_iff.mpr (Or.inr ⟨heq, h⟩))
        · rw [heq, h]

/-- a tight vector is the lexicographic minimum among the vectors under the constraint with its total -/
theorem tight_lexmin : ∀ (l : List (ℕ × ℕ)) (b : List ℕ), Tight l →
    List.Forall₂ (· ≤ ·) b (l.map (·.2)) → b.sum = (l.map (·.1)).sum → ¬ b < l.map (·.1) := by
  intro l
  induction l with
  | nil => intro b _ hb _; cases hb; simp
  | cons y l ih =>
    intro b ht hb hs
    obtain ⟨x, c⟩ := y
    obtain ⟨ht0, ht'⟩ := ht
    simp only [List.map_cons] at hb hs ⊢
    cases hb with
    | cons h0 hb' =>
      rename_i b0 b'
      simp only [List.sum_cons] at hs
      intro hlt
      rcases List.cons_lt_cons_iff.mp hlt with h | ⟨h1, h2⟩
      · have hle : b'.sum ≤ (l.map (·.2)).sum :=
          sum_le_of_getD_le b' _ hb'.length_eq ((forall₂_le_iff b' _ hb'.length_eq).mp hb')
        apply ht0
        constructor <;> omega
      · exact ih b' ht' hb' (by omega) h2

theorem fillGreedy_zero : ∀ (cs : List ℕ), fillGreedy 0 cs = (cs.map (fun _ => 0), 0) := by
  intro cs
  induction cs with
  | nil => rfl
  | cons c cs ih => simp [fillGreedy, ih]

theorem raiseFirst_fill : ∀ (zs : List (ℕ × ℕ)) (out : List ℕ), (∀ x ∈ zs, x.1 = 0) →
    raiseFirst zs = some out → fillGreedy 1 (zs.map (·.2)) = (out, 0) := by
  intro zs
  induction zs with
  | nil => intro out _ h; simp [raiseFirst] at h
  | cons y zs ih =>
    intro out h0 h
    obtain ⟨x, c⟩ := y
    have hx : x = 0 := h0 (x, c) (by simp)
    subst hx
    have h0' : ∀ z ∈ zs, z.1 = 0 := fun z hz => h0 z (List.mem_cons_of_mem _ hz)
    simp only [raiseFirst] at h
    split at h
    · rename_i hc
      simp only [Option.some.injEq] at h
      subst h
      have hm : min 1 c = 1 := by omega
      have hz : zs.map (·.1) = (zs.map (·.2)).map (fun _ => 0) := by
        rw [List.map_map]
        apply List.map_congr_left
        intro z hz; exact h0' z hz
      simp [fillGreedy, hm, fillGreedy_zero, hz]
    · rename_i hc
      have hc0 : c = 0 := by omega
      subst hc0
      cases hr : raiseFirst zs with
      | none => simp [hr] at h
      | some r =>
        simp only [hr, Option.map_some, Option.some.injEq] at h
        subst h
        have := ih r h0' hr
        simp [fillGreedy, this]

theorem raiseFirst_none : ∀ (zs : List (ℕ × ℕ)), (∀ x ∈ zs, x.1 = 0) → raiseFirst zs = none →
    (zs.map (·.2)).sum = 0 := by
  intro zs
  induction zs with
  | nil => intro _ _; rfl
  | cons y zs ih =>
    intro h0 h
    obtain ⟨x, c⟩ := y
    have hx : x = 0 := h0 (x, c) (by simp)
    subst hx
    simp only [raiseFirst] at h
    split at h
    · simp at h
    · rename_i hc
      cases hr : raiseFirst zs with
      | none =>
        have := ih (fun z hz => h0 z (List.mem_cons_of_mem _ hz)) hr
        simp only [List.map_cons, List.sum_cons, this]; omega
      | some r => simp [hr] at h

theorem searchLeft_some : ∀ (l : List (ℕ × ℕ)) (change space : ℕ) (cr out : List ℕ) (tail : List (ℕ × ℕ)),
    Tight tail → (tail.map (·.2)).sum = space → (tail.map (·.1)).sum = change → tail.map (·.2) = cr →
    searchLeft l change space cr = some out →
    ∃ (skipped : List (ℕ × ℕ)) (dk ck : ℕ) (l' : List (ℕ × ℕ)),
      l = skipped ++ (dk, ck) :: l' ∧ 0 < dk ∧ Tight (skipped.reverse ++ tail) ∧
      (fillGreedy (((skipped.reverse ++ tail).map (·.1)).sum + 1) ((skipped.reverse ++ tail).map (·.2))).2 = 0 ∧
      out = l'.reverse.map (·.1) ++ (dk - 1) ::
        (fillGreedy (((skipped.reverse ++ tail).map (·.1)).sum + 1) ((skipped.reverse ++ tail).map (·.2))).1 := by
  intro l
  induction l with
  | nil => intro change space cr out tail _ _ _ _ h; simp [searchLeft] at h
  | cons y l ih =>
    intro change space cr out tail ht hsp hch hcr h
    obtain ⟨d, c⟩ := y
    simp only [searchLeft] at h
    split at h
    · rename_i hc
      split at h
      · simp at h
      · rename_i hr
        simp only [Option.some.injEq] at h
        refine ⟨[], d, c, l, by simp, hc.1, by simpa using ht, ?_, ?_⟩
        · simp only [List.reverse_nil, List.nil_append, hch, hcr]; omega
        · simp only [List.reverse_nil, List.nil_append, hch, hcr]; exact h.symm
    · rename_i hc
      have ht' : Tight ((d, c) :: tail) := ⟨by rw [hsp, hch]; exact hc, ht⟩
      obtain ⟨sk, dk, ck, l', e1, e2, e3, e4, e5⟩ :=
        ih (change + d) (space + c) (c :: cr) out ((d, c) :: tail) ht'
          (by simp only [List.map_cons, List.sum_cons]; omega)
          (by simp only [List.map_cons, List.sum_cons]; omega)
          (by simp [hcr]) h
      refine ⟨(d, c) :: sk, dk, ck, l', by simp [e1], e2, ?_, ?_, ?_⟩
      · simpa [List.reverse_cons, List.append_assoc] using e3
      · simpa [List.reverse_cons, List.append_assoc] using e4
      · simpa [List.reverse_cons, List.append_assoc] using e5

theorem searchLeft_none : ∀ (l : List (ℕ × ℕ)) (change space : ℕ) (cr : List ℕ) (tail : List (ℕ × ℕ)),
    Tight tail → (tail.map (·.2)).sum = space → (tail.map (·.1)).sum = change → tail.map (·.2) = cr →
    searchLeft l change space cr = none → Tight (l.reverse ++ tail) := by
  intro l
  induction l with
  | nil => intro change space cr tail ht _ _ _ _; simpa using ht
  | cons y l ih =>
    intro change space cr tail ht hsp hch hcr h
    obtain ⟨d, c⟩ := y
    simp only [searchLeft] at h
    split at h
    · rename_i hc
      split at h
      · rename_i hr
        exfalso
        have := fillGreedy_rem_zero cr (change + 1) (by rw [← hcr, hsp]; omega)
        omega
      · simp at h
    · rename_i hc
      have ht' : Tight ((d, c) :: tail) := ⟨by rw [hsp, hch]; exact hc, ht⟩
      have := ih (change + d) (space + c) (c :: cr) ((d, c) :: tail) ht'
        (by simp only [List.map_cons, List.sum_cons]; omega)
        (by simp only [List.map_cons, List.sum_cons]; omega)
        (by simp [hcr]) h
      simpa [List.reverse_cons, List.append_assoc] using this

/-- decomposition of the reversed (dosage, constraint) list used by `incrementDosage` -/
theorem zip_split (l : List (ℕ × ℕ)) :
    (l.reverse.dropWhile (fun x => decide (x.1 = 0)) = [] ∧ ∀ x ∈ l, x.1 = 0) ∨
    ∃ (di ci : ℕ) (left tw : List (ℕ × ℕ)),
      l.reverse.dropWhile (fun x => decide (x.1 = 0)) = (di, ci) :: left ∧
      l.reverse.takeWhile (fun x => decide (x.1 = 0)) = tw ∧ di ≠ 0 ∧ (∀ x ∈ tw, x.1 = 0) ∧
      l = left.reverse ++ (di, ci) :: tw.reverse := by
  have hsplit : l.reverse = l.reverse.takeWhile (fun x => decide (x.1 = 0)) ++ l.reverse.dropWhile (fun x => decide (x.1 = 0)) :=
    (List.takeWhile_append_dropWhile).symm
  have htw0 : ∀ x ∈ l.reverse.takeWhile (fun x => decide (x.1 = 0)), x.1 = 0 := by
    intro x hx
    have := List.mem_takeWhile_imp hx
    simpa using this
  cases hdw : l.reverse.dropWhile (fun x => decide (x.1 = 0)) with
  | nil =>
    left
    refine ⟨rfl, ?_⟩
    rw [hdw, List.append_nil] at hsplit
    intro x hx
    apply htw0
    rw [← hsplit]; exact List.mem_reverse.mpr hx
  | cons y left =>
    right
    obtain ⟨di, ci⟩ := y
    rw [hdw] at hsplit
    have hdi : di ≠ 0 := by
      have := List.head_dropWhile_not (fun x : ℕ × ℕ => decide (x.1 = 0)) (l := l.reverse)
        (by rw [hdw]; simp)
      simp only [hdw, List.head_cons] at this
      simpa using this
    refine ⟨di, ci, left, _, rfl, rfl, hdi, htw0, ?_⟩
    have := congrArg List.reverse hsplit
    simpa using this

/-- **a successful step yields the lexicographic predecessor**: the tail after the lowered position
    was tight (lexicographically minimal) and is replaced by the greedy (maximal) fill of one more -/
theorem incrementDosage_pred (d c out : List ℕ) (h : incrementDosage d c = some out) :
    ∃ (pre : List (ℕ × ℕ)) (dk ck : ℕ) (suf : List (ℕ × ℕ)),
      d.zip c = pre ++ (dk, ck) :: suf ∧ 0 < dk ∧ Tight suf ∧
      (fillGreedy ((suf.map (·.1)).sum + 1) (suf.map (·.2))).2 = 0 ∧
      out = pre.map (·.1) ++ (dk - 1) :: (fillGreedy ((suf.map (·.1)).sum + 1) (suf.map (·.2))).1 := by
  unfold incrementDosage at h
  simp only at h
  rcases zip_split (d.zip c) with ⟨hnil, _⟩ | ⟨di, ci, left, tw, hdw, htw, hdi, htw0, hl⟩
  · rw [hnil] at h; simp at h
  · rw [hdw, htw] at h
    simp only at h
    have hz0 : ∀ x ∈ tw.reverse, x.1 = 0 := fun x hx => htw0 x (List.mem_reverse.mp hx)
    have hzsum : ((tw.reverse).map (·.1)).sum = 0 := by
      apply List.sum_eq_zero
      intro v hv
      obtain ⟨x, hx, rfl⟩ := List.mem_map.mp hv
      exact hz0 x hx
    cases hrf : raiseFirst tw.reverse with
    | some zs' =>
      simp only [hrf, Option.some.injEq] at h
      have hf := raiseFirst_fill _ _ hz0 hrf
      refine ⟨left.reverse, di, ci, tw.reverse, hl, Nat.pos_of_ne_zero hdi, tight_of_zero _ hz0, ?_, ?_⟩
      · rw [hzsum, Nat.zero_add, hf]
      · rw [hzsum, Nat.zero_add, hf, ← h, List.map_reverse]
    | none =>
      simp only [hrf] at h
      have hcs := raiseFirst_none _ hz0 hrf
      have htail : Tight ((di, ci) :: tw.reverse) := ⟨by omega, tight_of_zero _ hz0⟩
      obtain ⟨sk, dk, ck, l', e1, e2, e3, e4, e5⟩ :=
        searchLeft_some left di ci _ out ((di, ci) :: tw.reverse) htail
          (by simp only [List.map_cons, List.sum_cons, hcs]; omega)
          (by simp only [List.map_cons, List.sum_cons, hzsum]; omega) (by simp) h
      refine ⟨l'.reverse, dk, ck, sk.reverse ++ (di, ci) :: tw.reverse, ?_, e2, e3, e4, ?_⟩
      · rw [hl, e1]; simp
      · rw [e5, List.map_reverse]

/-- **a stuck vector is the lexicographic minimum** -/
theorem incrementDosage_stuck (d c : List ℕ) (h : incrementDosage d c = none) : Tight (d.zip c) := by
  unfold incrementDosage at h
  simp only at h
  rcases zip_split (d.zip c) with ⟨_, hall⟩ | ⟨di, ci, left, tw, hdw, htw, hdi, htw0, hl⟩
  · exact tight_of_zero _ hall
  · rw [hdw, htw] at h
    simp only at h
    have hz0 : ∀ x ∈ tw.reverse, x.1 = 0 := fun x hx => htw0 x (List.mem_reverse.mp hx)
    have hzsum : ((tw.reverse).map (·.1)).sum = 0 := by
      apply List.sum_eq_zero
      intro v hv
      obtain ⟨x, hx, rfl⟩ := List.mem_map.mp hv
      exact hz0 x hx
    cases hrf : raiseFirst tw.reverse with
    | some zs' => simp [hrf] at h
    | none =>
      simp only [hrf] at h
      have hcs := raiseFirst_none _ hz0 hrf
      have htail : Tight ((di, ci) :: tw.reverse) := ⟨by omega, tight_of_zero _ hz0⟩
      have := searchLeft_none left di ci _ ((di, ci) :: tw.reverse) htail
        (by simp only [List.map_cons, List.sum_cons, hcs]; omega)
        (by simp only [List.map_cons, List.sum_cons, hzsum]; omega) (by simp) h
      rw [hl]; exact this

theorem cons_le_cons_same (x : ℕ) {l l' : List ℕ} (h : l ≤ l') : x :: l ≤ x :: l' := by
  rcases lt_or_eq_of_le h with h | h
  · exact le_of_lt (List.cons_lt_cons_iff.mpr (Or.inr ⟨rfl, h⟩))
  · rw [h]

theorem pred_lemma : ∀ (pre : List (ℕ × ℕ)) (dk ck : ℕ) (suf : List (ℕ × ℕ)) (r a : List ℕ),
    0 < dk → Tight suf →
    (∀ b, List.Forall₂ (· ≤ ·) b (suf.map (·.2)) → b.sum = (suf.map (·.1)).sum + 1 → b ≤ r) →
    List.Forall₂ (· ≤ ·) a ((pre ++ (dk, ck) :: suf).map (·.2)) →
    a.sum = ((pre ++ (dk, ck) :: suf).map (·.1)).sum →
    a < (pre ++ (dk, ck) :: suf).map (·.1) → a ≤ pre.map (·.1) ++ (dk - 1) :: r := by
  intro pre
  induction pre with
  | nil =>
    intro dk ck suf r a hdk ht hr hle hs hlt
    simp only [List.nil_append, List.map_cons, List.map_nil] at hle hs hlt ⊢
    cases hle with
    | cons h0 hle' =>
      rename_i a0 a'
      simp only [List.sum_cons] at hs
      rcases List.cons_lt_cons_iff.mp hlt with h | ⟨h1, h2⟩
      · rcases Nat.lt_or_ge a0 (dk - 1) with h' | h'
        · exact le_of_lt (List.cons_lt_cons_iff.mpr (Or.inl h'))
        · have he : a0 = dk - 1 := by omega
          rw [he]
          exact cons_le_cons_same _ (hr a' hle' (by omega))
      · exact absurd h2 (tight_lexmin suf a' ht hle' (by omega))
  | cons y pre ih =>
    intro dk ck suf r a hdk ht hr hle hs hlt
    obtain ⟨p0, c0⟩ := y
    simp only [List.cons_append, List.map_cons] at hle hs hlt ⊢
    cases hle with
    | cons h0 hle' =>
      rename_i a0 a'
      simp only [List.sum_cons] at hs
      rcases List.cons_lt_cons_iff.mp hlt with h | ⟨h1, h2⟩
      · exact le_of_lt (List.cons_lt_cons_iff.mpr (Or.inl h))
      · rw [h1]
        exact cons_le_cons_same _ (ih dk ck suf r a' hdk ht hr hle' (by omega) h2)

/-- vectors under the constraint with the given total -/
def Adm (c : List ℕ) (tau : ℕ) (a : List ℕ) : Prop := List.Forall₂ (· ≤ ·) a c ∧ a.sum = tau

theorem zip_maps (d c : List ℕ) (h : d.length = c.length) :
    (d.zip c).map (·.1) = d ∧ (d.zip c).map (·.2) = c :=
  ⟨List.map_fst_zip (by omega), List.map_snd_zip (by omega)⟩

/-- (B) the step goes to the predecessor: nothing admissible lies strictly between -/
theorem increment_is_pred (g c g' a : List ℕ) (tau : ℕ) (hg : Adm c tau g) (ha : Adm c tau a)
    (h : incrementDosage g c = some g') (hlt : a < g) : a ≤ g' := by
  obtain ⟨pre, dk, ck, suf, e, hdk, ht, hrem, rfl⟩ := incrementDosage_pred g c g' h
  obtain ⟨m1, m2⟩ := zip_maps g c hg.1.length_eq
  rw [e] at m1 m2
  apply pred_lemma pre dk ck suf _ a hdk ht
  · intro b hb hs
    exact fillGreedy_lexmax _ _ b hrem hb hs
  · rw [m2]; exact ha.1
  · rw [m1, ha.2, hg.2]
  · rw [m1]; exact hlt

/-- (C) a stuck vector has nothing admissible below it -/
theorem stuck_is_min (g c a : List ℕ) (tau : ℕ) (hg : Adm c tau g) (ha : Adm c tau a)
    (h : incrementDosage g c = none) : ¬ a < g := by
  have ht := incrementDosage_stuck g c h
  obtain ⟨m1, m2⟩ := zip_maps g c hg.1.length_eq
  have := tight_lexmin (g.zip c) a ht (by rw [m2]; exact ha.1) (by rw [m1, ha.2, hg.2])
  rw [m1] at this; exact this

/-! ### the fuel of `enumGo` suffices: mixed-radix rank -/

def rank : List ℕ → List ℕ → ℕ
  | [], _ => 0
  | _, [] => 0
  | x :: g, _ :: cs => x * boxSize cs + rank g cs

theorem boxSize_cons (c : ℕ) (cs : List ℕ) : boxSize (c :: cs) = (c + 1) * boxSize cs := by
  simp [boxSize]

theorem rank_lt_box {g c : List ℕ} (h : List.Forall₂ (· ≤ ·) g c) : rank g c < boxSize c := by
  induction h with
  | nil => simp [rank, boxSize]
  | @cons x cx g cs hab _ ih =>
    rw [rank, boxSize_cons]
    have : x * boxSize cs ≤ cx * boxSize cs := Nat.mul_le_mul_right _ hab
    nlinarith

theorem rank_mono : ∀ {a c : List ℕ}, List.Forall₂ (· ≤ ·) a c → ∀ g, List.Forall₂ (· ≤ ·) g c →
    a < g → rank a c < rank g c := by
  intro a c ha
  induction ha with
  | nil => intro g hg hlt; cases hg; simp at hlt
  | @cons a0 c0 a' cs hab ha' ih =>
    intro g hg hlt
    cases hg with
    | cons hgb hg' =>
      rename_i g0 g'
      rw [rank, rank]
      rcases List.cons_lt_cons_iff.mp hlt with h | ⟨h1, h2⟩
      · have hb := rank_lt_box ha'
        have : (a0 + 1) * boxSize cs ≤ g0 * boxSize cs := Nat.mul_le_mul_right _ h
        nlinarith
      · rw [h1]
        have := ih g' hg' h2
        omega

theorem enumGo_complete : ∀ (f : ℕ) (c g : List ℕ) (tau : ℕ), Adm c tau g → rank g c < f →
    ∃ out, enumGo f c g = some out ∧ (∀ a, Adm c tau a → a ≤ g → a ∈ out) ∧ out.Nodup ∧
      (∀ x ∈ out, x ≤ g) := by
  intro f
  induction f with
  | zero => intro c g tau _ h; omega
  | succ f ih =>
    intro c g tau hg hr
    simp only [enumGo]
    cases hi : incrementDosage g c with
    | none =>
      refine ⟨[g], rfl, ?_, by simp, by simp⟩
      intro a ha hle
      rcases lt_or_eq_of_le hle with h | h
      · exact absurd h (stuck_is_min g c a tau hg ha hi)
      · simp [h]
    | some g' =>
      obtain ⟨_, hs, hle', hlex⟩ := incrementDosage_decreasing g c g' hg.1 hi
      have hlt : g' < g := (List.lt_iff_lex_lt _ _).mpr hlex
      have hg' : Adm c tau g' := ⟨hle', by rw [hs, hg.2]⟩
      have hr' : rank g' c < f := by
        have := rank_mono hle' g hg.1 hlt
        omega
      obtain ⟨out', e, hall, hnd, hub⟩ := ih c g' tau hg' hr'
      refine ⟨g :: out', by simp [e], ?_, ?_, ?_⟩
      · intro a ha hle
        rcases lt_or_eq_of_le hle with h | h
        · exact List.mem_cons_of_mem _ (hall a ha (increment_is_pred g c g' a tau hg ha hi h))
        · simp [h]
      · refine List.nodup_cons.mpr ⟨?_, hnd⟩
        intro hmem
        have := hub g hmem
        exact absurd (lt_of_le_of_lt this hlt) (lt_irrefl _)
      · intro x hx
        rcases List.mem_cons.mp hx with rfl | hx
        · exact le_refl _
        · exact le_trans (hub x hx) (le_of_lt hlt)

/-- **general completeness of the literal enumerator**: whenever the gamete fits
    (`τ ≤ Σ constraint`), `enumDosage τ c` lists exactly the vectors under the constraint with
    total `τ`, each once -/
theorem enumDosage_complete (tau : ℕ) (c : List ℕ) (h : tau ≤ c.sum) :
    (enumDosage tau c).Nodup ∧ ∀ a, a ∈ enumDosage tau c ↔ Adm c tau a := by
  obtain ⟨f1, f2⟩ := fillGreedy_spec c tau
  have f3 := fillGreedy_rem_zero c tau h
  have hinit : setInitialDosage tau c = some (fillGreedy tau c).1 := by
    unfold setInitialDosage; simp [f3]
  have hg0 : Adm c tau (fillGreedy tau c).1 := ⟨f2, by omega⟩
  obtain ⟨out, e, hall, hnd, _⟩ := enumGo_complete (boxSize c + 1) c _ tau hg0
    (by have := rank_lt_box f2; omega)
  have hE : enumDosage tau c = out := by
    unfold enumDosage enumDosage?
    rw [hinit]; simp [e]
  rw [hE]
  refine ⟨hnd, fun a => ⟨?_, ?_⟩⟩
  · intro ha
    have := enumDosage_sound tau c a (by rw [hE]; exact ha)
    exact ⟨this.2, this.1⟩
  · intro ha
    exact hall a ha (fillGreedy_lexmax c tau a f3 ha.1 ha.2)

theorem mem_enumSpec (tau : ℕ) (c a : List ℕ) : a ∈ enumSpec tau c ↔ Adm c tau a := by
  unfold enumSpec Adm
  rw [List.mem_filter, mem_compositions_iff]
  constructor
  · rintro ⟨⟨h1, h2⟩, h3⟩
    exact ⟨(forall₂_le_iff a c h1).mpr ((vle_iff a c h1).mp h3), h2⟩
  · rintro ⟨h1, h2⟩
    have hl := h1.length_eq
    exact ⟨⟨hl, h2⟩, (vle_iff a c hl).mpr ((forall₂_le_iff a c hl).mp h1)⟩

/-- the literal enumerator is a permutation of the reference enumeration -/
theorem enumDosage_perm_spec (tau : ℕ) (c : List ℕ) (h : tau ≤ c.sum) :
    (enumDosage tau c).Perm (enumSpec tau c) := by
  obtain ⟨hnd, hmem⟩ := enumDosage_complete tau c h
  have hnd2 : (enumSpec tau c).Nodup := by
    unfold enumSpec; exact (compositions_nodup _ _).filter _
  rw [List.perm_ext_iff_of_nodup hnd hnd2]
  intro a
  rw [hmem, mem_enumSpec]

end MCHap
