import MCHap.Proofs.Trie

/-! The value-slot half of the `arraymap` refinement: frame lemmas for the node-allocation loop and
    the abstraction of a well-formed map to a finite map. -/
namespace MCHap.Trie
open MCHap

/-- if the loop starts at a node whose row is empty, everything below is newly allocated:
    the returned leaf is new (or the start node itself for an empty key) and its row is empty -/
theorem insertPath_all_new : ∀ (rest : List ℕ) (t : PTree) (en node : ℕ),
    (∀ j, t node j = -1) → (∀ u j, en ≤ u → t u j = -1) → node < en →
    let r := insertPath t en node rest
    (∀ j, r.1 r.2.2 j = -1) ∧ (∀ u j, r.2.1 ≤ u → r.1 u j = -1) ∧ r.2.2 < r.2.1 ∧
    (rest ≠ [] → en ≤ r.2.2) := by
  intro rest
  induction rest with
  | nil => intro t en node h1 h2 h3; exact ⟨by simpa [insertPath] using h1, by simpa [insertPath] using h2, by simpa [insertPath] using h3, by simp⟩
  | cons j js ih =>
    intro t en node h1 h2 h3
    have hnull : t node j < 0 := by rw [h1 j]; omega
    simp only [insertPath, hnull, if_true]
    have hrow : ∀ j', updTree t node j (en : ℤ) en j' = -1 := by
      intro j'
      unfold updTree
      have : ¬ (en = node ∧ j' = j) := by omega
      simp only [this, if_false]; exact h2 en j' (le_refl _)
    have hfresh : ∀ u j', en + 1 ≤ u → updTree t node j (en : ℤ) u j' = -1 := by
      intro u j' hu
      unfold updTree
      have : ¬ (u = node ∧ j' = j) := by omega
      simp only [this, if_false]; exact h2 u j' (by omega)
    obtain ⟨i1, i2, i3, i4⟩ := ih (updTree t node j (en : ℤ)) (en + 1) en hrow hfresh (by omega)
    refine ⟨i1, i2, i3, ?_⟩
    intro _
    by_cases hjs : js = []
    · subst hjs; simp [insertPath]
    · have := i4 hjs; omega

/-- either the whole key was already present (nothing changes), or the returned leaf is a new node
    with an empty row -/
theorem insertPath_cases {L : ℕ} : ∀ (rest : List ℕ) (t : PTree) (en node : ℕ) (π : List ℕ),
    WF t en L → walk t 0 π = some node → π.length + rest.length ≤ L →
    let r := insertPath t en node rest
    (r.1 = t ∧ r.2.1 = en ∧ walk t node rest = some r.2.2) ∨ (en ≤ r.2.2 ∧ ∀ j, r.1 r.2.2 j = -1) := by
  intro rest
  induction rest with
  | nil => intro t en node π _ _ _; left; simp [insertPath, walk]
  | cons j js ih =>
    intro t en node π wf hπ hlen
    simp only [List.length_cons] at hlen
    have hnode : node < en := wf.reach_lt π node (by omega) hπ
    by_cases hnull : t node j < 0
    · right
      simp only [insertPath, hnull, if_true]
      have hrow : ∀ j', updTree t node j (en : ℤ) en j' = -1 := by
        intro j'
        unfold updTree
        have : ¬ (en = node ∧ j' = j) := by omega
        simp only [this, if_false]; exact wf.fresh en j' (le_refl _)
      have hfresh : ∀ u j', en + 1 ≤ u → updTree t node j (en : ℤ) u j' = -1 := by
        intro u j' hu
        unfold updTree
        have : ¬ (u = node ∧ j' = j) := by omega
        simp only [this, if_false]; exact wf.fresh u j' (by omega)
      obtain ⟨i1, _, _, i4⟩ := insertPath_all_new js (updTree t node j (en : ℤ)) (en + 1) en hrow hfresh (by omega)
      refine ⟨?_, i1⟩
      by_cases hjs : js = []
      · subst hjs; simp [insertPath]
      · have := i4 hjs; omega
    · simp only [insertPath, hnull, if_false]
      have hchild : walk t 0 (π ++ [j]) = some (t node j).toNat := by
        rw [walk_append, hπ]; simp [walk, hnull]
      rcases ih t en (t node j).toNat (π ++ [j]) wf hchild (by simp; omega) with h | h
      · left
        refine ⟨h.1, h.2.1, ?_⟩
        simp only [walk, hnull, if_false]; exact h.2.2
      · right; exact h

/-- frame: a cell changed by the loop belongs to a new node or is the child cell, along the key,
    of an old node reached by a strict prefix of the key -/
theorem insertPath_frame : ∀ (rest : List ℕ) (t : PTree) (en node : ℕ),
    (∀ u j, en ≤ u → t u j = -1) → node < en →
    (∀ ρ u, ρ.length ≤ rest.length → walk t node ρ = some u → u < en) →
    ∀ u j, (insertPath t en node rest).1 u j ≠ t u j →
      en ≤ u ∨ ∃ ρ₁ ρ₂, rest = ρ₁ ++ j :: ρ₂ ∧ walk t node ρ₁ = some u := by
  intro rest
  induction rest with
  | nil => intro t en node _ _ _ u j h; simp [insertPath] at h
  | cons j0 js ih =>
    intro t en node hfresh hnode hreach u j h
    by_cases hnull : t node j0 < 0
    · simp only [insertPath, hnull, if_true] at h
      by_cases hstep : updTree t node j0 (en : ℤ) u j = t u j
      · -- the change happened deeper, below the new node `en`
        have hrow : ∀ j', updTree t node j0 (en : ℤ) en j' = -1 := by
          intro j'
          unfold updTree
          have : ¬ (en = node ∧ j' = j0) := by omega
          simp only [this, if_false]; exact hfresh en j' (le_refl _)
        have hfresh' : ∀ u' j', en + 1 ≤ u' → updTree t node j0 (en : ℤ) u' j' = -1 := by
          intro u' j' hu
          unfold updTree
          have : ¬ (u' = node ∧ j' = j0) := by omega
          simp only [this, if_false]; exact hfresh u' j' (by omega)
        have hreach' : ∀ ρ u', ρ.length ≤ js.length → walk (updTree t node j0 (en : ℤ)) en ρ = some u' → u' < en + 1 := by
          intro ρ u' _ hw
          cases ρ with
          | nil => simp [walk] at hw; omega
          | cons a as => simp [walk, hrow a] at hw
        have := ih (updTree t node j0 (en : ℤ)) (en + 1) en hfresh' (by omega) hreach' u j (by rw [hstep]; exact h)
        rcases this with h1 | ⟨ρ₁, ρ₂, _, hw⟩
        · left; omega
        · left
          cases ρ₁ with
          | nil => simp [walk] at hw; omega
          | cons a as => simp [walk, hrow a] at hw
      · -- the changed cell is the freshly linked one
        right
        have : u = node ∧ j = j0 := by
          unfold updTree at hstep
          by_contra hc
          exact hstep (by simp only [hc, if_false])
        refine ⟨[], js, by simp [this.2], by simp [walk, this.1]⟩
    · simp only [insertPath, hnull, if_false] at h
      have hc : (t node j0).toNat < en := hreach [j0] _ (by simp) (by simp [walk, hnull])
      have hreach' : ∀ ρ u', ρ.length ≤ js.length → walk t (t node j0).toNat ρ = some u' → u' < en := by
        intro ρ u' hl hw
        exact hreach (j0 :: ρ) u' (by simpa using hl) (by simp only [walk, hnull, if_false]; exact hw)
      rcases ih t en (t node j0).toNat hfresh hc hreach' u j h with h1 | ⟨ρ₁, ρ₂, he, hw⟩
      · left; exact h1
      · right
        refine ⟨j0 :: ρ₁, ρ₂, by simp [he], ?_⟩
        simp only [walk, hnull, if_false]; exact hw

/-- walks of length ≤ L never read the value cell of a depth-L leaf -/
theorem walk_upd_leaf {t : PTree} {en L : ℕ} (wf : WF t en L) {key : List ℕ} {leaf : ℕ}
    (hk : key.length = L) (hw : walk t 0 key = some leaf) (v : ℤ) (ρ : List ℕ) (hρ : ρ.length ≤ L) :
    walk (updTree t leaf 0 v) 0 ρ = walk t 0 ρ := by
  apply walk_upd_of_avoid
  intro ρ₁ ρ₂ w hdec hw1 hwl
  subst hwl
  have hl1 : ρ₁.length ≤ L := by rw [hdec] at hρ; simp at hρ; omega
  have := wf.inj ρ₁ key w hl1 (by omega) hw1 hw
  subst this
  rw [hdec] at hρ; simp at hρ; omega

theorem WF_upd_leaf {t : PTree} {en L : ℕ} (wf : WF t en L) {key : List ℕ} {leaf : ℕ}
    (hk : key.length = L) (hw : walk t 0 key = some leaf) (v : ℤ) :
    WF (updTree t leaf 0 v) en L := by
  have hleaf : leaf < en := wf.reach_lt key leaf (by omega) hw
  refine ⟨wf.en_pos, ?_, ?_, ?_⟩
  · intro ρ u hρ h
    rw [walk_upd_leaf wf hk hw v ρ hρ] at h
    exact wf.reach_lt ρ u hρ h
  · intro ρ ρ' u hρ hρ' h h'
    rw [walk_upd_leaf wf hk hw v ρ hρ] at h
    rw [walk_upd_leaf wf hk hw v ρ' hρ'] at h'
    exact wf.inj ρ ρ' u hρ hρ' h h'
  · intro u j hu
    unfold updTree
    have : ¬ (u = leaf ∧ j = 0) := by omega
    simp only [this, if_false]
    exact wf.fresh u j hu

/-! ### the represented finite map and the invariant -/

/-- the finite map a trie represents: the value stored for `key`, `none` = absent -/
def absGet (m : AMap) (key : List ℕ) : Option ℚ :=
  match walk m.tree 0 key with
  | none => none
  | some leaf => if m.tree leaf 0 < 0 then none else m.values (m.tree leaf 0).toNat

structure Inv (m : AMap) : Prop where
  wf : WF m.tree m.emptyNode m.keyLen
  /-- value indices of stored keys are allocated -/
  val_lt : ∀ key leaf, key.length = m.keyLen → walk m.tree 0 key = some leaf →
    ¬ m.tree leaf 0 < 0 → (m.tree leaf 0).toNat < m.emptyValues
  /-- two stored keys never share a value slot -/
  val_inj : ∀ key key' leaf leaf', key.length = m.keyLen → key'.length = m.keyLen →
    walk m.tree 0 key = some leaf → walk m.tree 0 key' = some leaf' →
    ¬ m.tree leaf 0 < 0 → ¬ m.tree leaf' 0 < 0 → m.tree leaf 0 = m.tree leaf' 0 → key = key'
  /-- unallocated value slots hold NaN (so the miss sentinel `values[empty_values]` is NaN) -/
  val_fresh : ∀ i, m.emptyValues ≤ i → m.values i = none

theorem Inv_new (kl br ini mx : ℕ) : Inv (AMap.new kl br ini mx) := by
  refine ⟨?_, ?_, ?_, fun _ _ => rfl⟩
  · refine ⟨le_refl _, ?_, ?_, fun _ _ _ => rfl⟩
    · intro π u _ h
      cases π with
      | nil =>
        have : u = 0 := by simpa [walk] using h.symm
        subst this; simp [AMap.new]
      | cons j js => simp [AMap.new, walk] at h
    · intro π π' u _ _ h h'
      cases π with
      | nil =>
        cases π' with
        | nil => rfl
        | cons j js => simp [AMap.new, walk] at h'
      | cons j js => simp [AMap.new, walk] at h
  · intro key leaf _ _ h; simp [AMap.new] at h
  · intro key key' leaf leaf' _ _ _ _ h; simp [AMap.new] at h

theorem Inv_flushed (m : AMap) : Inv m.flushed := by
  have := Inv_new m.keyLen m.branches m.treeLen m.maxSize
  exact ⟨this.wf, this.val_lt, this.val_inj, this.val_fresh⟩

/-- **`get` returns exactly the represented map** (a miss is the NaN sentinel) -/
theorem get_eq_abs (m : AMap) (h : Inv m) (key : List ℕ) : m.get key = absGet m key := by
  unfold AMap.get absGet
  cases walk m.tree 0 key with
  | none => exact h.val_fresh _ (le_refl _)
  | some leaf =>
    simp only
    split
    · exact h.val_fresh _ (le_refl _)
    · rfl

theorem absGet_flushed (m : AMap) (key : List ℕ) : absGet m.flushed key = none := by
  unfold absGet AMap.flushed
  cases key with
  | nil => simp [walk]
  | cons j js => simp [walk]

/-- the node loop either completes (`insertLoop_ok` in C09), reports `full`, or flushes some
    intermediate state with the same key length -/
theorem insertLoop_flushed (e : Bool) : ∀ (key : List ℕ) (m : AMap) (node : ℕ) (m' : AMap) (x : ℕ),
    insertLoop e m node key = (.flushed m', x) → ∃ mm : AMap, m' = mm.flushed ∧ mm.keyLen = m.keyLen := by
  intro key
  induction key with
  | nil => intro m node m' x h; simp [insertLoop] at h
  | cons j js ih =>
    intro m node m' x h
    unfold insertLoop at h
    by_cases hnull : m.tree node j < 0
    · simp only [hnull, if_true] at h
      split at h
      · split at h
        · split at h
          · simp only [Prod.mk.injEq, SetResult.flushed.injEq] at h
            exact ⟨m, h.1.symm, rfl⟩
          · simp at h
        · obtain ⟨mm, h1, h2⟩ := ih _ _ _ _ h
          exact ⟨mm, h1, by simpa using h2⟩
      · obtain ⟨mm, h1, h2⟩ := ih _ _ _ _ h
        exact ⟨mm, h1, by simpa using h2⟩
    · simp only [hnull, if_false] at h
      exact ih _ _ _ _ h

end MCHap.Trie
