import MCHap.Proofs.TrieMap

/-! `arraymap.set` refines the finite-map update (or a flush). -/
namespace MCHap.Trie
open MCHap

/-- the node loop of the model is `insertPath` plus length bookkeeping -/
theorem insertLoop_ok' (e : Bool) : ∀ (key : List ℕ) (m : AMap) (node : ℕ) (m1 : AMap) (leaf : ℕ),
    insertLoop e m node key = (.ok m1, leaf) →
    m1.tree = (insertPath m.tree m.emptyNode node key).1 ∧
    m1.emptyNode = (insertPath m.tree m.emptyNode node key).2.1 ∧
    leaf = (insertPath m.tree m.emptyNode node key).2.2 ∧
    m1.values = m.values ∧ m1.emptyValues = m.emptyValues ∧ m1.valuesLen = m.valuesLen ∧
    m1.keyLen = m.keyLen ∧ m1.maxSize = m.maxSize := by
  intro key
  induction key with
  | nil =>
    intro m node m1 leaf h
    simp only [insertLoop, Prod.mk.injEq, SetResult.ok.injEq] at h
    obtain ⟨rfl, rfl⟩ := h
    simp [insertPath]
  | cons j js ih =>
    intro m node m1 leaf h
    unfold insertLoop at h
    unfold insertPath
    by_cases hnull : m.tree node j < 0
    · simp only [hnull, if_true] at h ⊢
      split at h
      · split at h
        · split at h <;> simp at h
        · have := ih _ _ _ _ h
          simpa using this
      · have := ih _ _ _ _ h
        simpa using this
    · simp only [hnull, if_false] at h ⊢
      exact ih _ _ _ _ h

/-- core of the refinement, on the fields the abstraction depends on: storing `v` for `key` in a
    well-formed map whose node loop has completed -/
theorem store_refines (m : AMap) (h : Inv m) (key : List ℕ) (hk : key.length = m.keyLen) (v : Option ℚ)
    (m' : AMap)
    (hkl : m'.keyLen = m.keyLen)
    (hcase :
      let r := insertPath m.tree m.emptyNode 0 key
      (r.1 r.2.2 0 < 0 ∧ m'.tree = updTree r.1 r.2.2 0 (m.emptyValues : ℤ) ∧ m'.emptyNode = r.2.1 ∧
        m'.emptyValues = m.emptyValues + 1 ∧ m'.values = updVal m.values m.emptyValues v) ∨
      (¬ r.1 r.2.2 0 < 0 ∧ m'.tree = r.1 ∧ m'.emptyNode = r.2.1 ∧
        m'.emptyValues = m.emptyValues ∧ m'.values = updVal m.values (r.1 r.2.2 0).toNat v)) :
    Inv m' ∧ ∀ key', key'.length = m.keyLen →
      absGet m' key' = if key' = key then v else absGet m key' := by
  -- facts about the node loop
  have hroot : walk m.tree 0 ([] : List ℕ) = some 0 := by simp [walk]
  have spec := Trie.insertPath_spec key m.tree m.emptyNode 0 [] h.wf hroot (by simp; omega)
  have cases' := insertPath_cases key m.tree m.emptyNode 0 [] h.wf hroot (by simp; omega)
  have frame := insertPath_frame key m.tree m.emptyNode 0 h.wf.fresh (by have := h.wf.en_pos; omega)
    (fun ρ u hl hw => h.wf.reach_lt ρ u (by omega) hw)
  simp only at spec cases' hcase
  set r := insertPath m.tree m.emptyNode 0 key with hr
  obtain ⟨wf1, hen, hwkey, hpres, hback⟩ := spec
  simp only [List.nil_append] at hwkey hback
  -- walks of full-length keys other than `key` are the same in both trees, with unchanged value cell
  have other : ∀ key', key'.length = m.keyLen → key' ≠ key →
      walk r.1 0 key' = walk m.tree 0 key' ∧
      ∀ leaf', walk m.tree 0 key' = some leaf' → r.1 leaf' 0 = m.tree leaf' 0 := by
    intro key' hk' hne
    constructor
    · cases hw : walk m.tree 0 key' with
      | some u => exact hpres key' u (by omega) hw
      | none =>
        cases hw' : walk r.1 0 key' with
        | none => rfl
        | some u =>
          rcases hback key' u (by omega) hw' with h1 | ⟨_, hpre, _⟩
          · rw [hw] at h1; cases h1
          · exfalso
            have : key' = key := List.IsPrefix.eq_of_length hpre (by omega)
            exact hne this
    · intro leaf' hw'
      by_contra hch
      rcases frame leaf' 0 hch with h1 | ⟨ρ₁, ρ₂, hdec, hw1⟩
      · have := h.wf.reach_lt key' leaf' (by omega) hw'; omega
      · have hl1 : ρ₁.length ≤ m.keyLen := by rw [← hk, hdec]; simp
        have := h.wf.inj ρ₁ key' leaf' hl1 (by omega) hw1 hw'
        subst this
        have : key.length = ρ₁.length + 1 + ρ₂.length := by rw [hdec]; simp; omega
        omega
  have hleaf_lt : r.2.2 < r.2.1 := wf1.reach_lt key r.2.2 (by omega) hwkey
  rcases hcase with ⟨hneg, ht, he, hev, hv⟩ | ⟨hpos, ht, he, hev, hv⟩
  · ---------------------------------------------------------------- a new value slot
    have wf2 : WF m'.tree m'.emptyNode m'.keyLen := by
      rw [ht, he, hkl]; exact WF_upd_leaf wf1 hk hwkey _
    have hw2 : ∀ ρ, ρ.length ≤ m.keyLen → walk m'.tree 0 ρ = walk r.1 0 ρ := by
      intro ρ hρ; rw [ht]; exact walk_upd_leaf wf1 hk hwkey _ ρ hρ
    have hcell_key : m'.tree r.2.2 0 = (m.emptyValues : ℤ) := by rw [ht]; simp [updTree]
    have hcell_other : ∀ u, u ≠ r.2.2 → m'.tree u 0 = r.1 u 0 := by
      intro u hu; rw [ht]; simp [updTree, hu]
    -- description of every stored key of the new map
    have stored : ∀ key' leaf', key'.length = m.keyLen → walk m'.tree 0 key' = some leaf' →
        ¬ m'.tree leaf' 0 < 0 →
        (key' = key ∧ leaf' = r.2.2) ∨
        (key' ≠ key ∧ walk m.tree 0 key' = some leaf' ∧ ¬ m.tree leaf' 0 < 0 ∧ m'.tree leaf' 0 = m.tree leaf' 0) := by
      intro key' leaf' hk' hw' hc'
      rw [hw2 key' (by omega)] at hw'
      by_cases hkk : key' = key
      · left; subst hkk; rw [hwkey] at hw'; exact ⟨rfl, (Option.some.inj hw').symm⟩
      · right
        obtain ⟨o1, o2⟩ := other key' hk' hkk
        rw [o1] at hw'
        have hne : leaf' ≠ r.2.2 := by
          intro heq
          have h1 : walk r.1 0 key' = some r.2.2 := by rw [o1, hw', heq]
          exact hkk (wf1.inj key' key r.2.2 (by omega) (by omega) h1 hwkey)
        have hc2 : m'.tree leaf' 0 = m.tree leaf' 0 := by rw [hcell_other leaf' hne, o2 leaf' hw']
        exact ⟨hkk, hw', by rw [← hc2]; exact hc', hc2⟩
    refine ⟨⟨wf2, ?_, ?_, ?_⟩, ?_⟩
    · intro key' leaf' hk' hw' hc'
      rw [hkl] at hk'
      rcases stored key' leaf' hk' hw' hc' with ⟨_, rfl⟩ | ⟨_, hwm, hcm, hceq⟩
      · rw [hcell_key, hev]; simp
      · rw [hceq, hev]
        have := h.val_lt key' leaf' hk' hwm hcm; omega
    · intro k1 k2 l1 l2 hk1 hk2 hw1 hw2' hc1 hc2 heq
      rw [hkl] at hk1 hk2
      rcases stored k1 l1 hk1 hw1 hc1 with ⟨e1, rfl⟩ | ⟨n1, hwm1, hcm1, hceq1⟩
      · rcases stored k2 l2 hk2 hw2' hc2 with ⟨e2, _⟩ | ⟨_, hwm2, hcm2, hceq2⟩
        · rw [e1, e2]
        · exfalso
          rw [hcell_key, hceq2] at heq
          have := h.val_lt k2 l2 hk2 hwm2 hcm2
          have h0 : ¬ m.tree l2 0 < 0 := hcm2
          omega
      · rcases stored k2 l2 hk2 hw2' hc2 with ⟨e2, rfl⟩ | ⟨_, hwm2, hcm2, hceq2⟩
        · exfalso
          rw [hcell_key, hceq1] at heq
          have := h.val_lt k1 l1 hk1 hwm1 hcm1
          have h0 : ¬ m.tree l1 0 < 0 := hcm1
          omega
        · rw [hceq1, hceq2] at heq
          exact h.val_inj k1 k2 l1 l2 hk1 hk2 hwm1 hwm2 hcm1 hcm2 heq
    · intro i hi
      rw [hv, hev] at *
      unfold updVal
      have : i ≠ m.emptyValues := by omega
      simp only [this, if_false]
      exact h.val_fresh i (by omega)
    · intro key' hk'
      unfold absGet
      rw [hw2 key' (by omega)]
      by_cases hkk : key' = key
      · subst hkk
        simp only [hwkey, if_true, hcell_key]
        have : ¬ ((m.emptyValues : ℤ) < 0) := by omega
        simp only [this, if_false, hv, updVal, Int.toNat_natCast, if_true]
      · obtain ⟨o1, o2⟩ := other key' hk' hkk
        simp only [hkk, if_false, o1]
        cases hw : walk m.tree 0 key' with
        | none => rfl
        | some leaf' =>
          have hne : leaf' ≠ r.2.2 := by
            intro heq
            have h1 : walk r.1 0 key' = some r.2.2 := by rw [o1, hw, heq]
            exact hkk (wf1.inj key' key r.2.2 (by omega) (by omega) h1 hwkey)
          simp only [hcell_other leaf' hne, o2 leaf' hw]
          split
          · rfl
          · rename_i hc
            have := h.val_lt key' leaf' hk' hw hc
            rw [hv]; unfold updVal
            have : (m.tree leaf' 0).toNat ≠ m.emptyValues := by omega
            simp only [this, if_false]
  · ---------------------------------------------------------------- the key was present: overwrite
    have hsame : r.1 = m.tree ∧ r.2.1 = m.emptyNode ∧ walk m.tree 0 key = some r.2.2 := by
      rcases cases' with hc | ⟨_, hrow⟩
      · exact hc
      · exfalso; apply hpos; rw [hrow 0]; omega
    obtain ⟨s1, s2, s3⟩ := hsame
    rw [s1] at ht hv hpos
    rw [s2] at he
    refine ⟨⟨by rw [ht, he, hkl]; exact h.wf, ?_, ?_, ?_⟩, ?_⟩
    · intro key' leaf' hk' hw' hc'
      rw [ht] at hw' hc' ⊢; rw [hkl] at hk'; rw [hev]
      exact h.val_lt key' leaf' hk' hw' hc'
    · intro k1 k2 l1 l2 hk1 hk2 hw1 hw2 hc1 hc2 heq
      rw [ht] at hw1 hw2 hc1 hc2 heq; rw [hkl] at hk1 hk2
      exact h.val_inj k1 k2 l1 l2 hk1 hk2 hw1 hw2 hc1 hc2 heq
    · intro i hi
      rw [hv]; unfold updVal
      have hlt := h.val_lt key r.2.2 hk s3 hpos
      rw [hev] at hi
      have : i ≠ (m.tree r.2.2 0).toNat := by omega
      simp only [this, if_false]
      exact h.val_fresh i hi
    · intro key' hk'
      unfold absGet
      rw [ht]
      by_cases hkk : key' = key
      · subst hkk
        simp only [s3, if_true, hpos, if_false, hv, updVal]
      · simp only [hkk, if_false]
        cases hw : walk m.tree 0 key' with
        | none => rfl
        | some leaf' =>
          simp only
          split
          · rfl
          · rename_i hc
            rw [hv]; unfold updVal
            have : (m.tree leaf' 0).toNat ≠ (m.tree r.2.2 0).toNat := by
              intro heq
              have h1 : m.tree leaf' 0 = m.tree r.2.2 0 := by
                have a1 : 0 ≤ m.tree leaf' 0 := by omega
                have a2 : 0 ≤ m.tree r.2.2 0 := by omega
                omega
              exact hkk (h.val_inj key' key leaf' r.2.2 hk' hk hw s3 hc hpos h1)
            simp only [this, if_false]

/-- **`arraymap.set` refines the finite map**: on a well-formed map, `set key v` either yields a
    well-formed map representing `old[key ↦ v]`, or (overflow with `empty_if_full`) a well-formed
    empty map, or the `ValueError` outcome; nothing else -/
theorem set_refines (m : AMap) (h : Inv m) (key : List ℕ) (hk : key.length = m.keyLen) (v : Option ℚ)
    (e : Bool) (res : SetResult) :
    m.set key v e = res →
    match res with
    | .ok m' => Inv m' ∧ m'.keyLen = m.keyLen ∧
        ∀ key', key'.length = m.keyLen → absGet m' key' = if key' = key then v else absGet m key'
    | .flushed m' => Inv m' ∧ m'.keyLen = m.keyLen ∧ ∀ key', absGet m' key' = none
    | .full => True := by
  intro hres
  unfold AMap.set at hres
  cases hloop : insertLoop e m 0 key with
  | mk lres leaf =>
    rw [hloop] at hres
    cases lres with
    | full => subst hres; trivial
    | flushed mf =>
      subst hres
      obtain ⟨mm, rfl, hkl⟩ := insertLoop_flushed e key m 0 mf leaf hloop
      exact ⟨Inv_flushed mm, hkl, fun key' => absGet_flushed mm key'⟩
    | ok m1 =>
      obtain ⟨e1, e2, e3, e4, e5, _, e7, _⟩ := insertLoop_ok' e key m 0 m1 leaf hloop
      simp only at hres
      by_cases hneg : m1.tree leaf 0 < 0
      · simp only [hneg, if_true] at hres
        have hcase : ∀ m' : AMap, m'.keyLen = m.keyLen →
            m'.tree = updTree m1.tree leaf 0 (m1.emptyValues : ℤ) → m'.emptyNode = m1.emptyNode →
            m'.emptyValues = m1.emptyValues + 1 → m'.values = updVal m1.values m1.emptyValues v →
            Inv m' ∧ ∀ key', key'.length = m.keyLen →
              absGet m' key' = if key' = key then v else absGet m key' := by
          intro m' a1 a2 a3 a4 a5
          apply store_refines m h key hk v m' a1
          left
          rw [← e1, ← e2, ← e3, ← e5, ← e4]
          exact ⟨hneg, a2, a3, a4, a5⟩
        by_cases hf1 : m1.emptyValues + 1 + 1 ≥ m1.valuesLen
        · simp only [hf1, if_true] at hres
          by_cases hf2 : m1.valuesLen * 2 > m1.maxSize
          · simp only [hf2, if_true] at hres
            cases e with
            | true =>
              simp only [if_true] at hres; subst hres
              exact ⟨Inv_flushed m1, e7, fun key' => absGet_flushed m1 key'⟩
            | false => simp at hres; subst hres; trivial
          · simp only [hf2, if_false] at hres; subst hres
            obtain ⟨i1, i2⟩ := hcase
              { tree := updTree m1.tree leaf 0 (m1.emptyValues : ℤ), treeLen := m1.treeLen,
                values := updVal m1.values m1.emptyValues v, valuesLen := m1.valuesLen * 2,
                keyLen := m1.keyLen, branches := m1.branches, emptyNode := m1.emptyNode,
                emptyValues := m1.emptyValues + 1, maxSize := m1.maxSize } e7 rfl rfl rfl rfl
            exact ⟨i1, e7, i2⟩
        · simp only [hf1, if_false] at hres; subst hres
          obtain ⟨i1, i2⟩ := hcase
            { tree := updTree m1.tree leaf 0 (m1.emptyValues : ℤ), treeLen := m1.treeLen,
              values := updVal m1.values m1.emptyValues v, valuesLen := m1.valuesLen,
              keyLen := m1.keyLen, branches := m1.branches, emptyNode := m1.emptyNode,
              emptyValues := m1.emptyValues + 1, maxSize := m1.maxSize } e7 rfl rfl rfl rfl
          exact ⟨i1, e7, i2⟩
      · simp only [hneg, if_false] at hres; subst hres
        obtain ⟨i1, i2⟩ := store_refines m h key hk v
          { m1 with values := updVal m1.values (m1.tree leaf 0).toNat v } e7
          (by
            right
            rw [← e1, ← e2, ← e3, ← e5, ← e4]
            exact ⟨hneg, rfl, rfl, rfl, rfl⟩)
        exact ⟨i1, e7, i2⟩

end MCHap.Trie
