import MCHap.Proofs.IntervalRefine
import MCHap.Proofs.MH
import Mathlib.Analysis.SpecialFunctions.Pow.Real

/-! The literal interval-move kernels (`interval_step` on `haplotype_segment_labels`, the double-loop
    option enumerators, `structural_change`) refine the abstract path kernels on the multiset of
    (inside-segment, outside-segment) pairs, and therefore satisfy detailed balance. -/
set_option linter.unusedSectionVars false
namespace MCHap.Kernel
open MCHap MCHap.Paths Finset


section equivariance
variable {A B A' B' : Type} [DecidableEq A] [DecidableEq B] [DecidableEq A'] [DecidableEq B']

/-- a relabelling of segment pairs that is injective on the labels in use -/
structure Relabel (SA : Set A) (SB : Set B) (fa : A → A') (fb : B → B') (G : Multiset (A × B)) : Prop where
  ia : Set.InjOn fa SA
  ib : Set.InjOn fb SB
  mem : ∀ x ∈ G, x.1 ∈ SA ∧ x.2 ∈ SB

variable {SA : Set A} {SB : Set B} {fa : A → A'} {fb : B → B'} {G : Multiset (A × B)}

theorem Relabel.segCount (R : Relabel SA SB fa fb G) (a : A) (ha : a ∈ G.map Prod.fst) :
    segCount (G.map (Prod.map fa fb)) (fa a) = segCount G a := by
  unfold Paths.segCount
  have e : (G.map (Prod.map fa fb)).map Prod.fst = (G.map Prod.fst).map fa := by
    rw [Multiset.map_map, Multiset.map_map]; rfl
  rw [e]
  apply Multiset.count_map_eq_count fa _ _ a ha
  intro x hx y hy hxy
  simp only [Set.mem_ofPred_eq, Multiset.mem_map] at hx hy
  obtain ⟨x', hx', rfl⟩ := hx
  obtain ⟨y', hy', rfl⟩ := hy
  exact R.ia (R.mem x' hx').1 (R.mem y' hy').1 hxy

theorem Relabel.injOn (R : Relabel SA SB fa fb G) : Set.InjOn (Prod.map fa fb) {x | x ∈ G} := by
  intro x hx y hy hxy
  have h1 := R.ia (R.mem x hx).1 (R.mem y hy).1 (congrArg Prod.fst hxy)
  have h2 := R.ib (R.mem x hx).2 (R.mem y hy).2 (congrArg Prod.snd hxy)
  exact Prod.ext h1 h2

/-- the path map induced by a relabelling -/
def dMap (fa : A → A') (fb : B → B') (p : (A × B) × A) : (A' × B') × A' := (Prod.map fa fb p.1, fa p.2)

theorem Relabel.dPaths_image (R : Relabel SA SB fa fb G) :
    dPaths (G.map (Prod.map fa fb)) = (dPaths G).image (dMap fa fb) := by
  ext p'
  rw [Finset.mem_image, mem_dPaths]
  constructor
  · rintro ⟨h1, h2, h3, h4⟩
    obtain ⟨x, hx, hxe⟩ := Multiset.mem_map.mp h1
    have h2' : p'.2 ∈ (G.map (Prod.map fa fb)).map Prod.fst := Multiset.one_le_count_iff_mem.mp h2
    rw [Multiset.map_map] at h2'
    obtain ⟨y, hy, hye⟩ := Multiset.mem_map.mp h2'
    refine ⟨(x, y.1), ?_, ?_⟩
    · rw [mem_dPaths]
      have hx1 : x.1 ∈ G.map Prod.fst := Multiset.mem_map.mpr ⟨x, hx, rfl⟩
      have hy1 : y.1 ∈ G.map Prod.fst := Multiset.mem_map.mpr ⟨y, hy, rfl⟩
      refine ⟨hx, Multiset.one_le_count_iff_mem.mpr hy1, ?_, ?_⟩
      · rw [← R.segCount x.1 hx1]
        have : fa x.1 = p'.1.1 := by rw [← hxe]; rfl
        rw [this]; exact h3
      · intro e
        apply h4
        simp only at e
        rw [← hye, ← hxe]; simp [e]
    · simp only [dMap]
      ext
      · rw [hxe]
      · rw [hxe]
      · simp only; rw [← hye]; rfl
  · rintro ⟨p, hp, rfl⟩
    rw [mem_dPaths] at hp
    obtain ⟨h1, h2, h3, h4⟩ := hp
    have hx1 : p.1.1 ∈ G.map Prod.fst := Multiset.mem_map.mpr ⟨p.1, h1, rfl⟩
    have hy1 : p.2 ∈ G.map Prod.fst := Multiset.one_le_count_iff_mem.mp h2
    simp only [dMap]
    refine ⟨Multiset.mem_map.mpr ⟨p.1, h1, rfl⟩, ?_, ?_, ?_⟩
    · rw [R.segCount p.2 hy1]; exact h2
    · simp only [Prod.map_fst]; rw [R.segCount p.1.1 hx1]; exact h3
    · simp only [Prod.map_fst]
      intro e
      obtain ⟨y, hy, hye⟩ := Multiset.mem_map.mp hy1
      have := R.ia (by rw [← hye]; exact (R.mem y hy).1) (R.mem p.1 h1).1 e
      exact h4 this

theorem Relabel.dMap_injOn (R : Relabel SA SB fa fb G) : Set.InjOn (dMap fa fb) (dPaths G : Set _) := by
  intro p hp q hq hpq
  rw [Finset.mem_coe, mem_dPaths] at hp hq
  simp only [dMap, Prod.mk.injEq] at hpq
  have h1 := R.injOn hp.1 hq.1 hpq.1
  obtain ⟨y, hy, hye⟩ := Multiset.mem_map.mp (Multiset.one_le_count_iff_mem.mp hp.2.1)
  obtain ⟨z, hz, hze⟩ := Multiset.mem_map.mp (Multiset.one_le_count_iff_mem.mp hq.2.1)
  have h2 := R.ia (by rw [← hye]; exact (R.mem y hy).1) (by rw [← hze]; exact (R.mem z hz).1) hpq.2
  exact Prod.ext h1 h2

theorem Relabel.card_dPaths (R : Relabel SA SB fa fb G) :
    (dPaths (G.map (Prod.map fa fb))).card = (dPaths G).card := by
  rw [R.dPaths_image, Finset.card_image_of_injOn R.dMap_injOn]

theorem dTgt_map (fa : A → A') (fb : B → B') (G : Multiset (A × B)) (p : (A × B) × A) (hp : p.1 ∈ G) :
    (dTgt G p).map (Prod.map fa fb) = dTgt (G.map (Prod.map fa fb)) (dMap fa fb p) := by
  unfold dTgt dMap
  rw [Multiset.map_cons, Multiset.map_erase_of_mem _ _ hp]
  rfl

/-- the target of a path keeps the labels inside the sets on which the relabelling is injective -/
theorem Relabel.dTgt (R : Relabel SA SB fa fb G) (p : (A × B) × A) (hp : p ∈ dPaths G) :
    Relabel SA SB fa fb (dTgt G p) := by
  rw [mem_dPaths] at hp
  refine ⟨R.ia, R.ib, ?_⟩
  intro x hx
  unfold Paths.dTgt at hx
  rcases Multiset.mem_cons.mp hx with rfl | hx
  · obtain ⟨y, hy, hye⟩ := Multiset.mem_map.mp (Multiset.one_le_count_iff_mem.mp hp.2.1)
    exact ⟨by simp only; rw [← hye]; exact (R.mem y hy).1, (R.mem p.1 hp.1).2⟩
  · exact R.mem x (Multiset.mem_of_mem_erase hx)

end equivariance


/-! ### segments -/

def pairOf (lo hi : ℕ) (h : Hap) : Hap × Hap := (segInside h lo hi, segOutside h lo hi)
def unpair (lo : ℕ) (p : Hap × Hap) : Hap := p.2.take lo ++ p.1 ++ p.2.drop lo

theorem unpair_pairOf (lo hi : ℕ) (hle : lo ≤ hi) (h : Hap) : unpair lo (pairOf lo hi h) = h := by
  unfold unpair pairOf segInside segOutside
  simp only
  by_cases hl : lo ≤ h.length
  · have e1 : (h.take lo ++ h.drop hi).take lo = h.take lo := by
      rw [List.take_append_of_le_length (by simp [hl])]
      rw [List.take_take]; simp
    have e2 : (h.take lo ++ h.drop hi).drop lo = h.drop hi := by
      have : (h.take lo).length = lo := by simp [hl]
      rw [List.drop_append_of_le_length (by omega)]
      rw [List.drop_of_length_le (by omega)]; simp
    rw [e1, e2]
    have e3 : h.drop hi = (h.drop lo).drop (hi - lo) := by
      rw [List.drop_drop]; congr 1; omega
    rw [e3, List.append_assoc, List.take_append_drop, List.take_append_drop]
  · have hl' : h.length < lo := by omega
    have e1 : h.take lo = h := List.take_of_length_le (by omega)
    have e2 : h.drop hi = [] := List.drop_of_length_le (by omega)
    have e3 : h.drop lo = [] := List.drop_of_length_le (by omega)
    rw [e1, e2, e3]
    simp [List.take_of_length_le (Nat.le_of_lt hl'), List.drop_of_length_le (Nat.le_of_lt hl')]

theorem pairOf_injective (lo hi : ℕ) (hle : lo ≤ hi) : Function.Injective (pairOf lo hi) :=
  Function.LeftInverse.injective (unpair_pairOf lo hi hle)

/-! ### segment labels -/

theorem segmentLabels_length (g : Genotype) (lo hi : ℕ) : (segmentLabels g lo hi).length = g.length := by
  unfold segmentLabels; simp

def insOf (g : Genotype) (lo hi : ℕ) : List Hap := g.map (segInside · lo hi)
def outsOf (g : Genotype) (lo hi : ℕ) : List Hap := g.map (segOutside · lo hi)

theorem segmentLabels_getElem (g : Genotype) (lo hi : ℕ) (i : ℕ) (hi' : i < g.length) :
    (segmentLabels g lo hi)[i]'(by rw [segmentLabels_length]; exact hi')
      = ((insOf g lo hi).idxOf (segInside g[i] lo hi), (outsOf g lo hi).idxOf (segOutside g[i] lo hi)) := by
  unfold segmentLabels insOf outsOf
  simp

/-- decoding of labels: the segment named by an index -/
def decA (g : Genotype) (lo hi : ℕ) (a : ℕ) : Hap := segInside (g.getD a []) lo hi
def decB (g : Genotype) (lo hi : ℕ) (b : ℕ) : Hap := segOutside (g.getD b []) lo hi

/-- labels in use: first-occurrence indices -/
def firstIdx (l : List Hap) : Set ℕ := {a | ∃ x ∈ l, l.idxOf x = a}

theorem idxOf_mem_lt (l : List Hap) (x : Hap) (hx : x ∈ l) : l.idxOf x < l.length :=
  List.idxOf_lt_length_iff.mpr hx


theorem map_getD_idxOf (f : Hap → Hap) (g : Genotype) (x : Hap) (hx : x ∈ g.map f) :
    f (g.getD ((g.map f).idxOf x) []) = x := by
  have hl : (g.map f).idxOf x < (g.map f).length := List.idxOf_lt_length_iff.mpr hx
  have h1 : (g.map f)[(g.map f).idxOf x] = x := List.getElem_idxOf hl
  rw [List.getElem_map] at h1
  have hl' : (g.map f).idxOf x < g.length := by simpa using hl
  rw [List.getD_eq_getElem?_getD, List.getElem?_eq_getElem hl']
  exact h1

theorem decA_injOn (g : Genotype) (lo hi : ℕ) : Set.InjOn (decA g lo hi) (firstIdx (insOf g lo hi)) := by
  rintro a ⟨x, hx, rfl⟩ b ⟨y, hy, rfl⟩ hab
  have hxl := idxOf_mem_lt _ x hx
  have hyl := idxOf_mem_lt _ y hy
  have lenI : (insOf g lo hi).length = g.length := by simp [insOf]
  have ex : decA g lo hi ((insOf g lo hi).idxOf x) = x :=
    map_getD_idxOf (segInside · lo hi) g x hx
  have ey : decA g lo hi ((insOf g lo hi).idxOf y) = y :=
    map_getD_idxOf (segInside · lo hi) g y hy
  rw [ex, ey] at hab
  rw [hab]

theorem decB_injOn (g : Genotype) (lo hi : ℕ) : Set.InjOn (decB g lo hi) (firstIdx (outsOf g lo hi)) := by
  rintro a ⟨x, hx, rfl⟩ b ⟨y, hy, rfl⟩ hab
  have hxl := idxOf_mem_lt _ x hx
  have hyl := idxOf_mem_lt _ y hy
  have lenI : (outsOf g lo hi).length = g.length := by simp [outsOf]
  have ex : decB g lo hi ((outsOf g lo hi).idxOf x) = x :=
    map_getD_idxOf (segOutside · lo hi) g x hx
  have ey : decB g lo hi ((outsOf g lo hi).idxOf y) = y :=
    map_getD_idxOf (segOutside · lo hi) g y hy
  rw [ex, ey] at hab
  rw [hab]

/-- every label of `segmentLabels` is a first-occurrence index that decodes to the haplotype's own segment -/
theorem label_spec (g : Genotype) (lo hi : ℕ) (i : ℕ) (hi' : i < g.length) :
    let L := segmentLabels g lo hi
    let x := L[i]'(by rw [segmentLabels_length]; exact hi')
    x.1 ∈ firstIdx (insOf g lo hi) ∧ x.2 ∈ firstIdx (outsOf g lo hi) ∧
    x.1 < g.length ∧ x.2 < g.length ∧
    decA g lo hi x.1 = segInside g[i] lo hi ∧ decB g lo hi x.2 = segOutside g[i] lo hi := by
  intro L x
  have hx : x = ((insOf g lo hi).idxOf (segInside g[i] lo hi), (outsOf g lo hi).idxOf (segOutside g[i] lo hi)) :=
    segmentLabels_getElem g lo hi i hi'
  have m1 : segInside g[i] lo hi ∈ insOf g lo hi := List.mem_map.mpr ⟨g[i], List.getElem_mem hi', rfl⟩
  have m2 : segOutside g[i] lo hi ∈ outsOf g lo hi := List.mem_map.mpr ⟨g[i], List.getElem_mem hi', rfl⟩
  have l1 := idxOf_mem_lt _ _ m1
  have l2 := idxOf_mem_lt _ _ m2
  have lenI : (insOf g lo hi).length = g.length := by simp [insOf]
  have lenO : (outsOf g lo hi).length = g.length := by simp [outsOf]
  rw [hx]
  refine ⟨⟨_, m1, rfl⟩, ⟨_, m2, rfl⟩, by omega, by omega, ?_, ?_⟩
  · exact map_getD_idxOf (segInside · lo hi) g _ m1
  · exact map_getD_idxOf (segOutside · lo hi) g _ m2



theorem alleleAt_eq (g : Genotype) (nb : ℕ) (hw : ∀ x ∈ g, x.length = nb) (h j : ℕ) (hh : h < g.length)
    (hj : j < nb) : alleleAt g h j = (g[h])[j]'(by rw [hw _ (List.getElem_mem hh)]; exact hj) := by
  unfold alleleAt
  have e : g.getD h [] = g[h] := by simp [List.getD_eq_getElem?_getD, hh]
  rw [e]
  have hj' : j < (g[h]).length := by rw [hw _ (List.getElem_mem hh)]; exact hj
  simp [List.getD_eq_getElem?_getD, hj']

theorem sc_length (g : Genotype) (nb : ℕ) (idx : List ℕ) (lo hi : ℕ) :
    (structuralChange g nb idx lo hi).length = g.length := by
  unfold structuralChange; simp

theorem sc_getElem (g : Genotype) (nb : ℕ) (idx : List ℕ) (lo hi : ℕ) (h : ℕ) (hh : h < g.length) :
    (structuralChange g nb idx lo hi)[h]'(by rw [sc_length]; exact hh)
      = (List.range nb).map (fun j => alleleAt g (selHap idx lo hi h j) j) := by
  unfold structuralChange; simp

/-- row `h` of the rearranged genotype: inside the interval the segment of haplotype `idx[h]`,
    outside its own -/
theorem sc_pair (g : Genotype) (nb : ℕ) (hw : ∀ x ∈ g, x.length = nb) (idx : List ℕ) (lo hi : ℕ)
    (hlo : lo ≤ hi) (hhi : hi ≤ nb) (h : ℕ) (hh : h < g.length) (a : ℕ) (hae : idx.getD h 0 = a) (ha : a < g.length) :
    (segInside ((structuralChange g nb idx lo hi)[h]'(by rw [sc_length]; exact hh)) lo hi
        = segInside (g[a]) lo hi) ∧
    (segOutside ((structuralChange g nb idx lo hi)[h]'(by rw [sc_length]; exact hh)) lo hi
        = segOutside g[h] lo hi) := by
  rw [sc_getElem g nb idx lo hi h hh]
  have la : (g[a]).length = nb := hw _ (List.getElem_mem ha)
  have lh : (g[h]).length = nb := hw _ (List.getElem_mem hh)
  constructor
  · unfold segInside
    apply List.ext_getElem
    · simp [la]
    · intro k h1 h2
      simp only [List.length_take, List.length_drop, List.length_map, List.length_range] at h1
      simp only [List.getElem_take, List.getElem_drop, List.getElem_map, List.getElem_range]
      have hsel : selHap idx lo hi h (lo + k) = a := by
        unfold selHap; rw [if_pos (by omega), hae]
      rw [hsel, alleleAt_eq g nb hw a (lo + k) ha (by omega)]
  · unfold segOutside
    congr 1
    · apply List.ext_getElem
      · simp [lh]
      · intro k h1 h2
        simp only [List.length_take, List.length_map, List.length_range] at h1
        simp only [List.getElem_take, List.getElem_map, List.getElem_range]
        have hsel : selHap idx lo hi h k = h := by
          unfold selHap; rw [if_neg (by omega)]
        rw [hsel, alleleAt_eq g nb hw h k hh (by omega)]
    · apply List.ext_getElem
      · simp [lh]
      · intro k h1 h2
        simp only [List.length_drop, List.length_map, List.length_range] at h1
        simp only [List.getElem_drop, List.getElem_map, List.getElem_range]
        have hsel : selHap idx lo hi h (hi + k) = h := by
          unfold selHap; rw [if_neg (by omega)]
        rw [hsel, alleleAt_eq g nb hw h (hi + k) hh (by omega)]



theorem nodup_flatMap_pairs {β : Type} (p : ℕ) (f : ℕ → List (ℕ × β))
    (h1 : ∀ a, (f a).Nodup) (h2 : ∀ a, ∀ x ∈ f a, x.1 = a) : ((List.range p).flatMap f).Nodup := by
  rw [List.nodup_flatMap]
  refine ⟨fun a _ => h1 a, ?_⟩
  apply List.Nodup.pairwise_of_forall_ne List.nodup_range
  intro a _ b _ hab
  simp only [Function.onFun]
  intro x hxa hxb
  exact hab ((h2 a x hxa).symm.trans (h2 b x hxb))

theorem dosagePairs_nodup (L : List (ℕ × ℕ)) : (dosagePairs L).Nodup := by
  unfold dosagePairs
  apply nodup_flatMap_pairs
  · intro a
    split
    · exact List.nodup_nil
    · split
      · exact List.nodup_nil
      · apply List.Nodup.filterMap _ List.nodup_range
        intro x y b hx hy
        split at hx
        · simp at hx
        · split at hx
          · simp at hx
          · split at hy
            · simp at hy
            · split at hy
              · simp at hy
              · simp only [Option.mem_def, Option.some.injEq] at hx hy
                have := hx.trans hy.symm
                exact (Prod.mk.inj this).2
  · intro a x hx
    split at hx
    · simp at hx
    · split at hx
      · simp at hx
      · rw [List.mem_filterMap] at hx
        obtain ⟨b, _, hb⟩ := hx
        split at hb
        · simp at hb
        · split at hb
          · simp at hb
          · simp only [Option.some.injEq] at hb
            rw [← hb]

theorem recombPairs_nodup (L : List (ℕ × ℕ)) : (recombPairs L).Nodup := by
  unfold recombPairs
  apply nodup_flatMap_pairs
  · intro a
    split
    · exact List.nodup_nil
    · apply List.Nodup.filterMap _ (List.Nodup.filter _ List.nodup_range)
      intro x y b hx hy
      split at hx
      · simp at hx
      · simp only [] at hx
        split at hx
        · simp at hx
        · split at hy
          · simp at hy
          · simp only [] at hy
            split at hy
            · simp at hy
            · simp only [Option.mem_def, Option.some.injEq] at hx hy
              have := hx.trans hy.symm
              exact (Prod.mk.inj this).2
  · intro a x hx
    split at hx
    · simp at hx
    · rw [List.mem_filterMap] at hx
      obtain ⟨b, _, hb⟩ := hx
      split at hb
      · simp at hb
      · simp only [] at hb
        split at hb
        · simp at hb
        · simp only [Option.some.injEq] at hb
          rw [← hb]


/-! ### the literal dosage kernel -/

def pairsM (lo hi : ℕ) (g : Genotype) : Multiset (Hap × Hap) :=
  ((g.map (pairOf lo hi) : List (Hap × Hap)) : Multiset (Hap × Hap))

def dec (g : Genotype) (lo hi : ℕ) : ℕ × ℕ → Hap × Hap := Prod.map (decA g lo hi) (decB g lo hi)

theorem getD_eq (L : List (ℕ × ℕ)) (i : ℕ) (hi : i < L.length) : L.getD i (0, 0) = L[i] := by
  rw [List.getD_eq_getElem?_getD, List.getElem?_eq_getElem hi]; rfl

/-- decoding the label array gives back the haplotypes' own segment pairs -/
theorem map_dec_labels (g : Genotype) (lo hi : ℕ) :
    (segmentLabels g lo hi).map (dec g lo hi) = g.map (pairOf lo hi) := by
  apply List.ext_getElem
  · simp [segmentLabels_length]
  · intro i h1 h2
    have hi' : i < g.length := by simpa using h2
    obtain ⟨_, _, _, _, e1, e2⟩ := label_spec g lo hi i hi'
    simp only [List.getElem_map, dec, Prod.map, pairOf]
    rw [e1, e2]

theorem relabel_labels (g : Genotype) (lo hi : ℕ) :
    Relabel (firstIdx (insOf g lo hi)) (firstIdx (outsOf g lo hi)) (decA g lo hi) (decB g lo hi)
      ((segmentLabels g lo hi : List (ℕ × ℕ)) : Multiset (ℕ × ℕ)) := by
  refine ⟨decA_injOn g lo hi, decB_injOn g lo hi, ?_⟩
  intro x hx
  rw [Multiset.mem_coe] at hx
  obtain ⟨i, hi', rfl⟩ := List.getElem_of_mem hx
  have hi'' : i < g.length := by rwa [segmentLabels_length] at hi'
  obtain ⟨m1, m2, _⟩ := label_spec g lo hi i hi''
  exact ⟨m1, m2⟩

theorem pairsM_eq_map_dec (g : Genotype) (lo hi : ℕ) :
    pairsM lo hi g = ((segmentLabels g lo hi : List (ℕ × ℕ)) : Multiset (ℕ × ℕ)).map (dec g lo hi) := by
  unfold pairsM
  rw [Multiset.map_coe, map_dec_labels]

/-- the rearranged genotype built from an option label array has the decoded labels as segment pairs -/
theorem sc_pairs (g : Genotype) (nb : ℕ) (hw : ∀ x ∈ g, x.length = nb) (lo hi : ℕ)
    (hlo : lo ≤ hi) (hhi : hi ≤ nb) (o : List (ℕ × ℕ)) (hlen : o.length = g.length)
    (ho : ∀ h (hh : h < g.length), (o[h]'(by omega)).1 < g.length ∧
      decB g lo hi (o[h]'(by omega)).2 = segOutside g[h] lo hi) :
    (structuralChange g nb (o.map (·.1)) lo hi).map (pairOf lo hi) = o.map (dec g lo hi) := by
  apply List.ext_getElem
  · simp [sc_length, hlen]
  · intro h h1 h2
    have hh : h < g.length := by simpa [sc_length] using h1
    obtain ⟨ha, hb⟩ := ho h hh
    have hae : (o.map (·.1)).getD h 0 = (o[h]'(by omega)).1 := by
      rw [List.getD_eq_getElem?_getD, List.getElem?_eq_getElem (by simp; omega)]
      simp
    obtain ⟨e1, e2⟩ := sc_pair g nb hw (o.map (·.1)) lo hi hlo hhi h hh _ hae ha
    simp only [List.getElem_map, pairOf, dec, Prod.map]
    rw [e1, e2, hb]
    congr 1
    unfold decA
    rw [List.getD_eq_getElem?_getD, List.getElem?_eq_getElem ha]; rfl

/-- the option label array of the dosage move for the index pair `(h0, h1)` -/
def dosOpt (L : List (ℕ × ℕ)) (hh : ℕ × ℕ) : List (ℕ × ℕ) :=
  L.set hh.1 ((L.getD hh.2 (0, 0)).1, (L.getD hh.1 (0, 0)).2)

theorem dosageOptions_eq (L : List (ℕ × ℕ)) : dosageOptions L = (dosagePairs L).map (dosOpt L) := rfl

/-- the abstract path (on segment pairs) of a literal option -/
def dosPath (g : Genotype) (lo hi : ℕ) (L : List (ℕ × ℕ)) (hh : ℕ × ℕ) : (Hap × Hap) × Hap :=
  dMap (decA g lo hi) (decB g lo hi) (L.getD hh.1 (0, 0), (L.getD hh.2 (0, 0)).1)


theorem dos_facts (g : Genotype) (nb lo hi : ℕ) (hw : ∀ x ∈ g, x.length = nb) (hlo : lo ≤ hi)
    (hhi : hi ≤ nb) (hh : ℕ × ℕ) (hmem : hh ∈ dosagePairs (segmentLabels g lo hi)) :
    dosPath g lo hi (segmentLabels g lo hi) hh ∈ dPaths (pairsM lo hi g) ∧
    pairsM lo hi (structuralChange g nb ((dosOpt (segmentLabels g lo hi) hh).map (·.1)) lo hi)
      = dTgt (pairsM lo hi g) (dosPath g lo hi (segmentLabels g lo hi) hh) ∧
    dosageNOptions (dosOpt (segmentLabels g lo hi) hh)
      = (dPaths (pairsM lo hi (structuralChange g nb
          ((dosOpt (segmentLabels g lo hi) hh).map (·.1)) lo hi))).card := by
  generalize hL : segmentLabels g lo hi = L at *
  obtain ⟨h0, h1⟩ := hh
  obtain ⟨a0, a1, hp, htgt⟩ := Refine.dosagePairs_sound L h0 h1 hmem
  have R := relabel_labels g lo hi
  rw [hL] at R
  have lenL : L.length = g.length := by rw [← hL]; exact segmentLabels_length g lo hi
  have g0 : L.getD h0 (0, 0) = L[h0] := getD_eq L h0 a0
  have g1 : L.getD h1 (0, 0) = L[h1] := getD_eq L h1 a1
  have hopt : dosOpt L (h0, h1) = L.set h0 (L[h1].1, L[h0].2) := by
    unfold dosOpt; simp only; rw [g0, g1]
  have hpath : dosPath g lo hi L (h0, h1) = dMap (decA g lo hi) (decB g lo hi) (L[h0], L[h1].1) := by
    unfold dosPath; simp only; rw [g0, g1]
  have hpm : pairsM lo hi g = (L : Multiset (ℕ × ℕ)).map (Prod.map (decA g lo hi) (decB g lo hi)) := by
    rw [pairsM_eq_map_dec, hL]; rfl
  rw [hopt, hpath]
  -- segment pairs of the literal target
  have hpairs : pairsM lo hi (structuralChange g nb ((L.set h0 (L[h1].1, L[h0].2)).map (·.1)) lo hi)
      = ((L.set h0 (L[h1].1, L[h0].2) : List (ℕ × ℕ)) : Multiset (ℕ × ℕ)).map
          (Prod.map (decA g lo hi) (decB g lo hi)) := by
    unfold pairsM
    rw [Multiset.map_coe]
    congr 1
    have hlen' : (L.set h0 (L[h1].1, L[h0].2)).length = g.length := by simp [lenL]
    refine sc_pairs g nb hw lo hi hlo hhi _ hlen' ?_
    · intro h hh'
      have hL' : h < L.length := by omega
      by_cases e : h0 = h
      · subst e
        simp only [List.getElem_set_self]
        obtain ⟨_, _, l1, _, _, _⟩ := label_spec g lo hi h1 (by omega)
        obtain ⟨_, _, _, _, _, e2⟩ := label_spec g lo hi h0 (by omega)
        simp only [hL] at l1 e2
        exact ⟨l1, e2⟩
      · simp only [List.getElem_set_ne e]
        obtain ⟨_, _, l1, _, _, e2⟩ := label_spec g lo hi h (by omega)
        simp only [hL] at l1 e2
        exact ⟨l1, e2⟩
  refine ⟨?_, ?_, ?_⟩
  · rw [hpm, R.dPaths_image]
    exact Finset.mem_image_of_mem _ hp
  · rw [hpairs, htgt, hpm]
    exact dTgt_map _ _ _ _ ((mem_dPaths.mp hp).1)
  · rw [hpairs, htgt, Refine.dosageNOptions_eq_card, htgt]
    exact ((R.dTgt _ hp).card_dPaths).symm

theorem dosPath_injOn (g : Genotype) (lo hi : ℕ) (a b : ℕ × ℕ)
    (ha : a ∈ dosagePairs (segmentLabels g lo hi))
    (hb : b ∈ dosagePairs (segmentLabels g lo hi))
    (e : dosPath g lo hi (segmentLabels g lo hi) a = dosPath g lo hi (segmentLabels g lo hi) b) : a = b := by
  have R := relabel_labels g lo hi
  generalize hL : segmentLabels g lo hi = L at *
  obtain ⟨h0, h1⟩ := a
  obtain ⟨k0, k1⟩ := b
  obtain ⟨a0, a1, hp, _⟩ := Refine.dosagePairs_sound L h0 h1 ha
  obtain ⟨b0, b1, hq, _⟩ := Refine.dosagePairs_sound L k0 k1 hb
  unfold dosPath at e
  simp only at e
  rw [getD_eq L h0 a0, getD_eq L h1 a1, getD_eq L k0 b0, getD_eq L k1 b1] at e
  have := R.dMap_injOn (Finset.mem_coe.mpr hp) (Finset.mem_coe.mpr hq) e
  simp only [Prod.mk.injEq] at this
  obtain ⟨e0, e1⟩ := this
  have := Refine.dosagePairs_injective L h0 h1 k0 k1 ha hb
    (by rw [getD_eq L h0 a0, getD_eq L k0 b0]; exact e0)
    (by rw [getD_eq L h1 a1, getD_eq L k1 b1]; exact e1)
  rw [this.1, this.2]

theorem dosPath_image (g : Genotype) (nb lo hi : ℕ) (hw : ∀ x ∈ g, x.length = nb) (hlo : lo ≤ hi)
    (hhi : hi ≤ nb) :
    ((dosagePairs (segmentLabels g lo hi)).map (dosPath g lo hi (segmentLabels g lo hi))).toFinset
      = dPaths (pairsM lo hi g) := by
  apply Finset.eq_of_subset_of_card_le
  · intro x hx
    rw [List.mem_toFinset, List.mem_map] at hx
    obtain ⟨hh, hmem, rfl⟩ := hx
    exact (dos_facts g nb lo hi hw hlo hhi hh hmem).1
  · rw [List.toFinset_card_of_nodup]
    · rw [List.length_map, pairsM_eq_map_dec]
      show (dPaths (Multiset.map (Prod.map (decA g lo hi) (decB g lo hi)) _)).card ≤ _
      rw [(relabel_labels g lo hi).card_dPaths, ← Refine.dosageNOptions_eq_card]
      exact le_refl _
    · apply List.Nodup.map_on _ (dosagePairs_nodup _)
      intro a ha b hb e
      exact dosPath_injOn g lo hi a b ha hb e

/-! ### counting and the kernel mass -/

theorem sum_map_const' {α : Type} (l : List α) (f : α → ℝ) (c : ℝ) (h : ∀ x ∈ l, f x = c) :
    (l.map f).sum = (l.length : ℝ) * c := by
  induction l with
  | nil => simp
  | cons a t ih =>
    rw [List.map_cons, List.sum_cons, h a List.mem_cons_self, ih (fun x hx => h x (List.mem_cons_of_mem _ hx))]
    simp only [List.length_cons]; push_cast; ring

theorem length_filter_eq_card {α β : Type} [DecidableEq β] (l : List α) (hl : l.Nodup) (Ψ : α → β)
    (hinj : ∀ a ∈ l, ∀ b ∈ l, Ψ a = Ψ b → a = b) (p : α → Bool) (q : β → Prop) [DecidablePred q]
    (hpq : ∀ a ∈ l, p a = true ↔ q (Ψ a)) :
    (l.filter p).length = (((l.map Ψ).toFinset).filter q).card := by
  have hnd : ((l.filter p).map Ψ).Nodup := by
    apply List.Nodup.map_on _ (hl.filter _)
    intro a ha b hb e
    exact hinj a (List.mem_of_mem_filter ha) b (List.mem_of_mem_filter hb) e
  have e : ((l.map Ψ).toFinset).filter q = ((l.filter p).map Ψ).toFinset := by
    ext x
    simp only [Finset.mem_filter, List.mem_toFinset, List.mem_map, List.mem_filter]
    constructor
    · rintro ⟨⟨a, ha, rfl⟩, hq⟩
      exact ⟨a, ⟨ha, (hpq a ha).mpr hq⟩, rfl⟩
    · rintro ⟨a, ⟨ha, hp⟩, rfl⟩
      exact ⟨⟨a, ha, rfl⟩, (hpq a ha).mp hp⟩
  rw [e, List.toFinset_card_of_nodup hnd, List.length_map]

/-- the target of option `o` as the code builds it -/
def tgtOf (g : Genotype) (nb lo hi : ℕ) (o : List (ℕ × ℕ)) : Genotype :=
  structuralChange g nb (o.map (·.1)) lo hi

/-- probability mass the literal dosage kernel (`interval_step` with the dosage enumerator: uniform choice
    among `dosage_step_options`, acceptance `min 1 (w'/w · n/n_return)`) moves from the ordered genotype
    `g` to the unordered genotype `G'` -/
noncomputable def dosageMass (w : Genotype → ℝ) (nb lo hi : ℕ) (g : Genotype) (G' : Multiset Hap) : ℝ :=
  let opts := dosageOptions (segmentLabels g lo hi)
  ((opts.filter (fun o => decide (((tgtOf g nb lo hi o : Genotype) : Multiset Hap) = G'))).map
    (fun o => (1 / (opts.length : ℝ)) * min 1 ((w (tgtOf g nb lo hi o) / w g)
        * ((opts.length : ℝ) / (dosageNOptions o : ℝ))))).sum

theorem pairsM_eq_iff (lo hi : ℕ) (hlo : lo ≤ hi) (g g' : Genotype) :
    pairsM lo hi g = pairsM lo hi g' ↔ (g : Multiset Hap) = (g' : Multiset Hap) := by
  unfold pairsM
  rw [← Multiset.map_coe, ← Multiset.map_coe]
  exact (Multiset.map_injective (pairOf_injective lo hi hlo)).eq_iff

/-- the literal kernel mass equals the mass of the abstract path kernel on segment pairs -/
theorem dosageMass_eq (w : Genotype → ℝ) (hperm : ∀ a b : Genotype, a.Perm b → w a = w b)
    (g g' : Genotype) (nb lo hi : ℕ) (hw : ∀ x ∈ g, x.length = nb) (hlo : lo ≤ hi) (hhi : hi ≤ nb) :
    dosageMass w nb lo hi g (g' : Multiset Hap)
      = (((dPaths (pairsM lo hi g)).filter (fun q => dTgt (pairsM lo hi g) q = pairsM lo hi g')).card : ℝ)
        * ((1 / ((dPaths (pairsM lo hi g)).card : ℝ)) * min 1 ((w g' / w g)
            * (((dPaths (pairsM lo hi g)).card : ℝ) / ((dPaths (pairsM lo hi g')).card : ℝ)))) := by
  unfold dosageMass
  simp only
  set L := segmentLabels g lo hi with hL
  have hn : ((dosageOptions L).length : ℝ) = ((dPaths (pairsM lo hi g)).card : ℝ) := by
    congr 1
    rw [dosageOptions_eq, List.length_map, pairsM_eq_map_dec]
    show _ = (dPaths (Multiset.map (Prod.map (decA g lo hi) (decB g lo hi)) _)).card
    rw [(relabel_labels g lo hi).card_dPaths, ← Refine.dosageNOptions_eq_card]
    rfl
  -- every summand of the filtered list is the same constant
  rw [sum_map_const' _ _ ((1 / ((dPaths (pairsM lo hi g)).card : ℝ)) * min 1 ((w g' / w g)
            * (((dPaths (pairsM lo hi g)).card : ℝ) / ((dPaths (pairsM lo hi g')).card : ℝ))))]
  · congr 1
    -- counting
    rw [dosageOptions_eq, List.filter_map, List.length_map]
    rw [length_filter_eq_card (dosagePairs L) (dosagePairs_nodup L) (dosPath g lo hi L)
      (fun a ha b hb e => dosPath_injOn g lo hi a b ha hb e) _
      (fun q => dTgt (pairsM lo hi g) q = pairsM lo hi g')]
    · rw [dosPath_image g nb lo hi hw hlo hhi]
    · intro a ha
      obtain ⟨_, h2, _⟩ := dos_facts g nb lo hi hw hlo hhi a ha
      simp only [Function.comp, decide_eq_true_eq]
      rw [← h2, pairsM_eq_iff lo hi hlo]
      rfl
  · intro o ho
    rw [List.mem_filter] at ho
    obtain ⟨ho1, ho2⟩ := ho
    simp only [decide_eq_true_eq] at ho2
    rw [dosageOptions_eq, List.mem_map] at ho1
    obtain ⟨a, ha, rfl⟩ := ho1
    obtain ⟨_, _, h3⟩ := dos_facts g nb lo hi hw hlo hhi a ha
    have hwt : w (tgtOf g nb lo hi (dosOpt L a)) = w g' := hperm _ _ (Quotient.exact ho2)
    have hpt : pairsM lo hi (tgtOf g nb lo hi (dosOpt L a)) = pairsM lo hi g' :=
      (pairsM_eq_iff lo hi hlo _ _).mpr ho2
    rw [hwt, hn, h3]
    unfold tgtOf at hpt
    rw [hpt]

/-- **detailed balance of the literal dosage kernel**: for any weight that depends on the genotype only
    as a multiset and is positive at the two genotypes, the flows `g → g'` and `g' → g` balance -/
theorem dosage_literal_db (w : Genotype → ℝ) (hperm : ∀ a b : Genotype, a.Perm b → w a = w b)
    (g g' : Genotype) (nb lo hi : ℕ) (hw : ∀ x ∈ g, x.length = nb) (hw' : ∀ x ∈ g', x.length = nb)
    (hlo : lo ≤ hi) (hhi : hi ≤ nb) (pg : 0 < w g) (pg' : 0 < w g') :
    w g * dosageMass w nb lo hi g (g' : Multiset Hap)
      = w g' * dosageMass w nb lo hi g' (g : Multiset Hap) := by
  rw [dosageMass_eq w hperm g g' nb lo hi hw hlo hhi, dosageMass_eq w hperm g' g nb lo hi hw' hlo hhi]
  -- a positive target on segment-pair multisets that agrees with `w` at the two states
  let π : Multiset (Hap × Hap) → ℝ := fun S =>
    if S = pairsM lo hi g then w g else if S = pairsM lo hi g' then w g' else 1
  have hπ : ∀ S, 0 < π S := by
    intro S; simp only [π]; split
    · exact pg
    · split
      · exact pg'
      · exact one_pos
  have e1 : π (pairsM lo hi g) = w g := by simp [π]
  have e2 : π (pairsM lo hi g') = w g' := by
    simp only [π]
    split
    · rename_i h
      exact hperm _ _ (Quotient.exact ((pairsM_eq_iff lo hi hlo _ _).mp h.symm))
    · simp
  have key := MH.pathwise_db dPaths dTgt dRev dosage_hmem dosage_htgt dosage_hinv π hπ
    (pairsM lo hi g) (pairsM lo hi g')
  simp only [Finset.sum_const, nsmul_eq_mul, e1, e2] at key
  linarith [key]

/-! ### recombination: equivariance of the path structure -/

section equivariance_r
variable {A B A' B' : Type} [DecidableEq A] [DecidableEq B] [DecidableEq A'] [DecidableEq B']
variable {SA : Set A} {SB : Set B} {fa : A → A'} {fb : B → B'} {G : Multiset (A × B)}

def rMap (fa : A → A') (fb : B → B') (p : (A × B) × (A × B)) : (A' × B') × (A' × B') :=
  (Prod.map fa fb p.1, Prod.map fa fb p.2)

theorem Relabel.rPaths_image (R : Relabel SA SB fa fb G) :
    rPaths (G.map (Prod.map fa fb)) = (rPaths G).image (rMap fa fb) := by
  ext p'
  rw [Finset.mem_image, mem_rPaths]
  constructor
  · rintro ⟨h1, h2, h3, h4⟩
    obtain ⟨x, hx, hxe⟩ := Multiset.mem_map.mp h1
    obtain ⟨y, hy, hye⟩ := Multiset.mem_map.mp h2
    refine ⟨(x, y), ?_, ?_⟩
    · rw [mem_rPaths]
      refine ⟨hx, hy, ?_, ?_⟩
      · intro e; apply h3; rw [← hxe, ← hye]; simp only [Prod.map_fst]; simp only at e; rw [e]
      · intro e; apply h4; rw [← hxe, ← hye]; simp only [Prod.map_snd]; simp only at e; rw [e]
    · simp only [rMap]; rw [hxe, hye]
  · rintro ⟨p, hp, rfl⟩
    rw [mem_rPaths] at hp
    obtain ⟨h1, h2, h3, h4⟩ := hp
    simp only [rMap]
    refine ⟨Multiset.mem_map.mpr ⟨p.1, h1, rfl⟩, Multiset.mem_map.mpr ⟨p.2, h2, rfl⟩, ?_, ?_⟩
    · simp only [Prod.map_fst]
      intro e; exact h3 (R.ia (R.mem p.1 h1).1 (R.mem p.2 h2).1 e)
    · simp only [Prod.map_snd]
      intro e; exact h4 (R.ib (R.mem p.1 h1).2 (R.mem p.2 h2).2 e)

theorem Relabel.rMap_injOn (R : Relabel SA SB fa fb G) : Set.InjOn (rMap fa fb) (rPaths G : Set _) := by
  intro p hp q hq hpq
  rw [Finset.mem_coe, mem_rPaths] at hp hq
  simp only [rMap, Prod.mk.injEq] at hpq
  exact Prod.ext (R.injOn hp.1 hq.1 hpq.1) (R.injOn hp.2.1 hq.2.1 hpq.2)

theorem Relabel.card_rPaths (R : Relabel SA SB fa fb G) :
    (rPaths (G.map (Prod.map fa fb))).card = (rPaths G).card := by
  rw [R.rPaths_image, Finset.card_image_of_injOn R.rMap_injOn]

theorem rTgt_map (fa : A → A') (fb : B → B') (G : Multiset (A × B)) (p : (A × B) × (A × B))
    (hp : p ∈ rPaths G) :
    (rTgt G p).map (Prod.map fa fb) = rTgt (G.map (Prod.map fa fb)) (rMap fa fb p) := by
  rw [mem_rPaths] at hp
  obtain ⟨h1, h2, h3, _⟩ := hp
  have hne : p.2 ≠ p.1 := fun e => h3 (by rw [e])
  have h2' : p.2 ∈ G.erase p.1 := (Multiset.mem_erase_of_ne hne).mpr h2
  unfold rTgt rMap
  rw [Multiset.map_cons, Multiset.map_cons, Multiset.map_erase_of_mem _ _ h2',
    Multiset.map_erase_of_mem _ _ h1]
  rfl

theorem Relabel.rTgt (R : Relabel SA SB fa fb G) (p : (A × B) × (A × B)) (hp : p ∈ rPaths G) :
    Relabel SA SB fa fb (rTgt G p) := by
  rw [mem_rPaths] at hp
  refine ⟨R.ia, R.ib, ?_⟩
  intro x hx
  unfold Paths.rTgt at hx
  rcases Multiset.mem_cons.mp hx with rfl | hx
  · exact ⟨(R.mem p.2 hp.2.1).1, (R.mem p.1 hp.1).2⟩
  · rcases Multiset.mem_cons.mp hx with rfl | hx
    · exact ⟨(R.mem p.1 hp.1).1, (R.mem p.2 hp.2.1).2⟩
    · exact R.mem x (Multiset.mem_of_mem_erase (Multiset.mem_of_mem_erase hx))

theorem rTgt_swap (G : Multiset (A × B)) (x y : A × B) : rTgt G (x, y) = rTgt G (y, x) := by
  unfold Paths.rTgt
  simp only
  rw [Multiset.cons_swap, Multiset.erase_comm]

end equivariance_r

/-! ### the literal recombination kernel -/

def recOpt (L : List (ℕ × ℕ)) (hh : ℕ × ℕ) : List (ℕ × ℕ) :=
  (L.set hh.1 ((L.getD hh.2 (0, 0)).1, (L.getD hh.1 (0, 0)).2)).set hh.2
    ((L.getD hh.1 (0, 0)).1, (L.getD hh.2 (0, 0)).2)

theorem recombOptions_eq (L : List (ℕ × ℕ)) : recombOptions L = (recombPairs L).map (recOpt L) := rfl

def recPath (g : Genotype) (lo hi : ℕ) (L : List (ℕ × ℕ)) (hh : ℕ × ℕ) : (Hap × Hap) × (Hap × Hap) :=
  rMap (decA g lo hi) (decB g lo hi) (L.getD hh.1 (0, 0), L.getD hh.2 (0, 0))

/-- ordered index pairs: each unordered option of the code in both orientations -/
def bothPairs (L : List (ℕ × ℕ)) : List (ℕ × ℕ) := recombPairs L ++ (recombPairs L).map Prod.swap

theorem mem_bothPairs (L : List (ℕ × ℕ)) (i j : ℕ) :
    (i, j) ∈ bothPairs L ↔
      i < L.length ∧ j < L.length ∧ i ≠ j ∧ (dosageOf L).getD i 0 ≠ 0 ∧ (dosageOf L).getD j 0 ≠ 0 ∧
      (L.getD i (0, 0)).1 ≠ (L.getD j (0, 0)).1 ∧ (L.getD i (0, 0)).2 ≠ (L.getD j (0, 0)).2 := by
  unfold bothPairs
  rw [List.mem_append, List.mem_map]
  constructor
  · rintro (h | ⟨⟨a, b⟩, h, e⟩)
    · obtain ⟨a0, a1, hlt, c1, c3, c4, c5⟩ := (Refine.mem_recombPairs L i j).mp h
      exact ⟨a0, a1, by omega, c1, c3, c4, c5⟩
    · simp only [Prod.swap, Prod.mk.injEq] at e
      obtain ⟨e1, e2⟩ := e
      subst e1 e2
      obtain ⟨a0, a1, hlt, c1, c3, c4, c5⟩ := (Refine.mem_recombPairs L a b).mp h
      exact ⟨a1, a0, by omega, c3, c1, Ne.symm c4, Ne.symm c5⟩
  · rintro ⟨a0, a1, hne, c1, c3, c4, c5⟩
    rcases Nat.lt_or_gt_of_ne hne with hlt | hgt
    · left; exact (Refine.mem_recombPairs L i j).mpr ⟨a0, a1, hlt, c1, c3, c4, c5⟩
    · right
      exact ⟨(j, i), (Refine.mem_recombPairs L j i).mpr ⟨a1, a0, hgt, c3, c1, Ne.symm c4, Ne.symm c5⟩, rfl⟩

theorem bothPairs_nodup (L : List (ℕ × ℕ)) : (bothPairs L).Nodup := by
  unfold bothPairs
  rw [List.nodup_append]
  refine ⟨recombPairs_nodup L, ?_, ?_⟩
  · exact List.Nodup.map (fun a b e => by simpa using congrArg Prod.swap e) (recombPairs_nodup L)
  · intro a ha b hb e
    subst e
    obtain ⟨i, j⟩ := a
    obtain ⟨_, _, hlt, _⟩ := (Refine.mem_recombPairs L i j).mp ha
    rw [List.mem_map] at hb
    obtain ⟨⟨c, d⟩, hcd, e⟩ := hb
    simp only [Prod.swap, Prod.mk.injEq] at e
    obtain ⟨e1, e2⟩ := e
    obtain ⟨_, _, hlt', _⟩ := (Refine.mem_recombPairs L c d).mp hcd
    omega

theorem bothPairs_length (L : List (ℕ × ℕ)) : (bothPairs L).length = 2 * recombNOptions L := by
  unfold bothPairs recombNOptions
  rw [List.length_append, List.length_map]; ring

theorem rec_both_facts (g : Genotype) (lo hi : ℕ) (hh : ℕ × ℕ)
    (hmem : hh ∈ bothPairs (segmentLabels g lo hi)) :
    recPath g lo hi (segmentLabels g lo hi) hh ∈ rPaths (pairsM lo hi g) := by
  have R := relabel_labels g lo hi
  have hpm := pairsM_eq_map_dec g lo hi
  generalize hL : segmentLabels g lo hi = L at *
  obtain ⟨i, j⟩ := hh
  obtain ⟨a0, a1, _, _, _, c4, c5⟩ := (mem_bothPairs L i j).mp hmem
  rw [hpm]
  show _ ∈ rPaths (Multiset.map (Prod.map (decA g lo hi) (decB g lo hi)) _)
  rw [R.rPaths_image]
  apply Finset.mem_image_of_mem
  rw [mem_rPaths]
  simp only
  rw [getD_eq L i a0, getD_eq L j a1] at *
  exact ⟨by simp, by simp, c4, c5⟩

theorem recPath_injOn (g : Genotype) (lo hi : ℕ) (a b : ℕ × ℕ)
    (ha : a ∈ bothPairs (segmentLabels g lo hi)) (hb : b ∈ bothPairs (segmentLabels g lo hi))
    (e : recPath g lo hi (segmentLabels g lo hi) a = recPath g lo hi (segmentLabels g lo hi) b) : a = b := by
  have R := relabel_labels g lo hi
  generalize hL : segmentLabels g lo hi = L at *
  obtain ⟨i, j⟩ := a
  obtain ⟨k, l⟩ := b
  obtain ⟨a0, a1, _, c1, c3, c4, c5⟩ := (mem_bothPairs L i j).mp ha
  obtain ⟨b0, b1, _, d1, d3, d4, d5⟩ := (mem_bothPairs L k l).mp hb
  unfold recPath at e
  simp only at e
  rw [getD_eq L i a0, getD_eq L j a1] at c4 c5 e
  rw [getD_eq L k b0, getD_eq L l b1] at d4 d5 e
  have hp : (L[i], L[j]) ∈ rPaths (L : Multiset (ℕ × ℕ)) := by
    rw [mem_rPaths]; exact ⟨by simp, by simp, c4, c5⟩
  have hq : (L[k], L[l]) ∈ rPaths (L : Multiset (ℕ × ℕ)) := by
    rw [mem_rPaths]; exact ⟨by simp, by simp, d4, d5⟩
  have := R.rMap_injOn (Finset.mem_coe.mpr hp) (Finset.mem_coe.mpr hq) e
  simp only [Prod.mk.injEq] at this
  obtain ⟨e0, e1⟩ := this
  have r0 := Refine.first_occurrence_unique L i k a0 b0 c1 d1 e0
  have r1 := Refine.first_occurrence_unique L j l a1 b1 c3 d3 e1
  rw [r0, r1]

theorem recPath_image (g : Genotype) (lo hi : ℕ) :
    ((bothPairs (segmentLabels g lo hi)).map (recPath g lo hi (segmentLabels g lo hi))).toFinset
      = rPaths (pairsM lo hi g) := by
  apply Finset.eq_of_subset_of_card_le
  · intro x hx
    rw [List.mem_toFinset, List.mem_map] at hx
    obtain ⟨hh, hmem, rfl⟩ := hx
    exact rec_both_facts g lo hi hh hmem
  · rw [List.toFinset_card_of_nodup]
    · rw [List.length_map, pairsM_eq_map_dec, bothPairs_length]
      show (rPaths (Multiset.map (Prod.map (decA g lo hi) (decB g lo hi)) _)).card ≤ _
      rw [(relabel_labels g lo hi).card_rPaths, ← Refine.recombNOptions_double_eq_card]
    · apply List.Nodup.map_on _ (bothPairs_nodup _)
      intro a ha b hb e
      exact recPath_injOn g lo hi a b ha hb e

theorem rec_facts (g : Genotype) (nb lo hi : ℕ) (hw : ∀ x ∈ g, x.length = nb) (hlo : lo ≤ hi)
    (hhi : hi ≤ nb) (hh : ℕ × ℕ) (hmem : hh ∈ recombPairs (segmentLabels g lo hi)) :
    pairsM lo hi (structuralChange g nb ((recOpt (segmentLabels g lo hi) hh).map (·.1)) lo hi)
      = rTgt (pairsM lo hi g) (recPath g lo hi (segmentLabels g lo hi) hh) ∧
    2 * recombNOptions (recOpt (segmentLabels g lo hi) hh)
      = (rPaths (pairsM lo hi (structuralChange g nb
          ((recOpt (segmentLabels g lo hi) hh).map (·.1)) lo hi))).card := by
  generalize hL : segmentLabels g lo hi = L at *
  obtain ⟨h0, h1⟩ := hh
  obtain ⟨a0, a1, hp, htgt⟩ := Refine.recombPairs_sound L h0 h1 hmem
  obtain ⟨_, _, hlt, _⟩ := (Refine.mem_recombPairs L h0 h1).mp hmem
  have R := relabel_labels g lo hi
  rw [hL] at R
  have lenL : L.length = g.length := by rw [← hL]; exact segmentLabels_length g lo hi
  have g0 : L.getD h0 (0, 0) = L[h0] := getD_eq L h0 a0
  have g1 : L.getD h1 (0, 0) = L[h1] := getD_eq L h1 a1
  have hopt : recOpt L (h0, h1) = (L.set h0 (L[h1].1, L[h0].2)).set h1 (L[h0].1, L[h1].2) := by
    unfold recOpt; simp only; rw [g0, g1]
  have hpath : recPath g lo hi L (h0, h1) = rMap (decA g lo hi) (decB g lo hi) (L[h0], L[h1]) := by
    unfold recPath; simp only; rw [g0, g1]
  have hpm : pairsM lo hi g = (L : Multiset (ℕ × ℕ)).map (Prod.map (decA g lo hi) (decB g lo hi)) := by
    rw [pairsM_eq_map_dec, hL]; rfl
  rw [hopt, hpath]
  have hpairs : pairsM lo hi (structuralChange g nb
        (((L.set h0 (L[h1].1, L[h0].2)).set h1 (L[h0].1, L[h1].2)).map (·.1)) lo hi)
      = (((L.set h0 (L[h1].1, L[h0].2)).set h1 (L[h0].1, L[h1].2) : List (ℕ × ℕ)) : Multiset (ℕ × ℕ)).map
          (Prod.map (decA g lo hi) (decB g lo hi)) := by
    unfold pairsM
    rw [Multiset.map_coe]
    congr 1
    have hlen' : ((L.set h0 (L[h1].1, L[h0].2)).set h1 (L[h0].1, L[h1].2)).length = g.length := by
      simp [lenL]
    refine sc_pairs g nb hw lo hi hlo hhi _ hlen' ?_
    intro h hh'
    have hL' : h < L.length := by omega
    obtain ⟨_, _, l0, _, _, e0⟩ := label_spec g lo hi h0 (by omega)
    obtain ⟨_, _, l1, _, _, e1⟩ := label_spec g lo hi h1 (by omega)
    simp only [hL] at l0 l1 e0 e1
    by_cases e : h1 = h
    · subst e
      simp only [List.getElem_set_self]
      exact ⟨l0, e1⟩
    · rw [List.getElem_set_ne e]
      by_cases e' : h0 = h
      · subst e'
        simp only [List.getElem_set_self]
        exact ⟨l1, e0⟩
      · rw [List.getElem_set_ne e']
        obtain ⟨_, _, l, _, _, e2⟩ := label_spec g lo hi h (by omega)
        simp only [hL] at l e2
        exact ⟨l, e2⟩
  refine ⟨?_, ?_⟩
  · rw [hpairs, htgt, hpm]
    exact rTgt_map _ _ _ _ hp
  · rw [hpairs, htgt, Refine.recombNOptions_double_eq_card, htgt]
    exact ((R.rTgt _ hp).card_rPaths).symm

noncomputable def recombMass (w : Genotype → ℝ) (nb lo hi : ℕ) (g : Genotype) (G' : Multiset Hap) : ℝ :=
  let opts := recombOptions (segmentLabels g lo hi)
  ((opts.filter (fun o => decide (((tgtOf g nb lo hi o : Genotype) : Multiset Hap) = G'))).map
    (fun o => (1 / (opts.length : ℝ)) * min 1 ((w (tgtOf g nb lo hi o) / w g)
        * ((opts.length : ℝ) / (recombNOptions o : ℝ))))).sum

theorem recPath_swap (g : Genotype) (lo hi : ℕ) (L : List (ℕ × ℕ)) (hh : ℕ × ℕ) :
    recPath g lo hi L hh.swap = (recPath g lo hi L hh).swap := rfl

theorem recombMass_eq (w : Genotype → ℝ) (hperm : ∀ a b : Genotype, a.Perm b → w a = w b)
    (g g' : Genotype) (nb lo hi : ℕ) (hw : ∀ x ∈ g, x.length = nb) (hlo : lo ≤ hi) (hhi : hi ≤ nb) :
    recombMass w nb lo hi g (g' : Multiset Hap)
      = (((rPaths (pairsM lo hi g)).filter (fun q => rTgt (pairsM lo hi g) q = pairsM lo hi g')).card : ℝ)
        * ((1 / ((rPaths (pairsM lo hi g)).card : ℝ)) * min 1 ((w g' / w g)
            * (((rPaths (pairsM lo hi g)).card : ℝ) / ((rPaths (pairsM lo hi g')).card : ℝ)))) := by
  unfold recombMass
  simp only
  set L := segmentLabels g lo hi with hL
  have hn : (2 : ℝ) * ((recombOptions L).length : ℝ) = ((rPaths (pairsM lo hi g)).card : ℝ) := by
    have : 2 * (recombOptions L).length = (rPaths (pairsM lo hi g)).card := by
      rw [recombOptions_eq, List.length_map, pairsM_eq_map_dec]
      show _ = (rPaths (Multiset.map (Prod.map (decA g lo hi) (decB g lo hi)) _)).card
      rw [(relabel_labels g lo hi).card_rPaths, ← Refine.recombNOptions_double_eq_card]
      rfl
    exact_mod_cast this
  set n : ℝ := ((recombOptions L).length : ℝ) with hn'
  set c' : ℝ := ((rPaths (pairsM lo hi g')).card : ℝ) with hc'
  -- every summand of the filtered list is the same constant
  rw [sum_map_const' _ _ ((1 / n) * min 1 ((w g' / w g) * ((2 * n) / c')))]
  · -- counting: the abstract filtered set has twice as many elements
    have hcount : (((rPaths (pairsM lo hi g)).filter
          (fun q => rTgt (pairsM lo hi g) q = pairsM lo hi g')).card : ℝ)
        = 2 * (((recombOptions L).filter
            (fun o => decide (((tgtOf g nb lo hi o : Genotype) : Multiset Hap) = (g' : Multiset Hap)))).length : ℝ) := by
      have key := length_filter_eq_card (bothPairs L) (bothPairs_nodup L) (recPath g lo hi L)
        (fun a ha b hb e => recPath_injOn g lo hi a b ha hb e)
        (fun hh => decide (rTgt (pairsM lo hi g) (recPath g lo hi L hh) = pairsM lo hi g'))
        (fun q => rTgt (pairsM lo hi g) q = pairsM lo hi g')
        (fun a _ => by simp only [decide_eq_true_eq])
      rw [recPath_image g lo hi] at key
      rw [← key]
      unfold bothPairs
      rw [List.filter_append, List.length_append, List.filter_map, List.length_map]
      have hsw : (recombPairs L).filter
            ((fun hh => decide (rTgt (pairsM lo hi g) (recPath g lo hi L hh) = pairsM lo hi g')) ∘ Prod.swap)
          = (recombPairs L).filter
            (fun hh => decide (rTgt (pairsM lo hi g) (recPath g lo hi L hh) = pairsM lo hi g')) := by
        apply List.filter_congr
        intro x _
        simp only [Function.comp]
        rw [recPath_swap]
        have := rTgt_swap (pairsM lo hi g) (recPath g lo hi L x).1 (recPath g lo hi L x).2
        simp only [Prod.swap, Prod.mk.eta] at this ⊢
        rw [this]
      rw [hsw]
      have hlit : (recombOptions L).filter
            (fun o => decide (((tgtOf g nb lo hi o : Genotype) : Multiset Hap) = (g' : Multiset Hap)))
          = ((recombPairs L).filter
            (fun hh => decide (rTgt (pairsM lo hi g) (recPath g lo hi L hh) = pairsM lo hi g'))).map (recOpt L) := by
        rw [recombOptions_eq, List.filter_map]
        congr 1
        apply List.filter_congr
        intro a ha
        obtain ⟨h2, _⟩ := rec_facts g nb lo hi hw hlo hhi a ha
        simp only [Function.comp]
        congr 1
        rw [← h2, pairsM_eq_iff lo hi hlo]
        rfl
      rw [hlit, List.length_map]
      push_cast; ring
    rw [hcount, ← hn]
    ring
  · intro o ho
    rw [List.mem_filter] at ho
    obtain ⟨ho1, ho2⟩ := ho
    simp only [decide_eq_true_eq] at ho2
    rw [recombOptions_eq, List.mem_map] at ho1
    obtain ⟨a, ha, rfl⟩ := ho1
    obtain ⟨_, h3⟩ := rec_facts g nb lo hi hw hlo hhi a ha
    have hwt : w (tgtOf g nb lo hi (recOpt L a)) = w g' := hperm _ _ (Quotient.exact ho2)
    have hpt : pairsM lo hi (tgtOf g nb lo hi (recOpt L a)) = pairsM lo hi g' :=
      (pairsM_eq_iff lo hi hlo _ _).mpr ho2
    unfold tgtOf at hpt
    rw [hpt] at h3
    have h3' : (2 : ℝ) * (recombNOptions (recOpt L a) : ℝ) = c' := by
      rw [hc', ← h3]; push_cast; rfl
    rw [hwt, ← h3']
    congr 3
    rw [mul_div_mul_left _ _ (two_ne_zero)]

theorem recomb_literal_db (w : Genotype → ℝ) (hperm : ∀ a b : Genotype, a.Perm b → w a = w b)
    (g g' : Genotype) (nb lo hi : ℕ) (hw : ∀ x ∈ g, x.length = nb) (hw' : ∀ x ∈ g', x.length = nb)
    (hlo : lo ≤ hi) (hhi : hi ≤ nb) (pg : 0 < w g) (pg' : 0 < w g') :
    w g * recombMass w nb lo hi g (g' : Multiset Hap)
      = w g' * recombMass w nb lo hi g' (g : Multiset Hap) := by
  rw [recombMass_eq w hperm g g' nb lo hi hw hlo hhi, recombMass_eq w hperm g' g nb lo hi hw' hlo hhi]
  let π : Multiset (Hap × Hap) → ℝ := fun S =>
    if S = pairsM lo hi g then w g else if S = pairsM lo hi g' then w g' else 1
  have hπ : ∀ S, 0 < π S := by
    intro S; simp only [π]; split
    · exact pg
    · split
      · exact pg'
      · exact one_pos
  have e1 : π (pairsM lo hi g) = w g := by simp [π]
  have e2 : π (pairsM lo hi g') = w g' := by
    simp only [π]
    split
    · rename_i h
      exact hperm _ _ (Quotient.exact ((pairsM_eq_iff lo hi hlo _ _).mp h.symm))
    · simp
  have key := MH.pathwise_db rPaths rTgt rRev recomb_hmem recomb_htgt recomb_hinv π hπ
    (pairsM lo hi g) (pairsM lo hi g')
  simp only [Finset.sum_const, nsmul_eq_mul, e1, e2] at key
  linarith [key]
end MCHap.Kernel
