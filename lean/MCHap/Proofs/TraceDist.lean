import MCHap.Proofs.Trace

/-! Counting distributions: `probsOf`, `sortDesc`, `posteriorOf`, look-up, expectations. -/
namespace MCHap.Trace
open MCHap
set_option linter.unusedSectionVars false

section dist
variable {β : Type} [DecidableEq β]

theorem probsOf_eq (l : List β) :
    probsOf l = (uniq l).map (fun x => (x, ((l.count x : ℕ) : ℚ) / ((l.length : ℕ) : ℚ))) := by
  unfold probsOf uniqueCounts
  simp only [List.map_map]
  have : ((uniq l).map ((fun xc : β × ℕ => xc.2) ∘ fun x => (x, l.count x))).sum = l.length := by
    have := sum_uniq_count_nat l
    simpa [Function.comp_def] using this
  rw [this]
  rfl

theorem sortDesc_perm (ps : List (β × ℚ)) : (sortDesc ps).Perm ps :=
  (List.reverse_perm _).trans (sortBy_perm _ ps)

theorem sortDesc_pairwise (ps : List (β × ℚ)) : (sortDesc ps).Pairwise (fun a b => b.2 ≤ a.2) := by
  unfold sortDesc
  rw [List.pairwise_reverse]
  have := sortBy_pairwise (fun a b : β × ℚ => decide (a.2 ≤ b.2))
    (by intro a b; simp only [Bool.or_eq_true, decide_eq_true_eq]; exact le_total _ _)
    (by intro a b c; simp only [decide_eq_true_eq]; exact le_trans) ps
  exact this.imp (by intro a b h; simpa using h)

theorem posteriorOf_perm (l : List β) :
    (posteriorOf l).Perm ((uniq l).map (fun x => (x, ((l.count x : ℕ) : ℚ) / ((l.length : ℕ) : ℚ)))) := by
  unfold posteriorOf
  rw [← probsOf_eq]
  exact sortDesc_perm _

theorem posteriorOf_keys_perm (l : List β) : ((posteriorOf l).map (·.1)).Perm (uniq l) := by
  have := (posteriorOf_perm l).map (·.1)
  simpa [List.map_map, Function.comp_def] using this

theorem posteriorOf_keys_nodup (l : List β) : ((posteriorOf l).map (·.1)).Nodup :=
  (posteriorOf_keys_perm l).nodup_iff.mpr (nodup_uniq l)

theorem mem_posteriorOf {l : List β} {g : β} {p : ℚ} :
    (g, p) ∈ posteriorOf l ↔ g ∈ l ∧ p = ((l.count g : ℕ) : ℚ) / ((l.length : ℕ) : ℚ) := by
  rw [(posteriorOf_perm l).mem_iff, List.mem_map]
  constructor
  · rintro ⟨x, hx, e⟩
    injection e with e1 e2
    subst e1
    exact ⟨mem_uniq.mp hx, e2.symm⟩
  · rintro ⟨hg, rfl⟩
    exact ⟨g, mem_uniq.mpr hg, rfl⟩

theorem posteriorOf_eq_nil {l : List β} : posteriorOf l = [] ↔ l = [] := by
  constructor
  · intro h
    have := (posteriorOf_keys_perm l)
    rw [h] at this
    simp at this
    exact uniq_eq_nil.mp this
  · intro h; subst h; rfl

/-- expectation under the counting distribution = average over the steps -/
theorem expectation_posteriorOf (l : List β) (f : β → ℚ) :
    ((posteriorOf l).map (fun gp => gp.2 * f gp.1)).sum = (l.map f).sum / ((l.length : ℕ) : ℚ) := by
  rw [((posteriorOf_perm l).map _).sum_eq, List.map_map]
  have h := sum_uniq_count l f
  rw [← h, div_eq_mul_inv, ← List.sum_map_mul_right]
  congr 1
  apply List.map_congr_left
  intro x _
  simp only [Function.comp_def, nsmul_eq_mul]
  ring

/-! look-up -/

theorem probOf_of_mem {post : List (β × ℚ)} (hnd : (post.map (·.1)).Nodup) {g : β} {p : ℚ}
    (h : (g, p) ∈ post) : probOf post g = p := by
  induction post with
  | nil => simp at h
  | cons a t ih =>
    unfold probOf
    simp only [List.map_cons, List.nodup_cons] at hnd
    rcases List.mem_cons.mp h with e | h'
    · subst e; simp [List.find?]
    · have hne : a.1 ≠ g := by
        intro e
        apply hnd.1
        rw [e]
        exact List.mem_map.mpr ⟨(g, p), h', rfl⟩
      simp only [List.find?, hne, decide_false]
      exact ih hnd.2 h'

theorem probOf_of_not_mem {post : List (β × ℚ)} {g : β} (h : g ∉ post.map (·.1)) : probOf post g = 0 := by
  induction post with
  | nil => rfl
  | cons a t ih =>
    simp only [List.map_cons, List.mem_cons, not_or] at h
    unfold probOf
    have hne : a.1 ≠ g := fun e => h.1 e.symm
    simp only [List.find?, hne, decide_false]
    exact ih h.2

theorem probOf_posteriorOf (l : List β) (g : β) :
    probOf (posteriorOf l) g = ((l.count g : ℕ) : ℚ) / ((l.length : ℕ) : ℚ) := by
  by_cases hg : g ∈ l
  · exact probOf_of_mem (posteriorOf_keys_nodup l) (mem_posteriorOf.mpr ⟨hg, rfl⟩)
  · rw [probOf_of_not_mem, List.count_eq_zero_of_not_mem hg]
    · simp
    · intro h
      exact hg (mem_uniq.mp ((posteriorOf_keys_perm l).subset h))

theorem count_map_eq_countP {γ : Type} (f : γ → β) (b : β) : ∀ l : List γ,
    (l.map f).count b = l.countP (fun s => decide (f s = b))
  | [] => rfl
  | a :: t => by
    have ih := count_map_eq_countP f b t
    by_cases h : f a = b
    · simp [h, ih]
    · simp [h, ih]

theorem count_pos_of_mem {l : List β} {g : β} (h : g ∈ l) : 0 < l.count g := List.count_pos_iff.mpr h

theorem sum_filter_eq_sum_ite {γ : Type} (l : List γ) (q : γ → Bool) (f : γ → ℚ) :
    ((l.filter q).map f).sum = (l.map (fun x => if q x then f x else 0)).sum := by
  induction l with
  | nil => rfl
  | cons a t ih =>
    by_cases h : q a
    · simp [List.filter, h, ih]
    · simp [List.filter, h, ih]

end dist

/-! ### `argmaxFirst` (= `np.argmax`) and `modeOf` -/

theorem argmaxFirst_go_lt_and_max : ∀ (t : List ℚ) (best : ℚ) (bi i : ℕ) (pre : List ℚ),
    pre.length = i → bi < i → pre.getD bi 0 = best → (∀ j, j < i → pre.getD j 0 ≤ best) →
    argmaxFirst.go best bi i t < (pre ++ t).length ∧
    (∀ j, j < (pre ++ t).length → (pre ++ t).getD j 0 ≤ (pre ++ t).getD (argmaxFirst.go best bi i t) 0) := by
  intro t
  induction t with
  | nil =>
    intro best bi i pre hl hb hbest hle
    simp only [argmaxFirst.go, List.append_nil]
    exact ⟨by omega, fun j hj => by rw [hbest]; exact hle j (by omega)⟩
  | cons y t ih =>
    intro best bi i pre hl hb hbest hle
    have hget : ∀ j, j < i → (pre ++ [y]).getD j 0 = pre.getD j 0 := by
      intro j hj
      simp [List.getD_eq_getElem?_getD, List.getElem?_append_left (by omega : j < pre.length)]
    have hgeti : (pre ++ [y]).getD i 0 = y := by
      simp [List.getD_eq_getElem?_getD, ← hl]
    have e : pre ++ y :: t = (pre ++ [y]) ++ t := by simp
    unfold argmaxFirst.go
    split
    · rename_i hgt
      have := ih y i (i + 1) (pre ++ [y]) (by simp [hl]) (by omega) hgeti
        (by
          intro j hj
          rcases Nat.lt_or_ge j i with h | h
          · rw [hget j h]; exact le_trans (hle j h) (le_of_lt hgt)
          · have : j = i := by omega
            rw [this, hgeti])
      rw [e]; exact this
    · rename_i hngt
      have hyle : y ≤ best := not_lt.mp hngt
      have := ih best bi (i + 1) (pre ++ [y]) (by simp [hl]) (by omega)
        (by rw [hget bi hb]; exact hbest)
        (by
          intro j hj
          rcases Nat.lt_or_ge j i with h | h
          · rw [hget j h]; exact hle j h
          · have : j = i := by omega
            rw [this, hgeti]; exact hyle)
      rw [e]; exact this

theorem argmaxFirst_lt_and_max (l : List ℚ) (hl : l ≠ []) :
    argmaxFirst l < l.length ∧ ∀ j, j < l.length → l.getD j 0 ≤ l.getD (argmaxFirst l) 0 := by
  cases l with
  | nil => exact absurd rfl hl
  | cons x t =>
    have := argmaxFirst_go_lt_and_max t x 0 1 [x] rfl (by omega) (by simp)
      (by intro j hj; have : j = 0 := by omega
          subst this; simp)
    simpa [argmaxFirst] using this

/-- `modeOf` returns a listed entry of maximal probability -/
theorem modeOf_spec {γ : Type} {post : List (γ × ℚ)} {g : γ} {p : ℚ} (h : modeOf post = some (g, p)) :
    (g, p) ∈ post ∧ ∀ gp ∈ post, gp.2 ≤ p := by
  have hne : post ≠ [] := by
    intro e; subst e; simp [modeOf] at h
  have hm : modeOf post = post[argmaxFirst (post.map (·.2))]? := by
    cases post with
    | nil => exact absurd rfl hne
    | cons a t => rfl
  rw [hm] at h
  have hne' : post.map (·.2) ≠ [] := by simpa using hne
  obtain ⟨hlt, hmax⟩ := argmaxFirst_lt_and_max _ hne'
  set i := argmaxFirst (post.map (·.2)) with hi
  have hlt' : i < post.length := by simpa using hlt
  rw [List.getElem?_eq_getElem hlt'] at h
  have hgp : post[i] = (g, p) := by simpa using h
  refine ⟨hgp ▸ List.getElem_mem hlt', ?_⟩
  intro gp hgp'
  obtain ⟨j, hj, rfl⟩ := List.getElem_of_mem hgp'
  have := hmax j (by simpa using hj)
  simp only [List.getD_eq_getElem?_getD, List.getElem?_map, List.getElem?_eq_getElem hj,
    List.getElem?_eq_getElem hlt', Option.map_some, Option.getD_some, hgp] at this
  exact this

theorem modeOf_isSome {γ : Type} {post : List (γ × ℚ)} (hne : post ≠ []) : (modeOf post).isSome := by
  have hm : modeOf post = post[argmaxFirst (post.map (·.2))]? := by
    cases post with
    | nil => exact absurd rfl hne
    | cons a t => rfl
  have hne' : post.map (·.2) ≠ [] := by simpa using hne
  obtain ⟨hlt, _⟩ := argmaxFirst_lt_and_max _ hne'
  rw [hm, List.getElem?_eq_getElem (by simpa using hlt)]
  rfl

end MCHap.Trace
