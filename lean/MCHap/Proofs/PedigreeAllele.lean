import MCHap.Proofs.Pedigree

/-! Per-gamete identities behind the allele-level pmf of the Gibbs move:
    `P(gamete without one copy of x) · P(x | rest) = (g_x / τ) · P(gamete)`. -/
namespace MCHap

/-! ### vectors with one copy removed -/

theorem decAt_cons_zero (v : ℕ) (a : List ℕ) : decAt (v :: a) 0 = (v - 1) :: a := by
  simp [decAt]

theorem decAt_cons_succ (v : ℕ) (a : List ℕ) (x : ℕ) : decAt (v :: a) (x + 1) = v :: decAt a x := by
  simp [decAt]

theorem getD_le_sum : ∀ (a : List ℕ) (x : ℕ), a.getD x 0 ≤ a.sum := by
  intro a
  induction a with
  | nil => intro x; simp
  | cons v a ih =>
    intro x
    cases x with
    | zero => simp
    | succ x => have := ih x; simp only [List.getD_cons_succ, List.sum_cons]; omega

theorem decAt_sum : ∀ (a : List ℕ) (x : ℕ), 1 ≤ a.getD x 0 → (decAt a x).sum + 1 = a.sum := by
  intro a
  induction a with
  | nil => intro x h; simp at h
  | cons v a ih =>
    intro x h
    cases x with
    | zero => simp only [List.getD_cons_zero] at h; rw [decAt_cons_zero]; simp only [List.sum_cons]; omega
    | succ x =>
      simp only [List.getD_cons_succ] at h
      rw [decAt_cons_succ]; simp only [List.sum_cons]; have := ih x h; omega

theorem decAt_length (a : List ℕ) (x : ℕ) : (decAt a x).length = a.length := by simp [decAt]

/-! ### multinomial -/

/-- `∏ f_i^{c_i}/c_i!` with one copy of `x` removed, times `f_x`, is `c_x` times the full product -/
theorem pw_prod_dec : ∀ (x : ℕ) (fs : List ℚ) (a : List ℕ), a.length ≤ fs.length → 1 ≤ a.getD x 0 →
    ((fs.zip (decAt a x)).map (fun fc => pw fc.1 fc.2)).prod * fs.getD x 0
      = (a.getD x 0 : ℚ) * ((fs.zip a).map (fun fc => pw fc.1 fc.2)).prod := by
  intro x
  induction x with
  | zero =>
    intro fs a hl h
    cases a with
    | nil => simp at h
    | cons v a =>
      cases fs with
      | nil => simp at hl
      | cons f fs =>
        simp only [List.getD_cons_zero] at h ⊢
        rw [decAt_cons_zero]
        simp only [List.zip_cons_cons, List.map_cons, List.prod_cons]
        obtain ⟨k, rfl⟩ : ∃ k, v = k + 1 := ⟨v - 1, by omega⟩
        have := pw_succ f k
        simp only [Nat.add_sub_cancel]
        push_cast
        linear_combination (-(List.map (fun fc => pw fc.1 fc.2) (fs.zip a)).prod) * this
  | succ x ih =>
    intro fs a hl h
    cases a with
    | nil => simp at h
    | cons v a =>
      cases fs with
      | nil => simp at hl
      | cons f fs =>
        simp only [List.getD_cons_succ] at h ⊢
        rw [decAt_cons_succ]
        simp only [List.zip_cons_cons, List.map_cons, List.prod_cons]
        have := ih fs a (by simpa using hl) h
        linear_combination (pw f v) * this

/-- `U(g − e_x) · f_x = (g_x / τ) · U(g)` for the multinomial gamete pmf -/
theorem unknown_allele_step (fs : List ℚ) (a : List ℕ) (x : ℕ) (hl : a.length ≤ fs.length) :
    unknownConstPmf fs a x * fs.getD x 0 = ((a.getD x 0 : ℚ) / (a.sum : ℚ)) * unknownPmf fs a := by
  unfold unknownConstPmf unknownPmf
  by_cases h : a.getD x 0 > 0
  · simp only [h, if_true]
    rw [C05.multinomialCounts_eq, C05.multinomialCounts_eq]
    have hs := decAt_sum a x h
    have hp := pw_prod_dec x fs a hl h
    have hf : (factorial a.sum : ℚ) = (a.sum : ℚ) * (factorial (decAt a x).sum : ℚ) := by
      rw [← hs]; simp [factorial]
    have ht : 1 ≤ a.sum := by have := getD_le_sum a x; omega
    have hne : (a.sum : ℚ) ≠ 0 := by positivity
    rw [hf]
    field_simp
    linear_combination (factorial (decAt a x).sum : ℚ) * hp
  · have h0 : a.getD x 0 = 0 := by omega
    rw [if_neg h, h0]; simp

/-! ### hypergeometric -/

theorem choose_step (n k : ℕ) :
    (Nat.choose n k : ℚ) * (((n : ℤ) - (k : ℤ) : ℤ) : ℚ) = ((k : ℚ) + 1) * (Nat.choose n (k + 1) : ℚ) := by
  have h := Nat.choose_succ_right_eq n k
  rcases Nat.lt_or_ge n k with hlt | hge
  · rw [Nat.choose_eq_zero_of_lt hlt, Nat.choose_eq_zero_of_lt (by omega)]; simp
  · have e : (((n : ℤ) - (k : ℤ) : ℤ) : ℚ) = ((n - k : ℕ) : ℚ) := by
      push_cast [Nat.cast_sub hge]; ring
    rw [e]
    have h' : ((Nat.choose n (k + 1) * (k + 1) : ℕ) : ℚ) = ((Nat.choose n k * (n - k) : ℕ) : ℚ) := by
      rw [h]
    push_cast at h'
    linear_combination -h'

/-- `∏ C(d_i, g_i)` with one copy of `x` removed, times the copies of `x` still available,
    is `g_x` times the full product (also when the "available" count is negative: both sides vanish) -/
theorem chq_prod_dec : ∀ (x : ℕ) (dp a : List ℕ), a.length ≤ dp.length → 1 ≤ a.getD x 0 →
    ((dp.zip (decAt a x)).map (fun ac => chq ac.1 ac.2)).prod
        * ((((dp.getD x 0 : ℕ) : ℤ) - (((a.getD x 0 - 1 : ℕ) : ℕ) : ℤ) : ℤ) : ℚ)
      = (a.getD x 0 : ℚ) * ((dp.zip a).map (fun ac => chq ac.1 ac.2)).prod := by
  intro x
  induction x with
  | zero =>
    intro dp a hl h
    cases a with
    | nil => simp at h
    | cons v a =>
      cases dp with
      | nil => simp at hl
      | cons n dp =>
        simp only [List.getD_cons_zero] at h ⊢
        rw [decAt_cons_zero]
        simp only [List.zip_cons_cons, List.map_cons, List.prod_cons, chq]
        obtain ⟨k, rfl⟩ : ∃ k, v = k + 1 := ⟨v - 1, by omega⟩
        have := choose_step n k
        simp only [Nat.add_sub_cancel]
        push_cast at this ⊢
        linear_combination (List.map (fun ac : ℕ × ℕ => (Nat.choose ac.1 ac.2 : ℚ)) (dp.zip a)).prod * this
  | succ x ih =>
    intro dp a hl h
    cases a with
    | nil => simp at h
    | cons v a =>
      cases dp with
      | nil => simp at hl
      | cons n dp =>
        simp only [List.getD_cons_succ] at h ⊢
        rw [decAt_cons_succ]
        simp only [List.zip_cons_cons, List.map_cons, List.prod_cons]
        have := ih dp a (by simpa using hl) h
        linear_combination (chq n v) * this

theorem gametePmf_lam0 (g : List ℕ) (tau : ℕ) (dp : List ℕ) (pp : ℕ) :
    gametePmf g tau dp pp 0 = hyperPmf dp pp tau g := by
  unfold gametePmf hyperPmf
  simp

/-- hypergeometric part: `H(g − e_x; τ−1) · (d_x − g_x + 1)/(ploidy − τ + 1) = (g_x/τ) · H(g; τ)` -/
theorem hyper_step0 (dp a : List ℕ) (pp tau x : ℕ) (hlen : a.length = dp.length) (hsum : a.sum = tau)
    (htp : tau ≤ pp) (hx : 1 ≤ a.getD x 0) :
    gameteConstPmf x a tau dp pp
        * (((((dp.getD x 0 : ℕ) : ℤ) - ((a.getD x 0 - 1 : ℕ) : ℤ) : ℤ) : ℚ)
            / ((((pp : ℕ) : ℤ) - ((tau - 1 : ℕ) : ℤ) : ℤ) : ℚ))
      = ((a.getD x 0 : ℚ) / (tau : ℚ)) * hyperPmf dp pp tau a := by
  have ht1 : 1 ≤ tau := by have := getD_le_sum a x; omega
  unfold gameteConstPmf
  rw [if_neg (by omega), gametePmf_lam0]
  unfold hyperPmf
  rw [dosagePermutations_eq, dosagePermutations_eq, comb_eq_choose, comb_eq_choose]
  have h1 := chq_prod_dec x dp a (by omega) hx
  have h2 := choose_step pp (tau - 1)
  have e1 : tau - 1 + 1 = tau := by omega
  rw [e1] at h2
  have e2 : ((tau - 1 : ℕ) : ℚ) + 1 = (tau : ℚ) := by
    have : ((tau - 1 + 1 : ℕ) : ℚ) = (tau : ℚ) := by rw [e1]
    push_cast at this; exact this
  rw [e2] at h2
  have hc1 : (Nat.choose pp (tau - 1) : ℚ) ≠ 0 := by exact_mod_cast (Nat.choose_pos (by omega)).ne'
  have hc2 : (Nat.choose pp tau : ℚ) ≠ 0 := by exact_mod_cast (Nat.choose_pos htp).ne'
  have ht : (tau : ℚ) ≠ 0 := by exact_mod_cast (by omega : tau ≠ 0)
  have htot : ((((pp : ℕ) : ℤ) - ((tau - 1 : ℕ) : ℤ) : ℤ) : ℚ) ≠ 0 := by
    have : ((pp : ℕ) : ℤ) - ((tau - 1 : ℕ) : ℤ) ≠ 0 := by omega
    exact_mod_cast this
  set A := ((((dp.getD x 0 : ℕ) : ℤ) - ((a.getD x 0 - 1 : ℕ) : ℤ) : ℤ) : ℚ) with hA
  set Tt := ((((pp : ℕ) : ℤ) - ((tau - 1 : ℕ) : ℤ) : ℤ) : ℚ) with hT
  set H1 := (List.map (fun ac : ℕ × ℕ => chq ac.1 ac.2) (dp.zip (decAt a x))).prod
  set H0 := (List.map (fun ac : ℕ × ℕ => chq ac.1 ac.2) (dp.zip a)).prod
  have h2' : (Nat.choose pp (tau - 1) : ℚ) * Tt = (tau : ℚ) * (Nat.choose pp tau : ℚ) := h2
  field_simp
  have : H1 * A * ((tau : ℚ) * (Nat.choose pp tau : ℚ)) = (a.getD x 0 : ℚ) * H0 * ((Nat.choose pp (tau - 1) : ℚ) * Tt) := by
    rw [h1, h2']
  linear_combination this

/-! ### double reduction -/

theorem drPermsGo_zeros : ∀ (l : List (ℕ × ℕ)) (n : ℕ), (∀ y ∈ l, y.1 = 0) → drPermsGo l n = some n := by
  intro l
  induction l with
  | nil => intro n _; rfl
  | cons y l ih =>
    intro n h
    obtain ⟨g, d⟩ := y
    have hg : g = 0 := h (g, d) (by simp)
    subst hg
    simp only [drPermsGo]
    simpa using ih n (fun z hz => h z (List.mem_cons_of_mem _ hz))

theorem sum_zero_all : ∀ (a : List ℕ), a.sum = 0 → ∀ y ∈ a, y = 0 := by
  intro a h y hy
  have := List.single_le_sum (fun _ _ => Nat.zero_le _) y hy
  omega

/-- the gamete `2 e_x`: `double_reduction_permutations` returns the parental copies of `x` -/
theorem drPerms_two : ∀ (x : ℕ) (a dp : List ℕ), a.length = dp.length → a.sum = 2 → a.getD x 0 = 2 →
    doubleReductionPermutations a dp = some (dp.getD x 0) := by
  intro x
  unfold doubleReductionPermutations
  induction x with
  | zero =>
    intro a dp hl hs hx
    cases a with
    | nil => simp at hx
    | cons v a =>
      cases dp with
      | nil => simp at hl
      | cons n dp =>
        simp only [List.getD_cons_zero] at hx ⊢
        subst hx
        simp only [List.sum_cons] at hs
        simp only [List.zip_cons_cons, drPermsGo, if_true]
        apply drPermsGo_zeros
        intro y hy
        have := List.of_mem_zip hy
        exact sum_zero_all a (by omega) y.1 this.1
  | succ x ih =>
    intro a dp hl hs hx
    cases a with
    | nil => simp at hx
    | cons v a =>
      cases dp with
      | nil => simp at hl
      | cons n dp =>
        simp only [List.getD_cons_succ] at hx ⊢
        simp only [List.sum_cons] at hs
        have := getD_le_sum a x
        have hv : v = 0 := by omega
        subst hv
        simp only [List.zip_cons_cons, drPermsGo]
        simpa using ih a dp (by simpa using hl) (by omega) hx

/-- a gamete `e_x + e_y`: no double reduction -/
theorem drPerms_one : ∀ (a dp : List ℕ) (x : ℕ), a.length = dp.length → a.sum = 2 → a.getD x 0 = 1 →
    doubleReductionPermutations a dp = some 0 := by
  unfold doubleReductionPermutations
  intro a
  induction a with
  | nil => intro dp x _ hs _; simp at hs
  | cons v a ih =>
    intro dp x hl hs hx
    cases dp with
    | nil => simp at hl
    | cons n dp =>
      simp only [List.sum_cons] at hs
      simp only [List.zip_cons_cons, drPermsGo]
      cases x with
      | zero =>
        simp only [List.getD_cons_zero] at hx
        subst hx
        simp
      | succ x =>
        simp only [List.getD_cons_succ] at hx
        have := getD_le_sum a x
        have hv : v = 0 ∨ v = 1 := by omega
        rcases hv with rfl | rfl
        · simpa using ih dp x (by simpa using hl) (by omega) hx
        · simp

/-! ### the full per-gamete identity -/

theorem chq_prod_zero : ∀ (x : ℕ) (dp a : List ℕ), a.length ≤ dp.length → dp.getD x 0 < a.getD x 0 →
    ((dp.zip a).map (fun ac => chq ac.1 ac.2)).prod = 0 := by
  intro x
  induction x with
  | zero =>
    intro dp a hl h
    cases a with
    | nil => simp at h
    | cons v a =>
      cases dp with
      | nil => simp at hl
      | cons n dp =>
        simp only [List.getD_cons_zero] at h
        simp [chq, Nat.choose_eq_zero_of_lt h]
  | succ x ih =>
    intro dp a hl h
    cases a with
    | nil => simp at h
    | cons v a =>
      cases dp with
      | nil => simp at hl
      | cons n dp =>
        simp only [List.getD_cons_succ] at h
        simp [ih dp a (by simpa using hl) h]

theorem chq_prod_zeros : ∀ (dp a : List ℕ), (∀ y ∈ a, y = 0) →
    ((dp.zip a).map (fun ac => chq ac.1 ac.2)).prod = 1 := by
  intro dp
  induction dp with
  | nil => intro a _; simp
  | cons n dp ih =>
    intro a h
    cases a with
    | nil => simp
    | cons v a =>
      have hv : v = 0 := h v (by simp)
      subst hv
      have := ih a (fun y hy => h y (List.mem_cons_of_mem _ hy))
      simp only [List.zip_cons_cons, List.map_cons, List.prod_cons, this]
      simp [chq]

theorem decAt_getD_self (a : List ℕ) (x : ℕ) (hx : x < a.length) : (decAt a x).getD x 0 = a.getD x 0 - 1 := by
  simp [decAt, List.getD_eq_getElem?_getD, hx]

theorem lt_length_of_getD_pos (a : List ℕ) (x : ℕ) (h : 1 ≤ a.getD x 0) : x < a.length := by
  by_contra hc
  have : a.getD x 0 = 0 := by simp [List.getD_eq_getElem?_getD, List.getElem?_eq_none (by omega : a.length ≤ x)]
  omega

/-- for the gamete `2 e_x`, the remaining copy `e_x` has `C(d_x, 1) = d_x` ways -/
theorem dosagePermutations_unit (dp a : List ℕ) (x : ℕ) (hlen : a.length = dp.length) (hs : a.sum = 2)
    (hx : a.getD x 0 = 2) : (dosagePermutations (decAt a x) dp : ℚ) = (dp.getD x 0 : ℚ) := by
  have hxl := lt_length_of_getD_pos a x (by omega)
  have h1 : (decAt a x).getD x 0 = 1 := by rw [decAt_getD_self a x hxl]; omega
  have hs1 : (decAt a x).sum = 1 := by have := decAt_sum a x (by omega); omega
  have h := chq_prod_dec x dp (decAt a x) (by rw [decAt_length]; omega) (by omega)
  have hs0 : (decAt (decAt a x) x).sum = 0 := by
    have := decAt_sum (decAt a x) x (by omega); omega
  rw [chq_prod_zeros dp _ (sum_zero_all _ hs0), h1] at h
  rw [dosagePermutations_eq]
  simp only [Nat.sub_self, Nat.cast_zero, sub_zero, Nat.cast_one, one_mul] at h
  rw [← h]; push_cast; ring

theorem gametePmf_eq (g : List ℕ) (tau : ℕ) (dp : List ℕ) (pp : ℕ) (lam : ℚ) :
    gametePmf g tau dp pp lam = hyperPmf dp pp tau g * (1 - lam)
      + (if lam > 0 then (((doubleReductionPermutations g dp).getD 0 : ℕ) : ℚ) / (pp : ℚ) * lam else 0) := by
  unfold gametePmf hyperPmf
  split <;> simp

/-- **per-gamete identity**: probability of the gamete without one copy of `x`, times the
    probability of then drawing `x` (with double reduction), is `g_x/τ` times the gamete pmf -/
theorem gamete_allele_step (dp a : List ℕ) (pp tau x : ℕ) (lam : ℚ) (hlen : a.length = dp.length)
    (hsum : a.sum = tau) (hdp : dp.sum = pp) (htp : tau ≤ pp) (hlam0 : 0 ≤ lam)
    (hlam : lam ≠ 0 → tau = 2) :
    gameteConstPmf x a tau dp pp * gameteAllelePmf (a.getD x 0) tau (dp.getD x 0) pp lam
      = ((a.getD x 0 : ℚ) / (tau : ℚ)) * gametePmf a tau dp pp lam := by
  have hax := getD_le_sum a x
  have hdx := getD_le_sum dp x
  by_cases h0 : a.getD x 0 = 0
  · unfold gameteConstPmf
    rw [if_pos (by omega), h0]; simp
  have hx1 : 1 ≤ a.getD x 0 := by omega
  have ht1 : 1 ≤ tau := by omega
  have hstep := hyper_step0 dp a pp tau x hlen hsum htp hx1
  rw [gametePmf_eq]
  unfold gameteAllelePmf gameteAlleleRaw
  rw [if_neg (by omega), if_neg (by omega)]
  by_cases hd0 : dp.getD x 0 = 0
  · -- the parent does not carry x
    rw [if_pos hd0]
    have hH : hyperPmf dp pp tau a = 0 := by
      unfold hyperPmf
      rw [dosagePermutations_eq, chq_prod_zero x dp a (by omega) (by omega)]; simp
    rw [hH]
    by_cases hl : lam > 0
    · have ht2 : tau = 2 := hlam (ne_of_gt hl)
      rw [if_pos hl]
      have hax2 : a.getD x 0 = 1 ∨ a.getD x 0 = 2 := by omega
      rcases hax2 with h1 | h2
      · rw [drPerms_one a dp x hlen (by omega) h1]; simp
      · rw [drPerms_two x a dp hlen (by omega) h2, hd0]; simp
    · rw [if_neg hl]; simp
  · rw [if_neg hd0]
    have htot : ((pp : ℤ) - ((tau - 1 : ℕ) : ℤ)) ≠ 0 := by omega
    simp only
    by_cases hneg : ((dp.getD x 0 : ℕ) : ℤ) - ((a.getD x 0 - 1 : ℕ) : ℤ) < 0
    · -- the constant alleles already exceed the parental copies: both sides vanish
      rw [if_pos hneg]
      have hH : hyperPmf dp pp tau a = 0 := by
        unfold hyperPmf
        rw [dosagePermutations_eq, chq_prod_zero x dp a (by omega) (by omega)]; simp
      rw [hH]
      by_cases hl : lam > 0
      · have ht2 : tau = 2 := hlam (ne_of_gt hl)
        exfalso; omega
      · rw [if_neg hl]; simp
    rw [if_neg hneg, if_neg htot]
    by_cases hl : lam > 0
    · have ht2 : tau = 2 := hlam (ne_of_gt hl)
      subst ht2
      rw [if_pos hl, if_neg (by simp), if_pos hl]
      have hax2 : a.getD x 0 = 1 ∨ a.getD x 0 = 2 := by omega
      rcases hax2 with h1 | h2
      · rw [if_neg (by omega), drPerms_one a dp x hlen hsum h1]
        simp only [Option.getD_some]
        rw [h1] at hstep ⊢
        simp only [Nat.cast_zero, zero_div, zero_mul, add_zero]
        linear_combination (1 - lam) * hstep
      · rw [if_pos (by omega), drPerms_two x a dp hlen hsum h2]
        simp only [Option.getD_some]
        have hG : gameteConstPmf x a 2 dp pp = (dp.getD x 0 : ℚ) / (pp : ℚ) := by
          unfold gameteConstPmf
          rw [if_neg (by omega), gametePmf_lam0]
          unfold hyperPmf
          rw [dosagePermutations_unit dp a x hlen hsum h2, comb_eq_choose]
          simp
        rw [h2] at hstep ⊢
        rw [hG] at hstep ⊢
        have e1 : (2 - 1 : ℕ) = 1 := rfl
        simp only [e1] at hstep ⊢
        push_cast at hstep ⊢
        linear_combination (1 - lam) * hstep
    · have hl0 : lam = 0 := le_antisymm (not_lt.mp hl) hlam0
      subst hl0
      rw [if_neg (by simp), if_neg (by simp)]
      simp only [Option.getD_some, sub_zero, mul_one, add_zero]
      exact hstep

/-! ### complement gametes -/

theorem vsub_spec {g d : List ℕ} (h : List.Forall₂ (· ≤ ·) g d) :
    (vsub d g).length = d.length ∧ (vsub d g).sum + g.sum = d.sum ∧
    ∀ x, (vsub d g).getD x 0 + g.getD x 0 = d.getD x 0 := by
  induction h with
  | nil => simp [vsub]
  | cons hab _ ih =>
    obtain ⟨h1, h2, h3⟩ := ih
    simp only [vsub] at h1 h2 h3 ⊢
    refine ⟨by simp [h1], by simp only [List.zipWith_cons_cons, List.sum_cons]; omega, ?_⟩
    intro x
    cases x with
    | zero => simp; omega
    | succ x => simpa using h3 x

/-- what the allele-level theorem needs to know about the vectors an enumerator yields -/
def EnumSound (enum : GameteEnum) (tau : ℕ) (cons d : List ℕ) : Prop :=
  ∀ g ∈ enum tau cons, g.sum = tau ∧ List.Forall₂ (· ≤ ·) g d

/-- side conditions under which the gamete terms of one parent are evaluated -/
def ParentWF (dp : List ℕ) (pp tau : ℕ) (lam : ℚ) (n : ℕ) : Prop :=
  dp.length = n ∧ dp.sum = pp ∧ tau ≤ pp ∧ 0 ≤ lam ∧ (lam ≠ 0 → tau = 2)

/-- **the allele-level pmf is a multiple of the trio pmf** whenever the gamete weights make the
    per-pair multiplier `w_p·a_x/τ_p + w_q·b_x/τ_q` a constant `κ` (and `2·d_x/(τ_p+τ_q) = κ`).
    Holds for ANY enumerator that yields vectors of the right total below the progeny vector: both
    functions run over the same gametes. -/
theorem trio_allele_scaled (w : ℕ → ℕ → ℕ → ℚ) (enum : GameteEnum) (T : Trio) (x : ℕ) (κ : ℚ)
    (hsum : T.d.sum = T.tp + T.tq) (hfs : T.d.length ≤ T.fs.length)
    (hp : T.validP = true → ParentWF T.dp T.pp T.tp T.lp T.d.length ∧ EnumSound enum T.tp T.consP T.d)
    (hq : T.validQ = true → ParentWF T.dq T.pq T.tq T.lq T.d.length ∧ EnumSound enum T.tq T.consQ T.d)
    (hκ : ∀ a b : ℕ, a + b = T.d.getD x 0 → a ≤ T.tp → b ≤ T.tq →
      w T.tp T.tp T.tq * ((a : ℚ) / (T.tp : ℚ)) + w T.tq T.tp T.tq * ((b : ℚ) / (T.tq : ℚ)) = κ)
    (hκ2 : 2 * ((T.d.getD x 0 : ℚ) / ((T.tp + T.tq : ℕ) : ℚ)) = κ) :
    trioAlleleWith w enum T x = κ * trioPmfWith enum T := by
  -- per-term facts
  have termP : T.validP = true → ∀ gp ∈ enum T.tp T.consP,
      gameteConstPmf x gp T.tp T.dp T.pp * gameteAllelePmf (gp.getD x 0) T.tp (T.dp.getD x 0) T.pp T.lp
        = ((gp.getD x 0 : ℚ) / (T.tp : ℚ)) * gametePmf gp T.tp T.dp T.pp T.lp := by
    intro hv gp hg
    obtain ⟨⟨w1, w2, w3, w4, w5⟩, hs⟩ := hp hv
    obtain ⟨s1, s2⟩ := hs gp hg
    exact gamete_allele_step T.dp gp T.pp T.tp x T.lp (by rw [s2.length_eq, w1]) s1 w2 w3 w4 w5
  have termQ : T.validQ = true → ∀ gq : List ℕ, gq.sum = T.tq → gq.length = T.d.length →
      gameteConstPmf x gq T.tq T.dq T.pq * gameteAllelePmf (gq.getD x 0) T.tq (T.dq.getD x 0) T.pq T.lq
        = ((gq.getD x 0 : ℚ) / (T.tq : ℚ)) * gametePmf gq T.tq T.dq T.pq T.lq := by
    intro hv gq s1 s2
    obtain ⟨⟨w1, w2, w3, w4, w5⟩, _⟩ := hq hv
    exact gamete_allele_step T.dq gq T.pq T.tq x T.lq (by rw [s2, w1]) s1 w2 w3 w4 w5
  have termU : ∀ g : List ℕ, g.length = T.d.length →
      unknownConstPmf T.fs g x * T.fs.getD x 0 = ((g.getD x 0 : ℚ) / (g.sum : ℚ)) * unknownPmf T.fs g :=
    fun g hl => unknown_allele_step T.fs g x (by omega)
  -- complement of a sound p-gamete / q-gamete
  have compl : ∀ (g : List ℕ) (t t' : ℕ), t + t' = T.d.sum → g.sum = t → List.Forall₂ (· ≤ ·) g T.d →
      (vsub T.d g).length = T.d.length ∧ (vsub T.d g).sum = t' ∧ g.length = T.d.length ∧
      (vsub T.d g).getD x 0 + g.getD x 0 = T.d.getD x 0 := by
    intro g t t' ht hs hle
    obtain ⟨c1, c2, c3⟩ := vsub_spec hle
    exact ⟨c1, by omega, hle.length_eq, c3 x⟩
  have hlast : unknownConstPmf T.fs T.d x * (T.fs.getD x 0 * 2) * T.errP * T.errQ
      = κ * (unknownPmf T.fs T.d * T.errP * T.errQ) := by
    have := termU T.d rfl
    rw [hsum] at this
    rw [← hκ2]
    linear_combination (2 * T.errP * T.errQ) * this
  unfold trioAlleleWith trioPmfWith
  simp only
  rw [mul_add, mul_add, hlast]
  congr 1
  congr 1
  · -- the loops over p's gametes
    by_cases hvp : T.validP = true
    · have hsp := (hp hvp).2
      by_cases hvq : T.validQ = true
      · simp only [hvp, hvq, Bool.and_self, if_true]
        rw [← List.sum_map_mul_left]
        congr 1
        apply List.map_congr_left
        intro gp hg
        obtain ⟨s1, s2⟩ := hsp gp hg
        obtain ⟨c1, c2, c3, c4⟩ := compl gp T.tp T.tq (by omega) s1 s2
        have tp' := termP hvp gp hg
        have tq' := termQ hvq (vsub T.d gp) c2 c1
        have tu := termU (vsub T.d gp) c1
        rw [c2] at tu
        have k := hκ (gp.getD x 0) ((vsub T.d gp).getD x 0) (by omega)
          (by have := getD_le_sum gp x; omega) (by have := getD_le_sum (vsub T.d gp) x; omega)
        set AP := gameteConstPmf x gp T.tp T.dp T.pp * gameteAllelePmf (gp.getD x 0) T.tp (T.dp.getD x 0) T.pp T.lp
        set AQ := gameteConstPmf x (vsub T.d gp) T.tq T.dq T.pq
            * gameteAllelePmf ((vsub T.d gp).getD x 0) T.tq (T.dq.getD x 0) T.pq T.lq
        set UC := unknownConstPmf T.fs (vsub T.d gp) x * T.fs.getD x 0
        set GP := gametePmf gp T.tp T.dp T.pp T.lp
        set GQ := gametePmf (vsub T.d gp) T.tq T.dq T.pq T.lq
        set UQ := unknownPmf T.fs (vsub T.d gp)
        rw [← k]
        linear_combination (w T.tp T.tp T.tq * GQ * (1 - T.errP) * (1 - T.errQ)
            + w T.tp T.tp T.tq * UQ * (1 - T.errP) * T.errQ) * tp'
          + (w T.tq T.tp T.tq * GP * (1 - T.errP) * (1 - T.errQ)) * tq'
          + (w T.tq T.tp T.tq * GP * (1 - T.errP) * T.errQ) * tu
      · simp only [hvp, hvq, Bool.and_false, Bool.false_eq_true, if_false, if_true]
        rw [← List.sum_map_mul_left]
        congr 1
        apply List.map_congr_left
        intro gp hg
        obtain ⟨s1, s2⟩ := hsp gp hg
        obtain ⟨c1, c2, c3, c4⟩ := compl gp T.tp T.tq (by omega) s1 s2
        have tp' := termP hvp gp hg
        have tu := termU (vsub T.d gp) c1
        rw [c2] at tu
        have k := hκ (gp.getD x 0) ((vsub T.d gp).getD x 0) (by omega)
          (by have := getD_le_sum gp x; omega) (by have := getD_le_sum (vsub T.d gp) x; omega)
        set AP := gameteConstPmf x gp T.tp T.dp T.pp * gameteAllelePmf (gp.getD x 0) T.tp (T.dp.getD x 0) T.pp T.lp
        set UC := unknownConstPmf T.fs (vsub T.d gp) x * T.fs.getD x 0
        set GP := gametePmf gp T.tp T.dp T.pp T.lp
        set UQ := unknownPmf T.fs (vsub T.d gp)
        rw [← k]
        linear_combination (w T.tp T.tp T.tq * UQ * (1 - T.errP) * T.errQ) * tp'
          + (w T.tq T.tp T.tq * GP * (1 - T.errP) * T.errQ) * tu
    · simp [hvp]
  · -- the loop over q's gametes
    by_cases hvq : T.validQ = true
    · have hsq := (hq hvq).2
      simp only [hvq, if_true]
      rw [← List.sum_map_mul_left]
      congr 1
      apply List.map_congr_left
      intro gq hg
      obtain ⟨s1, s2⟩ := hsq gq hg
      obtain ⟨c1, c2, c3, c4⟩ := compl gq T.tq T.tp (by omega) s1 s2
      have tq' := termQ hvq gq s1 c3
      have tu := termU (vsub T.d gq) c1
      rw [c2] at tu
      have k := hκ ((vsub T.d gq).getD x 0) (gq.getD x 0) (by omega)
        (by have := getD_le_sum (vsub T.d gq) x; omega) (by have := getD_le_sum gq x; omega)
      set AQ := gameteConstPmf x gq T.tq T.dq T.pq * gameteAllelePmf (gq.getD x 0) T.tq (T.dq.getD x 0) T.pq T.lq
      set UC := unknownConstPmf T.fs (vsub T.d gq) x * T.fs.getD x 0
      set GQ := gametePmf gq T.tq T.dq T.pq T.lq
      set UP := unknownPmf T.fs (vsub T.d gq)
      rw [← k]
      linear_combination (w T.tq T.tp T.tq * UP * T.errP * (1 - T.errQ)) * tq'
        + (w T.tp T.tp T.tq * GQ * T.errP * (1 - T.errQ)) * tu
    · simp [hvq]

end MCHap
