import MCHap.Model.Prior
import Mathlib.Algebra.Order.Field.Rat
import Mathlib.Algebra.BigOperators.Group.List.Basic
import Mathlib.Algebra.BigOperators.Group.Finset.Basic
import Mathlib.Algebra.BigOperators.NatAntidiagonal
import Mathlib.Data.Nat.Choose.Sum
import Mathlib.Data.Nat.Factorial.Basic
import Mathlib.Tactic

/-! Helper lemmas for C05: Chu–Vandermonde for rising factorials, convolution over compositions. -/
namespace MCHap
open Finset

theorem factorial_eq (n : ℕ) : factorial n = n.factorial := by
  induction n with
  | zero => rfl
  | succ n ih => simp [factorial, ih, Nat.factorial_succ]

theorem factorial_pos' (n : ℕ) : (0 : ℚ) < (factorial n : ℚ) := by
  rw [factorial_eq]; exact_mod_cast Nat.factorial_pos n

theorem prodList_eq (l : List ℚ) : prodList l = l.prod := by
  unfold prodList; induction l with
  | nil => rfl
  | cons a l ih => simp [List.foldr, ih]

/-- `rising a k / k!` -/
def mc (a : ℚ) (k : ℕ) : ℚ := rising a k / (factorial k : ℚ)

theorem mc_zero (a : ℚ) : mc a 0 = 1 := by simp [mc, rising, factorial]

theorem mc_succ (a : ℚ) (k : ℕ) : ((k : ℚ) + 1) * mc a (k + 1) = (a + k) * mc a k := by
  unfold mc
  have h := factorial_pos' k
  have h1 : (factorial (k + 1) : ℚ) = ((k : ℚ) + 1) * (factorial k : ℚ) := by
    simp [factorial]
  rw [h1, rising]
  have hk : (k : ℚ) + 1 ≠ 0 := by positivity
  field_simp

theorem rising_zero_succ (k : ℕ) : rising 0 (k + 1) = 0 := by
  induction k with
  | zero => simp [rising]
  | succ k ih => rw [rising, ih]; simp

theorem mc_zero_left (k : ℕ) : mc 0 k = if k = 0 then 1 else 0 := by
  cases k with
  | zero => simp [mc_zero]
  | succ k => simp [mc, rising_zero_succ]

theorem rising_pos (a : ℚ) (ha : 0 < a) (k : ℕ) : 0 < rising a k := by
  induction k with
  | zero => simp [rising]
  | succ k ih => rw [rising]; positivity

theorem rising_nonneg (a : ℚ) (ha : 0 ≤ a) (k : ℕ) : 0 ≤ rising a k := by
  induction k with
  | zero => simp [rising]
  | succ k ih => rw [rising]; positivity

/-- Chu–Vandermonde for rising factorials:
    `Σ_{i+j=p} a^(i)/i! · b^(j)/j! = (a+b)^(p)/p!` -/
theorem vandermonde_mc (a b : ℚ) (p : ℕ) :
    ∑ ij ∈ antidiagonal p, mc a ij.1 * mc b ij.2 = mc (a + b) p := by
  induction p with
  | zero => simp [mc_zero]
  | succ p ih =>
    have hp : ((p : ℚ) + 1) ≠ 0 := by positivity
    apply mul_left_cancel₀ hp
    rw [mc_succ, ← ih, Finset.mul_sum]
    -- split the weight (p+1) = i + j on the antidiagonal
    have h1 : ∑ ij ∈ antidiagonal (p + 1), ((p : ℚ) + 1) * (mc a ij.1 * mc b ij.2)
        = ∑ ij ∈ antidiagonal (p + 1), ((ij.1 : ℚ) * mc a ij.1 * mc b ij.2)
          + ∑ ij ∈ antidiagonal (p + 1), (mc a ij.1 * ((ij.2 : ℚ) * mc b ij.2)) := by
      rw [← Finset.sum_add_distrib]
      apply Finset.sum_congr rfl
      intro ij hij
      have : (ij.1 : ℚ) + ij.2 = p + 1 := by
        have := mem_antidiagonal.mp hij
        exact_mod_cast this
      rw [← this]; ring
    rw [h1]
    rw [Finset.Nat.sum_antidiagonal_succ (f := fun ij => ((ij.1 : ℚ) * mc a ij.1 * mc b ij.2))]
    rw [Finset.Nat.sum_antidiagonal_succ' (f := fun ij => (mc a ij.1 * ((ij.2 : ℚ) * mc b ij.2)))]
    simp only [Nat.cast_zero, zero_mul, mul_zero, zero_add, Nat.cast_add, Nat.cast_one]
    rw [← Finset.sum_add_distrib, Finset.mul_sum]
    apply Finset.sum_congr rfl
    intro ij hij
    have hs : (ij.1 : ℚ) + ij.2 = p := by
      have := mem_antidiagonal.mp hij
      exact_mod_cast this
    rw [mc_succ a ij.1, mc_succ b ij.2, ← hs]
    ring

/-- binomial theorem in the same shape: `Σ_{i+j=p} x^i/i! · y^j/j! = (x+y)^p/p!` -/
def pw (x : ℚ) (k : ℕ) : ℚ := x ^ k / (factorial k : ℚ)

theorem pw_zero (x : ℚ) : pw x 0 = 1 := by simp [pw, factorial]

theorem pw_succ (x : ℚ) (k : ℕ) : ((k : ℚ) + 1) * pw x (k + 1) = x * pw x k := by
  unfold pw
  have h := factorial_pos' k
  have h1 : (factorial (k + 1) : ℚ) = ((k : ℚ) + 1) * (factorial k : ℚ) := by simp [factorial]
  rw [h1, pow_succ]
  have hk : (k : ℚ) + 1 ≠ 0 := by positivity
  field_simp

theorem pw_zero_left (k : ℕ) : pw 0 k = if k = 0 then 1 else 0 := by
  cases k with
  | zero => simp [pw_zero]
  | succ k => simp [pw]

theorem binomial_pw (x y : ℚ) (p : ℕ) :
    ∑ ij ∈ antidiagonal p, pw x ij.1 * pw y ij.2 = pw (x + y) p := by
  induction p with
  | zero => simp [pw_zero]
  | succ p ih =>
    have hp : ((p : ℚ) + 1) ≠ 0 := by positivity
    apply mul_left_cancel₀ hp
    rw [pw_succ, ← ih, Finset.mul_sum]
    have h1 : ∑ ij ∈ antidiagonal (p + 1), ((p : ℚ) + 1) * (pw x ij.1 * pw y ij.2)
        = ∑ ij ∈ antidiagonal (p + 1), ((ij.1 : ℚ) * pw x ij.1 * pw y ij.2)
          + ∑ ij ∈ antidiagonal (p + 1), (pw x ij.1 * ((ij.2 : ℚ) * pw y ij.2)) := by
      rw [← Finset.sum_add_distrib]
      apply Finset.sum_congr rfl
      intro ij hij
      have : (ij.1 : ℚ) + ij.2 = p + 1 := by
        have := mem_antidiagonal.mp hij
        exact_mod_cast this
      rw [← this]; ring
    rw [h1]
    rw [Finset.Nat.sum_antidiagonal_succ (f := fun ij => ((ij.1 : ℚ) * pw x ij.1 * pw y ij.2))]
    rw [Finset.Nat.sum_antidiagonal_succ' (f := fun ij => (pw x ij.1 * ((ij.2 : ℚ) * pw y ij.2)))]
    simp only [Nat.cast_zero, zero_mul, mul_zero, zero_add, Nat.cast_add, Nat.cast_one]
    rw [← Finset.sum_add_distrib, Finset.mul_sum]
    apply Finset.sum_congr rfl
    intro ij _
    rw [pw_succ x ij.1, pw_succ y ij.2]
    ring

/-- Generic convolution over compositions: if `t (a+b) p = Σ_{i+j=p} t a i · t b j` and
    `t 0 k = [k = 0]`, then summing `∏ t α_i c_i` over all count vectors `c` of sum `p`
    gives `t (Σ α) p`.  (`α` ranges over any additive monoid: `ℚ` for rising factorials and powers,
    `ℕ` for binomial coefficients / the multivariate Vandermonde identity.) -/
theorem conv_compositions {M : Type} [AddCommMonoid M] (t : M → ℕ → ℚ)
    (hadd : ∀ a b p, ∑ ij ∈ antidiagonal p, t a ij.1 * t b ij.2 = t (a + b) p)
    (hzero : ∀ k, t 0 k = if k = 0 then 1 else 0) :
    ∀ (alphas : List M) (p : ℕ),
      ((compositions alphas.length p).map
        (fun c => ((alphas.zip c).map (fun ac => t ac.1 ac.2)).prod)).sum = t alphas.sum p := by
  intro alphas
  induction alphas with
  | nil =>
    intro p
    cases p with
    | zero => simp [compositions, hzero]
    | succ p => simp [compositions, hzero]
  | cons a as ih =>
    intro p
    simp only [List.length_cons, compositions, List.sum_cons]
    rw [← hadd a as.sum p, Finset.Nat.sum_antidiagonal_eq_sum_range_succ (fun i j => t a i * t as.sum j)]
    rw [List.flatMap_def, List.map_flatten, List.sum_flatten, List.map_map, List.map_map,
      ← List.sum_toFinset _ List.nodup_range]
    simp only [List.toFinset_range]
    apply Finset.sum_congr rfl
    intro i _
    have e : ∀ c ∈ compositions as.length (p - i),
        ((fun c => (List.map (fun ac => t ac.1 ac.2) ((a :: as).zip c)).prod) ∘ fun x => i :: x) c
          = t a i * (List.map (fun ac => t ac.1 ac.2) (as.zip c)).prod := by
      intro c _; simp
    simp only [Function.comp, List.map_map]
    rw [List.map_congr_left e, List.sum_map_mul_left, ih]

end MCHap
