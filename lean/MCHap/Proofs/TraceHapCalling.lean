import MCHap.Model.HapCalling
import MCHap.Proofs.TraceAcc
import Mathlib.Algebra.Order.BigOperators.Ring.List

/-! Helper lemmas for C13: `allele_frequencies` entries, the threshold filter, the accumulated dosage table. -/
namespace MCHap.HapCalling
open MCHap MCHap.Trace
set_option linter.unusedSectionVars false

theorem count_zero_generic {β : Type} [DecidableEq β] {l : List β} {a : β} (h : a ∉ l) : l.count a = 0 :=
  List.count_eq_zero_of_not_mem h


/-! double counting -/

theorem sum_ite_eq_count {α : Type} [DecidableEq α] (a : α) : ∀ U : List α,
    (U.map (fun x => if a = x then 1 else 0)).sum = U.count a
  | [] => by simp
  | u :: tl => by
    have ih := sum_ite_eq_count a tl
    by_cases h : a = u
    · subst h; simp [ih]; omega
    · have h' : ¬ u = a := fun e => h e.symm
      simp [ih, h, h']

theorem sum_count_swap {α : Type} [DecidableEq α] (U g : List α) :
    (U.map (fun x => g.count x)).sum = (g.map (fun a => U.count a)).sum := by
  induction g with
  | nil => simp
  | cons a t ih =>
    have e : (U.map (fun x => (a :: t).count x)) = U.map (fun x => t.count x + if a = x then 1 else 0) := by
      apply List.map_congr_left
      intro x _
      rw [List.count_cons]
      simp
    rw [e, List.sum_map_add, ih, sum_ite_eq_count, List.map_cons, List.sum_cons]
    omega

theorem sum_count_le {α : Type} [DecidableEq α] (U g : List α) (hnd : U.Nodup) :
    (U.map (fun x => g.count x)).sum ≤ g.length := by
  rw [sum_count_swap]
  have : ∀ a ∈ g, U.count a ≤ 1 := fun a _ => List.nodup_iff_count_le_one.mp hnd a
  calc (g.map (fun a => U.count a)).sum ≤ (g.map (fun _ => 1)).sum := List.sum_le_sum (fun a ha => this a ha)
    _ = g.length := by simp


theorem dosageOf_nonneg {α : Type} [DecidableEq α] (post : List (List α × ℚ)) (h : α)
    (hnn : ∀ gp ∈ post, 0 ≤ gp.2) : 0 ≤ dosageOf post h := by
  unfold dosageOf
  apply List.sum_nonneg
  intro x hx
  obtain ⟨gp, hgp, rfl⟩ := List.mem_map.mp hx
  exact mul_nonneg (hnn gp hgp) (by positivity)

/-- the dosages of distinct haplotypes add up to at most `ploidy ×` the total mass -/
theorem sum_dosageOf_le {α : Type} [DecidableEq α] : ∀ (post : List (List α × ℚ)) (U : List α) (ploidy : ℕ),
    U.Nodup → (∀ gp ∈ post, 0 ≤ gp.2) → (∀ gp ∈ post, gp.1.length = ploidy) →
    (U.map (fun h => dosageOf post h)).sum ≤ (post.map (·.2)).sum * (ploidy : ℚ)
  | [], U, ploidy, _, _, _ => by simp [dosageOf]
  | gp :: t, U, ploidy, hnd, hnn, hlen => by
    have ih := sum_dosageOf_le t U ploidy hnd (fun x hx => hnn x (List.mem_cons_of_mem _ hx))
      (fun x hx => hlen x (List.mem_cons_of_mem _ hx))
    have e : (U.map (fun h => dosageOf (gp :: t) h))
        = U.map (fun h => gp.2 * ((gp.1.count h : ℕ) : ℚ) + dosageOf t h) := by
      apply List.map_congr_left
      intro h _
      simp [dosageOf]
    rw [e, List.sum_map_add, List.sum_map_mul_left, List.map_cons, List.sum_cons, add_mul]
    have hc : (U.map (fun h => ((gp.1.count h : ℕ) : ℚ))).sum ≤ (ploidy : ℚ) := by
      have h1 := sum_count_le U gp.1 hnd
      rw [hlen gp (by simp)] at h1
      have : (U.map (fun h => ((gp.1.count h : ℕ) : ℚ))).sum = (((U.map (fun h => gp.1.count h)).sum : ℕ) : ℚ) := by
        rw [Nat.cast_list_sum, List.map_map]; rfl
      rw [this]; exact_mod_cast h1
    have h0 : 0 ≤ gp.2 := hnn gp (by simp)
    nlinarith [mul_le_mul_of_nonneg_left hc h0]

/-- the haplotypes a posterior mentions -/
def hapsOf (post : Post) : List Hap := post.flatMap (·.1)

theorem alleleFrequencies_true (post : Post) (ploidy : ℕ) :
    alleleFrequencies post ploidy true
      = (uniq (hapsOf post)).map (fun h => (h, dosageWeight post h, occurrence post h)) := by
  unfold alleleFrequencies hapsOf dosageWeight occurrence
  simp

theorem alleleFrequencies_false (post : Post) (ploidy : ℕ) :
    alleleFrequencies post ploidy false
      = (uniq (hapsOf post)).map (fun h => (h, dosageWeight post h / (ploidy : ℚ), occurrence post h)) := by
  unfold alleleFrequencies hapsOf dosageWeight occurrence
  simp

theorem keptOf_eq (thr : ℚ) (post : Post) :
    keptOf thr post = ((uniq (hapsOf post)).filter (fun h => decide (thr ≤ occurrence post h))).map
      (fun h => (h, dosageWeight post h)) := by
  unfold keptOf
  rw [alleleFrequencies_true, List.filter_map, List.map_map]
  rfl

theorem mem_keptOf {thr : ℚ} {post : Post} {h : Hap} {w : ℚ} :
    (h, w) ∈ keptOf thr post ↔ h ∈ hapsOf post ∧ thr ≤ occurrence post h ∧ w = dosageWeight post h := by
  rw [keptOf_eq, List.mem_map]
  constructor
  · rintro ⟨x, hx, e⟩
    injection e with e1 e2
    subst e1
    rw [List.mem_filter, mem_uniq] at hx
    exact ⟨hx.1, by simpa using hx.2, e2.symm⟩
  · rintro ⟨h1, h2, rfl⟩
    exact ⟨h, List.mem_filter.mpr ⟨mem_uniq.mpr h1, by simpa using h2⟩, rfl⟩

theorem keptOf_keys_nodup (thr : ℚ) (post : Post) : ((keptOf thr post).map (·.1)).Nodup := by
  rw [keptOf_eq, List.map_map]
  have : ((fun hw : Hap × ℚ => hw.1) ∘ fun h => (h, dosageWeight post h)) = id := rfl
  rw [this, List.map_id]
  exact (nodup_uniq _).filter _

/-- in a table with distinct keys, the values filed under `k` add up to the look-up value -/
theorem sum_filter_key {κ : Type} [DecidableEq κ] (d : List (κ × ℚ)) (hnd : (d.map (·.1)).Nodup) (k : κ) :
    ((d.filter (fun kv => decide (kv.1 = k))).map (·.2)).sum = probOf d k := by
  induction d with
  | nil => rfl
  | cons a t ih =>
    simp only [List.map_cons, List.nodup_cons] at hnd
    by_cases h : a.1 = k
    · have hk : k ∉ t.map (·.1) := h ▸ hnd.1
      have ht : t.filter (fun kv => decide (kv.1 = k)) = [] := by
        rw [List.filter_eq_nil_iff]
        intro kv hkv
        have : kv.1 ≠ k := fun e => hk (e ▸ List.mem_map.mpr ⟨kv, hkv, rfl⟩)
        simp [this]
      simp [List.filter, h, ht, probOf, List.find?]
    · have := ih hnd.2
      simp only [List.filter, h, decide_false]
      rw [this]
      simp [probOf, List.find?, h]

theorem probOf_keptOf (thr : ℚ) (post : Post) (h : Hap) :
    probOf (keptOf thr post) h
      = if h ∈ hapsOf post ∧ thr ≤ occurrence post h then dosageWeight post h else 0 := by
  split_ifs with hc
  · exact probOf_of_mem (keptOf_keys_nodup thr post) (mem_keptOf.mpr ⟨hc.1, hc.2, rfl⟩)
  · apply probOf_of_not_mem
    intro hm
    obtain ⟨⟨h', w⟩, hw, e⟩ := List.mem_map.mp hm
    simp only at e; subst e
    obtain ⟨h1, h2, _⟩ := mem_keptOf.mp hw
    exact hc ⟨h1, h2⟩

/-- posterior dosage of `h` summed over the samples in which it met the threshold -/
def summedDosage (thr : ℚ) (posts : List Post) (h : Hap) : ℚ :=
  (posts.map (fun post =>
    if h ∈ hapsOf post ∧ thr ≤ occurrence post h then dosageWeight post h else 0)).sum

theorem accumulate_eq (thr : ℚ) (posts : List Post) :
    accumulate thr posts
      = (posts.flatMap (keptOf thr)).foldl (fun d (hw : Hap × ℚ) => addTo hw.1 hw.2 d) [] := by
  unfold accumulate
  rw [List.foldl_flatMap]

theorem accumulate_keys_nodup (thr : ℚ) (posts : List Post) : ((accumulate thr posts).map (·.1)).Nodup := by
  rw [accumulate_eq]
  exact nodup_keys_foldl_addTo _ _ _ [] (by simp)

theorem mem_accumulate_keys (thr : ℚ) (posts : List Post) (h : Hap) :
    h ∈ (accumulate thr posts).map (·.1) ↔ ∃ post ∈ posts, h ∈ hapsOf post ∧ thr ≤ occurrence post h := by
  rw [accumulate_eq, mem_keys_foldl_addTo]
  simp only [List.map_nil, List.not_mem_nil, false_or, List.mem_flatMap]
  constructor
  · rintro ⟨⟨h', w⟩, ⟨post, hp, hw⟩, e⟩
    simp only at e; subst e
    obtain ⟨h1, h2, _⟩ := mem_keptOf.mp hw
    exact ⟨post, hp, h1, h2⟩
  · rintro ⟨post, hp, h1, h2⟩
    exact ⟨(h, dosageWeight post h), ⟨post, hp, mem_keptOf.mpr ⟨h1, h2, rfl⟩⟩, rfl⟩

theorem probOf_accumulate (thr : ℚ) (posts : List Post) (h : Hap) :
    probOf (accumulate thr posts) h = summedDosage thr posts h := by
  rw [accumulate_eq, probOf_foldl_addTo (fun hw : Hap × ℚ => hw.1) (fun hw => hw.2) h]
  simp only [probOf, List.find?, zero_add]
  unfold summedDosage
  induction posts with
  | nil => rfl
  | cons post t ih =>
    rw [List.flatMap_cons, List.filter_append, List.map_append, List.sum_append, ih, List.map_cons,
      List.sum_cons]
    congr 1
    rw [sum_filter_key _ (keptOf_keys_nodup thr post), probOf_keptOf]

theorem mem_accumulate {thr : ℚ} {posts : List Post} {h : Hap} {v : ℚ} (hm : (h, v) ∈ accumulate thr posts) :
    v = summedDosage thr posts h ∧ ∃ post ∈ posts, h ∈ hapsOf post ∧ thr ≤ occurrence post h := by
  have hnd := accumulate_keys_nodup thr posts
  refine ⟨?_, (mem_accumulate_keys thr posts h).mp (List.mem_map.mpr ⟨(h, v), hm, rfl⟩)⟩
  rw [← probOf_accumulate, probOf_of_mem hnd hm]

/-! `values.max()` -/

theorem maxValue_foldl_ge (vals : List ℚ) : ∀ (init : ℚ),
    init ≤ vals.foldl (fun m v => if m < v then v else m) init ∧
    ∀ v ∈ vals, v ≤ vals.foldl (fun m v => if m < v then v else m) init := by
  induction vals with
  | nil => intro init; simp
  | cons a t ih =>
    intro init
    rw [List.foldl_cons]
    obtain ⟨h1, h2⟩ := ih (if init < a then a else init)
    refine ⟨?_, ?_⟩
    · refine le_trans ?_ h1
      split_ifs with hc
      · exact le_of_lt hc
      · exact le_refl _
    · intro v hv
      rcases List.mem_cons.mp hv with rfl | hv
      · refine le_trans ?_ h1
        split_ifs with hc
        · exact le_refl _
        · exact not_lt.mp hc
      · exact h2 v hv

theorem le_maxValue {vals : List ℚ} {v : ℚ} (hv : v ∈ vals) : v ≤ maxValue vals :=
  (maxValue_foldl_ge vals (-1)).2 v hv

theorem isRef_replicate (n : ℕ) : isRef (List.replicate n 0) = true := by
  unfold isRef
  rw [List.all_eq_true]
  intro a ha
  simp [List.eq_of_mem_replicate ha]

theorem isRef_iff {h : Hap} : isRef h = true ↔ h = List.replicate h.length 0 := by
  unfold isRef
  rw [List.all_eq_true, List.eq_replicate_iff]
  simp

end MCHap.HapCalling
