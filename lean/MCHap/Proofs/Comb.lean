import MCHap.Model.Comb
import Mathlib.Data.Nat.Choose.Basic
import Mathlib.Data.Nat.Choose.Central
import Mathlib.Data.Nat.Choose.Sum
import Mathlib.Data.Nat.GCD.Basic
import Mathlib.Tactic

/-! Helper lemmas for C11: the gcd-reduced binomial loop is exact and stays inside int64. -/
namespace MCHap

theorem gcdFuel_eq_gcd : ∀ (fuel x y : ℕ), y < fuel → gcdFuel fuel x y = Nat.gcd x y := by
  intro fuel
  induction fuel with
  | zero => intro x y h; omega
  | succ fuel ih =>
    intro x y h
    unfold gcdFuel
    split
    · rename_i h0; subst h0; simp
    · rename_i h0
      have hlt : x % y < y := Nat.mod_lt _ (Nat.pos_of_ne_zero h0)
      rw [ih y (x % y) (by omega)]
      rw [Nat.gcd_comm y (x % y), ← Nat.gcd_rec, Nat.gcd_comm]

theorem gcdC_eq_gcd (x y : ℕ) : gcdC x y = Nat.gcd x y :=
  gcdFuel_eq_gcd (y + 1) x y (by omega)

/-- one iteration is exact: from `r = C(N, e)` and current `n = N - e` it yields `C(N, e+1)`,
    and the intermediate product is at most `C(N, e+1) * (e+1)`. -/
theorem combIter_exact (N e : ℕ) (_he : e + 1 ≤ N) :
    (combIter (N - e) (Nat.choose N e) (e + 1)).2 = Nat.choose N (e + 1) ∧
    (combIter (N - e) (Nat.choose N e) (e + 1)).1 ≤ Nat.choose N (e + 1) * (e + 1) := by
  unfold combIter
  simp only [gcdC_eq_gcd]
  set r := Nat.choose N e
  set g := Nat.gcd r (e + 1)
  have hgpos : 0 < g := Nat.gcd_pos_of_pos_right _ (Nat.succ_pos e)
  have hgr : g ∣ r := Nat.gcd_dvd_left _ _
  have hgd : g ∣ e + 1 := Nat.gcd_dvd_right _ _
  have key : Nat.choose N (e + 1) * (e + 1) = r * (N - e) := Nat.choose_succ_right_eq N e
  have hd'pos : 0 < (e + 1) / g := Nat.div_pos (Nat.le_of_dvd (Nat.succ_pos e) hgd) hgpos
  have key2 : Nat.choose N (e + 1) * ((e + 1) / g) = (r / g) * (N - e) := by
    apply Nat.eq_of_mul_eq_mul_left hgpos
    calc g * (Nat.choose N (e + 1) * ((e + 1) / g))
        = Nat.choose N (e + 1) * (g * ((e + 1) / g)) := by ring
      _ = Nat.choose N (e + 1) * (e + 1) := by rw [Nat.mul_div_cancel' hgd]
      _ = r * (N - e) := key
      _ = (g * (r / g)) * (N - e) := by rw [Nat.mul_div_cancel' hgr]
      _ = g * ((r / g) * (N - e)) := by ring
  constructor
  · rw [← key2]; exact Nat.mul_div_cancel _ hd'pos
  · rw [key]
    exact Nat.mul_le_mul_right _ (Nat.div_le_self _ _)

/-- the loop from divisor `e+1` for `s` iterations, started at `r = C(N,e)`, `n = N - e`:
    result `C(N, e+s)`; the running maximum is bounded by any `B` that bounds `mx` and every
    `C(N,d)·d` for `e < d ≤ e+s`. -/
theorem combLoop_exact (N : ℕ) : ∀ (s e mx B : ℕ), e + s ≤ N → mx ≤ B →
    (∀ d, e < d → d ≤ e + s → Nat.choose N d * d ≤ B) →
    (combLoop s (N - e) (e + 1) (Nat.choose N e) mx).1 = Nat.choose N (e + s) ∧
    (combLoop s (N - e) (e + 1) (Nat.choose N e) mx).2 ≤ B := by
  intro s
  induction s with
  | zero => intro e mx B _ hmx _; simp [combLoop, hmx]
  | succ s ih =>
    intro e mx B hle hmx hB
    have h1 := combIter_exact N e (by omega)
    rw [combLoop]
    obtain ⟨hr, hp⟩ := h1
    generalize hci : combIter (N - e) (Nat.choose N e) (e + 1) = ci at hr hp
    obtain ⟨prod, r'⟩ := ci
    simp only at hr hp ⊢
    subst hr
    have e1 : N - e - 1 = N - (e + 1) := by omega
    rw [e1]
    have := ih (e + 1) (max mx prod) B (by omega)
      (max_le hmx (le_trans hp (hB (e + 1) (by omega) (by omega))))
      (fun d h1 h2 => hB d (by omega) (by omega))
    have e2 : e + 1 + s = e + (s + 1) := by ring
    rw [e2] at this
    exact this

theorem combReduce_le (n k : ℕ) (h : k ≤ n) : combReduce n k ≤ n ∧ 2 * combReduce n k ≤ n ∧
    Nat.choose n (combReduce n k) = Nat.choose n k := by
  unfold combReduce
  split
  · refine ⟨by omega, by omega, Nat.choose_symm h⟩
  · refine ⟨h, by omega, rfl⟩

theorem choose_mono_half (n : ℕ) : ∀ (m d : ℕ), d ≤ m → 2 * m ≤ n →
    Nat.choose n d ≤ Nat.choose n m := by
  intro m
  induction m with
  | zero => intro d hd _; have : d = 0 := by omega
            subst this; exact le_refl _
  | succ m ih =>
    intro d hd hm
    rcases Nat.lt_or_ge d (m + 1) with h | h
    · exact le_trans (ih d (by omega) (by omega))
        (Nat.choose_le_succ_of_lt_half_left (by omega))
    · have : d = m + 1 := by omega
      subst this; exact le_refl _

/-- bound used for the loop: every intermediate is at most `C(n,m)·m` when `2m ≤ n`. -/
theorem combRaw_spec (n k : ℕ) (hk : k ≤ n) :
    (combRaw n k).1 = Nat.choose n k ∧
    (combRaw n k).2 ≤ max 1 (Nat.choose n (combReduce n k) * combReduce n k) := by
  unfold combRaw
  have hk' : ¬ k > n := by omega
  simp only [hk', if_false]
  obtain ⟨h1, h2, h3⟩ := combReduce_le n k hk
  have := combLoop_exact n (combReduce n k) 0 1
      (max 1 (Nat.choose n (combReduce n k) * combReduce n k)) (by omega) (le_max_left _ _)
      (fun d _ hd => le_trans (Nat.mul_le_mul
        (choose_mono_half n (combReduce n k) d (by omega) h2) (by omega)) (le_max_right _ _))
  simpa [h3] using this

theorem comb_eq_choose (n k : ℕ) : comb n k = Nat.choose n k := by
  unfold comb
  rcases Nat.lt_or_ge n k with h | h
  · unfold combRaw; simp [h, Nat.choose_eq_zero_of_lt h]
  · exact (combRaw_spec n k h).1

theorem two_pow_le_centralBinom (k : ℕ) : 2 ^ k ≤ Nat.centralBinom k := by
  induction k with
  | zero => simp
  | succ k ih =>
    have h := Nat.succ_mul_centralBinom_succ k
    -- (k+1) * cb(k+1) = 2(2k+1) cb k ≥ 2 (k+1) cb k
    have h2 : (k + 1) * (2 * Nat.centralBinom k) ≤ (k + 1) * Nat.centralBinom (k + 1) := by
      rw [h]; nlinarith [Nat.centralBinom_pos k]
    have h3 := Nat.le_of_mul_le_mul_left h2 (Nat.succ_pos k)
    calc 2 ^ (k + 1) = 2 * 2 ^ k := by ring
      _ ≤ 2 * Nat.centralBinom k := by omega
      _ ≤ _ := h3

/-- No int64 overflow: whenever the result is below 2^53 every intermediate value of the loop is
    below 2^63, so the int64 computation coincides with the one on ℕ. -/
theorem combChecked_exact (n k : ℕ) (hN : Nat.choose n k < 2 ^ 53) :
    combChecked n k = some (Nat.choose n k) := by
  unfold combChecked
  rcases Nat.lt_or_ge n k with h | h
  · unfold combRaw; simp [h, Nat.choose_eq_zero_of_lt h]
  · obtain ⟨hr, hm⟩ := combRaw_spec n k h
    obtain ⟨_, h2, h3⟩ := combReduce_le n k h
    generalize hcr : combRaw n k = cr at hr hm
    obtain ⟨r, mx⟩ := cr
    simp only at hr hm ⊢
    subst hr
    set m := combReduce n k
    -- m < 53 because 2^m ≤ C(2m, m) ≤ C(n, m) < 2^53
    have hm53 : m < 53 := by
      by_contra hcon
      have h53 : 53 ≤ m := by omega
      have a1 : 2 ^ m ≤ Nat.choose (2 * m) m := by
        rw [← Nat.centralBinom_eq_two_mul_choose]; exact two_pow_le_centralBinom m
      have a2 : Nat.choose (2 * m) m ≤ Nat.choose n m := Nat.choose_le_choose m h2
      have a3 : 2 ^ 53 ≤ 2 ^ m := Nat.pow_le_pow_right (by omega) h53
      omega
    have hb : Nat.choose n m * m < 2 ^ 63 := by
      rw [h3]
      calc Nat.choose n k * m ≤ Nat.choose n k * 53 := Nat.mul_le_mul_left _ (by omega)
        _ < 2 ^ 53 * 2 ^ 10 := by
            have : Nat.choose n k * 53 < 2 ^ 53 * 53 := Nat.mul_lt_mul_of_pos_right hN (by omega)
            omega
        _ = 2 ^ 63 := by norm_num
    have : mx < 2 ^ 63 := lt_of_le_of_lt hm (max_lt (by norm_num) hb)
    have h63 : (2:ℕ) ^ 63 = 9223372036854775808 := by norm_num
    simp; omega

end MCHap
