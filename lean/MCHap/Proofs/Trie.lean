import MCHap.Model.ArrayMap
import Mathlib.Tactic

/-! Pointer-array trie of `mchap/assemble/arraymap.py`, tree part: the node-allocation loop of `set`
    preserves well-formedness, reaches the key, keeps every old walk and adds none off the inserted path. -/
namespace MCHap.Trie
open MCHap


abbrev PTree := ℕ → ℕ → ℤ

/-- the node-allocation loop of `set` without the size bookkeeping (growth only changes the length
    field; see `insertLoop_ok`) -/
def insertPath (t : PTree) (en node : ℕ) : List ℕ → PTree × ℕ × ℕ
  | [] => (t, en, node)
  | j :: js =>
    if t node j < 0 then insertPath (updTree t node j en) (en + 1) en js
    else insertPath t en (t node j).toNat js

structure WF (t : PTree) (en L : ℕ) : Prop where
  en_pos : 1 ≤ en
  /-- every node reached from the root within depth L is allocated -/
  reach_lt : ∀ π u, π.length ≤ L → walk t 0 π = some u → u < en
  /-- no sharing: a node determines the prefix that reaches it -/
  inj : ∀ π π' u, π.length ≤ L → π'.length ≤ L → walk t 0 π = some u → walk t 0 π' = some u → π = π'
  /-- unallocated rows are empty -/
  fresh : ∀ u j, en ≤ u → t u j = -1

theorem walk_append (t : PTree) (u : ℕ) (π ρ : List ℕ) :
    walk t u (π ++ ρ) = (walk t u π).bind (fun v => walk t v ρ) := by
  induction π generalizing u with
  | nil => simp [walk]
  | cons j js ih =>
    simp only [List.cons_append, walk]
    split
    · simp
    · exact ih _

/-- walking in an updated tree agrees with the old tree as long as the walk never uses the updated cell -/
theorem walk_upd_of_avoid (t : PTree) (u j : ℕ) (v : ℤ) :
    ∀ (node : ℕ) (ρ : List ℕ),
      (∀ ρ₁ ρ₂ w, ρ = ρ₁ ++ j :: ρ₂ → walk t node ρ₁ = some w → w ≠ u) →
      walk (updTree t u j v) node ρ = walk t node ρ := by
  intro node ρ
  induction ρ generalizing node with
  | nil => intro _; simp [walk]
  | cons k ks ih =>
    intro h
    have hcell : updTree t u j v node k = t node k := by
      unfold updTree
      split
      · rename_i hc
        obtain ⟨rfl, rfl⟩ := hc
        exact absurd rfl (h [] ks node rfl (by simp [walk]))
      · rfl
    simp only [walk, hcell]
    split
    · rfl
    · rename_i hnn
      apply ih
      intro ρ₁ ρ₂ w hρ hw
      apply h (k :: ρ₁) ρ₂ w (by simp [hρ])
      simp only [walk, hnn, if_false]
      exact hw

/-- closed form of walks after linking a fresh node `en` below `(node, j)` -/
theorem walk_upd_fresh {t : PTree} {en L : ℕ} (wf : WF t en L) {π : List ℕ} {node j : ℕ}
    (hπ : walk t 0 π = some node) (hlen : π.length < L) (hnull : t node j < 0) :
    ∀ ρ : List ℕ, ρ.length ≤ L →
      walk (updTree t node j (en : ℤ)) 0 ρ =
        if ρ = π ++ [j] then some en
        else if (π ++ [j]) <+: ρ then none
        else walk t 0 ρ := by
  intro ρ hρ
  have hnode : node < en := wf.reach_lt π node (by omega) hπ
  -- walking along π never uses the updated cell
  have hπ' : walk (updTree t node j en) 0 π = some node := by
    rw [walk_upd_of_avoid]; exact hπ
    intro ρ₁ ρ₂ w hdec hw hwn
    subst hwn
    have := wf.inj ρ₁ π w (by rw [hdec] at hlen; simp at hlen; omega) (by omega) hw hπ
    rw [this] at hdec
    have := congrArg List.length hdec
    simp at this
  by_cases hpre : (π ++ [j]) <+: ρ
  · obtain ⟨ρ₂, rfl⟩ := hpre
    rw [List.append_assoc, walk_append, hπ']
    simp only [Option.bind_some, List.singleton_append, walk]
    have hcell : updTree t node j (en : ℤ) node j = en := by simp [updTree]
    rw [hcell]
    have : ¬ ((en : ℤ) < 0) := by omega
    simp only [this, if_false, Int.toNat_natCast]
    cases ρ₂ with
    | nil => simp [walk]
    | cons k ks =>
      have hrow : updTree t node j (en : ℤ) en k = -1 := by
        unfold updTree
        have : ¬ (en = node ∧ k = j) := by omega
        simp only [this, if_false]
        exact wf.fresh en k (le_refl _)
      simp [walk, hrow]
  · have hne : ρ ≠ π ++ [j] := fun e => hpre (e ▸ List.prefix_refl _)
    simp only [hne, hpre, if_false]
    apply walk_upd_of_avoid
    intro ρ₁ ρ₂ w hdec hw hwn
    subst hwn
    have hl1 : ρ₁.length ≤ L := by rw [hdec] at hρ; simp at hρ; omega
    have := wf.inj ρ₁ π w hl1 (by omega) hw hπ
    subst this
    exact hpre ⟨ρ₂, by simp [hdec]⟩

theorem WF_link {t : PTree} {en L : ℕ} (wf : WF t en L) {π : List ℕ} {node j : ℕ}
    (hπ : walk t 0 π = some node) (hlen : π.length < L) (hnull : t node j < 0) :
    WF (updTree t node j (en : ℤ)) (en + 1) L := by
  have hnode : node < en := wf.reach_lt π node (by omega) hπ
  have cf := walk_upd_fresh wf hπ hlen hnull
  refine ⟨by omega, ?_, ?_, ?_⟩
  · intro ρ u hρ hw
    rw [cf ρ hρ] at hw
    split at hw
    · cases hw; omega
    · split at hw
      · cases hw
      · have := wf.reach_lt ρ u hρ hw; omega
  · intro ρ ρ' u hρ hρ' hw hw'
    rw [cf ρ hρ] at hw
    rw [cf ρ' hρ'] at hw'
    split at hw
    · rename_i h1
      cases hw
      split at hw'
      · rename_i h2; rw [h1, h2]
      · split at hw'
        · cases hw'
        · have := wf.reach_lt ρ' _ hρ' hw'; omega
    · split at hw
      · cases hw
      · split at hw'
        · cases hw'
          have := wf.reach_lt ρ _ hρ hw; omega
        · split at hw'
          · cases hw'
          · exact wf.inj ρ ρ' u hρ hρ' hw hw'
  · intro u k hu
    unfold updTree
    have : ¬ (u = node ∧ k = j) := by omega
    simp only [this, if_false]
    exact wf.fresh u k (by omega)

/-- specification of the node-allocation loop of `arraymap.set` -/
theorem insertPath_spec {L : ℕ} : ∀ (rest : List ℕ) (t : PTree) (en node : ℕ) (π : List ℕ),
    WF t en L → walk t 0 π = some node → π.length + rest.length ≤ L →
    let r := insertPath t en node rest
    WF r.1 r.2.1 L ∧ en ≤ r.2.1 ∧ walk r.1 0 (π ++ rest) = some r.2.2 ∧
    (∀ ρ u, ρ.length ≤ L → walk t 0 ρ = some u → walk r.1 0 ρ = some u) ∧
    (∀ ρ u, ρ.length ≤ L → walk r.1 0 ρ = some u → walk t 0 ρ = some u ∨ (π <+: ρ ∧ ρ <+: π ++ rest ∧ ρ ≠ π)) := by
  intro rest
  induction rest with
  | nil =>
    intro t en node π wf hπ _
    simp only [insertPath, List.append_nil]
    exact ⟨wf, le_refl _, hπ, fun _ _ _ h => h, fun _ _ _ h => Or.inl h⟩
  | cons j js ih =>
    intro t en node π wf hπ hlen
    simp only [List.length_cons] at hlen
    by_cases hnull : t node j < 0
    · -- allocate a fresh node
      have hnode : node < en := wf.reach_lt π node (by omega) hπ
      have cf := walk_upd_fresh wf hπ (by omega) hnull
      have wf1 := WF_link wf hπ (by omega) hnull
      have hπ1 : walk (updTree t node j (en : ℤ)) 0 (π ++ [j]) = some en := by
        rw [cf (π ++ [j]) (by simp; omega)]; simp
      have := ih (updTree t node j (en : ℤ)) (en + 1) en (π ++ [j]) wf1 hπ1 (by simp; omega)
      simp only [insertPath, hnull, if_true]
      obtain ⟨h1, h2, h3, h4, h5⟩ := this
      refine ⟨h1, by omega, by simpa [List.append_assoc] using h3, ?_, ?_⟩
      · intro ρ u hρ hw
        apply h4 ρ u hρ
        rw [cf ρ hρ]
        split
        · rename_i e; subst e
          -- the new edge was null in t, so t cannot walk through it
          rw [walk_append, hπ] at hw
          simp [walk, hnull] at hw
        · split
          · rename_i hpre
            obtain ⟨ρ₂, rfl⟩ := hpre
            rw [List.append_assoc, walk_append, hπ] at hw
            simp [walk, hnull] at hw
          · exact hw
      · intro ρ u hρ hw
        rcases h5 ρ u hρ hw with h | ⟨ha, hb, hc⟩
        · rw [cf ρ hρ] at h
          split at h
          · rename_i e
            right
            refine ⟨⟨[j], e.symm⟩, ?_, ?_⟩
            · rw [e]; exact ⟨js, by simp⟩
            · rw [e]; intro e2; have := congrArg List.length e2; simp at this
          · split at h
            · cases h
            · exact Or.inl h
        · right
          refine ⟨(List.prefix_append π [j]).trans ha, by simpa [List.append_assoc] using hb, ?_⟩
          intro e; subst e
          have := ha.length_le; simp at this
    · -- follow the existing edge
      have hchild : walk t 0 (π ++ [j]) = some (t node j).toNat := by
        rw [walk_append, hπ]; simp [walk, hnull]
      have := ih t en (t node j).toNat (π ++ [j]) wf hchild (by simp; omega)
      simp only [insertPath, hnull, if_false]
      obtain ⟨h1, h2, h3, h4, h5⟩ := this
      refine ⟨h1, h2, by simpa [List.append_assoc] using h3, h4, ?_⟩
      intro ρ u hρ hw
      rcases h5 ρ u hρ hw with h | ⟨ha, hb, hc⟩
      · exact Or.inl h
      · right
        refine ⟨(List.prefix_append π [j]).trans ha, by simpa [List.append_assoc] using hb, ?_⟩
        intro e; subst e
        have := ha.length_le; simp at this
end MCHap.Trie
