import Mathlib.Data.Multiset.Basic
import Mathlib.Data.Multiset.Count
import Mathlib.Data.Multiset.Dedup
import Mathlib.Data.Finset.Prod
import Mathlib.Data.Finset.Image
import Mathlib.Tactic

/-! Path structures of the dosage and recombination moves on `Multiset (Seg × Seg)`:
    the three hypotheses of `pathwise_db`. -/

open Multiset
namespace MCHap.Paths

variable {A B : Type} [DecidableEq A] [DecidableEq B]

/-- number of haplotypes in `G` whose in-interval segment is `a` -/
def segCount (G : Multiset (A × B)) (a : A) : ℕ := (G.map Prod.fst).count a

/-- dosage-move paths: (receiver type x whose segment has ≥ 2 copies, donor segment a' ≠ x.1 present in G) -/
def dPaths (G : Multiset (A × B)) : Finset ((A × B) × A) :=
  (G.toFinset ×ˢ (G.map Prod.fst).toFinset).filter (fun p => 2 ≤ segCount G p.1.1 ∧ p.2 ≠ p.1.1)

def dTgt (G : Multiset (A × B)) (p : (A × B) × A) : Multiset (A × B) := (p.2, p.1.2) ::ₘ G.erase p.1
def dRev (_G : Multiset (A × B)) (p : (A × B) × A) : (A × B) × A := ((p.2, p.1.2), p.1.1)

theorem mem_dPaths {G : Multiset (A × B)} {p : (A × B) × A} :
    p ∈ dPaths G ↔ p.1 ∈ G ∧ 1 ≤ segCount G p.2 ∧ 2 ≤ segCount G p.1.1 ∧ p.2 ≠ p.1.1 := by
  unfold dPaths segCount
  simp only [Finset.mem_filter, Finset.mem_product, mem_toFinset]
  constructor
  · rintro ⟨⟨h1, h2⟩, h3, h4⟩
    exact ⟨h1, Multiset.one_le_count_iff_mem.mpr h2, h3, h4⟩
  · rintro ⟨h1, h2, h3, h4⟩
    exact ⟨⟨h1, Multiset.one_le_count_iff_mem.mp h2⟩, h3, h4⟩

theorem segCount_tgt (G : Multiset (A × B)) (x : A × B) (a' : A) (hx : x ∈ G) (c : A) :
    segCount (dTgt G (x, a')) c + (if c = x.1 then 1 else 0) = segCount G c + (if c = a' then 1 else 0) := by
  unfold segCount dTgt
  have hG : G = x ::ₘ G.erase x := (Multiset.cons_erase hx).symm
  conv_rhs => rw [hG]
  simp only [Multiset.map_cons, Multiset.count_cons]
  by_cases h1 : c = x.1 <;> by_cases h2 : c = a' <;> simp [h1, h2] <;> omega

theorem dosage_hmem (G : Multiset (A × B)) (p) (hp : p ∈ dPaths G) : dRev G p ∈ dPaths (dTgt G p) := by
  obtain ⟨x, a'⟩ := p
  rw [mem_dPaths] at hp ⊢
  obtain ⟨hx, h1, h2, hne⟩ := hp
  simp only [dRev] at *
  have e1 := segCount_tgt G x a' hx a'
  have e2 := segCount_tgt G x a' hx x.1
  simp [hne, Ne.symm hne] at e1 e2
  refine ⟨by simp [dTgt], by omega, by omega, Ne.symm hne⟩

theorem dosage_htgt (G : Multiset (A × B)) (p) (hp : p ∈ dPaths G) : dTgt (dTgt G p) (dRev G p) = G := by
  obtain ⟨x, a'⟩ := p
  rw [mem_dPaths] at hp
  simp only [dTgt, dRev, Multiset.erase_cons_head, Prod.mk.eta]
  exact Multiset.cons_erase hp.1

theorem dosage_hinv (G : Multiset (A × B)) (p) (_hp : p ∈ dPaths G) : dRev (dTgt G p) (dRev G p) = p := by
  obtain ⟨x, a'⟩ := p
  simp [dRev]


/-- recombination paths (ordered pairs; each unordered option of the code appears twice):
    two distinct haplotype types of `G` that differ both inside and outside the interval -/
def rPaths (G : Multiset (A × B)) : Finset ((A × B) × (A × B)) :=
  (G.toFinset ×ˢ G.toFinset).filter (fun p => p.1.1 ≠ p.2.1 ∧ p.1.2 ≠ p.2.2)

/-- swap the in-interval segments of one copy of `x` and one copy of `y` -/
def rTgt (G : Multiset (A × B)) (p : (A × B) × (A × B)) : Multiset (A × B) :=
  (p.2.1, p.1.2) ::ₘ (p.1.1, p.2.2) ::ₘ (G.erase p.1).erase p.2
def rRev (_G : Multiset (A × B)) (p : (A × B) × (A × B)) : (A × B) × (A × B) :=
  ((p.2.1, p.1.2), (p.1.1, p.2.2))

theorem mem_rPaths {G : Multiset (A × B)} {p} :
    p ∈ rPaths G ↔ p.1 ∈ G ∧ p.2 ∈ G ∧ p.1.1 ≠ p.2.1 ∧ p.1.2 ≠ p.2.2 := by
  unfold rPaths; simp [Finset.mem_filter, Finset.mem_product, and_assoc]

theorem recomb_hmem (G : Multiset (A × B)) (p) (hp : p ∈ rPaths G) : rRev G p ∈ rPaths (rTgt G p) := by
  obtain ⟨⟨a, b⟩, ⟨c, d⟩⟩ := p
  rw [mem_rPaths] at hp ⊢
  obtain ⟨_, _, h1, h2⟩ := hp
  simp only [rRev, rTgt] at *
  refine ⟨by simp, by simp, Ne.symm h1, h2⟩

theorem recomb_htgt (G : Multiset (A × B)) (p) (hp : p ∈ rPaths G) : rTgt (rTgt G p) (rRev G p) = G := by
  obtain ⟨⟨a, b⟩, ⟨c, d⟩⟩ := p
  rw [mem_rPaths] at hp
  obtain ⟨hx, hy, h1, _⟩ := hp
  simp only at hx hy h1
  have hne : (a, b) ≠ (c, d) := fun e => h1 (congrArg Prod.fst e)
  have hy' : (c, d) ∈ G.erase (a, b) := (Multiset.mem_erase_of_ne (Ne.symm hne)).mpr hy
  have hne2 : ((c, b) : A × B) ≠ (a, d) := fun e => h1 (congrArg Prod.fst e).symm
  simp only [rTgt, rRev]
  rw [Multiset.erase_cons_head, Multiset.erase_cons_head]
  rw [Multiset.cons_erase hy', Multiset.cons_erase hx]

theorem recomb_hinv (G : Multiset (A × B)) (p) (_hp : p ∈ rPaths G) : rRev (rTgt G p) (rRev G p) = p := by
  obtain ⟨⟨a, b⟩, ⟨c, d⟩⟩ := p
  simp [rRev]

end MCHap.Paths
