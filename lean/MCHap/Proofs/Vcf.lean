import MCHap.Model.Vcf
import Mathlib.Data.List.Basic
import Mathlib.Data.List.Count
import Mathlib.Data.List.Dedup
import Mathlib.Data.List.Range
import Mathlib.Data.Finset.Card
import Mathlib.Algebra.BigOperators.Group.List.Basic
import Mathlib.Tactic

/-! Helper lemmas for C07: the allele-count loop of `sumarise_vcf_record`, `foldl max`, GT order. -/
namespace MCHap.Vcf

/-! ### `incAt`, `bump`, the counting folds -/

theorem incAt_length : ∀ (c : List ℕ) (a : ℕ), (incAt c a).length = c.length
  | [], _ => rfl
  | _ :: _, 0 => rfl
  | x :: xs, a + 1 => by simp [incAt, incAt_length xs a]

theorem incAt_getD : ∀ (c : List ℕ) (a b : ℕ), a < c.length →
    (incAt c a).getD b 0 = c.getD b 0 + if b = a then 1 else 0
  | [], _, _, h => by simp at h
  | x :: xs, 0, b, _ => by
    cases b <;> simp [incAt]
  | x :: xs, a + 1, b, h => by
    cases b with
    | zero => simp [incAt]
    | succ b =>
      have := incAt_getD xs a b (by simpa using h)
      simpa [incAt] using this

/-- called alleles of one genotype -/
def calledOf (g : List (Option ℕ)) : List ℕ := g.filterMap id

/-- called alleles of all genotypes of a record, in column order -/
def called (gts : List (List (Option ℕ))) : List ℕ := gts.flatMap calledOf

theorem countGenotype_spec : ∀ (g : List (Option ℕ)) (c c' : List ℕ),
    countGenotype c g = some c' →
      c'.length = c.length ∧ (∀ a ∈ calledOf g, a < c.length) ∧
      ∀ b, c'.getD b 0 = c.getD b 0 + (calledOf g).count b
  | [], c, c', h => by
    simp [countGenotype] at h
    subst h; simp [calledOf]
  | none :: t, c, c', h => by
    have h' : countGenotype c t = some c' := by simpa [countGenotype, bump] using h
    simpa [calledOf] using countGenotype_spec t c c' h'
  | some a :: t, c, c', h => by
    simp only [countGenotype, List.foldlM_cons, bump] at h
    by_cases ha : a < c.length
    · simp only [ha, if_true, Option.bind_eq_bind, Option.bind_some] at h
      obtain ⟨h1, h2, h3⟩ := countGenotype_spec t (incAt c a) c' h
      rw [incAt_length] at h1 h2
      refine ⟨h1, ?_, ?_⟩
      · intro x hx
        simp only [calledOf, List.filterMap_cons, id] at hx
        rcases List.mem_cons.mp hx with rfl | hx
        · exact ha
        · exact h2 x hx
      · intro b
        rw [h3 b, incAt_getD c a b ha]
        simp only [calledOf, List.filterMap_cons, id, List.count_cons]
        by_cases hb : b = a
        · subst hb; simp; omega
        · have : ¬ a = b := fun e => hb e.symm
          simp [hb, this]
    · simp [ha] at h

theorem countGenotype_total : ∀ (g : List (Option ℕ)) (c : List ℕ),
    (∀ a ∈ calledOf g, a < c.length) → ∃ c', countGenotype c g = some c'
  | [], c, _ => ⟨c, by simp [countGenotype]⟩
  | none :: t, c, h => by
    obtain ⟨c', hc⟩ := countGenotype_total t c (by simpa [calledOf] using h)
    exact ⟨c', by simpa [countGenotype, bump] using hc⟩
  | some a :: t, c, h => by
    have ha : a < c.length := h a (by simp [calledOf])
    obtain ⟨c', hc⟩ := countGenotype_total t (incAt c a) (by
      intro x hx; rw [incAt_length]; exact h x (by simp [calledOf] at hx ⊢; exact Or.inr hx))
    refine ⟨c', ?_⟩
    simp only [countGenotype, List.foldlM_cons, bump, ha, if_true, Option.bind_eq_bind, Option.bind_some]
    exact hc

theorem foldlM_countGenotype_spec : ∀ (gts : List (List (Option ℕ))) (c c' : List ℕ),
    gts.foldlM countGenotype c = some c' →
      c'.length = c.length ∧ (∀ a ∈ called gts, a < c.length) ∧
      ∀ b, c'.getD b 0 = c.getD b 0 + (called gts).count b
  | [], c, c', h => by
    simp at h; subst h; simp [called]
  | g :: t, c, c', h => by
    simp only [List.foldlM_cons, Option.bind_eq_bind] at h
    cases hg : countGenotype c g with
    | none => simp [hg] at h
    | some c1 =>
      simp only [hg, Option.bind_some] at h
      obtain ⟨l1, m1, v1⟩ := countGenotype_spec g c c1 hg
      obtain ⟨l2, m2, v2⟩ := foldlM_countGenotype_spec t c1 c' h
      refine ⟨l2.trans l1, ?_, ?_⟩
      · intro a ha
        simp only [called, List.flatMap_cons, List.mem_append] at ha
        rcases ha with ha | ha
        · exact m1 a ha
        · rw [← l1]; exact m2 a ha
      · intro b
        rw [v2 b, v1 b]
        simp only [called, List.flatMap_cons, List.count_append]
        omega

theorem foldlM_countGenotype_total : ∀ (gts : List (List (Option ℕ))) (c : List ℕ),
    (∀ a ∈ called gts, a < c.length) → ∃ c', gts.foldlM countGenotype c = some c'
  | [], c, _ => ⟨c, by simp⟩
  | g :: t, c, h => by
    obtain ⟨c1, h1⟩ := countGenotype_total g c (fun a ha => h a (by simp [called]; exact Or.inl ha))
    obtain ⟨l1, _, _⟩ := countGenotype_spec g c c1 h1
    obtain ⟨c', h2⟩ := foldlM_countGenotype_total t c1 (fun a ha => by
      rw [l1]; exact h a (by simp only [called, List.flatMap_cons, List.mem_append]; exact Or.inr ha))
    exact ⟨c', by simp [List.foldlM_cons, h1, h2]⟩

/-- the count vector as a function of the called alleles -/
theorem countAlleles_eq (nAlt : ℕ) (gts : List (List (Option ℕ))) (c : List ℕ)
    (h : countAlleles nAlt gts = some c) :
    (∀ a ∈ called gts, a ≤ nAlt) ∧
    c = (List.range (nAlt + 1)).map (fun a => (called gts).count a) := by
  obtain ⟨hl, hm, hv⟩ := foldlM_countGenotype_spec gts _ c h
  simp only [List.length_replicate] at hl hm
  refine ⟨fun a ha => Nat.lt_succ_iff.mp (hm a ha), ?_⟩
  apply List.ext_getElem
  · simp [hl]
  · intro i h1 h2
    have := hv i
    simp only [List.length_map, List.length_range] at h2
    have h3 : i < (List.replicate (nAlt + 1) 0).length := by simpa using h2
    simp only [List.getD_eq_getElem?_getD, List.getElem?_eq_getElem h1, List.getElem?_eq_getElem h3,
      Option.getD_some, List.getElem_replicate, Nat.zero_add] at this
    simp [this]

theorem sum_indicator_range (x : ℕ) : ∀ L : ℕ,
    ((List.range L).map (fun a => if a = x then 1 else 0)).sum = if x < L then 1 else 0
  | 0 => by simp
  | L + 1 => by
    rw [List.range_succ, List.map_append, List.sum_append, sum_indicator_range x L]
    by_cases h1 : x < L
    · have : ¬ L = x := by omega
      simp [h1, this, Nat.lt_succ_of_lt h1]
    · by_cases h2 : L = x
      · subst h2; simp
      · have : ¬ x < L + 1 := by omega
        simp [h1, h2, this]

theorem sum_count_range (l : List ℕ) (L : ℕ) (h : ∀ a ∈ l, a < L) :
    ((List.range L).map (fun a => l.count a)).sum = l.length := by
  induction l with
  | nil => simp
  | cons x t ih =>
    have hx : x < L := h x (by simp)
    have ht := ih (fun a ha => h a (by simp [ha]))
    have : ((List.range L).map (fun a => (x :: t).count a)) =
        (List.range L).map (fun a => t.count a + if a = x then 1 else 0) := by
      apply List.map_congr_left
      intro a _
      simp only [List.count_cons]
      by_cases hax : a = x
      · subst hax; simp
      · have : ¬ x = a := fun e => hax e.symm
        simp [hax, this]
    rw [this, List.sum_map_add, ht]
    have : ((List.range L).map (fun a => if a = x then 1 else 0)).sum = 1 := by
      rw [sum_indicator_range]; simp [hx]
    simp [this]

theorem countP_pos_count_range (l : List ℕ) (L : ℕ) (h : ∀ a ∈ l, a < L) :
    ((List.range L).map (fun a => l.count a)).countP (fun x => decide (0 < x)) = l.dedup.length := by
  rw [List.countP_map]
  have h1 : (List.range L).countP ((fun x => decide (0 < x)) ∘ fun a => l.count a)
      = ((List.range L).filter (fun a => decide (a ∈ l))).length := by
    rw [List.countP_eq_length_filter]
    congr 1
    apply List.filter_congr
    intro a _
    simp [List.count_pos_iff]
  rw [h1]
  have nd : ((List.range L).filter (fun a => decide (a ∈ l))).Nodup :=
    List.Nodup.filter _ List.nodup_range
  rw [← List.toFinset_card_of_nodup nd, ← List.toFinset_card_of_nodup (List.nodup_dedup l)]
  congr 1
  ext a
  simp only [List.toFinset_filter, decide_eq_true_eq, Finset.mem_filter, List.mem_toFinset,
    List.mem_range, List.mem_dedup]
  exact ⟨fun h => h.2, fun ha => ⟨h a ha, ha⟩⟩

/-! ### `foldl max` -/

theorem foldl_max_ge : ∀ (l : List ℕ) (a : ℕ), a ≤ l.foldl max a ∧ ∀ x ∈ l, x ≤ l.foldl max a
  | [], a => by simp
  | y :: t, a => by
    obtain ⟨h1, h2⟩ := foldl_max_ge t (max a y)
    refine ⟨le_trans (le_max_left a y) h1, ?_⟩
    intro x hx
    rcases List.mem_cons.mp hx with rfl | hx
    · exact le_trans (le_max_right a x) h1
    · exact h2 x hx

theorem foldl_max_le : ∀ (l : List ℕ) (a b : ℕ), a ≤ b → (∀ x ∈ l, x ≤ b) → l.foldl max a ≤ b
  | [], a, b, h, _ => by simpa using h
  | y :: t, a, b, h, hl => by
    simp only [List.foldl_cons]
    exact foldl_max_le t (max a y) b (max_le h (hl y (by simp))) (fun x hx => hl x (by simp [hx]))

/-! ### GT order -/

/-- numbers ascending, no `.` before a number -/
def GTLe : Option ℕ → Option ℕ → Prop
  | some x, some y => x ≤ y
  | none, some _ => False
  | _, none => True

theorem gtLeB_iff (a b : Option ℕ) : gtLeB a b = true ↔ GTLe a b := by
  cases a <;> cases b <;> simp [gtLeB, GTLe]

theorem gtSortedB_iff : ∀ (g : List (Option ℕ)), gtSortedB g = true ↔ g.Pairwise GTLe
  | [] => by simp [gtSortedB]
  | a :: t => by
    simp only [gtSortedB, Bool.and_eq_true, List.all_eq_true, List.pairwise_cons, gtSortedB_iff t,
      gtLeB_iff]

/-- "sorted with `.` last", spelled out -/
theorem pairwise_GTLe_split : ∀ (g : List (Option ℕ)), g.Pairwise GTLe →
    ∃ (cs : List ℕ) (k : ℕ), g = cs.map some ++ List.replicate k none ∧ cs.Pairwise (· ≤ ·)
  | [], _ => ⟨[], 0, by simp, by simp⟩
  | a :: t, h => by
    obtain ⟨h1, h2⟩ := List.pairwise_cons.mp h
    obtain ⟨cs, k, ht, hs⟩ := pairwise_GTLe_split t h2
    cases a with
    | some x =>
      refine ⟨x :: cs, k, by simp [ht], ?_⟩
      rw [List.pairwise_cons]
      refine ⟨fun y hy => ?_, hs⟩
      have : some y ∈ t := by rw [ht]; simp [hy]
      exact h1 _ this
    | none =>
      have hcs : cs = [] := by
        cases cs with
        | nil => rfl
        | cons y _ =>
          have : some y ∈ t := by rw [ht]; simp
          exact absurd (h1 _ this) (by simp [GTLe])
      subst hcs
      exact ⟨[], k + 1, by simp [ht, List.replicate_succ], by simp⟩

end MCHap.Vcf
