import MCHap.Proofs.Prior
import Mathlib.Analysis.SpecialFunctions.Gamma.Basic

/-!
# C05 — Genotype priors are proper distributions and mutually consistent

Unordered genotypes over `n` alleles at ploidy `p` are in bijection with count vectors
(`compositions n p`; `ofCounts` / `countsOf` are inverse, theorem `countsOf_ofCounts`), so
"sums to one over all unordered genotypes" is stated as a sum over `compositions`.
-/
namespace MCHap.C05
open MCHap Finset

/-! ### count vectors ↔ sorted genotypes -/

theorem compositions_spec : ∀ (n p : ℕ) (c : List ℕ), c ∈ compositions n p → c.length = n ∧ c.sum = p := by
  intro n
  induction n with
  | zero =>
    intro p c hc
    cases p with
    | zero => simp [compositions] at hc; subst hc; simp
    | succ p => simp [compositions] at hc
  | succ n ih =>
    intro p c hc
    simp only [compositions, List.mem_flatMap, List.mem_range, List.mem_map] at hc
    obtain ⟨i, hi, c', hc', rfl⟩ := hc
    obtain ⟨h1, h2⟩ := ih (p - i) c' hc'
    simp [h1, h2]; omega

theorem count_ofCounts (c : List ℕ) (a : ℕ) (ha : a < c.length) : (ofCounts c).count a = c.getD a 0 := by
  unfold ofCounts
  rw [List.count_flatMap]
  have : (List.map (List.count a ∘ fun b => List.replicate (c.getD b 0) b) (List.range c.length))
      = (List.range c.length).map (fun b => if b = a then c.getD a 0 else 0) := by
    apply List.map_congr_left
    intro b _
    simp only [Function.comp, List.count_replicate]
    by_cases h : b = a
    · subst h; simp
    · have : (b == a) = false := by simpa using h
      simp [h, this]
  rw [this]
  rw [List.sum_map_eq_nsmul_single a]
  · simp [List.count_range, ha]  -- exactly one occurrence of `a` in `range`
  · intro b hb _; simp [hb]

/-- the round trip count vector → sorted genotype → count vector -/
theorem countsOf_ofCounts (c : List ℕ) : countsOf c.length (ofCounts c) = c := by
  unfold countsOf
  apply List.ext_getElem
  · simp
  · intro i h1 h2
    simp only [List.length_map, List.length_range] at h1
    simp [count_ofCounts c i h1, List.getD_eq_getElem?_getD, h2]

/-! ### normalisation -/

theorem dmCounts_eq (alphas : List ℚ) (c : List ℕ) :
    dmCounts alphas c = (factorial c.sum : ℚ) / rising alphas.sum c.sum *
      ((alphas.zip c).map (fun ac => mc ac.1 ac.2)).prod := by
  unfold dmCounts; rw [prodList_eq]; rfl

theorem multinomialCounts_eq (fs : List ℚ) (c : List ℕ) :
    multinomialCounts fs c = (factorial c.sum : ℚ) * ((fs.zip c).map (fun fc => pw fc.1 fc.2)).prod := by
  unfold multinomialCounts; rw [prodList_eq]; rfl

/-- the Dirichlet-multinomial prior sums to one over all count vectors (zero dispersions allowed) -/
theorem dm_sum_one (alphas : List ℚ) (p : ℕ) (hpos : 0 < alphas.sum) :
    ((compositions alphas.length p).map (dmCounts alphas)).sum = 1 := by
  have h : ∀ c ∈ compositions alphas.length p, dmCounts alphas c
      = (factorial p : ℚ) / rising alphas.sum p * ((alphas.zip c).map (fun ac => mc ac.1 ac.2)).prod := by
    intro c hc
    rw [dmCounts_eq, (compositions_spec _ _ c hc).2]
  rw [List.map_congr_left h, List.sum_map_mul_left,
    conv_compositions mc vandermonde_mc mc_zero_left alphas p]
  unfold mc
  have h1 := rising_pos alphas.sum hpos p
  have h2 := factorial_pos' p
  field_simp

/-- the multinomial prior (F = 0) sums to one -/
theorem multinomial_sum_one (fs : List ℚ) (p : ℕ) (hsum : fs.sum = 1) :
    ((compositions fs.length p).map (multinomialCounts fs)).sum = 1 := by
  have h : ∀ c ∈ compositions fs.length p, multinomialCounts fs c
      = (factorial p : ℚ) * ((fs.zip c).map (fun fc => pw fc.1 fc.2)).prod := by
    intro c hc
    rw [multinomialCounts_eq, (compositions_spec _ _ c hc).2]
  rw [List.map_congr_left h, List.sum_map_mul_left,
    conv_compositions pw binomial_pw pw_zero_left fs p, hsum]
  unfold pw
  have h2 := factorial_pos' p
  rw [one_pow]
  field_simp

theorem sum_map_mul_const (l : List ℚ) (k : ℚ) : (l.map (· * k)).sum = l.sum * k := by
  induction l with
  | nil => simp
  | cons a l ih => simp [ih, add_mul]

/-- **the call / call-exact prior is proper**: for every ploidy, allele number, inbreeding
    `0 ≤ F < 1` and frequency vector summing to one (zero entries allowed; `none` = flat),
    the prior sums to one over all unordered genotypes -/
theorem callPrior_sum_one (n p : ℕ) (F : ℚ) (hF0 : 0 ≤ F) (hF1 : F < 1) (freqs : Option (List ℚ))
    (hn : 0 < n)
    (hfreq : ∀ fs, freqs = some fs → fs.length = n ∧ fs.sum = 1) :
    ((compositions n p).map (fun c => callPrior n F freqs (ofCounts c))).sum = 1 := by
  -- the frequency vector actually used
  set fs := (List.range n).map (freqOf n freqs) with hfs
  have hlen : fs.length = n := by simp [hfs]
  have hsum : fs.sum = 1 := by
    cases freqs with
    | none =>
      have e : (List.range n).map (freqOf n none) = (List.range n).map (fun _ => 1 / (n : ℚ)) := by
        apply List.map_congr_left; intro a _; rfl
      rw [hfs, e, List.map_const', List.sum_replicate, List.length_range, nsmul_eq_mul]
      have : (n : ℚ) ≠ 0 := by positivity
      field_simp
    | some l =>
      obtain ⟨h1, h2⟩ := hfreq l rfl
      have : fs = l := by
        rw [hfs]
        apply List.ext_getElem
        · simp [h1]
        · intro i hi1 hi2
          simp [freqOf, List.getD_eq_getElem?_getD, hi2]
      rw [this, h2]
  have hc : ∀ c ∈ compositions n p, callPrior n F freqs (ofCounts c)
      = if F = 0 then multinomialCounts fs c else dmCounts (fs.map (alphaOf F)) c := by
    intro c hc
    have hl := (compositions_spec n p c hc).1
    unfold callPrior
    simp only
    rw [← hl, countsOf_ofCounts c, hl]
  rw [List.map_congr_left hc]
  by_cases h0 : F = 0
  · simp only [h0, if_true]
    rw [← hlen]; exact multinomial_sum_one fs p hsum
  · simp only [h0, if_false]
    have hl2 : (fs.map (alphaOf F)).length = n := by simp [hlen]
    have hpos : 0 < (fs.map (alphaOf F)).sum := by
      have : (fs.map (alphaOf F)) = fs.map (· * ((1 - F) / F)) := by
        apply List.map_congr_left; intro x _; rfl
      rw [this, sum_map_mul_const, hsum, one_mul]
      have hFpos : 0 < F := lt_of_le_of_ne hF0 (Ne.symm h0)
      have : 0 < 1 - F := by linarith
      positivity
    rw [← hl2]; exact dm_sum_one _ p hpos

/-- an allele with zero prior frequency makes every genotype containing it impossible
    (Dirichlet-multinomial branch: a zero dispersion) -/
theorem dmCounts_zero_of_zero_alpha (alphas : List ℚ) (c : List ℕ) (i : ℕ)
    (hi : i < alphas.length) (hic : i < c.length) (ha : alphas[i] = 0) (hc : 0 < c[i]) :
    dmCounts alphas c = 0 := by
  rw [dmCounts_eq]
  apply mul_eq_zero_of_right
  apply List.prod_eq_zero
  rw [List.mem_map]
  refine ⟨(alphas[i], c[i]), ?_, ?_⟩
  · rw [List.mem_iff_getElem]
    exact ⟨i, by simp [hi, hic], by simp⟩
  · simp only [ha, mc_zero_left]
    have : c[i] ≠ 0 := by omega
    simp [this]

/-! ### the single-allele conditional used by the Gibbs move -/

/-- probability of an *ordered* allele sequence under the Dirichlet-multinomial (Pólya urn form):
    `∏_a rising(α_a, count a) / rising(A, length)` — exchangeable by construction -/
def dmOrdered (alphas : List ℚ) (g : List ℕ) : ℚ :=
  (((List.range alphas.length).map (fun a => rising (alphas.getD a 0) (g.count a))).prod)
    / rising alphas.sum g.length

theorem prod_rising_insert (alphas : List ℚ) (rest : List ℕ) (x : ℕ) (hx : x < alphas.length) (g : List ℕ)
    (hg : ∀ a, g.count a = rest.count a + if a = x then 1 else 0) :
    ((List.range alphas.length).map (fun a => rising (alphas.getD a 0) (g.count a))).prod
      = ((List.range alphas.length).map (fun a => rising (alphas.getD a 0) (rest.count a))).prod
        * (alphas.getD x 0 + rest.count x) := by
  have key : ∀ (l : List ℕ), l.Nodup → (x ∈ l →
      (l.map (fun a => rising (alphas.getD a 0) (g.count a))).prod
        = (l.map (fun a => rising (alphas.getD a 0) (rest.count a))).prod
          * (alphas.getD x 0 + rest.count x)) ∧ (x ∉ l →
      (l.map (fun a => rising (alphas.getD a 0) (g.count a))).prod
        = (l.map (fun a => rising (alphas.getD a 0) (rest.count a))).prod) := by
    intro l
    induction l with
    | nil => intro _; simp
    | cons b l ih =>
      intro hnd
      obtain ⟨hb, hnd'⟩ := List.nodup_cons.mp hnd
      obtain ⟨ih1, ih2⟩ := ih hnd'
      constructor
      · intro hmem
        simp only [List.map_cons, List.prod_cons]
        by_cases hbx : b = x
        · subst hbx
          rw [ih2 hb, hg b]; simp only [if_true, rising]; ring
        · have hxl : x ∈ l := by
            rcases List.mem_cons.mp hmem with h | h
            · exact absurd h.symm hbx
            · exact h
          rw [ih1 hxl, hg b]; simp only [hbx, if_false, Nat.add_zero]; ring
      · intro hnmem
        simp only [List.map_cons, List.prod_cons]
        have hbx : b ≠ x := fun e => hnmem (e ▸ List.mem_cons_self)
        have hxl : x ∉ l := fun h => hnmem (List.mem_cons_of_mem _ h)
        rw [ih2 hxl, hg b]; simp [hbx]
  exact (key _ List.nodup_range).1 (List.mem_range.mpr hx)

/-- Pólya-urn step: putting allele `x` anywhere into a sequence multiplies its probability by
    `(α_x + #x among the others) / (A + #others)` -/
theorem dmOrdered_insert (alphas : List ℚ) (pre post : List ℕ) (x : ℕ) (hx : x < alphas.length)
    (hA : 0 < alphas.sum) :
    dmOrdered alphas (pre ++ x :: post)
      = dmOrdered alphas (pre ++ post)
        * ((alphas.getD x 0 + (pre ++ post).count x) / (alphas.sum + (pre ++ post).length)) := by
  unfold dmOrdered
  rw [prod_rising_insert alphas (pre ++ post) x hx (pre ++ x :: post) (by
    intro a
    simp only [List.count_append, List.count_cons]
    by_cases h : a = x
    · subst h; simp; ring
    · have : (x == a) = false := by simpa using (Ne.symm h)
      simp [h, this])]
  have hlen : (pre ++ x :: post).length = (pre ++ post).length + 1 := by simp; omega
  rw [hlen, rising]
  have h1 := rising_pos alphas.sum hA (pre ++ post).length
  have h2 : (0 : ℚ) < alphas.sum + ((pre ++ post).length : ℚ) := by positivity
  field_simp

theorem sum_count_range (n : ℕ) (l : List ℕ) (hl : ∀ x ∈ l, x < n) :
    ((List.range n).map (fun a => (l.count a : ℚ))).sum = l.length := by
  induction l with
  | nil => simp
  | cons b l ih =>
    have hb : b < n := hl b (by simp)
    have e : ∀ a, (((b :: l).count a : ℕ) : ℚ) = (l.count a : ℚ) + if a = b then 1 else 0 := by
      intro a
      rw [List.count_cons]
      by_cases h : a = b
      · subst h; simp
      · have : (b == a) = false := by simpa using (Ne.symm h)
        simp [h, this]
    simp only [e, List.length_cons]
    rw [List.sum_map_add, ih (fun x hx => hl x (List.mem_cons_of_mem _ hx))]
    have : ((List.range n).map (fun a => if a = b then (1 : ℚ) else 0)).sum = 1 := by
      rw [List.sum_map_eq_nsmul_single b]
      · simp [List.count_range, hb]
      · intro a ha _; simp [ha]
    rw [this]; push_cast; ring

theorem sum_getD_range (l : List ℚ) : ((List.range l.length).map (fun a => l.getD a 0)).sum = l.sum := by
  congr 1
  apply List.ext_getElem
  · simp
  · intro i h1 h2; simp [List.getD_eq_getElem?_getD, h2]

/-- the urn weights of the candidates for one slot sum to the normaliser -/
theorem urn_weights_sum (alphas : List ℚ) (rest : List ℕ) (hr : ∀ x ∈ rest, x < alphas.length) :
    ((List.range alphas.length).map (fun y => alphas.getD y 0 + (rest.count y : ℚ))).sum
      = alphas.sum + rest.length := by
  rw [List.sum_map_add, sum_getD_range, sum_count_range _ _ hr]

/-- **the Gibbs conditional prior is the exact conditional of the genotype prior**:
    for the Dirichlet-multinomial on ordered sequences, the probability that the free slot holds `x`
    given the other alleles equals `dmOrdered(with x) / Σ_y dmOrdered(with y)` and has the closed
    form the code uses. -/
theorem allele_conditional (alphas : List ℚ) (pre post : List ℕ) (x : ℕ) (hx : x < alphas.length)
    (hA : 0 < alphas.sum) (hpos : ∀ z ∈ pre ++ post, 0 < alphas.getD z 0)
    (hr : ∀ z ∈ pre ++ post, z < alphas.length) :
    dmOrdered alphas (pre ++ x :: post)
      / ((List.range alphas.length).map (fun y => dmOrdered alphas (pre ++ y :: post))).sum
      = (alphas.getD x 0 + (pre ++ post).count x) / (alphas.sum + (pre ++ post).length) := by
  have hall : ∀ y ∈ List.range alphas.length, dmOrdered alphas (pre ++ y :: post)
      = dmOrdered alphas (pre ++ post)
        * ((alphas.getD y 0 + (pre ++ post).count y) / (alphas.sum + (pre ++ post).length)) :=
    fun y hy => dmOrdered_insert alphas pre post y (List.mem_range.mp hy) hA
  rw [List.map_congr_left hall, List.sum_map_mul_left, dmOrdered_insert alphas pre post x hx hA]
  have hsum : ((List.range alphas.length).map
      (fun y => (alphas.getD y 0 + ((pre ++ post).count y : ℚ)) / (alphas.sum + (pre ++ post).length))).sum = 1 := by
    have : ∀ y ∈ List.range alphas.length,
        (alphas.getD y 0 + ((pre ++ post).count y : ℚ)) / (alphas.sum + (pre ++ post).length)
          = (alphas.getD y 0 + ((pre ++ post).count y : ℚ)) * (alphas.sum + (pre ++ post).length)⁻¹ :=
      fun y _ => div_eq_mul_inv _ _
    rw [List.map_congr_left this, List.sum_map_mul_right, urn_weights_sum alphas _ hr]
    have : (0 : ℚ) < alphas.sum + ((pre ++ post).length : ℚ) := by positivity
    field_simp
  rw [hsum, mul_one]
  have hd : dmOrdered alphas (pre ++ post) ≠ 0 := by
    unfold dmOrdered
    apply div_ne_zero
    · apply ne_of_gt
      apply List.prod_pos
      intro v hv
      obtain ⟨a, _, rfl⟩ := List.mem_map.mp hv
      by_cases hc : (pre ++ post).count a = 0
      · rw [hc]; simp [rising]
      · exact rising_pos _ (hpos a (List.count_pos_iff.mp (Nat.pos_of_ne_zero hc))) _
    · exact (rising_pos _ hA _).ne'
  field_simp

/-- closed form of the code's single-allele conditional (`log_genotype_allele_prior`, `F > 0`):
    `(α_x + #x among the others) / (A + p − 1)` -/
theorem allelePrior_eq_urn (n : ℕ) (F : ℚ) (hF : F ≠ 0) (fs : List ℚ) (pre post : List ℕ) (x : ℕ) :
    allelePrior n F (some fs) (pre ++ x :: post) pre.length
      = (alphaOf F (fs.getD x 0) + (pre ++ post).count x) / ((fs.map (alphaOf F)).sum + (pre ++ post).length) := by
  unfold allelePrior
  have hx : (pre ++ x :: post).getD pre.length 0 = x := by
    simp [List.getD_eq_getElem?_getD]
  simp only [hx, hF, if_false, freqOf]
  have h1 : (pre ++ x :: post).length - 1 = (pre ++ post).length := by simp
  have h2 : (pre ++ x :: post).count x - 1 = (pre ++ post).count x := by
    simp [List.count_append]
  rw [h1, h2, add_comm ((pre ++ post).length : ℚ)]

/-- with the flat prior the same holds with every `α = (1/n)(1−F)/F` -/
theorem allelePrior_flat_eq_urn (n : ℕ) (F : ℚ) (hF : F ≠ 0) (pre post : List ℕ) (x : ℕ) :
    allelePrior n F none (pre ++ x :: post) pre.length
      = (alphaOf F (1 / (n : ℚ)) + (pre ++ post).count x)
        / (alphaOf F (1 / (n : ℚ)) * n + (pre ++ post).length) := by
  unfold allelePrior
  have hx : (pre ++ x :: post).getD pre.length 0 = x := by
    simp [List.getD_eq_getElem?_getD]
  simp only [hx, hF, if_false, freqOf]
  have h1 : (pre ++ x :: post).length - 1 = (pre ++ post).length := by simp
  have h2 : (pre ++ x :: post).count x - 1 = (pre ++ post).count x := by
    simp [List.count_append]
  rw [h1, h2, add_comm ((pre ++ post).length : ℚ)]

/-- F = 0: the conditional is the allele's prior frequency (alleles are independent) -/
theorem allelePrior_F0 (n : ℕ) (freqs : Option (List ℚ)) (g : List ℕ) (k : ℕ) :
    allelePrior n 0 freqs g k = freqOf n freqs (g.getD k 0) := by
  simp [allelePrior]

/-! ### unordered prior = number of orderings × ordered (urn) probability -/

theorem foldr_mul_eq_prod (l : List ℕ) : l.foldr (· * ·) 1 = l.prod := by
  induction l with
  | nil => rfl
  | cons a l ih => simp [List.foldr, ih]

theorem prod_zip_map (l : List ℕ) (f : ℕ → ℚ) (cnt : ℕ → ℕ) :
    (((l.map f).zip (l.map cnt)).map (fun ac => rising ac.1 ac.2 / (factorial ac.2 : ℚ))).prod
      = (l.map (fun a => rising (f a) (cnt a))).prod / (((l.map (fun a => factorial (cnt a))).prod : ℕ) : ℚ) := by
  induction l with
  | nil => simp
  | cons a l ih =>
    simp only [List.map_cons, List.zip_cons_cons, List.prod_cons, ih]
    have h1 := factorial_pos' (cnt a)
    have h2 : (0 : ℚ) < (((l.map (fun a => factorial (cnt a))).prod : ℕ) : ℚ) := by
      have : 0 < (l.map (fun a => factorial (cnt a))).prod := by
        apply List.prod_pos; intro x hx
        obtain ⟨y, _, rfl⟩ := List.mem_map.mp hx
        rw [factorial_eq]; exact Nat.factorial_pos _
      exact_mod_cast this
    push_cast
    field_simp

theorem getD_range_eq (l : List ℚ) : (List.range l.length).map (fun a => l.getD a 0) = l := by
  apply List.ext_getElem
  · simp
  · intro i h1 h2; simp [List.getD_eq_getElem?_getD, h2]

/-- the Dirichlet-multinomial pmf of an unordered genotype is the number of its distinct
    orderings times the (exchangeable) urn probability of any one ordering -/
theorem dmCounts_eq_perms_mul_ordered (alphas : List ℚ) (g : List ℕ)
    (hsum : (countsOf alphas.length g).sum = g.length) :
    dmCounts alphas (countsOf alphas.length g)
      = permsOfDosage (countsOf alphas.length g) * dmOrdered alphas g := by
  unfold dmCounts permsOfDosage dmOrdered
  rw [prodList_eq, hsum, foldr_mul_eq_prod]
  have hz : (alphas.zip (countsOf alphas.length g))
      = ((List.range alphas.length).map (fun a => alphas.getD a 0)).zip
          ((List.range alphas.length).map (fun a => g.count a)) := by
    rw [getD_range_eq]; rfl
  rw [hz, prod_zip_map]
  unfold countsOf
  rw [List.map_map]
  have h1 := factorial_pos' g.length
  have h2 : (0 : ℚ) < (((List.map (factorial ∘ fun a => List.count a g) (List.range alphas.length)).prod : ℕ) : ℚ) := by
    have : 0 < (List.map (factorial ∘ fun a => List.count a g) (List.range alphas.length)).prod := by
      apply List.prod_pos; intro x hx
      obtain ⟨y, _, rfl⟩ := List.mem_map.mp hx
      simp only [Function.comp]; rw [factorial_eq]; exact Nat.factorial_pos _
    exact_mod_cast this
  have e : (factorial ∘ fun a => List.count a g) = (fun a => factorial (List.count a g)) := rfl
  rw [e] at h2 ⊢
  by_cases hr : rising alphas.sum g.length = 0
  · simp [hr]
  · field_simp

/-! ### the assemble prior -/

theorem assemblePrior_perm (U : ℕ) (F : ℚ) {d d' : List ℕ} (h : d.Perm d') :
    assemblePrior U F d = assemblePrior U F d' := by
  unfold assemblePrior permsOfDosage
  simp only [prodList_eq]
  rw [h.sum_eq, (h.map _).prod_eq]
  have : (List.map factorial d).foldr (· * ·) 1 = (List.map factorial d').foldr (· * ·) 1 := by
    have e : ∀ l : List ℕ, l.foldr (· * ·) 1 = l.prod := by
      intro l; induction l with
      | nil => rfl
      | cons a l ih => simp [List.foldr, ih]
    rw [e, e, (h.map _).prod_eq]
  rw [this]

/-- a zero entry of the dosage vector (a duplicate slot) is neutral -/
theorem assemblePrior_zero (U : ℕ) (F : ℚ) (d : List ℕ) :
    assemblePrior U F (0 :: d) = assemblePrior U F d := by
  unfold assemblePrior permsOfDosage prodList
  simp [rising, factorial]

theorem zip_replicate_map {β : Type} (a : ℚ) (c : List ℕ) (f : ℚ × ℕ → β) :
    ((List.replicate c.length a).zip c).map f = c.map (fun d => f (a, d)) := by
  induction c with
  | nil => rfl
  | cons x t ih => simp [List.replicate_succ, ih]

theorem prod_pow_div_factorial (x : ℚ) (c : List ℕ) :
    (c.map (fun d => x ^ d / (factorial d : ℚ))).prod
      = x ^ c.sum / (((c.map factorial).prod : ℕ) : ℚ) := by
  induction c with
  | nil => simp
  | cons d t ih =>
    simp only [List.map_cons, List.prod_cons, List.sum_cons, ih, pow_add]
    have h1 := factorial_pos' d
    have h2 : (0 : ℚ) < (((t.map factorial).prod : ℕ) : ℚ) := by
      have : 0 < (t.map factorial).prod := by
        apply List.prod_pos; intro y hy
        obtain ⟨z, _, rfl⟩ := List.mem_map.mp hy
        rw [factorial_eq]; exact Nat.factorial_pos _
      exact_mod_cast this
    push_cast
    field_simp

/-- **the assemble prior is the call prior with flat frequencies over all `U` possible
    haplotypes**, for every ploidy, every inbreeding coefficient and every genotype (the dosage vector
    taken as the full count vector; zero entries and the order of entries are immaterial by
    `assemblePrior_zero` / `assemblePrior_perm`) -/
theorem assemblePrior_eq_callPrior_flat (U : ℕ) (hU : 0 < U) (F : ℚ) (g : List ℕ) :
    assemblePrior U F (countsOf U g) = callPrior U F none g := by
  have hlen : (countsOf U g).length = U := by simp [countsOf]
  have hfs : (List.range U).map (freqOf U none) = List.replicate (countsOf U g).length (1 / (U : ℚ)) := by
    rw [hlen]
    apply List.ext_getElem
    · simp
    · intro i h1 h2; simp [freqOf]
  have hUq : (U : ℚ) ≠ 0 := by positivity
  unfold assemblePrior callPrior
  simp only
  by_cases hF : F = 0
  · simp only [hF, if_true]
    unfold multinomialCounts permsOfDosage
    rw [prodList_eq, hfs, zip_replicate_map, prod_pow_div_factorial, foldr_mul_eq_prod]
    rw [one_div, inv_pow]
    have h2 : (0 : ℚ) < ((((countsOf U g).map factorial).prod : ℕ) : ℚ) := by
      have : 0 < ((countsOf U g).map factorial).prod := by
        apply List.prod_pos; intro y hy
        obtain ⟨z, _, rfl⟩ := List.mem_map.mp hy
        rw [factorial_eq]; exact Nat.factorial_pos _
      exact_mod_cast this
    field_simp
  · simp only [hF, if_false]
    unfold dmCounts
    rw [prodList_eq, prodList_eq, hfs, List.map_replicate, zip_replicate_map]
    have hsum : (List.replicate (countsOf U g).length (alphaOf F (1 / (U : ℚ)))).sum = (1 - F) / F := by
      rw [List.sum_replicate, hlen, nsmul_eq_mul]
      unfold alphaOf
      field_simp
    rw [hsum]

/-! ### link to the log-gamma form evaluated by the code -/

/-- `Γ(a + k) = rising a k · Γ(a)`: the code's `lgamma(a + k) − lgamma(a)` is `log (rising a k)` -/
theorem gamma_ratio_eq_rising (a : ℚ) (ha : 0 < a) (k : ℕ) :
    Real.Gamma ((a : ℝ) + k) = ((rising a k : ℚ) : ℝ) * Real.Gamma (a : ℝ) := by
  induction k with
  | zero => simp [rising]
  | succ k ih =>
    have hne : ((a : ℝ) + k) ≠ 0 := by
      have : (0 : ℝ) < (a : ℝ) := by exact_mod_cast ha
      positivity
    have e : (a : ℝ) + ((k + 1 : ℕ) : ℝ) = ((a : ℝ) + k) + 1 := by push_cast; ring
    rw [e, Real.Gamma_add_one hne, ih, rising]
    push_cast; ring

/-- `Γ(k + 1) = k!` (the `lgamma(dose + 1)` terms) -/
theorem gamma_factorial (k : ℕ) : Real.Gamma ((k : ℝ) + 1) = (factorial k : ℝ) := by
  rw [Real.Gamma_nat_eq_factorial, factorial_eq]

/-! ### non-vacuity and concrete instances -/

/-- tetraploid, three alleles, one of them with zero prior frequency, F = 1/10 -/
example : (compositions 3 4).length = 15 ∧
    ((compositions 3 4).map (fun c => callPrior 3 (1/10) (some [1/2, 1/2, 0]) (ofCounts c))).sum = 1 ∧
    callPrior 3 (1/10) (some [1/2, 1/2, 0]) [0, 0, 1, 2] = 0 ∧
    0 < callPrior 3 (1/10) (some [1/2, 1/2, 0]) [0, 0, 1, 1] := by
  decide +kernel

/-- the assemble prior is the call prior with flat frequencies over all `U` haplotypes
    (instance: 4 possible haplotypes, tetraploid genotype with dosage 2,1,1) -/
example : assemblePrior 4 (1/4) [2, 0, 1, 1] = callPrior 4 (1/4) none [0, 0, 1, 3]
    ∧ assemblePrior 4 0 [2, 0, 1, 1] = callPrior 4 0 none [0, 0, 1, 3] := by
  decide +kernel

end MCHap.C05
