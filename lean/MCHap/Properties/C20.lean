import MCHap.Model.Atomize
namespace MCHap.C20
end MCHap.C20
