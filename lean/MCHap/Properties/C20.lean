import MCHap.Proofs.VcfAtomize
import Mathlib.Tactic

/-!
# C20 — atomize emits the per-SNV projection of every haplotype record

Theorems over `MCHap/Model/Atomize.lean`.  `block r` is the model of `format_vcf_snv_block`: `.ok none` for a
record without SNVs, `.ok (some lines)` with one line per SNVPOS entry, or the exception that aborts the program.

* `pos_spec`, `block_gts`, `gt_projection`: line `k` sits at `POS + SNVPOS[k] − 1`, carries `PS = POS`, and its
  sample GTs are the haplotype GTs projected through the site's allele numbers (`.` stays `.`);
* `numbering_first_appearance`, `alleles_first_appearance`: site alleles are numbered by first appearance among
  REF, ALT1, ALT2, …, so REF's base is allele 0, and the printed REF/ALT bases are exactly the numbered ones;
* `marginal_spec`, `ac_marginal`, `acp_marginal`, `acp_sums_to_ploidy`: AC / ACP / DS are the haplotype-level
  counts marginalised to the site;
* totality: `block_no_snv`, `block_total` (every record shape of the calling programs: ALT may be `.`, a site may
  have no alternative base, posterior counts may hold `.`, SQ may be missing; the hypotheses are only the
  well-formedness of a haplotype VCF: SNVPOS inside the haplotypes, GT alleles listed, at most one posterior count
  per haplotype, at most four bases per site, one SNVDP value per SNV);
  `block_line_shape`, `monomorphic_site_line`, `no_alt_all_monomorphic`, `missing_counts_are_missing`: what is
  printed on those shapes (ALT `.`, AC / DS `.`, GT all 0; missing ACP/DS).
  History: before the repairs of F8 / F9 / N1 the model carried the crashes as error outcomes and totality was
  `block_total_partial` with the shapes excluded (`no_alt_crash`, `monomorphic_crash`).
-/
namespace MCHap.C20
open MCHap MCHap.Atomize

/-! ## unfolding `block` -/

/-- every successful run of `block` on a record with SNVs went through all five fallible steps -/
theorem block_ok_unfold (r : HapRecord) (lines : List SnvLine) (h : block r = .ok (some lines)) :
    ∃ snvpos hs gts counts acp dps,
      r.snvpos = some snvpos ∧ haplotypeSnvs r snvpos = .ok hs ∧
      mapE (fun siteIdx => mapE (fun s => sampleSnvGT siteIdx s.gt) r.samples)
        (snvIndices hs snvpos.length) = .ok gts ∧
      mapE (sampleCounts hs.length) r.samples = .ok counts ∧
      mapE (fun siteIdx => mapE (fun sc => sampleSiteACP siteIdx sc.1.gt.length sc.2) (r.samples.zip counts))
        (snvIndices hs snvpos.length) = .ok acp ∧
      depths snvpos.length r.samples = .ok dps ∧
      lines = blockLines r snvpos hs gts acp dps := by
  unfold block at h
  split at h
  · simp at h
  · rename_i snvpos hsp
    split at h
    · simp at h
    · rename_i hs hhs
      simp only at h
      split at h
      · simp at h
      · rename_i gts hgts
        split at h
        · simp at h
        · rename_i counts hcounts
          split at h
          · simp at h
          · rename_i acp hacp
            split at h
            · simp at h
            · rename_i dps hdps
              refine ⟨snvpos, hs, gts, counts, acp, dps, hsp, hhs, hgts, hcounts, hacp, hdps, ?_⟩
              simp only [Except.ok.injEq, Option.some.injEq] at h
              exact h.symm

/-! ## POS, PS, GT -/

/-- one line per SNVPOS entry, at `POS + SNVPOS − 1`, with `PS` = the haplotype record's POS -/
theorem pos_spec (r : HapRecord) (lines : List SnvLine) (h : block r = .ok (some lines)) :
    ∃ snvpos, r.snvpos = some snvpos ∧ lines.length = snvpos.length ∧
      ∀ (k p : ℕ), snvpos[k]? = some p →
        ∃ line : SnvLine, lines[k]? = some line ∧ line.pos = r.pos + p - 1 ∧ line.ps = r.pos := by
  obtain ⟨snvpos, hs, gts, counts, acp, dps, hsp, _, _, _, _, _, hl⟩ := block_ok_unfold r lines h
  refine ⟨snvpos, hsp, by simp [hl, blockLines], ?_⟩
  intro k p hk
  have hlt : k < snvpos.length := (List.getElem?_eq_some_iff.mp hk).1
  subst hl
  simp only [blockLines, List.getElem?_map, List.getElem?_range hlt, Option.map_some]
  refine ⟨_, rfl, ?_, rfl⟩
  simp [List.getD_eq_getElem?_getD, hk]

/-- `get_sample_snv_GT` on one sample and site is the projection of the haplotype GT through the site's
    allele numbers; it raises exactly when the GT names an unlisted haplotype -/
theorem gt_projection (siteIdx : List ℕ) : ∀ (gt : List (Option ℕ)) (g : List (Option ℕ)),
    sampleSnvGT siteIdx gt = .ok g ↔
      (∀ h, some h ∈ gt → h < siteIdx.length) ∧
      g = gt.map (Option.map (fun h => siteIdx.getD h 0))
  | [], g => by
    simp only [sampleSnvGT, mapE]
    constructor
    · intro h; simp at h; simp [h]
    · intro h; simp [h.2]
  | a :: t, g => by
    have ih := gt_projection siteIdx t
    unfold sampleSnvGT at ih ⊢
    constructor
    · intro h
      obtain ⟨b, bt, hb, ht, rfl⟩ := mapE_ok_cons h
      obtain ⟨h1, h2⟩ := (ih bt).mp ht
      cases a with
      | none =>
        simp only [Except.ok.injEq] at hb
        subst hb
        exact ⟨fun x hx => h1 x (by simpa using hx), by simp [h2]⟩
      | some x =>
        simp only at hb
        split at hb
        · rename_i y hy
          simp only [Except.ok.injEq] at hb
          subst hb
          have hlt : x < siteIdx.length := (List.getElem?_eq_some_iff.mp hy).1
          refine ⟨?_, ?_⟩
          · intro z hz
            rcases List.mem_cons.mp hz with hz | hz
            · simp at hz; subst hz; exact hlt
            · exact h1 z hz
          · simp [h2, List.getD_eq_getElem?_getD, hy]
        · simp at hb
    · rintro ⟨h1, rfl⟩
      have ht := (ih _).mpr ⟨fun x hx => h1 x (by simp [hx]), rfl⟩
      cases a with
      | none => simp [mapE, ht]
      | some x =>
        have hlt : x < siteIdx.length := h1 x (by simp)
        simp [mapE, ht, List.getElem?_eq_getElem hlt, List.getD_eq_getElem?_getD]

/-- … and the block prints exactly that for every site and sample -/
theorem block_gts (r : HapRecord) (lines : List SnvLine) (h : block r = .ok (some lines)) :
    ∃ snvpos hs, r.snvpos = some snvpos ∧ haplotypeSnvs r snvpos = .ok hs ∧
      ∀ k line, k < snvpos.length → lines[k]? = some line →
        line.gts = r.samples.map (fun s =>
          s.gt.map (Option.map (fun h => (indexLoop (column hs k) []).getD h 0))) := by
  obtain ⟨snvpos, hs, gts, counts, acp, dps, hsp, hhs, hgts, _, _, _, hl⟩ := block_ok_unfold r lines h
  refine ⟨snvpos, hs, hsp, hhs, ?_⟩
  intro k line hk hline
  subst hl
  simp only [blockLines, List.getElem?_map, List.getElem?_range hk, Option.map_some,
    Option.some.injEq] at hline
  subst hline
  simp only
  -- the k-th entry of `gts` is the per-sample traversal at site k
  have hidx : (snvIndices hs snvpos.length)[k]? = some (indexLoop (column hs k) []) := by
    simp [snvIndices, List.getElem?_map, List.getElem?_range hk]
  obtain ⟨gk, hgk, hmap⟩ := mapE_getElem? hgts k _ hidx
  rw [List.getD_eq_getElem?_getD, hgk, Option.getD_some]
  -- each sample's entry
  apply List.ext_getElem?
  intro i
  rw [List.getElem?_map]
  cases hs_i : r.samples[i]? with
  | none =>
    have : gk.length = r.samples.length := mapE_length hmap
    have hlen : r.samples.length ≤ i := by
      by_contra hcon
      push Not at hcon
      simp [List.getElem?_eq_getElem hcon] at hs_i
    simp [List.getElem?_eq_none (by omega : gk.length ≤ i)]
  | some s =>
    obtain ⟨g, hg, hgs⟩ := mapE_getElem? hmap i s hs_i
    rw [hg]
    simp [((gt_projection _ _ _).mp hgs).2]

/-- REF / ALT / INFO/AC of line `k` are the site's first-appearance alleles and the marginal counts of the
    called haplotype copies (`haplotypeCounts` = how often each listed haplotype occurs in the GT columns) -/
theorem block_alleles_ac (r : HapRecord) (lines : List SnvLine) (h : block r = .ok (some lines)) :
    ∃ snvpos hs, r.snvpos = some snvpos ∧ haplotypeSnvs r snvpos = .ok hs ∧
      ∀ (k : ℕ) (line : SnvLine), k < snvpos.length → lines[k]? = some line →
        line.ref = (formatSnvAlleles hs k).1 ∧ line.alts = (formatSnvAlleles hs k).2 ∧
        line.ac = siteAC (indexLoop (column hs k) []) (haplotypeCounts hs.length r.samples)
          (formatSnvAlleles hs k).2.length := by
  obtain ⟨snvpos, hs, gts, counts, acp, dps, hsp, hhs, _, _, _, _, hl⟩ := block_ok_unfold r lines h
  refine ⟨snvpos, hs, hsp, hhs, ?_⟩
  intro k line hk hline
  subst hl
  simp only [blockLines, List.getElem?_map, List.getElem?_range hk, Option.map_some,
    Option.some.injEq] at hline
  subst hline
  have hidx : (snvIndices hs snvpos.length)[k]? = some (indexLoop (column hs k) []) := by
    simp [snvIndices, List.getElem?_map, List.getElem?_range hk]
  simp [List.getD_eq_getElem?_getD, hidx]

/-! ## numbering -/

/-- `get_haplotype_snv_indices` numbers the bases of a site by first appearance among REF, ALT1, ALT2, …:
    (1) one number per haplotype; (2) the numbered bases are pairwise distinct; (3) number ↦ base is what
    `format_snv_alleles` prints; (4) a number is used only after all smaller ones — so REF's base is 0 and a
    base first seen earlier has the smaller number; (5) two haplotypes share a number iff they share the base -/
theorem numbering_first_appearance (col : List Char) :
    (indexLoop col []).length = col.length ∧
    (firstAppear col).Nodup ∧
    (∀ (h : ℕ) (c : Char), col[h]? = some c →
      ∃ i, (indexLoop col [])[h]? = some i ∧ (firstAppear col)[i]? = some c) ∧
    (∀ (h i a : ℕ), (indexLoop col [])[h]? = some i → a < i →
      ∃ h', h' < h ∧ (indexLoop col [])[h']? = some a) ∧
    (∀ (h₁ h₂ i₁ i₂ : ℕ) (c₁ c₂ : Char), col[h₁]? = some c₁ → col[h₂]? = some c₂ →
      (indexLoop col [])[h₁]? = some i₁ → (indexLoop col [])[h₂]? = some i₂ → (i₁ = i₂ ↔ c₁ = c₂)) := by
  obtain ⟨h1, _, h3, h4⟩ := indexLoop_spec col [] (by simp)
  refine ⟨indexLoop_length col [], h1, h3, ?_, ?_⟩
  · intro h i a hi ha
    rcases h4 h i a hi ha with hl | hr
    · simp at hl
    · exact hr
  · intro h₁ h₂ i₁ i₂ c₁ c₂ hc₁ hc₂ hi₁ hi₂
    obtain ⟨j₁, hj₁, hf₁⟩ := h3 h₁ c₁ hc₁
    obtain ⟨j₂, hj₂, hf₂⟩ := h3 h₂ c₂ hc₂
    rw [hi₁] at hj₁; rw [hi₂] at hj₂
    simp only [Option.some.injEq] at hj₁ hj₂
    subst hj₁ hj₂
    constructor
    · intro e; subst e; rw [hf₁] at hf₂; simpa using hf₂
    · intro e; subst e
      have hn : (firstAppear col).Nodup := h1
      obtain ⟨l₁, e₁⟩ := List.getElem?_eq_some_iff.mp hf₁
      obtain ⟨l₂, e₂⟩ := List.getElem?_eq_some_iff.mp hf₂
      exact (List.Nodup.getElem_inj_iff hn).mp (e₁.trans e₂.symm)

/-- the REF base printed for a site is the reference haplotype's base there (allele 0), and the ALT bases are
    the remaining numbered bases in order -/
theorem alleles_first_appearance (refRow : List Char) (rest : List (List Char)) (k : ℕ) :
    (formatSnvAlleles (refRow :: rest) k).1 = refRow.getD k ' ' ∧
    firstAppear (column (refRow :: rest) k) =
      (formatSnvAlleles (refRow :: rest) k).1 :: (formatSnvAlleles (refRow :: rest) k).2 := by
  have hcol : column (refRow :: rest) k = refRow.getD k ' ' :: column rest k := by simp [column]
  have hh := firstAppear_head (refRow.getD k ' ') (column rest k)
  rw [← hcol] at hh
  unfold formatSnvAlleles
  cases hfa : firstAppear (column (refRow :: rest) k) with
  | nil => rw [hfa] at hh; simp at hh
  | cons x t =>
    rw [hfa] at hh
    simp only [List.head?_cons, Option.some.injEq] at hh
    simp [hh]

/-! ## marginal counts -/

/-- `marginal idx count a = Σ_{h : site(h) = a} count(h)` -/
theorem marginal_spec {α : Type} [AddCommMonoid α] (siteIdx : List ℕ) (counts : List α) (a : ℕ) :
    marginal siteIdx counts a =
      ((siteIdx.zip counts).map (fun hc => if hc.1 = a then hc.2 else 0)).sum :=
  marginal_eq_sum siteIdx counts a

/-- INFO/AC of a site: entry `i` is the marginal count of allele `i + 1`, and over all alleles of the site
    (REF included) the marginal counts add up to the number of called haplotype copies -/
theorem ac_marginal (siteIdx : List ℕ) (hapCounts : List ℕ) (nAlts : ℕ)
    (hlen : siteIdx.length = hapCounts.length) (hidx : ∀ x ∈ siteIdx, x ≤ nAlts) :
    siteAC siteIdx hapCounts nAlts = (List.range nAlts).map (fun i => marginal siteIdx hapCounts (i + 1)) ∧
    ((List.range (nAlts + 1)).map (fun a => marginal siteIdx hapCounts a)).sum = hapCounts.sum := by
  refine ⟨rfl, ?_⟩
  rw [sum_marginal siteIdx hapCounts (nAlts + 1)]
  · congr 1
    exact List.map_snd_zip (le_of_eq hlen.symm)
  · intro hc hmem
    exact Nat.lt_succ_of_le (hidx hc.1 (List.of_mem_zip hmem).1)

/-- FORMAT/ACP-derived values of one sample and site: the per-haplotype posterior counts marginalised to the
    site's alleles, rescaled so that they add up to the ploidy (identity when they already do) -/
theorem acp_marginal (siteIdx : List ℕ) (ploidy : ℕ) (c : List ℚ) (v : List ℚ)
    (h : sampleSiteACP siteIdx ploidy (some c) = .ok (some v)) :
    let D := ((List.range (acpWidth siteIdx)).map (fun a => marginal siteIdx c a)).sum
    D ≠ 0 ∧ v = (List.range (acpWidth siteIdx)).map (fun a => marginal siteIdx c a / D * ploidy) ∧
    (D = ploidy → v = (List.range (acpWidth siteIdx)).map (fun a => marginal siteIdx c a)) := by
  unfold sampleSiteACP at h
  simp only at h
  split at h
  · simp at h
  · rename_i hD
    simp only [Except.ok.injEq, Option.some.injEq] at h
    have hsum : List.foldr (· + ·) 0 ((List.range (acpWidth siteIdx)).map (fun a => marginal siteIdx c a)) =
        ((List.range (acpWidth siteIdx)).map (fun a => marginal siteIdx c a)).sum := List.sum_eq_foldr.symm
    rw [hsum] at hD h
    refine ⟨hD, ?_, ?_⟩
    · rw [← h, List.map_map]; rfl
    · intro hp
      rw [← h, List.map_map]
      apply List.map_congr_left
      intro a _
      simp only [Function.comp]
      rw [← hp]
      field_simp

/-- non-vacuity: tetraploid sample, three listed haplotypes with bases C, G, C at the site -/
example : sampleSiteACP [0, 1, 0] 4 (some [(3/2 : ℚ), 3/2, 1]) = .ok (some [5/2, 3/2, 0, 0]) := by
  simp [sampleSiteACP, acpWidth, marginal, List.range, List.range.loop]
  norm_num

/-- … they add up to the sample's ploidy -/
theorem acp_sums_to_ploidy (siteIdx : List ℕ) (ploidy : ℕ) (c : List ℚ) (v : List ℚ)
    (h : sampleSiteACP siteIdx ploidy (some c) = .ok (some v)) : v.sum = ploidy := by
  obtain ⟨hD, hv, _⟩ := acp_marginal siteIdx ploidy c v h
  rw [hv]
  have : ((List.range (acpWidth siteIdx)).map (fun a => marginal siteIdx c a /
        ((List.range (acpWidth siteIdx)).map (fun a => marginal siteIdx c a)).sum * (ploidy : ℚ))) =
      ((List.range (acpWidth siteIdx)).map (fun a => marginal siteIdx c a *
        ((ploidy : ℚ) / ((List.range (acpWidth siteIdx)).map (fun a => marginal siteIdx c a)).sum))) := by
    apply List.map_congr_left
    intro a _
    ring
  rw [this, List.sum_map_mul_right]
  field_simp

/-! ## totality -/

/-- a record without SNVs (`SNVPOS=.`) is skipped -/
theorem block_no_snv (r : HapRecord) (h : r.snvpos = none) : block r = .ok none := by
  unfold block; rw [h]

/-- the outcome of a run as a comparable value: 2/3 = IndexError/ValueError, 10 = skipped, 100 + n = n lines -/
def outcome (x : Except Err (Option (List SnvLine))) : ℕ :=
  match x with
  | .error .indexError => 2
  | .error .valueError => 3
  | .ok none => 10
  | .ok (some l) => 100 + l.length

/-- minimal records (1 sample, diploid): no ALT with one SNV (formerly F8); one ALT with a site it does not
    touch (formerly F9); an AF0 record with `.` for GT, SQ and ACP (formerly N1 / N2) -/
def recNoAlt : HapRecord :=
  { pos := 10, id := some "x", ref := "ACGT".toList, alts := none, snvpos := some [2],
    samples := [{ gt := [some 0, some 0], sq := some 9, acp := none, afp := none, snvdp := none }] }

def recMono : HapRecord :=
  { pos := 10, id := some "x", ref := "ACGT".toList, alts := some ["AGGT".toList], snvpos := some [2, 4],
    samples := [{ gt := [some 0, some 1], sq := some 9, acp := none, afp := none, snvdp := none }] }

def recAF0 : HapRecord :=
  { pos := 10, id := some "x", ref := "ACGT".toList, alts := some ["AGGT".toList], snvpos := some [2],
    samples := [{ gt := [none, none], sq := none, acp := some [none], afp := none, snvdp := none }] }

def recGood : HapRecord :=
  { pos := 10, id := some "x", ref := "ACGT".toList, alts := some ["AGGT".toList, "ACGA".toList],
    snvpos := some [2, 4],
    samples := [{ gt := [some 0, some 1, some 2, none], sq := some 9, acp := none,
                  afp := none, snvdp := none }] }

/-- all four are answered with one line per SNV -/
example : outcome (block recNoAlt) = 101 ∧ outcome (block recMono) = 102 ∧ outcome (block recAF0) = 101 ∧
    outcome (block recGood) = 102 := by decide

/-- the second line of `recMono` is the site without alternative base: ALT `.`, AC `.`, GT `0|0`, DS `.` -/
example : (match block recMono with
    | .ok (some [_, l]) => (l.alts, l.ac, l.gts, l.ds)
    | _ => (['?'], [], [], [])) = ([], [], [[some 0, some 0]], [[]]) := by decide

theorem usable_length {v : Option (List (Option ℚ))} {c : List ℚ} (h : usable v = some c) :
    ∃ c0, v = some c0 ∧ c.length = c0.length := by
  unfold usable at h
  cases v with
  | none => simp at h
  | some c0 =>
    simp only at h
    split at h
    · simp at h
    · simp only [Option.some.injEq] at h
      exact ⟨c0, rfl, by simp [← h]⟩

/-- at most one posterior count per listed haplotype -/
def CountsLen (nHap : ℕ) (s : Sample) : Prop :=
  (∀ c, s.acp = some c → c.length ≤ nHap) ∧ (∀ f, s.afp = some f → f.length ≤ nHap)

theorem sampleCounts_total (nHap : ℕ) (s : Sample) (h : CountsLen nHap s) :
    ∃ o, sampleCounts nHap s = .ok o := by
  unfold sampleCounts
  simp only
  cases hacp : usable s.acp with
  | some c =>
    obtain ⟨c0, hc0, hl⟩ := usable_length hacp
    have : ¬ c.length > nHap := by have := h.1 c0 hc0; omega
    simp [this]
  | none =>
    cases hafp : usable s.afp with
    | none => simp
    | some f =>
      obtain ⟨f0, hf0, hl⟩ := usable_length hafp
      have : ¬ f.length > nHap := by have := h.2 f0 hf0; omega
      simp [this]

/-- a sample whose FORMAT/ACP holds a `.` and whose FORMAT/AFP is absent or holds a `.` (the AF0 / NOA records of
    call and call-pedigree) has unknown posterior counts: its DS and the site's ACP are missing, nothing is raised -/
theorem missing_counts_are_missing (nHap : ℕ) (s : Sample)
    (hacp : s.acp = none ∨ ∃ c, s.acp = some c ∧ none ∈ c)
    (hafp : s.afp = none ∨ ∃ f, s.afp = some f ∧ none ∈ f) :
    sampleCounts nHap s = .ok none ∧
    ∀ siteIdx ploidy, sampleSiteACP siteIdx ploidy none = .ok none := by
  have hu : ∀ v : Option (List (Option ℚ)), (v = none ∨ ∃ c, v = some c ∧ none ∈ c) → usable v = none := by
    intro v hv
    rcases hv with rfl | ⟨c, rfl, hc⟩
    · rfl
    · have : c.any Option.isNone = true := List.any_eq_true.mpr ⟨none, hc, rfl⟩
      simp [usable, this]
  refine ⟨?_, fun _ _ => rfl⟩
  unfold sampleCounts
  simp [hu _ hacp, hu _ hafp]

theorem sampleSiteACP_length {siteIdx : List ℕ} {p : ℕ} {c : Option (List ℚ)} {o : Option (List ℚ)}
    (h : sampleSiteACP siteIdx p c = .ok o) : ∀ v, o = some v → v.length = acpWidth siteIdx := by
  intro v hv
  subst hv
  cases c with
  | none => simp [sampleSiteACP] at h
  | some c =>
    unfold sampleSiteACP at h
    simp only at h
    split at h
    · simp at h
    · simp only [Except.ok.injEq, Option.some.injEq] at h
      simp [← h]

/-- **Totality.**  Every record with SNVs whose text is a haplotype VCF — each SNVPOS entry inside every listed
    haplotype, every GT allele a listed haplotype, at most one posterior count per haplotype, at most four bases per
    site, one FORMAT/SNVDP value per SNV — is answered with one line per SNVPOS entry.  ALT may be `.`, a site may
    lack an alternative base, ACP / AFP / SQ may hold `.`. -/
theorem block_total (r : HapRecord) (snvpos : List ℕ)
    (hsp : r.snvpos = some snvpos)
    (hpos : ∀ hap ∈ r.ref :: r.alts.getD [], ∀ p ∈ snvpos, 1 ≤ p ∧ p ≤ hap.length)
    (hgt : ∀ s ∈ r.samples, ∀ h, some h ∈ s.gt → h ≤ (r.alts.getD []).length)
    (hcounts : ∀ s ∈ r.samples, CountsLen ((r.alts.getD []).length + 1) s)
    (hdp : ∀ s ∈ r.samples, ∀ d, s.snvdp = some d → d.length = snvpos.length)
    (hfour : ∀ hs, haplotypeSnvs r snvpos = .ok hs → ∀ k, k < snvpos.length →
      (firstAppear (column hs k)).length ≤ 4) :
    ∃ lines, block r = .ok (some lines) ∧ lines.length = snvpos.length := by
  -- step 1: get_haplotype_snvs
  have hbases : ∀ hap ∈ r.ref :: r.alts.getD [], ∃ row, basesAt hap snvpos = .ok row := by
    intro hap hhap
    unfold basesAt
    apply mapE_total
    intro p hp
    obtain ⟨h1, h2⟩ := hpos hap hhap p hp
    have hp0 : ¬ p = 0 := by omega
    have hlt : p - 1 < hap.length := by omega
    exact ⟨hap[p - 1], by simp [hp0, List.getElem?_eq_getElem hlt]⟩
  obtain ⟨hs, hhs⟩ : ∃ hs, haplotypeSnvs r snvpos = .ok hs := by
    unfold haplotypeSnvs; exact mapE_total _ hbases
  have hhslen : hs.length = (r.alts.getD []).length + 1 := by
    have h' : mapE (fun h => basesAt h snvpos) (r.ref :: r.alts.getD []) = .ok hs := hhs
    simpa using mapE_length h'
  -- the allele numbers of a site: one per haplotype, each < number of distinct bases ≤ 4
  have hsite : ∀ siteIdx ∈ snvIndices hs snvpos.length,
      siteIdx.length = hs.length ∧ ∀ a ∈ siteIdx, a < 4 := by
    intro siteIdx hmem
    simp only [snvIndices, List.mem_map, List.mem_range] at hmem
    obtain ⟨k, hk, rfl⟩ := hmem
    refine ⟨by simp [indexLoop_length, column], ?_⟩
    intro a ha
    obtain ⟨j, hj⟩ := List.getElem?_of_mem ha
    obtain ⟨_, _, h3, _⟩ := numbering_first_appearance (column hs k)
    have hjlt : j < (column hs k).length := by
      have := (List.getElem?_eq_some_iff.mp hj).1
      simpa [indexLoop_length] using this
    obtain ⟨i, hi, hfa⟩ := h3 j _ (List.getElem?_eq_getElem hjlt)
    rw [hj] at hi
    simp only [Option.some.injEq] at hi
    subst hi
    have := (List.getElem?_eq_some_iff.mp hfa).1
    have h4 := hfour hs hhs k hk
    omega
  -- step 2: get_sample_snv_GT
  obtain ⟨gts, hgts⟩ : ∃ gts, mapE (fun siteIdx => mapE (fun s => sampleSnvGT siteIdx s.gt) r.samples)
      (snvIndices hs snvpos.length) = .ok gts := by
    apply mapE_total
    intro siteIdx hmem
    apply mapE_total
    intro s hsmem
    refine ⟨_, (gt_projection siteIdx s.gt _).mpr ⟨?_, rfl⟩⟩
    intro h hh
    have := hgt s hsmem h hh
    rw [(hsite siteIdx hmem).1, hhslen]; omega
  -- step 3: get_sample_snv_ACP
  obtain ⟨counts, hcnt⟩ : ∃ counts, mapE (sampleCounts hs.length) r.samples = .ok counts := by
    apply mapE_total
    intro s hsmem
    rw [hhslen]
    exact sampleCounts_total _ s (hcounts s hsmem)
  obtain ⟨acp, hacp⟩ : ∃ acp, mapE (fun siteIdx =>
      mapE (fun sc => sampleSiteACP siteIdx sc.1.gt.length sc.2) (r.samples.zip counts))
      (snvIndices hs snvpos.length) = .ok acp := by
    apply mapE_total
    intro siteIdx hmem
    apply mapE_total
    intro sc _
    obtain ⟨s, o⟩ := sc
    cases o with
    | none => exact ⟨none, rfl⟩
    | some c =>
      simp only [sampleSiteACP]
      split
      · exact ⟨none, rfl⟩
      · exact ⟨_, rfl⟩
  -- step 4: depths
  obtain ⟨dps, hdps⟩ : ∃ dps, depths snvpos.length r.samples = .ok dps := by
    unfold depths
    apply mapE_total
    intro s hsmem
    cases hd : s.snvdp with
    | none => exact ⟨_, rfl⟩
    | some d => exact ⟨d.map some, by simp [hdp s hsmem d hd]⟩
  refine ⟨blockLines r snvpos hs gts acp dps, ?_, by simp [blockLines]⟩
  unfold block
  rw [hsp]
  simp only [hhs, hgts, hcnt, hacp, hdps]

/-- shape of every printed line: as many AC values as ALT bases, one ACP value more, one GT and one DS entry per
    sample, and (sites have at most three alternative bases) as many DS values as ALT bases -/
theorem block_line_shape (r : HapRecord) (lines : List SnvLine) (h : block r = .ok (some lines)) :
    ∀ (k : ℕ) (line : SnvLine), lines[k]? = some line →
      line.ac.length = line.alts.length ∧ line.acp.length = line.alts.length + 1 ∧
      line.pq.length = r.samples.length ∧
      (line.alts.length ≤ 3 → ∀ row ∈ line.ds, row.length = line.alts.length) := by
  obtain ⟨snvpos, hs, gts, counts, acp, dps, hsp, hhs, _, _, hacp, _, hl⟩ := block_ok_unfold r lines h
  intro k line hline
  subst hl
  have hk : k < snvpos.length := by
    have := (List.getElem?_eq_some_iff.mp hline).1
    simpa [blockLines] using this
  simp only [blockLines, List.getElem?_map, List.getElem?_range hk, Option.map_some,
    Option.some.injEq] at hline
  subst hline
  refine ⟨by simp [siteAC], by simp, by simp, ?_⟩
  intro hna row hrow
  dsimp only at hna hrow ⊢
  simp only [List.mem_map] at hrow
  obtain ⟨row0, ⟨o, ho, rfl⟩, rfl⟩ := hrow
  cases o with
  | none => simp
  | some v =>
    -- `v` is a row produced by `sampleSiteACP`: four slots
    have hidx : (snvIndices hs snvpos.length)[k]? = some (indexLoop (column hs k) []) := by
      simp [snvIndices, List.getElem?_map, List.getElem?_range hk]
    obtain ⟨ak, hak, hmap⟩ := mapE_getElem? hacp k _ hidx
    rw [List.getD_eq_getElem?_getD, hak, Option.getD_some] at ho
    obtain ⟨sc, _, hsc⟩ := mapE_mem hmap _ ho
    have hv := sampleSiteACP_length hsc v rfl
    have hw : 4 ≤ acpWidth (indexLoop (column hs k) []) := Nat.le_max_left _ _
    simp only [List.length_drop, List.length_map, List.length_take]
    omega

theorem mono_idx_zero (col : List Char) (hfa : (firstAppear col).length ≤ 1) :
    ∀ h, (indexLoop col []).getD h 0 = 0 := by
  intro h
  rw [List.getD_eq_getElem?_getD]
  cases hi : (indexLoop col [])[h]? with
  | none => rfl
  | some i =>
    obtain ⟨_, _, h3, _⟩ := numbering_first_appearance col
    have hlt : h < col.length := by
      have := (List.getElem?_eq_some_iff.mp hi).1
      simpa [indexLoop_length] using this
    obtain ⟨j, hj, hf⟩ := h3 h _ (List.getElem?_eq_getElem hlt)
    rw [hi] at hj
    simp only [Option.some.injEq] at hj
    subst hj
    have := (List.getElem?_eq_some_iff.mp hf).1
    simp only [Option.getD_some]
    omega

/-- a site at which no listed haplotype carries an alternative base (formerly the crash F9) is printed with
    ALT `.`, AC `.`, a single ACP value, DS `.` for every sample, and every called GT entry projected to 0 -/
theorem monomorphic_site_line (r : HapRecord) (lines : List SnvLine) (h : block r = .ok (some lines)) :
    ∃ snvpos hs, r.snvpos = some snvpos ∧ haplotypeSnvs r snvpos = .ok hs ∧
      ∀ (k : ℕ) (line : SnvLine), k < snvpos.length → lines[k]? = some line →
        (formatSnvAlleles hs k).2 = [] →
          line.alts = [] ∧ line.ac = [] ∧ line.acp.length = 1 ∧ (∀ row ∈ line.ds, row = []) ∧
          ∀ g ∈ line.gts, ∀ a ∈ g, a = none ∨ a = some 0 := by
  obtain ⟨snvpos, hs, hsp, hhs, hac⟩ := block_alleles_ac r lines h
  obtain ⟨snvpos', hs', hsp', hhs', hgts⟩ := block_gts r lines h
  rw [hsp] at hsp'; cases hsp'
  rw [hhs] at hhs'; cases hhs'
  refine ⟨snvpos, hs, hsp, hhs, ?_⟩
  intro k line hk hline hmono
  obtain ⟨_, halts, hacv⟩ := hac k line hk hline
  obtain ⟨h1, h2, _, h4⟩ := block_line_shape r lines h k line hline
  have ha0 : line.alts = [] := by rw [halts, hmono]
  have hlen0 : line.alts.length = 0 := by simp [ha0]
  refine ⟨ha0, ?_, by omega, ?_, ?_⟩
  · exact List.eq_nil_of_length_eq_zero (by omega)
  · intro row hrow
    exact List.eq_nil_of_length_eq_zero (by rw [h4 (by omega) row hrow]; exact hlen0)
  · have hfa : (firstAppear (column hs k)).length ≤ 1 := by
      have : (firstAppear (column hs k)).tail = [] := hmono
      have hl := congrArg List.length this
      simp only [List.length_tail, List.length_nil] at hl
      omega
    rw [hgts k line hk hline]
    intro g hg a ha
    simp only [List.mem_map] at hg
    obtain ⟨s, _, rfl⟩ := hg
    simp only [List.mem_map] at ha
    obtain ⟨a0, _, rfl⟩ := ha
    cases a0 with
    | none => exact Or.inl rfl
    | some x =>
      refine Or.inr ?_
      simp only [Option.map_some]
      rw [mono_idx_zero _ hfa x]

/-- a record without ALT (formerly the crash F8): the reference is the only listed haplotype, so every site of
    SNVPOS is of that kind -/
theorem no_alt_all_monomorphic (r : HapRecord) (snvpos : List ℕ) (hs : List (List Char))
    (ha : r.alts = none) (hhs : haplotypeSnvs r snvpos = .ok hs) :
    ∀ k, (formatSnvAlleles hs k).2 = [] := by
  intro k
  unfold haplotypeSnvs at hhs
  rw [ha] at hhs
  simp only [Option.getD_none] at hhs
  obtain ⟨row, bt, _, hbt, rfl⟩ := mapE_ok_cons hhs
  simp only [mapE, Except.ok.injEq] at hbt
  subst hbt
  simp [formatSnvAlleles, column, firstAppear, firstAppearFrom]

end MCHap.C20
