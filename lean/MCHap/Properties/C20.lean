import MCHap.Proofs.VcfAtomize
import Mathlib.Tactic

/-!
# C20 — atomize emits the per-SNV projection of every haplotype record

Theorems over `MCHap/Model/Atomize.lean`.  `block r` is the model of `format_vcf_snv_block`: `.ok none` for a
record without SNVs, `.ok (some lines)` with one line per SNVPOS entry, or the exception that aborts the program.

* `pos_spec`, `block_gts`, `gt_projection`: line `k` sits at `POS + SNVPOS[k] − 1`, carries `PS = POS`, and its
  sample GTs are the haplotype GTs projected through the site's allele numbers (`.` stays `.`);
* `numbering_first_appearance`, `alleles_first_appearance`: site alleles are numbered by first appearance among
  REF, ALT1, ALT2, …, so REF's base is allele 0, and the printed REF/ALT bases are exactly the numbered ones;
* `marginal_spec`, `ac_marginal`, `acp_marginal`, `acp_sums_to_ploidy`: AC / ACP / DS are the haplotype-level
  counts marginalised to the site;
* totality: `block_no_snv`; `block_total_partial` carries the exact excluded shapes as hypotheses
  (ALT present — F8; every site has an alternative base — F9; posterior counts without missing entries);
  `no_alt_crash`, `monomorphic_crash` prove that the excluded shapes do abort the program (the code as it is).
-/
namespace MCHap.C20
open MCHap MCHap.Atomize

/-! ## unfolding `block` -/

/-- every successful run of `block` on a record with SNVs went through all five fallible steps -/
theorem block_ok_unfold (r : HapRecord) (lines : List SnvLine) (h : block r = .ok (some lines)) :
    ∃ snvpos hs gts counts acp dps,
      r.snvpos = some snvpos ∧ haplotypeSnvs r snvpos = .ok hs ∧
      mapE (fun siteIdx => mapE (fun s => sampleSnvGT siteIdx s.gt) r.samples)
        (snvIndices hs snvpos.length) = .ok gts ∧
      mapE (sampleCounts hs.length) r.samples = .ok counts ∧
      mapE (fun siteIdx => mapE (fun sc => sampleSiteACP siteIdx sc.1.gt.length sc.2) (r.samples.zip counts))
        (snvIndices hs snvpos.length) = .ok acp ∧
      (List.range snvpos.length).any (fun k => (formatSnvAlleles hs k).2.length == 0) = false ∧
      depths snvpos.length r.samples = .ok dps ∧
      lines = blockLines r snvpos hs gts acp dps := by
  unfold block at h
  split at h
  · simp at h
  · rename_i snvpos hsp
    split at h
    · simp at h
    · rename_i hs hhs
      simp only at h
      split at h
      · simp at h
      · rename_i gts hgts
        split at h
        · simp at h
        · rename_i counts hcounts
          split at h
          · simp at h
          · rename_i acp hacp
            split at h
            · simp at h
            · rename_i hmono
              split at h
              · simp at h
              · rename_i dps hdps
                refine ⟨snvpos, hs, gts, counts, acp, dps, hsp, hhs, hgts, hcounts, hacp, ?_, hdps, ?_⟩
                · simpa using hmono
                · simp only [Except.ok.injEq, Option.some.injEq] at h
                  exact h.symm

/-! ## POS, PS, GT -/

/-- one line per SNVPOS entry, at `POS + SNVPOS − 1`, with `PS` = the haplotype record's POS -/
theorem pos_spec (r : HapRecord) (lines : List SnvLine) (h : block r = .ok (some lines)) :
    ∃ snvpos, r.snvpos = some snvpos ∧ lines.length = snvpos.length ∧
      ∀ (k p : ℕ), snvpos[k]? = some p →
        ∃ line : SnvLine, lines[k]? = some line ∧ line.pos = r.pos + p - 1 ∧ line.ps = r.pos := by
  obtain ⟨snvpos, hs, gts, counts, acp, dps, hsp, _, _, _, _, _, _, hl⟩ := block_ok_unfold r lines h
  refine ⟨snvpos, hsp, by simp [hl, blockLines], ?_⟩
  intro k p hk
  have hlt : k < snvpos.length := (List.getElem?_eq_some_iff.mp hk).1
  subst hl
  simp only [blockLines, List.getElem?_map, List.getElem?_range hlt, Option.map_some]
  refine ⟨_, rfl, ?_, rfl⟩
  simp [List.getD_eq_getElem?_getD, hk]

/-- `get_sample_snv_GT` on one sample and site is the projection of the haplotype GT through the site's
    allele numbers; it raises exactly when the GT names an unlisted haplotype -/
theorem gt_projection (siteIdx : List ℕ) : ∀ (gt : List (Option ℕ)) (g : List (Option ℕ)),
    sampleSnvGT siteIdx gt = .ok g ↔
      (∀ h, some h ∈ gt → h < siteIdx.length) ∧
      g = gt.map (Option.map (fun h => siteIdx.getD h 0))
  | [], g => by
    simp only [sampleSnvGT, mapE]
    constructor
    · intro h; simp at h; simp [h]
    · intro h; simp [h.2]
  | a :: t, g => by
    have ih := gt_projection siteIdx t
    unfold sampleSnvGT at ih ⊢
    constructor
    · intro h
      obtain ⟨b, bt, hb, ht, rfl⟩ := mapE_ok_cons h
      obtain ⟨h1, h2⟩ := (ih bt).mp ht
      cases a with
      | none =>
        simp only [Except.ok.injEq] at hb
        subst hb
        exact ⟨fun x hx => h1 x (by simpa using hx), by simp [h2]⟩
      | some x =>
        simp only at hb
        split at hb
        · rename_i y hy
          simp only [Except.ok.injEq] at hb
          subst hb
          have hlt : x < siteIdx.length := (List.getElem?_eq_some_iff.mp hy).1
          refine ⟨?_, ?_⟩
          · intro z hz
            rcases List.mem_cons.mp hz with hz | hz
            · simp at hz; subst hz; exact hlt
            · exact h1 z hz
          · simp [h2, List.getD_eq_getElem?_getD, hy]
        · simp at hb
    · rintro ⟨h1, rfl⟩
      have ht := (ih _).mpr ⟨fun x hx => h1 x (by simp [hx]), rfl⟩
      cases a with
      | none => simp [mapE, ht]
      | some x =>
        have hlt : x < siteIdx.length := h1 x (by simp)
        simp [mapE, ht, List.getElem?_eq_getElem hlt, List.getD_eq_getElem?_getD]

/-- … and the block prints exactly that for every site and sample -/
theorem block_gts (r : HapRecord) (lines : List SnvLine) (h : block r = .ok (some lines)) :
    ∃ snvpos hs, r.snvpos = some snvpos ∧ haplotypeSnvs r snvpos = .ok hs ∧
      ∀ k line, k < snvpos.length → lines[k]? = some line →
        line.gts = r.samples.map (fun s =>
          s.gt.map (Option.map (fun h => (indexLoop (column hs k) []).getD h 0))) := by
  obtain ⟨snvpos, hs, gts, counts, acp, dps, hsp, hhs, hgts, _, _, _, _, hl⟩ := block_ok_unfold r lines h
  refine ⟨snvpos, hs, hsp, hhs, ?_⟩
  intro k line hk hline
  subst hl
  simp only [blockLines, List.getElem?_map, List.getElem?_range hk, Option.map_some,
    Option.some.injEq] at hline
  subst hline
  simp only
  -- the k-th entry of `gts` is the per-sample traversal at site k
  have hidx : (snvIndices hs snvpos.length)[k]? = some (indexLoop (column hs k) []) := by
    simp [snvIndices, List.getElem?_map, List.getElem?_range hk]
  obtain ⟨gk, hgk, hmap⟩ := mapE_getElem? hgts k _ hidx
  rw [List.getD_eq_getElem?_getD, hgk, Option.getD_some]
  -- each sample's entry
  apply List.ext_getElem?
  intro i
  rw [List.getElem?_map]
  cases hs_i : r.samples[i]? with
  | none =>
    have : gk.length = r.samples.length := mapE_length hmap
    have hlen : r.samples.length ≤ i := by
      by_contra hcon
      push Not at hcon
      simp [List.getElem?_eq_getElem hcon] at hs_i
    simp [List.getElem?_eq_none (by omega : gk.length ≤ i)]
  | some s =>
    obtain ⟨g, hg, hgs⟩ := mapE_getElem? hmap i s hs_i
    rw [hg]
    simp [((gt_projection _ _ _).mp hgs).2]

/-! ## numbering -/

/-- `get_haplotype_snv_indices` numbers the bases of a site by first appearance among REF, ALT1, ALT2, …:
    (1) one number per haplotype; (2) the numbered bases are pairwise distinct; (3) number ↦ base is what
    `format_snv_alleles` prints; (4) a number is used only after all smaller ones — so REF's base is 0 and a
    base first seen earlier has the smaller number; (5) two haplotypes share a number iff they share the base -/
theorem numbering_first_appearance (col : List Char) :
    (indexLoop col []).length = col.length ∧
    (firstAppear col).Nodup ∧
    (∀ (h : ℕ) (c : Char), col[h]? = some c →
      ∃ i, (indexLoop col [])[h]? = some i ∧ (firstAppear col)[i]? = some c) ∧
    (∀ (h i a : ℕ), (indexLoop col [])[h]? = some i → a < i →
      ∃ h', h' < h ∧ (indexLoop col [])[h']? = some a) ∧
    (∀ (h₁ h₂ i₁ i₂ : ℕ) (c₁ c₂ : Char), col[h₁]? = some c₁ → col[h₂]? = some c₂ →
      (indexLoop col [])[h₁]? = some i₁ → (indexLoop col [])[h₂]? = some i₂ → (i₁ = i₂ ↔ c₁ = c₂)) := by
  obtain ⟨h1, _, h3, h4⟩ := indexLoop_spec col [] (by simp)
  refine ⟨indexLoop_length col [], h1, h3, ?_, ?_⟩
  · intro h i a hi ha
    rcases h4 h i a hi ha with hl | hr
    · simp at hl
    · exact hr
  · intro h₁ h₂ i₁ i₂ c₁ c₂ hc₁ hc₂ hi₁ hi₂
    obtain ⟨j₁, hj₁, hf₁⟩ := h3 h₁ c₁ hc₁
    obtain ⟨j₂, hj₂, hf₂⟩ := h3 h₂ c₂ hc₂
    rw [hi₁] at hj₁; rw [hi₂] at hj₂
    simp only [Option.some.injEq] at hj₁ hj₂
    subst hj₁ hj₂
    constructor
    · intro e; subst e; rw [hf₁] at hf₂; simpa using hf₂
    · intro e; subst e
      have hn : (firstAppear col).Nodup := h1
      obtain ⟨l₁, e₁⟩ := List.getElem?_eq_some_iff.mp hf₁
      obtain ⟨l₂, e₂⟩ := List.getElem?_eq_some_iff.mp hf₂
      exact (List.Nodup.getElem_inj_iff hn).mp (e₁.trans e₂.symm)

/-- the REF base printed for a site is the reference haplotype's base there (allele 0), and the ALT bases are
    the remaining numbered bases in order -/
theorem alleles_first_appearance (refRow : List Char) (rest : List (List Char)) (k : ℕ) :
    (formatSnvAlleles (refRow :: rest) k).1 = refRow.getD k ' ' ∧
    firstAppear (column (refRow :: rest) k) =
      (formatSnvAlleles (refRow :: rest) k).1 :: (formatSnvAlleles (refRow :: rest) k).2 := by
  have hcol : column (refRow :: rest) k = refRow.getD k ' ' :: column rest k := by simp [column]
  have hh := firstAppear_head (refRow.getD k ' ') (column rest k)
  rw [← hcol] at hh
  unfold formatSnvAlleles
  cases hfa : firstAppear (column (refRow :: rest) k) with
  | nil => rw [hfa] at hh; simp at hh
  | cons x t =>
    rw [hfa] at hh
    simp only [List.head?_cons, Option.some.injEq] at hh
    simp [hh]

/-! ## marginal counts -/

/-- `marginal idx count a = Σ_{h : site(h) = a} count(h)` -/
theorem marginal_spec {α : Type} [AddCommMonoid α] (siteIdx : List ℕ) (counts : List α) (a : ℕ) :
    marginal siteIdx counts a =
      ((siteIdx.zip counts).map (fun hc => if hc.1 = a then hc.2 else 0)).sum :=
  marginal_eq_sum siteIdx counts a

/-- INFO/AC of a site: entry `i` is the marginal count of allele `i + 1`, and over all alleles of the site
    (REF included) the marginal counts add up to the number of called haplotype copies -/
theorem ac_marginal (siteIdx : List ℕ) (hapCounts : List ℕ) (nAlts : ℕ)
    (hlen : siteIdx.length = hapCounts.length) (hidx : ∀ x ∈ siteIdx, x ≤ nAlts) :
    siteAC siteIdx hapCounts nAlts = (List.range nAlts).map (fun i => marginal siteIdx hapCounts (i + 1)) ∧
    ((List.range (nAlts + 1)).map (fun a => marginal siteIdx hapCounts a)).sum = hapCounts.sum := by
  refine ⟨rfl, ?_⟩
  rw [sum_marginal siteIdx hapCounts (nAlts + 1)]
  · congr 1
    exact List.map_snd_zip (le_of_eq hlen.symm)
  · intro hc hmem
    exact Nat.lt_succ_of_le (hidx hc.1 (List.of_mem_zip hmem).1)

/-- FORMAT/ACP-derived values of one sample and site: the per-haplotype posterior counts marginalised to the
    site's alleles, rescaled so that they add up to the ploidy (identity when they already do) -/
theorem acp_marginal (siteIdx : List ℕ) (ploidy : ℕ) (c : List ℚ) (v : List ℚ)
    (h : sampleSiteACP siteIdx ploidy (some c) = .ok (some v)) :
    let D := ((List.range 4).map (fun a => marginal siteIdx c a)).sum
    D ≠ 0 ∧ v = (List.range 4).map (fun a => marginal siteIdx c a / D * ploidy) ∧
    (D = ploidy → v = (List.range 4).map (fun a => marginal siteIdx c a)) := by
  unfold sampleSiteACP at h
  simp only at h
  split at h
  · simp at h
  · split at h
    · simp at h
    · rename_i hD
      simp only [Except.ok.injEq, Option.some.injEq] at h
      have hsum : List.foldr (· + ·) 0 ((List.range 4).map (fun a => marginal siteIdx c a)) =
          ((List.range 4).map (fun a => marginal siteIdx c a)).sum := List.sum_eq_foldr.symm
      rw [hsum] at hD h
      refine ⟨hD, ?_, ?_⟩
      · rw [← h, List.map_map]; rfl
      · intro hp
        rw [← h, List.map_map]
        apply List.map_congr_left
        intro a _
        simp only [Function.comp]
        rw [← hp]
        field_simp

/-- non-vacuity: tetraploid sample, three listed haplotypes with bases C, G, C at the site -/
example : sampleSiteACP [0, 1, 0] 4 (some [(3/2 : ℚ), 3/2, 1]) = .ok (some [5/2, 3/2, 0, 0]) := by
  simp [sampleSiteACP, marginal, List.range, List.range.loop]
  norm_num

/-- … they add up to the sample's ploidy -/
theorem acp_sums_to_ploidy (siteIdx : List ℕ) (ploidy : ℕ) (c : List ℚ) (v : List ℚ)
    (h : sampleSiteACP siteIdx ploidy (some c) = .ok (some v)) : v.sum = ploidy := by
  obtain ⟨hD, hv, _⟩ := acp_marginal siteIdx ploidy c v h
  rw [hv]
  have : ((List.range 4).map (fun a => marginal siteIdx c a /
        ((List.range 4).map (fun a => marginal siteIdx c a)).sum * (ploidy : ℚ))) =
      ((List.range 4).map (fun a => marginal siteIdx c a *
        ((ploidy : ℚ) / ((List.range 4).map (fun a => marginal siteIdx c a)).sum))) := by
    apply List.map_congr_left
    intro a _
    ring
  rw [this, List.sum_map_mul_right]
  field_simp

/-! ## totality -/

/-- a record without SNVs (`SNVPOS=.`) is skipped -/
theorem block_no_snv (r : HapRecord) (h : r.snvpos = none) : block r = .ok none := by
  unfold block; rw [h]

/-- candidate defect F8, as the code is: a record with SNVs and no ALT aborts the program with `TypeError` -/
theorem no_alt_crash (r : HapRecord) (snvpos : List ℕ) (hs : r.snvpos = some snvpos) (ha : r.alts = none) :
    block r = .error .typeError := by
  unfold block; rw [hs]; simp [haplotypeSnvs, ha]

/-- candidate defect F9, as the code is: a record with a site at which no listed haplotype carries an
    alternative base is never answered with lines — the program aborts -/
theorem monomorphic_crash (r : HapRecord) (snvpos : List ℕ) (hs : List (List Char))
    (hsp : r.snvpos = some snvpos) (hhs : haplotypeSnvs r snvpos = .ok hs)
    (hmono : ∃ k, k < snvpos.length ∧ (formatSnvAlleles hs k).2 = []) :
    ∃ e, block r = .error e := by
  cases hb : block r with
  | error e => exact ⟨e, rfl⟩
  | ok o =>
    cases o with
    | none => unfold block at hb; rw [hsp] at hb; simp only [hhs] at hb; split at hb <;> (try split at hb) <;>
                (try split at hb) <;> (try split at hb) <;> (try split at hb) <;> simp at hb
    | some lines =>
      obtain ⟨sp', hs', _, _, _, _, hsp', hhs', _, _, _, hm, _, _⟩ := block_ok_unfold r lines hb
      rw [hsp] at hsp'; cases hsp'
      rw [hhs] at hhs'; cases hhs'
      obtain ⟨k, hk, he⟩ := hmono
      have : (List.range snvpos.length).any (fun k => (formatSnvAlleles hs k).2.length == 0) = true := by
        rw [List.any_eq_true]
        exact ⟨k, List.mem_range.mpr hk, by simp [he]⟩
      rw [this] at hm; cases hm

/-- the outcome of a run as a comparable value: 1/2/3 = TypeError/IndexError/ValueError, 10 = skipped,
    100 + n = n lines -/
def outcome (x : Except Err (Option (List SnvLine))) : ℕ :=
  match x with
  | .error .typeError => 1
  | .error .indexError => 2
  | .error .valueError => 3
  | .ok none => 10
  | .ok (some l) => 100 + l.length

/-- minimal records (1 sample, diploid): no ALT with one SNV; one ALT with a site it does not touch -/
def recNoAlt : HapRecord :=
  { pos := 10, id := some "x", ref := "ACGT".toList, alts := none, snvpos := some [2],
    samples := [{ gt := [some 0, some 0], sq := some 9, acp := none, afp := none, snvdp := none }] }

def recMono : HapRecord :=
  { pos := 10, id := some "x", ref := "ACGT".toList, alts := some ["AGGT".toList], snvpos := some [2, 4],
    samples := [{ gt := [some 0, some 1], sq := some 9, acp := none, afp := none, snvdp := none }] }

def recGood : HapRecord :=
  { pos := 10, id := some "x", ref := "ACGT".toList, alts := some ["AGGT".toList, "ACGA".toList],
    snvpos := some [2, 4],
    samples := [{ gt := [some 0, some 1, some 2, none], sq := some 9, acp := none,
                  afp := none, snvdp := none }] }

/-- the `TypeError` of F8 and the `IndexError` of F9 -/
example : outcome (block recNoAlt) = 1 := by decide
example : outcome (block recMono) = 2 := by decide

/-- well-formedness of the posterior counts a sample carries: no missing entry, at most one per listed haplotype -/
def CountsOK (nHap : ℕ) (s : Sample) : Prop :=
  (∀ c, s.acp = some c → c.length ≤ nHap ∧ ∀ x ∈ c, x ≠ none) ∧
  (s.acp = none → ∀ f, s.afp = some f → f.length ≤ nHap ∧ ∀ x ∈ f, x ≠ none)

theorem sampleCounts_total (nHap : ℕ) (s : Sample) (h : CountsOK nHap s) :
    ∃ o, sampleCounts nHap s = .ok o := by
  unfold sampleCounts
  have hany : ∀ c : List (Option ℚ), (∀ x ∈ c, x ≠ none) → c.any Option.isNone = false := by
    intro c hc
    rw [Bool.eq_false_iff]
    intro hcon
    rw [List.any_eq_true] at hcon
    obtain ⟨x, hx, hn⟩ := hcon
    cases x with
    | none => exact hc none hx rfl
    | some _ => simp at hn
  cases hacp : s.acp with
  | some c =>
    obtain ⟨hl, hn⟩ := h.1 c hacp
    have : ¬ c.length > nHap := by omega
    simp [hany c hn, this]
  | none =>
    cases hafp : s.afp with
    | none => simp
    | some f =>
      obtain ⟨hl, hn⟩ := h.2 hacp f hafp
      have : ¬ f.length > nHap := by omega
      simp [hany f hn, this]

/-- **Totality, partial on the current tree.**  A record with SNVs is answered with one line per SNVPOS entry
    provided that: ALT is present (excludes F8), every SNVPOS entry lies inside every listed haplotype, every GT
    allele is a listed haplotype, posterior counts have no missing entry (excludes the AF0 records), a site has at
    most four distinct bases, **every site has an alternative base among the listed haplotypes** (excludes F9),
    and FORMAT/SNVDP has one value per SNV. -/
theorem block_total_partial (r : HapRecord) (snvpos : List ℕ) (alts : List (List Char))
    (hsp : r.snvpos = some snvpos) (halts : r.alts = some alts)
    (hpos : ∀ hap ∈ r.ref :: alts, ∀ p ∈ snvpos, 1 ≤ p ∧ p ≤ hap.length)
    (hgt : ∀ s ∈ r.samples, ∀ h, some h ∈ s.gt → h ≤ alts.length)
    (hcounts : ∀ s ∈ r.samples, CountsOK (alts.length + 1) s)
    (hdp : ∀ s ∈ r.samples, ∀ d, s.snvdp = some d → d.length = snvpos.length)
    (hfour : ∀ hs, haplotypeSnvs r snvpos = .ok hs → ∀ k, k < snvpos.length →
      (firstAppear (column hs k)).length ≤ 4)
    (hpoly : ∀ hs, haplotypeSnvs r snvpos = .ok hs → ∀ k, k < snvpos.length →
      (formatSnvAlleles hs k).2 ≠ []) :
    ∃ lines, block r = .ok (some lines) ∧ lines.length = snvpos.length := by
  -- step 1: get_haplotype_snvs
  have hbases : ∀ hap ∈ r.ref :: alts, ∃ row, basesAt hap snvpos = .ok row := by
    intro hap hhap
    unfold basesAt
    apply mapE_total
    intro p hp
    obtain ⟨h1, h2⟩ := hpos hap hhap p hp
    have hp0 : ¬ p = 0 := by omega
    have hlt : p - 1 < hap.length := by omega
    exact ⟨hap[p - 1], by simp [hp0, List.getElem?_eq_getElem hlt]⟩
  obtain ⟨hs, hhs⟩ : ∃ hs, haplotypeSnvs r snvpos = .ok hs := by
    unfold haplotypeSnvs; rw [halts]; exact mapE_total _ hbases
  have hhslen : hs.length = alts.length + 1 := by
    have h' : mapE (fun h => basesAt h snvpos) (r.ref :: alts) = .ok hs := by
      have := hhs
      unfold haplotypeSnvs at this
      rw [halts] at this
      exact this
    simpa using mapE_length h'
  -- the allele numbers of a site: one per haplotype, each < number of distinct bases ≤ 4
  have hsite : ∀ siteIdx ∈ snvIndices hs snvpos.length,
      siteIdx.length = hs.length ∧ ∀ a ∈ siteIdx, a < 4 := by
    intro siteIdx hmem
    simp only [snvIndices, List.mem_map, List.mem_range] at hmem
    obtain ⟨k, hk, rfl⟩ := hmem
    refine ⟨by simp [indexLoop_length, column], ?_⟩
    intro a ha
    obtain ⟨j, hj⟩ := List.getElem?_of_mem ha
    obtain ⟨_, _, h3, _⟩ := numbering_first_appearance (column hs k)
    have hjlt : j < (column hs k).length := by
      have := (List.getElem?_eq_some_iff.mp hj).1
      simpa [indexLoop_length] using this
    obtain ⟨i, hi, hfa⟩ := h3 j _ (List.getElem?_eq_getElem hjlt)
    rw [hj] at hi
    simp only [Option.some.injEq] at hi
    subst hi
    have := (List.getElem?_eq_some_iff.mp hfa).1
    have h4 := hfour hs hhs k hk
    omega
  -- step 2: get_sample_snv_GT
  obtain ⟨gts, hgts⟩ : ∃ gts, mapE (fun siteIdx => mapE (fun s => sampleSnvGT siteIdx s.gt) r.samples)
      (snvIndices hs snvpos.length) = .ok gts := by
    apply mapE_total
    intro siteIdx hmem
    apply mapE_total
    intro s hsmem
    refine ⟨_, (gt_projection siteIdx s.gt _).mpr ⟨?_, rfl⟩⟩
    intro h hh
    have := hgt s hsmem h hh
    rw [(hsite siteIdx hmem).1, hhslen]; omega
  -- step 3: get_sample_snv_ACP
  obtain ⟨counts, hcnt⟩ : ∃ counts, mapE (sampleCounts hs.length) r.samples = .ok counts := by
    apply mapE_total
    intro s hsmem
    rw [hhslen]
    exact sampleCounts_total _ s (hcounts s hsmem)
  obtain ⟨acp, hacp⟩ : ∃ acp, mapE (fun siteIdx =>
      mapE (fun sc => sampleSiteACP siteIdx sc.1.gt.length sc.2) (r.samples.zip counts))
      (snvIndices hs snvpos.length) = .ok acp := by
    apply mapE_total
    intro siteIdx hmem
    apply mapE_total
    intro sc _
    obtain ⟨s, o⟩ := sc
    cases o with
    | none => exact ⟨none, rfl⟩
    | some c =>
      have hno : (siteIdx.take c.length).any (fun a => decide (4 ≤ a)) = false := by
        rw [Bool.eq_false_iff]
        intro hcon
        rw [List.any_eq_true] at hcon
        obtain ⟨a, ha, h4⟩ := hcon
        have := (hsite siteIdx hmem).2 a (List.mem_of_mem_take ha)
        simp at h4; omega
      simp only [sampleSiteACP, hno, Bool.false_eq_true, if_false]
      split
      · exact ⟨none, rfl⟩
      · exact ⟨_, rfl⟩
  -- step 4: no site without alternative base
  have hmono : (List.range snvpos.length).any (fun k => (formatSnvAlleles hs k).2.length == 0) = false := by
    rw [Bool.eq_false_iff]
    intro hcon
    rw [List.any_eq_true] at hcon
    obtain ⟨k, hk, he⟩ := hcon
    have := hpoly hs hhs k (List.mem_range.mp hk)
    simp at he; exact this he
  -- step 5: depths
  obtain ⟨dps, hdps⟩ : ∃ dps, depths snvpos.length r.samples = .ok dps := by
    unfold depths
    apply mapE_total
    intro s hsmem
    cases hd : s.snvdp with
    | none => exact ⟨_, rfl⟩
    | some d => exact ⟨d.map some, by simp [hdp s hsmem d hd]⟩
  refine ⟨blockLines r snvpos hs gts acp dps, ?_, by simp [blockLines]⟩
  unfold block
  rw [hsp]
  simp only [hhs, hgts, hcnt, hacp, hmono, hdps]
  rfl

/-- non-vacuity: a record satisfying every hypothesis of `block_total_partial` is answered with two lines -/
example : outcome (block recGood) = 102 := by decide

end MCHap.C20
