import MCHap.Proofs.GenotypeIndex

/-!
# C11 — Genotype ↔ G-field index mapping is the VCF order and a bijection

Property theorems over the model of `mchap/jitutils.py` in `MCHap/Model/Comb.lean`.
`Asc g` = ascending (sorted) allele list, the form in which the code stores called genotypes.
-/
namespace MCHap.C11
open MCHap

abbrev Asc (g : List ℕ) : Prop := g.Pairwise (· ≤ ·)

/-- binomial coefficients are exact (the gcd-reduced loop, with the table fast path being the same
    function by construction) -/
theorem comb_exact (n k : ℕ) : comb n k = Nat.choose n k := comb_eq_choose n k

/-- … and the int64 code computes the same number whenever the result is below 2^53:
    no intermediate of the loop reaches 2^63. -/
theorem comb_no_overflow (n k : ℕ) (h : Nat.choose n k < 2 ^ 53) :
    combChecked n k = some (Nat.choose n k) := combChecked_exact n k h

/-- multiset coefficients are exact (the code's `(0,0) ↦ 0` convention is the only deviation) -/
theorem cwr_exact (n k : ℕ) (h : ¬ (n = 0 ∧ k = 0)) : cwr n k = Nat.multichoose n k :=
  cwr_eq_multichoose n k h

theorem cwr_no_overflow (n k : ℕ) (h0 : ¬ (n = 0 ∧ k = 0)) (h : Nat.multichoose n k < 2 ^ 53) :
    cwrChecked n k = some (Nat.multichoose n k) := by
  unfold cwrChecked
  simp only [h0, if_false]
  rw [Nat.multichoose_eq] at h ⊢
  exact combChecked_exact _ _ h

/-- number of genotypes: `N = C(n + p − 1, p)` -/
theorem genotype_count (n p : ℕ) (hp : 1 ≤ p) : cwr n p = Nat.choose (n + p - 1) p := by
  rw [cwr_eq_cw n p hp]; rfl

/-- the index of an ascending genotype with alleles `< n` lies in `0 .. N-1` -/
theorem index_lt (n : ℕ) (g : List ℕ) (hg : ∀ x ∈ g, x < n) (hp : 1 ≤ g.length) :
    genotypeIndex g < cwr n g.length := by
  unfold genotypeIndex
  rw [genotypeIndexFrom_eq, cwr_eq_cw _ _ hp]
  cases n with
  | zero =>
    cases g with
    | nil => simp at hp
    | cons a _ => exact absurd (hg a (by simp)) (by omega)
  | succ n => exact gIndex_lt_of_le n g (fun x hx => Nat.le_of_lt_succ (hg x hx))

/-- the index map is injective on ascending genotypes of one ploidy -/
theorem index_injective (a b : List ℕ) (hl : a.length = b.length) (ha : Asc a) (hb : Asc b)
    (h : genotypeIndex a = genotypeIndex b) : a = b := by
  unfold genotypeIndex at h
  rw [genotypeIndexFrom_eq, genotypeIndexFrom_eq] at h
  exact gIndex_inj a b hl ha hb h

/-- the index map is *the VCF order*: the genotype listed at position `i` of the VCF
    specification's ordering (written independently as `vcfOrder`) has index `i` -/
theorem index_is_vcf_order (p a i : ℕ) (h : i < (vcfOrder p a).length) :
    genotypeIndex ((vcfOrder p a)[i]) = i := by
  unfold genotypeIndex; rw [genotypeIndexFrom_eq]; exact vcfOrder_index p a i h

theorem vcf_order_length (p n : ℕ) (hp : 1 ≤ p) : (vcfOrder p n).length = cwr (n + 1) p := by
  rw [vcfOrder_length, cwr_eq_cw _ _ hp]

/-- surjectivity onto `0 .. N-1` -/
theorem index_surjective (n p i : ℕ) (hp : 1 ≤ p) (hi : i < cwr (n + 1) p) :
    ∃ g : List ℕ, g.length = p ∧ Asc g ∧ (∀ x ∈ g, x < n + 1) ∧ genotypeIndex g = i := by
  rw [← vcf_order_length p n hp] at hi
  obtain ⟨h1, h2, h3⟩ := vcfOrder_mem p n _ (List.getElem_mem hi)
  exact ⟨_, h1, h2, fun x hx => Nat.lt_succ_of_le (h3 x hx), index_is_vcf_order p n i hi⟩

/-- decoding is a right inverse of encoding and returns an ascending genotype over the alleles -/
theorem decode_spec (n p i : ℕ) (hi : i < cwr (n + 1) p) (hp : 1 ≤ p) :
    (indexGenotype i p).length = p ∧ Asc (indexGenotype i p) ∧
    (∀ x ∈ indexGenotype i p, x < n + 1) ∧ genotypeIndex (indexGenotype i p) = i := by
  rw [cwr_eq_cw _ _ hp] at hi
  obtain ⟨g, hg, hl, hs, hb, hidx⟩ := indexGenotypeAux_spec p i n [] hi
  unfold indexGenotype genotypeIndex
  rw [hg, List.append_nil, genotypeIndexFrom_eq]
  exact ⟨hl, hs, fun x hx => Nat.lt_succ_of_le (hb x hx), hidx⟩

/-- … and a left inverse: decode (encode g) = g -/
theorem decode_encode (n : ℕ) (g : List ℕ) (hs : Asc g) (hg : ∀ x ∈ g, x < n + 1)
    (hp : 1 ≤ g.length) : indexGenotype (genotypeIndex g) g.length = g := by
  have hlt := index_lt (n + 1) g hg hp
  obtain ⟨h1, h2, _, h4⟩ := decode_spec n g.length (genotypeIndex g) hlt hp
  exact index_injective _ _ h1 h2 hs h4

/-- the enumerator step: on a non-empty ascending genotype it succeeds, keeps the ploidy, stays
    ascending and advances the VCF index by exactly one -/
theorem increment_spec (g : List ℕ) (hne : g ≠ []) (hs : Asc g) :
    ∃ g', incrementGenotype g = some g' ∧ g'.length = g.length ∧ Asc g' ∧
      genotypeIndex g' = genotypeIndex g + 1 := by
  obtain ⟨v, m, rest, he, hr, hgt⟩ := ascending_run g hne hs
  refine ⟨List.replicate m 0 ++ (v + 1) :: rest, ?_, ?_, ?_, ?_⟩
  · rw [he]; exact incrementGenotype_run v m rest hr
  · rw [he]; simp; omega
  · show List.Pairwise (· ≤ ·) _
    rw [List.pairwise_append]
    refine ⟨List.pairwise_replicate.mpr (Or.inr (le_refl _)), ?_, ?_⟩
    · rw [List.pairwise_cons]
      refine ⟨fun x hx => hgt x hx, ?_⟩
      rw [he] at hs
      exact (List.pairwise_append.mp hs).2.1
    · intro x hx y _
      rw [List.eq_of_mem_replicate hx]; omega
  · unfold genotypeIndex
    rw [genotypeIndexFrom_eq, genotypeIndexFrom_eq, he]
    exact increment_index_core v m rest

/-- walking all genotypes with the enumerator lists them in exactly the VCF order -/
theorem enumeration_is_vcf_order (n p : ℕ) (hp : 1 ≤ p) :
    enumGenotypes (n + 1) p = vcfOrder p n := by
  -- the k-th iterate from a genotype of index j (ascending, length p) is the sub-list j..j+k
  have key : ∀ (k j : ℕ) (g : List ℕ), g.length = p → Asc g → genotypeIndex g = j →
      j + k ≤ (vcfOrder p n).length → iterInc k g = ((vcfOrder p n).drop j).take k := by
    intro k
    induction k with
    | zero => intro j g _ _ _ _; simp [iterInc]
    | succ k ih =>
      intro j g hl hs hj hle
      have hjlt : j < (vcfOrder p n).length := by omega
      obtain ⟨h1, h2, _⟩ := vcfOrder_mem p n _ (List.getElem_mem hjlt)
      have hg : g = (vcfOrder p n)[j] :=
        index_injective _ _ (by rw [hl, h1]) hs h2 (by rw [hj, index_is_vcf_order p n j hjlt])
      obtain ⟨g', hg', hl', hs', hi'⟩ := increment_spec g (by
        intro h; rw [h] at hl; simp at hl; omega) hs
      unfold iterInc
      rw [hg']
      simp only
      rw [List.drop_eq_getElem_cons hjlt, List.take_succ_cons, ← hg]
      congr 1
      rcases Nat.eq_zero_or_pos k with hk | hk
      · subst hk; simp [iterInc]
      · exact ih (j + 1) g' (by rw [hl', hl]) hs' (by rw [hi', hj]) (by omega)
  unfold enumGenotypes
  have hp0 : ¬ p = 0 := by omega
  simp only [hp0, if_false]
  rw [enumGo_eq, List.reverse_nil, List.nil_append]
  have hz : genotypeIndex (List.replicate p 0) = 0 := by
    unfold genotypeIndex
    rw [genotypeIndexFrom_eq, gIndexFrom_replicate]
    apply Finset.sum_eq_zero; intro j _; unfold cw; simp
  rw [key (cwr (n + 1) p) 0 (List.replicate p 0) (by simp)
    (List.pairwise_replicate.mpr (Or.inr (le_refl _))) hz
    (by rw [vcf_order_length p n hp]; omega)]
  rw [← vcf_order_length p n hp]; simp

/-! ### non-vacuity: concrete non-trivial instances of the hypotheses -/

example : Asc [0, 2, 2, 5] ∧ (∀ x ∈ [0, 2, 2, 5], x < 6) ∧ 1 ≤ [0, 2, 2, 5].length := by
  refine ⟨by decide, by decide, by decide⟩

example : genotypeIndex [0, 2, 2, 5] = 77 ∧ indexGenotype 77 4 = [0, 2, 2, 5] ∧
    incrementGenotype [0, 2, 2, 5] = some [1, 2, 2, 5] := by decide

example : Nat.choose 68 62 < 2 ^ 53 ∧ comb 68 62 = 109453344 := by
  refine ⟨by norm_num [Nat.choose], by rw [comb_eq_choose]; norm_num [Nat.choose]⟩

/-! ### the lookup tables -/

/-- `_COMB_CACHE`: the 100 × 12 table `comb` consults first, filled at import time by `_comb` -/
def combTable : List (List ℕ) := (List.range 100).map (fun n => (List.range 12).map (comb n))

/-- `_COMB_WITH_REPLACEMENT_CACHE` -/
def cwrTable : List (List ℕ) := (List.range 100).map (fun n => (List.range 12).map (cwr n))

/-- `comb` as the code evaluates it: the table inside `100 × 12`, the gcd-reduced loop beyond -/
def combCached (n k : ℕ) : ℕ :=
  if n < 100 ∧ k < 12 then (combTable.getD n []).getD k 0 else comb n k

def cwrCached (n k : ℕ) : ℕ :=
  if n < 100 ∧ k < 12 then (cwrTable.getD n []).getD k 0 else cwr n k

theorem table_getD (f : ℕ → ℕ → ℕ) (n k : ℕ) (hn : n < 100) (hk : k < 12) :
    (((List.range 100).map (fun n => (List.range 12).map (f n))).getD n []).getD k 0 = f n k := by
  simp [List.getD_eq_getElem?_getD, List.getElem?_map, List.getElem?_range hn, List.getElem?_range hk]

/-- **every entry of the binomial lookup table is the exact binomial coefficient**, and the table
    path and the loop path of `comb` agree everywhere -/
theorem combTable_exact (n k : ℕ) (hn : n < 100) (hk : k < 12) :
    (combTable.getD n []).getD k 0 = Nat.choose n k := by
  unfold combTable
  rw [table_getD comb n k hn hk, comb_exact]

theorem combCached_exact (n k : ℕ) : combCached n k = Nat.choose n k := by
  unfold combCached
  split
  · rename_i h; exact combTable_exact n k h.1 h.2
  · exact comb_exact n k

theorem cwrTable_exact (n k : ℕ) (hn : n < 100) (hk : k < 12) (h0 : ¬ (n = 0 ∧ k = 0)) :
    (cwrTable.getD n []).getD k 0 = Nat.multichoose n k := by
  unfold cwrTable
  rw [table_getD cwr n k hn hk, cwr_exact n k h0]

theorem cwrCached_exact (n k : ℕ) (h0 : ¬ (n = 0 ∧ k = 0)) : cwrCached n k = Nat.multichoose n k := by
  unfold cwrCached
  split
  · rename_i h; exact cwrTable_exact n k h.1 h.2 h0
  · exact cwr_exact n k h0

/-- every table entry fits the int64 the table is stored in (it is below 2^53, in fact below 2^43) -/
theorem combTable_small (n k : ℕ) (hn : n < 100) (hk : k < 12) : Nat.choose n k < 2 ^ 53 := by
  have h1 : Nat.choose n k ≤ Nat.choose 99 k := Nat.choose_le_choose k (by omega)
  have h2 : ∀ k < 12, Nat.choose 99 k < 2 ^ 53 := by decide +kernel
  exact lt_of_le_of_lt h1 (h2 k hk)

end MCHap.C11
