import MCHap.Proofs.PedigreeAllele
import MCHap.Proofs.PedigreeEnum
import MCHap.Proofs.MH
import MCHap.Properties.C02
import MCHap.Properties.C17

/-!
# C18 — the pedigree sampler moves are stationary at the joint pedigree posterior

Target on ORDERED joint states: `πo(s) = jointWith f P s · ∏_i factProd(s_i)` — the joint posterior of
the unordered genotypes spread uniformly over the orderings of every genotype (`factProd g = ∏ mult!
= ploidy!/#orderings`).  The theorems about the factorisation are generic in the trio function `f`
(`trioPmfCode`, the model of `trio_log_pmf`, or the specification `trioPmf`).
-/
namespace MCHap.C18
open MCHap

/-! ### the joint factorises over the Markov blanket of one individual -/

theorem prod_split (L : List ℕ) (p : ℕ → Bool) (g : ℕ → ℚ) :
    (L.map g).prod = ((L.filter p).map g).prod * ((L.filter (fun i => !p i)).map g).prod := by
  induction L with
  | nil => simp
  | cons a L ih =>
    by_cases h : p a
    · simp [h, ih, mul_assoc]
    · simp [h, ih]; ring

theorem prod_range_split (N t : ℕ) (ht : t < N) (g : ℕ → ℚ) :
    ((List.range N).map g).prod = g t * (((List.range N).filter (fun i => decide (i ≠ t))).map g).prod := by
  rw [prod_split (List.range N) (fun i => decide (i = t)) g]
  have h1 : (List.range N).filter (fun i => decide (i = t)) = [t] := by
    have hnd : (List.range N).Nodup := List.nodup_range
    have hc : (List.range N).count t = 1 := by simp [List.count_range, ht]
    have := List.filter_eq (l := List.range N) t
    rw [this, hc]; rfl
  have h2 : (fun i => !(fun i => decide (i = t)) i) = (fun i : ℕ => decide (i ≠ t)) := by
    funext i; simp
  rw [h1, h2]; simp

/-- everything in the joint that does not involve the genotype of `t` -/
def restWith (f : Trio → ℚ) (P : Ped) (s : PedState) (t : ℕ) : ℚ :=
  (((List.range P.size).filter (fun i => decide (i ≠ t))).map (fun i => likOf P s i)).prod
  * (((List.range P.size).filter (fun i => decide (i ≠ t) && !isChild P t i)).map
      (fun i => f (trioOf P s i))).prod

/-- `J(s) = lik_t · blanket_t(s) · rest_t(s)` -/
theorem blanket_factor (f : Trio → ℚ) (P : Ped) (s : PedState) (t : ℕ) (ht : t < P.size)
    (hself : isChild P t t = false) :
    jointWith f P s = likOf P s t * blanketWith f P s t * restWith f P s t := by
  unfold jointWith blanketWith restWith
  rw [List.prod_map_mul, prod_range_split P.size t ht (fun i => likOf P s i),
    prod_range_split P.size t ht (fun i => f (trioOf P s i)),
    prod_split ((List.range P.size).filter (fun i => decide (i ≠ t))) (isChild P t) (fun i => f (trioOf P s i))]
  have hc : ((List.range P.size).filter (fun i => decide (i ≠ t))).filter (isChild P t) = childrenOf P t := by
    unfold childrenOf
    rw [List.filter_filter]
    apply List.filter_congr
    intro i _
    by_cases h : i = t
    · subst h; simp [hself]
    · simp [h]
  have hn : ((List.range P.size).filter (fun i => decide (i ≠ t))).filter (fun i => !isChild P t i)
      = (List.range P.size).filter (fun i => decide (i ≠ t) && !isChild P t i) := by
    rw [List.filter_filter]
    apply List.filter_congr
    intro i _; exact Bool.and_comm _ _
  rw [hc, hn]
  ring

theorem getD_set_ne (s : PedState) (t i : ℕ) (g : List ℕ) (h : i ≠ t) : (s.set t g).getD i [] = s.getD i [] := by
  simp [List.getD_eq_getElem?_getD, List.getElem?_set_ne (Ne.symm h)]

theorem trioOf_set_ne (P : Ped) (s : PedState) (t i : ℕ) (g : List ℕ) (hi : i ≠ t)
    (hc : isChild P t i = false) : trioOf P (s.set t g) i = trioOf P s i := by
  unfold isChild at hc
  simp only [Bool.or_eq_false_iff, decide_eq_false_iff_not] at hc
  obtain ⟨h1, h2⟩ := hc
  have key : ∀ j : ℤ, j ≠ (t : ℤ) →
      (if j < 0 then zeros P.n else countsOf P.n ((s.set t g).getD j.toNat []))
        = (if j < 0 then zeros P.n else countsOf P.n (s.getD j.toNat [])) := by
    intro j hj
    by_cases hneg : j < 0
    · simp [hneg]
    · simp only [hneg, if_false]
      have : j.toNat ≠ t := by
        intro e
        apply hj
        have := Int.toNat_of_nonneg (by omega : 0 ≤ j)
        omega
      rw [getD_set_ne s t _ g this]
  unfold trioOf
  simp only [getD_set_ne s t i g hi, key _ h1, key _ h2]

/-- the rest does not change when the genotype of `t` changes -/
theorem rest_invariant (f : Trio → ℚ) (P : Ped) (s : PedState) (t : ℕ) (g : List ℕ) :
    restWith f P (s.set t g) t = restWith f P s t := by
  unfold restWith
  congr 1
  · congr 1
    apply List.map_congr_left
    intro i hi
    have : i ≠ t := by simpa using (List.mem_filter.mp hi).2
    unfold likOf
    rw [getD_set_ne s t i g this]
  · congr 1
    apply List.map_congr_left
    intro i hi
    have h := (List.mem_filter.mp hi).2
    simp only [Bool.and_eq_true, decide_eq_true_eq, Bool.not_eq_true'] at h
    rw [trioOf_set_ne P s t i g h.1 h.2]

/-- **blanket ratio**: for a change at one individual, the ratio of joints equals the ratio of
    (likelihood × Markov blanket) — stated without division -/
theorem blanket_ratio (f : Trio → ℚ) (P : Ped) (s : PedState) (t : ℕ) (g : List ℕ) (ht : t < P.size)
    (hself : isChild P t t = false) :
    jointWith f P (s.set t g) * (likOf P s t * blanketWith f P s t)
      = jointWith f P s * (likOf P (s.set t g) t * blanketWith f P (s.set t g) t) := by
  rw [blanket_factor f P s t ht hself, blanket_factor f P (s.set t g) t ht hself, rest_invariant]
  ring

/-! ### Metropolis–Hastings update of one allele copy -/

/-- **detailed balance of the single-allele MH move** w.r.t. `J · ∏ mult!` on the ordered alleles
    of the target individual, with the allele-copy-count proposal ratio of
    `metropolis_hastings_probabilities` (instance of `MH.base_step_db`) -/
theorem ped_mh_db (f : Trio → ℚ) (P : Ped) (s : PedState) (t : ℕ) (pre post : List ℕ) (a b : ℕ)
    (hw : ∀ g, 0 < jointWith f P (s.set t g)) :
    let w := fun g : List ℕ => ((jointWith f P (s.set t g) : ℚ) : ℝ)
    let g := pre ++ a :: post
    let g' := pre ++ b :: post
    let πo := fun z : List ℕ => w z * (MH.factProd z : ℝ)
    πo g * min 1 ((w g' / w g) * ((g'.count b : ℝ) / (g.count a : ℝ)))
      = πo g' * min 1 ((w g / w g') * ((g.count a : ℝ) / (g'.count b : ℝ))) :=
  MH.base_step_db (fun g : List ℕ => ((jointWith f P (s.set t g) : ℚ) : ℝ))
    (fun g => by exact_mod_cast hw g) pre post a b

/-- the ratio `metropolis_hastings_probabilities` forms from likelihood × Markov blanket is the
    ratio of joints -/
theorem mh_ratio_joint (f : Trio → ℚ) (P : Ped) (s : PedState) (t : ℕ) (g : List ℕ) (ht : t < P.size)
    (hself : isChild P t t = false) (hJ : jointWith f P s ≠ 0) :
    (likOf P (s.set t g) t * blanketWith f P (s.set t g) t) / (likOf P s t * blanketWith f P s t)
      = jointWith f P (s.set t g) / jointWith f P s := by
  have h := blanket_ratio f P s t g ht hself
  have hb : likOf P s t * blanketWith f P s t ≠ 0 := by
    intro e
    apply hJ
    rw [blanket_factor f P s t ht hself, e]; ring
  rw [div_eq_div_iff hb hJ]
  linear_combination -h

/-! ### exchange of one allele between the two parents of a family -/

/-- **detailed balance of the parental allele swap** on ordered states: uniform choice of one slot
    in each parent (a symmetric proposal), acceptance with the ratio the code uses,
    `(1 + c_p(b)) (1 + c_q(a)) / (c_p(a) c_q(b))`, w.r.t. `w · mult!(g_p) · mult!(g_q)` -/
theorem swap_db {α : Type} [DecidableEq α] (w : List α → List α → ℝ) (hw : ∀ g h, 0 < w g h)
    (pre1 post1 pre2 post2 : List α) (a b : α) (hab : a ≠ b) :
    let gp := pre1 ++ a :: post1
    let gq := pre2 ++ b :: post2
    let gp' := pre1 ++ b :: post1
    let gq' := pre2 ++ a :: post2
    let πo := fun x y : List α => w x y * (MH.factProd x : ℝ) * (MH.factProd y : ℝ)
    πo gp gq * min 1 ((w gp' gq' / w gp gq)
        * ((((1 + gp.count b) * (1 + gq.count a) : ℕ) : ℝ) / ((gp.count a * gq.count b : ℕ) : ℝ)))
      = πo gp' gq' * min 1 ((w gp gq / w gp' gq')
        * ((((1 + gp'.count a) * (1 + gq'.count b) : ℕ) : ℝ) / ((gp'.count b * gq'.count a : ℕ) : ℝ))) := by
  intro gp gq gp' gq' πo
  have hba : b ≠ a := fun e => hab e.symm
  have c1 : 1 + gp.count b = gp'.count b := by
    simp only [gp, gp', List.count_append, List.count_cons, beq_self_eq_true, if_true]
    have : (a == b) = false := by simpa using hab
    simp [this]; omega
  have c2 : 1 + gq.count a = gq'.count a := by
    simp only [gq, gq', List.count_append, List.count_cons, beq_self_eq_true, if_true]
    have : (b == a) = false := by simpa using hba
    simp [this]; omega
  have c3 : 1 + gp'.count a = gp.count a := by
    simp only [gp, gp', List.count_append, List.count_cons, beq_self_eq_true, if_true]
    have : (b == a) = false := by simpa using hba
    simp [this]; omega
  have c4 : 1 + gq'.count b = gq.count b := by
    simp only [gq, gq', List.count_append, List.count_cons, beq_self_eq_true, if_true]
    have : (a == b) = false := by simpa using hab
    simp [this]; omega
  rw [c1, c2, c3, c4]
  have k1 : (MH.factProd gp : ℝ) * (gp'.count b : ℝ) = (MH.factProd gp' : ℝ) * (gp.count a : ℝ) := by
    exact_mod_cast MH.factProd_swap pre1 post1 a b
  have k2 : (MH.factProd gq : ℝ) * (gq'.count a : ℝ) = (MH.factProd gq' : ℝ) * (gq.count b : ℝ) := by
    exact_mod_cast MH.factProd_swap pre2 post2 b a
  have pos : ∀ l : List α, (0 : ℝ) < (MH.factProd l : ℝ) := by
    intro l
    have : 0 < MH.factProd l := Finset.prod_pos (fun x _ => Nat.factorial_pos _)
    exact_mod_cast this
  have hca : (0 : ℝ) < (gp.count a : ℝ) := by
    have : 0 < gp.count a := by simp only [gp]; rw [MH.count_mid]; omega
    exact_mod_cast this
  have hcb : (0 : ℝ) < (gq.count b : ℝ) := by
    have : 0 < gq.count b := by simp only [gq]; rw [MH.count_mid]; omega
    exact_mod_cast this
  have hca' : (0 : ℝ) < (gq'.count a : ℝ) := by
    have : 0 < gq'.count a := by simp only [gq']; rw [MH.count_mid]; omega
    exact_mod_cast this
  have hcb' : (0 : ℝ) < (gp'.count b : ℝ) := by
    have : 0 < gp'.count b := by simp only [gp']; rw [MH.count_mid]; omega
    exact_mod_cast this
  have hp : 0 < πo gp gq := mul_pos (mul_pos (hw _ _) (pos _)) (pos _)
  have hq : 0 < πo gp' gq' := mul_pos (mul_pos (hw _ _) (pos _)) (pos _)
  have e1 : (w gp' gq' / w gp gq) * (((gp'.count b * gq'.count a : ℕ) : ℝ) / ((gp.count a * gq.count b : ℕ) : ℝ))
      = πo gp' gq' / πo gp gq := by
    simp only [πo]
    push_cast
    rw [div_mul_div_comm, div_eq_div_iff (mul_pos (hw _ _) (mul_pos hca hcb)).ne' hp.ne']
    linear_combination (w gp' gq' * w gp gq * ((MH.factProd gq : ℝ) * (gq'.count a : ℝ))) * k1
      + (w gp' gq' * w gp gq * ((MH.factProd gp' : ℝ) * (gp.count a : ℝ))) * k2
  have e2 : (w gp gq / w gp' gq') * (((gp.count a * gq.count b : ℕ) : ℝ) / ((gp'.count b * gq'.count a : ℕ) : ℝ))
      = πo gp gq / πo gp' gq' := by
    simp only [πo]
    push_cast
    rw [div_mul_div_comm, div_eq_div_iff (mul_pos (hw _ _) (mul_pos hcb' hca')).ne' hq.ne']
    linear_combination (-(w gp' gq' * w gp gq * ((MH.factProd gq : ℝ) * (gq'.count a : ℝ)))) * k1
      - (w gp' gq' * w gp gq * ((MH.factProd gp' : ℝ) * (gp.count a : ℝ))) * k2
  rw [e1, e2]
  exact MH.mh_core _ _ hp hq

/-! ### the swap acts on the joint through the blanket of the parental pair -/

theorem prod_nodup_split (L : List ℕ) (hL : L.Nodup) (t : ℕ) (ht : t ∈ L) (g : ℕ → ℚ) :
    (L.map g).prod = g t * ((L.filter (fun i => decide (i ≠ t))).map g).prod := by
  rw [prod_split L (fun i => decide (i = t)) g]
  have h1 : L.filter (fun i => decide (i = t)) = [t] := by
    have hc : L.count t = 1 := List.count_eq_one_of_mem hL ht
    have := List.filter_eq (l := L) t
    rw [this, hc]; rfl
  have h2 : (fun i => !(fun i => decide (i = t)) i) = (fun i : ℕ => decide (i ≠ t)) := by
    funext i; simp
  rw [h1, h2]; simp

/-- everything in the joint that involves neither parent of the pair -/
def restPair (f : Trio → ℚ) (P : Ped) (s : PedState) (p q : ℕ) : ℚ :=
  (((List.range P.size).filter (fun i => decide (i ≠ p) && decide (i ≠ q))).map (fun i => likOf P s i)).prod
  * (((List.range P.size).filter (fun i =>
        !(decide (i = p) || decide (i = q) || isChild P p i || isChild P q i))).map
      (fun i => f (trioOf P s i))).prod

/-- `J(s) = lik_p · lik_q · (blanket of the pair) · rest` -/
theorem pair_factor (f : Trio → ℚ) (P : Ped) (s : PedState) (p q : ℕ) (hp : p < P.size) (hq : q < P.size)
    (hpq : p ≠ q) :
    jointWith f P s = (likOf P s p * likOf P s q) * pairPrior f P s p q * restPair f P s p q := by
  unfold jointWith pairPrior restPair pairBlanket
  rw [List.prod_map_mul, prod_range_split P.size p hp (fun i => likOf P s i)]
  have hnd : ((List.range P.size).filter (fun i => decide (i ≠ p))).Nodup := List.nodup_range.filter _
  have hqm : q ∈ (List.range P.size).filter (fun i => decide (i ≠ p)) := by
    rw [List.mem_filter]; exact ⟨List.mem_range.mpr hq, by simpa using (Ne.symm hpq)⟩
  rw [prod_nodup_split _ hnd q hqm (fun i => likOf P s i), List.filter_filter,
    prod_split (List.range P.size)
      (fun i => decide (i = p) || decide (i = q) || isChild P p i || isChild P q i) (fun i => f (trioOf P s i))]
  have e : (fun i => decide (i ≠ q) && decide (i ≠ p)) = (fun i : ℕ => decide (i ≠ p) && decide (i ≠ q)) := by
    funext i; exact Bool.and_comm _ _
  rw [e]
  ring

theorem rest_pair_invariant (f : Trio → ℚ) (P : Ped) (s : PedState) (p q : ℕ) (g h : List ℕ) :
    restPair f P ((s.set p g).set q h) p q = restPair f P s p q := by
  unfold restPair
  congr 1
  · congr 1
    apply List.map_congr_left
    intro i hi
    have hc := (List.mem_filter.mp hi).2
    simp only [Bool.and_eq_true, decide_eq_true_eq] at hc
    unfold likOf
    rw [getD_set_ne _ q i h hc.2, getD_set_ne s p i g hc.1]
  · congr 1
    apply List.map_congr_left
    intro i hi
    have hc := (List.mem_filter.mp hi).2
    simp only [Bool.not_eq_true', Bool.or_eq_false_iff, decide_eq_false_iff_not] at hc
    obtain ⟨⟨⟨h1, h2⟩, h3⟩, h4⟩ := hc
    rw [trioOf_set_ne P _ q i h h2 h4, trioOf_set_ne P s p i g h1 h3]

/-- for a change of the two parental genotypes, the ratio of joints equals the ratio of
    (the two likelihoods × the pair's blanket) — stated without division -/
theorem pair_blanket_ratio (f : Trio → ℚ) (P : Ped) (s : PedState) (p q : ℕ) (g h : List ℕ)
    (hp : p < P.size) (hq : q < P.size) (hpq : p ≠ q) :
    let s' := (s.set p g).set q h
    jointWith f P s' * ((likOf P s p * likOf P s q) * pairPrior f P s p q)
      = jointWith f P s * ((likOf P s' p * likOf P s' q) * pairPrior f P s' p q) := by
  intro s'
  rw [pair_factor f P s p q hp hq hpq, pair_factor f P s' p q hp hq hpq, rest_pair_invariant]
  ring

/-- `swapState` writes the two exchanged alleles -/
theorem swapState_eq (s : PedState) (p q ip iq : ℕ) (hpq : p ≠ q) :
    swapState s p q ip iq
      = (s.set p ((s.getD p []).set ip ((s.getD q []).getD iq 0))).set q
          ((s.getD q []).set iq ((s.getD p []).getD ip 0)) := by
  unfold swapState
  simp only
  rw [getD_set_ne s p q _ (Ne.symm hpq)]

/-- **detailed balance of the parental allele swap, pedigree level**: instance of `swap_db` with the
    joint as a function of the ordered genotypes of the two (distinct) parents -/
theorem ped_swap_db (f : Trio → ℚ) (P : Ped) (s : PedState) (p q : ℕ)
    (pre1 post1 pre2 post2 : List ℕ) (a b : ℕ) (hab : a ≠ b)
    (hw : ∀ g h, 0 < jointWith f P ((s.set p g).set q h)) :
    let w := fun g h : List ℕ => ((jointWith f P ((s.set p g).set q h) : ℚ) : ℝ)
    let gp := pre1 ++ a :: post1
    let gq := pre2 ++ b :: post2
    let gp' := pre1 ++ b :: post1
    let gq' := pre2 ++ a :: post2
    let πo := fun x y : List ℕ => w x y * (MH.factProd x : ℝ) * (MH.factProd y : ℝ)
    πo gp gq * min 1 ((w gp' gq' / w gp gq)
        * ((((1 + gp.count b) * (1 + gq.count a) : ℕ) : ℝ) / ((gp.count a * gq.count b : ℕ) : ℝ)))
      = πo gp' gq' * min 1 ((w gp gq / w gp' gq')
        * ((((1 + gp'.count a) * (1 + gq'.count b) : ℕ) : ℝ) / ((gp'.count b * gq'.count a : ℕ) : ℝ))) :=
  swap_db (fun g h : List ℕ => ((jointWith f P ((s.set p g).set q h) : ℚ) : ℝ))
    (fun g h => by exact_mod_cast hw g h) pre1 post1 pre2 post2 a b hab

theorem swapLik_eq (P : Ped) (s : PedState) (p q : ℕ) : swapLik P s p q = likOf P s p * likOf P s q := rfl

/-- the ratio `pair_allele_swap_step` forms from the two likelihoods and the pair's blanket is the
    ratio of joints (each parent's reads masked with its own counts: the F5 repair) -/
theorem swap_ratio_joint (P : Ped) (s : PedState) (p q ip iq : ℕ) (hp : p < P.size) (hq : q < P.size)
    (hpq : p ≠ q) (hJ : jointWith trioPmfCode P s ≠ 0) :
    (swapLik P (swapState s p q ip iq) p q / swapLik P s p q)
        * (pairPrior trioPmfCode P (swapState s p q ip iq) p q / pairPrior trioPmfCode P s p q)
      = jointWith trioPmfCode P (swapState s p q ip iq) / jointWith trioPmfCode P s := by
  rw [swapState_eq s p q ip iq hpq, swapLik_eq, swapLik_eq]
  have h := pair_blanket_ratio trioPmfCode P s p q ((s.getD p []).set ip ((s.getD q []).getD iq 0))
    ((s.getD q []).set iq ((s.getD p []).getD ip 0)) hp hq hpq
  simp only at h
  have hb : (likOf P s p * likOf P s q) * pairPrior trioPmfCode P s p q ≠ 0 := by
    intro e
    apply hJ
    rw [pair_factor trioPmfCode P s p q hp hq hpq, e]; ring
  have hb1 : likOf P s p * likOf P s q ≠ 0 := fun e => hb (by rw [e]; ring)
  have hb2 : pairPrior trioPmfCode P s p q ≠ 0 := fun e => hb (by rw [e]; ring)
  rw [div_mul_div_comm, div_eq_div_iff (mul_ne_zero hb1 hb2) hJ]
  linear_combination -h

/-! ### the Gibbs update -/

/-- **per-gamete identity** behind the allele-level pmf: (gamete without one copy of `x`) ×
    (probability of then drawing `x`, double reduction included) `= (g_x/τ)` × gamete pmf -/
theorem hyper_allele_step (dp a : List ℕ) (pp tau x : ℕ) (lam : ℚ) (hlen : a.length = dp.length)
    (hsum : a.sum = tau) (hdp : dp.sum = pp) (htp : tau ≤ pp) (hlam0 : 0 ≤ lam) (hlam : lam ≠ 0 → tau = 2) :
    gameteConstPmf x a tau dp pp * gameteAllelePmf (a.getD x 0) tau (dp.getD x 0) pp lam
      = ((a.getD x 0 : ℚ) / (tau : ℚ)) * gametePmf a tau dp pp lam :=
  gamete_allele_step dp a pp tau x lam hlen hsum hdp htp hlam0 hlam

/-- the same for a gamete of unknown origin: `U(g − e_x) · f_x = (g_x/τ) · U(g)` -/
theorem unknown_allele_step (fs : List ℚ) (a : List ℕ) (x : ℕ) (hl : a.length ≤ fs.length) :
    unknownConstPmf fs a x * fs.getD x 0 = ((a.getD x 0 : ℚ) / (a.sum : ℚ)) * unknownPmf fs a :=
  MCHap.unknown_allele_step fs a x hl

theorem countsOf_length (n : ℕ) (g : List ℕ) : (countsOf n g).length = n := by simp [countsOf]

theorem countsOf_getD (n : ℕ) (g : List ℕ) (x : ℕ) (hx : x < n) : (countsOf n g).getD x 0 = g.count x := by
  simp [countsOf, List.getD_eq_getElem?_getD, List.getElem?_map, List.getElem?_range hx]

theorem countsOf_sum (n : ℕ) (g : List ℕ) (h : ∀ a ∈ g, a < n) : (countsOf n g).sum = g.length := by
  have h1 := C05.sum_count_range n g h
  have h2 : (((countsOf n g).sum : ℕ) : ℚ) = ((List.range n).map (fun a => (g.count a : ℚ))).sum := by
    rw [Nat.cast_list_sum]; simp [countsOf, Function.comp_def]
  rw [h1] at h2
  exact_mod_cast h2

/-- with equal gamete sizes `τ_p = τ_q = τ` the weights `1, 1` of the code before the F6 repair give
    the constant per-pair multiplier `d_x/τ` -/
theorem kappa_balanced_old (tau a b dx : ℕ) (h : a + b = dx) :
    gameteWeightOld tau tau tau * ((a : ℚ) / (tau : ℚ)) + gameteWeightOld tau tau tau * ((b : ℚ) / (tau : ℚ))
      = (dx : ℚ) / (tau : ℚ) := by
  simp only [gameteWeightOld, one_mul]
  rw [← h]; push_cast; ring

/-- the weights `2 τ_i / (τ_p + τ_q)` give the constant `2 d_x / (τ_p + τ_q)` for every pair of
    gamete sizes (stated for an arbitrary weight function) -/
theorem kappa_of_fixed_weights (w : ℕ → ℕ → ℕ → ℚ) (tp tq a b dx : ℕ) (h : a + b = dx)
    (hw : ∀ tau, w tau tp tq = 2 * (tau : ℚ) / ((tp + tq : ℕ) : ℚ)) (ha : a ≤ tp) (hb : b ≤ tq) :
    w tp tp tq * ((a : ℚ) / (tp : ℚ)) + w tq tp tq * ((b : ℚ) / (tq : ℚ))
      = 2 * ((dx : ℚ) / ((tp + tq : ℕ) : ℚ)) := by
  rw [hw tp, hw tq, ← h]
  have ea : 2 * (tp : ℚ) / ((tp + tq : ℕ) : ℚ) * ((a : ℚ) / (tp : ℚ)) = 2 * ((a : ℚ) / ((tp + tq : ℕ) : ℚ)) := by
    by_cases h0 : tp = 0
    · have : a = 0 := by omega
      subst this; simp
    · have : (tp : ℚ) ≠ 0 := by exact_mod_cast h0
      field_simp
  have eb : 2 * (tq : ℚ) / ((tp + tq : ℕ) : ℚ) * ((b : ℚ) / (tq : ℚ)) = 2 * ((b : ℚ) / ((tp + tq : ℕ) : ℚ)) := by
    by_cases h0 : tq = 0
    · have : b = 0 := by omega
      subst this; simp
    · have : (tq : ℚ) ≠ 0 := by exact_mod_cast h0
      field_simp
  rw [ea, eb]; push_cast; ring

/-- the literal enumerator only yields gametes of the right size below the progeny vector -/
theorem enumDosage_enumSound (tau : ℕ) (d dp : List ℕ) (lam : ℚ) (h : d.length = dp.length) :
    EnumSound enumDosage tau (constraintOf d dp lam) d := by
  intro g hg
  obtain ⟨h1, h2⟩ := enumDosage_sound tau _ g hg
  exact ⟨h1, forall₂_le_trans h2 (constraintOf_le d dp lam h)⟩

/-- trio level, any weight function: the allele-level pmf with the literal enumerator is `κ` times
    the trio pmf whenever the per-pair multiplier is the constant `κ` -/
theorem trio_allele_weighted (w : ℕ → ℕ → ℕ → ℚ) (T : Trio) (x : ℕ) (κ : ℚ)
    (hsum : T.d.sum = T.tp + T.tq) (hfs : T.d.length ≤ T.fs.length)
    (hp : T.validP = true → ParentWF T.dp T.pp T.tp T.lp T.d.length)
    (hq : T.validQ = true → ParentWF T.dq T.pq T.tq T.lq T.d.length)
    (hκ : ∀ a b : ℕ, a + b = T.d.getD x 0 → a ≤ T.tp → b ≤ T.tq →
      w T.tp T.tp T.tq * ((a : ℚ) / (T.tp : ℚ)) + w T.tq T.tp T.tq * ((b : ℚ) / (T.tq : ℚ)) = κ)
    (hκ2 : 2 * ((T.d.getD x 0 : ℚ) / ((T.tp + T.tq : ℕ) : ℚ)) = κ) :
    trioAlleleWith w enumDosage T x = κ * trioPmfCode T := by
  unfold trioPmfCode
  apply trio_allele_scaled w enumDosage T x κ hsum hfs _ _ hκ hκ2
  · intro hv
    have h := hp hv
    exact ⟨h, enumDosage_enumSound _ _ _ _ h.1.symm⟩
  · intro hv
    have h := hq hv
    exact ⟨h, enumDosage_enumSound _ _ _ _ h.1.symm⟩

/-- trio level, the weights before the F6 repair: exact only for balanced gametes -/
theorem trio_allele_balanced_old (T : Trio) (x tau : ℕ) (htp : T.tp = tau) (htq : T.tq = tau)
    (hsum : T.d.sum = tau + tau) (hfs : T.d.length ≤ T.fs.length)
    (hp : T.validP = true → ParentWF T.dp T.pp T.tp T.lp T.d.length)
    (hq : T.validQ = true → ParentWF T.dq T.pq T.tq T.lq T.d.length) :
    trioAlleleWith gameteWeightOld enumDosage T x = ((T.d.getD x 0 : ℚ) / (tau : ℚ)) * trioPmfCode T := by
  apply trio_allele_weighted gameteWeightOld T x _ (by rw [htp, htq]; exact hsum) hfs hp hq
  · intro a b hab _ _
    rw [htp, htq]
    exact kappa_balanced_old tau a b _ hab
  · rw [htp, htq]
    by_cases h0 : tau = 0
    · subst h0; simp
    · have : (tau : ℚ) ≠ 0 := by exact_mod_cast h0
      push_cast
      field_simp
      ring

/-- **trio level, every pair of gamete sizes**: what `trio_allele_log_pmf` computes is
    `2 d_x/(τ_p+τ_q)` times the inheritance probability of the genotype (balanced, unbalanced, clonal)
    — normalising it over the candidate alleles gives the conditional of the trio pmf on ordered genotypes -/
theorem trio_allele_exact (T : Trio) (x : ℕ)
    (hsum : T.d.sum = T.tp + T.tq) (hfs : T.d.length ≤ T.fs.length)
    (hp : T.validP = true → ParentWF T.dp T.pp T.tp T.lp T.d.length)
    (hq : T.validQ = true → ParentWF T.dq T.pq T.tq T.lq T.d.length) :
    trioAlleleCode T x = (2 * ((T.d.getD x 0 : ℚ) / ((T.tp + T.tq : ℕ) : ℚ))) * trioPmfCode T := by
  unfold trioAlleleCode
  apply trio_allele_weighted gameteWeight T x _ hsum hfs hp hq
  · intro a b hab ha hb
    exact kappa_of_fixed_weights gameteWeight T.tp T.tq a b _ hab (fun tau => rfl) ha hb
  · rfl

theorem getD_set_self (s : PedState) (t : ℕ) (g : List ℕ) (ht : t < s.length) : (s.set t g).getD t [] = g := by
  simp [List.getD_eq_getElem?_getD, ht]

/-- pedigree level, any weight function: if for every candidate allele the allele-level pmf of the
    target's own trio is `count_x · K` times its trio pmf, the Gibbs vector is the normalisation of
    `J(s[t,k := x]) · ∏ mult!(genotype of t)` — the exact full conditional on ordered states -/
theorem ped_gibbs_scaled (w : ℕ → ℕ → ℕ → ℚ) (P : Ped) (s : PedState) (t : ℕ) (pre post : List ℕ) (c : ℕ) (K : ℚ)
    (ht : t < P.size) (hts : t < s.length) (hself : isChild P t t = false)
    (hg : s.getD t [] = pre ++ c :: post) (hK : K ≠ 0)
    (hscale : ∀ x, x < P.n → let T := trioOf P (setAllele s t pre.length x) t
        trioAlleleWith w enumDosage T x = (((pre ++ x :: post).count x : ℚ) * K) * trioPmfCode T)
    (hR : restWith trioPmfCode P s t ≠ 0) :
    gibbsProbabilitiesW w P s t pre.length
      = normalise ((List.range P.n).map (fun x =>
          jointWith trioPmfCode P (setAllele s t pre.length x) * (MH.factProd (pre ++ x :: post) : ℚ))) := by
  set F : ℚ := (MH.factProd (pre ++ post) : ℚ) with hF
  have hFpos : F ≠ 0 := by
    have : 0 < MH.factProd (pre ++ post) := Finset.prod_pos (fun x _ => Nat.factorial_pos _)
    rw [hF]; exact_mod_cast this.ne'
  set R := restWith trioPmfCode P s t with hRdef
  set D : ℚ := R * F / K with hD
  have hD0 : D ≠ 0 := div_ne_zero (mul_ne_zero hR hFpos) hK
  have hset : ∀ x, setAllele s t pre.length x = s.set t (pre ++ x :: post) := by
    intro x; unfold setAllele; rw [hg]; simp
  have hw : pedGibbsWeightsWith (trioAlleleWith w enumDosage) trioPmfCode P s t pre.length
      = ((List.range P.n).map (fun x =>
          jointWith trioPmfCode P (setAllele s t pre.length x) * (MH.factProd (pre ++ x :: post) : ℚ))).map (· / D) := by
    unfold pedGibbsWeightsWith
    rw [List.map_map]
    apply List.map_congr_left
    intro x hx
    have hxn : x < P.n := List.mem_range.mp hx
    simp only [Function.comp]
    have hgx : (setAllele s t pre.length x).getD t [] = pre ++ x :: post := by
      rw [hset, getD_set_self s t _ hts]
    have hbal := hscale x hxn
    simp only at hbal
    unfold blanketAlleleWith
    have hk : ((setAllele s t pre.length x).getD t []).getD pre.length 0 = x := by
      rw [hgx]; simp [List.getD_eq_getElem?_getD]
    rw [hk, hbal]
    have hJ := blanket_factor trioPmfCode P (setAllele s t pre.length x) t ht hself
    have hrest : restWith trioPmfCode P (setAllele s t pre.length x) t = R := by
      rw [hset, rest_invariant]
    rw [hrest] at hJ
    unfold blanketWith at hJ
    rw [hJ, MH.factProd_mid, MH.count_mid]
    rw [hD]
    push_cast
    field_simp
    rw [hF]
  unfold gibbsProbabilitiesW
  rw [hw, C02.normalise_scale _ _ hD0]

/-- facts about the candidate genotypes shared by the two corollaries below -/
theorem candidate_trio (P : Ped) (s : PedState) (t : ℕ) (pre post : List ℕ) (c x tp tq : ℕ)
    (hts : t < s.length) (hg : s.getD t [] = pre ++ c :: post)
    (htau : P.tau.getD t (0, 0) = (tp, tq))
    (hlen : (pre ++ post).length + 1 = tp + tq) (hal : ∀ a ∈ pre ++ post, a < P.n) (hxn : x < P.n) :
    let T := trioOf P (setAllele s t pre.length x) t
    T.tp = tp ∧ T.tq = tq ∧ T.d.sum = tp + tq ∧ T.d.length = P.n ∧ T.fs = P.freqs ∧
    T.d.getD x 0 = (pre ++ x :: post).count x := by
  intro T
  have hset : setAllele s t pre.length x = s.set t (pre ++ x :: post) := by
    unfold setAllele; rw [hg]; simp
  have hgx : (setAllele s t pre.length x).getD t [] = pre ++ x :: post := by
    rw [hset, getD_set_self s t _ hts]
  have hall : ∀ a ∈ pre ++ x :: post, a < P.n := by
    intro a ha
    simp only [List.mem_append, List.mem_cons] at ha
    rcases ha with h | h | h
    · exact hal a (by simp [h])
    · rw [h]; exact hxn
    · exact hal a (by simp [h])
  have hd : T.d = countsOf P.n (pre ++ x :: post) := by
    show countsOf P.n ((setAllele s t pre.length x).getD t []) = _
    rw [hgx]
  refine ⟨?_, ?_, ?_, ?_, rfl, ?_⟩
  · show (P.tau.getD t (0, 0)).1 = tp
    rw [htau]
  · show (P.tau.getD t (0, 0)).2 = tq
    rw [htau]
  · rw [hd, countsOf_sum _ _ hall]
    simp only [List.length_append, List.length_cons] at hlen ⊢; omega
  · rw [hd, countsOf_length]
  · rw [hd, countsOf_getD _ _ _ hxn]

/-- **Gibbs = exact full conditional** for EVERY pair of gamete sizes of the target individual
    (balanced, unbalanced `(1,3)`, `(1,2)`, clonal `(2,0)`), any pedigree around it (unknown parents,
    selfing, mixed ploidy, children of any kind).  The vector `gibbs_probabilities` returns for slot
    `k = |pre|` of individual `t` is the normalisation of `J(s[t,k := x]) · ∏ mult!(genotype of t)`
    over the candidate alleles `x`: the full conditional of the ordered-state target whose unordered
    marginal is the joint `J`. -/
theorem ped_gibbs_is_conditional (P : Ped) (s : PedState) (t : ℕ) (pre post : List ℕ) (c tp tq : ℕ)
    (ht : t < P.size) (hts : t < s.length) (hself : isChild P t t = false)
    (hg : s.getD t [] = pre ++ c :: post)
    (htau : P.tau.getD t (0, 0) = (tp, tq))
    (hlen : (pre ++ post).length + 1 = tp + tq) (hal : ∀ a ∈ pre ++ post, a < P.n)
    (hfs : P.n ≤ P.freqs.length)
    (hp : ∀ x, x < P.n → let T := trioOf P (setAllele s t pre.length x) t
        T.validP = true → ParentWF T.dp T.pp T.tp T.lp T.d.length)
    (hq : ∀ x, x < P.n → let T := trioOf P (setAllele s t pre.length x) t
        T.validQ = true → ParentWF T.dq T.pq T.tq T.lq T.d.length)
    (hR : restWith trioPmfCode P s t ≠ 0) :
    gibbsProbabilities P s t pre.length
      = normalise ((List.range P.n).map (fun x =>
          jointWith trioPmfCode P (setAllele s t pre.length x) * (MH.factProd (pre ++ x :: post) : ℚ))) := by
  have hT : ((tp + tq : ℕ) : ℚ) ≠ 0 := by
    have : tp + tq ≠ 0 := by omega
    exact_mod_cast this
  show gibbsProbabilitiesW gameteWeight P s t pre.length = _
  apply ped_gibbs_scaled gameteWeight P s t pre post c (2 / ((tp + tq : ℕ) : ℚ)) ht hts hself hg
    (div_ne_zero (by norm_num) hT) _ hR
  intro x hxn
  obtain ⟨h1, h2, h3, h4, h5, h6⟩ := candidate_trio P s t pre post c x tp tq hts hg htau hlen hal hxn
  intro T
  have := trio_allele_exact T x (by rw [h1, h2]; exact h3) (by rw [h4, h5]; exact hfs) (hp x hxn) (hq x hxn)
  unfold trioAlleleCode at this
  rw [this, h6, h1, h2]; ring

/-- with the weights before the F6 repair the same holds only for balanced gametes `τ_p = τ_q` -/
theorem ped_gibbs_old_weights_balanced (P : Ped) (s : PedState) (t : ℕ) (pre post : List ℕ) (c tau : ℕ)
    (ht : t < P.size) (hts : t < s.length) (hself : isChild P t t = false)
    (hg : s.getD t [] = pre ++ c :: post)
    (htau : P.tau.getD t (0, 0) = (tau, tau)) (htau0 : tau ≠ 0)
    (hlen : (pre ++ post).length + 1 = tau + tau) (hal : ∀ a ∈ pre ++ post, a < P.n)
    (hfs : P.n ≤ P.freqs.length)
    (hp : ∀ x, x < P.n → let T := trioOf P (setAllele s t pre.length x) t
        T.validP = true → ParentWF T.dp T.pp T.tp T.lp T.d.length)
    (hq : ∀ x, x < P.n → let T := trioOf P (setAllele s t pre.length x) t
        T.validQ = true → ParentWF T.dq T.pq T.tq T.lq T.d.length)
    (hR : restWith trioPmfCode P s t ≠ 0) :
    gibbsProbabilitiesW gameteWeightOld P s t pre.length
      = normalise ((List.range P.n).map (fun x =>
          jointWith trioPmfCode P (setAllele s t pre.length x) * (MH.factProd (pre ++ x :: post) : ℚ))) := by
  have htq : (tau : ℚ) ≠ 0 := by exact_mod_cast htau0
  apply ped_gibbs_scaled gameteWeightOld P s t pre post c (1 / (tau : ℚ)) ht hts hself hg (by positivity) _ hR
  intro x hxn
  obtain ⟨h1, h2, h3, h4, h5, h6⟩ := candidate_trio P s t pre post c x tau tau hts hg htau hlen hal hxn
  intro T
  have := trio_allele_balanced_old T x tau h1 h2 h3 (by rw [h4, h5]; exact hfs) (hp x hxn) (hq x hxn)
  rw [this, h6]; ring

/-! ### the joint of the model is the joint of the C17 specification -/

/-- the joint built from the model of `trio_log_pmf` is literally the joint built from the
    inheritance pmf of C17 (`trioPmf`, which sums to one: `C17.trio_sum_one`) -/
theorem joint_code_eq_spec (P : Ped) (s : PedState) (h : ∀ i, i < P.size → TrioWF (trioOf P s i)) :
    jointWith trioPmfCode P s = joint P s := by
  unfold joint jointWith
  apply congrArg
  apply List.map_congr_left
  intro i hi
  rw [C17.trioCode_eq_spec _ (h i (List.mem_range.mp hi))]

/-- **Gibbs = exact full conditional of the joint pedigree posterior `J = ∏ lik_i · trioPmf_i`** (the
    statement of `ped_gibbs_is_conditional` with the specification-level joint) -/
theorem ped_gibbs_is_conditional_joint (P : Ped) (s : PedState) (t : ℕ) (pre post : List ℕ) (c tp tq : ℕ)
    (ht : t < P.size) (hts : t < s.length) (hself : isChild P t t = false)
    (hg : s.getD t [] = pre ++ c :: post)
    (htau : P.tau.getD t (0, 0) = (tp, tq))
    (hlen : (pre ++ post).length + 1 = tp + tq) (hal : ∀ a ∈ pre ++ post, a < P.n)
    (hfs : P.n ≤ P.freqs.length)
    (hp : ∀ x, x < P.n → let T := trioOf P (setAllele s t pre.length x) t
        T.validP = true → ParentWF T.dp T.pp T.tp T.lp T.d.length)
    (hq : ∀ x, x < P.n → let T := trioOf P (setAllele s t pre.length x) t
        T.validQ = true → ParentWF T.dq T.pq T.tq T.lq T.d.length)
    (hR : restWith trioPmfCode P s t ≠ 0)
    (hwf : ∀ x, x < P.n → ∀ i, i < P.size → TrioWF (trioOf P (setAllele s t pre.length x) i)) :
    gibbsProbabilities P s t pre.length
      = normalise ((List.range P.n).map (fun x =>
          joint P (setAllele s t pre.length x) * (MH.factProd (pre ++ x :: post) : ℚ))) := by
  rw [ped_gibbs_is_conditional P s t pre post c tp tq ht hts hself hg htau hlen hal hfs hp hq hR]
  apply congrArg
  apply List.map_congr_left
  intro x hx
  rw [joint_code_eq_spec P _ (hwf x (List.mem_range.mp hx))]

/-! ### concrete instances: non-vacuity, and the defect of the old weights -/

/-- diploid × tetraploid → triploid trio (`τ = (1, 2)`), two haplotypes, no reads -/
def exPed : Ped where
  nb := 1
  haps := [[0], [1]]
  freqs := [1/2, 1/2]
  ploidy := [2, 4, 3]
  parents := [(-1, -1), (-1, -1), (0, 1)]
  tau := [(1, 1), (2, 2), (1, 2)]
  lam := [(0, 0), (0, 0), (0, 0)]
  err := [(0, 0), (0, 0), (1/10, 1/10)]
  reads := [[], [], []]

def exState : PedState := [[0, 1], [0, 0, 0, 1], [0, 0, 1]]

/-- the exact full conditional of slot 0 of the triploid child -/
def exConditional : List ℚ :=
  normalise ((List.range exPed.n).map (fun x =>
    jointWith trioPmfCode exPed (setAllele exState 2 0 x) * (MH.factProd ([] ++ x :: [0, 1]) : ℚ)))

/-- **the seeded defect F6, machine-checked**: with the old weights (both gamete-of-origin terms
    added with weight one) the Gibbs vector of an unbalanced `τ = (1, 2)` individual is NOT the exact
    full conditional: `(49/80, 31/80)` against `(13/20, 7/20)` -/
theorem gibbs_old_weights_counterexample :
    gibbsProbabilitiesW gameteWeightOld exPed exState 2 0 = [49/80, 31/80] ∧
    exConditional = [13/20, 7/20] ∧
    gibbsProbabilitiesW gameteWeightOld exPed exState 2 0 ≠ exConditional := by
  decide +kernel

/-- non-vacuity of `ped_gibbs_is_conditional` on the same instance: the model of the current code
    returns the exact conditional -/
example : gibbsProbabilities exPed exState 2 0 = exConditional ∧
    restWith trioPmfCode exPed exState 2 ≠ 0 ∧ isChild exPed 2 2 = false := by
  decide +kernel

/-! ### the swap when the two parents are the same individual (selfing) -/

/-- exchanging two entries of a list is a permutation -/
theorem set_set_perm (l : List ℕ) (i j : ℕ) (hi : i < l.length) (hj : j < l.length) :
    ((l.set i l[j]).set j l[i]).Perm l := by
  rw [List.perm_iff_count]
  intro x
  by_cases hij : i = j
  · subst hij
    rw [List.set_set, List.set_getElem_self]
  · have hj' : j < (l.set i l[j]).length := by simpa using hj
    rw [List.count_set hj', List.count_set hi, List.getElem_set_ne hij]
    have p1 : 0 < l.count l[i] := List.count_pos_iff.mpr (List.getElem_mem hi)
    have p2 : 0 < l.count l[j] := List.count_pos_iff.mpr (List.getElem_mem hj)
    by_cases e1 : l[i] = x <;> by_cases e2 : l[j] = x <;> simp [e1, e2] <;> (try subst e1) <;> (try subst e2) <;> omega

/-- **the parental allele swap under selfing** (`p = q`): the step exchanges two entries of the one
    genotype, so the unordered genotype of every individual is unchanged whatever the decision -/
theorem swap_self_perm (s : PedState) (p ip iq : ℕ) (hp : p < s.length)
    (hip : ip < (s.getD p []).length) (hiq : iq < (s.getD p []).length) :
    (swapState s p p ip iq).length = s.length ∧
    ((swapState s p p ip iq).getD p []).Perm (s.getD p []) ∧
    ∀ i, i ≠ p → (swapState s p p ip iq).getD i [] = s.getD i [] := by
  have hrow : s.getD p [] = s[p] := by simp [List.getD_eq_getElem?_getD, hp]
  rw [hrow] at hip hiq
  have hst : swapState s p p ip iq = s.set p ((s[p].set ip (s[p])[iq]).set iq (s[p])[ip]) := by
    unfold swapState
    simp only [hrow]
    have a1 : (s[p]).getD ip 0 = (s[p])[ip] := by simp [List.getD_eq_getElem?_getD, hip]
    have a2 : (s[p]).getD iq 0 = (s[p])[iq] := by simp [List.getD_eq_getElem?_getD, hiq]
    have a3 : (s.set p (s[p].set ip (s[p])[iq])).getD p [] = s[p].set ip (s[p])[iq] := by
      simp [List.getD_eq_getElem?_getD, hp]
    rw [a1, a2, a3, List.set_set]
  rw [hst]
  refine ⟨by simp, ?_, ?_⟩
  · have : (s.set p ((s[p].set ip (s[p])[iq]).set iq (s[p])[ip])).getD p []
        = (s[p].set ip (s[p])[iq]).set iq (s[p])[ip] := by simp [List.getD_eq_getElem?_getD, hp]
    rw [this, hrow]
    exact set_set_perm s[p] ip iq hip hiq
  · intro i hi
    simp [List.getD_eq_getElem?_getD, List.getElem?_set_ne (Ne.symm hi)]

theorem countsOf_perm (n : ℕ) {a b : List ℕ} (h : a.Perm b) : countsOf n a = countsOf n b := by
  unfold countsOf
  apply List.map_congr_left
  intro x _
  exact h.count_eq x

/-- **the joint is a function of the unordered genotypes**: permuting the alleles inside any rows of
    the stored state changes neither a read likelihood nor an inheritance term -/
theorem jointWith_perm (f : Trio → ℚ) (P : Ped) (s s' : PedState)
    (h : ∀ i, (s'.getD i []).Perm (s.getD i [])) : jointWith f P s' = jointWith f P s := by
  unfold jointWith
  congr 1
  apply List.map_congr_left
  intro i _
  have hl : likOf P s' i = likOf P s i := by
    unfold likOf
    rw [C04.likAllelesPedigree_eq, C04.likAllelesPedigree_eq]
    exact C04.likAlleles_perm _ _ _ (h i)
  have ht : trioOf P s' i = trioOf P s i := by
    unfold trioOf
    simp only
    have hc : ∀ j, countsOf P.n (s'.getD j []) = countsOf P.n (s.getD j []) :=
      fun j => countsOf_perm P.n (h j)
    simp only [hc]
  rw [hl, ht]

/-- under selfing the swap leaves the joint unchanged, accepted or not -/
theorem swap_self_joint (f : Trio → ℚ) (P : Ped) (s : PedState) (p ip iq : ℕ) (hp : p < s.length)
    (hip : ip < (s.getD p []).length) (hiq : iq < (s.getD p []).length) :
    jointWith f P (swapState s p p ip iq) = jointWith f P s := by
  obtain ⟨_, h2, h3⟩ := swap_self_perm s p ip iq hp hip hiq
  apply jointWith_perm
  intro i
  by_cases e : i = p
  · subst e; exact h2
  · rw [h3 i e]

/-! ### the literal Metropolis–Hastings vector -/

theorem sum_set' (l : List ℚ) (i : ℕ) (v : ℚ) (hi : i < l.length) :
    (l.set i v).sum = l.sum - l.getD i 0 + v := by
  induction l generalizing i with
  | nil => simp at hi
  | cons a t ih =>
    cases i with
    | zero => simp; ring
    | succ i =>
      simp only [List.set_cons_succ, List.sum_cons, List.getD_cons_succ]
      rw [ih i (by simpa using hi)]
      ring

/-- the acceptance ratio `metropolis_hastings_probabilities` forms for candidate `x` -/
def pedMhRatio (P : Ped) (s : PedState) (t k x : ℕ) : ℚ :=
  let g := s.getD t []
  let cur := g.getD k 0
  let s' := setAllele s t k x
  (likOf P s' t * markovBlanketProb P s' t) / (likOf P s t * markovBlanketProb P s t)
    * ((((s'.getD t []).count x : ℕ) : ℚ) / ((g.count cur : ℕ) : ℚ))

/-- **the vector `metropolis_hastings_probabilities` returns**: entry `x ≠ current` is
    `min 1 ratio / (n − 1)` (proposal `1/(n−1)` × acceptance), the current allele's entry is the
    remaining mass, and the vector sums to one -/
theorem ped_mh_vector (P : Ped) (s : PedState) (t k : ℕ)
    (hcur : (s.getD t []).getD k 0 < P.n) :
    (∀ x, x < P.n → x ≠ (s.getD t []).getD k 0 →
      (metropolisHastingsProbabilities P s t k).getD x 0
        = (if pedMhRatio P s t k x < 1 then pedMhRatio P s t k x else 1) / ((P.n : ℚ) - 1)) ∧
    (metropolisHastingsProbabilities P s t k).sum = 1 := by
  unfold metropolisHastingsProbabilities
  simp only
  set cur := (s.getD t []).getD k 0 with hc
  set raw := (List.range P.n).map (fun x =>
    if x = cur then (0 : ℚ) else
      (if (likOf P (setAllele s t k x) t * markovBlanketProb P (setAllele s t k x) t) / (likOf P s t * markovBlanketProb P s t)
            * (((((setAllele s t k x).getD t []).count x : ℕ) : ℚ) / (((s.getD t []).count cur : ℕ) : ℚ)) < 1
        then (likOf P (setAllele s t k x) t * markovBlanketProb P (setAllele s t k x) t) / (likOf P s t * markovBlanketProb P s t)
            * (((((setAllele s t k x).getD t []).count x : ℕ) : ℚ) / (((s.getD t []).count cur : ℕ) : ℚ))
        else 1) / ((P.n : ℚ) - 1)) with hraw
  have hlen : raw.length = P.n := by simp [hraw]
  constructor
  · intro x hx hxc
    rw [List.getD_eq_getElem?_getD, List.getElem?_set_ne (Ne.symm hxc)]
    rw [hraw, List.getElem?_map, List.getElem?_range hx]
    simp only [Option.map_some, Option.getD_some, if_neg hxc]
    rfl
  · rw [sum_set' raw cur _ (by omega)]
    have h0 : raw.getD cur 0 = 0 := by
      rw [List.getD_eq_getElem?_getD, hraw, List.getElem?_map, List.getElem?_range hcur]
      simp
    rw [h0]; ring

/-! ### any listing of the pair's blanket (what `mcmc_sampler` hands to the exchange move) -/

theorem mem_pairBlanket (P : Ped) (p q i : ℕ) :
    i ∈ pairBlanket P p q ↔ i < P.size ∧ (i = p ∨ i = q ∨ isChild P p i = true ∨ isChild P q i = true) := by
  unfold pairBlanket
  rw [List.mem_filter, List.mem_range]
  simp [Bool.or_eq_true, or_assoc]

theorem pairBlanket_nodup (P : Ped) (p q : ℕ) : (pairBlanket P p q).Nodup :=
  List.nodup_range.filter _

/-- **what the exchange move may be handed**: any listing `L` of the pair's blanket — the two parents and
    every individual with one of them as a parent, each exactly once, in any order — gives the prior factor
    the detailed-balance theorem (`ped_swap_db`) is about.  (This is the oracle of the sampler-wiring
    stream: set equality and no repetition.) -/
theorem pairPrior_of_listing (f : Trio → ℚ) (P : Ped) (s : PedState) (p q : ℕ) (L : List ℕ)
    (hnd : L.Nodup)
    (hmem : ∀ i, i ∈ L ↔ i < P.size ∧ (i = p ∨ i = q ∨ isChild P p i = true ∨ isChild P q i = true)) :
    (L.map (fun i => f (trioOf P s i))).prod = pairPrior f P s p q := by
  unfold pairPrior
  have hp : L.Perm (pairBlanket P p q) := by
    rw [List.perm_ext_iff_of_nodup hnd (pairBlanket_nodup P p q)]
    intro i; rw [hmem, mem_pairBlanket]
  exact (hp.map _).prod_eq

/-- a listing that repeats a member multiplies that member's inheritance term in once more: the factor
    is `pairPrior · f(trio of the repeated member)`, so the Metropolis ratio built from it uses the square
    of that trio's ratio -/
theorem pairPrior_of_repeated (f : Trio → ℚ) (P : Ped) (s : PedState) (p q c : ℕ) (L : List ℕ)
    (hL : L.Perm (c :: pairBlanket P p q)) :
    (L.map (fun i => f (trioOf P s i))).prod = f (trioOf P s c) * pairPrior f P s p q := by
  unfold pairPrior
  rw [(hL.map _).prod_eq]; simp

/-! ### one iteration of the pedigree sampler -/

/-- one iteration of `mcmc_sampler`: a compound step (the individuals in a shuffled order; the update of an individual is
    itself a shuffled pass over its allele copies, `call_compound_step_invariant`) followed by the exchange move of every
    parental pair, in the order of the pairs.  If the update of each individual and the exchange of each pair leave `π`
    invariant, so does the iteration, and so does any number of iterations. -/
theorem ped_iteration_invariant {S : Type} [Fintype S] [DecidableEq S] (π : S → ℝ) (N : ℕ)
    (Kind : Fin N → S → S → ℝ) (hind : ∀ i, C01.Invariant π (Kind i))
    {ι : Type} (Kpair : ι → S → S → ℝ) (hpair : ∀ j, C01.Invariant π (Kpair j)) (pairs : List ι) (nSteps : ℕ) :
    C01.Invariant π (Compose.sweepOf (fun _ : Unit =>
      C01.kcomp (fun s s' => ∑ σ : Equiv.Perm (Fin N),
          (1 / (N.factorial : ℝ)) * Compose.sweepOf Kind ((List.finRange N).map σ) s s')
        (Compose.sweepOf Kpair pairs)) (List.replicate nSteps ())) :=
  Compose.invariant_iterate π _
    (C01.invariant_comp π _ _ (Compose.compound_step_invariant π N Kind hind) (Compose.invariant_sweepOf π Kpair hpair pairs)) nSteps

end MCHap.C18
