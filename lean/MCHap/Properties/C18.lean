import MCHap.Model.Pedigree
import MCHap.Proofs.MH
import MCHap.Properties.C17

namespace MCHap.C18
open MCHap

end MCHap.C18
