import MCHap.Model.FindSnvs
import Mathlib.Tactic
namespace MCHap.C19
end MCHap.C19
