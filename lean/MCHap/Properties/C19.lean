import MCHap.Model.FindSnvs
import MCHap.Proofs.Reads
import Mathlib.Data.List.Basic
import Mathlib.Data.List.Perm.Basic
import Mathlib.Algebra.Order.Field.Rat
import Mathlib.Tactic

/-!
# C19 — find-snvs: depths and thresholds

**Depths.**  The statement wants `depths = base calls among the reads passing the configured filters`
(`specDepth` below).  Since /repo commit 31c45d9 the configured filters are translated into pysam's `flag_filter` and
`min_mapping_quality` (`engineCfgOf`); what remains between the code and the specification are pysam's engine defaults.
* `enginePasses_engineCfgOf` — the engine's read filter is the configured one, plus "not secondary" and "not an orphan mate";
* `depths_eq_spec_partial` — the depths are the specified ones whenever the fetched records contain no secondary
  record, no orphan mate, no base quality below 13 and no two records with one read name;
* `filter_option_effect` / `depths_monotone_in_filters` — on that region, admitting more reads (a keep flag turned on,
  the MAPQ threshold lowered) adds exactly the calls of the newly admitted reads;
* `depths_ne_spec_witness` — machine-checked inputs outside that region on which the depths differ (secondary,
  base quality, orphan, overlapping mates): the four open findings;
* `old_engine_regression` — the four repaired causes: with the old engine configuration (`pysamDefaults`, filters
  ignored) the depths are wrong on inputs on which the current model is right;
* `specDepth_monotone_in_filters` / `specDepth_filter_effect` — the same statements for the specification itself.

**Thresholds.**  `keepAllele_iff`, `listed_iff_thresholds`, `emitted_iff_two`, `ref_first_masked_iff`, `alts_sorted`,
`alts_nodup_complete` hold at full strength for `siteRecord` (the model of `write_vcf_block`).  The population frequency
of `--maf` is the mean over the samples with reads (`nanMeanFreq`, /repo commit 6204576).
-/
set_option linter.unusedSimpArgs false
set_option linter.unusedVariables false

namespace MCHap.C19
open MCHap

/-! ## depths -/

/-- the configured read filter of the property statement -/
def cfgPasses (cfg : FilterCfg) (a : Aln) : Bool :=
  !a.isUnmapped && decide (cfg.minQ ≤ a.mapq) && !(a.isDuplicate && cfg.skipDup) && !(a.isQcfail && cfg.skipQc)
    && !(a.isSupplementary && cfg.skipSupp)

/-- the nucleotide a record calls at reference position `p` (no base-quality filter) -/
def specBase (a : Aln) (p : Nat) : Option Nat :=
  (a.samPairs.find? (fun qr => qr.2 == p)).bind (fun qr => (a.seq[qr.1]?).bind baseIndex)

/-- **the specification**: counts of A, C, G, T among the records of `contig` that pass the configured filters -/
def specDepth (cfg : FilterCfg) (reads : List Aln) (contig : String) (p : Nat) : List Nat :=
  countColumn (fun a => specBase a p) (reads.filter (fun a => a.contig == contig && cfgPasses cfg a))

/-- `cfg'` admits at least the reads `cfg` admits -/
def WeakerCfg (cfg cfg' : FilterCfg) : Prop :=
  cfg'.minQ ≤ cfg.minQ ∧ (cfg'.skipDup = true → cfg.skipDup = true) ∧ (cfg'.skipQc = true → cfg.skipQc = true) ∧
    (cfg'.skipSupp = true → cfg.skipSupp = true)

theorem cfgPasses_mono {cfg cfg' : FilterCfg} (h : WeakerCfg cfg cfg') (a : Aln) (hp : cfgPasses cfg a = true) :
    cfgPasses cfg' a = true := by
  obtain ⟨h1, h2, h3, h4⟩ := h
  unfold cfgPasses at hp ⊢
  simp only [Bool.and_eq_true, Bool.not_eq_true', decide_eq_true_eq, Bool.and_eq_false_imp] at hp ⊢
  obtain ⟨⟨⟨⟨p1, p2⟩, p3⟩, p4⟩, p5⟩ := hp
  refine ⟨⟨⟨⟨p1, by omega⟩, ?_⟩, ?_⟩, ?_⟩
  · intro ha; have := p3 ha; cases hx : cfg'.skipDup <;> simp_all
  · intro ha; have := p4 ha; cases hx : cfg'.skipQc <;> simp_all
  · intro ha; have := p5 ha; cases hx : cfg'.skipSupp <;> simp_all

theorem countP_filter_split {α} (p f f' : α → Bool) (l : List α) (hff : ∀ a ∈ l, f a = true → f' a = true) :
    (l.filter f').countP p = (l.filter f).countP p + (l.filter (fun a => f' a && !f a)).countP p := by
  induction l with
  | nil => rfl
  | cons a t ih =>
    have iht := ih (fun x hx => hff x (List.mem_cons_of_mem _ hx))
    have ha := hff a List.mem_cons_self
    cases hf : f a <;> cases hf' : f' a <;> cases hpa : p a <;>
      simp [List.filter_cons, List.countP_cons, hf, hf', hpa, iht] <;> first | omega | (simp [hf] at ha; simp [ha] at hf')

/-- **what an option changes** (specification): admitting more reads adds exactly the calls of the newly admitted ones -/
theorem specDepth_filter_effect {cfg cfg' : FilterCfg} (h : WeakerCfg cfg cfg') (reads : List Aln) (contig : String)
    (p k : Nat) (hk : k < 4) :
    (specDepth cfg' reads contig p).getD k 0 =
      (specDepth cfg reads contig p).getD k 0 +
        (reads.filter (fun a => (a.contig == contig && cfgPasses cfg' a) && !(a.contig == contig && cfgPasses cfg a))).countP
          (fun a => specBase a p == some k) := by
  unfold specDepth countColumn
  simp only [List.getD_eq_getElem?_getD, List.getElem?_map, List.getElem?_range hk, Option.map_some, Option.getD_some]
  apply countP_filter_split
  intro a _ ha
  simp only [Bool.and_eq_true] at ha ⊢
  exact ⟨ha.1, cfgPasses_mono h a ha.2⟩

/-- the specified depths are monotone in every filter option -/
theorem specDepth_monotone_in_filters {cfg cfg' : FilterCfg} (h : WeakerCfg cfg cfg') (reads : List Aln)
    (contig : String) (p k : Nat) (hk : k < 4) :
    (specDepth cfg reads contig p).getD k 0 ≤ (specDepth cfg' reads contig p).getD k 0 := by
  rw [specDepth_filter_effect h reads contig p k hk]; omega

/-! ### where the engine agrees with the specification -/

theorem alignedPairsFrom_bounds (pq : Bool) : ∀ (cig : List (Nat × CigarOp)) (q r : Nat) (x : Nat × Nat),
    x ∈ alignedPairsFrom pq cig q r → r ≤ x.2 ∧ x.2 < r + cigarRefLen cig := by
  intro cig
  induction cig with
  | nil => intro q r x hx; simp [alignedPairsFrom] at hx
  | cons c t ih =>
    intro q r x hx
    obtain ⟨n, op⟩ := c
    cases op <;> simp only [alignedPairsFrom, cigarRefLen, List.mem_append, List.mem_map, List.mem_range] at hx ⊢
    all_goals first
      | (rcases hx with ⟨i, hi, rfl⟩ | hx
         · simp only; omega
         · have := ih _ _ _ hx; omega)
      | (have := ih _ _ _ hx; omega)

theorem lookup_none_of_not_mem {β} (d : List (String × β)) (k : String) (h : k ∉ d.map Prod.fst) : d.lookup k = none := by
  cases hl : d.lookup k with
  | none => rfl
  | some v => exact absurd ((lookup_isSome_iff_mem_keys d k).mp (by simp [hl])) h

theorem foldl_pushRead_done : ∀ (l : List Aln) (st : OverlapState),
    (∀ e ∈ st.pending, e.1 ∈ st.done.map Aln.qname) → (∀ b ∈ l, b.qname ∉ st.done.map Aln.qname) →
      (l.map Aln.qname).Nodup → (l.foldl pushRead st).done = st.done ++ l := by
  intro l
  induction l with
  | nil => intro st _ _ _; simp
  | cons b t ih =>
    intro st hpend hnew hnd
    rw [List.foldl_cons]
    have hb : b.qname ∉ st.done.map Aln.qname := hnew b List.mem_cons_self
    have hlook : st.pending.lookup b.qname = none := by
      apply lookup_none_of_not_mem
      intro hmem
      obtain ⟨e, he, hee⟩ := List.mem_map.mp hmem
      exact hb (hee ▸ hpend e he)
    simp only [List.map_cons, List.nodup_cons] at hnd
    have hnew' : ∀ st' : OverlapState, st'.done = st.done ++ [b] →
        ∀ b' ∈ t, b'.qname ∉ st'.done.map Aln.qname := by
      intro st' hst b' hb' hmem
      rw [hst, List.map_append, List.mem_append] at hmem
      rcases hmem with hmem | hmem
      · exact hnew b' (List.mem_cons_of_mem _ hb') hmem
      · simp only [List.map_cons, List.map_nil, List.mem_singleton] at hmem
        exact hnd.1 (hmem ▸ List.mem_map_of_mem hb')
    have happ : st.done ++ [b] ++ t = st.done ++ b :: t := by simp
    have key : ∃ st', pushRead st b = st' ∧ st'.done = st.done ++ [b] ∧
        (∀ e ∈ st'.pending, e.1 ∈ st'.done.map Aln.qname) := by
      unfold pushRead
      by_cases hoc : overlapCandidate b = true
      · simp only [hoc, Bool.not_true, Bool.false_eq_true, if_false, hlook]
        by_cases haw : awaitsMate b = true
        · simp only [haw, if_true]
          refine ⟨_, rfl, rfl, ?_⟩
          intro e he
          simp only [List.mem_cons] at he
          simp only [List.map_append, List.mem_append]
          rcases he with rfl | he
          · right; simp
          · left; exact hpend e he
        · have haw' : awaitsMate b = false := by simpa using haw
          simp only [haw', Bool.false_eq_true, if_false]
          refine ⟨_, rfl, rfl, ?_⟩
          intro e he
          simp only [List.map_append, List.mem_append]
          left; exact hpend e he
      · have hoc' : overlapCandidate b = false := by simpa using hoc
        simp only [hoc', Bool.not_false, if_true]
        refine ⟨_, rfl, rfl, ?_⟩
        intro e he
        simp only [List.map_append, List.mem_append]
        left; exact hpend e he
    obtain ⟨st', hst, hd, hp⟩ := key
    rw [hst, ih st' hp (hnew' st' hd) hnd.2, hd, happ]

/-- without two buffered records sharing a read name the overlap machinery is inert -/
theorem engineReads_of_nodup (e : EngineCfg) (contig : String) (start stop : Nat) (reads : List Aln)
    (h : ((reads.filter (fun a => regionFetched contig start stop a && enginePasses e a)).map Aln.qname).Nodup) :
    engineReads e contig start stop reads
      = reads.filter (fun a => regionFetched contig start stop a && enginePasses e a) := by
  unfold engineReads
  simp only
  split_ifs
  · rw [foldl_pushRead_done _ {} (by simp) (by simp) h]
    simp
  · rfl

theorem regionFetched_of_column {contig : String} {start stop p : Nat} (hp : start ≤ p ∧ p < stop) {a : Aln}
    (hc : a.contig = contig) {qr : Nat × Nat} (hf : a.samPairs.find? (fun qr => qr.2 == p) = some qr) :
    regionFetched contig start stop a = true := by
  have hmem := List.mem_of_find?_eq_some hf
  have hqr : qr.2 = p := by simpa using List.find?_some hf
  obtain ⟨h1, h2⟩ := alignedPairsFrom_bounds false a.cigar 0 a.pos qr hmem
  unfold regionFetched Aln.refEnd
  simp only [hc, beq_self_eq_true, Bool.true_and, Bool.and_eq_true, decide_eq_true_eq]
  constructor
  · omega
  · split_ifs with h0
    · omega
    · omega

/-- the engine's depths are the specified ones when, on the fetched records, its read filter decides like the
configured one, every base quality reaches its minimum and no two buffered records share a read name -/
theorem regionDepthsE_eq_spec (e : EngineCfg) (cfg : FilterCfg) (bams : List (List Aln)) (contig : String)
    (start stop i : Nat) (hi : i < stop - start)
    (hfilt : ∀ reads ∈ bams, ∀ a ∈ reads, regionFetched contig start stop a = true → enginePasses e a = cfgPasses cfg a)
    (hqual : ∀ reads ∈ bams, ∀ a ∈ reads, a.qualList.length = a.seq.length ∧ ∀ q ∈ a.qualList, e.minBaseQ ≤ q)
    (hname : ∀ reads ∈ bams,
      ((reads.filter (fun a => regionFetched contig start stop a && enginePasses e a)).map Aln.qname).Nodup) :
    (regionDepthsE e bams contig start stop)[i]? =
      some (bams.map (fun reads => specDepth cfg reads contig (start + i))) := by
  unfold regionDepthsE
  rw [List.getElem?_map, List.getElem?_range hi]
  simp only [Option.map_some, Option.some.injEq]
  apply List.map_congr_left
  intro reads hr
  rw [engineReads_of_nodup _ _ _ _ _ (hname reads hr)]
  unfold specDepth countColumn
  apply List.map_congr_left
  intro k _
  rw [List.countP_filter, List.countP_filter]
  apply List.countP_congr
  intro a ha
  have hp : start ≤ start + i ∧ start + i < stop := by omega
  by_cases hc : a.contig = contig
  · cases hf : a.samPairs.find? (fun qr => qr.2 == start + i) with
    | none => simp [columnBase, specBase, hf]
    | some qr =>
      have hreg := regionFetched_of_column hp hc hf
      have hfe := hfilt reads hr a ha hreg
      obtain ⟨hlen, hq⟩ := hqual reads hr a ha
      have hbase : columnBase e.minBaseQ a (start + i) = specBase a (start + i) := by
        unfold columnBase specBase
        simp only [hf, Option.bind_some]
        by_cases hlt : qr.1 < a.seq.length
        · have hlt' : qr.1 < a.qualList.length := by omega
          have hge : a.qualList[qr.1]? = some a.qualList[qr.1] := List.getElem?_eq_getElem hlt'
          have h13 : e.minBaseQ ≤ a.qualList[qr.1] := hq _ (List.getElem_mem hlt')
          simp only [List.getD_eq_getElem?_getD, hge, Option.getD_some, Nat.not_lt.mpr h13, if_false]
        · have : a.seq[qr.1]? = none := by simp [Nat.le_of_not_lt hlt]
          simp [this]
      simp [hbase, hreg, hfe, hc]
  · have h1 : regionFetched contig start stop a = false := by
      unfold regionFetched
      have : (a.contig == contig) = false := by simpa using hc
      simp [this]
    have h2 : (a.contig == contig) = false := by simpa using hc
    simp [h1, h2]

/-! ### the engine configuration the code builds -/

theorem land_beq_zero_iff (f m : Nat) :
    (f &&& m == 0) = true ↔ ∀ i, ¬ (f.testBit i = true ∧ m.testBit i = true) := by
  rw [beq_iff_eq]
  constructor
  · rintro h i ⟨h1, h2⟩
    have := congrArg (fun x => x.testBit i) h
    simp [Nat.testBit_and, h1, h2] at this
  · intro h
    apply Nat.eq_of_testBit_eq
    intro i
    rw [Nat.testBit_and, Nat.zero_testBit]
    cases h1 : f.testBit i <;> cases h2 : m.testBit i <;> simp
    exact h i ⟨h1, h2⟩

theorem testBit_engineMask (cfg : FilterCfg) (i : Nat) :
    (engineCfgOf cfg).flagFilter.testBit i =
      (decide (2 = i) || decide (8 = i) || (cfg.skipDup && decide (10 = i)) || (cfg.skipQc && decide (9 = i))
        || (cfg.skipSupp && decide (11 = i))) := by
  have t2 : Nat.testBit 4 i = decide (2 = i) := by
    rw [show (4 : Nat) = 2 ^ 2 from by norm_num, Nat.testBit_two_pow]
  have t8 : Nat.testBit 256 i = decide (8 = i) := by
    rw [show (256 : Nat) = 2 ^ 8 from by norm_num, Nat.testBit_two_pow]
  have t10 : Nat.testBit 1024 i = decide (10 = i) := by
    rw [show (1024 : Nat) = 2 ^ 10 from by norm_num, Nat.testBit_two_pow]
  have t9 : Nat.testBit 512 i = decide (9 = i) := by
    rw [show (512 : Nat) = 2 ^ 9 from by norm_num, Nat.testBit_two_pow]
  have t11 : Nat.testBit 2048 i = decide (11 = i) := by
    rw [show (2048 : Nat) = 2 ^ 11 from by norm_num, Nat.testBit_two_pow]
  unfold engineCfgOf
  simp only [Nat.testBit_or]
  cases cfg.skipDup <;> cases cfg.skipQc <;> cases cfg.skipSupp <;>
    simp [t2, t8, t10, t9, t11, Nat.zero_testBit]

/-- **the repaired translation**: the engine's read filter is the configured filter, and additionally drops
secondary records and orphan mates (pysam defaults that the code leaves in place) -/
theorem enginePasses_engineCfgOf (cfg : FilterCfg) (a : Aln) :
    enginePasses (engineCfgOf cfg) a =
      (cfgPasses cfg a && !a.isSecondary && !(a.isPaired && !a.isProperPair)) := by
  have hmask : ((a.flag &&& (engineCfgOf cfg).flagFilter == 0) = true) ↔
      (a.isUnmapped = false ∧ a.isSecondary = false ∧ (cfg.skipDup = true → a.isDuplicate = false) ∧
        (cfg.skipQc = true → a.isQcfail = false) ∧ (cfg.skipSupp = true → a.isSupplementary = false)) := by
    rw [land_beq_zero_iff]
    simp only [testBit_engineMask, Aln.isUnmapped, Aln.isSecondary, Aln.isDuplicate, Aln.isQcfail,
      Aln.isSupplementary]
    constructor
    · intro h
      refine ⟨?_, ?_, ?_, ?_, ?_⟩
      · have := h 2; simpa using this
      · have := h 8; simpa using this
      · intro hd; have := h 10; simpa [hd] using this
      · intro hd; have := h 9; simpa [hd] using this
      · intro hd; have := h 11; simpa [hd] using this
    · rintro ⟨h2, h8, h10, h9, h11⟩ i ⟨hf, hm⟩
      simp only [Bool.or_eq_true, Bool.and_eq_true, decide_eq_true_eq] at hm
      rcases hm with (((rfl | rfl) | ⟨hd, rfl⟩) | ⟨hd, rfl⟩) | ⟨hd, rfl⟩
      · rw [h2] at hf; cases hf
      · rw [h8] at hf; cases hf
      · rw [h10 hd] at hf; cases hf
      · rw [h9 hd] at hf; cases hf
      · rw [h11 hd] at hf; cases hf
  have hq : (engineCfgOf cfg).minMapQ = cfg.minQ := rfl
  have ho : (engineCfgOf cfg).ignoreOrphans = true := rfl
  rw [Bool.eq_iff_iff]
  unfold enginePasses cfgPasses
  simp only [Bool.and_eq_true, hmask, hq, ho, decide_eq_true_eq, Bool.not_eq_true', Bool.true_and,
    Bool.and_eq_false_imp]
  constructor
  · rintro ⟨⟨⟨h2, h8, h10, h9, h11⟩, hmq⟩, horph⟩
    refine ⟨⟨⟨⟨⟨⟨h2, hmq⟩, ?_⟩, ?_⟩, ?_⟩, h8⟩, horph⟩
    · intro hd; by_contra hs; exact absurd (h10 (by simpa using hs)) (by simp [hd])
    · intro hd; by_contra hs; exact absurd (h9 (by simpa using hs)) (by simp [hd])
    · intro hd; by_contra hs; exact absurd (h11 (by simpa using hs)) (by simp [hd])
  · rintro ⟨⟨⟨⟨⟨⟨h2, hmq⟩, h10⟩, h9⟩, h11⟩, h8⟩, horph⟩
    refine ⟨⟨⟨h2, h8, ?_, ?_, ?_⟩, hmq⟩, horph⟩
    · intro hs; by_contra hd; exact absurd (h10 (by simpa using hd)) (by simp [hs])
    · intro hs; by_contra hd; exact absurd (h9 (by simpa using hd)) (by simp [hs])
    · intro hs; by_contra hd; exact absurd (h11 (by simpa using hd)) (by simp [hs])

/-- the fetched records are free of what the engine still treats differently from the specification -/
structure CleanRegion (bams : List (List Aln)) (contig : String) (start stop : Nat) : Prop where
  /-- no secondary record, no orphan mate (paired but not a proper pair) -/
  flags : ∀ reads ∈ bams, ∀ a ∈ reads, regionFetched contig start stop a = true →
    a.isSecondary = false ∧ (a.isPaired = true → a.isProperPair = true)
  /-- every base quality is at least 13 (and present for every base) -/
  quals : ∀ reads ∈ bams, ∀ a ∈ reads, a.qualList.length = a.seq.length ∧ ∀ q ∈ a.qualList, 13 ≤ q
  /-- no two fetched records share a read name -/
  names : ∀ reads ∈ bams, ((reads.filter (regionFetched contig start stop)).map Aln.qname).Nodup

/-- **partial correctness of the depths**: on a clean region the depths are, at every position and for every
configuration, the base calls among the reads passing the configured filters -/
theorem depths_eq_spec_partial (cfg : FilterCfg) (bams : List (List Aln)) (contig : String) (start stop i : Nat)
    (hi : i < stop - start) (hc : CleanRegion bams contig start stop) :
    (bamRegionDepths cfg bams contig start stop)[i]? =
      some (bams.map (fun reads => specDepth cfg reads contig (start + i))) := by
  unfold bamRegionDepths
  apply regionDepthsE_eq_spec _ cfg _ _ _ _ _ hi
  · intro reads hr a ha hreg
    obtain ⟨hs, ho⟩ := hc.flags reads hr a ha hreg
    rw [enginePasses_engineCfgOf, hs]
    cases hp : a.isPaired
    · simp
    · simp [ho hp]
  · exact hc.quals
  · intro reads hr
    refine List.Nodup.sublist (List.Sublist.map _ ?_) (hc.names reads hr)
    apply List.monotone_filter_right
    intro a h
    simp only [Bool.and_eq_true] at h
    exact h.1

/-- **what a filter option changes**: on a clean region, for a configuration `cfg'` that admits at least the reads of
`cfg` (keep flags turned on, MAPQ threshold lowered), both depth tensors are the specified ones and they differ, per
BAM and nucleotide, exactly by the calls of the reads `cfg'` admits and `cfg` does not -/
theorem filter_option_effect {cfg cfg' : FilterCfg} (h : WeakerCfg cfg cfg') (bams : List (List Aln)) (contig : String)
    (start stop i : Nat) (hi : i < stop - start) (hc : CleanRegion bams contig start stop) :
    (bamRegionDepths cfg bams contig start stop)[i]? =
        some (bams.map (fun reads => specDepth cfg reads contig (start + i))) ∧
      (bamRegionDepths cfg' bams contig start stop)[i]? =
        some (bams.map (fun reads => specDepth cfg' reads contig (start + i))) ∧
      ∀ reads k, k < 4 →
        (specDepth cfg' reads contig (start + i)).getD k 0 =
          (specDepth cfg reads contig (start + i)).getD k 0 +
            (reads.filter (fun a => (a.contig == contig && cfgPasses cfg' a) &&
              !(a.contig == contig && cfgPasses cfg a))).countP (fun a => specBase a (start + i) == some k) :=
  ⟨depths_eq_spec_partial cfg bams contig start stop i hi hc,
   depths_eq_spec_partial cfg' bams contig start stop i hi hc,
   fun reads k hk => specDepth_filter_effect h reads contig (start + i) k hk⟩

/-- on a clean region the depths are monotone in every filter option -/
theorem depths_monotone_in_filters {cfg cfg' : FilterCfg} (h : WeakerCfg cfg cfg') (bams : List (List Aln))
    (contig : String) (start stop i : Nat) (hi : i < stop - start) (hc : CleanRegion bams contig start stop)
    (j k : Nat) (hk : k < 4) :
    (((bamRegionDepths cfg bams contig start stop).getD i []).getD j []).getD k 0 ≤
      (((bamRegionDepths cfg' bams contig start stop).getD i []).getD j []).getD k 0 := by
  obtain ⟨h1, h2, _⟩ := filter_option_effect h bams contig start stop i hi hc
  simp only [List.getD_eq_getElem?_getD, h1, h2, Option.getD_some, List.getElem?_map]
  cases hb : bams[j]? with
  | none => simp
  | some reads =>
    simp only [Option.map_some, Option.getD_some]
    have := specDepth_monotone_in_filters h reads contig (start + i) k hk
    simpa [List.getD_eq_getElem?_getD] using this

/-- **the engine still differs from the specification** (open findings; `AC` reference, region `[0, 1)`, default
configuration): a secondary record, a base of quality 12 and an orphan mate are dropped although no configured filter
excludes them, and two overlapping mates that agree are counted once -/
theorem depths_ne_spec_witness :
    let rd (flag q : Nat) (mpos isize : Int) : Aln :=
      { qname := "r", contig := "c", flag := flag, mapq := 60, pos := 0, cigar := [(2, .M)], seq := ['A', 'C'],
        quals := some [q, q], rg := some "g", refBases := some ['A', 'C'], mpos := mpos, isize := isize }
    -- secondary-dropped
    (bamRegionDepths {} [[rd 0x100 30 (-1) 0]] "c" 0 1 = [[[0, 0, 0, 0]]] ∧
      specDepth {} [rd 0x100 30 (-1) 0] "c" 0 = [1, 0, 0, 0]) ∧
    -- baseq13-dropped
    (bamRegionDepths {} [[rd 0 12 (-1) 0]] "c" 0 1 = [[[0, 0, 0, 0]]] ∧ specDepth {} [rd 0 12 (-1) 0] "c" 0 = [1, 0, 0, 0]) ∧
    -- orphans-dropped
    (bamRegionDepths {} [[rd 0x41 30 (-1) 0]] "c" 0 1 = [[[0, 0, 0, 0]]] ∧
      specDepth {} [rd 0x41 30 (-1) 0] "c" 0 = [1, 0, 0, 0]) ∧
    -- overlapping-mates-merged
    (bamRegionDepths {} [[rd 0x63 30 0 2, rd 0x93 30 0 (-2)]] "c" 0 1 = [[[1, 0, 0, 0]]] ∧
      specDepth {} [rd 0x63 30 0 2, rd 0x93 30 0 (-2)] "c" 0 = [2, 0, 0, 0]) := by
  decide

/-- **regression statements for the repaired causes**: under the old engine configuration (`pysamDefaults`: the
configured filters never reached the pileup) MAPQ 0 was counted, a kept duplicate / QC-fail record was dropped and a
supplementary record was counted; the current model returns the specified depths on the same inputs -/
theorem old_engine_regression :
    let rd (flag mapq : Nat) : Aln :=
      { qname := "r", contig := "c", flag := flag, mapq := mapq, pos := 0, cigar := [(2, .M)], seq := ['A', 'C'],
        quals := some [30, 30], rg := some "g", refBases := some ['A', 'C'] }
    -- mapq-ignored
    (regionDepthsE pysamDefaults [[rd 0 0]] "c" 0 1 = [[[1, 0, 0, 0]]] ∧ specDepth {} [rd 0 0] "c" 0 = [0, 0, 0, 0] ∧
      bamRegionDepths {} [[rd 0 0]] "c" 0 1 = [[[0, 0, 0, 0]]]) ∧
    -- keep-duplicates-ignored
    (regionDepthsE pysamDefaults [[rd 0x400 60]] "c" 0 1 = [[[0, 0, 0, 0]]] ∧
      specDepth { skipDup := false } [rd 0x400 60] "c" 0 = [1, 0, 0, 0] ∧
      bamRegionDepths { skipDup := false } [[rd 0x400 60]] "c" 0 1 = [[[1, 0, 0, 0]]]) ∧
    -- keep-qcfail-ignored
    (regionDepthsE pysamDefaults [[rd 0x200 60]] "c" 0 1 = [[[0, 0, 0, 0]]] ∧
      specDepth { skipQc := false } [rd 0x200 60] "c" 0 = [1, 0, 0, 0] ∧
      bamRegionDepths { skipQc := false } [[rd 0x200 60]] "c" 0 1 = [[[1, 0, 0, 0]]]) ∧
    -- supplementary-not-dropped
    (regionDepthsE pysamDefaults [[rd 0x800 60]] "c" 0 1 = [[[1, 0, 0, 0]]] ∧ specDepth {} [rd 0x800 60] "c" 0 = [0, 0, 0, 0] ∧
      bamRegionDepths {} [[rd 0x800 60]] "c" 0 1 = [[[0, 0, 0, 0]]]) := by
  decide

/-! ## thresholds -/

/-- the `keep` mask, spelled out: enough individuals meet `--ind-maf` and `--ind-mad`, and (when `--maf > 0`) the mean
frequency among the samples with reads is defined and reaches `--maf`, and (when `--mad > 0`) the population depth reaches
`--mad` -/
theorem keepAllele_iff (t : Thresh) (ds : List (List Nat)) (a : Nat) :
    keepAllele t ds a = true ↔
      t.minInd ≤ (ds.countP (fun d => indOk t d a) : Int) ∧
        (0 < t.maf → ∃ m, nanMeanFreq ds a = some m ∧ t.maf ≤ m) ∧
        (0 < t.mad → t.mad ≤ (popDepth ds a : Int)) := by
  unfold keepAllele
  simp only [Bool.and_eq_true, decide_eq_true_eq]
  constructor
  · rintro ⟨⟨h1, h2⟩, h3⟩
    refine ⟨h1, ?_, ?_⟩
    · intro hm
      simp only [hm, if_true] at h2
      cases hmf : nanMeanFreq ds a with
      | none => simp [hmf] at h2
      | some m => exact ⟨m, rfl, by simpa [hmf] using h2⟩
    · intro hm; simpa [hm] using h3
  · rintro ⟨h1, h2, h3⟩
    refine ⟨⟨h1, ?_⟩, ?_⟩
    · split_ifs with hm
      · obtain ⟨m, hmf, hle⟩ := h2 hm
        simp [hmf, hle]
      · rfl
    · split_ifs with hm
      · simpa using h3 hm
      · rfl

/-- an individual meets the thresholds iff it has depth, its frequency reaches `--ind-maf` and its depth `--ind-mad` -/
theorem indOk_iff (t : Thresh) (d : List Nat) (a : Nat) :
    indOk t d a = true ↔
      d.sum ≠ 0 ∧ t.indMaf ≤ (d.getD a 0 : Rat) / (d.sum : Rat) ∧ t.indMad ≤ (d.getD a 0 : Int) := by
  unfold indOk alleleFreq
  by_cases h : d.sum = 0
  · simp [h]
  · simp [h]

theorem argsortDesc_perm (f : Nat → Option Rat) : (argsortDesc f).Perm (List.range 4) := by
  unfold argsortDesc
  exact (List.reverse_perm _).trans (List.mergeSort_perm _ _)

theorem mem_argsortDesc (f : Nat → Option Rat) (a : Nat) : a ∈ argsortDesc f ↔ a < 4 := by
  rw [(argsortDesc_perm f).mem_iff, List.mem_range]

theorem nodup_argsortDesc (f : Nat → Option Rat) : (argsortDesc f).Nodup :=
  (argsortDesc_perm f).nodup_iff.mpr List.nodup_range

theorem leKey_trans (x y z : Option Rat) (h1 : leKey x y = true) (h2 : leKey y z = true) : leKey x z = true := by
  cases x <;> cases y <;> cases z <;> simp_all [leKey]
  exact le_trans h1 h2

theorem leKey_total (x y : Option Rat) : (leKey x y || leKey y x) = true := by
  cases x <;> cases y <;> simp [leKey]
  exact le_total _ _

theorem sublist_pair_antisymm {α} {l : List α} (hnd : l.Nodup) {x y : α} (h1 : [x, y].Sublist l) (h2 : [y, x].Sublist l) :
    False := by
  induction l with
  | nil => simp at h1
  | cons h t ih =>
    have hnd' := List.nodup_cons.mp hnd
    rcases List.sublist_cons_iff.mp h1 with h1 | ⟨r, hr, h1⟩
    · rcases List.sublist_cons_iff.mp h2 with h2 | ⟨r', hr', h2⟩
      · exact ih hnd'.2 h1 h2
      · -- h = y, x ∈ t; but [x, y] <+ t gives y ∈ t
        have hy : y = h := by simp at hr'; exact hr'.1
        exact hnd'.1 (hy ▸ h1.subset (by simp))
    · have hx : x = h := by simp at hr; exact hr.1
      rcases List.sublist_cons_iff.mp h2 with h2 | ⟨r', hr', h2⟩
      · exact hnd'.1 (hx ▸ h2.subset (by simp))
      · have hy : y = h := by simp at hr'; exact hr'.1
        have hr2 : r = [y] := by simp at hr; exact hr.2.symm
        subst hr2
        exact hnd'.1 (hy ▸ h1.subset (by simp))

/-- the order `np.argsort(kind="stable")[::-1]` produces: non-increasing keys, and among equal keys the higher
nucleotide index first -/
theorem argsortDesc_pairwise (f : Nat → Option Rat) :
    (argsortDesc f).Pairwise (fun a b => leKey (f b) (f a) = true ∧ (leKey (f a) (f b) = true → b < a)) := by
  unfold argsortDesc
  rw [List.pairwise_reverse]
  set le : Nat → Nat → Bool := fun a b => leKey (f a) (f b) with hle
  have htr : ∀ a b c : Nat, le a b = true → le b c = true → le a c = true :=
    fun a b c => leKey_trans _ _ _
  have htot : ∀ a b : Nat, (le a b || le b a) = true := fun a b => leKey_total _ _
  have hsorted := List.pairwise_mergeSort htr htot (List.range 4)
  have hnd : ((List.range 4).mergeSort le).Nodup := (List.mergeSort_perm _ _).nodup_iff.mpr List.nodup_range
  rw [List.pairwise_iff_forall_sublist]
  intro x y hxy
  have hsxy : le x y = true := (List.pairwise_iff_forall_sublist.mp hsorted) hxy
  refine ⟨hsxy, ?_⟩
  intro hyx
  -- x precedes y in the stable ascending sort and the keys tie: x < y in the input order
  by_contra hlt
  have hne : x ≠ y := by
    rintro rfl
    have : [x, x].Sublist ((List.range 4).mergeSort le) := hxy
    exact (List.nodup_cons.mp (hnd.sublist this)).1 (by simp)
  have hyx' : y < x := by omega
  have hx4 : x < 4 := by
    have : x ∈ (List.range 4).mergeSort le := hxy.subset (by simp)
    simpa using (List.mergeSort_perm _ _).mem_iff.mp this
  have hin : [y, x].Sublist (List.range 4) := by
    have hyr : y < 4 := by omega
    interval_cases x <;> interval_cases y <;> simp_all <;> decide
  have hout : [y, x].Sublist ((List.range 4).mergeSort le) :=
    List.sublist_mergeSort htr htot (by simp [hle, hyx]) hin
  exact sublist_pair_antisymm hnd hxy hout

/-- unfolding of `siteRecord` for an emitted position -/
theorem siteRecord_some {t : Thresh} {c : Char} {ds : List (List Nat)} {r : SiteRecord} (h : siteRecord t c ds = some r) :
    ∃ ref, baseIndex c = some ref ∧ 2 ≤ (List.range 4).countP (keepAllele t ds) ∧ r.ref = ref ∧
      r.alts = ((argsortDesc (sortKey t ds)).filter (fun a => a != ref)).filter (keepAllele t ds) ∧
      r.refMasked = !keepAllele t ds ref := by
  unfold siteRecord at h
  cases hb : baseIndex c with
  | none => simp [hb] at h
  | some ref =>
    simp only [hb] at h
    split_ifs at h with hc
    simp only [Option.some.injEq] at h
    subst h
    refine ⟨ref, rfl, by omega, rfl, ?_, rfl⟩
    simp only [alleleOrder, List.filter_cons, beq_self_eq_true, Bool.true_or, if_true, List.tail_cons]
    rw [List.filter_filter, List.filter_filter]
    apply List.filter_congr
    intro a _
    by_cases ha : a = ref
    · subst ha; simp
    · have : (a == ref) = false := by simpa using ha
      simp [this]

/-- an allele is listed as ALT iff it is a nucleotide other than the reference that meets the thresholds; REF is
always listed -/
theorem listed_iff_thresholds {t : Thresh} {c : Char} {ds : List (List Nat)} {r : SiteRecord}
    (h : siteRecord t c ds = some r) (a : Nat) :
    a ∈ r.alts ↔ a < 4 ∧ a ≠ r.ref ∧ keepAllele t ds a = true := by
  obtain ⟨ref, _, _, hr, halts, _⟩ := siteRecord_some h
  rw [halts, hr]
  simp only [List.mem_filter, mem_argsortDesc, bne_iff_ne, ne_eq]
  tauto

/-- a record is emitted iff the reference base is A/C/G/T and at least two alleles meet the thresholds -/
theorem emitted_iff_two (t : Thresh) (c : Char) (ds : List (List Nat)) :
    (siteRecord t c ds).isSome = true ↔
      ∃ ref, baseIndex c = some ref ∧ 2 ≤ (List.range 4).countP (keepAllele t ds) := by
  constructor
  · intro h
    obtain ⟨r, hr⟩ := Option.isSome_iff_exists.mp h
    obtain ⟨ref, h1, h2, _⟩ := siteRecord_some hr
    exact ⟨ref, h1, h2⟩
  · rintro ⟨ref, h1, h2⟩
    unfold siteRecord
    simp only [h1]
    have : ¬ (List.range 4).countP (keepAllele t ds) ≤ 1 := by omega
    simp [this]

/-- REF is the reference base, it is never among the ALTs, and REFMASKED is set iff it failed the thresholds -/
theorem ref_first_masked_iff {t : Thresh} {c : Char} {ds : List (List Nat)} {r : SiteRecord}
    (h : siteRecord t c ds = some r) :
    baseIndex c = some r.ref ∧ r.ref ∉ r.alts ∧ (r.refMasked = true ↔ keepAllele t ds r.ref = false) := by
  obtain ⟨ref, h1, _, hr, halts, hm⟩ := siteRecord_some h
  subst hr
  refine ⟨h1, ?_, ?_⟩
  · rw [halts]; simp [List.mem_filter]
  · rw [hm]; simp

/-- ALT alleles are in order of non-increasing mean sample frequency; ties are broken towards the higher nucleotide
index (T before G before C before A), as `argsort(kind="stable")[::-1]` does -/
theorem alts_sorted {t : Thresh} {c : Char} {ds : List (List Nat)} {r : SiteRecord} (h : siteRecord t c ds = some r) :
    r.alts.Pairwise (fun a b => leKey (sortKey t ds b) (sortKey t ds a) = true ∧
      (leKey (sortKey t ds a) (sortKey t ds b) = true → b < a)) := by
  obtain ⟨ref, _, _, _, halts, _⟩ := siteRecord_some h
  rw [halts]
  exact ((argsortDesc_pairwise _).filter _).filter _

/-- for a listed allele the sort key is its mean frequency over the samples with depth (the reported ADMF) -/
theorem sortKey_of_keep {t : Thresh} {ds : List (List Nat)} {a : Nat} (h : keepAllele t ds a = true) :
    sortKey t ds a = nanMeanFreq ds a := by
  simp [sortKey, h]

/-- no ALT is listed twice and every ALT is a nucleotide -/
theorem alts_nodup_complete {t : Thresh} {c : Char} {ds : List (List Nat)} {r : SiteRecord}
    (h : siteRecord t c ds = some r) : r.alts.Nodup ∧ ∀ a ∈ r.alts, a < 4 := by
  obtain ⟨ref, _, _, _, halts, _⟩ := siteRecord_some h
  rw [halts]
  refine ⟨((nodup_argsortDesc _).filter _).filter _, ?_⟩
  intro a ha
  exact (mem_argsortDesc _ a).mp (List.mem_filter.mp (List.mem_filter.mp ha).1).1

/-- non-vacuity: two samples, `--ind-mad 3`: the reference `A` (depth 1 + 1) fails while `C` and `T` pass, so a record
is emitted with REFMASKED -/
example : (siteRecord {} 'A' [[1, 4, 0, 4], [1, 4, 0, 4]]).map (fun r => (r.ref, r.refMasked)) = some (0, true) := by
  decide +kernel

/-- non-vacuity of the emission rule: with a single allele above the thresholds nothing is emitted -/
example : (siteRecord {} 'A' [[9, 1, 0, 0]]).isSome = false := by decide +kernel

end MCHap.C19
