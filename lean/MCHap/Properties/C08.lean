import MCHap.Model.Sched
import MCHap.Proofs.Sched
import Mathlib.Data.List.Basic
import Mathlib.Data.List.Perm.Basic
import Mathlib.Algebra.BigOperators.Group.List.Basic
import Mathlib.Tactic

/-!
# C08 — Determinism: records depend only on inputs and seed, not on cores / order / history

Over the model of `Model/Sched.lean`:

* `fit_independent_of_prior_rng`, `fitSeq_history_independent`: a fit that re-seeds BOTH generators returns the
  same trace whatever the process did before; `fit_unseeded_partial`, `fit_numpy_only_partial` are the
  machine-checked witnesses that neither re-seeding can be dropped.
* `arraySplit_partition`: the blocks handed to the workers partition the loci.
* `interleave_perm`: for EVERY execution of the worker / queue / writer protocol that ends with status 0 the
  written lines are a permutation of all lines, each worker's lines in their own order — proved from an invariant
  over the small-step relation (`Proofs/Sched.lean`), by induction on executions.
* `failure_propagates`, `error_only_on_failure`, `progress`, `no_infinite_execution`: a failing locus makes
  every execution end with the error status; no deadlock, no infinite run (in the model).
* `runSingle_spec`, `runMulti_spec`, `cores_agree`, `record_function_of_locus`: whole programs.

What the model cannot exhibit (OS scheduling, pipes, `multiprocessing` internals, the RNG streams themselves)
is covered only by the runs of `harness/c08.py`.
-/
namespace MCHap.C08
open MCHap MCHap.Sched

variable {S I O T L A : Type}

/-! ### (a) random state -/


theorem fit_independent_of_prior_rng (K : Sampler S I O) (seed : ℕ) (r₁ r₂ : Rng S) (x : I) :
    fit K (some seed) r₁ x = fit K (some seed) r₂ x := by
  simp [fit, seedNumba, seedNumpy]

theorem fitSeq_history_independent (K : Sampler S I O) (jobs : List (ℕ × I)) (r r₀ : Rng S) :
    (fitSeq K (jobs.map (fun j => (some j.1, j.2))) r).1
      = jobs.map (fun j => (fit K (some j.1) r₀ j.2).1) := by
  induction jobs generalizing r with
  | nil => simp [fitSeq]
  | cons j js ih =>
    simp only [List.map_cons, fitSeq]
    rw [ih]
    rw [fit_independent_of_prior_rng K j.1 r r₀]


/-- a sampler that returns what it finds in the generators (used for the witnesses below) -/
def peek : Sampler ℕ Unit (ℕ × ℕ) :=
  { initNp := fun s => s, initNb := fun s => s, run := fun r _ => ((r.np, r.nb), r) }

/-- non-vacuity: the re-seeded fit really reads the seeded state -/
example : (fit peek (some 42) ⟨1, 2⟩ ()).1 = (42, 42) := by decide

/-- *partial*: without a seed (`random_seed=None`) the result depends on the history of the process -/
theorem fit_unseeded_partial : (fit peek none ⟨1, 2⟩ ()).1 ≠ (fit peek none ⟨3, 2⟩ ()).1 := by decide

/-- *partial*: seeding numpy alone (dropping `seed_numba(seed)`) leaves a dependence on numba's generator;
    likewise for seeding numba alone -/
theorem fit_numpy_only_partial :
    (peek.run (seedNumpy peek 42 ⟨1, 2⟩) ()).1 ≠ (peek.run (seedNumpy peek 42 ⟨1, 3⟩) ()).1 ∧
    (peek.run (seedNumba peek 42 ⟨1, 2⟩) ()).1 ≠ (peek.run (seedNumba peek 42 ⟨5, 2⟩) ()).1 := by
  decide

/-! ### (b) blocks -/

theorem splitSizes_sum (n k : ℕ) (hk : 0 < k) : (splitSizes n k).sum = n := by
  unfold splitSizes
  simp only [List.sum_append, List.sum_replicate, smul_eq_mul]
  have h1 := Nat.div_add_mod n k
  have h2 := Nat.mod_lt n hk
  generalize n / k = q at *
  generalize n % k = r at *
  obtain ⟨d, rfl⟩ := Nat.exists_eq_add_of_lt h2
  have : r + d + 1 - r = d + 1 := by omega
  rw [this, ← h1]; ring

theorem splitSizes_length (n k : ℕ) (hk : 0 < k) : (splitSizes n k).length = k := by
  unfold splitSizes
  have h2 := Nat.mod_lt n hk
  simp; omega

theorem cutBy_flatten {α} (sizes : List ℕ) (l : List α) : (cutBy sizes l).flatten = l.take sizes.sum := by
  induction sizes generalizing l with
  | nil => simp [cutBy]
  | cons s ss ih => simp [cutBy, ih, List.take_add]

theorem cutBy_length {α} (sizes : List ℕ) (l : List α) : (cutBy sizes l).length = sizes.length := by
  induction sizes generalizing l with
  | nil => simp [cutBy]
  | cons s ss ih => simp [cutBy, ih]

theorem cutBy_sizes {α} (sizes : List ℕ) (l : List α) (h : sizes.sum ≤ l.length) :
    (cutBy sizes l).map List.length = sizes := by
  induction sizes generalizing l with
  | nil => simp [cutBy]
  | cons s ss ih =>
    simp only [List.sum_cons] at h
    simp only [cutBy, List.map_cons, List.length_take]
    rw [ih]
    · congr 1; omega
    · simp; omega


/-- `np.array_split`: the blocks concatenate to the loci in order, there are `k` of them, block `i`
    has `n / k` elements plus one for the first `n % k` blocks; so sizes differ by at most one -/
theorem arraySplit_partition {α} (k : ℕ) (l : List α) (hk : 0 < k) :
    ∃ blocks, arraySplit k l = some blocks ∧ blocks.flatten = l ∧ blocks.length = k ∧
      blocks.map List.length = splitSizes l.length k ∧
      (∀ b ∈ blocks, b.length = l.length / k ∨ b.length = l.length / k + 1) ∧
      (∀ i, i < k → (blocks[i]?).map List.length
          = some (l.length / k + if i < l.length % k then 1 else 0)) := by
  have hsz := cutBy_sizes (splitSizes l.length k) l (by rw [splitSizes_sum _ _ hk])
  refine ⟨cutBy (splitSizes l.length k) l, by simp [arraySplit, Nat.pos_iff_ne_zero.mp hk], ?_, ?_, hsz, ?_, ?_⟩
  · rw [cutBy_flatten, splitSizes_sum _ _ hk, List.take_length]
  · rw [cutBy_length, splitSizes_length _ _ hk]
  · intro b hb
    have : b.length ∈ (cutBy (splitSizes l.length k) l).map List.length := List.mem_map_of_mem hb
    rw [hsz] at this
    simp only [splitSizes, List.mem_append, List.mem_replicate] at this
    rcases this with ⟨_, h⟩ | ⟨_, h⟩
    · exact Or.inr h
    · exact Or.inl h
  · intro i hi
    have h1 : ((cutBy (splitSizes l.length k) l).map List.length)[i]? = (splitSizes l.length k)[i]? := by
      rw [hsz]
    rw [List.getElem?_map] at h1
    rw [h1]
    have hm := Nat.mod_lt l.length hk
    unfold splitSizes
    by_cases hlt : i < l.length % k
    · rw [List.getElem?_append_left (by simpa using hlt)]
      simp [hlt]
    · rw [List.getElem?_append_right (by simpa using hlt)]
      simp only [List.length_replicate, hlt, if_false, Nat.add_zero]
      rw [List.getElem?_replicate]
      simp; omega

theorem arraySplit_zero {α} (l : List α) : arraySplit 0 l = none := by simp [arraySplit]


/-! ### (c) the protocol -/


theorem filterMap_of_map_eq {call : L → Option A} {l : List L} {e : List A}
    (h : l.map call = e.map some) : l.filterMap call = e ∧ ∀ x ∈ l, ∃ a, call x = some a := by
  induction l generalizing e with
  | nil => cases e <;> simp_all
  | cons x xs ih =>
    cases e with
    | nil => simp at h
    | cons a e =>
      simp only [List.map_cons, List.cons.injEq] at h
      obtain ⟨h1, h2⟩ := ih h.2
      refine ⟨by simp [h.1, h1], ?_⟩
      intro y hy
      rcases List.mem_cons.mp hy with rfl | hy
      · exact ⟨a, h.1⟩
      · exact h2 y hy

theorem flatten_map_filterMap (f : L → Option A) (bs : List (List L)) :
    (bs.map (List.filterMap f)).flatten = bs.flatten.filterMap f := by
  induction bs with
  | nil => simp
  | cons b bs ih => simp only [List.map_cons, List.flatten_cons, List.filterMap_append, ih]

/-- once `KILL` has been sent, every block has been emitted completely and without failure -/
theorem finished_all_ok {call : L → Option A} {blocks : List (List L)} {s : Proto L A}
    {E : List (List A)} {ls : List A} (hI : Inv call blocks s E ls) (hf : s.main = .finished) :
    E = blocks.map (List.filterMap call) ∧ ∀ l ∈ blocks.flatten, ∃ a, call l = some a := by
  have key : ∀ (i : ℕ) (b : List L), blocks[i]? = some b →
      E[i]? = some (b.filterMap call) ∧ ∀ x ∈ b, ∃ a, call x = some a := by
    intro i b hb
    have hi : i < blocks.length := (List.getElem?_eq_some_iff.mp hb).1
    obtain ⟨done, e, h1, h2, h3⟩ := hI.w1 i b [] hb (hI.m2 hf i hi)
    simp only [List.append_nil] at h1
    subst h1
    obtain ⟨h4, h5⟩ := filterMap_of_map_eq h3
    exact ⟨by rw [h2, h4], h5⟩
  constructor
  · apply List.ext_getElem?
    intro i
    by_cases hi : i < blocks.length
    · have hb : blocks[i]? = some blocks[i] := List.getElem?_eq_getElem hi
      rw [(key i _ hb).1]; simp [hb]
    · have h1 : E[i]? = none := List.getElem?_eq_none (by rw [hI.elen]; omega)
      rw [h1]; simp; omega
  · intro l hl
    obtain ⟨b, hb, hlb⟩ := List.mem_flatten.mp hl
    obtain ⟨i, hi⟩ := List.getElem?_of_mem hb
    exact (key i b hi).2 l hlb

theorem exited_true_iff (s : Proto L A) :
    s.exited = some true ↔ s.main = .finished ∧ s.writerOn = false := by
  unfold Proto.exited
  cases hm : s.main <;> cases hw : s.writerOn <;> simp

/-- **every** terminating execution of the protocol writes each line of each block exactly once
    (a permutation of all lines), every line whole (queue items are whole lines by construction),
    and the lines of one worker in their original relative order; the queue is drained and no locus failed -/
theorem interleave_perm (call : L → Option A) (blocks : List (List L)) (s : Proto L A)
    (h : Steps call (Proto.init blocks) s) (hend : s.exited = some true) :
    s.out.Perm (blocks.flatten.filterMap call) ∧
    (∀ b ∈ blocks, (b.filterMap call).Sublist s.out) ∧
    (∀ l ∈ blocks.flatten, ∃ a, call l = some a) ∧
    s.queue = [] := by
  obtain ⟨E, ls, hI⟩ := inv_steps h
  obtain ⟨hf, hw⟩ := (exited_true_iff s).mp hend
  obtain ⟨hE, hall⟩ := finished_all_ok hI hf
  have hls : ls = [] := (hI.woff hw).2
  subst hls
  have hsh := hI.shuf
  simp only [List.append_nil] at hsh
  refine ⟨?_, ?_, hall, ?_⟩
  · have := hsh.perm
    rwa [hE, flatten_map_filterMap] at this
  · intro b hb
    exact hsh.sublist _ (by rw [hE]; exact List.mem_map_of_mem hb)
  · rw [hI.queue]; simp [tailOf, hw]

/-- a state that has not exited can always move: the protocol has no deadlock -/
theorem progress {call : L → Option A} {blocks : List (List L)} {s : Proto L A}
    (h : Steps call (Proto.init blocks) s) (hex : s.exited = none) : ∃ s', Step call s s' := by
  obtain ⟨E, ls, hI⟩ := inv_steps h
  cases hm : s.main with
  | raised => simp [Proto.exited, hm] at hex
  | waiting j =>
    obtain ⟨hj, _⟩ := hI.m1 j hm
    by_cases hjk : j = s.workers.length
    · subst hjk; exact ⟨_, Step.kill hm⟩
    · have hj' : j < s.workers.length := by rw [hI.wlen]; rw [hI.wlen] at hjk; omega
      have hw : s.workers[j]? = some s.workers[j] := List.getElem?_eq_getElem hj'
      have hnr : s.main ≠ .raised := by rw [hm]; simp
      cases hwj : s.workers[j] with
      | none => rw [hwj] at hw; exact ⟨_, Step.raise hm hw⟩
      | some todo =>
        rw [hwj] at hw
        cases todo with
        | nil => exact ⟨_, Step.join hm hw⟩
        | cons l rest =>
          cases hc : call l with
          | none => exact ⟨_, Step.crash hnr hw hc⟩
          | some a => exact ⟨_, Step.emit hnr hw hc⟩
  | finished =>
    have hnr : s.main ≠ .raised := by rw [hm]; simp
    have hw : s.writerOn = true := by
      cases hw : s.writerOn with
      | true => rfl
      | false => simp [Proto.exited, hm, hw] at hex
    have hq := hI.queue
    simp only [tailOf, hm, hw, and_self, if_true] at hq
    cases ls with
    | nil => exact ⟨_, Step.stop hnr hw (by simpa using hq)⟩
    | cons a ls => exact ⟨_, Step.write hnr hw (by simpa using hq)⟩

theorem sum_map_set {α} (f : α → ℕ) (ws : List α) (i : ℕ) (w w' : α) (h : ws[i]? = some w) :
    ((ws.set i w').map f).sum + f w = (ws.map f).sum + f w' := by
  induction ws generalizing i with
  | nil => simp at h
  | cons x xs ih =>
    cases i with
    | zero =>
      simp only [List.getElem?_cons_zero, Option.some.injEq] at h
      subst h
      simp only [List.set_cons_zero, List.map_cons, List.sum_cons]; omega
    | succ i =>
      simp only [List.getElem?_cons_succ] at h
      have := ih i h
      simp only [List.set_cons_succ, List.map_cons, List.sum_cons]; omega

/-- every move strictly decreases `Proto.measure` -/
theorem step_decreases {call : L → Option A} {s s' : Proto L A} (h : Step call s s') :
    s'.measure < s.measure := by
  cases h with
  | @emit i l rest a hm hw hc =>
    have := sum_map_set workerWeight s.workers i _ (some rest) hw
    simp only [Proto.measure, List.length_set, List.length_append, List.length_cons, List.length_nil]
    simp only [workerWeight, List.length_cons] at this
    omega
  | @crash i l rest hm hw hc =>
    have := sum_map_set workerWeight s.workers i _ none hw
    simp only [Proto.measure, List.length_set]
    simp only [workerWeight, List.length_cons] at this
    omega
  | @join j hm hw =>
    have hj : j < s.workers.length := (List.getElem?_eq_some_iff.mp hw).1
    simp only [Proto.measure, hm, mainWeight]
    omega
  | @raise j hm hw =>
    simp only [Proto.measure, hm, mainWeight]
    omega
  | kill hm =>
    simp only [Proto.measure, hm, mainWeight, List.length_append, List.length_cons, List.length_nil]
    omega
  | @write a q hm hwon hq =>
    simp only [Proto.measure, hq, List.length_cons]
    omega
  | @stop q hm hwon hq =>
    simp only [Proto.measure, hq, hwon, List.length_cons]
    simp

/-- there is no infinite execution: the protocol cannot run forever (in the model) -/
theorem no_infinite_execution (call : L → Option A) (f : ℕ → Proto L A) :
    ¬ ∀ n, Step call (f n) (f (n + 1)) := by
  intro h
  have key : ∀ n, (f n).measure + n ≤ (f 0).measure := by
    intro n
    induction n with
    | zero => simp
    | succ n ih => have := step_decreases (h n); omega
  have := key ((f 0).measure + 1)
  omega

/-- if any locus fails, `KILL` is never sent, the exit status is never zero, and an execution that
    cannot move any more has ended with the error status -/
theorem failure_propagates (call : L → Option A) (blocks : List (List L)) (s : Proto L A)
    (h : Steps call (Proto.init blocks) s) (hfail : ∃ l ∈ blocks.flatten, call l = none) :
    s.main ≠ .finished ∧ s.exited ≠ some true ∧
      ((¬ ∃ s', Step call s s') → s.exited = some false) := by
  obtain ⟨E, ls, hI⟩ := inv_steps h
  have hnf : s.main ≠ .finished := by
    intro hf
    obtain ⟨l, hl, hc⟩ := hfail
    obtain ⟨a, ha⟩ := (finished_all_ok hI hf).2 l hl
    rw [hc] at ha; cases ha
  have hne : s.exited ≠ some true := fun he => hnf ((exited_true_iff s).mp he).1
  refine ⟨hnf, hne, fun hstuck => ?_⟩
  cases he : s.exited with
  | none => exact absurd (progress h he) hstuck
  | some b => cases b with
    | false => rfl
    | true => exact absurd he hne

/-- a run that ended with the error status did so because some locus failed (no spurious errors) -/
theorem error_only_on_failure (call : L → Option A) (blocks : List (List L)) (s : Proto L A)
    (h : Steps call (Proto.init blocks) s) (he : s.exited = some false) :
    ∃ l ∈ blocks.flatten, call l = none := by
  obtain ⟨E, ls, hI⟩ := inv_steps h
  apply hI.m3
  unfold Proto.exited at he
  cases hm : s.main with
  | raised => rfl
  | waiting j => simp [hm] at he
  | finished => cases hw : s.writerOn <;> simp [hm, hw] at he


/-! ### whole programs -/

theorem listAll_some {f : T → Option L} {ts : List T} {loci : List L} (h : listAll f ts = some loci) :
    ts.map f = loci.map some := by
  induction ts generalizing loci with
  | nil => simp [listAll] at h; subst h; rfl
  | cons t ts ih =>
    simp only [listAll] at h
    cases hf : f t with
    | none => simp [hf] at h
    | some l =>
      simp only [hf] at h
      cases hr : listAll f ts with
      | none => simp [hr] at h
      | some ls =>
        simp only [hr, Option.map_some, Option.some.injEq] at h
        subst h
        simp [hf, ih hr]

theorem listAll_none {f : T → Option L} {ts : List T} (h : listAll f ts = none) :
    ∃ t ∈ ts, f t = none := by
  induction ts with
  | nil => simp [listAll] at h
  | cons t ts ih =>
    simp only [listAll] at h
    cases hf : f t with
    | none => exact ⟨t, by simp, hf⟩
    | some l =>
      simp only [hf, Option.map_eq_none_iff] at h
      obtain ⟨t', ht', h'⟩ := ih h
      exact ⟨t', by simp [ht'], h'⟩

theorem filterMap_record {P : Prog T L A} {ts : List T} {loci : List L} (h : ts.map P.list = loci.map some) :
    loci.filterMap P.call = ts.filterMap P.record := by
  induction ts generalizing loci with
  | nil => cases loci <;> simp_all
  | cons t ts ih =>
    cases loci with
    | nil => simp at h
    | cons l ls =>
      simp only [List.map_cons, List.cons.injEq] at h
      have := ih h.2
      simp only [List.filterMap_cons, Prog.record, h.1, Option.bind_some, this]

theorem mem_loci {P : Prog T L A} {ts : List T} {loci : List L} (h : ts.map P.list = loci.map some)
    {l : L} (hl : l ∈ loci) : ∃ t ∈ ts, P.list t = some l := by
  have : some l ∈ ts.map P.list := by rw [h]; exact List.mem_map_of_mem hl
  obtain ⟨t, ht, h'⟩ := List.mem_map.mp this
  exact ⟨t, ht, h'⟩

theorem mem_targets {P : Prog T L A} {ts : List T} {loci : List L} (h : ts.map P.list = loci.map some)
    {t : T} (ht : t ∈ ts) : ∃ l ∈ loci, P.list t = some l := by
  have : P.list t ∈ loci.map some := by rw [← h]; exact List.mem_map_of_mem ht
  obtain ⟨l, hl, h'⟩ := List.mem_map.mp this
  exact ⟨l, hl, h'.symm⟩

/-- single core: exit status zero iff every target succeeds; then the records come out in target order -/
theorem runSingle_spec (P : Prog T L A) (ts : List T) :
    ((runSingle P ts).1 = true ↔ ∀ t ∈ ts, ∃ a, P.record t = some a) ∧
    ((runSingle P ts).1 = true → (runSingle P ts).2 = ts.filterMap P.record) ∧
    (runSingle P ts).2 <+: ts.filterMap P.record := by
  induction ts with
  | nil => simp [runSingle]
  | cons t ts ih =>
    obtain ⟨ih1, ih2, ih3⟩ := ih
    cases hr : P.record t with
    | none =>
      simp only [runSingle, hr]
      refine ⟨?_, by simp, by simp⟩
      simp only [Bool.false_eq_true, false_iff, not_forall]
      exact ⟨t, by simp, by simp [hr]⟩
    | some a =>
      simp only [runSingle, hr, List.filterMap_cons]
      refine ⟨?_, ?_, ?_⟩
      · rw [ih1]
        constructor
        · intro h t' ht'
          rcases List.mem_cons.mp ht' with rfl | h'
          · exact ⟨a, hr⟩
          · exact h t' h'
        · intro h t' ht'; exact h t' (List.mem_cons_of_mem _ ht')
      · intro h; rw [ih2 h]
      · exact (List.prefix_cons_inj a).mpr ih3

/-- several cores: the exit status is zero iff every target succeeds, and then the lines written are a
    permutation of the records of all targets: nothing missing, nothing twice -/
theorem runMulti_spec (P : Prog T L A) (k : ℕ) (ts : List T) (res : Bool × List A)
    (h : RunMulti P k ts res) :
    (res.1 = true ↔ ∀ t ∈ ts, ∃ a, P.record t = some a) ∧
    (res.1 = true → res.2.Perm (ts.filterMap P.record)) := by
  cases h with
  | listingFails hl =>
    obtain ⟨t, ht, hf⟩ := listAll_none hl
    refine ⟨?_, by simp⟩
    simp only [Bool.false_eq_true, false_iff, not_forall]
    exact ⟨t, ht, by simp [Prog.record, hf]⟩
  | @ends loci blocks s ok hl hb hsteps hex =>
    have hmap := listAll_some hl
    have hk : 0 < k := by
      rcases Nat.eq_zero_or_pos k with rfl | h
      · simp [arraySplit] at hb
      · exact h
    obtain ⟨blocks', hb', hflat, -⟩ := arraySplit_partition k loci hk
    rw [hb] at hb'; cases hb'
    cases ok with
    | true =>
      obtain ⟨hperm, -, hall, -⟩ := interleave_perm P.call blocks s hsteps hex
      refine ⟨?_, ?_⟩
      · simp only [true_iff]
        intro t ht
        obtain ⟨l, hl', hlt⟩ := mem_targets hmap ht
        obtain ⟨a, ha⟩ := hall l (hflat ▸ hl')
        exact ⟨a, by simp [Prog.record, hlt, ha]⟩
      · intro _
        rw [hflat, filterMap_record hmap] at hperm
        exact hperm
    | false =>
      refine ⟨?_, by simp⟩
      simp only [Bool.false_eq_true, false_iff, not_forall]
      obtain ⟨l, hl', hc⟩ := error_only_on_failure P.call blocks s hsteps hex
      obtain ⟨t, ht, hlt⟩ := mem_loci hmap (hflat ▸ hl')
      exact ⟨t, ht, by simp [Prog.record, hlt, hc]⟩


/-- any two successful runs on the same targets (any numbers of cores) write the same multiset of lines,
    which is also what the single-core program writes, in target order -/
theorem cores_agree (P : Prog T L A) (k₁ k₂ : ℕ) (ts : List T) (out₁ out₂ : List A)
    (h₁ : RunMulti P k₁ ts (true, out₁)) (h₂ : RunMulti P k₂ ts (true, out₂)) :
    out₁.Perm out₂ ∧ (runSingle P ts).1 = true ∧ out₁.Perm (runSingle P ts).2 := by
  obtain ⟨a1, a2⟩ := runMulti_spec P k₁ ts _ h₁
  obtain ⟨-, b2⟩ := runMulti_spec P k₂ ts _ h₂
  obtain ⟨c1, c2, -⟩ := runSingle_spec P ts
  have hok : (runSingle P ts).1 = true := c1.mpr (a1.mp rfl)
  exact ⟨(a2 rfl).trans (b2 rfl).symm, hok, by rw [c2 hok]; exact a2 rfl⟩

/-- a multi-core run and the single-core run agree on the exit status -/
theorem status_agree (P : Prog T L A) (k : ℕ) (ts : List T) (res : Bool × List A)
    (h : RunMulti P k ts res) : res.1 = (runSingle P ts).1 := by
  obtain ⟨a1, -⟩ := runMulti_spec P k ts _ h
  obtain ⟨c1, -, -⟩ := runSingle_spec P ts
  rw [Bool.eq_iff_iff, a1, c1]

/-- the line of a target is `P.record t` — a function of the target alone — in every successful run that
    lists it: other targets, their order, the number of cores and the schedule do not enter -/
theorem record_function_of_locus [DecidableEq A] (P : Prog T L A) (k₁ k₂ : ℕ) (ts₁ ts₂ : List T) (out₁ out₂ : List A)
    (h₁ : RunMulti P k₁ ts₁ (true, out₁)) (h₂ : RunMulti P k₂ ts₂ (true, out₂))
    (t : T) (ht₁ : t ∈ ts₁) (ht₂ : t ∈ ts₂) :
    ∃ a, P.record t = some a ∧ a ∈ out₁ ∧ a ∈ out₂ ∧ a ∈ (runSingle P ts₁).2 ∧
      out₁.count a = (ts₁.filterMap P.record).count a := by
  obtain ⟨a1, a2⟩ := runMulti_spec P k₁ ts₁ _ h₁
  obtain ⟨b1, b2⟩ := runMulti_spec P k₂ ts₂ _ h₂
  obtain ⟨a, ha⟩ := a1.mp rfl t ht₁
  obtain ⟨c1, c2, -⟩ := runSingle_spec P ts₁
  have hok : (runSingle P ts₁).1 = true := c1.mpr (a1.mp rfl)
  have m1 : a ∈ ts₁.filterMap P.record := List.mem_filterMap.mpr ⟨t, ht₁, ha⟩
  have m2 : a ∈ ts₂.filterMap P.record := List.mem_filterMap.mpr ⟨t, ht₂, ha⟩
  exact ⟨a, ha, (a2 rfl).mem_iff.mpr m1, (b2 rfl).mem_iff.mpr m2, by rw [c2 hok]; exact m1,
    (a2 rfl).count_eq a⟩

/-! ### the executable forms used by the driver -/

/-- `step?` (what the driver runs) only makes moves of the relation -/
theorem step?_sound (call : L → Option A) (s s' : Proto L A) (c : Actor) (h : step? call s c = some s') :
    Step call s s' := by
  cases c with
  | worker i =>
    simp only [step?] at h
    split_ifs at h with hm
    split at h
    · rename_i l rest hw
      split at h
      · rename_i a hc
        cases h; exact Step.emit hm hw hc
      · rename_i hc
        cases h; exact Step.crash hm hw hc
    · cases h
  | main =>
    simp only [step?] at h
    split at h
    · rename_i j hm
      split_ifs at h with hj
      · cases h; subst hj; exact Step.kill hm
      · split at h
        · rename_i hw; cases h; exact Step.join hm hw
        · rename_i hw; cases h; exact Step.raise hm hw
        · cases h
    · cases h
  | writer =>
    simp only [step?] at h
    split_ifs at h with hm hw
    split at h
    · rename_i a q hq; cases h; exact Step.write hm hw hq
    · rename_i q hq; cases h; exact Step.stop hm hw hq
    · cases h

/-- every schedule the driver accepts is an execution -/
theorem runSchedule_sound (call : L → Option A) (s s' : Proto L A) (cs : List Actor)
    (h : runSchedule call s cs = some s') : Steps call s s' := by
  have key : ∀ (cs : List Actor) (s₀ s : Proto L A), Steps call s₀ s → runSchedule call s cs = some s' →
      Steps call s₀ s' := by
    intro cs
    induction cs with
    | nil => intro s₀ s h0 h; simp [runSchedule] at h; subst h; exact h0
    | cons c cs ih =>
      intro s₀ s h0 h
      simp only [runSchedule] at h
      cases hs : step? call s c with
      | none => simp [hs] at h
      | some t =>
        simp only [hs, Option.bind_some] at h
        exact ih s₀ t (Steps.tail h0 (step?_sound call s t c hs)) h
  exact key cs s s (Steps.refl s) h

theorem flatten_set_head {α} (ws : List (List α)) (i : ℕ) (x : α) (tl : List α)
    (h : ws[i]? = some (x :: tl)) : ws.flatten.Perm (x :: (ws.set i tl).flatten) := by
  induction ws generalizing i with
  | nil => simp at h
  | cons w ws ih =>
    cases i with
    | zero =>
      simp only [List.getElem?_cons_zero, Option.some.injEq] at h
      subst h
      simp
    | succ i =>
      simp only [List.getElem?_cons_succ] at h
      simp only [List.set_cons_succ, List.flatten_cons]
      exact (List.Perm.append_left w (ih i h)).trans List.perm_middle

/-- the driver's admissibility test is sound: an accepted order is a permutation of all block elements in which
    every block keeps its own order (the two conclusions of `interleave_perm`) -/
theorem isShuffle_sound {α} [DecidableEq α] (ws : List (List α)) (out : List α)
    (h : isShuffle ws out = true) : out.Perm ws.flatten ∧ ∀ w ∈ ws, w.Sublist out := by
  induction out generalizing ws with
  | nil =>
    simp only [isShuffle, List.all_eq_true, List.isEmpty_iff] at h
    refine ⟨?_, fun w hw => by rw [h w hw]⟩
    have : ws.flatten = [] := by
      rw [List.flatten_eq_nil_iff]; exact h
    rw [this]
  | cons x rest ih =>
    simp only [isShuffle] at h
    cases hf : ws.findIdx? (fun w => w.head? = some x) with
    | none => simp [hf] at h
    | some i =>
      simp only [hf] at h
      obtain ⟨hi, hp, -⟩ := List.findIdx?_eq_some_iff_getElem.mp hf
      simp only [decide_eq_true_eq] at hp
      obtain ⟨tl, htl⟩ : ∃ tl, ws[i] = x :: tl := by
        cases hw : ws[i] with
        | nil => rw [hw] at hp; simp at hp
        | cons y tl => rw [hw] at hp; simp at hp; exact ⟨tl, by rw [hp]⟩
      have hget : ws[i]? = some (x :: tl) := by rw [List.getElem?_eq_getElem hi, htl]
      have hD : (ws.getD i []).drop 1 = tl := by
        simp [List.getD, hget]
      rw [hD] at h
      obtain ⟨ih1, ih2⟩ := ih _ h
      refine ⟨((List.Perm.cons x ih1).trans (flatten_set_head ws i x tl hget).symm), ?_⟩
      intro w hw
      obtain ⟨j, hj⟩ := List.getElem?_of_mem hw
      by_cases hij : i = j
      · subst hij
        rw [hget] at hj; cases hj
        have : tl ∈ ws.set i tl := List.mem_iff_getElem?.mpr ⟨i, by rw [List.getElem?_set_self hi]⟩
        exact (ih2 tl this).cons_cons x
      · have : w ∈ ws.set i tl := List.mem_iff_getElem?.mpr ⟨j, by rw [List.getElem?_set_ne hij]; exact hj⟩
        exact (ih2 w this).cons x

/-- non-vacuity of `interleave_perm` and `failure_propagates`: a two-worker execution that interleaves, and one
    with a failing locus that ends with the error status -/
example :
    (runSchedule (fun l : ℕ => some (l * 10)) (Proto.init [[1, 2], [3]])
      [.worker 1, .worker 0, .writer, .worker 0, .main, .main, .main, .writer, .writer, .writer]).map
        (fun s => (s.out, s.exited)) = some ([30, 10, 20], some true) := by decide

example :
    (runSchedule (fun l : ℕ => if l = 2 then none else some (l * 10)) (Proto.init [[1, 2], [3]])
      [.worker 1, .worker 0, .writer, .worker 0, .main]).map
        (fun s => (s.out, s.exited)) = some ([30], some false) := by decide

example : arraySplit 3 [1, 2, 3, 4, 5, 6, 7, 8] = some [[1, 2, 3], [4, 5, 6], [7, 8]] := by decide

end MCHap.C08
