import MCHap.Model.Reads
import Mathlib.Tactic
namespace MCHap.C06
end MCHap.C06
