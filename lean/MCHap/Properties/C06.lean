import MCHap.Model.Reads
import MCHap.Proofs.Reads
import Mathlib.Data.List.Basic
import Mathlib.Data.List.Perm.Basic
import Mathlib.Tactic

/-!
# C06 — Read extraction: the matrix fed to inference is exactly the filtered pileup

All statements are about `extract` (the model of `extract_read_variants`), `sampleStats` / `poolRows`
(`encode_sample_reads`) and `validateRef` (`Locus.validate_reference_alleles`) of `Model/Reads.lean`.

Vocabulary: `used L hdr o k a` — the alignment `a` overlaps the locus window (`fetched`), passes the filter cascade
(`passes`), its read group maps to the sample key `k` (`keyOf`), and `k` is selected.  `names d k` are the read names of
sample `k`'s dict in insertion order; `basesAt … k q j` are the (base, phred) pairs aligned to SNV `j` by the used
alignments named `q`, in file order.
-/
set_option linter.unusedSimpArgs false
set_option linter.unusedVariables false

namespace MCHap.C06
open MCHap

/-- the alignment contributes to the rows of sample `k` -/
def used (L : Locus) (hdr : List ReadGroup) (o : ExtractOpts) (k : String) (a : Aln) : Prop :=
  fetched L a = true ∧ passes o a = true ∧ keyOf hdr o a = some k ∧ selected o k = true

/-- read names of sample `k`, in dict order -/
def names (d : Data) (k : String) : List String := (comp d k).map Prod.fst

/-- Boolean form of `used` -/
def usedF (L : Locus) (hdr : List ReadGroup) (o : ExtractOpts) (k : String) (a : Aln) : Bool :=
  fetched L a && usedB hdr o k a

theorem usedF_iff {L : Locus} {hdr : List ReadGroup} {o : ExtractOpts} {k : String} {a : Aln} :
    usedF L hdr o k a = true ↔ used L hdr o k a := by
  simp only [usedF, usedB, used, Bool.and_eq_true, beq_iff_eq]
  tauto

/-- the alignments of sample `k`, in file order -/
def usedReads (L : Locus) (hdr : List ReadGroup) (o : ExtractOpts) (k : String) (reads : List Aln) : List Aln :=
  reads.filter (usedF L hdr o k)

/-- (base, phred) aligned to SNV `j` by the used alignments named `q` -/
def basesAt (L : Locus) (hdr : List ReadGroup) (o : ExtractOpts) (reads : List Aln) (k q : String) (j : Nat) :
    List (Char × Nat) :=
  ((((usedReads L hdr o k reads).filter (fun a => a.qname == q)).flatMap (callsOf L)).filter
    (fun c => c.1 == j)).map Prod.snd

/-! ### the filter cascade -/

/-- the `if / elif` cascade is the conjunction the property states: mapped, MAPQ ≥ threshold, and not duplicate /
QC-fail / supplementary unless the keep flag is given. Secondary alignments are *not* filtered. -/
theorem passes_iff (o : ExtractOpts) (a : Aln) :
    passes o a = true ↔
      a.isUnmapped = false ∧ o.minQ ≤ a.mapq ∧ (a.isDuplicate = true → o.skipDup = false) ∧
        (a.isQcfail = true → o.skipQc = false) ∧ (a.isSupplementary = true → o.skipSupp = false) := by
  unfold passes
  cases a.isUnmapped <;> cases a.isDuplicate <;> cases a.isQcfail <;> cases a.isSupplementary <;>
    cases o.skipDup <;> cases o.skipQc <;> cases o.skipSupp <;> simp

/-! ### rows -/

/-- the per-sample projection of the loop -/
theorem comp_extract {L : Locus} {hdr : List ReadGroup} {o : ExtractOpts} {reads : List Aln} {d : Data}
    (h : extract L hdr o reads = .ok d) (k : String) :
    comp d k = (usedReads L hdr o k reads).foldl (upd L) [] := by
  unfold extract at h
  have hfil : usedReads L hdr o k reads = (reads.filter (fetched L)).filter (usedB hdr o k) := by
    unfold usedReads usedF
    rw [List.filter_filter]
    apply List.filter_congr
    intro a _
    rw [Bool.and_comm]
  by_cases hk : k ∈ (initData hdr o).map Prod.fst
  · obtain ⟨_, hc⟩ := foldlM_step_comp k _ _ _ h hk
    rw [hc, comp_initData, hfil]
  · -- no alignment can be used for a key that is not in the header dict
    have hnone : (reads.filter (fetched L)).filter (usedB hdr o k) = [] := by
      rw [List.filter_eq_nil_iff]
      intro a _ hu
      exact hk (mem_keys_initData_of_used hu)
    have hkeys : d.map Prod.fst = (initData hdr o).map Prod.fst := by
      by_cases hne : (initData hdr o) = []
      · -- empty dict stays empty
        have : ∀ (l : List Aln) (d' : Data), l.foldlM (step L hdr o) ([] : Data) = .ok d' → d' = [] := by
          intro l
          induction l with
          | nil => intro d' hh; simp only [List.foldlM_nil, pure, Except.pure] at hh; injection hh with hh; exact hh.symm
          | cons a t ih =>
            intro d' hh
            rw [List.foldlM_cons] at hh
            cases hs : step L hdr o [] a with
            | error e => simp [hs, bind, Except.bind] at hh
            | ok d1 =>
              simp only [hs, bind, Except.bind] at hh
              have hd1 : d1 = [] := by
                unfold step at hs
                split_ifs at hs
                · injection hs with hs; exact hs.symm
                · cases hrg : a.rg with
                  | none => simp [hrg] at hs
                  | some rgid =>
                    simp only [hrg] at hs
                    cases hsk : sampleKey hdr o.idField rgid with
                    | none => simp [hsk] at hs
                    | some k0 =>
                      simp only [hsk] at hs
                      split_ifs at hs
                      · injection hs with hs; exact hs.symm
                      · cases hrc : readCalls L a with
                        | error e => simp [hrc] at hs
                        | ok c => simp only [hrc] at hs; injection hs with hs; rw [← hs]; rfl
              subst hd1
              exact ih d' hh
        rw [hne] at h ⊢
        rw [this _ _ h]
      · obtain ⟨x, hx⟩ := List.exists_mem_of_ne_nil _ hne
        have hx' : x.1 ∈ (initData hdr o).map Prod.fst := List.mem_map_of_mem hx
        exact (foldlM_step_comp x.1 _ _ _ h hx').1
    have : comp d k = [] := by
      unfold comp
      cases hl : d.lookup k with
      | none => rfl
      | some sd =>
        exfalso
        apply hk
        rw [← hkeys]
        exact (lookup_isSome_iff_mem_keys d k).mp (by simp [hl])
    rw [this, hfil, hnone]
    rfl

/-- **insertion order**: the read names of a sample are the names of its used alignments in file order, each kept at
its first occurrence -/
theorem rows_order {L : Locus} {hdr : List ReadGroup} {o : ExtractOpts} {reads : List Aln} {d : Data}
    (h : extract L hdr o reads = .ok d) (k : String) :
    names d k = appendNew [] ((usedReads L hdr o k reads).map Aln.qname) := by
  unfold names
  rw [comp_extract h k, map_fst_foldl_upd]
  rfl

/-- **one row per read name**: a row exists for `q` in sample `k` iff some alignment that overlaps the locus, passes the
filters and belongs to `k` is named `q`; and no name has two rows -/
theorem rows_iff {L : Locus} {hdr : List ReadGroup} {o : ExtractOpts} {reads : List Aln} {d : Data}
    (h : extract L hdr o reads = .ok d) (k : String) :
    (∀ q, q ∈ names d k ↔ ∃ a ∈ reads, used L hdr o k a ∧ a.qname = q) ∧ (names d k).Nodup := by
  rw [rows_order h k]
  refine ⟨?_, nodup_appendNew List.nodup_nil⟩
  intro q
  rw [mem_appendNew]
  simp only [List.not_mem_nil, false_or, List.mem_map, usedReads, List.mem_filter, usedF_iff]
  constructor
  · rintro ⟨a, ⟨ha, hu⟩, rfl⟩; exact ⟨a, ha, hu, rfl⟩
  · rintro ⟨a, ha, hu, rfl⟩; exact ⟨a, ⟨ha, hu⟩, rfl⟩

/-- a sample whose key is not selected (or not in the header) has no rows -/
theorem rows_unselected {L : Locus} {hdr : List ReadGroup} {o : ExtractOpts} {reads : List Aln} {d : Data}
    (h : extract L hdr o reads = .ok d) (k : String) (hk : selected o k = false) : names d k = [] := by
  rw [rows_order h k]
  have : usedReads L hdr o k reads = [] := by
    unfold usedReads
    rw [List.filter_eq_nil_iff]
    intro a _ hu
    have := (usedF_iff.mp hu).2.2.2
    rw [hk] at this
    cases this
  rw [this]; rfl

/-! ### cells -/

/-- the row of read name `q`: every cell is the three-way merge, in file order, of the bases its used alignments
align to that SNV, starting from the gap `('-', 0)` -/
theorem cell_spec {L : Locus} {hdr : List ReadGroup} {o : ExtractOpts} {reads : List Aln} {d : Data}
    (h : extract L hdr o reads = .ok d) (k q : String) (row : Row) (hrow : (comp d k).lookup q = some row) :
    row.length = L.snvs.length ∧
      ∀ j, j < L.snvs.length → row[j]? = some (mergeAll ('-', 0) (basesAt L hdr o reads k q j)) := by
  rw [comp_extract h k, lookup_foldl_upd] at hrow
  split_ifs at hrow with hnil
  · simp at hrow
  · simp only [List.lookup_nil, Option.getD_none, Option.some.injEq] at hrow
    subst hrow
    refine ⟨by rw [length_applyCalls]; simp [blankRow], ?_⟩
    intro j hj
    rw [getElem?_applyCalls]
    have : (blankRow L.snvs.length)[j]? = some ('-', 0) := by
      simp [blankRow, List.getElem?_replicate, hj]
    rw [this]
    rfl

/-- when a matrix is returned, every used alignment was walked without a `raise` -/
theorem used_calls_ok {L : Locus} {hdr : List ReadGroup} {o : ExtractOpts} {reads : List Aln} {d : Data}
    (h : extract L hdr o reads = .ok d) (k : String) (a : Aln) (ha : a ∈ reads) (hu : used L hdr o k a) :
    ∃ c, readCalls L a = .ok c := by
  cases hrc : readCalls L a with
  | ok c => exact ⟨c, rfl⟩
  | error e =>
    exfalso
    obtain ⟨hf, hp, hk, hs⟩ := hu
    have : ∃ e', extract L hdr o reads = .error e' := by
      unfold extract
      apply foldlM_error_of_mem (step L hdr o) a _ _ (List.mem_filter.mpr ⟨ha, hf⟩)
      intro d'
      unfold step
      simp only [hp, Bool.not_true, Bool.false_eq_true, if_false]
      unfold keyOf at hk
      cases hrg : a.rg with
      | none => simp [hrg] at hk
      | some rgid =>
        simp only [hrg, Option.bind_some] at hk
        simp only [hk, hs, Bool.not_true, Bool.false_eq_true, if_false, hrc]
        exact ⟨e, rfl⟩
    obtain ⟨e', he'⟩ := this
    rw [he'] at h
    cases h

/-- the bases a used alignment contributes are exactly the query bases at its aligned pairs that fall on an SNV -/
theorem calls_spec (L : Locus) (a : Aln) (calls : List (Nat × Char × Nat)) (h : readCalls L a = .ok calls) :
    calls = a.pairs.filterMap (pairCall L a) := readCalls_ok h

/-- the merged character: gap iff nothing is aligned, the common base if all agree, `N` otherwise -/
theorem mergeChar_spec (bs : List (Char × Nat)) (h : ∀ b ∈ bs, b.1 ≠ '-') :
    (mergeAll ('-', 0) bs).1 = specChar (bs.map Prod.fst) ∧
      ((mergeAll ('-', 0) bs).1 = '-' ↔ bs = []) ∧
      (∀ c, bs ≠ [] → (∀ b ∈ bs, b.1 = c) → (mergeAll ('-', 0) bs).1 = c) ∧
      (bs ≠ [] → (¬ ∃ c, ∀ b ∈ bs, b.1 = c) → (mergeAll ('-', 0) bs).1 = 'N') := by
  have h0 := mergeAll_char bs h
  refine ⟨h0, ?_, ?_, ?_⟩
  · rw [h0, specChar_eq_gap_iff _ (by simpa using h)]
    simp
  · intro c hne hall
    rw [h0]
    exact specChar_of_all_eq (by simpa using hne) (by simpa using hall)
  · intro hne hnot
    rw [h0]
    apply specChar_of_not_all_eq
    rintro ⟨c, hc⟩
    exact hnot ⟨c, fun b hb => hc b.1 (List.mem_map_of_mem hb)⟩

/-- the cell's character depends only on the multiset of aligned bases: any order of the mates gives the same call -/
theorem merge_order_independent (bs bs' : List (Char × Nat)) (hp : bs.Perm bs') (h : ∀ b ∈ bs, b.1 ≠ '-') :
    (mergeAll ('-', 0) bs).1 = (mergeAll ('-', 0) bs').1 := by
  rw [mergeAll_char bs h, mergeAll_char bs' (fun b hb => h b (hp.mem_iff.mpr hb))]
  exact specChar_perm (hp.map _)

/-- the summed phred is *not* order independent (three alignments A, C, A give 30 or 60): non-vacuity of the
restriction of `merge_order_independent` to the character -/
example : (mergeAll ('-', 0) [('A', 30), ('C', 30), ('A', 30)]).2 ≠ (mergeAll ('-', 0) [('A', 30), ('A', 30), ('C', 30)]).2 := by
  decide

/-! ### monotonicity in the filter options -/

/-- `o'` keeps at least what `o` keeps: keep flags only turned on, MAPQ threshold only lowered -/
def Weaker (o o' : ExtractOpts) : Prop :=
  o'.idField = o.idField ∧ o'.samples = o.samples ∧ o'.minQ ≤ o.minQ ∧
    (o'.skipDup = true → o.skipDup = true) ∧ (o'.skipQc = true → o.skipQc = true) ∧
    (o'.skipSupp = true → o.skipSupp = true)

theorem passes_mono {o o' : ExtractOpts} (hw : Weaker o o') (a : Aln) (h : passes o a = true) : passes o' a = true := by
  rw [passes_iff] at h ⊢
  obtain ⟨_, _, hq, hd, hqc, hs⟩ := hw
  obtain ⟨h1, h2, h3, h4, h5⟩ := h
  refine ⟨h1, by omega, ?_, ?_, ?_⟩
  · intro ha; have := h3 ha; cases hx : o'.skipDup <;> simp_all
  · intro ha; have := h4 ha; cases hx : o'.skipQc <;> simp_all
  · intro ha; have := h5 ha; cases hx : o'.skipSupp <;> simp_all

/-- turning a keep flag on only adds rows; raising the MAPQ threshold only removes rows -/
theorem filter_monotone {L : Locus} {hdr : List ReadGroup} {o o' : ExtractOpts} {reads : List Aln} {d d' : Data}
    (hw : Weaker o o') (h : extract L hdr o reads = .ok d) (h' : extract L hdr o' reads = .ok d') (k : String) :
    ∀ q, q ∈ names d k → q ∈ names d' k := by
  intro q hq
  obtain ⟨a, ha, ⟨hf, hp, hk, hs⟩, hn⟩ := ((rows_iff h k).1 q).mp hq
  refine ((rows_iff h' k).1 q).mpr ⟨a, ha, ⟨hf, passes_mono hw a hp, ?_, ?_⟩, hn⟩
  · simpa [keyOf, hw.1] using hk
  · simpa [selected, hw.2.1] using hs

/-- non-vacuity: a duplicate-flagged record passes only when the keep flag is on -/
example :
    let a : Aln := { qname := "r", contig := "c", flag := 0x400, mapq := 60, pos := 0, cigar := [(1, .M)],
                     seq := ['A'], quals := some [30], rg := some "g", refBases := some ['A'] }
    passes {} a = false ∧ passes { skipDup := false } a = true := by decide

/-! ### statistics -/

theorem length_of_mapM_some {α β} (f : α → Option β) : ∀ (l : List α) (l' : List β),
    l.mapM f = some l' → l'.length = l.length := by
  intro l
  induction l with
  | nil => intro l' h; simp at h; subst h; rfl
  | cons a t ih =>
    intro l' h
    rw [List.mapM_cons] at h
    cases hf : f a with
    | none => simp [hf] at h
    | some b =>
      cases ht : t.mapM f with
      | none => simp [hf, ht] at h
      | some bs =>
        simp [hf, ht] at h
        subst h
        simp [ih bs ht]

/-- RCOUNT = number of rows; SNVDP_j = number of non-gap cells in column j; RCALLS = number of cells holding a listed
allele; the counts of the de-duplicated reads sum to RCOUNT -/
theorem stats_consistent (L : Locus) (err : Rat) (phred : Option (List (Nat × Rat))) (rows : List Row) :
    let s := sampleStats L err phred rows
    s.rcount = rows.length ∧
      s.snvdp.length = L.snvs.length ∧
      (∀ j, j < L.snvs.length → s.snvdp[j]? = some (rows.countP (fun r => (r.getD j ('-', 0)).1 != '-'))) ∧
      s.rcalls = ((rows.map (rowCalls L)).map (fun c => c.countP Option.isSome)).sum ∧
      (∀ ds, s.dists = some ds → (ds.map Prod.snd).sum = s.rcount) := by
  refine ⟨rfl, by simp [sampleStats], ?_, rfl, ?_⟩
  · intro j hj
    simp [sampleStats, snvDepth, hj]
  · intro ds hds
    simp only [sampleStats] at hds
    cases hm : rows.mapM (rowDist L ((L.snvs.map (fun s => s.alleles.length)).foldl max 0) err phred) with
    | none => simp [hm] at hds
    | some dl =>
      simp only [hm, Option.map_some, Option.some.injEq] at hds
      subst hds
      rw [sum_snd_uniqueCounts]
      simp only [sampleStats]
      exact length_of_mapM_some _ _ _ hm

/-- the de-duplicated reads are pairwise distinct, are exactly the distinct inputs, and each count is the multiplicity -/
theorem uniqueCounts_spec {α : Type} [BEq α] [LawfulBEq α] (l : List α) :
    ((uniqueCounts l).map Prod.fst).Nodup ∧ (∀ x, x ∈ (uniqueCounts l).map Prod.fst ↔ x ∈ l) ∧
      (∀ xc ∈ uniqueCounts l, xc.2 = l.count xc.1) ∧ ((uniqueCounts l).map Prod.snd).sum = l.length := by
  have hm : (uniqueCounts l).map Prod.fst = uniqueFirst l [] := by
    unfold uniqueCounts; rw [List.map_map]; exact List.map_id _
  refine ⟨hm ▸ nodup_uniqueFirst l [], ?_, ?_, sum_snd_uniqueCounts l⟩
  · intro x; rw [hm, mem_uniqueFirst]; simp
  · intro xc hxc
    unfold uniqueCounts at hxc
    obtain ⟨x, _, rfl⟩ := List.mem_map.mp hxc
    rfl

/-- DP = `np.round(mean(SNVDP))`: within one half of the mean, ties to even -/
theorem dp_round (s n : Nat) (hn : 0 < n) :
    2 * (roundHalfEven s n * n) ≤ 2 * s + n ∧ 2 * s ≤ 2 * (roundHalfEven s n * n) + n ∧
      (2 * (s % n) = n → roundHalfEven s n % 2 = 0) := roundHalfEven_spec s n hn

example : roundHalfEven 5 2 = 2 ∧ roundHalfEven 7 2 = 4 ∧ roundHalfEven 7 3 = 2 ∧ roundHalfEven 8 3 = 3 := by decide

/-! ### reference consistency -/

/-- an alignment that would be used and whose MD-derived reference base at a covered SNV differs (case-insensitively)
from the SNV's REF makes the whole extraction an error — never a matrix -/
theorem ref_mismatch_is_error (L : Locus) (hdr : List ReadGroup) (o : ExtractOpts) (reads : List Aln) (k : String)
    (a : Aln) (ha : a ∈ reads) (hu : used L hdr o k a)
    (hm : ∃ x ∈ a.pairs.zip (a.refBases.getD []), ∃ j ra,
        L.idxOfPos x.1.2 = some j ∧ L.refAllele j = some ra ∧ ra.toUpper ≠ x.2.toUpper) :
    ∃ e, extract L hdr o reads = .error e := by
  obtain ⟨hf, hp, hk, hs⟩ := hu
  unfold extract
  apply foldlM_error_of_mem (step L hdr o) a _ _ (List.mem_filter.mpr ⟨ha, hf⟩)
  intro d
  unfold step
  simp only [hp, Bool.not_true, Bool.false_eq_true, if_false]
  unfold keyOf at hk
  cases hrg : a.rg with
  | none => simp [hrg] at hk
  | some rgid =>
    simp only [hrg, Option.bind_some] at hk
    simp only [hk, hs, Bool.not_true, Bool.false_eq_true, if_false]
    have : ∃ e, readCalls L a = .error e := by
      unfold readCalls
      cases hrb : a.refBases with
      | none => exact ⟨_, rfl⟩
      | some rb =>
        simp only
        split_ifs
        · exact ⟨_, rfl⟩
        · rw [hrb] at hm
          exact callsOfPairs_error_of_mismatch L a _ hm
    obtain ⟨e, he⟩ := this
    exact ⟨e, by rw [he]⟩

/-- non-vacuity of `ref_mismatch_is_error`, and the consistent twin gives a matrix -/
example :
    (match extract { contig := "c", start := 0, stop := 4, snvs := [{ pos := 1, alleles := ['A', 'C'] }] }
        [("g", "s")] {}
        [{ qname := "r", contig := "c", flag := 0, mapq := 60, pos := 0, cigar := [(3, .M)], seq := ['G', 'C', 'T'],
           quals := some [30, 30, 30], rg := some "g", refBases := some ['G', 'T', 'T'] }] with
      | .error .refMismatch => true
      | _ => false) = true ∧
    (match extract { contig := "c", start := 0, stop := 4, snvs := [{ pos := 1, alleles := ['A', 'C'] }] }
        [("g", "s")] {}
        [{ qname := "r", contig := "c", flag := 0, mapq := 60, pos := 0, cigar := [(3, .M)], seq := ['G', 'C', 'T'],
           quals := some [30, 30, 30], rg := some "g", refBases := some ['G', 'a', 'T'] }] with
      | .ok [(_, [(_, [('C', 30)])])] => true
      | _ => false) = true := by
  decide

/-- `Locus.validate_reference_alleles`: accepted iff every SNV's REF equals the base of the (upper-cased) reference
sequence at its position; any disagreement is an error -/
theorem validateRef_ok_iff (seq : List Char) (start : Nat) (snvs : List Snv) :
    validateRef seq start snvs = .ok ↔
      ∀ s ∈ snvs, ∃ ra, s.alleles.head? = some ra ∧ pyIndex seq ((s.pos : Int) - (start : Int)) = some ra := by
  induction snvs with
  | nil => simp [validateRef]
  | cons s t ih =>
    unfold validateRef
    cases hh : s.alleles.head? with
    | none => simp [hh]
    | some ra =>
      cases hp : pyIndex seq ((s.pos : Int) - (start : Int)) with
      | none => simp [hh, hp]
      | some c =>
        by_cases hc : c = ra
        · subst hc; simp [hh, hp, ih]
        · have hc' : ¬ ra = c := fun e => hc e.symm
          simp [hh, hp, hc, hc']

/-- inside the sequence `pyIndex` is plain indexing (the window of a locus contains its SNVs) -/
theorem pyIndex_inside {α} (l : List α) (start pos : Nat) (h : start ≤ pos) :
    pyIndex l ((pos : Int) - (start : Int)) = l[pos - start]? := by
  unfold pyIndex
  have : (0 : Int) ≤ (pos : Int) - (start : Int) := by omega
  simp only [this, if_true]
  congr 1
  omega

/-! ### the CIGAR walk -/

/-- pysam's walk (`Aln.pairs`) is the SAM-specification walk (`Aln.samPairs`) on every record without a padding op -/
theorem pairs_spec (a : Aln) (h : ∀ x ∈ a.cigar, x.2 ≠ CigarOp.P) : a.pairs = a.samPairs :=
  alignedPairsFrom_noP a.cigar 0 a.pos h

/-- machine-checked witness of the padding deviation: `3M2P3M` -/
example : alignedPairsFrom true [(3, .M), (2, .P), (3, .M)] 0 5 ≠ alignedPairsFrom false [(3, .M), (2, .P), (3, .M)] 0 5 := by
  decide

end MCHap.C06
