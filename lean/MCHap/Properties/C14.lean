import MCHap.Proofs.TraceAcc
import MCHap.Properties.C11

/-!
# C14 — posterior summaries are exact functionals of the retained trace

Property theorems over `MCHap/Model/Trace.lean` (model of `assemble.classes.GenotypeMultiTrace`,
`PosteriorGenotypeDistribution`, `calling.classes.GenotypeAllelesMultiTrace`,
`PosteriorGenotypeAllelesDistribution`, `mset.unique / count / unique_counts`).

`le` is the order used for the canonical sort (`lexLe` on haplotypes, `natLe` on allele indices); every theorem
about the assemble classes holds for any linear `le` (`LinLe`), instantiated at the end.
`merged (burn n t)` = the retained steps of all chains as stored (any within-step order).
-/
namespace MCHap.C14
open MCHap MCHap.Trace
set_option linter.unusedSectionVars false

section generic
variable {α : Type} [DecidableEq α] {le : α → α → Bool}

/-- the retained canonical steps are the canonical forms of the retained raw steps (sort and burn commute) -/
theorem merged_burn_canon (n : ℕ) (t : RawTrace α) :
    merged (burn n (canonTrace le t)) = (merged (burn n t)).map (canon le) := by
  unfold merged burn canonTrace
  rw [List.map_flatten]
  simp [List.map_map, Function.comp_def, List.map_drop]

/-- **the reported probability of a genotype is its relative frequency among the retained steps, as multisets**:
    for every genotype `G` (in any order), the posterior lists `canon G` with probability
    `#{retained steps that are permutations of G} / #{retained steps}` (0 = not listed). -/
theorem posterior_is_empirical (h : LinLe le) (n : ℕ) (t : RawTrace α) (G : List α) :
    probOf (posterior le n t) (canon le G)
      = (((merged (burn n t)).countP (fun s => decide (s.Perm G)) : ℕ) : ℚ)
          / (((merged (burn n t)).length : ℕ) : ℚ) := by
  unfold posterior
  rw [merged_burn_canon, probOf_posteriorOf, List.length_map, count_map_eq_countP]
  congr 2
  apply List.countP_congr
  intro s _
  simp only [decide_eq_true_eq]
  exact canon_eq_iff h s G

/-- the listed genotypes are pairwise distinct, canonical, each the canonical form of a retained step, with
    positive probability equal to the relative frequency -/
theorem posterior_entries (h : LinLe le) (n : ℕ) (t : RawTrace α) :
    ((posterior le n t).map (·.1)).Nodup ∧
    ∀ g p, (g, p) ∈ posterior le n t →
      (∃ s ∈ merged (burn n t), g = canon le s) ∧ g.Pairwise (fun a b => le a b) ∧ 0 < p ∧
      p = (((merged (burn n t)).countP (fun s => decide (s.Perm g)) : ℕ) : ℚ)
            / (((merged (burn n t)).length : ℕ) : ℚ) := by
  refine ⟨posteriorOf_keys_nodup _, ?_⟩
  intro g p hgp
  have hnd : ((posterior le n t).map (·.1)).Nodup := posteriorOf_keys_nodup _
  have hp := probOf_of_mem hnd hgp
  unfold posterior at hgp
  rw [merged_burn_canon] at hgp
  obtain ⟨hg, hpe⟩ := mem_posteriorOf.mp hgp
  obtain ⟨s, hs, rfl⟩ := List.mem_map.mp hg
  have hcanon : canon le (canon le s) = canon le s := canon_idem h s
  refine ⟨⟨s, hs, rfl⟩, canon_pairwise h s, ?_, ?_⟩
  · rw [hpe]
    have hpos := count_pos_of_mem hg
    have hlen : 0 < ((merged (burn n t)).map (canon le)).length := List.length_pos_of_mem hg
    exact div_pos (by exact_mod_cast hpos) (by exact_mod_cast hlen)
  · rw [← hp, ← hcanon, posterior_is_empirical h, hcanon]

/-- the probabilities sum to one -/
theorem posterior_sum_one (n : ℕ) (t : RawTrace α) (hne : merged (burn n t) ≠ []) :
    ((posterior le n t).map (·.2)).sum = 1 := by
  have := expectation_posteriorOf (merged (burn n (canonTrace le t))) (fun _ => (1 : ℚ))
  simp only [mul_one] at this
  unfold posterior
  rw [this, merged_burn_canon]
  simp only [List.map_const', List.length_map, List.sum_replicate]
  have : (merged (burn n t)).length ≠ 0 := by simpa using hne
  rw [nsmul_eq_mul, mul_one, div_self]
  exact_mod_cast this

/-- listed by decreasing probability -/
theorem posterior_sorted (n : ℕ) (t : RawTrace α) :
    (posterior le n t).Pairwise (fun a b => b.2 ≤ a.2) := sortDesc_pairwise _

/-- **burn-in removes exactly the first `n` steps of every chain**: chain `c` of the burnt trace is chain `c`
    without its first `n` steps (step `i` of it is step `n + i` of the original), the number of chains is
    unchanged, and for `S`-step chains exactly `chains · (S − n)` steps are retained. -/
theorem burn_exact (n : ℕ) (t : RawTrace α) :
    (burn n t).length = t.length ∧
    (∀ (c : ℕ) (ch : List (List α)), t[c]? = some ch → (burn n t)[c]? = some (ch.drop n) ∧ ch = ch.take n ++ ch.drop n ∧
        (ch.drop n).length = ch.length - n ∧ ∀ i, (ch.drop n)[i]? = ch[n + i]?) ∧
    (∀ S, (∀ ch ∈ t, ch.length = S) → (merged (burn n t)).length = t.length * (S - n)) := by
  refine ⟨by simp [burn], ?_, ?_⟩
  · intro c ch hc
    refine ⟨by simp [burn, hc], (List.take_append_drop n ch).symm, by simp, ?_⟩
    intro i; simp
  · intro S hS
    unfold merged burn
    rw [List.length_flatten, List.map_map]
    have : (t.map (List.length ∘ List.drop n)) = t.map (fun _ => S - n) := by
      apply List.map_congr_left
      intro ch hch
      simp [hS ch hch]
    rw [this]
    simp

/-- **order invariance**: if every stored step of `t'` is a permutation of the corresponding step of `t`, the two
    traces have the same canonical form — hence the same posterior and (below) the same value of every summary -/
theorem canonTrace_perm_invariant (h : LinLe le) (t t' : RawTrace α)
    (hp : List.Forall₂ (List.Forall₂ List.Perm) t t') : canonTrace le t = canonTrace le t' := by
  unfold canonTrace
  induction hp with
  | nil => rfl
  | cons hch _ ih =>
    simp only [List.map_cons]
    congr 1
    induction hch with
    | nil => rfl
    | cons hs _ ih2 =>
      simp only [List.map_cons]
      congr 1
      exact (canon_eq_iff h _ _).mpr hs

theorem posterior_perm_invariant (h : LinLe le) (n : ℕ) (t t' : RawTrace α)
    (hp : List.Forall₂ (List.Forall₂ List.Perm) t t') :
    posterior le n t = posterior le n t' ∧
    (∀ thr, replicateIncongruence thr (burn n (canonTrace le t)) = replicateIncongruence thr (burn n (canonTrace le t'))) := by
  unfold posterior
  rw [canonTrace_perm_invariant h t t' hp]
  exact ⟨rfl, fun _ => rfl⟩

/-- **every expectation under the reported posterior is the average over the retained steps** (the source of
    all the summary identities below) -/
theorem expectation_eq (n : ℕ) (t : RawTrace α) (f : List α → ℚ) :
    ((posterior le n t).map (fun gp => gp.2 * f gp.1)).sum
      = ((merged (burn n t)).map (fun s => f (canon le s))).sum / (((merged (burn n t)).length : ℕ) : ℚ) := by
  unfold posterior
  rw [expectation_posteriorOf, merged_burn_canon, List.map_map, List.length_map]
  rfl

/-- `mode()` returns a listed genotype whose probability is maximal over all genotypes -/
theorem mode_is_max (h : LinLe le) (n : ℕ) (t : RawTrace α) :
    (merged (burn n t) ≠ [] → (modeOf (posterior le n t)).isSome) ∧
    ∀ g p, modeOf (posterior le n t) = some (g, p) →
      (g, p) ∈ posterior le n t ∧ ∀ G, probOf (posterior le n t) G ≤ p := by
  constructor
  · intro hne
    apply modeOf_isSome
    unfold posterior
    rw [Ne, posteriorOf_eq_nil, merged_burn_canon]
    simpa using hne
  · intro g p hm
    obtain ⟨hmem, hmax⟩ := modeOf_spec hm
    refine ⟨hmem, ?_⟩
    intro G
    have hnd := (posterior_entries h n t).1
    by_cases hG : G ∈ (posterior le n t).map (·.1)
    · obtain ⟨⟨G', q⟩, hq, e⟩ := List.mem_map.mp hG
      simp only at e; subst e
      rw [probOf_of_mem hnd hq]
      exact hmax _ hq
    · rw [probOf_of_not_mem hG]
      exact le_of_lt ((posterior_entries h n t).2 g p hmem).2.2.1

/-! ### mode support (`mode_genotype_support`, `mode(genotype_support=True)`) -/

/-- the accumulated total of a support key = the total probability of the listed genotypes with that key -/
theorem supportGroups_total (post : List (List α × ℚ)) (k : List α) :
    probOf (supportGroups post) k = ((post.filter (fun gp => decide (uniq gp.1 = k))).map (·.2)).sum := by
  unfold supportGroups
  rw [probOf_foldl_addTo (fun gp : List α × ℚ => uniq gp.1) (fun gp => gp.2) k post []]
  simp [probOf]

theorem modeSupportDist_eq {post : List (List α × ℚ)} {k : List α} (hk : modeSupportKey post = some k) :
    modeSupportDist post = post.filter (fun gp => decide (uniq gp.1 = k)) := by
  unfold modeSupportDist; rw [hk]

theorem modeSupportDist_none {post : List (List α × ℚ)} (hk : modeSupportKey post = none) :
    modeSupportDist post = [] := by
  unfold modeSupportDist; rw [hk]

/-- **support probability**: when a genotype `m` is reported for the mode support, the support probability (SPM)
    is the total probability of the listed genotypes that have the same `mset.unique` as `m`; `m` is a listed
    genotype and the most probable among them -/
theorem support_prob_def (post : List (List α × ℚ)) (m : List α) (pm : ℚ)
    (hm : supportModeGenotype post = some (m, pm)) :
    Trace.supportProb post = ((post.filter (fun gp => decide (uniq gp.1 = uniq m))).map (·.2)).sum ∧
    supportAlleles post = some (uniq m) ∧
    (m, pm) ∈ post ∧ ∀ gp ∈ post, uniq gp.1 = uniq m → gp.2 ≤ pm := by
  unfold supportModeGenotype at hm
  obtain ⟨hmem, hmax⟩ := modeOf_spec hm
  cases hk : modeSupportKey post with
  | none => rw [modeSupportDist_none hk] at hmem; simp at hmem
  | some k =>
    rw [modeSupportDist_eq hk] at hmem hmax
    simp only [List.mem_filter, decide_eq_true_eq] at hmem hmax
    have hkm : uniq m = k := hmem.2
    refine ⟨?_, ?_, hmem.1, ?_⟩
    · unfold Trace.supportProb
      rw [modeSupportDist_eq hk, hkm]
    · unfold supportAlleles
      rw [modeSupportDist_eq hk]
      cases hf : post.filter (fun gp => decide (uniq gp.1 = k)) with
      | nil =>
        have : (m, pm) ∈ post.filter (fun gp => decide (uniq gp.1 = k)) := by
          simp only [List.mem_filter, decide_eq_true_eq]; exact hmem
        rw [hf] at this; simp at this
      | cons a t =>
        have ha : a ∈ post.filter (fun gp => decide (uniq gp.1 = k)) := by rw [hf]; simp
        simp only [List.mem_filter, decide_eq_true_eq] at ha
        simp only [List.head?_cons, Option.map_some, ha.2, hkm]
    · intro gp hgp hu
      exact hmax gp ⟨hgp, by rw [hu, hkm]⟩

/-- **the reported support has maximal total probability** among the supports of the listed genotypes -/
theorem support_is_max (post : List (List α × ℚ)) (m : List α) (pm : ℚ)
    (hm : supportModeGenotype post = some (m, pm)) :
    ∀ gp ∈ post, ((post.filter (fun gp' => decide (uniq gp'.1 = uniq gp.1))).map (·.2)).sum ≤ Trace.supportProb post := by
  intro gp hgp
  have hspec := (support_prob_def post m pm hm).1
  -- the key chosen by `modeOf (supportGroups post)`
  unfold supportModeGenotype at hm
  obtain ⟨hmem, _⟩ := modeOf_spec hm
  cases hk : modeSupportKey post with
  | none => rw [modeSupportDist_none hk] at hmem; simp at hmem
  | some k =>
    rw [modeSupportDist_eq hk] at hmem
    simp only [List.mem_filter, decide_eq_true_eq] at hmem
    unfold modeSupportKey at hk
    cases hmo : modeOf (supportGroups post) with
    | none => rw [hmo] at hk; simp at hk
    | some kv =>
      obtain ⟨k', v⟩ := kv
      rw [hmo] at hk
      simp only [Option.map_some, Option.some.injEq] at hk
      subst hk
      obtain ⟨hkv, hmaxg⟩ := modeOf_spec hmo
      have hnd : ((supportGroups post).map (·.1)).Nodup := by
        unfold supportGroups
        exact nodup_keys_foldl_addTo _ _ post [] (by simp)
      have hv : v = Trace.supportProb post := by
        rw [hspec, ← supportGroups_total, hmem.2]
        exact (probOf_of_mem hnd hkv).symm
      have hkey : uniq gp.1 ∈ (supportGroups post).map (·.1) := by
        unfold supportGroups
        rw [mem_keys_foldl_addTo]
        exact Or.inr ⟨gp, hgp, rfl⟩
      have hent : (uniq gp.1, probOf (supportGroups post) (uniq gp.1)) ∈ supportGroups post :=
        (mem_iff_probOf hnd).mpr ⟨hkey, rfl⟩
      have := hmaxg _ hent
      rw [supportGroups_total] at this
      rw [← hv]
      exact this

/-- … and over the trace: SPM = the fraction of retained steps whose set of distinct haplotypes / alleles is that of
    the reported genotype -/
theorem support_prob_empirical (h : LinLe le) (n : ℕ) (t : RawTrace α) (m : List α) (pm : ℚ)
    (hm : supportModeGenotype (posterior le n t) = some (m, pm)) :
    Trace.supportProb (posterior le n t)
      = (((merged (burn n t)).countP (fun s => decide ((∀ x ∈ s, x ∈ m) ∧ (∀ x ∈ m, x ∈ s))) : ℕ) : ℚ)
          / (((merged (burn n t)).length : ℕ) : ℚ) := by
  obtain ⟨hsp, _, hmem, _⟩ := support_prob_def _ m pm hm
  have hmc : m.Pairwise (fun a b => le a b) := ((posterior_entries h n t).2 m pm hmem).2.1
  rw [hsp, sum_filter_eq_sum_ite]
  have := expectation_eq (le := le) n t (fun g => if uniq g = uniq m then 1 else 0)
  have e1 : (List.map (fun x : List α × ℚ => if decide (uniq x.1 = uniq m) = true then x.2 else 0) (posterior le n t))
      = List.map (fun gp => gp.2 * (fun g => if uniq g = uniq m then (1 : ℚ) else 0) gp.1) (posterior le n t) := by
    apply List.map_congr_left
    intro gp _
    by_cases hu : uniq gp.1 = uniq m <;> simp [hu]
  rw [e1, this]
  congr 1
  have e2 : ∀ l : List (List α), (l.map (fun s => if uniq (canon le s) = uniq m then (1 : ℚ) else 0)).sum
      = ((l.countP (fun s => decide ((∀ x ∈ s, x ∈ m) ∧ (∀ x ∈ m, x ∈ s))) : ℕ) : ℚ) := by
    intro l
    induction l with
    | nil => simp
    | cons s tl ih =>
      have hiff : uniq (canon le s) = uniq m ↔ ((∀ x ∈ s, x ∈ m) ∧ (∀ x ∈ m, x ∈ s)) := by
        rw [uniq_eq_iff_same_set h (canon_pairwise h s) hmc]
        constructor
        · intro hh
          exact ⟨fun x hx => (hh x).mp ((canon_perm s).mem_iff.mpr hx),
                 fun x hx => (canon_perm s).mem_iff.mp ((hh x).mpr hx)⟩
        · intro hh x
          exact ⟨fun hx => hh.1 x ((canon_perm s).mem_iff.mp hx), fun hx => (canon_perm s).mem_iff.mpr (hh.2 x hx)⟩
      rw [List.map_cons, List.sum_cons, ih, List.countP_cons]
      by_cases hc : ((∀ x ∈ s, x ∈ m) ∧ (∀ x ∈ m, x ∈ s))
      · rw [if_pos (hiff.mpr hc), if_pos (by simpa using hc)]; push_cast; ring
      · rw [if_neg (fun e => hc (hiff.mp e)), if_neg (by simpa using hc)]; simp
  exact e2 _

/-! ### allele frequencies / counts / occurrence (`allele_frequencies`) -/

/-- **AFP · ploidy = ACP = expected copy number; occurrence = P(copy number ≥ 1)**, as averages over the retained
    steps: the entry of haplotype `x` is `(x, Σ_steps count(x, step) / N [/ ploidy], #{steps ∋ x} / N)`, and the listed
    haplotypes are exactly those occurring in a retained step -/
theorem freq_count_occ_def (n : ℕ) (t : RawTrace α) (ploidy : ℕ) (dosage : Bool) :
    (alleleFrequencies (posterior le n t) ploidy dosage
      = (uniq ((posterior le n t).flatMap (·.1))).map (fun x =>
          let acp : ℚ := (((merged (burn n t)).map (fun s => ((s.count x : ℕ) : ℚ))).sum)
                          / (((merged (burn n t)).length : ℕ) : ℚ)
          (x, (if dosage then acp else acp / (ploidy : ℚ)),
              (((merged (burn n t)).countP (fun s => decide (x ∈ s)) : ℕ) : ℚ)
                / (((merged (burn n t)).length : ℕ) : ℚ)))) ∧
    ∀ x, x ∈ uniq ((posterior le n t).flatMap (·.1)) ↔ ∃ s ∈ merged (burn n t), x ∈ s := by
  constructor
  · unfold alleleFrequencies dosageOf occurrenceOf
    apply List.map_congr_left
    intro x _
    have hw := expectation_eq (le := le) n t (fun g => ((g.count x : ℕ) : ℚ))
    have ho := expectation_eq (le := le) n t (fun g => if x ∈ g then (1 : ℚ) else 0)
    have hcount : ∀ s : List α, (canon le s).count x = s.count x := fun s => (canon_perm s).count_eq x
    have hmem : ∀ s : List α, x ∈ canon le s ↔ x ∈ s := fun s => (canon_perm s).mem_iff
    simp only [hcount] at hw
    have ho' : (((posterior le n t).filter (fun gp => decide (x ∈ gp.1))).map (·.2)).sum
        = (((merged (burn n t)).countP (fun s => decide (x ∈ s)) : ℕ) : ℚ)
            / (((merged (burn n t)).length : ℕ) : ℚ) := by
      rw [sum_filter_eq_sum_ite]
      have e1 : (List.map (fun gp : List α × ℚ => if decide (x ∈ gp.1) = true then gp.2 else 0) (posterior le n t))
          = List.map (fun gp => gp.2 * (fun g => if x ∈ g then (1 : ℚ) else 0) gp.1) (posterior le n t) := by
        apply List.map_congr_left
        intro gp _
        by_cases hx : x ∈ gp.1 <;> simp [hx]
      rw [e1, ho]
      congr 1
      generalize merged (burn n t) = l
      induction l with
      | nil => simp
      | cons s tl ih =>
        rw [List.map_cons, List.sum_cons, ih, List.countP_cons]
        by_cases hx : x ∈ s
        · simp [(hmem s).mpr hx, hx]; ring
        · have : x ∉ canon le s := fun e => hx ((hmem s).mp e)
          simp [this, hx]
    simp only [hw, ho']
  · intro x
    rw [mem_uniq, List.mem_flatMap]
    constructor
    · rintro ⟨⟨g, p⟩, hgp, hx⟩
      unfold posterior at hgp
      rw [merged_burn_canon] at hgp
      obtain ⟨hg, _⟩ := mem_posteriorOf.mp hgp
      obtain ⟨s, hs, rfl⟩ := List.mem_map.mp hg
      exact ⟨s, hs, (canon_perm s).mem_iff.mp hx⟩
    · rintro ⟨s, hs, hx⟩
      have hin := mem_posteriorOf.mpr
        ⟨(List.mem_map.mpr ⟨s, hs, rfl⟩ : canon le s ∈ (merged (burn n t)).map (canon le)), rfl⟩
      obtain ⟨q, hq⟩ : ∃ q, (canon le s, q) ∈ posterior le n t :=
        ⟨_, by unfold posterior; rw [merged_burn_canon]; exact hin⟩
      exact ⟨(canon le s, q), hq, (canon_perm s).mem_iff.mpr hx⟩

/-- the counts of the elements of a duplicate-free list that covers `g` add up to the length of `g` -/
theorem sum_count_cover (U g : List α) (hnd : U.Nodup) (hcov : ∀ x ∈ g, x ∈ U) :
    (U.map (fun x => ((g.count x : ℕ) : ℚ))).sum = ((g.length : ℕ) : ℚ) := by
  have h1 : (U.map (fun x => ((g.count x : ℕ) : ℚ))).sum = ∑ x ∈ U.toFinset, ((g.count x : ℕ) : ℚ) :=
    (List.sum_toFinset _ hnd).symm
  have h2 : ∑ x ∈ U.toFinset, ((g.count x : ℕ) : ℚ) = ∑ x ∈ g.toFinset, ((g.count x : ℕ) : ℚ) := by
    symm
    apply Finset.sum_subset
    · intro x hx; simp at hx ⊢; exact hcov x hx
    · intro x _ hx
      simp only [List.mem_toFinset] at hx
      simp [List.count_eq_zero_of_not_mem hx]
  have h3 : (∑ x ∈ g.toFinset, g.count x) = g.length := by
    have := Finset.sum_list_map_count g (fun _ => (1 : ℕ))
    simp only [List.map_const', List.sum_replicate, smul_eq_mul, mul_one] at this
    exact this.symm
  rw [h1, h2, ← Nat.cast_sum, h3]

/-- **allele frequencies sum to one** (dosages to the ploidy) when every retained step has `ploidy` elements -/
theorem freq_sum_one (n : ℕ) (t : RawTrace α) (ploidy : ℕ) (hp : 0 < ploidy)
    (hne : merged (burn n t) ≠ []) (hlen : ∀ s ∈ merged (burn n t), s.length = ploidy) :
    ((alleleFrequencies (posterior le n t) ploidy false).map (·.2.1)).sum = 1 ∧
    ((alleleFrequencies (posterior le n t) ploidy true).map (·.2.1)).sum = (ploidy : ℚ) := by
  have key : ((alleleFrequencies (posterior le n t) ploidy true).map (·.2.1)).sum = (ploidy : ℚ) := by
    obtain ⟨hdef, hmem⟩ := freq_count_occ_def (le := le) n t ploidy true
    rw [hdef, List.map_map]
    simp only [Function.comp_def, if_true]
    set U := uniq ((posterior le n t).flatMap (·.1)) with hU
    set L := merged (burn n t) with hL
    have hN : ((L.length : ℕ) : ℚ) ≠ 0 := by
      have : L.length ≠ 0 := by simpa using hne
      exact_mod_cast this
    -- swap the two sums
    have swap : (U.map (fun x => (L.map (fun s => ((s.count x : ℕ) : ℚ))).sum)).sum
        = (L.map (fun s => (U.map (fun x => ((s.count x : ℕ) : ℚ))).sum)).sum := by
      generalize U = V
      induction L with
      | nil => simp
      | cons s tl ih =>
        simp only [List.map_cons, List.sum_cons]
        rw [List.sum_map_add, ih]
    have inner : ∀ s ∈ L, (U.map (fun x => ((s.count x : ℕ) : ℚ))).sum = (ploidy : ℚ) := by
      intro s hs
      rw [sum_count_cover U s (nodup_uniq _) (fun x hx => (hmem x).mpr ⟨s, hs, hx⟩), hlen s hs]
    have : (U.map (fun x => (L.map (fun s => ((s.count x : ℕ) : ℚ))).sum / ((L.length : ℕ) : ℚ))).sum
        = (U.map (fun x => (L.map (fun s => ((s.count x : ℕ) : ℚ))).sum)).sum / ((L.length : ℕ) : ℚ) := by
      rw [div_eq_mul_inv, ← List.sum_map_mul_right]
      simp only [div_eq_mul_inv]
    rw [this, swap, List.map_congr_left inner]
    simp only [List.map_const', List.sum_replicate, nsmul_eq_mul]
    field_simp
  refine ⟨?_, key⟩
  have hrel : (alleleFrequencies (posterior le n t) ploidy false).map (·.2.1)
      = ((alleleFrequencies (posterior le n t) ploidy true).map (·.2.1)).map (· / (ploidy : ℚ)) := by
    unfold alleleFrequencies dosageOf occurrenceOf
    simp [List.map_map, Function.comp_def]
  rw [hrel]
  have : (((alleleFrequencies (posterior le n t) ploidy true).map (·.2.1)).map (· / (ploidy : ℚ))).sum
      = ((alleleFrequencies (posterior le n t) ploidy true).map (·.2.1)).sum / (ploidy : ℚ) := by
    rw [div_eq_mul_inv, ← List.sum_map_mul_right]
    simp only [div_eq_mul_inv, List.map_map, Function.comp_def]
  rw [this, key]
  have : (ploidy : ℚ) ≠ 0 := by exact_mod_cast (Nat.pos_iff_ne_zero.mp hp)
  field_simp

end generic

/-! ### chain incongruence -/

section flag
variable {α : Type} [DecidableEq α]

theorem uniq_length_le_one_iff {β : Type} [DecidableEq β] (l : List β) :
    (uniq l).length ≤ 1 ↔ ∀ a ∈ l, ∀ b ∈ l, a = b := by
  constructor
  · intro h a ha b hb
    have ha' := mem_uniq.mpr ha
    have hb' := mem_uniq.mpr hb
    match hu : uniq l, h, ha', hb' with
    | [], _, ha', _ => simp at ha'
    | [x], _, ha', hb' =>
      simp at ha' hb'
      rw [ha', hb']
    | _ :: _ :: _, h, _, _ => simp at h
  · intro h
    cases l with
    | nil => simp [uniq]
    | cons x t =>
      have : (uniq t).filter (fun y => decide (y ≠ x)) = [] := by
        rw [List.filter_eq_nil_iff]
        intro y hy
        have := h y (List.mem_cons_of_mem _ (mem_uniq.mp hy)) x (by simp)
        simp [this]
      show (x :: (uniq t).filter (fun y => decide (y ≠ x))).length ≤ 1
      rw [this]; simp

/-- the flag as a function of the list of qualifying chains' allele arrays and of the number used as ploidy:
    0 iff they are all the same array; 2 iff they are not and the number of distinct alleles over all of them
    exceeds that number -/
theorem incongruenceFlag_spec (ploidy : ℕ) (alleles : List (List α)) :
    (incongruenceFlag ploidy alleles = 0 ↔ ∀ a ∈ alleles, ∀ b ∈ alleles, a = b) ∧
    (incongruenceFlag ploidy alleles = 2 ↔ (¬ ∀ a ∈ alleles, ∀ b ∈ alleles, a = b) ∧
        ploidy < (uniq alleles.flatten).length) ∧
    incongruenceFlag ploidy alleles ≤ 2 := by
  have hiff := uniq_length_le_one_iff alleles
  by_cases h1 : 1 < (uniq alleles).length
  · have hne : ¬ ∀ a ∈ alleles, ∀ b ∈ alleles, a = b := fun hh => by
      have := hiff.mpr hh; omega
    by_cases h2 : ploidy < (uniq alleles.flatten).length
    · have hv : incongruenceFlag ploidy alleles = 2 := by simp [incongruenceFlag, h1, h2]
      rw [hv]
      exact ⟨⟨by omega, fun hh => absurd hh hne⟩, ⟨fun _ => ⟨hne, h2⟩, fun _ => rfl⟩, le_refl _⟩
    · have hv : incongruenceFlag ploidy alleles = 1 := by simp [incongruenceFlag, h1, h2]
      rw [hv]
      exact ⟨⟨by omega, fun hh => absurd hh hne⟩, ⟨by omega, fun hh => absurd hh.2 h2⟩, by omega⟩
  · have hall : ∀ a ∈ alleles, ∀ b ∈ alleles, a = b := hiff.mp (by omega)
    have hv : incongruenceFlag ploidy alleles = 0 := by simp [incongruenceFlag, h1]
    rw [hv]
    exact ⟨⟨fun _ => hall, fun _ => rfl⟩, ⟨by omega, fun hh => absurd hall hh.1⟩, by omega⟩

/-- the allele arrays `replicate_incongruence` compares (assemble): per chain whose mode-support probability
    reaches the threshold, the distinct haplotypes of that support -/
def qualifying (thr : ℚ) (t : RawTrace α) : List (List α) :=
  t.filterMap (fun ch =>
    let post := posteriorOf ch
    if thr ≤ Trace.supportProb post then supportAlleles post else none)

/-- … (call): per qualifying chain the most probable genotype of its mode support -/
def callQualifying (thr : ℚ) (t : RawTrace α) : List (List α) :=
  t.filterMap (fun ch =>
    let post := posteriorOf ch
    if thr ≤ Trace.supportProb post then (supportModeGenotype post).map (·.1) else none)

theorem no_empty_chain {t : RawTrace α} (hne : ∀ ch ∈ t, ch ≠ []) : t.any (fun ch => ch.isEmpty) = false := by
  rw [List.any_eq_false]
  intro ch hch
  have := hne ch hch
  cases ch <;> simp_all

/-- **assemble `replicate_incongruence`** is this function of the per-chain empirical distributions: it is defined
    whenever no chain is empty; 0 iff all qualifying chains have the same mode support; 2 iff they do not and the
    union of the supports has more haplotypes than **the first qualifying support** (the code's `ploidy`); 1 otherwise -/
theorem incongruence_spec (thr : ℚ) (t : RawTrace α) (hne : ∀ ch ∈ t, ch ≠ []) :
    ∃ flag, replicateIncongruence thr t = some flag ∧
      (flag = 0 ↔ ∀ a ∈ qualifying thr t, ∀ b ∈ qualifying thr t, a = b) ∧
      (flag = 2 ↔ (¬ ∀ a ∈ qualifying thr t, ∀ b ∈ qualifying thr t, a = b) ∧
          firstLength (qualifying thr t) < (uniq (qualifying thr t).flatten).length) ∧
      flag ≤ 2 := by
  refine ⟨incongruenceFlag (firstLength (qualifying thr t)) (qualifying thr t), ?_, incongruenceFlag_spec _ _⟩
  unfold replicateIncongruence
  rw [no_empty_chain hne]
  rfl

/-- the documented meaning ("more alleles than the ploidy") holds **only under the extra hypothesis** that the first
    qualifying support has `ploidy` distinct haplotypes (candidate defect F10; counter-examples below) -/
theorem incongruence_two_iff_partial (thr : ℚ) (t : RawTrace α) (ploidy : ℕ) (hne : ∀ ch ∈ t, ch ≠ [])
    (hfirst : ∀ a, (qualifying thr t).head? = some a → a.length = ploidy) :
    replicateIncongruence thr t = some 2 ↔
      (¬ ∀ a ∈ qualifying thr t, ∀ b ∈ qualifying thr t, a = b) ∧
        ploidy < (uniq (qualifying thr t).flatten).length := by
  obtain ⟨flag, hf, _, h2, _⟩ := incongruence_spec thr t hne
  rw [hf]
  simp only [Option.some.injEq]
  rw [h2]
  have hfl : (¬ ∀ a ∈ qualifying thr t, ∀ b ∈ qualifying thr t, a = b) → firstLength (qualifying thr t) = ploidy := by
    intro hd
    unfold firstLength
    cases hq : (qualifying thr t).head? with
    | none =>
      exfalso; apply hd
      have : qualifying thr t = [] := List.head?_eq_none_iff.mp hq
      rw [this]; simp
    | some a => simp [hfirst a hq]
  constructor
  · rintro ⟨hd, hl⟩
    exact ⟨hd, by rw [← hfl hd]; exact hl⟩
  · rintro ⟨hd, hl⟩
    exact ⟨hd, by rw [hfl hd]; exact hl⟩

/-- **call `replicate_incongruence`**: the compared arrays are the chains' mode genotypes, which all have `ploidy`
    entries, so here 2 iff the chains' modes differ and carry more than `ploidy` distinct alleles -/
theorem call_incongruence_spec (thr : ℚ) (t : RawTrace α) (ploidy : ℕ) (hne : ∀ ch ∈ t, ch ≠ [])
    (hlen : ∀ ch ∈ t, ∀ s ∈ ch, s.length = ploidy) :
    ∃ flag, callReplicateIncongruence thr t = some flag ∧
      (flag = 0 ↔ ∀ a ∈ callQualifying thr t, ∀ b ∈ callQualifying thr t, a = b) ∧
      (flag = 2 ↔ (¬ ∀ a ∈ callQualifying thr t, ∀ b ∈ callQualifying thr t, a = b) ∧
          ploidy < (uniq (callQualifying thr t).flatten).length) ∧
      flag ≤ 2 := by
  have hmemlen : ∀ a ∈ callQualifying thr t, a.length = ploidy := by
    intro a ha
    unfold callQualifying at ha
    rw [List.mem_filterMap] at ha
    obtain ⟨ch, hch, hx⟩ := ha
    simp only at hx
    split_ifs at hx
    cases hm : supportModeGenotype (posteriorOf ch) with
    | none => rw [hm] at hx; simp at hx
    | some mp =>
      obtain ⟨m, pm⟩ := mp
      rw [hm] at hx
      simp only [Option.map_some, Option.some.injEq] at hx
      subst hx
      obtain ⟨_, _, hin, _⟩ := support_prob_def _ m pm hm
      exact hlen ch hch m (mem_posteriorOf.mp hin).1
  obtain ⟨h0, h2, hle⟩ := incongruenceFlag_spec (firstLength (callQualifying thr t)) (callQualifying thr t)
  refine ⟨incongruenceFlag (firstLength (callQualifying thr t)) (callQualifying thr t), ?_, h0, ?_, hle⟩
  · unfold callReplicateIncongruence
    rw [no_empty_chain hne]
    rfl
  · rw [h2]
    have hfl : (¬ ∀ a ∈ callQualifying thr t, ∀ b ∈ callQualifying thr t, a = b) →
        firstLength (callQualifying thr t) = ploidy := by
      intro hd
      unfold firstLength
      cases hq : (callQualifying thr t).head? with
      | none =>
        exfalso; apply hd
        have : callQualifying thr t = [] := List.head?_eq_none_iff.mp hq
        rw [this]; simp
      | some a => simp [hmemlen a (List.mem_of_mem_head? hq)]
    constructor
    · rintro ⟨hd, hl⟩
      exact ⟨hd, by rw [← hfl hd]; exact hl⟩
    · rintro ⟨hd, hl⟩
      exact ⟨hd, by rw [hfl hd]; exact hl⟩

end flag

/-! ### the call / call-pedigree classes -/

theorem pairwise_natLe_iff (s : List ℕ) : s.Pairwise (fun a b => natLe a b) ↔ s.Pairwise (· ≤ ·) := by
  constructor <;> intro h <;> exact h.imp (by intro a b; simp [natLe])

/-- the call classes count stored rows; **when the sampler stored sorted rows** (as `compound_step` and the pedigree
    sampler do) this is the multiset posterior, so every theorem above applies with `le = natLe` -/
theorem call_posterior_eq_of_sorted (n : ℕ) (t : RawTrace ℕ)
    (hs : ∀ ch ∈ t, ∀ s ∈ ch, s.Pairwise (· ≤ ·)) : callPosterior n t = posterior natLe n t := by
  unfold callPosterior posterior
  have : canonTrace natLe t = t := by
    unfold canonTrace
    conv_rhs => rw [← List.map_id t]
    apply List.map_congr_left
    intro ch hch
    conv_rhs => rw [id, ← List.map_id ch]
    apply List.map_congr_left
    intro s hsm
    exact canon_of_pairwise linLe_natLe ((pairwise_natLe_iff s).mpr (hs ch hch s hsm))
  rw [this]

/-- … and without that assumption it is not (the class itself does not sort): the rows `0 1` and `1 0` are counted
    as two states -/
example : callPosterior 0 [[[0, 1], [1, 0]]] ≠ posterior natLe 0 [[[0, 1], [1, 0]]] := by decide +kernel

/-- **`posterior_frequencies`** (AFP, ACP, AOP per allele) are the corresponding functionals of the posterior:
    ACP = expected copy number, AFP = ACP / ploidy, AOP = total probability of the genotypes containing the allele -/
theorem call_freq_def (n : ℕ) (t : RawTrace ℕ) (ploidy nA : ℕ) :
    ((∀ s ∈ merged (burn n t), ∀ a ∈ s, a < nA) → (callFrequencies (merged (burn n t)) ploidy nA).isSome) ∧
    ∀ l, callFrequencies (merged (burn n t)) ploidy nA = some l →
      l.length = nA ∧ ∀ a, a < nA →
        let acp : ℚ := ((callPosterior n t).map (fun gp => gp.2 * ((gp.1.count a : ℕ) : ℚ))).sum
        let aop : ℚ := (((callPosterior n t).filter (fun gp => decide (a ∈ gp.1))).map (·.2)).sum
        l[a]? = some (acp / (ploidy : ℚ), acp, aop) := by
  set L := merged (burn n t) with hL
  constructor
  · intro hlt
    unfold callFrequencies
    have : L.any (fun g => g.any (fun a => decide (nA ≤ a))) = false := by
      rw [List.any_eq_false]
      intro s hs
      rw [Bool.not_eq_true, List.any_eq_false]
      intro a ha
      have := hlt s hs a ha
      simp; omega
    rw [this]; rfl
  · intro l hl
    unfold callFrequencies at hl
    split_ifs at hl
    simp only [Option.some.injEq] at hl
    subst hl
    refine ⟨by simp, ?_⟩
    intro a ha
    simp only [List.getElem?_map, List.getElem?_range ha, Option.map_some]
    have hw := expectation_posteriorOf L (fun g => ((g.count a : ℕ) : ℚ))
    have ho := expectation_posteriorOf L (fun g => if a ∈ g then (1 : ℚ) else 0)
    have hsum : ((L.map (fun g => g.count a)).sum : ℕ) = ((L.map (fun g => ((g.count a : ℕ) : ℚ))).sum : ℚ) := by
      induction L with
      | nil => simp
      | cons s tl ih => simp only [List.map_cons, List.sum_cons, Nat.cast_add]; rw [← ih]
    have hcp : ((L.countP (fun g => decide (a ∈ g)) : ℕ) : ℚ) = (L.map (fun g => if a ∈ g then (1 : ℚ) else 0)).sum := by
      induction L with
      | nil => simp
      | cons s tl ih =>
        rw [List.countP_cons, List.map_cons, List.sum_cons, ← ih]
        by_cases hx : a ∈ s <;> simp [hx]; ring
    have e1 : (List.map (fun gp : List ℕ × ℚ => if decide (a ∈ gp.1) = true then gp.2 else 0) (callPosterior n t))
        = List.map (fun gp => gp.2 * (fun g => if a ∈ g then (1 : ℚ) else 0) gp.1) (callPosterior n t) := by
      apply List.map_congr_left
      intro gp _
      by_cases hx : a ∈ gp.1 <;> simp [hx]
    show some _ = some _
    congr 1
    unfold callPosterior
    rw [← hL, sum_filter_eq_sum_ite]
    unfold callPosterior at e1
    rw [← hL] at e1
    rw [e1, hw, ho, hsum, hcp]

theorem getD_replicate_zero (k j : ℕ) : (List.replicate k (0 : ℚ)).getD j 0 = 0 := by
  simp only [List.getD_eq_getElem?_getD, List.getElem?_replicate]
  split <;> rfl

/-- **`as_array`**: on a trace of sorted rows of `ploidy ≥ 1` alleles below `nA`, the G-ordered array exists, has
    `C(nA + ploidy − 1, ploidy)` entries, holds P(g) at `genotypeIndex g` for every listed genotype (no two listed
    genotypes share an index: C11 injectivity), 0 everywhere else, and sums to one -/
theorem asArray_spec (n : ℕ) (t : RawTrace ℕ) (nA ploidy : ℕ) (hp : 1 ≤ ploidy)
    (hne : merged (burn n t) ≠ [])
    (hs : ∀ s ∈ merged (burn n t), s.Pairwise (· ≤ ·) ∧ s.length = ploidy ∧ ∀ a ∈ s, a < nA) :
    ∃ arr, asArray (callPosterior n t) nA ploidy = some arr ∧ arr.length = cwr nA ploidy ∧
      (∀ g p, (g, p) ∈ callPosterior n t → arr.getD (genotypeIndex g) 0 = p) ∧
      (∀ j, (∀ gp ∈ callPosterior n t, genotypeIndex gp.1 ≠ j) → arr.getD j 0 = 0) ∧
      arr.sum = 1 := by
  set L := merged (burn n t) with hL
  have hpost : callPosterior n t = posteriorOf L := rfl
  set post := callPosterior n t with hP
  have hkey : ∀ gp ∈ post, gp.1 ∈ L := by
    intro gp hgp
    rw [hpost] at hgp
    exact (mem_posteriorOf (p := gp.2).mp hgp).1
  set pairs := post.map (fun gp => (genotypeIndex gp.1, gp.2)) with hpairs
  have hlt : ∀ iv ∈ pairs, iv.1 < cwr nA ploidy := by
    intro iv hiv
    obtain ⟨gp, hgp, rfl⟩ := List.mem_map.mp hiv
    obtain ⟨_, hl, hb⟩ := hs gp.1 (hkey gp hgp)
    have := C11.index_lt nA gp.1 hb (by omega)
    rw [hl] at this
    exact this
  have hnd : (pairs.map (·.1)).Nodup := by
    rw [hpairs, List.map_map]
    have : ((fun iv : ℕ × ℚ => iv.1) ∘ fun gp : List ℕ × ℚ => (genotypeIndex gp.1, gp.2))
        = genotypeIndex ∘ (fun gp : List ℕ × ℚ => gp.1) := rfl
    rw [this, ← List.map_map]
    apply List.Nodup.map_on
    · intro x hx y hy hxy
      obtain ⟨gx, hgx, rfl⟩ := List.mem_map.mp hx
      obtain ⟨gy, hgy, rfl⟩ := List.mem_map.mp hy
      obtain ⟨sx, lx, _⟩ := hs gx.1 (hkey gx hgx)
      obtain ⟨sy, ly, _⟩ := hs gy.1 (hkey gy hgy)
      exact C11.index_injective _ _ (by rw [lx, ly]) sx sy hxy
    · exact posteriorOf_keys_nodup L
  obtain ⟨out, ho, hol, hov, hoj, hos⟩ := scatterFrom_spec (cwr nA ploidy) pairs
    (List.replicate (cwr nA ploidy) 0) (by simp) hlt hnd
  refine ⟨out, ?_, hol, ?_, ?_, ?_⟩
  · unfold asArray
    rw [scatter_eq]
    exact ho
  · intro g p hgp
    exact hov (genotypeIndex g, p) (List.mem_map.mpr ⟨(g, p), hgp, rfl⟩)
  · intro j hj
    rw [hoj j]
    · exact getD_replicate_zero _ _
    · intro hmem
      obtain ⟨iv, hiv, rfl⟩ := List.mem_map.mp hmem
      obtain ⟨gp, hgp, rfl⟩ := List.mem_map.mp hiv
      exact hj gp hgp rfl
  · rw [hos]
    have hz : ∀ iv : ℕ × ℚ, iv.2 - (List.replicate (cwr nA ploidy) (0 : ℚ)).getD iv.1 0 = iv.2 := by
      intro iv
      rw [getD_replicate_zero, sub_zero]
    simp only [hz, List.sum_replicate, smul_zero, zero_add, hpairs, List.map_map, Function.comp_def]
    have := expectation_posteriorOf L (fun _ => (1 : ℚ))
    simp only [mul_one, List.map_const', List.sum_replicate, nsmul_eq_mul] at this
    have hN : ((L.length : ℕ) : ℚ) ≠ 0 := by
      have : L.length ≠ 0 := by simpa using hne
      exact_mod_cast this
    show ((posteriorOf L).map (fun x => x.2)).sum = 1
    rw [this, div_self hN]

/-! ### instances, non-vacuity, and the machine-checked witnesses of candidate defect F10 -/

/-- the hypotheses of the generic theorems hold for the two orders the code uses -/
theorem orders_linear : LinLe lexLe ∧ LinLe natLe := ⟨linLe_lexLe, linLe_natLe⟩

/-- a concrete trace (2 chains × 3 steps, diploid, haplotypes over 2 SNVs, unsorted steps, burn-in 1): the posterior
    is the multiset frequency table, sums to one, and is unchanged by reordering inside steps -/
example :
    let t : RawTrace (List ℕ) := [[[[1, 1], [0, 0]], [[0, 1], [0, 0]], [[0, 0], [0, 1]]],
                                  [[[0, 0], [0, 0]], [[0, 1], [0, 0]], [[1, 1], [0, 1]]]]
    let t' : RawTrace (List ℕ) := [[[[0, 0], [1, 1]], [[0, 0], [0, 1]], [[0, 1], [0, 0]]],
                                   [[[0, 0], [0, 0]], [[0, 0], [0, 1]], [[0, 1], [1, 1]]]]
    posterior lexLe 1 t = [([[0, 0], [0, 1]], 3 / 4), ([[0, 1], [1, 1]], 1 / 4)] ∧
    posterior lexLe 1 t' = posterior lexLe 1 t ∧
    ((posterior lexLe 1 t).map (·.2)).sum = 1 ∧
    Trace.supportProb (posterior lexLe 1 t) = 3 / 4 ∧
    (alleleFrequencies (posterior lexLe 1 t) 2 false).map (·.2.1) = [3 / 8, 1 / 2, 1 / 8] := by
  decide +kernel

/-- F10, minimal: two diploid chains, one fixed on `1/1`, the other on `2/2` — two distinct alleles in a diploid,
    yet the assemble flag is 2 ("putative CNV"); the call-side flag on the same chains is 1 -/
example :
    let t : RawTrace ℕ := [[[1, 1], [1, 1]], [[2, 2], [2, 2]]]
    replicateIncongruence (3 / 5) t = some 2 ∧ (uniq (qualifying (3 / 5) t).flatten).length = 2 ∧
    callReplicateIncongruence (3 / 5) t = some 1 := by
  decide +kernel

/-- F10, the design's witness: tetraploid chains with mode supports `{0,1,2}` and `{0,2,3}` (union 4 = ploidy) -/
example :
    let t : RawTrace ℕ := [[[0, 0, 1, 2], [0, 0, 1, 2]], [[0, 2, 2, 3], [0, 2, 2, 3]]]
    replicateIncongruence (3 / 5) t = some 2 ∧ (uniq (qualifying (3 / 5) t).flatten).length = 4 ∧
    callReplicateIncongruence (3 / 5) t = some 1 := by
  decide +kernel

/-- F10, order dependence: supports of sizes 2 and 4 in a tetraploid give 2 or 1 depending on which chain is first -/
example :
    let c1 : List (List ℕ) := [[0, 0, 1, 1], [0, 0, 1, 1]]
    let c2 : List (List ℕ) := [[0, 1, 2, 3], [0, 1, 2, 3]]
    replicateIncongruence (3 / 5) [c1, c2] = some 2 ∧ replicateIncongruence (3 / 5) [c2, c1] = some 1 := by
  decide +kernel

end MCHap.C14
