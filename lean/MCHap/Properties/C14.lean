import MCHap.Proofs.TraceAcc
import MCHap.Properties.C11

/-!
# C14 — posterior summaries are exact functionals of the retained trace

Property theorems over `MCHap/Model/Trace.lean` (model of `assemble.classes.GenotypeMultiTrace`,
`PosteriorGenotypeDistribution`, `calling.classes.GenotypeAllelesMultiTrace`,
`PosteriorGenotypeAllelesDistribution`, `mset.unique / count / unique_counts`).

`le` is the order used for the canonical sort (`lexLe` on haplotypes, `natLe` on allele indices); every theorem
about the assemble classes holds for any linear `le` (`LinLe`), instantiated at the end.
`merged (burn n t)` = the retained steps of all chains as stored (any within-step order).
-/
namespace MCHap.C14
open MCHap MCHap.Trace
set_option linter.unusedSectionVars false

section generic
variable {α : Type} [DecidableEq α] {le : α → α → Bool}

/-- the retained canonical steps are the canonical forms of the retained raw steps (sort and burn commute) -/
theorem merged_burn_canon (n : ℕ) (t : RawTrace α) :
    merged (burn n (canonTrace le t)) = (merged (burn n t)).map (canon le) := by
  unfold merged burn canonTrace
  rw [List.map_flatten]
  simp [List.map_map, Function.comp_def, List.map_drop]

/-- **the reported probability of a genotype is its relative frequency among the retained steps, as multisets**:
    for every genotype `G` (in any order), the posterior lists `canon G` with probability
    `#{retained steps that are permutations of G} / #{retained steps}` (0 = not listed). -/
theorem posterior_is_empirical (h : LinLe le) (n : ℕ) (t : RawTrace α) (G : List α) :
    probOf (posterior le n t) (canon le G)
      = (((merged (burn n t)).countP (fun s => decide (s.Perm G)) : ℕ) : ℚ)
          / (((merged (burn n t)).length : ℕ) : ℚ) := by
  unfold posterior
  rw [merged_burn_canon, probOf_posteriorOf, List.length_map, count_map_eq_countP]
  congr 2
  apply List.countP_congr
  intro s _
  simp only [decide_eq_true_eq]
  exact canon_eq_iff h s G

/-- the listed genotypes are pairwise distinct, canonical, each the canonical form of a retained step, with
    positive probability equal to the relative frequency -/
theorem posterior_entries (h : LinLe le) (n : ℕ) (t : RawTrace α) :
    ((posterior le n t).map (·.1)).Nodup ∧
    ∀ g p, (g, p) ∈ posterior le n t →
      (∃ s ∈ merged (burn n t), g = canon le s) ∧ g.Pairwise (fun a b => le a b) ∧ 0 < p ∧
      p = (((merged (burn n t)).countP (fun s => decide (s.Perm g)) : ℕ) : ℚ)
            / (((merged (burn n t)).length : ℕ) : ℚ) := by
  refine ⟨posteriorOf_keys_nodup _, ?_⟩
  intro g p hgp
  have hnd : ((posterior le n t).map (·.1)).Nodup := posteriorOf_keys_nodup _
  have hp := probOf_of_mem hnd hgp
  unfold posterior at hgp
  rw [merged_burn_canon] at hgp
  obtain ⟨hg, hpe⟩ := mem_posteriorOf.mp hgp
  obtain ⟨s, hs, rfl⟩ := List.mem_map.mp hg
  have hcanon : canon le (canon le s) = canon le s := canon_idem h s
  refine ⟨⟨s, hs, rfl⟩, canon_pairwise h s, ?_, ?_⟩
  · rw [hpe]
    have hpos := count_pos_of_mem hg
    have hlen : 0 < ((merged (burn n t)).map (canon le)).length := List.length_pos_of_mem hg
    exact div_pos (by exact_mod_cast hpos) (by exact_mod_cast hlen)
  · rw [← hp, ← hcanon, posterior_is_empirical h, hcanon]

/-- the probabilities sum to one -/
theorem posterior_sum_one (n : ℕ) (t : RawTrace α) (hne : merged (burn n t) ≠ []) :
    ((posterior le n t).map (·.2)).sum = 1 := by
  have := expectation_posteriorOf (merged (burn n (canonTrace le t))) (fun _ => (1 : ℚ))
  simp only [mul_one] at this
  unfold posterior
  rw [this, merged_burn_canon]
  simp only [List.map_const', List.length_map, List.sum_replicate]
  have : (merged (burn n t)).length ≠ 0 := by simpa using hne
  rw [nsmul_eq_mul, mul_one, div_self]
  exact_mod_cast this

/-- listed by decreasing probability -/
theorem posterior_sorted (n : ℕ) (t : RawTrace α) :
    (posterior le n t).Pairwise (fun a b => b.2 ≤ a.2) := sortDesc_pairwise _

/-- **burn-in removes exactly the first `n` steps of every chain**: chain `c` of the burnt trace is chain `c`
    without its first `n` steps (step `i` of it is step `n + i` of the original), the number of chains is
    unchanged, and for `S`-step chains exactly `chains · (S − n)` steps are retained. -/
theorem burn_exact (n : ℕ) (t : RawTrace α) :
    (burn n t).length = t.length ∧
    (∀ (c : ℕ) (ch : List (List α)), t[c]? = some ch → (burn n t)[c]? = some (ch.drop n) ∧ ch = ch.take n ++ ch.drop n ∧
        (ch.drop n).length = ch.length - n ∧ ∀ i, (ch.drop n)[i]? = ch[n + i]?) ∧
    (∀ S, (∀ ch ∈ t, ch.length = S) → (merged (burn n t)).length = t.length * (S - n)) := by
  refine ⟨by simp [burn], ?_, ?_⟩
  · intro c ch hc
    refine ⟨by simp [burn, hc], (List.take_append_drop n ch).symm, by simp, ?_⟩
    intro i; simp
  · intro S hS
    unfold merged burn
    rw [List.length_flatten, List.map_map]
    have : (t.map (List.length ∘ List.drop n)) = t.map (fun _ => S - n) := by
      apply List.map_congr_left
      intro ch hch
      simp [hS ch hch]
    rw [this]
    simp

/-- **order invariance**: if every stored step of `t'` is a permutation of the corresponding step of `t`, the two
    traces have the same canonical form — hence the same posterior and (below) the same value of every summary -/
theorem canonTrace_perm_invariant (h : LinLe le) (t t' : RawTrace α)
    (hp : List.Forall₂ (List.Forall₂ List.Perm) t t') : canonTrace le t = canonTrace le t' := by
  unfold canonTrace
  induction hp with
  | nil => rfl
  | cons hch _ ih =>
    simp only [List.map_cons]
    congr 1
    induction hch with
    | nil => rfl
    | cons hs _ ih2 =>
      simp only [List.map_cons]
      congr 1
      exact (canon_eq_iff h _ _).mpr hs

theorem posterior_perm_invariant (h : LinLe le) (n : ℕ) (t t' : RawTrace α)
    (hp : List.Forall₂ (List.Forall₂ List.Perm) t t') :
    posterior le n t = posterior le n t' ∧
    (∀ thr, replicateIncongruence thr (burn n (canonTrace le t)) = replicateIncongruence thr (burn n (canonTrace le t'))) := by
  unfold posterior
  rw [canonTrace_perm_invariant h t t' hp]
  exact ⟨rfl, fun _ => rfl⟩

/-- **every expectation under the reported posterior is the average over the retained steps** (the source of
    all the summary identities below) -/
theorem expectation_eq (n : ℕ) (t : RawTrace α) (f : List α → ℚ) :
    ((posterior le n t).map (fun gp => gp.2 * f gp.1)).sum
      = ((merged (burn n t)).map (fun s => f (canon le s))).sum / (((merged (burn n t)).length : ℕ) : ℚ) := by
  unfold posterior
  rw [expectation_posteriorOf, merged_burn_canon, List.map_map, List.length_map]
  rfl

/-- `mode()` returns a listed genotype whose probability is maximal over all genotypes -/
theorem mode_is_max (h : LinLe le) (n : ℕ) (t : RawTrace α) :
    (merged (burn n t) ≠ [] → (modeOf (posterior le n t)).isSome) ∧
    ∀ g p, modeOf (posterior le n t) = some (g, p) →
      (g, p) ∈ posterior le n t ∧ ∀ G, probOf (posterior le n t) G ≤ p := by
  constructor
  · intro hne
    apply modeOf_isSome
    unfold posterior
    rw [Ne, posteriorOf_eq_nil, merged_burn_canon]
    simpa using hne
  · intro g p hm
    obtain ⟨hmem, hmax⟩ := modeOf_spec hm
    refine ⟨hmem, ?_⟩
    intro G
    have hnd := (posterior_entries h n t).1
    by_cases hG : G ∈ (posterior le n t).map (·.1)
    · obtain ⟨⟨G', q⟩, hq, e⟩ := List.mem_map.mp hG
      simp only at e; subst e
      rw [probOf_of_mem hnd hq]
      exact hmax _ hq
    · rw [probOf_of_not_mem hG]
      exact le_of_lt ((posterior_entries h n t).2 g p hmem).2.2.1

/-! ### mode support (`mode_genotype_support`, `mode(genotype_support=True)`) -/

/-- the accumulated total of a support key = the total probability of the listed genotypes with that key -/
theorem supportGroups_total (post : List (List α × ℚ)) (k : List α) :
    probOf (supportGroups post) k = ((post.filter (fun gp => decide (uniq gp.1 = k))).map (·.2)).sum := by
  unfold supportGroups
  rw [probOf_foldl_addTo (fun gp : List α × ℚ => uniq gp.1) (fun gp => gp.2) k post []]
  simp [probOf]

/-- **support probability**: when a genotype `m` is reported for the mode support, the support probability (SPM)
    is the total probability of the listed genotypes that have the same `mset.unique` as `m`; `m` is a listed
    genotype and the most probable among them -/
theorem support_prob_def (post : List (List α × ℚ)) (m : List α) (pm : ℚ)
    (hm : supportModeGenotype post = some (m, pm)) :
    supportProb post = ((post.filter (fun gp => decide (uniq gp.1 = uniq m))).map (·.2)).sum ∧
    supportAlleles post = some (uniq m) ∧
    (m, pm) ∈ post ∧ ∀ gp ∈ post, uniq gp.1 = uniq m → gp.2 ≤ pm := by
  unfold supportModeGenotype at hm
  obtain ⟨hmem, hmax⟩ := modeOf_spec hm
  unfold modeSupportDist at hmem hmax
  cases hk : modeSupportKey post with
  | none => rw [hk] at hmem; simp at hmem
  | some k =>
    rw [hk] at hmem hmax
    simp only [List.mem_filter, decide_eq_true_eq] at hmem hmax
    have hkm : uniq m = k := hmem.2
    refine ⟨?_, ?_, hmem.1, ?_⟩
    · unfold supportProb modeSupportDist
      rw [hk, hkm]
    · unfold supportAlleles modeSupportDist
      rw [hk]
      have hne : post.filter (fun gp => decide (uniq gp.1 = k)) ≠ [] := by
        intro e
        have : (m, pm) ∈ post.filter (fun gp => decide (uniq gp.1 = k)) := by
          simp only [List.mem_filter, decide_eq_true_eq]; exact hmem
        rw [e] at this; simp at this
      cases hf : post.filter (fun gp => decide (uniq gp.1 = k)) with
      | nil => exact absurd hf hne
      | cons a t =>
        have ha : a ∈ post.filter (fun gp => decide (uniq gp.1 = k)) := by rw [hf]; simp
        simp only [List.mem_filter, decide_eq_true_eq] at ha
        simp [ha.2, hkm]
    · intro gp hgp hu
      exact hmax gp ⟨hgp, by rw [hu, hkm]⟩

/-- **the reported support has maximal total probability** among the supports of the listed genotypes -/
theorem support_is_max (post : List (List α × ℚ)) (m : List α) (pm : ℚ)
    (hm : supportModeGenotype post = some (m, pm)) :
    ∀ gp ∈ post, ((post.filter (fun gp' => decide (uniq gp'.1 = uniq gp.1))).map (·.2)).sum ≤ supportProb post := by
  intro gp hgp
  have hspec := (support_prob_def post m pm hm).1
  -- the key chosen by `modeOf (supportGroups post)`
  unfold supportModeGenotype at hm
  obtain ⟨hmem, _⟩ := modeOf_spec hm
  unfold modeSupportDist at hmem
  cases hk : modeSupportKey post with
  | none => rw [hk] at hmem; simp at hmem
  | some k =>
    rw [hk] at hmem
    simp only [List.mem_filter, decide_eq_true_eq] at hmem
    unfold modeSupportKey at hk
    cases hmo : modeOf (supportGroups post) with
    | none => rw [hmo] at hk; simp at hk
    | some kv =>
      obtain ⟨k', v⟩ := kv
      rw [hmo] at hk
      simp only [Option.map_some, Option.some.injEq] at hk
      subst hk
      obtain ⟨hkv, hmaxg⟩ := modeOf_spec hmo
      have hnd : ((supportGroups post).map (·.1)).Nodup := by
        unfold supportGroups
        exact nodup_keys_foldl_addTo _ _ post [] (by simp)
      have hv : v = supportProb post := by
        rw [hspec, ← supportGroups_total, hmem.2]
        exact (probOf_of_mem hnd hkv).symm
      have hkey : uniq gp.1 ∈ (supportGroups post).map (·.1) := by
        unfold supportGroups
        rw [mem_keys_foldl_addTo]
        exact Or.inr ⟨gp, hgp, rfl⟩
      have hent : (uniq gp.1, probOf (supportGroups post) (uniq gp.1)) ∈ supportGroups post :=
        (mem_iff_probOf hnd).mpr ⟨hkey, rfl⟩
      have := hmaxg _ hent
      rw [supportGroups_total] at this
      rw [← hv]
      exact this

/-- … and over the trace: SPM = the fraction of retained steps whose set of distinct haplotypes / alleles is that of
    the reported genotype -/
theorem support_prob_empirical (h : LinLe le) (n : ℕ) (t : RawTrace α) (m : List α) (pm : ℚ)
    (hm : supportModeGenotype (posterior le n t) = some (m, pm)) :
    supportProb (posterior le n t)
      = (((merged (burn n t)).countP (fun s => decide (∀ x, x ∈ s ↔ x ∈ m)) : ℕ) : ℚ)
          / (((merged (burn n t)).length : ℕ) : ℚ) := by
  obtain ⟨hsp, _, hmem, _⟩ := support_prob_def _ m pm hm
  have hmc : m.Pairwise (fun a b => le a b) := ((posterior_entries h n t).2 m pm hmem).2.1
  rw [hsp, sum_filter_eq_sum_ite]
  have := expectation_eq (le := le) n t (fun g => if uniq g = uniq m then 1 else 0)
  have e1 : (List.map (fun x : List α × ℚ => if decide (uniq x.1 = uniq m) = true then x.2 else 0) (posterior le n t))
      = List.map (fun gp => gp.2 * (fun g => if uniq g = uniq m then (1 : ℚ) else 0) gp.1) (posterior le n t) := by
    apply List.map_congr_left
    intro gp _
    by_cases hu : uniq gp.1 = uniq m <;> simp [hu]
  rw [e1, this]
  congr 1
  have e2 : ∀ l : List (List α), (l.map (fun s => if uniq (canon le s) = uniq m then (1 : ℚ) else 0)).sum
      = ((l.countP (fun s => decide (∀ x, x ∈ s ↔ x ∈ m)) : ℕ) : ℚ) := by
    intro l
    induction l with
    | nil => simp
    | cons s tl ih =>
      have hiff : uniq (canon le s) = uniq m ↔ ∀ x, x ∈ s ↔ x ∈ m := by
        rw [uniq_eq_iff_same_set h (canon_pairwise h s) hmc]
        constructor
        · intro hh x; rw [← hh x]; exact ((canon_perm s).mem_iff).symm
        · intro hh x; rw [← hh x]; exact (canon_perm s).mem_iff
      rw [List.map_cons, List.sum_cons, ih, List.countP_cons]
      by_cases hc : ∀ x, x ∈ s ↔ x ∈ m
      · simp [hiff.mpr hc, hc]; ring
      · have : ¬ uniq (canon le s) = uniq m := fun e => hc (hiff.mp e)
        simp [this, hc]
  exact e2 _

/-! ### allele frequencies / counts / occurrence (`allele_frequencies`) -/

/-- **AFP · ploidy = ACP = expected copy number; occurrence = P(copy number ≥ 1)**, as averages over the retained
    steps: the entry of haplotype `x` is `(x, Σ_steps count(x, step) / N [/ ploidy], #{steps ∋ x} / N)`, and the listed
    haplotypes are exactly those occurring in a retained step -/
theorem freq_count_occ_def (n : ℕ) (t : RawTrace α) (ploidy : ℕ) (dosage : Bool) :
    (alleleFrequencies (posterior le n t) ploidy dosage
      = (uniq ((posterior le n t).flatMap (·.1))).map (fun x =>
          let acp : ℚ := (((merged (burn n t)).map (fun s => ((s.count x : ℕ) : ℚ))).sum)
                          / (((merged (burn n t)).length : ℕ) : ℚ)
          (x, (if dosage then acp else acp / (ploidy : ℚ)),
              (((merged (burn n t)).countP (fun s => decide (x ∈ s)) : ℕ) : ℚ)
                / (((merged (burn n t)).length : ℕ) : ℚ)))) ∧
    ∀ x, x ∈ uniq ((posterior le n t).flatMap (·.1)) ↔ ∃ s ∈ merged (burn n t), x ∈ s := by
  constructor
  · unfold alleleFrequencies
    apply List.map_congr_left
    intro x _
    have hw := expectation_eq (le := le) n t (fun g => ((g.count x : ℕ) : ℚ))
    have ho := expectation_eq (le := le) n t (fun g => if x ∈ g then (1 : ℚ) else 0)
    have hcount : ∀ s : List α, (canon le s).count x = s.count x := fun s => (canon_perm s).count_eq x
    have hmem : ∀ s : List α, x ∈ canon le s ↔ x ∈ s := fun s => (canon_perm s).mem_iff
    simp only [hcount] at hw
    have ho' : ((posterior le n t).filter (fun gp => decide (x ∈ gp.1))).map (·.2) |>.sum
        = (((merged (burn n t)).countP (fun s => decide (x ∈ s)) : ℕ) : ℚ)
            / (((merged (burn n t)).length : ℕ) : ℚ) := by
      rw [sum_filter_eq_sum_ite]
      have e1 : (List.map (fun gp : List α × ℚ => if decide (x ∈ gp.1) = true then gp.2 else 0) (posterior le n t))
          = List.map (fun gp => gp.2 * (fun g => if x ∈ g then (1 : ℚ) else 0) gp.1) (posterior le n t) := by
        apply List.map_congr_left
        intro gp _
        by_cases hx : x ∈ gp.1 <;> simp [hx]
      rw [e1, ho]
      congr 1
      generalize merged (burn n t) = l
      induction l with
      | nil => simp
      | cons s tl ih =>
        rw [List.map_cons, List.sum_cons, ih, List.countP_cons]
        by_cases hx : x ∈ s
        · simp [(hmem s).mpr hx, hx]; ring
        · have : x ∉ canon le s := fun e => hx ((hmem s).mp e)
          simp [this, hx]
    simp only [hw, ho']
  · intro x
    rw [mem_uniq, List.mem_flatMap]
    constructor
    · rintro ⟨⟨g, p⟩, hgp, hx⟩
      unfold posterior at hgp
      rw [merged_burn_canon] at hgp
      obtain ⟨hg, _⟩ := mem_posteriorOf.mp hgp
      obtain ⟨s, hs, rfl⟩ := List.mem_map.mp hg
      exact ⟨s, hs, (canon_perm s).mem_iff.mp hx⟩
    · rintro ⟨s, hs, hx⟩
      refine ⟨(canon le s, _), ?_, (canon_perm s).mem_iff.mpr hx⟩
      unfold posterior
      rw [merged_burn_canon]
      exact mem_posteriorOf.mpr ⟨List.mem_map.mpr ⟨s, hs, rfl⟩, rfl⟩

/-- the counts of the elements of a duplicate-free list that covers `g` add up to the length of `g` -/
theorem sum_count_cover (U g : List α) (hnd : U.Nodup) (hcov : ∀ x ∈ g, x ∈ U) :
    (U.map (fun x => ((g.count x : ℕ) : ℚ))).sum = ((g.length : ℕ) : ℚ) := by
  have h1 : (U.map (fun x => ((g.count x : ℕ) : ℚ))).sum = ∑ x ∈ U.toFinset, ((g.count x : ℕ) : ℚ) :=
    (List.sum_toFinset _ hnd).symm
  have h2 : ∑ x ∈ U.toFinset, ((g.count x : ℕ) : ℚ) = ∑ x ∈ g.toFinset, ((g.count x : ℕ) : ℚ) := by
    symm
    apply Finset.sum_subset
    · intro x hx; simp at hx ⊢; exact hcov x hx
    · intro x _ hx
      simp only [List.mem_toFinset] at hx
      simp [List.count_eq_zero_of_not_mem hx]
  have h3 : (∑ x ∈ g.toFinset, g.count x) = g.length := by
    have := Finset.sum_list_map_count g (fun _ => (1 : ℕ))
    simp at this
    omega
  rw [h1, h2, ← Nat.cast_sum, h3]

/-- **allele frequencies sum to one** (dosages to the ploidy) when every retained step has `ploidy` elements -/
theorem freq_sum_one (n : ℕ) (t : RawTrace α) (ploidy : ℕ) (hp : 0 < ploidy)
    (hne : merged (burn n t) ≠ []) (hlen : ∀ s ∈ merged (burn n t), s.length = ploidy) :
    ((alleleFrequencies (posterior le n t) ploidy false).map (·.2.1)).sum = 1 ∧
    ((alleleFrequencies (posterior le n t) ploidy true).map (·.2.1)).sum = (ploidy : ℚ) := by
  have key : ((alleleFrequencies (posterior le n t) ploidy true).map (·.2.1)).sum = (ploidy : ℚ) := by
    obtain ⟨hdef, hmem⟩ := freq_count_occ_def (le := le) n t ploidy true
    rw [hdef, List.map_map]
    simp only [Function.comp_def, if_true]
    set U := uniq ((posterior le n t).flatMap (·.1)) with hU
    set L := merged (burn n t) with hL
    have hN : ((L.length : ℕ) : ℚ) ≠ 0 := by
      have : L.length ≠ 0 := by simpa using hne
      exact_mod_cast this
    -- swap the two sums
    have swap : (U.map (fun x => (L.map (fun s => ((s.count x : ℕ) : ℚ))).sum)).sum
        = (L.map (fun s => (U.map (fun x => ((s.count x : ℕ) : ℚ))).sum)).sum := by
      generalize U = V
      induction L with
      | nil => simp
      | cons s tl ih =>
        simp only [List.map_cons, List.sum_cons]
        rw [List.sum_map_add, ih]
    have inner : ∀ s ∈ L, (U.map (fun x => ((s.count x : ℕ) : ℚ))).sum = (ploidy : ℚ) := by
      intro s hs
      rw [sum_count_cover U s (nodup_uniq _) (fun x hx => (hmem x).mpr ⟨s, hs, hx⟩), hlen s hs]
    have : (U.map (fun x => (L.map (fun s => ((s.count x : ℕ) : ℚ))).sum / ((L.length : ℕ) : ℚ))).sum
        = (U.map (fun x => (L.map (fun s => ((s.count x : ℕ) : ℚ))).sum)).sum / ((L.length : ℕ) : ℚ) := by
      rw [div_eq_mul_inv, ← List.sum_map_mul_right]
      simp only [div_eq_mul_inv]
    rw [this, swap, List.map_congr_left inner]
    simp only [List.map_const', List.sum_replicate, nsmul_eq_mul]
    field_simp
  refine ⟨?_, key⟩
  have hrel : (alleleFrequencies (posterior le n t) ploidy false).map (·.2.1)
      = ((alleleFrequencies (posterior le n t) ploidy true).map (·.2.1)).map (· / (ploidy : ℚ)) := by
    unfold alleleFrequencies
    simp [List.map_map, Function.comp_def]
  rw [hrel]
  have : (((alleleFrequencies (posterior le n t) ploidy true).map (·.2.1)).map (· / (ploidy : ℚ))).sum
      = ((alleleFrequencies (posterior le n t) ploidy true).map (·.2.1)).sum / (ploidy : ℚ) := by
    rw [div_eq_mul_inv, ← List.sum_map_mul_right]
    simp only [div_eq_mul_inv]
  rw [this, key]
  have : (ploidy : ℚ) ≠ 0 := by exact_mod_cast (Nat.pos_iff_ne_zero.mp hp)
  field_simp

end generic

end MCHap.C14
