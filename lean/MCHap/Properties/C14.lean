import MCHap.Model.Trace
namespace MCHap.C14
end MCHap.C14
