import MCHap.Model.Programs
import MCHap.Properties.C04
import Mathlib.Data.List.Basic
import Mathlib.Data.List.Perm.Basic
import Mathlib.Data.List.Nodup
import Mathlib.Data.List.Count
import Mathlib.Data.List.Sort
import Mathlib.Algebra.BigOperators.Group.List.Basic
import Mathlib.Tactic

/-!
# C10 — Samples are called independently; a pool equals the union of its reads

Over the model of `Model/Programs.lean` (which threads the process-wide random state of `Model/Sched.lean`
through the per-sample loop):

* `column_independent`, `subset_columns`, `perm_columns`: in call / call-exact (and for the per-sample statistics
  of assemble) the column of a sample is what that sample gets alone; any selection / order of samples selects /
  orders the columns.  `column_index_seed_partial`, `column_seed_once_partial`: machine-checked witnesses that the
  theorem fails if the seed depends on the sample's position or if only the first sample of a locus is re-seeded.
* `pool_eq_union`, `dedupCounts_perm`, `dedupCounts_expand`, `pool_lik_eq_union`: a pool and the physically merged
  sample give the sampler the same distinct reads with the same counts, hence the same likelihood.
* `haplotypes_monotone`, `dots_only_become_named`, `callPosteriorHaplotypes_spec`: assemble's population haplotype
  list is a union over samples; other samples can only add ALT alleles and can only turn a sample's `.` into a
  named allele (the haplotype *sequence* behind a named allele never changes).

Not in the model: float summation order when the same reads reach the sampler in another order (named in the
check's assumptions), and the order of equally supported ALT alleles (`np.argsort` ties).
-/
namespace MCHap.C10
open MCHap

variable {S I O R : Type}

/-- the loop over samples computes, for every sample, exactly the column that sample gets on its own -/
theorem callRecord_eq_map (K : Sampler S I O) (seed : ℕ) (xs : List I) (r : Rng S) :
    callRecord K seed xs r = xs.map (callColumn K seed) := by
  unfold callRecord
  induction xs generalizing r with
  | nil => simp [fitSeq]
  | cons x xs ih =>
    simp only [List.map_cons, fitSeq]
    rw [ih]
    simp [fit, seedNumba, seedNumpy, callColumn]

theorem column_independent (K : Sampler S I O) (seed : ℕ) (xs : List I) (r r' : Rng S) (i : ℕ) (x : I)
    (hx : xs[i]? = some x) :
    (callRecord K seed xs r)[i]? = some (callColumn K seed x) ∧
    callRecord K seed [x] r' = [callColumn K seed x] := by
  rw [callRecord_eq_map, callRecord_eq_map]
  simp [hx]

theorem subset_columns (K : Sampler S I O) (seed : ℕ) (xs : List I) (r r' : Rng S) (sel : List ℕ) :
    callRecord K seed (sel.filterMap (xs[·]?)) r'
      = sel.filterMap ((callRecord K seed xs r)[·]?) := by
  rw [callRecord_eq_map, callRecord_eq_map]
  induction sel with
  | nil => simp
  | cons j js ih =>
    simp only [List.filterMap_cons, List.getElem?_map]
    cases h : xs[j]? with
    | none => simpa using ih
    | some x => simpa using ih

theorem perm_columns (K : Sampler S I O) (seed : ℕ) {xs ys : List I} (r r' : Rng S) (h : xs.Perm ys) :
    (callRecord K seed xs r).Perm (callRecord K seed ys r') := by
  rw [callRecord_eq_map, callRecord_eq_map]
  exact h.map _


/-! ### witnesses: what breaks the independence -/

/-- a sampler that returns what it finds in numpy's generator and advances it -/
def peek : Sampler ℕ Unit ℕ :=
  { initNp := fun s => s, initNb := fun s => s, run := fun r _ => (r.np, { r with np := r.np + 1 }) }

/-- non-vacuity: with per-sample re-seeding both samples see the seeded state -/
example : callRecord peek 42 [(), ()] ⟨0, 0⟩ = [42, 42] := by decide

/-- *partial*: if the seed depended on the position of the sample (`seed + i`), the second sample of a record
    would not get the column it gets alone -/
theorem column_index_seed_partial :
    (fitSeq peek [(some 42, ()), (some 43, ())] ⟨0, 0⟩).1 ≠ [callColumn peek 42 (), callColumn peek 42 ()] := by
  decide

/-- *partial*: if only the first sample of a locus were re-seeded, the later columns would depend on the earlier
    samples -/
theorem column_seed_once_partial :
    (fitSeq peek [(some 42, ()), (none, ())] ⟨0, 0⟩).1 ≠ [callColumn peek 42 (), callColumn peek 42 ()] := by
  decide

/-! ### de-duplication -/
section dedup
variable [DecidableEq R]

theorem mem_uniqueFirst (seen l : List R) (x : R) : x ∈ firstOccurrences seen l ↔ x ∈ l ∧ x ∉ seen := by
  induction l generalizing seen with
  | nil => simp [firstOccurrences]
  | cons y ys ih =>
    simp only [firstOccurrences]
    split_ifs with hy
    · rw [ih]; constructor
      · rintro ⟨h1, h2⟩; exact ⟨List.mem_cons_of_mem _ h1, h2⟩
      · rintro ⟨h1, h2⟩
        rcases List.mem_cons.mp h1 with rfl | h1
        · exact absurd hy h2
        · exact ⟨h1, h2⟩
    · simp only [List.mem_cons, ih]
      constructor
      · rintro (rfl | ⟨h1, h2⟩)
        · exact ⟨Or.inl rfl, hy⟩
        · exact ⟨Or.inr h1, fun h => h2 (Or.inr h)⟩
      · rintro ⟨h1 | h1, h2⟩
        · exact Or.inl h1
        · by_cases hxy : x = y
          · exact Or.inl hxy
          · exact Or.inr ⟨h1, by simp [hxy, h2]⟩

theorem nodup_uniqueFirst (seen l : List R) : (firstOccurrences seen l).Nodup := by
  induction l generalizing seen with
  | nil => simp [firstOccurrences]
  | cons y ys ih =>
    simp only [firstOccurrences]
    split_ifs with hy
    · exact ih seen
    · refine List.nodup_cons.mpr ⟨?_, ih _⟩
      rw [mem_uniqueFirst]; simp

theorem mem_dedupCounts (l : List R) (p : R × ℕ) : p ∈ dedupCounts l ↔ p.1 ∈ l ∧ p.2 = l.count p.1 := by
  unfold dedupCounts
  simp only [List.mem_map, mem_uniqueFirst, List.not_mem_nil, not_false_eq_true, and_true]
  constructor
  · rintro ⟨r, hr, rfl⟩; exact ⟨hr, rfl⟩
  · rintro ⟨h1, h2⟩; exact ⟨p.1, h1, by rw [← h2]⟩

theorem nodup_dedupCounts (l : List R) : (dedupCounts l).Nodup := by
  unfold dedupCounts
  exact (nodup_uniqueFirst [] l).map (fun a b h => by simpa using congrArg Prod.fst h)

/-- the de-duplicated reads-with-counts depend on the reads only as a multiset -/
theorem dedupCounts_perm {l₁ l₂ : List R} (h : l₁.Perm l₂) : (dedupCounts l₁).Perm (dedupCounts l₂) := by
  apply (List.perm_ext_iff_of_nodup (nodup_dedupCounts l₁) (nodup_dedupCounts l₂)).mpr
  intro p
  rw [mem_dedupCounts, mem_dedupCounts, h.mem_iff, h.count_eq]

theorem sum_count_replicate (ks : List R) (c : R → ℕ) (a : R) (hk : ks.Nodup) :
    (ks.map (fun r => List.count a (List.replicate (c r) r))).sum = if a ∈ ks then c a else 0 := by
  induction ks with
  | nil => simp
  | cons k ks ih =>
    obtain ⟨h1, h2⟩ := List.nodup_cons.mp hk
    rw [List.map_cons, List.sum_cons, ih h2, List.count_replicate]
    by_cases hak : k = a
    · subst hak; simp [h1]
    · have : ¬ a = k := fun h => hak h.symm
      simp [hak, this]

/-- nothing is lost: expanding every distinct read by its count gives the reads back (as a multiset) -/
theorem dedupCounts_expand (l : List R) :
    ((dedupCounts l).flatMap (fun p => List.replicate p.2 p.1)).Perm l := by
  rw [List.perm_iff_count]
  intro a
  rw [List.count_flatMap]
  unfold dedupCounts
  rw [List.map_map]
  have := sum_count_replicate (firstOccurrences [] l) (fun r => l.count r) a (nodup_uniqueFirst [] l)
  simp only [Function.comp_def]
  rw [this]
  split_ifs with h
  · rfl
  · rw [mem_uniqueFirst] at h
    simp only [List.not_mem_nil, not_false_eq_true, and_true] at h
    exact (List.count_eq_zero_of_not_mem h).symm

/-- a pool equals the union of its reads: if the alignments of the pool members are physically merged into one
    sample (in any order), the sampler receives the same distinct reads with the same counts -/
theorem pool_eq_union (members : List (List R)) (merged : List R) (h : merged.Perm (poolReads members)) :
    (dedupCounts merged).Perm (encodeSample members) ∧ merged.length = readCount members := by
  exact ⟨dedupCounts_perm h, h.length_eq⟩

end dedup

/-- and therefore the same likelihood for every genotype (`C04.lik_perm_reads`), hence the same posterior -/
theorem pool_lik_eq_union (members : List (List Read)) (merged : List Read) (nb : ℕ) (g : Genotype)
    (h : merged.Perm (poolReads members)) :
    lik (dedupCounts merged) nb g = lik (encodeSample members) nb g :=
  C04.lik_perm_reads nb g (dedupCounts_perm h)


/-! ### assemble -/

theorem insertLe_perm {α} (le : α → α → Bool) (x : α) (l : List α) : (insertLe le x l).Perm (x :: l) := by
  induction l with
  | nil => simp [insertLe]
  | cons y ys ih =>
    simp only [insertLe]
    split_ifs
    · exact List.Perm.refl _
    · exact (List.Perm.cons y ih).trans (List.Perm.swap x y ys)

theorem sortLe_perm {α} (le : α → α → Bool) (l : List α) : (sortLe le l).Perm l := by
  induction l with
  | nil => simp [sortLe]
  | cons x xs ih => exact (insertLe_perm le x _).trans (List.Perm.cons x ih)

theorem mem_accumulate (acc : List (Hap × ℚ)) (h : Hap) (w : ℚ) (x : Hap) :
    x ∈ (accumulate acc h w).map Prod.fst ↔ x ∈ acc.map Prod.fst ∨ x = h := by
  induction acc with
  | nil => simp [accumulate]
  | cons p rest ih =>
    obtain ⟨h', v⟩ := p
    simp only [accumulate]
    split_ifs with e
    · subst e; simp only [List.map_cons, List.mem_cons]; tauto
    · simp only [List.map_cons, List.mem_cons, ih]; tauto

theorem mem_foldl_accumulate (sts : List HapStat) (acc : List (Hap × ℚ)) (x : Hap) :
    x ∈ (sts.foldl (fun acc st => accumulate acc st.hap st.weight) acc).map Prod.fst
      ↔ x ∈ acc.map Prod.fst ∨ ∃ st ∈ sts, st.hap = x := by
  induction sts generalizing acc with
  | nil => simp
  | cons st sts ih =>
    simp only [List.foldl_cons, ih, mem_accumulate, List.mem_cons, exists_eq_or_imp]
    constructor
    · rintro ((h | h) | h)
      · exact Or.inl h
      · exact Or.inr (Or.inl h.symm)
      · exact Or.inr (Or.inr h)
    · rintro (h | h | h)
      · exact Or.inl (Or.inl h)
      · exact Or.inl (Or.inr h.symm)
      · exact Or.inr h

/-- the haplotypes collected are exactly those reaching the threshold in at least one sample -/
theorem mem_collectHaps (thr : ℚ) (posts : List (List HapStat)) (x : Hap) :
    x ∈ (collectHaps thr posts).map Prod.fst ↔ ∃ post ∈ posts, ∃ st ∈ post, thr ≤ st.occ ∧ st.hap = x := by
  unfold collectHaps
  have key : ∀ (acc : List (Hap × ℚ)),
      x ∈ (posts.foldl (fun acc post =>
        (post.filter (fun st => decide (thr ≤ st.occ))).foldl
          (fun acc st => accumulate acc st.hap st.weight) acc) acc).map Prod.fst
      ↔ x ∈ acc.map Prod.fst ∨ ∃ post ∈ posts, ∃ st ∈ post, thr ≤ st.occ ∧ st.hap = x := by
    induction posts with
    | nil => intro acc; simp
    | cons p ps ih =>
      intro acc
      simp only [List.foldl_cons, ih, mem_foldl_accumulate, List.mem_filter, decide_eq_true_eq,
        List.mem_cons, exists_eq_or_imp]
      constructor
      · rintro ((h | ⟨st, ⟨h1, h2⟩, h3⟩) | h)
        · exact Or.inl h
        · exact Or.inr (Or.inl ⟨st, h1, h2, h3⟩)
        · exact Or.inr (Or.inr h)
      · rintro (h | ⟨st, h1, h2, h3⟩ | h)
        · exact Or.inl (Or.inl h)
        · exact Or.inl (Or.inr ⟨st, ⟨h1, h2⟩, h3⟩)
        · exact Or.inr h
  simpa using key []

/-- what `call_posterior_haplotypes` lists: the reference first; then exactly the non-reference haplotypes that
    reach the threshold in some sample; `ref_observed` iff the reference reaches it in some sample -/
theorem callPosteriorHaplotypes_spec (thr : ℚ) (posts : List (List HapStat)) (nBase : ℕ) :
    (callPosteriorHaplotypes thr posts nBase).1.head? = some (List.replicate nBase 0) ∧
    (∀ x, x ∈ (callPosteriorHaplotypes thr posts nBase).1.tail ↔
        isRef x = false ∧ ∃ post ∈ posts, ∃ st ∈ post, thr ≤ st.occ ∧ st.hap = x) ∧
    ((callPosteriorHaplotypes thr posts nBase).2 = true ↔
        ∃ post ∈ posts, ∃ st ∈ post, thr ≤ st.occ ∧ isRef st.hap = true) := by
  refine ⟨rfl, ?_, ?_⟩
  · intro x
    simp only [callPosteriorHaplotypes, List.tail_cons, List.mem_map, List.mem_reverse]
    rw [← mem_collectHaps]
    constructor
    · rintro ⟨p, hp, rfl⟩
      have hp' := (sortLe_perm _ _).mem_iff.mp hp
      simp only [List.mem_filter, Bool.not_eq_eq_eq_not, Bool.not_true] at hp'
      exact ⟨hp'.2, List.mem_map_of_mem hp'.1⟩
    · rintro ⟨h1, h2⟩
      obtain ⟨p, hp, rfl⟩ := List.mem_map.mp h2
      refine ⟨p, ?_, rfl⟩
      apply (sortLe_perm _ _).mem_iff.mpr
      simp [List.mem_filter, hp, h1]
  · simp only [callPosteriorHaplotypes, List.any_eq_true]
    constructor
    · rintro ⟨p, hp, hr⟩
      obtain ⟨post, h1, st, h2, h3, h4⟩ := (mem_collectHaps thr posts p.1).mp (List.mem_map_of_mem hp)
      exact ⟨post, h1, st, h2, h3, by rw [h4]; exact hr⟩
    · rintro ⟨post, h1, st, h2, h3, h4⟩
      obtain ⟨p, hp, hpe⟩ := List.mem_map.mp ((mem_collectHaps thr posts st.hap).mpr ⟨post, h1, st, h2, h3, rfl⟩)
      exact ⟨p, hp, by rw [hpe]; exact h4⟩

/-- adding samples can only add ALT haplotypes (and can only turn `REFMASKED` off) -/
theorem haplotypes_monotone (thr : ℚ) (posts' posts : List (List HapStat)) (nBase : ℕ)
    (hsub : ∀ p ∈ posts', p ∈ posts) :
    (∀ x ∈ (callPosteriorHaplotypes thr posts' nBase).1.tail,
        x ∈ (callPosteriorHaplotypes thr posts nBase).1.tail) ∧
    ((callPosteriorHaplotypes thr posts' nBase).2 = true → (callPosteriorHaplotypes thr posts nBase).2 = true) := by
  obtain ⟨-, a2, a3⟩ := callPosteriorHaplotypes_spec thr posts' nBase
  obtain ⟨-, b2, b3⟩ := callPosteriorHaplotypes_spec thr posts nBase
  constructor
  · intro x hx
    obtain ⟨h1, post, hp, rest⟩ := (a2 x).mp hx
    exact (b2 x).mpr ⟨h1, post, hsub _ hp, rest⟩
  · intro h
    obtain ⟨post, hp, rest⟩ := a3.mp h
    exact b3.mpr ⟨post, hsub _ hp, rest⟩


theorem label_isSome_iff (tl : List Hap) (b : Bool) (ref h : Hap) :
    (label (ref :: tl, b) h).isSome = true ↔ (h = ref ∧ b = true) ∨ (h ≠ ref ∧ h ∈ tl) := by
  unfold label
  simp only [List.idxOf?_cons]
  by_cases hr : ref = h
  · subst hr; simp
  · have hr' : ¬ h = ref := fun e => hr e.symm
    simp only [beq_iff_eq, hr, if_false, hr', false_and, ne_eq, not_false_eq_true, true_and, false_or]
    cases hi : List.idxOf? h tl with
    | none =>
      simp only [Option.map_none]
      have : h ∉ tl := List.idxOf?_eq_none_iff.mp hi
      simp [this]
    | some i =>
      simp only [Option.map_some]
      have : h ∈ tl := by
        by_contra hn
        rw [List.idxOf?_eq_none_iff.mpr hn] at hi; cases hi
      simp [this]

theorem calledSeq_eq_some (C : List Hap × Bool) (h x : Hap) :
    calledSeq C h = some x ↔ (label C h).isSome = true ∧ x = h := by
  unfold calledSeq
  cases label C h <;> simp [eq_comm]


/-- other samples can only turn a sample's unknown `.` alleles into named alleles: a haplotype of the sample's
    genotype that is named when fewer samples are analysed stays named, with the same sequence -/
theorem dots_only_become_named (thr : ℚ) (posts' posts : List (List HapStat)) (nBase : ℕ)
    (hsub : ∀ p ∈ posts', p ∈ posts) (h x : Hap)
    (hx : calledSeq (callPosteriorHaplotypes thr posts' nBase) h = some x) :
    calledSeq (callPosteriorHaplotypes thr posts nBase) h = some x := by
  obtain ⟨m1, m2⟩ := haplotypes_monotone thr posts' posts nBase hsub
  have e' : callPosteriorHaplotypes thr posts' nBase
      = (List.replicate nBase 0 :: (callPosteriorHaplotypes thr posts' nBase).1.tail,
          (callPosteriorHaplotypes thr posts' nBase).2) := rfl
  have e : callPosteriorHaplotypes thr posts nBase
      = (List.replicate nBase 0 :: (callPosteriorHaplotypes thr posts nBase).1.tail,
          (callPosteriorHaplotypes thr posts nBase).2) := rfl
  rw [calledSeq_eq_some] at hx ⊢
  refine ⟨?_, hx.2⟩
  have h1 := hx.1
  rw [e', label_isSome_iff] at h1
  rw [e, label_isSome_iff]
  rcases h1 with ⟨a, b⟩ | ⟨a, b⟩
  · exact Or.inl ⟨a, m2 b⟩
  · exact Or.inr ⟨a, m1 _ b⟩

/-- non-vacuity / shape: two samples, threshold 1/5; the second sample adds an ALT, the reference is called -/
example :
    callPosteriorHaplotypes (1/5) [[⟨[0, 0], 3/2, 1⟩, ⟨[0, 1], 1/2, 1/2⟩, ⟨[1, 1], 1/10, 1/10⟩]] 2
      = ([[0, 0], [0, 1]], true) ∧
    callPosteriorHaplotypes (1/5) [[⟨[0, 0], 3/2, 1⟩, ⟨[0, 1], 1/2, 1/2⟩, ⟨[1, 1], 1/10, 1/10⟩],
        [⟨[1, 1], 2, 1⟩]] 2 = ([[0, 0], [1, 1], [0, 1]], true) ∧
    genotypeAsAlleles ([[0, 0], [0, 1]], true) [[1, 1], [0, 1], [0, 0], [1, 1]]
      = [some 0, some 1, none, none] := by
  decide +kernel

example : dedupCounts [3, 1, 3, 2, 1, 3] = [(3, 3), (1, 2), (2, 1)] := by decide

end MCHap.C10
