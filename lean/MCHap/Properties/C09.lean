import MCHap.Proofs.TrieRefine

/-!
# C09 — likelihood caches are transparent; the carried likelihood always equals the recomputed one

Three layers:

* the pointer-array trie (`arraymap`): the node-allocation loop of `set` preserves well-formedness,
  reaches the key, preserves every old walk and creates none off the inserted path
  (`insertPath_spec`, on the model's `walk` / `updTree`); a new or flushed map misses every key;
* an abstract cache (any finite map, with `set` allowed to flush instead of storing, which is what
  `empty_if_full` does): if every stored value is `f key` then every hit returns `f key`, for every
  history (`cache_transparent`);
* a sampler state `(genotype, carried llk, cache)`: every move that obtains the proposal's likelihood
  through the cached wrapper keeps `carried llk = f genotype`, including the exchange of two chains
  (`carried_llk_invariant`, `exchange_keeps_invariant`).
-/
namespace MCHap.C09
open MCHap MCHap.Trie

/-! ### trie layer (re-exported under this property's name) -/

theorem walk_append (t : PTree) (u : ℕ) (π ρ : List ℕ) :
    walk t u (π ++ ρ) = (walk t u π).bind (fun v => walk t v ρ) := Trie.walk_append t u π ρ

theorem walk_upd_fresh {t : PTree} {en L : ℕ} (wf : WF t en L) {π : List ℕ} {node j : ℕ}
    (hπ : walk t 0 π = some node) (hlen : π.length < L) (hnull : t node j < 0) :
    ∀ ρ : List ℕ, ρ.length ≤ L →
      walk (updTree t node j (en : ℤ)) 0 ρ =
        if ρ = π ++ [j] then some en
        else if (π ++ [j]) <+: ρ then none
        else walk t 0 ρ := Trie.walk_upd_fresh wf hπ hlen hnull

theorem WF_link {t : PTree} {en L : ℕ} (wf : WF t en L) {π : List ℕ} {node j : ℕ}
    (hπ : walk t 0 π = some node) (hlen : π.length < L) (hnull : t node j < 0) :
    WF (updTree t node j (en : ℤ)) (en + 1) L := Trie.WF_link wf hπ hlen hnull

/-- specification of the node-allocation loop of `arraymap.set` -/
theorem insertPath_spec {L : ℕ} (rest : List ℕ) (t : PTree) (en node : ℕ) (π : List ℕ)
    (wf : WF t en L) (hπ : walk t 0 π = some node) (hlen : π.length + rest.length ≤ L) :
    let r := insertPath t en node rest
    WF r.1 r.2.1 L ∧ en ≤ r.2.1 ∧ walk r.1 0 (π ++ rest) = some r.2.2 ∧
    (∀ ρ u, ρ.length ≤ L → walk t 0 ρ = some u → walk r.1 0 ρ = some u) ∧
    (∀ ρ u, ρ.length ≤ L → walk r.1 0 ρ = some u →
      walk t 0 ρ = some u ∨ (π <+: ρ ∧ ρ <+: π ++ rest ∧ ρ ≠ π)) :=
  Trie.insertPath_spec rest t en node π wf hπ hlen

/-- the empty trie is well-formed -/
theorem WF_new (L : ℕ) : WF (fun _ _ => -1) 1 L := by
  refine ⟨le_refl _, ?_, ?_, fun _ _ _ => rfl⟩
  · intro π u _ h
    cases π with
    | nil => simp [walk] at h; omega
    | cons j js => simp [walk] at h
  · intro π π' u _ _ h h'
    cases π with
    | nil =>
      cases π' with
      | nil => rfl
      | cons j js => simp [walk] at h'
    | cons j js => simp [walk] at h

/-- a new map misses every key (`get` returns the NaN sentinel) -/
theorem get_new_miss (kl br ini mx : ℕ) (key : List ℕ) : (AMap.new kl br ini mx).get key = none := by
  unfold AMap.get AMap.new
  cases key with
  | nil => simp [walk]
  | cons j js => simp [walk]

/-- after an overflow flush every key is a miss -/
theorem flushed_empty (m : AMap) (key : List ℕ) : m.flushed.get key = none := by
  unfold AMap.get AMap.flushed
  cases key with
  | nil => simp [walk]
  | cons j js => simp [walk]

/-- the node loop of the model is `insertPath` plus length bookkeeping: when it completes normally
    the tree, the allocation pointer and the leaf are those of `insertPath`, and nothing else changed -/
theorem insertLoop_ok (e : Bool) (key : List ℕ) (m : AMap) (node : ℕ) (m1 : AMap) (leaf : ℕ)
    (h : insertLoop e m node key = (.ok m1, leaf)) :
    m1.tree = (insertPath m.tree m.emptyNode node key).1 ∧
    m1.emptyNode = (insertPath m.tree m.emptyNode node key).2.1 ∧
    leaf = (insertPath m.tree m.emptyNode node key).2.2 ∧
    m1.values = m.values ∧ m1.emptyValues = m.emptyValues ∧ m1.valuesLen = m.valuesLen ∧
    m1.keyLen = m.keyLen ∧ m1.maxSize = m.maxSize := Trie.insertLoop_ok' e key m node m1 leaf h

/-! ### the refinement: a well-formed `arraymap` IS a finite map -/

/-- a new map is well-formed (and represents the empty map) -/
theorem Inv_new (kl br ini mx : ℕ) : Inv (AMap.new kl br ini mx) := Trie.Inv_new kl br ini mx

/-- `get` returns exactly the represented map; a miss is the NaN sentinel -/
theorem get_eq_abs (m : AMap) (h : Inv m) (key : List ℕ) : m.get key = absGet m key :=
  Trie.get_eq_abs m h key

/-- **`arraymap.set` refines the finite-map update**: on a well-formed map, `set key v` yields a
    well-formed map representing `old[key ↦ v]` (through every combination of node allocation,
    tree growth, value-slot allocation and value-array growth), or — on overflow — a well-formed
    empty map (`empty_if_full`) / the `ValueError` outcome; nothing else -/
theorem set_refines (m : AMap) (h : Inv m) (key : List ℕ) (hk : key.length = m.keyLen) (v : Option ℚ)
    (e : Bool) (res : SetResult) :
    m.set key v e = res →
    match res with
    | .ok m' => Inv m' ∧ m'.keyLen = m.keyLen ∧
        ∀ key', key'.length = m.keyLen → absGet m' key' = if key' = key then v else absGet m key'
    | .flushed m' => Inv m' ∧ m'.keyLen = m.keyLen ∧ ∀ key', absGet m' key' = none
    | .full => True := Trie.set_refines m h key hk v e res

/-- every stored value of the concrete map is `f key` -/
def AMapCoherent (f : List ℕ → ℚ) (m : AMap) : Prop :=
  ∀ key q, key.length = m.keyLen → m.get key = some q → q = f key

/-- **transparency of the concrete cache, one step**: storing `f key` in a well-formed coherent map
    gives a well-formed coherent map, whatever growth or flush the call triggers -/
theorem amap_coherent_set (f : List ℕ → ℚ) (m : AMap) (h : Inv m) (hc : AMapCoherent f m)
    (key : List ℕ) (hk : key.length = m.keyLen) (e : Bool) (m' : AMap)
    (hm : (m.set key (some (f key)) e).map = some m') :
    Inv m' ∧ m'.keyLen = m.keyLen ∧ AMapCoherent f m' := by
  have hr := Trie.set_refines m h key hk (some (f key)) e _ rfl
  cases hs : m.set key (some (f key)) e with
  | full => rw [hs] at hm; simp [SetResult.map] at hm
  | flushed mf =>
    rw [hs] at hm hr
    simp only [SetResult.map, Option.some.injEq] at hm
    subst hm
    obtain ⟨i1, i2, i3⟩ := hr
    refine ⟨i1, i2, ?_⟩
    intro key' q _ hg
    rw [Trie.get_eq_abs _ i1, i3 key'] at hg
    cases hg
  | ok mo =>
    rw [hs] at hm hr
    simp only [SetResult.map, Option.some.injEq] at hm
    subst hm
    obtain ⟨i1, i2, i3⟩ := hr
    refine ⟨i1, i2, ?_⟩
    intro key' q hk' hg
    rw [i2] at hk'
    rw [Trie.get_eq_abs _ i1, i3 key' hk'] at hg
    by_cases hkk : key' = key
    · simp only [hkk, if_true, Option.some.injEq] at hg
      rw [hkk]; exact hg.symm
    · simp only [hkk, if_false] at hg
      rw [← Trie.get_eq_abs m h] at hg
      exact hc key' q hk' hg

/-- … and over every history of stores starting from a new map (any sizes): the map stays well-formed
    and every later hit returns `f key` -/
theorem amap_transparent (f : List ℕ → ℚ) (kl br ini mx : ℕ) (e : Bool) :
    ∀ (keys : List (List ℕ)) (m : AMap), Inv m → m.keyLen = kl → AMapCoherent f m →
      (∀ k ∈ keys, k.length = kl) →
      ∀ mEnd, keys.foldl (fun (acc : Option AMap) k => acc.bind (fun m => (m.set k (some (f k)) e).map))
        (some m) = some mEnd → Inv mEnd ∧ AMapCoherent f mEnd := by
  have _ := (br, ini, mx)
  intro keys
  induction keys with
  | nil => intro m h _ hc _ mEnd he; simp at he; subst he; exact ⟨h, hc⟩
  | cons k ks ih =>
    intro m h hkl hc hks mEnd he
    simp only [List.foldl_cons, Option.bind_some] at he
    cases hs : (m.set k (some (f k)) e).map with
    | none =>
      rw [hs] at he
      have : ∀ l : List (List ℕ), l.foldl (fun (acc : Option AMap) k =>
          acc.bind (fun m => (m.set k (some (f k)) e).map)) none = none := by
        intro l; induction l with
        | nil => rfl
        | cons a t iht => simpa using iht
      rw [this] at he; cases he
    | some m' =>
      rw [hs] at he
      obtain ⟨i1, i2, i3⟩ := amap_coherent_set f m h hc k (by rw [hkl]; exact hks k (by simp)) e m' hs
      exact ih m' i1 (by rw [i2, hkl]) i3 (fun k' hk' => hks k' (List.mem_cons_of_mem _ hk')) mEnd he

/-! ### abstract cache layer -/

section Abstract
variable {K V : Type} [DecidableEq K]

/-- what a `set` may do to a cache: store the value, or (overflow) drop everything -/
inductive SetOutcome | stored | flushed

def absSet (c : K → Option V) (k : K) (v : V) : SetOutcome → (K → Option V)
  | .stored => fun k' => if k' = k then some v else c k'
  | .flushed => fun _ => none

/-- every cached value is the value of `f` at its key -/
def Coherent (f : K → V) (c : K → Option V) : Prop := ∀ k v, c k = some v → v = f k

omit [DecidableEq K] in
theorem coherent_empty (f : K → V) : Coherent f (fun _ => none) := by
  intro k v h; cases h

theorem coherent_set (f : K → V) (c : K → Option V) (hc : Coherent f c) (k : K) (o : SetOutcome) :
    Coherent f (absSet c k (f k) o) := by
  cases o with
  | stored =>
    intro k' v h
    simp only [absSet] at h
    by_cases hk : k' = k
    · subst hk; simp at h; exact h.symm
    · simp only [hk, if_false] at h; exact hc k' v h
  | flushed => exact coherent_empty f

/-- the cached wrapper (`log_likelihood_cached` and friends): serve a hit, otherwise compute and store -/
def cachedCall (f : K → V) (c : K → Option V) (k : K) (o : SetOutcome) : V × (K → Option V) :=
  match c k with
  | some v => (v, c)
  | none => (f k, absSet c k (f k) o)

/-- one wrapper call: the served value is the freshly computed one and the cache stays coherent -/
theorem cachedCall_spec (f : K → V) (c : K → Option V) (hc : Coherent f c) (k : K) (o : SetOutcome) :
    (cachedCall f c k o).1 = f k ∧ Coherent f (cachedCall f c k o).2 := by
  unfold cachedCall
  cases h : c k with
  | some v => exact ⟨hc k v h, hc⟩
  | none => exact ⟨rfl, coherent_set f c hc k o⟩

/-- **cache transparency over histories**: starting from an empty (or any coherent) cache, after any
    sequence of wrapper calls with arbitrary keys and arbitrary store / flush outcomes (any cache
    size, any growth and overflow pattern), every served value equals the freshly computed value -/
theorem cache_transparent (f : K → V) : ∀ (hist : List (K × SetOutcome)) (c : K → Option V),
    Coherent f c →
    let run := hist.foldl (fun (acc : List V × (K → Option V)) ko =>
      let r := cachedCall f acc.2 ko.1 ko.2
      (acc.1 ++ [r.1], r.2)) (([] : List V), c)
    run.1 = hist.map (fun ko => f ko.1) ∧ Coherent f run.2 := by
  intro hist
  -- generalise the accumulator
  have key : ∀ (hist : List (K × SetOutcome)) (served : List V) (c : K → Option V), Coherent f c →
      let run := hist.foldl (fun (acc : List V × (K → Option V)) ko =>
        let r := cachedCall f acc.2 ko.1 ko.2
        (acc.1 ++ [r.1], r.2)) (served, c)
      run.1 = served ++ hist.map (fun ko => f ko.1) ∧ Coherent f run.2 := by
    intro hist
    induction hist with
    | nil => intro served c hc; simp [hc]
    | cons ko t ih =>
      intro served c hc
      obtain ⟨h1, h2⟩ := cachedCall_spec f c hc ko.1 ko.2
      have := ih (served ++ [(cachedCall f c ko.1 ko.2).1]) (cachedCall f c ko.1 ko.2).2 h2
      simp only [List.foldl_cons, List.map_cons]
      rw [h1] at this ⊢
      simpa [List.append_assoc] using this
  intro c hc
  simpa using key hist [] c hc

/-- a sampler state: current genotype, the likelihood carried for it, the cache -/
structure Carried (K V : Type) where
  state : K
  llk : V
  cache : K → Option V

def CarriedOk (f : K → V) (s : Carried K V) : Prop := s.llk = f s.state ∧ Coherent f s.cache

/-- a move: the proposal's likelihood is obtained through the cached wrapper; the move is either
    accepted (state and carried likelihood are replaced together) or rejected -/
def moveStep (f : K → V) (s : Carried K V) (proposal : K) (o : SetOutcome) (accept : Bool) : Carried K V :=
  let r := cachedCall f s.cache proposal o
  if accept then { state := proposal, llk := r.1, cache := r.2 }
  else { s with cache := r.2 }

/-- **the carried likelihood always equals the recomputed one**, for every move outcome -/
theorem carried_llk_invariant (f : K → V) (s : Carried K V) (hs : CarriedOk f s) (proposal : K)
    (o : SetOutcome) (accept : Bool) : CarriedOk f (moveStep f s proposal o accept) := by
  obtain ⟨h1, h2⟩ := cachedCall_spec f s.cache hs.2 proposal o
  unfold moveStep
  cases accept with
  | true => exact ⟨h1, h2⟩
  | false => exact ⟨hs.1, h2⟩

/-- … and for every history of moves -/
theorem carried_llk_invariant_history (f : K → V) (moves : List (K × SetOutcome × Bool))
    (s : Carried K V) (hs : CarriedOk f s) :
    CarriedOk f (moves.foldl (fun s m => moveStep f s m.1 m.2.1 m.2.2) s) := by
  induction moves generalizing s with
  | nil => exact hs
  | cons m t ih => exact ih _ (carried_llk_invariant f s hs m.1 m.2.1 m.2.2)

omit [DecidableEq K] in
/-- the temperature exchange swaps genotypes *and* carried likelihoods (`return llk_j, llk_i`),
    so both chains keep the invariant (they share one coherent cache) -/
theorem exchange_keeps_invariant (f : K → V) (si sj : Carried K V) (hi : CarriedOk f si)
    (hj : CarriedOk f sj) :
    CarriedOk f { si with state := sj.state, llk := sj.llk } ∧
    CarriedOk f { sj with state := si.state, llk := si.llk } :=
  ⟨⟨hj.1, hi.2⟩, ⟨hi.1, hj.2⟩⟩

end Abstract

/-! ### non-vacuity: a history with growth, a flush and hits on the concrete model -/

example :
    (((AMap.new 2 2 2 8).set [0, 1] (some (5/2))).map.bind (fun m1 => (m1.set [1, 1] (some 3)).map)).map
      (fun m2 => (m2.get [1, 1], m2.get [0, 1], m2.get [0, 0], m2.boundsOk, m2.treeLen))
      = some (some 3, some (5/2), none, true, 8) := by
  decide +kernel

end MCHap.C09
