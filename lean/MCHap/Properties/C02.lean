import MCHap.Model.CallMoves
import MCHap.Properties.C04
import MCHap.Properties.C05
import MCHap.Proofs.MH
import MCHap.Proofs.Compose
import Mathlib.Data.List.Perm.Basic

/-!
# C02 — the `mchap call` sampler is stationary at the posterior `call-exact` enumerates

Ordered target: `πo(a) = lik(a) · dmOrdered α a` (likelihood × Pólya-urn probability of the ordered
allele sequence).  By `C05.dmCounts_eq_perms_mul_ordered` the unordered weight `callW` that
call-exact enumerates is `#orderings × πo` (`callW_eq_perms_mul_ordered`), so both programs target
the same distribution over unordered genotypes.
-/
namespace MCHap.C02
open MCHap

/-! ### normalisation -/

theorem normalise_sum_one (l : List ℚ) (h : l.sum ≠ 0) : (normalise l).sum = 1 := by
  unfold normalise
  have : (l.map (· / l.sum)) = l.map (· * (l.sum)⁻¹) := by
    apply List.map_congr_left; intro x _; exact div_eq_mul_inv _ _
  rw [this, List.sum_map_mul_right, List.map_id']
  exact mul_inv_cancel₀ h

theorem normalise_scale (l : List ℚ) (D : ℚ) (hD : D ≠ 0) :
    normalise (l.map (· / D)) = normalise l := by
  unfold normalise
  have hs : (l.map (· / D)).sum = l.sum / D := by
    have : (l.map (· / D)) = l.map (· * D⁻¹) := by
      apply List.map_congr_left; intro x _; exact div_eq_mul_inv _ _
    rw [this, List.sum_map_mul_right, List.map_id', div_eq_mul_inv]
  rw [hs, List.map_map]
  apply List.map_congr_left
  intro x _
  simp only [Function.comp]
  by_cases h0 : l.sum = 0
  · simp [h0]
  · field_simp

/-- the Gibbs probabilities sum to one whenever some candidate has positive weight -/
theorem gibbs_sum_one (P : CallParams) (a : List ℕ) (k : ℕ) (h : (gibbsWeights P a k).sum ≠ 0) :
    (gibbsProbs P a k).sum = 1 := normalise_sum_one _ h

/-! ### the Gibbs move draws from the exact full conditional -/

/-- ordered posterior weight: likelihood × urn probability of the ordered allele sequence -/
def piO (P : CallParams) (alphas : List ℚ) (a : List ℕ) : ℚ :=
  likAlleles P.reads P.nb P.haps a * C05.dmOrdered alphas a

/-- **Gibbs = exact full conditional** (Dirichlet-multinomial branch, `F > 0`, explicit frequencies):
    the vector `gibbs_options` produces for slot `k = |pre|` is
    `πo(pre ++ x :: post) / Σ_y πo(pre ++ y :: post)` for every candidate allele `x`. -/
theorem gibbs_is_conditional (P : CallParams) (fs : List ℚ) (hfs : P.freqs = some fs)
    (hF : P.F ≠ 0) (hlen : fs.length = P.n) (pre post : List ℕ) (c : ℕ)
    (hA : 0 < (fs.map (alphaOf P.F)).sum)
    (hpos : ∀ z ∈ pre ++ post, 0 < (fs.map (alphaOf P.F)).getD z 0) :
    gibbsProbs P (pre ++ c :: post) pre.length
      = normalise ((List.range P.n).map (fun x => piO P (fs.map (alphaOf P.F)) (pre ++ x :: post))) := by
  set alphas := fs.map (alphaOf P.F) with hal
  have hlen' : alphas.length = P.n := by simp [hal, hlen]
  -- common factor: urn probability of the other alleles
  have hD : C05.dmOrdered alphas (pre ++ post) ≠ 0 := by
    unfold C05.dmOrdered
    apply div_ne_zero
    · apply ne_of_gt
      apply List.prod_pos
      intro v hv
      obtain ⟨b, _, rfl⟩ := List.mem_map.mp hv
      by_cases hc : (pre ++ post).count b = 0
      · rw [hc]; simp [rising]
      · exact rising_pos _ (hpos b (List.count_pos_iff.mp (Nat.pos_of_ne_zero hc))) _
    · exact (rising_pos _ hA _).ne'
  have hw : gibbsWeights P (pre ++ c :: post) pre.length
      = ((List.range P.n).map (fun x => piO P alphas (pre ++ x :: post))).map
          (· / C05.dmOrdered alphas (pre ++ post)) := by
    unfold gibbsWeights
    rw [List.map_map]
    apply List.map_congr_left
    intro x hx
    have hx' : x < alphas.length := by rw [hlen']; exact List.mem_range.mp hx
    have hset : (pre ++ c :: post).set pre.length x = pre ++ x :: post := by simp
    simp only [Function.comp, hset, piO]
    rw [hfs, C05.allelePrior_eq_urn P.n P.F hF fs pre post x,
      C05.dmOrdered_insert alphas pre post x hx' hA]
    have e : alphaOf P.F (fs.getD x 0) = alphas.getD x 0 := by
      simp [hal, List.getD_eq_getElem?_getD, List.getElem?_map]
      cases h : fs[x]? with
      | none =>
        have : fs.length ≤ x := List.getElem?_eq_none_iff.mp h
        rw [hal, List.length_map] at hx'; omega
      | some v => simp
    rw [e, ← hal]
    have hpos2 : (0 : ℚ) < alphas.sum + ((pre ++ post).length : ℚ) := by positivity
    field_simp
  unfold gibbsProbs
  rw [hw, normalise_scale _ _ hD]

/-- ordered posterior weight for `F = 0` (independent alleles): likelihood × product of the allele
    frequencies -/
def piO0 (P : CallParams) (a : List ℕ) : ℚ :=
  likAlleles P.reads P.nb P.haps a * (a.map (freqOf P.n P.freqs)).prod

/-- **Gibbs = exact full conditional, `F = 0`** (any frequencies, flat included) -/
theorem gibbs_is_conditional_F0 (P : CallParams) (hF : P.F = 0) (pre post : List ℕ) (c : ℕ)
    (hpos : ∀ z ∈ pre ++ post, freqOf P.n P.freqs z ≠ 0) :
    gibbsProbs P (pre ++ c :: post) pre.length
      = normalise ((List.range P.n).map (fun x => piO0 P (pre ++ x :: post))) := by
  have hD : ((pre ++ post).map (freqOf P.n P.freqs)).prod ≠ 0 := by
    apply List.prod_ne_zero
    intro h0
    obtain ⟨z, hz, hz0⟩ := List.mem_map.mp h0
    exact hpos z hz hz0
  have hw : gibbsWeights P (pre ++ c :: post) pre.length
      = ((List.range P.n).map (fun x => piO0 P (pre ++ x :: post))).map
          (· / ((pre ++ post).map (freqOf P.n P.freqs)).prod) := by
    unfold gibbsWeights
    rw [List.map_map]
    apply List.map_congr_left
    intro x _
    have hset : (pre ++ c :: post).set pre.length x = pre ++ x :: post := by simp
    have hget : (pre ++ x :: post).getD pre.length 0 = x := by simp [List.getD_eq_getElem?_getD]
    simp only [Function.comp, hset, piO0, C05.allelePrior_F0, hF, hget]
    simp only [List.map_append, List.map_cons, List.prod_append, List.prod_cons] at hD ⊢
    have h1 : (List.map (freqOf P.n P.freqs) pre).prod ≠ 0 := left_ne_zero_of_mul hD
    have h2 : (List.map (freqOf P.n P.freqs) post).prod ≠ 0 := right_ne_zero_of_mul hD
    field_simp
  unfold gibbsProbs
  rw [hw, normalise_scale _ _ hD]

/-- the flat prior (`frequencies=None`) gives the same single-allele conditional, hence the same Gibbs
    vector, as the explicit flat frequency vector — so `gibbs_is_conditional` covers it -/
theorem allelePrior_none_eq_flat (n : ℕ) (F : ℚ) (g : List ℕ) (k : ℕ)
    (hk : g.getD k 0 < n) :
    allelePrior n F none g k = allelePrior n F (some (List.replicate n (1 / (n : ℚ)))) g k := by
  unfold allelePrior
  have hf : freqOf n (some (List.replicate n (1 / (n : ℚ)))) (g.getD k 0) = 1 / (n : ℚ) := by
    have hk' : (g[k]?.getD 0) < n := by simpa [List.getD_eq_getElem?_getD] using hk
    simp [freqOf, List.getD_eq_getElem?_getD, hk']
  by_cases hF : F = 0
  · simp only [hF, if_true, hf]; rfl
  · simp only [hF, if_false, hf]
    have hs : ((List.replicate n (1 / (n : ℚ))).map (alphaOf F)).sum = alphaOf F (1 / (n : ℚ)) * n := by
      rw [List.map_replicate, List.sum_replicate, nsmul_eq_mul]; ring
    rw [hs]; rfl

theorem gibbs_flat_eq_explicit (P : CallParams) (hf : P.freqs = none) (a : List ℕ) (k : ℕ)
    (hk : k < a.length) :
    gibbsProbs P a k
      = gibbsProbs { P with freqs := some (List.replicate P.n (1 / (P.n : ℚ))) } a k := by
  unfold gibbsProbs gibbsWeights
  congr 1
  apply List.map_congr_left
  intro x hx
  have hx' : x < P.n := List.mem_range.mp hx
  simp only [CallParams.n, hf]
  congr 1
  apply allelePrior_none_eq_flat
  simp [List.getD_eq_getElem?_getD, hk]
  exact hx'

/-- consequently the Gibbs move is reversible w.r.t. `πo`: moving slot `k` from `x` to `y` and back
    carry the same probability flow -/
theorem gibbs_reversible (P : CallParams) (alphas : List ℚ) (pre post : List ℕ) (x y : ℕ)
    (hx : x < P.n) (hy : y < P.n) :
    let G := normalise ((List.range P.n).map (fun z => piO P alphas (pre ++ z :: post)))
    piO P alphas (pre ++ x :: post) * G.getD y 0 = piO P alphas (pre ++ y :: post) * G.getD x 0 := by
  intro G
  have hg : ∀ z, z < P.n → G.getD z 0
      = piO P alphas (pre ++ z :: post)
        / ((List.range P.n).map (fun z => piO P alphas (pre ++ z :: post))).sum := by
    intro z hz
    simp [G, normalise, List.getD_eq_getElem?_getD, List.getElem?_map, List.getElem?_range hz]
  rw [hg x hx, hg y hy]; ring

/-! ### the unordered weight of call-exact is `#orderings × πo` -/

theorem callW_eq_perms_mul_ordered (P : CallParams) (fs : List ℚ) (hfs : P.freqs = some fs)
    (hF : P.F ≠ 0) (hlen : fs.length = P.n) (a : List ℕ)
    (hsum : (countsOf P.n a).sum = a.length) :
    callW P a = permsOfDosage (countsOf P.n a) * piO P (fs.map (alphaOf P.F)) a := by
  unfold callW piO callPrior
  simp only [hF, if_false]
  have hfreq : (List.range P.n).map (freqOf P.n P.freqs) = fs := by
    rw [hfs]
    apply List.ext_getElem
    · simp [hlen]
    · intro i h1 h2; simp [freqOf, List.getD_eq_getElem?_getD, h2]
  rw [hfreq]
  have hl : (fs.map (alphaOf P.F)).length = P.n := by simp [hlen]
  have := C05.dmCounts_eq_perms_mul_ordered (fs.map (alphaOf P.F)) a (by rw [hl]; exact hsum)
  rw [hl] at this
  rw [this]; ring

/-- the weight depends on the genotype only as a multiset of alleles (so the trailing
    `genotype_alleles.sort()` of `compound_step` does not change the state of the chain) -/
theorem callW_perm (P : CallParams) {a a' : List ℕ} (h : a.Perm a') : callW P a = callW P a' := by
  unfold callW callPrior countsOf
  rw [C04.likAlleles_perm P.reads P.nb P.haps h]
  have : (List.range P.n).map (fun x => a.count x) = (List.range P.n).map (fun x => a'.count x) := by
    apply List.map_congr_left; intro x _; exact h.count_eq x
  rw [this]

theorem insertSorted_perm (x : ℕ) (l : List ℕ) : (insertSorted x l).Perm (x :: l) := by
  induction l with
  | nil => exact List.Perm.refl _
  | cons y t ih =>
    unfold insertSorted
    split
    · exact List.Perm.refl _
    · exact (List.Perm.cons y ih).trans (List.Perm.swap x y t)

theorem sortAlleles_perm (a : List ℕ) : (sortAlleles a).Perm a := by
  unfold sortAlleles
  induction a with
  | nil => exact List.Perm.refl _
  | cons x t ih => exact (insertSorted_perm x _).trans (List.Perm.cons x ih)

/-- sorting at the end of a compound step leaves the posterior weight unchanged -/
theorem callW_sort (P : CallParams) (a : List ℕ) : callW P (sortAlleles a) = callW P a :=
  callW_perm P (sortAlleles_perm a)

/-! ### the Metropolis–Hastings variant -/

/-- entry of `mh_options`' probability vector for a candidate `x` different from the current allele -/
theorem mhProbs_entry (P : CallParams) (pre post : List ℕ) (c x : ℕ) (hx : x < P.n) (hxc : x ≠ c) :
    (mhProbs P (pre ++ c :: post) pre.length).getD x 0
      = (let r := callW P (pre ++ x :: post) / callW P (pre ++ c :: post)
            * ((((pre ++ x :: post).count x : ℕ) : ℚ) / (((pre ++ c :: post).count c : ℕ) : ℚ))
         (if r < 1 then r else 1) / ((P.n : ℚ) - 1)) := by
  unfold mhProbs
  have hcur : (pre ++ c :: post).getD pre.length 0 = c := by simp [List.getD_eq_getElem?_getD]
  have hset : (pre ++ c :: post).set pre.length x = pre ++ x :: post := by simp
  simp only [hcur]
  rw [List.getD_eq_getElem?_getD, List.getElem?_set_ne (Ne.symm hxc), List.getElem?_map,
    List.getElem?_range hx]
  simp [hxc]

/-- **detailed balance of the MH variant** w.r.t. `callW · ∏ multiplicity!` on ordered allele
    sequences (∝ `callW / #orderings`, i.e. the same `πo`), with the allele-copy-count proposal
    ratio of `mh_options` -/
theorem mh_db (P : CallParams) (n : ℕ) (pre post : List ℕ) (c x : ℕ)
    (hw : ∀ g, 0 < callW P g) :
    let g := pre ++ c :: post
    let g' := pre ++ x :: post
    let πo := fun z : List ℕ => ((callW P z : ℚ) : ℝ) * (MH.factProd z : ℝ)
    πo g * min 1 ((((callW P g' : ℚ) : ℝ) / ((callW P g : ℚ) : ℝ)) * ((g'.count x : ℝ) / (g.count c : ℝ)))
      = πo g' * min 1 ((((callW P g : ℚ) : ℝ) / ((callW P g' : ℚ) : ℝ)) * ((g.count c : ℝ) / (g'.count x : ℝ))) := by
  have _ := n
  exact MH.base_step_db (fun z => ((callW P z : ℚ) : ℝ)) (fun z => by exact_mod_cast hw z) pre post c x

/-! ### non-vacuity -/

example :
    let r1 : Read := [[some (9/10), some (1/10)], [some (1/10), some (9/10)]]
    let P : CallParams := { reads := [(r1, 2)], nb := 2, haps := [[0, 0], [0, 1], [1, 1]], F := 1/10,
                            freqs := some [1/2, 1/4, 1/4] }
    (gibbsProbs P [0, 0, 2, 1] 1).sum = 1 ∧ (mhProbs P [0, 0, 2, 1] 1).sum = 1 ∧
    0 < callW P [0, 0, 2, 1] ∧ callW P (sortAlleles [0, 0, 2, 1]) = callW P [0, 0, 2, 1] := by
  decide +kernel

/-! ### the compound step and the run of the call sampler -/

/-- `compound_step` of the call sampler: the `ploidy` allele copies are updated in a shuffled order, each by the Gibbs or
    Metropolis–Hastings kernel of that copy.  If each of those kernels leaves `π` invariant (`gibbs_reversible`, `mh_db` give
    detailed balance, hence invariance by `C01.invariant_of_db`), so does the compound step. -/
theorem call_compound_step_invariant {S : Type} [Fintype S] [DecidableEq S] (π : S → ℝ) (ploidy : ℕ)
    (K : Fin ploidy → S → S → ℝ) (h : ∀ k, C01.Invariant π (K k)) :
    C01.Invariant π (fun s s' => ∑ σ : Equiv.Perm (Fin ploidy),
      (1 / (ploidy.factorial : ℝ)) * Compose.sweepOf K ((List.finRange ploidy).map σ) s s') :=
  Compose.compound_step_invariant π ploidy K h

/-- `mcmc_sampler`: `n_steps` compound steps in a row leave `π` invariant -/
theorem call_sampler_invariant {S : Type} [Fintype S] [DecidableEq S] (π : S → ℝ) (K : S → S → ℝ)
    (h : C01.Invariant π K) (nSteps : ℕ) :
    C01.Invariant π (Compose.sweepOf (fun _ : Unit => K) (List.replicate nSteps ())) :=
  Compose.invariant_iterate π K h nSteps

/-! ### what one compound step does to the genotype -/

theorem compoundWrites_length (g order choices : List ℕ) : (compoundWrites g order choices).length = g.length := by
  unfold compoundWrites
  induction order generalizing g choices with
  | nil => simp
  | cons o os ih =>
    cases choices with
    | nil => simp
    | cons c cs => simp only [List.zip_cons_cons, List.foldl_cons]; rw [ih]; simp

/-- a copy that is not in `order` keeps its allele -/
theorem compoundWrites_getD_not_mem (g order choices : List ℕ) (i : ℕ) (hi : i ∉ order) :
    (compoundWrites g order choices).getD i 0 = g.getD i 0 := by
  unfold compoundWrites
  induction order generalizing g choices with
  | nil => simp
  | cons o os ih =>
    cases choices with
    | nil => simp
    | cons c cs =>
      simp only [List.zip_cons_cons, List.foldl_cons]
      have ho : i ≠ o := fun h => hi (h ▸ List.mem_cons_self)
      rw [ih _ _ (fun h => hi (List.mem_cons_of_mem _ h))]
      simp [List.getD_eq_getElem?_getD, List.getElem?_set_ne (Ne.symm ho)]

/-- every copy listed in `order` (no copy twice, all below the ploidy) ends up with the allele drawn for it -/
theorem compoundWrites_getD_mem (g order choices : List ℕ) (hnd : order.Nodup) (hlt : ∀ o ∈ order, o < g.length)
    (hlen : choices.length = order.length) (j : ℕ) (hj : j < order.length) :
    (compoundWrites g order choices).getD (order.getD j 0) 0 = choices.getD j 0 := by
  unfold compoundWrites
  induction order generalizing g choices j with
  | nil => simp at hj
  | cons o os ih =>
    cases choices with
    | nil => simp at hlen
    | cons c cs =>
      simp only [List.zip_cons_cons, List.foldl_cons]
      have hnd' := (List.nodup_cons.mp hnd)
      cases j with
      | zero =>
        have := compoundWrites_getD_not_mem (g.set o c) os cs o hnd'.1
        unfold compoundWrites at this
        simp only [List.getD_cons_zero]
        rw [this]
        have ho : o < g.length := hlt o List.mem_cons_self
        simp [List.getD_eq_getElem?_getD, ho]
      | succ j =>
        simp only [List.getD_cons_succ]
        apply ih (g.set o c) cs hnd'.2
        · intro o' ho'; simpa using hlt o' (List.mem_cons_of_mem _ ho')
        · simpa using hlen
        · simpa using hj

/-- **one compound step replaces every copy exactly once**: if `order` is a rearrangement of `0 … ploidy−1`, the genotype after the
    step is, as a multiset, the alleles drawn — nothing of the old genotype survives, no draw is lost, whatever the order -/
theorem compoundStep_perm_choices (g order choices : List ℕ) (ho : order.Perm (List.range g.length))
    (hlen : choices.length = g.length) : (compoundStep g order choices).Perm choices := by
  unfold compoundStep
  refine (sortAlleles_perm _).trans ?_
  have hnd : order.Nodup := ho.nodup_iff.mpr List.nodup_range
  have hlt : ∀ o ∈ order, o < g.length := fun o h => List.mem_range.mp (ho.mem_iff.mp h)
  have hol : order.length = g.length := by rw [ho.length_eq, List.length_range]
  set a := compoundWrites g order choices with ha
  have hal : a.length = g.length := compoundWrites_length g order choices
  -- a = (range n).map (a.getD · 0); choices = order-indexed reading of a
  have h1 : choices = order.map (fun o => a.getD o 0) := by
    apply List.ext_getElem
    · simp [hlen, hol]
    · intro j hj1 hj2
      have hj : j < order.length := by simpa using hj2
      have := compoundWrites_getD_mem g order choices hnd hlt (by rw [hlen, hol]) j hj
      rw [List.getElem_map]
      have e1 : order.getD j 0 = order[j] := by simp [List.getD_eq_getElem?_getD, hj]
      have e2 : choices.getD j 0 = choices[j] := by simp [List.getD_eq_getElem?_getD, hj1]
      rw [e1, e2] at this
      exact this.symm
  have h2 : a = (List.range g.length).map (fun o => a.getD o 0) := by
    apply List.ext_getElem
    · simp [hal]
    · intro i hi1 hi2
      simp [List.getD_eq_getElem?_getD, hi1]
  rw [h1]
  conv_lhs => rw [h2]
  exact (ho.map _).symm

/-- non-vacuity: a tetraploid, order (2,0,3,1), draws (5,6,7,8) -/
example : compoundStep [1, 1, 2, 3] [2, 0, 3, 1] [5, 6, 7, 8] = [5, 6, 7, 8] ∧ compoundWrites [1, 1, 2, 3] [2, 0, 3, 1] [5, 6, 7, 8] = [6, 8, 5, 7] := by
  decide

end MCHap.C02
