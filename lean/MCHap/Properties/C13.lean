import MCHap.Proofs.TraceHapCalling
import MCHap.Properties.C11

/-!
# C13 — haplotype reporting threshold and unknown-allele semantics in `mchap assemble`

Property theorems over `MCHap/Model/HapCalling.lean` (model of `call_posterior_haplotypes`, the label map /
GT / AFP / AOP / GP assignment of `call_sample_genotypes`, `_genotype_as_alleles`,
`_genotype_posterior_as_array`).

`posts` = the per-sample posterior distributions, `thr` = `--haplotype-posterior-threshold`, `nBase` = number of
SNVs of the locus; `hapsOf post` = the haplotypes the posterior of a sample mentions; `occurrence post h` = the
posterior probability that `h` occurs in the sample at any copy number.
-/
namespace MCHap.C13
open MCHap MCHap.Trace MCHap.HapCalling
set_option linter.unusedSectionVars false

/-! ### the reported list: reference first, then the ALT alleles -/

theorem table_alts_mem {thr : ℚ} {posts : List Post} {h : Hap} {v : ℚ}
    (hm : (h, v) ∈ (accumulate thr posts).filter (fun hv => !isRef hv.1)) :
    isRef h = false ∧ v = summedDosage thr posts h ∧
      ∃ post ∈ posts, h ∈ hapsOf post ∧ thr ≤ occurrence post h := by
  rw [List.mem_filter] at hm
  obtain ⟨h1, h2⟩ := mem_accumulate hm.1
  exact ⟨by simpa using hm.2, h1, h2⟩

/-- the sorted table starts with the reference entry; the rest is a permutation of the non-reference entries -/
theorem sorted_table (thr : ℚ) (posts : List Post) (nBase : ℕ) :
    ∃ rest, sortDesc (valueTable thr posts nBase)
        = (List.replicate nBase 0,
            maxValue (((accumulate thr posts).filter (fun hv => !isRef hv.1)).map (·.2)) + 1) :: rest ∧
      rest.Perm ((accumulate thr posts).filter (fun hv => !isRef hv.1)) ∧
      rest.Pairwise (fun a b => b.2 ≤ a.2) := by
  set alts := (accumulate thr posts).filter (fun hv => !isRef hv.1) with halts
  set re : Hap × ℚ := (List.replicate nBase 0, maxValue (alts.map (·.2)) + 1) with hre
  have htable : valueTable thr posts nBase = alts ++ [re] := rfl
  have hperm := sortDesc_perm (valueTable thr posts nBase)
  have hsorted := sortDesc_pairwise (valueTable thr posts nBase)
  rw [htable] at hperm hsorted
  have hlt : ∀ a ∈ alts, a.2 < re.2 := by
    intro a ha
    have : a.2 ≤ maxValue (alts.map (·.2)) := le_maxValue (List.mem_map.mpr ⟨a, ha, rfl⟩)
    simp only [hre]; linarith
  cases hs : sortDesc (alts ++ [re]) with
  | nil =>
    rw [hs] at hperm
    have := hperm.length_eq
    simp at this
  | cons x rest =>
    rw [hs] at hperm hsorted
    have hx : x ∈ alts ++ [re] := hperm.subset (by simp)
    have hre_in : re ∈ x :: rest := hperm.symm.subset (by simp)
    have hxe : x = re := by
      rcases List.mem_append.mp hx with hxa | hxr
      · exfalso
        rcases List.mem_cons.mp hre_in with e | hr
        · rw [← e] at hxa
          exact absurd (hlt re hxa) (lt_irrefl _)
        · have h1 := (List.pairwise_cons.mp hsorted).1 re hr
          have h2 := hlt x hxa
          linarith
      · simpa using hxr
    subst hxe
    refine ⟨rest, by rw [htable, hs], ?_, (List.pairwise_cons.mp hsorted).2⟩
    have hp2 : (re :: rest).Perm (re :: alts) := hperm.trans List.perm_append_comm
    exact hp2.cons_inv

/-- **the reference is always allele 0** -/
theorem ref_first (thr : ℚ) (posts : List Post) (nBase : ℕ) :
    (callPosteriorHaplotypes thr posts nBase).1.head? = some (List.replicate nBase 0) := by
  obtain ⟨rest, hs, _, _⟩ := sorted_table thr posts nBase
  unfold callPosteriorHaplotypes
  simp only [hs, List.map_cons, List.head?_cons]

/-- **ALT iff**: a haplotype is listed after the reference exactly when it is not the reference (not all-zero) and
    its occurrence probability reaches the threshold in at least one sample whose posterior mentions it -/
theorem alt_iff (thr : ℚ) (posts : List Post) (nBase : ℕ) (h : Hap) :
    h ∈ (callPosteriorHaplotypes thr posts nBase).1.tail ↔
      isRef h = false ∧ ∃ post ∈ posts, h ∈ hapsOf post ∧ thr ≤ occurrence post h := by
  obtain ⟨rest, hs, hperm, _⟩ := sorted_table thr posts nBase
  unfold callPosteriorHaplotypes
  simp only [hs, List.map_cons, List.tail_cons]
  rw [(hperm.map (·.1)).mem_iff, List.mem_map]
  constructor
  · rintro ⟨⟨h', v⟩, hm, e⟩
    simp only at e; subst e
    obtain ⟨h1, _, h3⟩ := table_alts_mem hm
    exact ⟨h1, h3⟩
  · rintro ⟨h1, h3⟩
    have hk := (mem_accumulate_keys thr posts h).mpr h3
    obtain ⟨⟨h', v⟩, hm, e⟩ := List.mem_map.mp hk
    simp only at e; subst e
    exact ⟨(h', v), List.mem_filter.mpr ⟨hm, by simp [h1]⟩, rfl⟩

/-- for haplotypes of the locus (`nBase` positions) "not all-zero" is "different from the reference" -/
theorem alt_iff_ne_ref (thr : ℚ) (posts : List Post) (nBase : ℕ) (h : Hap) (hl : h.length = nBase) :
    h ∈ (callPosteriorHaplotypes thr posts nBase).1.tail ↔
      h ≠ List.replicate nBase 0 ∧ ∃ post ∈ posts, h ∈ hapsOf post ∧ thr ≤ occurrence post h := by
  rw [alt_iff]
  have : isRef h = false ↔ h ≠ List.replicate nBase 0 := by
    rw [← hl, Ne, ← isRef_iff]; simp
  rw [this]

/-- the listed haplotypes are pairwise distinct -/
theorem alts_nodup (thr : ℚ) (posts : List Post) (nBase : ℕ) :
    (callPosteriorHaplotypes thr posts nBase).1.Nodup := by
  obtain ⟨rest, hs, hperm, _⟩ := sorted_table thr posts nBase
  unfold callPosteriorHaplotypes
  simp only [hs, List.map_cons]
  rw [List.nodup_cons]
  constructor
  · intro hm
    rw [(hperm.map (·.1)).mem_iff] at hm
    obtain ⟨⟨h', v⟩, hm', e⟩ := List.mem_map.mp hm
    simp only at e
    have := (table_alts_mem hm').1
    rw [e, isRef_replicate] at this
    exact absurd this (by simp)
  · rw [(hperm.map (·.1)).nodup_iff]
    have : (((accumulate thr posts).filter (fun hv => !isRef hv.1)).map (·.1)).Sublist
        ((accumulate thr posts).map (·.1)) := (List.filter_sublist).map _
    exact this.nodup (accumulate_keys_nodup thr posts)

/-- **REFMASKED iff** the reference (an all-zero haplotype) met the criterion in no sample -/
theorem refmasked_iff (thr : ℚ) (posts : List Post) (nBase : ℕ) :
    refMasked thr posts nBase = true ↔
      ¬ ∃ post ∈ posts, ∃ h ∈ hapsOf post, isRef h = true ∧ thr ≤ occurrence post h := by
  unfold refMasked callPosteriorHaplotypes
  simp only [Bool.not_eq_true', List.any_eq_false]
  constructor
  · intro hall
    rintro ⟨post, hp, h, hh, hr, ho⟩
    have hk := (mem_accumulate_keys thr posts h).mpr ⟨post, hp, hh, ho⟩
    obtain ⟨⟨h', v⟩, hm, e⟩ := List.mem_map.mp hk
    simp only at e; subst e
    exact hall _ hm hr
  · intro hne hv hm hr
    apply hne
    obtain ⟨_, post, hp, hh, ho⟩ := mem_accumulate (h := hv.1) (v := hv.2) hm
    exact ⟨post, hp, hv.1, hh, hr, ho⟩

/-- **ALT order**: the ALT alleles are listed by non-increasing posterior dosage summed over the samples in which
    they met the threshold (ties in any order) -/
theorem alts_sorted_by_summed_dosage (thr : ℚ) (posts : List Post) (nBase : ℕ) :
    (callPosteriorHaplotypes thr posts nBase).1.tail.Pairwise
      (fun a b => summedDosage thr posts b ≤ summedDosage thr posts a) := by
  obtain ⟨rest, hs, hperm, hpw⟩ := sorted_table thr posts nBase
  unfold callPosteriorHaplotypes
  simp only [hs, List.map_cons, List.tail_cons]
  rw [List.pairwise_map]
  have hval : ∀ a ∈ rest, a.2 = summedDosage thr posts a.1 := by
    intro a ha
    exact (table_alts_mem (h := a.1) (v := a.2) (hperm.subset ha)).2.1
  have : rest.Pairwise (fun a b => b.2 ≤ a.2 ∧ a ∈ rest ∧ b ∈ rest) := by
    rw [List.pairwise_iff_getElem] at hpw ⊢
    intro i j hi hj hij
    exact ⟨hpw i j hi hj hij, List.getElem_mem hi, List.getElem_mem hj⟩
  exact this.imp (fun {a b} ⟨hle, ha, hb⟩ => by rw [← hval a ha, ← hval b hb]; exact hle)

/-! ### GT: labels, `.` and allele 0 -/

theorem insertInt_perm (x : ℤ) : ∀ l, (insertInt x l).Perm (x :: l)
  | [] => by simp [insertInt]
  | y :: t => by
    unfold insertInt
    split
    · exact List.Perm.refl _
    · exact ((insertInt_perm x t).cons y).trans (List.Perm.swap x y t)

theorem sortInt_perm : ∀ l, (sortInt l).Perm l
  | [] => by simp [sortInt]
  | x :: t => by
    show (insertInt x (sortInt t)).Perm (x :: t)
    exact (insertInt_perm x _).trans ((sortInt_perm t).cons x)

theorem insertInt_sorted (x : ℤ) : ∀ l, l.Pairwise (· ≤ ·) → (insertInt x l).Pairwise (· ≤ ·)
  | [], _ => by simp [insertInt]
  | y :: t, h => by
    unfold insertInt
    split
    · rename_i hxy
      rw [List.pairwise_cons] at h ⊢
      refine ⟨?_, List.pairwise_cons.mpr h⟩
      intro z hz
      rcases List.mem_cons.mp hz with rfl | hz
      · exact hxy
      · exact le_trans hxy (h.1 z hz)
    · rename_i hxy
      rw [List.pairwise_cons] at h ⊢
      refine ⟨?_, insertInt_sorted x t h.2⟩
      intro z hz
      rcases List.mem_cons.mp ((insertInt_perm x t).subset hz) with rfl | hz
      · omega
      · exact h.1 z hz

theorem sortInt_sorted : ∀ l, (sortInt l).Pairwise (· ≤ ·)
  | [] => by simp [sortInt]
  | x :: t => by
    show (insertInt x (sortInt t)).Pairwise _
    exact insertInt_sorted x _ (sortInt_sorted t)

theorem filter_split_perm (l : List ℤ) :
    (l.filter (fun x => decide (0 ≤ x)) ++ l.filter (fun x => decide (x < 0))).Perm l := by
  induction l with
  | nil => simp
  | cons a t ih =>
    by_cases h : 0 ≤ a
    · have h' : ¬ a < 0 := by omega
      simp only [List.filter, h, h', decide_true, decide_false, List.cons_append]
      exact ih.cons a
    · have h' : a < 0 := by omega
      simp only [List.filter, h, h', decide_true, decide_false]
      exact (List.perm_middle).trans (ih.cons a)

/-- **GT is the multiset of the labels of the called genotype's haplotypes** (−1 = `.` for the unlabelled) -/
theorem gt_perm_labels (g : List Hap) (labels : List (Hap × ℕ)) :
    (genotypeAsAlleles g labels).Perm (g.map (lookupLabel labels)) := by
  unfold genotypeAsAlleles
  exact (filter_split_perm _).trans (sortInt_perm _)

theorem lookupLabel_neg_iff (labels : List (Hap × ℕ)) (h : Hap) :
    lookupLabel labels h = -1 ↔ h ∉ labels.map (·.1) := by
  unfold lookupLabel
  cases hf : labels.find? (fun hi => decide (hi.1 = h)) with
  | none =>
    simp only [true_iff]
    intro hm
    obtain ⟨hi, hhi, e⟩ := List.mem_map.mp hm
    have := List.find?_eq_none.mp hf hi hhi
    simp [e] at this
  | some hi =>
    have h1 := List.mem_of_find?_eq_some hf
    have h2 := List.find?_some hf
    simp only [decide_eq_true_eq] at h2
    show ((hi.2 : ℕ) : ℤ) = -1 ↔ _
    constructor
    · intro e; omega
    · intro hn
      exact absurd (List.mem_map.mpr ⟨hi, h1, h2⟩) hn

theorem lookupLabel_nonneg_or (labels : List (Hap × ℕ)) (h : Hap) :
    lookupLabel labels h = -1 ∨ ∃ i : ℕ, lookupLabel labels h = (i : ℤ) ∧ (h, i) ∈ labels := by
  unfold lookupLabel
  cases hf : labels.find? (fun hi => decide (hi.1 = h)) with
  | none => exact Or.inl rfl
  | some hi =>
    right
    have h1 := List.mem_of_find?_eq_some hf
    have h2 := List.find?_some hf
    simp only [decide_eq_true_eq] at h2
    exact ⟨hi.2, rfl, by rw [← h2]; exact h1⟩

/-- **`.` exactly for the excluded haplotypes**: the number of `.` in GT is the number of haplotypes (with
    multiplicity) of the called genotype that have no label, i.e. were not listed -/
theorem gt_dot_iff_excluded (g : List Hap) (labels : List (Hap × ℕ)) :
    (genotypeAsAlleles g labels).count (-1) = g.countP (fun h => decide (h ∉ labels.map (·.1))) ∧
    ((-1 : ℤ) ∈ genotypeAsAlleles g labels ↔ ∃ h ∈ g, h ∉ labels.map (·.1)) := by
  have hp := gt_perm_labels g labels
  have hcount : (g.map (lookupLabel labels)).count (-1) = g.countP (fun h => decide (h ∉ labels.map (·.1))) := by
    rw [List.count_eq_countP, List.countP_map]
    apply List.countP_congr
    intro h _
    simp only [Function.comp_def, beq_iff_eq, decide_eq_true_eq]
    exact lookupLabel_neg_iff labels h
  refine ⟨by rw [hp.count_eq, hcount], ?_⟩
  rw [hp.mem_iff, List.mem_map]
  constructor
  · rintro ⟨h, hh, e⟩; exact ⟨h, hh, (lookupLabel_neg_iff labels h).mp e⟩
  · rintro ⟨h, hh, e⟩; exact ⟨h, hh, (lookupLabel_neg_iff labels h).mpr e⟩

/-- GT is VCF-sorted: ascending allele numbers, then the `.` entries -/
theorem gt_sorted_dots_last (g : List Hap) (labels : List (Hap × ℕ)) :
    ∃ called dots, genotypeAsAlleles g labels = called ++ dots ∧ called.Pairwise (· ≤ ·) ∧
      (∀ x ∈ called, 0 ≤ x) ∧ ∀ x ∈ dots, x = -1 := by
  refine ⟨_, _, rfl, (sortInt_sorted _).sublist List.filter_sublist, ?_, ?_⟩
  · intro x hx
    simpa using (List.mem_filter.mp hx).2
  · intro x hx
    obtain ⟨hm, hneg⟩ := List.mem_filter.mp hx
    have hm' := (sortInt_perm _).subset hm
    obtain ⟨h, _, rfl⟩ := List.mem_map.mp hm'
    rcases lookupLabel_nonneg_or labels h with e | ⟨i, e, _⟩
    · exact e
    · rw [e] at hneg; simp at hneg; omega

/-- labels of a masked record are `≥ 1` -/
theorem labelsOf_masked_pos (haps : List Hap) (h : Hap) (i : ℕ) (hm : (h, i) ∈ labelsOf haps false) : 1 ≤ i := by
  unfold labelsOf at hm
  simp only [Bool.false_eq_true, if_false] at hm
  cases haps with
  | nil => simp at hm
  | cons x t =>
    rw [List.zipIdx_cons, List.drop_one, List.tail_cons] at hm
    exact (List.mem_zipIdx_iff_le_and_getElem?_sub.mp hm).1

/-- **no GT uses allele 0 when the reference is masked** -/
theorem no_gt_zero_when_masked (g : List Hap) (haps : List Hap) :
    (0 : ℤ) ∉ genotypeAsAlleles g (labelsOf haps false) := by
  intro hm
  have := (gt_perm_labels g (labelsOf haps false)).subset hm
  obtain ⟨h, _, e⟩ := List.mem_map.mp this
  rcases lookupLabel_nonneg_or (labelsOf haps false) h with e' | ⟨i, e', hi⟩
  · rw [e'] at e; omega
  · have := labelsOf_masked_pos haps h i hi
    rw [e'] at e; omega

/-- the labels are the positions in the reported list: a labelled haplotype is listed (and is not the first entry
    when the reference is masked) -/
theorem label_is_position (haps : List Hap) (rc : Bool) (h : Hap) (i : ℕ) (hm : (h, i) ∈ labelsOf haps rc) :
    haps[i]? = some h ∧ (rc = false → 1 ≤ i) := by
  constructor
  · unfold labelsOf at hm
    have hm' : (h, i) ∈ haps.zipIdx := by
      split_ifs at hm
      · exact hm
      · exact List.mem_of_mem_drop hm
    exact List.mk_mem_zipIdx_iff_getElem?.mp hm'
  · intro hrc; subst hrc; exact labelsOf_masked_pos haps h i hm

/-! ### AFP and GP sum to at most one -/

theorem afpAop_eq (post : Post) (ploidy : ℕ) (haps : List Hap) :
    afpAop post ploidy haps = haps.map (fun h =>
      if h ∈ hapsOf post then (dosageWeight post h / (ploidy : ℚ), occurrence post h) else (0, 0)) := by
  unfold afpAop
  apply List.map_congr_left
  intro h _
  rw [alleleFrequencies_false]
  by_cases hh : h ∈ hapsOf post
  · rw [if_pos hh]
    have hm : (h, dosageWeight post h / (ploidy : ℚ), occurrence post h)
        ∈ (uniq (hapsOf post)).map (fun h => (h, dosageWeight post h / (ploidy : ℚ), occurrence post h)) :=
      List.mem_map.mpr ⟨h, mem_uniq.mpr hh, rfl⟩
    cases hf : ((uniq (hapsOf post)).map (fun h => (h, dosageWeight post h / (ploidy : ℚ), occurrence post h))).find?
        (fun hwo => decide (hwo.1 = h)) with
    | none =>
      have := List.find?_eq_none.mp hf _ hm
      simp at this
    | some x =>
      have h1 := List.mem_of_find?_eq_some hf
      have h2 := List.find?_some hf
      simp only [decide_eq_true_eq] at h2
      obtain ⟨y, _, rfl⟩ := List.mem_map.mp h1
      simp only at h2
      subst h2
      rfl
  · rw [if_neg hh]
    cases hf : ((uniq (hapsOf post)).map (fun h => (h, dosageWeight post h / (ploidy : ℚ), occurrence post h))).find?
        (fun hwo => decide (hwo.1 = h)) with
    | none => rfl
    | some x =>
      exfalso
      have h1 := List.mem_of_find?_eq_some hf
      have h2 := List.find?_some hf
      simp only [decide_eq_true_eq] at h2
      obtain ⟨y, hy, rfl⟩ := List.mem_map.mp h1
      simp only at h2
      subst h2
      exact hh (mem_uniq.mp hy)

/-- the AFP of a listed haplotype is its posterior frequency in the sample (0 when the sample's posterior does not
    mention it), the AOP its occurrence probability -/
theorem afp_entry (post : Post) (ploidy : ℕ) (haps : List Hap) (i : ℕ) (h : Hap) (hi : haps[i]? = some h) :
    (afpAop post ploidy haps)[i]? = some (dosageWeight post h / (ploidy : ℚ), occurrence post h) := by
  rw [afpAop_eq, List.getElem?_map, hi, Option.map_some]
  by_cases hh : h ∈ hapsOf post
  · rw [if_pos hh]
  · rw [if_neg hh]
    have hd : dosageWeight post h = 0 := by
      unfold dosageWeight dosageOf
      apply List.sum_eq_zero
      intro x hx
      obtain ⟨gp, hgp, rfl⟩ := List.mem_map.mp hx
      have : h ∉ gp.1 := fun hm => hh (List.mem_flatMap.mpr ⟨gp, hgp, hm⟩)
      rw [count_zero_generic this]; simp
    have ho : occurrence post h = 0 := by
      unfold occurrence occurrenceOf
      apply List.sum_eq_zero
      intro x hx
      obtain ⟨gp, hgp, rfl⟩ := List.mem_map.mp hx
      have hm := List.mem_filter.mp hgp
      exact absurd (List.mem_flatMap.mpr ⟨gp, hm.1, by simpa using hm.2⟩) hh
    rw [hd, ho]; simp


/-- **the reported AFP sums to at most one** (at most the total posterior mass): the listed haplotypes are distinct,
    every genotype has `ploidy` haplotypes, probabilities are non-negative -/
theorem afp_sum_le_one (post : Post) (ploidy : ℕ) (haps : List Hap) (hp : 0 < ploidy) (hnd : haps.Nodup)
    (hnn : ∀ gp ∈ post, 0 ≤ gp.2) (hlen : ∀ gp ∈ post, gp.1.length = ploidy) :
    ((afpAop post ploidy haps).map (·.1)).sum ≤ (post.map (·.2)).sum := by
  have hP : (0 : ℚ) < (ploidy : ℚ) := by exact_mod_cast hp
  have hD : ∀ h, 0 ≤ dosageWeight post h := by
    intro h
    unfold dosageWeight
    exact dosageOf_nonneg post h hnn
  have h1 : ((afpAop post ploidy haps).map (·.1)).sum
      ≤ (haps.map (fun h => dosageWeight post h / (ploidy : ℚ))).sum := by
    rw [afpAop_eq, List.map_map]
    apply List.sum_le_sum
    intro h _
    simp only [Function.comp_def]
    split_ifs
    · exact le_refl _
    · exact div_nonneg (hD h) (le_of_lt hP)
  refine le_trans h1 ?_
  have h2 : (haps.map (fun h => dosageWeight post h / (ploidy : ℚ))).sum
      = (haps.map (fun h => dosageWeight post h)).sum / (ploidy : ℚ) := by
    rw [div_eq_mul_inv, ← List.sum_map_mul_right]
    simp only [div_eq_mul_inv]
  rw [h2, div_le_iff₀ hP]
  unfold dosageWeight
  exact sum_dosageOf_le post haps ploidy hnd hnn hlen

/-! GP -/

theorem gpPairs_cases (labels : List (Hap × ℕ)) (gp : List Hap × ℚ) :
    gpPairs [gp] labels = [] ∨ ∃ i, gpPairs [gp] labels = [(i, gp.2)] := by
  unfold gpPairs
  simp only [List.filterMap_cons, List.filterMap_nil]
  cases hs : sortInt (gp.1.map (lookupLabel labels)) with
  | nil => left; rfl
  | cons x t =>
    by_cases hx : x < 0
    · left; simp [hx]
    · right; exact ⟨genotypeIndex ((x :: t).map Int.toNat), by simp [hx]⟩

theorem gpPairs_cons (labels : List (Hap × ℕ)) (gp : List Hap × ℚ) (t : Post) :
    gpPairs (gp :: t) labels = gpPairs [gp] labels ++ gpPairs t labels := by
  unfold gpPairs
  rw [← List.filterMap_append]
  rfl

theorem gpPairs_sum_le (labels : List (Hap × ℕ)) : ∀ (post : Post), (∀ gp ∈ post, 0 ≤ gp.2) →
    (∀ iv ∈ gpPairs post labels, 0 ≤ iv.2) ∧ ((gpPairs post labels).map (·.2)).sum ≤ (post.map (·.2)).sum
  | [], _ => by simp [gpPairs]
  | gp :: t, hnn => by
    obtain ⟨ih1, ih2⟩ := gpPairs_sum_le labels t (fun x hx => hnn x (List.mem_cons_of_mem _ hx))
    have h0 : 0 ≤ gp.2 := hnn gp (by simp)
    rw [gpPairs_cons]
    rcases gpPairs_cases labels gp with e | ⟨i, e⟩
    · rw [e]
      simp only [List.nil_append, List.map_cons, List.sum_cons]
      exact ⟨ih1, by linarith⟩
    · rw [e]
      simp only [List.cons_append, List.nil_append, List.map_cons, List.sum_cons, List.mem_cons]
      refine ⟨?_, by linarith⟩
      rintro iv (rfl | hiv)
      · exact h0
      · exact ih1 iv hiv

/-- **the reported GP sums to at most one** (at most the total posterior mass) whenever the array can be built,
    whatever allele count is used for its size -/
theorem gp_sum_le_one (post : Post) (labels : List (Hap × ℕ)) (ploidy : ℕ) (nAlleles : Option ℕ) (arr : List ℚ)
    (hnn : ∀ gp ∈ post, 0 ≤ gp.2) (h : genotypePosteriorAsArray post labels ploidy nAlleles = some arr) :
    arr.length = cwr (nAlleles.getD labels.length) ploidy ∧ (∀ x ∈ arr, 0 ≤ x) ∧
      arr.sum ≤ (post.map (·.2)).sum := by
  unfold genotypePosteriorAsArray at h
  rw [scatter_eq] at h
  obtain ⟨hp1, hp2⟩ := gpPairs_sum_le labels post hnn
  obtain ⟨h1, h2, h3⟩ := scatterFrom_sum_le _ _ _ arr (by
    intro x hx; rw [List.eq_of_mem_replicate hx]) hp1 h
  refine ⟨by simpa using h1, h2, ?_⟩
  have : (List.replicate (cwr (nAlleles.getD labels.length) ploidy) (0 : ℚ)).sum = 0 := by simp
  linarith

/-! ### GP entries (uses the injectivity of the genotype index, C11) -/

/-- the sorted allele numbers of a fully labelled genotype -/
def labelledAlleles (labels : List (Hap × ℕ)) (g : List Hap) : List ℕ :=
  (sortInt (g.map (lookupLabel labels))).map Int.toNat

theorem lookupLabel_of_mem (labels : List (Hap × ℕ)) (h : Hap) (hm : h ∈ labels.map (·.1)) :
    ∃ i : ℕ, lookupLabel labels h = (i : ℤ) ∧ (h, i) ∈ labels := by
  rcases lookupLabel_nonneg_or labels h with e | e
  · exact absurd hm ((lookupLabel_neg_iff labels h).mp e)
  · exact e

theorem gpPairs_single (labels : List (Hap × ℕ)) (gp : List Hap × ℚ) (hne : gp.1 ≠ [])
    (hall : ∀ h ∈ gp.1, h ∈ labels.map (·.1)) :
    gpPairs [gp] labels = [(genotypeIndex (labelledAlleles labels gp.1), gp.2)] := by
  unfold gpPairs labelledAlleles
  simp only [List.filterMap_cons, List.filterMap_nil]
  cases hs : sortInt (gp.1.map (lookupLabel labels)) with
  | nil =>
    exfalso
    have := (sortInt_perm (gp.1.map (lookupLabel labels))).length_eq
    rw [hs] at this
    simp at this
    exact hne (List.length_eq_zero_iff.mp this.symm)
  | cons x t =>
    have hx : ¬ x < 0 := by
      have hm : x ∈ gp.1.map (lookupLabel labels) := (sortInt_perm _).subset (by rw [hs]; simp)
      obtain ⟨h, hh, rfl⟩ := List.mem_map.mp hm
      obtain ⟨i, e, _⟩ := lookupLabel_of_mem labels h (hall h hh)
      rw [e]; omega
    simp [hx]

theorem gpPairs_single_none (labels : List (Hap × ℕ)) (gp : List Hap × ℚ)
    (hnot : ¬ ∀ h ∈ gp.1, h ∈ labels.map (·.1)) : gpPairs [gp] labels = [] := by
  unfold gpPairs
  simp only [List.filterMap_cons, List.filterMap_nil]
  cases hs : sortInt (gp.1.map (lookupLabel labels)) with
  | nil => rfl
  | cons x t =>
    have hx : x < 0 := by
      obtain ⟨h, hh, hn⟩ : ∃ h ∈ gp.1, h ∉ labels.map (·.1) := by
        by_contra hc
        apply hnot
        intro h hh
        by_contra hn
        exact hc ⟨h, hh, hn⟩
      have e := (lookupLabel_neg_iff labels h).mpr hn
      have hm : (-1 : ℤ) ∈ sortInt (gp.1.map (lookupLabel labels)) :=
        (sortInt_perm _).symm.subset (List.mem_map.mpr ⟨h, hh, e⟩)
      have hsorted := sortInt_sorted (gp.1.map (lookupLabel labels))
      rw [hs] at hm hsorted
      rcases List.mem_cons.mp hm with e1 | e1
      · omega
      · have := (List.pairwise_cons.mp hsorted).1 _ e1; omega
    simp [hx]

theorem mem_gpPairs (labels : List (Hap × ℕ)) (post : Post) (hne : ∀ gp ∈ post, gp.1 ≠ []) (iv : ℕ × ℚ) :
    iv ∈ gpPairs post labels ↔ ∃ gp ∈ post, (∀ h ∈ gp.1, h ∈ labels.map (·.1)) ∧
      iv = (genotypeIndex (labelledAlleles labels gp.1), gp.2) := by
  induction post with
  | nil => simp [gpPairs]
  | cons gp t ih =>
    rw [gpPairs_cons, List.mem_append, ih (fun x hx => hne x (List.mem_cons_of_mem _ hx))]
    by_cases hall : ∀ h ∈ gp.1, h ∈ labels.map (·.1)
    · rw [gpPairs_single labels gp (hne gp (by simp)) hall]
      simp only [List.mem_cons, List.not_mem_nil, or_false, exists_eq_or_imp]
      constructor
      · rintro (e | hx)
        · exact Or.inl ⟨hall, e⟩
        · exact Or.inr hx
      · rintro (⟨_, e⟩ | hx)
        · exact Or.inl e
        · exact Or.inr hx
    · rw [gpPairs_single_none labels gp hall]
      simp only [List.not_mem_nil, false_or, List.mem_cons, exists_eq_or_imp]
      constructor
      · intro hx; exact Or.inr hx
      · rintro (⟨hh, _⟩ | hx)
        · exact absurd hh hall
        · exact hx

theorem labelledAlleles_spec (labels : List (Hap × ℕ)) (g : List Hap) (n : ℕ)
    (hlt : ∀ hi ∈ labels, hi.2 < n) (hall : ∀ h ∈ g, h ∈ labels.map (·.1)) :
    (labelledAlleles labels g).length = g.length ∧ (labelledAlleles labels g).Pairwise (· ≤ ·) ∧
    (∀ x ∈ labelledAlleles labels g, x < n) ∧
    (labelledAlleles labels g).map (fun i : ℕ => (i : ℤ)) = sortInt (g.map (lookupLabel labels)) := by
  have hnn : ∀ y ∈ sortInt (g.map (lookupLabel labels)), ∃ i : ℕ, y = (i : ℤ) ∧ i < n := by
    intro y hy
    obtain ⟨h, hh, rfl⟩ := List.mem_map.mp ((sortInt_perm _).subset hy)
    obtain ⟨i, e, hi⟩ := lookupLabel_of_mem labels h (hall h hh)
    exact ⟨i, e, hlt _ hi⟩
  unfold labelledAlleles
  refine ⟨by simp [(sortInt_perm (g.map (lookupLabel labels))).length_eq], ?_, ?_, ?_⟩
  · rw [List.pairwise_map]
    exact (sortInt_sorted _).imp (fun {a b} hab => Int.toNat_le_toNat hab)
  · intro x hx
    obtain ⟨y, hy, rfl⟩ := List.mem_map.mp hx
    obtain ⟨i, e, hi⟩ := hnn y hy
    rw [e]; simpa using hi
  · rw [List.map_map]
    conv_rhs => rw [← List.map_id (sortInt (g.map (lookupLabel labels)))]
    apply List.map_congr_left
    intro y hy
    obtain ⟨i, e, _⟩ := hnn y hy
    simp [e]

theorem perm_of_map_perm_injOn {α β : Type} [DecidableEq α] [DecidableEq β] (f : α → β) (g g' : List α)
    (hinj : ∀ x ∈ g ++ g', ∀ y ∈ g ++ g', f x = f y → x = y) (hp : (g.map f).Perm (g'.map f)) : g.Perm g' := by
  rw [List.perm_iff_count]
  intro x
  have key : ∀ l : List α, (∀ y ∈ l, y ∈ g ++ g') → x ∈ g ++ g' → l.count x = (l.map f).count (f x) := by
    intro l hl hx
    induction l with
    | nil => simp
    | cons a t ih =>
      have iht := ih (fun y hy => hl y (List.mem_cons_of_mem _ hy))
      rw [List.map_cons, List.count_cons, List.count_cons, iht]
      by_cases h : a = x
      · subst h; simp
      · have : f a ≠ f x := fun e => h (hinj a (hl a (by simp)) x hx e)
        simp [h, this]
  by_cases hx : x ∈ g ++ g'
  · rw [key g (fun y hy => List.mem_append_left _ hy) hx, key g' (fun y hy => List.mem_append_right _ hy) hx]
    exact hp.count_eq _
  · rw [List.mem_append, not_or] at hx
    rw [List.count_eq_zero_of_not_mem hx.1, List.count_eq_zero_of_not_mem hx.2]

/-- two fully labelled genotypes with the same sorted allele numbers are the same multiset of haplotypes -/
theorem labelledAlleles_inj (labels : List (Hap × ℕ)) (n : ℕ) (g g' : List Hap)
    (hinj : ∀ h h' i, (h, i) ∈ labels → (h', i) ∈ labels → h = h') (hlt : ∀ hi ∈ labels, hi.2 < n)
    (hall : ∀ h ∈ g, h ∈ labels.map (·.1)) (hall' : ∀ h ∈ g', h ∈ labels.map (·.1))
    (he : labelledAlleles labels g = labelledAlleles labels g') : g.Perm g' := by
  have h1 := (labelledAlleles_spec labels g n hlt hall).2.2.2
  have h2 := (labelledAlleles_spec labels g' n hlt hall').2.2.2
  rw [he, h2] at h1
  have hp : (g.map (lookupLabel labels)).Perm (g'.map (lookupLabel labels)) :=
    (sortInt_perm _).symm.trans (h1 ▸ sortInt_perm _)
  apply perm_of_map_perm_injOn (lookupLabel labels) g g' _ hp
  intro x hx y hy hxy
  have hxl : x ∈ labels.map (·.1) := by
    rcases List.mem_append.mp hx with h | h
    · exact hall x h
    · exact hall' x h
  have hyl : y ∈ labels.map (·.1) := by
    rcases List.mem_append.mp hy with h | h
    · exact hall y h
    · exact hall' y h
  obtain ⟨i, ei, hi⟩ := lookupLabel_of_mem labels x hxl
  obtain ⟨j, ej, hj⟩ := lookupLabel_of_mem labels y hyl
  rw [ei, ej] at hxy
  have : i = j := by exact_mod_cast hxy
  subst this
  exact hinj x y i hi hj

/-- **GP entries**: with a label map that is injective and bounded by the allele count `n` used for the array, and a
    posterior listing distinct (non-permutation-equivalent) genotypes of `ploidy ≥ 1` haplotypes, the array exists, has
    `C(n + ploidy − 1, ploidy)` entries, holds the probability of every fully labelled genotype at the VCF index of its
    sorted allele numbers (distinct genotypes never share an index: C11 injectivity) and 0 everywhere else -/
theorem gp_entry_spec (post : Post) (labels : List (Hap × ℕ)) (ploidy n : ℕ) (hp : 1 ≤ ploidy)
    (hinj : ∀ h h' i, (h, i) ∈ labels → (h', i) ∈ labels → h = h') (hlt : ∀ hi ∈ labels, hi.2 < n)
    (hlen : ∀ gp ∈ post, gp.1.length = ploidy)
    (hdist : post.Pairwise (fun a b => ¬ a.1.Perm b.1)) :
    ∃ arr, scatter (cwr n ploidy) (gpPairs post labels) = some arr ∧ arr.length = cwr n ploidy ∧
      (∀ gp ∈ post, (∀ h ∈ gp.1, h ∈ labels.map (·.1)) →
          arr.getD (genotypeIndex (labelledAlleles labels gp.1)) 0 = gp.2) ∧
      (∀ j, (∀ gp ∈ post, (∀ h ∈ gp.1, h ∈ labels.map (·.1)) →
          genotypeIndex (labelledAlleles labels gp.1) ≠ j) → arr.getD j 0 = 0) := by
  have hne : ∀ gp ∈ post, gp.1 ≠ [] := by
    intro gp hgp e
    have := hlen gp hgp
    rw [e] at this
    simp at this
    omega
  have hbound : ∀ iv ∈ gpPairs post labels, iv.1 < cwr n ploidy := by
    intro iv hiv
    obtain ⟨gp, hgp, hall, rfl⟩ := (mem_gpPairs labels post hne iv).mp hiv
    obtain ⟨hl, _, hb, _⟩ := labelledAlleles_spec labels gp.1 n hlt hall
    have := C11.index_lt n (labelledAlleles labels gp.1) hb (by rw [hl, hlen gp hgp]; exact hp)
    rw [hl, hlen gp hgp] at this
    exact this
  have hnd : ((gpPairs post labels).map (·.1)).Nodup := by
    unfold List.Nodup
    rw [List.pairwise_map]
    unfold gpPairs
    apply List.Pairwise.filterMap _ _ (hdist.imp_of_mem (S := fun a b => a ∈ post ∧ b ∈ post ∧ ¬ a.1.Perm b.1)
      (fun ha hb hr => ⟨ha, hb, hr⟩))
    intro a a' ⟨ha, ha', hnp⟩ b hb b' hb'
    -- `b`, `b'` are the pairs of `a`, `a'`
    have hb1 : b ∈ gpPairs [a] labels := by unfold gpPairs; simp [hb]
    have hb1' : b' ∈ gpPairs [a'] labels := by unfold gpPairs; simp [hb']
    obtain ⟨x, hx, hallx, rfl⟩ := (mem_gpPairs labels [a] (by
      intro y hy; rw [List.mem_singleton.mp hy]; exact hne a ha) b).mp hb1
    obtain ⟨x', hx', hallx', rfl⟩ := (mem_gpPairs labels [a'] (by
      intro y hy; rw [List.mem_singleton.mp hy]; exact hne a' ha') b').mp hb1'
    rw [List.mem_singleton] at hx hx'
    subst hx hx'
    intro heq
    simp only at heq
    obtain ⟨l1, s1, _, _⟩ := labelledAlleles_spec labels x.1 n hlt hallx
    obtain ⟨l2, s2, _, _⟩ := labelledAlleles_spec labels x'.1 n hlt hallx'
    have := C11.index_injective _ _ (by rw [l1, l2, hlen x ha, hlen x' ha']) s1 s2 heq
    exact hnp (labelledAlleles_inj labels n x.1 x'.1 hinj hlt hallx hallx' this)
  obtain ⟨out, ho, hol, hov, hoj, _⟩ := scatterFrom_spec (cwr n ploidy) (gpPairs post labels)
    (List.replicate (cwr n ploidy) 0) (by simp) hbound hnd
  refine ⟨out, by rw [scatter_eq]; exact ho, hol, ?_, ?_⟩
  · intro gp hgp hall
    exact hov _ ((mem_gpPairs labels post hne _).mpr ⟨gp, hgp, hall, rfl⟩)
  · intro j hj
    rw [hoj j]
    · simp only [List.getD_eq_getElem?_getD, List.getElem?_replicate]
      split <;> rfl
    · intro hm
      obtain ⟨iv, hiv, rfl⟩ := List.mem_map.mp hm
      obtain ⟨gp, hgp, hall, rfl⟩ := (mem_gpPairs labels post hne iv).mp hiv
      exact hj gp hgp hall rfl

/-- **GP of a sample** (`call_sample_genotypes` after the repair of F3), reference called **or masked**: the array
    exists, has the record's G cardinality for `1 + #ALT` alleles, holds the probability of every genotype made of
    labelled haplotypes (all listed ones; without the reference when it is masked) at the VCF index of its allele
    numbers, 0 elsewhere, and sums to at most the total posterior mass -/
theorem gp_spec (post : Post) (haps : List Hap) (rc : Bool) (ploidy : ℕ) (hp : 1 ≤ ploidy)
    (hlen : ∀ gp ∈ post, gp.1.length = ploidy) (hdist : post.Pairwise (fun a b => ¬ a.1.Perm b.1))
    (hnn : ∀ gp ∈ post, 0 ≤ gp.2) :
    ∃ arr, sampleGP post haps rc ploidy = some arr ∧
      arr.length = cwr haps.length ploidy ∧
      (∀ gp ∈ post, (∀ h ∈ gp.1, h ∈ (labelsOf haps rc).map (·.1)) →
          arr.getD (genotypeIndex (labelledAlleles (labelsOf haps rc) gp.1)) 0 = gp.2) ∧
      (∀ j, (∀ gp ∈ post, (∀ h ∈ gp.1, h ∈ (labelsOf haps rc).map (·.1)) →
          genotypeIndex (labelledAlleles (labelsOf haps rc) gp.1) ≠ j) → arr.getD j 0 = 0) ∧
      arr.sum ≤ (post.map (·.2)).sum := by
  have hinj : ∀ h h' i, (h, i) ∈ labelsOf haps rc → (h', i) ∈ labelsOf haps rc → h = h' := by
    intro h h' i h1 h2
    have e1 := (label_is_position haps rc h i h1).1
    have e2 := (label_is_position haps rc h' i h2).1
    rw [e1] at e2
    exact Option.some.inj e2
  have hlt : ∀ hi ∈ labelsOf haps rc, hi.2 < haps.length := by
    intro hi hm
    have e1 := (label_is_position haps rc hi.1 hi.2 hm).1
    by_contra hge
    rw [List.getElem?_eq_none (by omega)] at e1
    exact absurd e1 (by simp)
  obtain ⟨arr, h1, h2, h3, h4⟩ := gp_entry_spec post (labelsOf haps rc) ploidy haps.length hp hinj hlt hlen hdist
  have hs : sampleGP post haps rc ploidy = some arr := by
    unfold sampleGP genotypePosteriorAsArray
    exact h1
  exact ⟨arr, hs, h2, h3, h4, (gp_sum_le_one post _ ploidy (some haps.length) arr hnn hs).2.2⟩

/-- the labelled haplotypes are the listed ones, minus the reference (first entry) when it is masked -/
theorem labelled_iff (haps : List Hap) (rc : Bool) (h : Hap) :
    h ∈ (labelsOf haps rc).map (·.1) ↔ h ∈ (if rc then haps else haps.tail) := by
  unfold labelsOf
  cases rc with
  | true => simp
  | false =>
    simp only [Bool.false_eq_true, if_false]
    cases haps with
    | nil => simp
    | cons x t =>
      rw [List.zipIdx_cons, List.drop_one, List.tail_cons, List.tail_cons]
      simp

/-- **defect F3 (repaired in the code), machine-checked on its minimal witness**: reference masked, one ALT, diploid,
    the called genotype homozygous for the ALT.  The label map is `{ALT ↦ 1}`; sized from `len(labels)` (the default
    `n_alleles=None`, which is what the code did) the array has `C(2,2) = 1` slot and the index of `1/1` is 2 — no result
    (IndexError); sized from the record's allele count, as `call_sample_genotypes` now asks, it is the 3-entry G array -/
theorem gp_refmasked_repaired :
    let haps : List Hap := [[0, 0], [0, 1]]
    let post : Post := [([[0, 1], [0, 1]], 1)]
    genotypePosteriorAsArray post (labelsOf haps false) 2 none = none ∧
    gpPairs post (labelsOf haps false) = [(2, 1)] ∧ cwr (labelsOf haps false).length 2 = 1 ∧
    sampleGP post haps false 2 = some [0, 0, 1] := by
  decide +kernel

/-! ### non-vacuity: a concrete two-sample instance -/

example :
    let s1 : Post := [([[0, 0], [0, 1]], 3 / 4), ([[0, 1], [1, 1]], 1 / 4)]
    let s2 : Post := [([[0, 1], [0, 1], [1, 0], [1, 0]], 1 / 2), ([[0, 0], [1, 0], [1, 0], [1, 1]], 1 / 2)]
    callPosteriorHaplotypes (3 / 10) [s1, s2] 2 = ([[0, 0], [1, 0], [0, 1], [1, 1]], true) ∧
    callPosteriorHaplotypes (3 / 5) [s1, s2] 2 = ([[0, 0], [1, 0], [0, 1]], true) ∧
    refMasked (4 / 5) [s1, s2] 2 = true ∧
    (callPosteriorHaplotypes (4 / 5) [s1, s2] 2).1 = [[0, 0], [1, 0], [0, 1]] ∧
    genotypeAsAlleles [[0, 0], [0, 1]] (labelsOf [[0, 0], [1, 0], [0, 1]] false) = [2, -1] ∧
    (afpAop s1 2 [[0, 0], [1, 0], [0, 1]]).map (·.1) = [3 / 8, 0, 1 / 2] ∧
    sampleGP s1 [[0, 0], [1, 0], [0, 1]] true 2 = some [0, 0, 0, 3 / 4, 0, 0] ∧
    sampleGP s1 [[0, 0], [1, 0], [0, 1]] false 2 = some [0, 0, 0, 0, 0, 0] := by
  decide +kernel

end MCHap.C13
