import MCHap.Model.HapCalling
namespace MCHap.C13
end MCHap.C13
