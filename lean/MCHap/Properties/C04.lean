import MCHap.Model.Likelihood
import Mathlib.Algebra.Order.Field.Rat
import Mathlib.Algebra.BigOperators.Group.List.Basic
import Mathlib.Data.List.Perm.Basic
import Mathlib.Analysis.SpecialFunctions.Log.Basic
import Mathlib.Tactic

/-!
# C04 — Read likelihood has the documented mixture semantics and symmetries

`lik rs nb g = ∏_r (Σ_h ∏_j cell r j (g[h][j]) / ploidy)^count` is, by definition, the documented
mixture with NaN cells contributing a factor one. The theorems below give its symmetries, the
count/duplication equivalence, the rearrangement equivalence and the link to the log-space value
the code returns.
-/
namespace MCHap.C04
open MCHap

/-! ### product / sum forms -/

theorem lik_eq_prod (rs : Reads) (nb : ℕ) (g : Genotype) :
    lik rs nb g = (rs.map (fun rc => readProb rc.1 nb g ^ rc.2)).prod := by
  unfold lik
  induction rs with
  | nil => simp
  | cons rc rs ih => simp [List.foldr, ih]

theorem likStructural_eq_prod (rs : Reads) (nb : ℕ) (g : Genotype) (idx : List ℕ) (lo hi : ℕ) :
    likStructural rs nb g idx lo hi
      = (rs.map (fun rc => readProbStructural rc.1 nb g idx lo hi ^ rc.2)).prod := by
  unfold likStructural
  induction rs with
  | nil => simp
  | cons rc rs ih => simp [List.foldr, ih]

/-- missing base calls (NaN) contribute a factor of one -/
theorem cell_gap (r : Read) (j a : ℕ) (h : (r.getD j []).getD a none = none) : cell r j a = 1 := by
  unfold cell; rw [h]

theorem hapProbF_all_gaps (r : Read) (nb : ℕ) (f : ℕ → ℕ)
    (h : ∀ j, (r.getD j []).getD (f j) none = none) : hapProbF r nb f = 1 := by
  unfold hapProbF
  induction (List.range nb) with
  | nil => rfl
  | cons j js ih => simp [List.foldr, ih, cell_gap r j (f j) (h j)]

/-- a read without any base call has probability one under every (non-empty) genotype -/
theorem readProb_all_gaps (r : Read) (nb : ℕ) (g : Genotype) (hg : g ≠ [])
    (h : ∀ j a, (r.getD j []).getD a none = none) : readProb r nb g = 1 := by
  unfold readProb hapProb
  have : ∀ hp : Hap, hapProbF r nb (fun j => hp.getD j 0) = 1 :=
    fun hp => hapProbF_all_gaps r nb _ (fun j => h j _)
  simp only [this]
  have hl : (g.length : ℚ) ≠ 0 := by
    have : g.length ≠ 0 := fun e => hg (List.length_eq_zero_iff.mp e)
    exact_mod_cast this
  rw [List.map_const', List.sum_replicate, nsmul_eq_mul]
  field_simp

/-! ### symmetries -/

/-- invariance to the order of haplotypes -/
theorem readProb_perm_haps (r : Read) (nb : ℕ) {g g' : Genotype} (h : g.Perm g') :
    readProb r nb g = readProb r nb g' := by
  unfold readProb
  rw [h.length_eq]
  exact (h.map _).sum_eq

theorem lik_perm_haps (rs : Reads) (nb : ℕ) {g g' : Genotype} (h : g.Perm g') :
    lik rs nb g = lik rs nb g' := by
  rw [lik_eq_prod, lik_eq_prod]
  congr 1
  apply List.map_congr_left
  intro rc _
  rw [readProb_perm_haps rc.1 nb h]

/-- invariance to the order of reads -/
theorem lik_perm_reads {rs rs' : Reads} (nb : ℕ) (g : Genotype) (h : rs.Perm rs') :
    lik rs nb g = lik rs' nb g := by
  rw [lik_eq_prod, lik_eq_prod]
  exact (h.map _).prod_eq

/-- a read with count `k` is exactly `k` identical reads of count one -/
theorem lik_count (rs : Reads) (nb : ℕ) (g : Genotype) :
    lik (expandCounts rs) nb g = lik rs nb g := by
  rw [lik_eq_prod, lik_eq_prod]
  unfold expandCounts
  induction rs with
  | nil => simp
  | cons rc rs ih =>
    rw [List.flatMap_cons, List.map_append, List.prod_append, ih]
    simp [List.map_replicate, List.prod_replicate]

/-- a read with count zero is neutral (what makes the pedigree wrapper's sub-setting harmless) -/
theorem lik_count_zero (r : Read) (rs : Reads) (nb : ℕ) (g : Genotype) :
    lik ((r, 0) :: rs) nb g = lik rs nb g := by
  simp [lik, List.foldr]

theorem lik_positiveReads (rs : Reads) (nb : ℕ) (g : Genotype) :
    lik (positiveReads rs) nb g = lik rs nb g := by
  unfold positiveReads
  induction rs with
  | nil => rfl
  | cons rc rs ih =>
    obtain ⟨r, c⟩ := rc
    by_cases hc : c > 0
    · simp only [List.filter, hc, decide_true]
      simp only [lik, List.foldr] at ih ⊢
      rw [ih]
    · have : c = 0 := by omega
      subst this
      simp only [List.filter, hc, decide_false]
      rw [ih, lik_count_zero]

/-- calling-side likelihood: order of the allele indices is irrelevant -/
theorem likAlleles_perm (rs : Reads) (nb : ℕ) (haps : List Hap) {a a' : List ℕ} (h : a.Perm a') :
    likAlleles rs nb haps a = likAlleles rs nb haps a' := by
  unfold likAlleles genotypeOfAlleles
  exact lik_perm_haps rs nb (h.map _)

/-- the pedigree wrapper (reads with positive count only) computes the same likelihood -/
theorem likAllelesPedigree_eq (rs : Reads) (nb : ℕ) (haps : List Hap) (a : List ℕ) :
    likAllelesPedigree rs nb haps a = likAlleles rs nb haps a := by
  unfold likAllelesPedigree likAlleles
  exact lik_positiveReads rs nb _

/-! ### rearrangement equivalence -/

theorem hapProbF_congr (r : Read) (nb : ℕ) (f f' : ℕ → ℕ) (h : ∀ j, j < nb → f j = f' j) :
    hapProbF r nb f = hapProbF r nb f' := by
  unfold hapProbF
  have : ∀ l : List ℕ, (∀ j ∈ l, j < nb) →
      l.foldr (fun j acc => cell r j (f j) * acc) 1 = l.foldr (fun j acc => cell r j (f' j) * acc) 1 := by
    intro l
    induction l with
    | nil => intro _; rfl
    | cons j js ih =>
      intro hl
      simp only [List.foldr]
      rw [ih (fun x hx => hl x (List.mem_cons_of_mem _ hx)), h j (hl j (by simp))]
  exact this _ (fun j hj => List.mem_range.mp hj)

/-- the likelihood evaluated for a proposed structural rearrangement (index indirection) equals the
    likelihood of the rearranged genotype -/
theorem lik_structural (rs : Reads) (nb : ℕ) (g : Genotype) (idx : List ℕ) (lo hi : ℕ) :
    likStructural rs nb g idx lo hi = lik rs nb (structuralChange g nb idx lo hi) := by
  rw [likStructural_eq_prod, lik_eq_prod]
  congr 1
  apply List.map_congr_left
  intro rc _
  congr 1
  unfold readProbStructural readProb structuralChange
  simp only [List.length_map, List.length_range, List.map_map]
  congr 1
  apply List.map_congr_left
  intro h _
  simp only [Function.comp, hapProb]
  congr 1
  apply hapProbF_congr
  intro j hj
  simp [List.getD_eq_getElem?_getD, hj]

/-! ### link to the log-space value returned by the code -/

/-- the code's `Σ_r count · log(read_prob)` is the logarithm of `lik` whenever every read has
    positive probability (otherwise the code returns `-inf`; covered by the correspondence) -/
theorem logLik_eq_log_lik (rs : Reads) (nb : ℕ) (g : Genotype)
    (hpos : ∀ rc ∈ rs, 0 < readProb rc.1 nb g) :
    Real.log ((lik rs nb g : ℚ) : ℝ)
      = (rs.map (fun rc => (rc.2 : ℝ) * Real.log ((readProb rc.1 nb g : ℚ) : ℝ))).sum := by
  induction rs with
  | nil => simp [lik]
  | cons rc rs ih =>
    have h1 : 0 < readProb rc.1 nb g := hpos rc (by simp)
    have h2 : ∀ x ∈ rs, 0 < readProb x.1 nb g := fun x hx => hpos x (List.mem_cons_of_mem _ hx)
    have hl : 0 < lik rs nb g := by
      rw [lik_eq_prod]
      apply List.prod_pos
      intro x hx
      obtain ⟨y, hy, rfl⟩ := List.mem_map.mp hx
      exact pow_pos (h2 y hy) _
    have e : lik (rc :: rs) nb g = readProb rc.1 nb g ^ rc.2 * lik rs nb g := by simp [lik, List.foldr]
    rw [e, List.map_cons, List.sum_cons, ← ih h2]
    push_cast
    have p1 : (0:ℝ) < ((readProb rc.1 nb g : ℚ) : ℝ) := by exact_mod_cast h1
    have p2 : (0:ℝ) < ((lik rs nb g : ℚ) : ℝ) := by exact_mod_cast hl
    rw [Real.log_mul (pow_pos p1 _).ne' p2.ne', Real.log_pow]

/-! ### non-vacuity -/

/-- a tetraploid genotype with a duplicated haplotype, a read with a gap and a weighted duplicate -/
example :
    let r1 : Read := [[some (9/10), some (1/10)], [none, none], [some (1/10), some (9/10)]]
    let r2 : Read := [[some (1/10), some (9/10)], [some (9/10), some (1/10)], [none, none]]
    let g : Genotype := [[0, 0, 1], [1, 0, 0], [0, 0, 1], [1, 1, 1]]
    lik [(r1, 2), (r2, 1)] 3 g = lik [(r2, 1), (r1, 1), (r1, 1)] 3 [[1, 1, 1], [0, 0, 1], [0, 0, 1], [1, 0, 0]]
    ∧ 0 < lik [(r1, 2), (r2, 1)] 3 g := by
  decide +kernel

end MCHap.C04
