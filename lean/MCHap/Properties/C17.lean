import MCHap.Model.Pedigree
import MCHap.Proofs.Prior
import MCHap.Proofs.Comb
import MCHap.Properties.C05

namespace MCHap.C17
open MCHap

end MCHap.C17
