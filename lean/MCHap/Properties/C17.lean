import MCHap.Proofs.Pedigree

/-!
# C17 — the pedigree inheritance model is a proper probability distribution; zero iff invalid

Unordered genotypes are count vectors (`compositions n p` lists each exactly once:
`mem_compositions_iff`, `compositions_nodup`), so "sums to one over all unordered progeny genotypes /
gametes" is a sum over `compositions`.
-/
namespace MCHap.C17
open MCHap

theorem compositions_nodup (n p : ℕ) : (compositions n p).Nodup := MCHap.compositions_nodup n p

theorem mem_compositions_iff (n p : ℕ) (c : List ℕ) :
    c ∈ compositions n p ↔ c.length = n ∧ c.sum = p := MCHap.mem_compositions_iff n p c

/-! ### gametes -/

/-- the multivariate hypergeometric gamete pmf sums to one (multivariate Vandermonde) -/
theorem hyper_sum_one (dp : List ℕ) (pp tau : ℕ) (hs : dp.sum = pp) (ht : tau ≤ pp) :
    ((compositions dp.length tau).map (hyperPmf dp pp tau)).sum = 1 := by
  have h : ∀ g ∈ compositions dp.length tau,
      hyperPmf dp pp tau g = (dosagePermutations g dp : ℚ) * ((comb pp tau : ℕ) : ℚ)⁻¹ := by
    intro g _; unfold hyperPmf; rw [div_eq_mul_inv]
  rw [List.map_congr_left h, List.sum_map_mul_right, vandermonde_multi, hs, comb_eq_choose]
  have : (Nat.choose pp tau : ℚ) ≠ 0 := by
    exact_mod_cast (Nat.choose_pos ht).ne'
  field_simp

/-- **gamete probabilities sum to one** over all gametes of size `τ`, for every parental count
    vector of total `ploidy ≥ τ` and every double-reduction rate (non-zero only for `τ = 2`) -/
theorem gamete_sum_one (dp : List ℕ) (pp tau : ℕ) (lam : ℚ) (hs : dp.sum = pp) (ht : tau ≤ pp)
    (hlam : lam ≠ 0 → tau = 2) :
    ((compositions dp.length tau).map (gameteSpec dp pp tau lam)).sum = 1 := by
  unfold gameteSpec
  rw [List.sum_map_add, List.sum_map_mul_left, hyper_sum_one dp pp tau hs ht]
  by_cases h2 : tau = 2
  · subst h2
    simp only [if_true]
    rw [List.sum_map_mul_left, dr_sum dp pp hs (by omega)]
    ring
  · have hl : lam = 0 := by
      by_contra h; exact h2 (hlam h)
    simp [h2, hl]

theorem dosagePermutations_nonneg (g dp : List ℕ) : (0 : ℚ) ≤ (dosagePermutations g dp : ℚ) :=
  Nat.cast_nonneg _

theorem gameteSpec_nonneg (dp : List ℕ) (pp tau : ℕ) (lam : ℚ) (h0 : 0 ≤ lam) (h1 : lam ≤ 1) (g : List ℕ) :
    0 ≤ gameteSpec dp pp tau lam g := by
  unfold gameteSpec hyperPmf drSpec
  have : (0 : ℚ) ≤ 1 - lam := by linarith
  split <;> positivity

/-- the multinomial "unknown origin" gamete pmf sums to one -/
theorem unknown_sum_one (fs : List ℚ) (tau : ℕ) (hsum : fs.sum = 1) :
    ((compositions fs.length tau).map (unknownPmf fs)).sum = 1 :=
  C05.multinomial_sum_one fs tau hsum

/-- the per-gamete mixture `(1−e)·gamete + e·multinomial` sums to one; for a clonal edge (τ = 0) or
    an unknown parent (ploidy 0) the error is one and nothing is required of the parent -/
theorem mixture_sum_one (dp : List ℕ) (pp tau : ℕ) (lam e : ℚ) (fs : List ℚ)
    (hn : fs.length = dp.length) (hfs : fs.sum = 1)
    (hk : tau ≠ 0 → pp ≠ 0 → dp.sum = pp ∧ tau ≤ pp ∧ (lam ≠ 0 → tau = 2)) :
    ((compositions dp.length tau).map (mixPmf dp pp tau lam e fs)).sum = 1 := by
  unfold mixPmf
  rw [List.sum_map_add, List.sum_map_mul_left, List.sum_map_mul_left]
  have hu := unknown_sum_one fs tau hfs
  rw [hn] at hu
  rw [hu]
  by_cases h : tau = 0 ∨ pp = 0
  · simp [specErr, h]
  · push_neg at h
    obtain ⟨h1, h2, h3⟩ := hk h.1 h.2
    rw [gamete_sum_one dp pp tau lam h1 h2 h3]
    ring

end MCHap.C17
