import MCHap.Proofs.Pedigree
import MCHap.Proofs.PedigreeEnum
import MCHap.Proofs.PedigreeValid
import MCHap.Proofs.PedigreeEnumSmall
import MCHap.Proofs.PedigreeComplete
import MCHap.Proofs.PedigreeBridge
import Mathlib.Data.Multiset.Bind

/-!
# C17 — the pedigree inheritance model is a proper probability distribution; zero iff invalid

Unordered genotypes are count vectors (`compositions n p` lists each exactly once:
`mem_compositions_iff`, `compositions_nodup`), so "sums to one over all unordered progeny genotypes /
gametes" is a sum over `compositions`.
-/
namespace MCHap.C17
open MCHap

theorem compositions_nodup (n p : ℕ) : (compositions n p).Nodup := MCHap.compositions_nodup n p

theorem mem_compositions_iff (n p : ℕ) (c : List ℕ) :
    c ∈ compositions n p ↔ c.length = n ∧ c.sum = p := MCHap.mem_compositions_iff n p c

/-! ### gametes -/

/-- the multivariate hypergeometric gamete pmf sums to one (multivariate Vandermonde) -/
theorem hyper_sum_one (dp : List ℕ) (pp tau : ℕ) (hs : dp.sum = pp) (ht : tau ≤ pp) :
    ((compositions dp.length tau).map (hyperPmf dp pp tau)).sum = 1 := by
  have h : ∀ g ∈ compositions dp.length tau,
      hyperPmf dp pp tau g = (dosagePermutations g dp : ℚ) * ((comb pp tau : ℕ) : ℚ)⁻¹ := by
    intro g _; unfold hyperPmf; rw [div_eq_mul_inv]
  rw [List.map_congr_left h, List.sum_map_mul_right, vandermonde_multi, hs, comb_eq_choose]
  have : (Nat.choose pp tau : ℚ) ≠ 0 := by
    exact_mod_cast (Nat.choose_pos ht).ne'
  field_simp

/-- **gamete probabilities sum to one** over all gametes of size `τ`, for every parental count
    vector of total `ploidy ≥ τ` and every double-reduction rate (non-zero only for `τ = 2`) -/
theorem gamete_sum_one (dp : List ℕ) (pp tau : ℕ) (lam : ℚ) (hs : dp.sum = pp) (ht : tau ≤ pp)
    (hlam : lam ≠ 0 → tau = 2) :
    ((compositions dp.length tau).map (gameteSpec dp pp tau lam)).sum = 1 := by
  unfold gameteSpec
  rw [List.sum_map_add, List.sum_map_mul_left, hyper_sum_one dp pp tau hs ht]
  by_cases h2 : tau = 2
  · subst h2
    simp only [if_true]
    rw [List.sum_map_mul_left, dr_sum dp pp hs (by omega)]
    ring
  · have hl : lam = 0 := by
      by_contra h; exact h2 (hlam h)
    simp [h2, hl]

theorem dosagePermutations_nonneg (g dp : List ℕ) : (0 : ℚ) ≤ (dosagePermutations g dp : ℚ) :=
  Nat.cast_nonneg _

theorem gameteSpec_nonneg (dp : List ℕ) (pp tau : ℕ) (lam : ℚ) (h0 : 0 ≤ lam) (h1 : lam ≤ 1) (g : List ℕ) :
    0 ≤ gameteSpec dp pp tau lam g := by
  unfold gameteSpec hyperPmf drSpec
  have : (0 : ℚ) ≤ 1 - lam := by linarith
  split <;> positivity

/-- the multinomial "unknown origin" gamete pmf sums to one -/
theorem unknown_sum_one (fs : List ℚ) (tau : ℕ) (hsum : fs.sum = 1) :
    ((compositions fs.length tau).map (unknownPmf fs)).sum = 1 :=
  C05.multinomial_sum_one fs tau hsum

/-- the per-gamete mixture `(1−e)·gamete + e·multinomial` sums to one; for a clonal edge (τ = 0) or
    an unknown parent (ploidy 0) the error is one and nothing is required of the parent -/
theorem mixture_sum_one (dp : List ℕ) (pp tau : ℕ) (lam e : ℚ) (fs : List ℚ)
    (hn : fs.length = dp.length) (hfs : fs.sum = 1)
    (hk : tau ≠ 0 → pp ≠ 0 → dp.sum = pp ∧ tau ≤ pp ∧ (lam ≠ 0 → tau = 2)) :
    ((compositions dp.length tau).map (mixPmf dp pp tau lam e fs)).sum = 1 := by
  unfold mixPmf
  rw [List.sum_map_add, List.sum_map_mul_left, List.sum_map_mul_left]
  have hu := unknown_sum_one fs tau hfs
  rw [hn] at hu
  rw [hu]
  by_cases h : tau = 0 ∨ pp = 0
  · simp [specErr, h]
  · rw [not_or] at h
    obtain ⟨h1, h2, h3⟩ := hk h.1 h.2
    rw [gamete_sum_one dp pp tau lam h1 h2 h3]
    ring

/-! ### trios -/

/-- regrouping: summing, over all progeny vectors `d`, the pairs of gametes that add up to `d`
    is the sum over all pairs -/
theorem sum_regroup (n tp tq : ℕ) (F : List ℕ × List ℕ → ℚ) :
    ((compositions n (tp + tq)).map (fun d =>
        (((gametePairs n tp tq).filter (fun ab => vadd ab.1 ab.2 = d)).map F).sum)).sum
      = ((gametePairs n tp tq).map F).sum := by
  apply MCHap.sum_regroup _ (MCHap.compositions_nodup _ _)
  intro ab hab
  obtain ⟨ha, hb⟩ := (mem_gametePairs _ _ _ _).mp hab
  obtain ⟨ha1, ha2⟩ := (MCHap.mem_compositions_iff _ _ _).mp ha
  obtain ⟨hb1, hb2⟩ := (MCHap.mem_compositions_iff _ _ _).mp hb
  rw [MCHap.mem_compositions_iff]
  exact ⟨by rw [vadd_length _ _ (by omega)]; exact ha1, by rw [vadd_sum _ _ (by omega)]; omega⟩

/-- **the inheritance probabilities sum to one over all unordered progeny genotypes**, for all
    ploidies, gamete sizes (balanced, unbalanced, clonal `τ = 0`), unknown parents (ploidy 0),
    double-reduction rates (non-zero only at `τ = 2`), error rates and frequency vectors summing to one -/
theorem trio_sum_one (T : Trio) (n : ℕ) (hdp : T.dp.length = n) (hdq : T.dq.length = n)
    (hfn : T.fs.length = n) (hfs : T.fs.sum = 1)
    (hp : T.tp ≠ 0 → T.pp ≠ 0 → T.dp.sum = T.pp ∧ T.tp ≤ T.pp ∧ (T.lp ≠ 0 → T.tp = 2))
    (hq : T.tq ≠ 0 → T.pq ≠ 0 → T.dq.sum = T.pq ∧ T.tq ≤ T.pq ∧ (T.lq ≠ 0 → T.tq = 2)) :
    ((compositions n (T.tp + T.tq)).map (fun d => trioPmf { T with d := d })).sum = 1 := by
  have e : ∀ d ∈ compositions n (T.tp + T.tq), trioPmf { T with d := d }
      = (((gametePairs n T.tp T.tq).filter (fun ab => vadd ab.1 ab.2 = d)).map
          (fun ab => mixPmf T.dp T.pp T.tp T.lp T.ep T.fs ab.1 * mixPmf T.dq T.pq T.tq T.lq T.eq T.fs ab.2)).sum := by
    intro d hd
    unfold trioPmf
    simp only [((MCHap.mem_compositions_iff _ _ _).mp hd).1]
  rw [List.map_congr_left e, sum_regroup n T.tp T.tq, sum_gametePairs]
  have h1 := mixture_sum_one T.dp T.pp T.tp T.lp T.ep T.fs (by omega) hfs hp
  have h2 := mixture_sum_one T.dq T.pq T.tq T.lq T.eq T.fs (by omega) hfs hq
  rw [hdp] at h1; rw [hdq] at h2
  rw [h1, h2]; ring

/-! ### the gamete enumerator -/

/-- **each successful `increment_dosage` step** keeps the length and the total, stays inside the
    constraint and yields a lexicographically strictly smaller vector — hence the enumeration never
    repeats a gamete and terminates -/
theorem increment_decreasing (d c out : List ℕ) (hle : List.Forall₂ (· ≤ ·) d c)
    (h : incrementDosage d c = some out) :
    out.length = d.length ∧ out.sum = d.sum ∧ List.Forall₂ (· ≤ ·) out c ∧ List.Lex (· < ·) out d :=
  incrementDosage_decreasing d c out hle h

/-- every gamete the code's `while True: … increment_dosage … except: break` loops visit has total
    `τ` and lies under the constraint (soundness of the literal enumerator, any constraint vector) -/
theorem enumerator_sound (tau : ℕ) (c : List ℕ) :
    ∀ x ∈ enumDosage tau c, x.sum = tau ∧ List.Forall₂ (· ≤ ·) x c := enumDosage_sound tau c

/-! ### zero error: positive probability ⇔ Mendelian validity -/

/-- support of the gamete pmf = constraint of the validity test (see `MCHap.gameteSpec_pos_iff`) -/
theorem gameteSpec_pos_iff (d dp a : List ℕ) (pp tau : ℕ) (lam : ℚ)
    (hd : d.length = dp.length) (ha : a.length = dp.length) (hs : a.sum = tau)
    (had : ∀ i, a.getD i 0 ≤ d.getD i 0) (hdp : dp.sum = pp) (htp : tau ≤ pp) (ht1 : 1 ≤ tau)
    (h0 : 0 ≤ lam) (h1 : lam < 1) (hlam : lam ≠ 0 → tau = 2) :
    0 < gameteSpec dp pp tau lam a ↔ vle a (constraintOf d dp lam) = true :=
  MCHap.gameteSpec_pos_iff d dp a pp tau lam hd ha hs had hdp htp ht1 h0 h1 hlam

theorem vadd_getD (a b : List ℕ) (h : a.length = b.length) (i : ℕ) :
    (vadd a b).getD i 0 = a.getD i 0 + b.getD i 0 := getD_zipWith (· + ·) rfl a b h i

theorem vsub_getD (a b : List ℕ) (h : a.length = b.length) (i : ℕ) :
    (vsub a b).getD i 0 = a.getD i 0 - b.getD i 0 := getD_zipWith (· - ·) rfl a b h i

/-- **with zero parent error (both parents known, `λ < 1`) the inheritance probability of a progeny
    genotype is positive exactly when the trio passes the Mendelian validity test** (the test
    evaluated over all gametes under the constraint; `trioValid` runs it with the literal enumerator) -/
theorem positive_iff_valid (T : Trio) (n : ℕ) (hd : T.d.length = n) (hdp : T.dp.length = n)
    (hdq : T.dq.length = n) (hsum : T.d.sum = T.tp + T.tq) (hep : T.ep = 0) (heq : T.eq = 0)
    (hpp : T.pp ≠ 0) (hpq : T.pq ≠ 0)
    (hp : T.dp.sum = T.pp ∧ T.tp ≤ T.pp ∧ 0 ≤ T.lp ∧ T.lp < 1 ∧ (T.lp ≠ 0 → T.tp = 2))
    (hq : T.dq.sum = T.pq ∧ T.tq ≤ T.pq ∧ 0 ≤ T.lq ∧ T.lq < 1 ∧ (T.lq ≠ 0 → T.tq = 2)) :
    0 < trioPmf T ↔ trioValidSpec T.d T.dp T.dq T.tp T.tq T.lp T.lq = true := by
  obtain ⟨p1, p2, p3, p4, p5⟩ := hp
  obtain ⟨q1, q2, q3, q4, q5⟩ := hq
  set cp := constraintOf T.d T.dp T.lp with hcp
  set cq := constraintOf T.d T.dq T.lq with hcq
  have hcpl : cp.length = n := by rw [hcp, constraintOf_length _ _ _ (by omega)]; exact hd
  have hcql : cq.length = n := by rw [hcq, constraintOf_length _ _ _ (by omega)]; exact hd
  -- facts about a pair of gametes adding up to the progeny
  have pairFacts : ∀ a b : List ℕ, a ∈ compositions n T.tp → b ∈ compositions n T.tq → vadd a b = T.d →
      (0 ≤ mixPmf T.dp T.pp T.tp T.lp 0 T.fs a) ∧ (0 ≤ mixPmf T.dq T.pq T.tq T.lq 0 T.fs b) ∧
      (0 < mixPmf T.dp T.pp T.tp T.lp 0 T.fs a ↔ vle a cp = true) ∧
      (0 < mixPmf T.dq T.pq T.tq T.lq 0 T.fs b ↔ vle b cq = true) ∧
      (∀ i, T.d.getD i 0 = a.getD i 0 + b.getD i 0) := by
    intro a b ha hb hab
    obtain ⟨ha1, ha2⟩ := (MCHap.mem_compositions_iff _ _ _).mp ha
    obtain ⟨hb1, hb2⟩ := (MCHap.mem_compositions_iff _ _ _).mp hb
    have hpt : ∀ i, T.d.getD i 0 = a.getD i 0 + b.getD i 0 := by
      intro i; rw [← hab, vadd_getD a b (by omega) i]
    refine ⟨mixPmf_nonneg_zero_err _ _ _ _ _ _ ha2 hpp p3 p4.le,
      mixPmf_nonneg_zero_err _ _ _ _ _ _ hb2 hpq q3 q4.le,
      mixPmf_pos_iff T.d T.dp a T.pp T.tp T.lp T.fs (by omega) (by omega) ha2
        (fun i => by rw [hpt i]; omega) hpp p1 p2 p3 p4 p5,
      mixPmf_pos_iff T.d T.dq b T.pq T.tq T.lq T.fs (by omega) (by omega) hb2
        (fun i => by rw [hpt i]; omega) hpq q1 q2 q3 q4 q5, hpt⟩
  unfold trioPmf
  rw [hep, heq, hd]
  constructor
  · intro hpos
    -- some term is non-zero
    have hex : ∃ ab ∈ (gametePairs n T.tp T.tq).filter (fun ab => vadd ab.1 ab.2 = T.d),
        mixPmf T.dp T.pp T.tp T.lp 0 T.fs ab.1 * mixPmf T.dq T.pq T.tq T.lq 0 T.fs ab.2 ≠ 0 := by
      by_contra hne
      rw [not_exists] at hne
      have : ((List.filter (fun ab => vadd ab.1 ab.2 = T.d) (gametePairs n T.tp T.tq)).map
          (fun ab => mixPmf T.dp T.pp T.tp T.lp 0 T.fs ab.1 * mixPmf T.dq T.pq T.tq T.lq 0 T.fs ab.2)).sum = 0 := by
        apply List.sum_eq_zero
        intro v hv
        obtain ⟨ab, hab, rfl⟩ := List.mem_map.mp hv
        by_contra h
        exact hne ab ⟨hab, h⟩
      rw [this] at hpos; exact lt_irrefl _ hpos
    obtain ⟨⟨a, b⟩, hmem, hne⟩ := hex
    obtain ⟨hm1, hm2⟩ := List.mem_filter.mp hmem
    obtain ⟨ha0, hb0⟩ := (mem_gametePairs _ _ _ _).mp hm1
    have ha : a ∈ compositions n T.tp := ha0
    have hb : b ∈ compositions n T.tq := hb0
    have hab : vadd a b = T.d := by simpa using hm2
    obtain ⟨n1, n2, i1, i2, hpt⟩ := pairFacts a b ha hb hab
    obtain ⟨ha1, ha2⟩ := (MCHap.mem_compositions_iff _ _ _).mp ha
    obtain ⟨hb1, hb2⟩ := (MCHap.mem_compositions_iff _ _ _).mp hb
    simp only at hne
    have hMp : 0 < mixPmf T.dp T.pp T.tp T.lp 0 T.fs a :=
      lt_of_le_of_ne n1 (fun e => hne (by rw [← e]; ring))
    have hMq : 0 < mixPmf T.dq T.pq T.tq T.lq 0 T.fs b :=
      lt_of_le_of_ne n2 (fun e => hne (by rw [← e]; ring))
    have va := i1.mp hMp
    have vb := i2.mp hMq
    have hsa : T.tp ≤ cp.sum := by
      rw [← ha2]; exact sum_le_of_getD_le a cp (by omega) ((vle_iff a cp (by omega)).mp va)
    have hsb : T.tq ≤ cq.sum := by
      rw [← hb2]; exact sum_le_of_getD_le b cq (by omega) ((vle_iff b cq (by omega)).mp vb)
    have hvs : vsub T.d a = b := by
      apply list_ext_getD _ _ (by simp [vsub]; omega)
      intro i
      rw [vsub_getD T.d a (by omega) i, hpt i]; omega
    unfold trioValidSpec trioValidWith
    simp only
    rw [← hcp, ← hcq, if_neg (by omega), List.any_eq_true]
    refine ⟨a, ?_, ?_⟩
    · unfold enumSpec
      rw [List.mem_filter, hcpl]
      exact ⟨ha, va⟩
    · rw [hvs, vb, hab]; simp
  · intro hv
    unfold trioValidSpec trioValidWith at hv
    simp only at hv
    rw [← hcp, ← hcq] at hv
    split at hv
    · simp at hv
    rw [List.any_eq_true] at hv
    obtain ⟨gp, hgp, hcond⟩ := hv
    unfold enumSpec at hgp
    rw [List.mem_filter, hcpl] at hgp
    obtain ⟨hgc, hgle⟩ := hgp
    simp only [Bool.and_eq_true, decide_eq_true_eq] at hcond
    obtain ⟨hbq, hadd⟩ := hcond
    obtain ⟨hg1, hg2⟩ := (MCHap.mem_compositions_iff _ _ _).mp hgc
    set b := vsub T.d gp with hb
    have hbl : b.length = n := by simp [hb, vsub]; omega
    have hbs : b.sum = T.tq := by
      have := vadd_sum gp b (by omega)
      rw [hadd] at this; omega
    have hbc : b ∈ compositions n T.tq := (MCHap.mem_compositions_iff _ _ _).mpr ⟨hbl, hbs⟩
    obtain ⟨n1, n2, i1, i2, _⟩ := pairFacts gp b hgc hbc hadd
    have hterm : 0 < mixPmf T.dp T.pp T.tp T.lp 0 T.fs gp * mixPmf T.dq T.pq T.tq T.lq 0 T.fs b :=
      mul_pos (i1.mpr hgle) (i2.mpr hbq)
    have hmem : (gp, b) ∈ (gametePairs n T.tp T.tq).filter (fun ab => vadd ab.1 ab.2 = T.d) := by
      rw [List.mem_filter]
      exact ⟨(mem_gametePairs _ _ _ _).mpr ⟨hgc, hbc⟩, by simpa using hadd⟩
    have hnn : ∀ v ∈ ((gametePairs n T.tp T.tq).filter (fun ab => vadd ab.1 ab.2 = T.d)).map
        (fun ab => mixPmf T.dp T.pp T.tp T.lp 0 T.fs ab.1 * mixPmf T.dq T.pq T.tq T.lq 0 T.fs ab.2), 0 ≤ v := by
      intro v hv
      obtain ⟨⟨a', b'⟩, hab', rfl⟩ := List.mem_map.mp hv
      obtain ⟨hm1, hm2⟩ := List.mem_filter.mp hab'
      obtain ⟨ha', hb'⟩ := (mem_gametePairs _ _ _ _).mp hm1
      obtain ⟨m1, m2, _, _, _⟩ := pairFacts a' b' ha' hb' (by simpa using hm2)
      exact mul_nonneg m1 m2
    have hle := List.single_le_sum hnn _ (List.mem_map.mpr ⟨(gp, b), hmem, rfl⟩)
    exact lt_of_lt_of_le hterm hle

/-- **duos** (parent q unknown: ploidy 0; parent p known with zero error; all prior frequencies
    positive): the inheritance probability is positive exactly when `duo_valid` passes -/
theorem duo_positive_iff_valid (T : Trio) (n : ℕ) (hd : T.d.length = n) (hdp : T.dp.length = n)
    (hsum : T.d.sum = T.tp + T.tq) (hep : T.ep = 0) (hpp : T.pp ≠ 0) (hpq : T.pq = 0)
    (hf : ∀ f ∈ T.fs, 0 < f)
    (hp : T.dp.sum = T.pp ∧ T.tp ≤ T.pp ∧ 0 ≤ T.lp ∧ T.lp < 1 ∧ (T.lp ≠ 0 → T.tp = 2)) :
    0 < trioPmf T ↔ duoValid T.d T.dp T.tp T.lp = some true := by
  obtain ⟨p1, p2, p3, p4, p5⟩ := hp
  set cp := constraintOf T.d T.dp T.lp with hcp
  have hcpl : cp.length = n := by rw [hcp, constraintOf_length _ _ _ (by omega)]; exact hd
  have hduo : duoValid T.d T.dp T.tp T.lp = some (decide (cp.sum ≥ T.tp)) := by
    unfold duoValid
    rw [if_neg]
    rintro ⟨h1, h2⟩
    exact h2 (p5 (ne_of_gt h1))
  have hMq : ∀ b, mixPmf T.dq T.pq T.tq T.lq T.eq T.fs b = unknownPmf T.fs b := by
    intro b; unfold mixPmf specErr; simp [hpq]
  have pairFacts : ∀ a b : List ℕ, a ∈ compositions n T.tp → b ∈ compositions n T.tq → vadd a b = T.d →
      (0 ≤ mixPmf T.dp T.pp T.tp T.lp 0 T.fs a) ∧
      (0 < mixPmf T.dp T.pp T.tp T.lp 0 T.fs a ↔ vle a cp = true) := by
    intro a b ha hb hab
    obtain ⟨ha1, ha2⟩ := (MCHap.mem_compositions_iff _ _ _).mp ha
    obtain ⟨hb1, hb2⟩ := (MCHap.mem_compositions_iff _ _ _).mp hb
    have hpt : ∀ i, T.d.getD i 0 = a.getD i 0 + b.getD i 0 := by
      intro i; rw [← hab, vadd_getD a b (by omega) i]
    exact ⟨mixPmf_nonneg_zero_err _ _ _ _ _ _ ha2 hpp p3 p4.le,
      mixPmf_pos_iff T.d T.dp a T.pp T.tp T.lp T.fs (by omega) (by omega) ha2
        (fun i => by rw [hpt i]; omega) hpp p1 p2 p3 p4 p5⟩
  rw [hduo]
  unfold trioPmf
  rw [hep, hd]
  simp only [hMq]
  constructor
  · intro hpos
    have hex : ∃ ab ∈ (gametePairs n T.tp T.tq).filter (fun ab => vadd ab.1 ab.2 = T.d),
        mixPmf T.dp T.pp T.tp T.lp 0 T.fs ab.1 * unknownPmf T.fs ab.2 ≠ 0 := by
      by_contra hne
      rw [not_exists] at hne
      have : ((List.filter (fun ab => vadd ab.1 ab.2 = T.d) (gametePairs n T.tp T.tq)).map
          (fun ab => mixPmf T.dp T.pp T.tp T.lp 0 T.fs ab.1 * unknownPmf T.fs ab.2)).sum = 0 := by
        apply List.sum_eq_zero
        intro v hv
        obtain ⟨ab, hab, rfl⟩ := List.mem_map.mp hv
        by_contra h
        exact hne ab ⟨hab, h⟩
      rw [this] at hpos; exact lt_irrefl _ hpos
    obtain ⟨⟨a, b⟩, hmem, hne⟩ := hex
    obtain ⟨hm1, hm2⟩ := List.mem_filter.mp hmem
    obtain ⟨ha0, hb0⟩ := (mem_gametePairs _ _ _ _).mp hm1
    have ha : a ∈ compositions n T.tp := ha0
    have hb : b ∈ compositions n T.tq := hb0
    have hab : vadd a b = T.d := by simpa using hm2
    obtain ⟨n1, i1⟩ := pairFacts a b ha hb hab
    obtain ⟨ha1, ha2⟩ := (MCHap.mem_compositions_iff _ _ _).mp ha
    simp only at hne
    have hMp : 0 < mixPmf T.dp T.pp T.tp T.lp 0 T.fs a :=
      lt_of_le_of_ne n1 (fun e => hne (by rw [← e]; ring))
    have va := i1.mp hMp
    have hsa : T.tp ≤ cp.sum := by
      rw [← ha2]; exact sum_le_of_getD_le a cp (by omega) ((vle_iff a cp (by omega)).mp va)
    simp [hsa]
  · intro hv
    have hge : T.tp ≤ cp.sum := by simpa using hv
    -- a gamete of p under the constraint: the greedy fill
    obtain ⟨f1, f2⟩ := fillGreedy_spec cp T.tp
    have f3 := fillGreedy_rem_zero cp T.tp hge
    set a := (fillGreedy T.tp cp).1 with hadef
    have hal : a.length = n := by rw [f2.length_eq]; exact hcpl
    have has : a.sum = T.tp := by omega
    have hle_d : List.Forall₂ (· ≤ ·) a T.d :=
      forall₂_le_trans f2 (constraintOf_le T.d T.dp T.lp (by omega))
    obtain ⟨c1, c2, c3⟩ := vsub_spec hle_d
    set b := vsub T.d a with hbdef
    have hac : a ∈ compositions n T.tp := (MCHap.mem_compositions_iff _ _ _).mpr ⟨hal, has⟩
    have hbc : b ∈ compositions n T.tq := (MCHap.mem_compositions_iff _ _ _).mpr ⟨by omega, by omega⟩
    have hadd : vadd a b = T.d := by
      apply list_ext_getD _ _ (by rw [vadd_length a b (by omega)]; omega)
      intro i
      rw [vadd_getD a b (by omega) i]; have := c3 i; omega
    obtain ⟨_, i1⟩ := pairFacts a b hac hbc hadd
    have va : vle a cp = true := (vle_iff a cp (by omega)).mpr ((forall₂_le_iff a cp (by omega)).mp f2)
    have hterm : 0 < mixPmf T.dp T.pp T.tp T.lp 0 T.fs a * unknownPmf T.fs b :=
      mul_pos (i1.mpr va) (unknownPmf_pos T.fs hf b)
    have hmem : (a, b) ∈ (gametePairs n T.tp T.tq).filter (fun ab => vadd ab.1 ab.2 = T.d) := by
      rw [List.mem_filter]
      exact ⟨(mem_gametePairs _ _ _ _).mpr ⟨hac, hbc⟩, by simpa using hadd⟩
    have hnn : ∀ v ∈ ((gametePairs n T.tp T.tq).filter (fun ab => vadd ab.1 ab.2 = T.d)).map
        (fun ab => mixPmf T.dp T.pp T.tp T.lp 0 T.fs ab.1 * unknownPmf T.fs ab.2), 0 ≤ v := by
      intro v hv
      obtain ⟨⟨a', b'⟩, hab', rfl⟩ := List.mem_map.mp hv
      obtain ⟨hm1, hm2⟩ := List.mem_filter.mp hab'
      obtain ⟨ha', hb'⟩ := (mem_gametePairs _ _ _ _).mp hm1
      obtain ⟨m1, _⟩ := pairFacts a' b' ha' hb' (by simpa using hm2)
      exact mul_nonneg m1 (unknownPmf_pos T.fs hf b').le
    have hle := List.single_le_sum hnn _ (List.mem_map.mpr ⟨(a, b), hmem, rfl⟩)
    exact lt_of_lt_of_le hterm hle

/-! ### general completeness of the literal enumerator -/

/-- **each successful `increment_dosage` step goes to the lexicographic predecessor**: no vector
    under the constraint with the same total lies strictly between the result and the argument -/
theorem increment_is_predecessor (g c g' a : List ℕ) (tau : ℕ) (hg : Adm c tau g) (ha : Adm c tau a)
    (h : incrementDosage g c = some g') (hlt : a < g) : a ≤ g' :=
  increment_is_pred g c g' a tau hg ha h hlt

/-- when `increment_dosage` raises ("Final dosage") the vector is the lexicographic minimum -/
theorem stuck_is_minimum (g c a : List ℕ) (tau : ℕ) (hg : Adm c tau g) (ha : Adm c tau a)
    (h : incrementDosage g c = none) : ¬ a < g :=
  stuck_is_min g c a tau hg ha h

/-- **the literal enumerator is complete**: for every constraint vector and every gamete size that
    fits, the loop `set_initial_dosage; while True: …; increment_dosage` visits exactly the vectors
    under the constraint with total `τ`, each exactly once (the fuel of the model never runs out) -/
theorem enumerator_complete (tau : ℕ) (c : List ℕ) (h : tau ≤ c.sum) :
    (enumDosage tau c).Nodup ∧ ∀ a, a ∈ enumDosage tau c ↔ (List.Forall₂ (· ≤ ·) a c ∧ a.sum = tau) :=
  enumDosage_complete tau c h

/-- hence it is a permutation of the reference enumeration `enumSpec` -/
theorem enumerator_perm_spec (tau : ℕ) (c : List ℕ) (h : tau ≤ c.sum) :
    (enumDosage tau c).Perm (enumSpec tau c) := enumDosage_perm_spec tau c h

/-- `trio_valid` as the code runs it (literal enumerator) is the validity test of the specification -/
theorem trioValid_eq_spec (d dp dq : List ℕ) (tp tq : ℕ) (lp lq : ℚ) :
    trioValidWith enumDosage d dp dq tp tq lp lq = trioValidSpec d dp dq tp tq lp lq := by
  unfold trioValidSpec trioValidWith
  simp only
  split
  · rfl
  · rename_i h
    rw [not_or, not_lt, not_lt] at h
    exact (enumDosage_perm_spec tp _ h.1).any_eq

/-- **zero error: positive probability ⇔ `trio_valid`** (the model of the code's own test) -/
theorem positive_iff_trioValid (T : Trio) (n : ℕ) (hd : T.d.length = n) (hdp : T.dp.length = n)
    (hdq : T.dq.length = n) (hsum : T.d.sum = T.tp + T.tq) (hep : T.ep = 0) (heq : T.eq = 0)
    (hpp : T.pp ≠ 0) (hpq : T.pq ≠ 0)
    (hp : T.dp.sum = T.pp ∧ T.tp ≤ T.pp ∧ 0 ≤ T.lp ∧ T.lp < 1 ∧ (T.lp ≠ 0 → T.tp = 2))
    (hq : T.dq.sum = T.pq ∧ T.tq ≤ T.pq ∧ 0 ≤ T.lq ∧ T.lq < 1 ∧ (T.lq ≠ 0 → T.tq = 2)) :
    0 < trioPmf T ↔ trioValid T.d T.dp T.dq T.tp T.tq T.lp T.lq = some true := by
  rw [positive_iff_valid T n hd hdp hdq hsum hep heq hpp hpq hp hq, ← trioValid_eq_spec]
  unfold trioValid
  have h1 : ¬ ((T.lp > 0 ∧ T.tp ≠ 2) ∨ (T.lq > 0 ∧ T.tq ≠ 2)) := by
    rintro (⟨a, b⟩ | ⟨a, b⟩)
    · exact b (hp.2.2.2.2 (ne_of_gt a))
    · exact b (hq.2.2.2.2 (ne_of_gt a))
  rw [if_neg h1]
  simp

/-! ### the code's evaluation equals the specification -/

/-- `Σ_{a ≤ d, |a| = τ_p} U(a) · U(d − a) = U(d)`: the closed-form "both parents invalid" term of
    `trio_log_pmf` is the sum over all pairs of gametes of unknown origin -/
theorem multinomial_convolution (fs : List ℚ) (d : List ℕ) (tp tq : ℕ) (hs : d.sum = tp + tq)
    (hl : d.length ≤ fs.length) :
    (((compositions d.length tp).filter (fun a => vle a d)).map
        (fun a => unknownPmf fs a * unknownPmf fs (vsub d a))).sum = unknownPmf fs d :=
  multinomial_convolution_aux fs d tp tq hs hl

/-- `exp(gamete_log_pmf)` as the code computes it (literal `double_reduction_permutations`) is the
    specification's gamete pmf -/
theorem gameteCode_eq_spec (dp a : List ℕ) (pp tau : ℕ) (lam : ℚ) (hl : a.length = dp.length)
    (hs : a.sum = tau) (h0 : 0 ≤ lam) (hlam : lam ≠ 0 → tau = 2) :
    gametePmf a tau dp pp lam = gameteSpec dp pp tau lam a :=
  gametePmf_eq_spec dp a pp tau lam hl hs h0 hlam

/-- **support lemma**: a gamete that fits into the progeny but not under the constraint vector
    has probability zero, so restricting the pair sum to the constraint loses nothing -/
theorem support_under_constraint (d dp a : List ℕ) (pp tau : ℕ) (lam : ℚ)
    (hd : d.length = dp.length) (ha : a.length = dp.length)
    (had : ∀ i, a.getD i 0 ≤ d.getD i 0) (h0 : 0 ≤ lam)
    (hv : ¬ vle a (constraintOf d dp lam) = true) : gameteSpec dp pp tau lam a = 0 :=
  gameteSpec_zero_outside d dp a pp tau lam hd ha had h0 hv

/-- **the model of `trio_log_pmf` — constraint vectors, the four `valid_p / valid_q` branches, the
    literal `set_initial_dosage` / `increment_dosage` enumeration, the closed-form last term — equals
    the specification `trioPmf`** under the well-formedness the code relies on (`TrioWF`) -/
theorem trioCode_eq_spec (T : Trio) (h : TrioWF T) : trioPmfCode T = trioPmf T :=
  trioPmfCode_eq_spec T h

/-- hence **the code model sums to one over all unordered progeny genotypes** -/
theorem trioCode_sum_one (T : Trio) (n : ℕ) (hdp : T.dp.length = n) (hdq : T.dq.length = n)
    (hfn : T.fs.length = n) (hfs : T.fs.sum = 1)
    (hep : T.pp = 0 → T.ep = 1) (heq : T.pq = 0 → T.eq = 1) (hep1 : T.ep ≤ 1) (heq1 : T.eq ≤ 1)
    (hlp0 : 0 ≤ T.lp) (hlq0 : 0 ≤ T.lq)
    (hp : T.tp ≠ 0 → T.pp ≠ 0 → T.dp.sum = T.pp ∧ T.tp ≤ T.pp)
    (hq : T.tq ≠ 0 → T.pq ≠ 0 → T.dq.sum = T.pq ∧ T.tq ≤ T.pq)
    (hlp : T.lp ≠ 0 → T.tp = 2) (hlq : T.lq ≠ 0 → T.tq = 2) :
    ((compositions n (T.tp + T.tq)).map (fun d => trioPmfCode { T with d := d })).sum = 1 := by
  have e : ∀ d ∈ compositions n (T.tp + T.tq), trioPmfCode { T with d := d } = trioPmf { T with d := d } := by
    intro d hd
    obtain ⟨h1, h2⟩ := (MCHap.mem_compositions_iff _ _ _).mp hd
    exact trioCode_eq_spec _ ⟨by simp only; omega, by simp only; omega, by simp only; omega, h2, hep, heq,
      hep1, heq1, hlp0, hlp, hlq0, hlq⟩
  rw [List.map_congr_left e]
  exact trio_sum_one T n hdp hdq hfn hfs
    (fun a b => ⟨(hp a b).1, (hp a b).2, hlp⟩) (fun a b => ⟨(hq a b).1, (hq a b).2, hlq⟩)

/-- **zero error, on the code model itself**: `exp(trio_log_pmf) > 0 ⇔ trio_valid` -/
theorem trioCode_positive_iff_trioValid (T : Trio) (n : ℕ) (hd : T.d.length = n) (hdp : T.dp.length = n)
    (hdq : T.dq.length = n) (hfs : n ≤ T.fs.length) (hsum : T.d.sum = T.tp + T.tq)
    (hep : T.ep = 0) (heq : T.eq = 0) (hpp : T.pp ≠ 0) (hpq : T.pq ≠ 0)
    (hp : T.dp.sum = T.pp ∧ T.tp ≤ T.pp ∧ 0 ≤ T.lp ∧ T.lp < 1 ∧ (T.lp ≠ 0 → T.tp = 2))
    (hq : T.dq.sum = T.pq ∧ T.tq ≤ T.pq ∧ 0 ≤ T.lq ∧ T.lq < 1 ∧ (T.lq ≠ 0 → T.tq = 2)) :
    0 < trioPmfCode T ↔ trioValid T.d T.dp T.dq T.tp T.tq T.lp T.lq = some true := by
  rw [trioCode_eq_spec T ⟨by omega, by omega, by omega, hsum, fun h => absurd h hpp, fun h => absurd h hpq,
    by rw [hep]; norm_num, by rw [heq]; norm_num, hp.2.2.1, hp.2.2.2.2, hq.2.2.1, hq.2.2.2.2⟩]
  exact positive_iff_trioValid T n hd hdp hdq hsum hep heq hpp hpq hp hq

/-! ### the literal enumerator is complete — machine-checked on a bounded family (a test, not a proof
    of the general statement; the general statement enters `trioCode_eq_spec` as a hypothesis) -/

/-- every constraint vector of length ≤ 4 with entries ≤ 3 and every gamete size that fits
    (kernel evaluation, `MCHap/Proofs/PedigreeEnumSmall.lean`) -/
theorem enumerator_complete_small :
    ∀ m ∈ List.range 5, ∀ c ∈ boxVecs m 3, ∀ tau ∈ List.range (c.sum + 1), EnumComplete tau c :=
  enumerator_complete_small_aux

/-! ### concrete instances (non-vacuity; the code-structure model agrees with the specification) -/

/-- tetraploid parents `0011`·… as count vectors `[2,1,1]` and `[0,3,1]`, `τ = (2,2)`, `λ_p = 1/10`,
    errors `1/100` and `1/2`, skewed frequencies: the 15 progeny genotypes sum to one, for the
    specification and for the model of `trio_log_pmf` (four branches + literal enumerator) alike -/
def exTrio : Trio where
  d := []
  dp := [2, 1, 1]
  dq := [0, 3, 1]
  pp := 4
  pq := 4
  tp := 2
  tq := 2
  lp := 1/10
  lq := 0
  ep := 1/100
  eq := 1/2
  fs := [1/2, 1/4, 1/4]

example : (compositions 3 4).length = 15 ∧
    ((compositions 3 4).map (fun d => trioPmf { exTrio with d := d })).sum = 1 ∧
    (∀ d ∈ compositions 3 4, trioGuard { exTrio with d := d } = true ∧
      trioPmfCode { exTrio with d := d } = trioPmf { exTrio with d := d }) := by
  decide +kernel

/-- zero error: `[2,2,0]` (two copies of allele 0 from p, two of allele 1 from q) is valid and has
    positive probability; `[4,0,0]` is invalid and has probability zero; `[2,1,1]` is valid with and
    without double reduction -/
example :
    let T0 : Trio := { exTrio with ep := 0, eq := 0 }
    0 < trioPmf { T0 with d := [2, 2, 0] } ∧ trioValid [2, 2, 0] T0.dp T0.dq 2 2 T0.lp T0.lq = some true ∧
    trioPmf { T0 with d := [4, 0, 0] } = 0 ∧ trioValid [4, 0, 0] T0.dp T0.dq 2 2 T0.lp T0.lq = some false ∧
    0 < trioPmf { T0 with d := [2, 1, 1] } ∧ trioValidSpec [2, 1, 1] T0.dp T0.dq 2 2 T0.lp T0.lq = true ∧
    trioValidSpec [2, 1, 1] T0.dp T0.dq 2 2 0 0 = true := by
  decide +kernel

/-- an unbalanced `(1,3)` and a clonal `(0,2)` edge and an unknown parent also sum to one -/
example :
    ((compositions 2 4).map (fun d => trioPmf { exTrio with d := d, dp := [1, 1], dq := [2, 2], pp := 2, tp := 1, tq := 3, lp := 0, fs := [1/3, 2/3] })).sum = 1 ∧
    ((compositions 2 2).map (fun d => trioPmf { exTrio with d := d, dp := [1, 1], dq := [2, 2], pp := 2, tp := 0, tq := 2, lp := 0, lq := 1/2, fs := [1/3, 2/3] })).sum = 1 ∧
    ((compositions 2 4).map (fun d => trioPmf { exTrio with d := d, dp := [0, 0], dq := [2, 2], pp := 0, tp := 2, tq := 2, lp := 0, ep := 1, fs := [1/3, 2/3] })).sum = 1 := by
  decide +kernel

/-! ### the order of the two parents does not matter -/

/-- the same trio with the roles of the two parents exchanged -/
def _root_.MCHap.Trio.swap (T : Trio) : Trio :=
  { T with dp := T.dq, dq := T.dp, pp := T.pq, pq := T.pp, tp := T.tq, tq := T.tp,
           lp := T.lq, lq := T.lp, ep := T.eq, eq := T.ep }

/-- **the inheritance probability does not depend on which parent is listed first** -/
theorem trioPmf_swap (T : Trio) : trioPmf T.swap = trioPmf T := by
  unfold trioPmf Trio.swap
  simp only
  have hp : ∀ (n a b : ℕ), ((gametePairs n a b : List (List ℕ × List ℕ)) : Multiset (List ℕ × List ℕ))
      = ((compositions n a : List (List ℕ)) : Multiset (List ℕ)) ×ˢ ((compositions n b : List (List ℕ)) : Multiset (List ℕ)) := by
    intro n a b
    rw [Multiset.coe_product]; rfl
  rw [← Multiset.sum_coe, ← Multiset.sum_coe, ← Multiset.map_coe, ← Multiset.map_coe,
    ← Multiset.filter_coe, ← Multiset.filter_coe, hp, hp, ← Multiset.map_swap_product,
    Multiset.filter_map, Multiset.map_map]
  have h1 : Multiset.filter ((fun ab : List ℕ × List ℕ => vadd ab.1 ab.2 = T.d) ∘ Prod.swap)
        ((compositions T.d.length T.tp : Multiset (List ℕ)) ×ˢ (compositions T.d.length T.tq : Multiset (List ℕ)))
      = Multiset.filter (fun ab : List ℕ × List ℕ => vadd ab.1 ab.2 = T.d)
        ((compositions T.d.length T.tp : Multiset (List ℕ)) ×ˢ (compositions T.d.length T.tq : Multiset (List ℕ))) := by
    apply Multiset.filter_congr
    intro ab _
    simp only [Function.comp, Prod.swap]
    rw [MCHap.vadd_comm]
  rw [h1]
  congr 1
  apply Multiset.map_congr rfl
  intro ab _
  simp only [Function.comp, Prod.swap]
  ring

/-- duos in the other orientation (parent p unknown, parent q known with zero error) -/
theorem duo_positive_iff_valid_q (T : Trio) (n : ℕ) (hd : T.d.length = n) (hdq : T.dq.length = n)
    (hsum : T.d.sum = T.tp + T.tq) (heq : T.eq = 0) (hpq : T.pq ≠ 0) (hpp : T.pp = 0)
    (hf : ∀ f ∈ T.fs, 0 < f)
    (hq : T.dq.sum = T.pq ∧ T.tq ≤ T.pq ∧ 0 ≤ T.lq ∧ T.lq < 1 ∧ (T.lq ≠ 0 → T.tq = 2)) :
    0 < trioPmf T ↔ duoValid T.d T.dq T.tq T.lq = some true := by
  rw [← trioPmf_swap T]
  exact duo_positive_iff_valid T.swap n hd hdq (by show T.d.sum = T.tq + T.tp; omega) heq hpq hpp hf hq

end MCHap.C17
