import MCHap.Model.Sweep
import Mathlib.Data.List.Perm.Basic
import Mathlib.Data.List.Nodup
import Mathlib.Data.List.Range
import Mathlib.Tactic

/-!
# C15 — each iteration sweeps every site once; intervals partition; fixed sites restored
-/
namespace MCHap.C15
open MCHap

/-! ### the sub-step table -/

theorem mem_substeps (ploidy nb h j : ℕ) : (h, j) ∈ substeps ploidy nb ↔ h < ploidy ∧ j < nb := by
  unfold substeps
  simp only [List.mem_flatMap, List.mem_range, List.mem_map, Prod.mk.injEq]
  constructor
  · rintro ⟨h', hh, j', hj, rfl, rfl⟩; exact ⟨hh, hj⟩
  · rintro ⟨hh, hj⟩; exact ⟨h, hh, j, hj, rfl, rfl⟩

theorem substeps_nodup (ploidy nb : ℕ) : (substeps ploidy nb).Nodup := by
  unfold substeps
  rw [List.nodup_flatMap]
  refine ⟨?_, ?_⟩
  · intro h _
    exact List.Nodup.map (fun a b e => (Prod.mk.inj e).2) List.nodup_range
  · apply List.Pairwise.imp_of_mem (R := fun a b : ℕ => a ≠ b)
    · intro a b _ _ hab x hx1 hx2
      obtain ⟨j1, _, rfl⟩ := List.mem_map.mp hx1
      obtain ⟨j2, _, e⟩ := List.mem_map.mp hx2
      exact hab (Prod.mk.inj e).1.symm
    · exact List.nodup_range

theorem substeps_length (ploidy nb : ℕ) : (substeps ploidy nb).length = ploidy * nb := by
  unfold substeps
  induction ploidy with
  | zero => simp
  | succ p ih =>
    rw [List.range_succ, List.flatMap_append, List.length_append, ih]
    simp [Nat.succ_mul]

/-- **every (haplotype copy, SNV) pair occurs exactly once in the table**, for any ploidy and any
    number of SNVs -/
theorem substeps_all_pairs (ploidy nb h j : ℕ) (hh : h < ploidy) (hj : j < nb) :
    (substeps ploidy nb).count (h, j) = 1 :=
  List.count_eq_one_of_mem (substeps_nodup ploidy nb) ((mem_substeps ploidy nb h j).mpr ⟨hh, hj⟩)

/-- shuffling the rows (any permutation of the row indices) keeps that: one iteration attempts a
    mutation at every pair exactly once -/
theorem sweep_visits_each_once (ploidy nb : ℕ) (perm : List ℕ)
    (hperm : perm.Perm (List.range (ploidy * nb))) (h j : ℕ) (hh : h < ploidy) (hj : j < nb) :
    (sweepOrder perm ploidy nb).count (h, j) = 1 := by
  have hp : (sweepOrder perm ploidy nb).Perm (substeps ploidy nb) := by
    unfold sweepOrder
    have h1 := hperm.map (fun i => (substeps ploidy nb).getD i (0, 0))
    refine h1.trans ?_
    have : (List.range (ploidy * nb)).map (fun i => (substeps ploidy nb).getD i (0, 0))
        = substeps ploidy nb := by
      apply List.ext_getElem
      · simp [substeps_length]
      · intro i h1 h2
        simp [List.getD_eq_getElem?_getD, h2]
    rw [this]
  rw [hp.count_eq]
  exact substeps_all_pairs ploidy nb h j hh hj

theorem sweep_no_other_pairs (ploidy nb : ℕ) (perm : List ℕ)
    (hperm : perm.Perm (List.range (ploidy * nb))) (h j : ℕ)
    (hmem : (h, j) ∈ sweepOrder perm ploidy nb) : h < ploidy ∧ j < nb := by
  have hp : (sweepOrder perm ploidy nb).Perm (substeps ploidy nb) := by
    unfold sweepOrder
    have h1 := hperm.map (fun i => (substeps ploidy nb).getD i (0, 0))
    refine h1.trans ?_
    have : (List.range (ploidy * nb)).map (fun i => (substeps ploidy nb).getD i (0, 0))
        = substeps ploidy nb := by
      apply List.ext_getElem
      · simp [substeps_length]
      · intro i h1 h2
        simp [List.getD_eq_getElem?_getD, h2]
    rw [this]
  exact (mem_substeps ploidy nb h j).mp (hp.mem_iff.mp hmem)

/-- the defect repaired by the F2 fix, machine-checked: with `int8` cells and 200 SNVs at ploidy 2
    the pair (0, 150) is never visited and (0, 100) is visited twice -/
theorem int8_table_counterexample :
    (substepsInt8 2 200).count (0, 150) = 0 ∧ (substepsInt8 2 200).count (0, 100) = 2 := by
  decide +kernel

/-! ### `random_breaks` -/

theorem insertAsc_spec (x : ℕ) (l : List ℕ) (hs : l.Pairwise (· < ·)) (hx : x ∉ l) :
    (insertAsc x l).Pairwise (· < ·) ∧ (∀ y, y ∈ insertAsc x l ↔ y = x ∨ y ∈ l) ∧
    (insertAsc x l).length = l.length + 1 := by
  induction l with
  | nil => simp [insertAsc]
  | cons y t ih =>
    have hs' := (List.pairwise_cons.mp hs).2
    have hy := (List.pairwise_cons.mp hs).1
    have hxy : x ≠ y := fun e => hx (e ▸ List.mem_cons_self)
    have hxt : x ∉ t := fun h => hx (List.mem_cons_of_mem _ h)
    unfold insertAsc
    split
    · rename_i hle
      refine ⟨?_, by intro z; simp, by simp⟩
      rw [List.pairwise_cons]
      refine ⟨?_, hs⟩
      intro z hz
      rcases List.mem_cons.mp hz with h | h
      · omega
      · have := hy z h; omega
    · rename_i hnle
      obtain ⟨i1, i2, i3⟩ := ih hs' hxt
      refine ⟨?_, ?_, by simp [i3]⟩
      · rw [List.pairwise_cons]
        refine ⟨?_, i1⟩
        intro z hz
        rcases (i2 z).mp hz with h | h
        · omega
        · exact hy z h
      · intro z
        simp only [List.mem_cons, i2 z]
        tauto

/-- consecutive pairs of a strictly ascending point list `p₀ < p₁ < … < p_k`: `k` intervals,
    contiguous, non-empty, from the first to the last point -/
theorem consecutivePairs_spec : ∀ (l : List ℕ) (a : ℕ), (a :: l).Pairwise (· < ·) →
    (consecutivePairs (a :: l)).length = l.length ∧
    (∀ p ∈ consecutivePairs (a :: l), p.1 < p.2) ∧
    ((consecutivePairs (a :: l)).map (·.1) = (a :: l).dropLast) ∧
    ((consecutivePairs (a :: l)).map (·.2) = l) := by
  intro l
  induction l with
  | nil => intro a _; simp [consecutivePairs]
  | cons b t ih =>
    intro a hs
    have hs' := (List.pairwise_cons.mp hs).2
    have hab := (List.pairwise_cons.mp hs).1 b (by simp)
    obtain ⟨i1, i2, i3, i4⟩ := ih b hs'
    simp only [consecutivePairs, List.length_cons, List.map_cons, List.mem_cons]
    refine ⟨by omega, ?_, ?_, ?_⟩
    · intro p hp
      rcases hp with rfl | hp
      · exact hab
      · exact i2 p hp
    · rw [i3]; simp [List.dropLast]
    · rw [i4]

theorem removeAt_spec : ∀ (l : List ℕ) (i : ℕ), l.Nodup →
    (removeAt i l).Nodup ∧ (∀ x ∈ removeAt i l, x ∈ l) ∧
    (∀ h : i < l.length, l[i] ∉ removeAt i l) := by
  intro l
  induction l with
  | nil => intro i _; simp [removeAt]
  | cons y t iht =>
    intro i hnd'
    obtain ⟨hy, hnt⟩ := List.nodup_cons.mp hnd'
    cases i with
    | zero =>
      simp only [removeAt]
      exact ⟨hnt, fun x hx => List.mem_cons_of_mem _ hx, fun _ => by simpa using hy⟩
    | succ i =>
      obtain ⟨j1, j2, j3⟩ := iht i hnt
      simp only [removeAt]
      refine ⟨List.nodup_cons.mpr ⟨fun h => hy (j2 y h), j1⟩, ?_, ?_⟩
      · intro x hx
        rcases List.mem_cons.mp hx with h | h
        · simp [h]
        · exact List.mem_cons_of_mem _ (j2 x h)
      · intro hlt
        have hlt' : i < t.length := by simpa using hlt
        simp only [List.getElem_cons_succ, List.mem_cons, not_or]
        exact ⟨fun e => hy (e ▸ List.getElem_mem hlt'), j3 hlt'⟩

/-- the drawn break points are distinct and are candidate points -/
theorem drawPoints_spec : ∀ (choices options : List ℕ), options.Nodup →
    (drawPoints options choices).Nodup ∧ (∀ x ∈ drawPoints options choices, x ∈ options) ∧ True := by
  intro choices
  induction choices with
  | nil => intro options _; simp [drawPoints]
  | cons c cs ih =>
    intro options hnd
    unfold drawPoints
    cases hget : options[c]? with
    | none => simp
    | some pt =>
      have hmem : pt ∈ options := List.mem_of_getElem? hget
      have hc : c < options.length := (List.getElem?_eq_some_iff.mp hget).1
      obtain ⟨r1, r2, r3⟩ := removeAt_spec options c hnd
      have r3a := r3 hc
      obtain ⟨i1, i2, _⟩ := ih (removeAt c options) r1
      have hpt : options[c] = pt := (List.getElem?_eq_some_iff.mp hget).2
      refine ⟨?_, ?_, trivial⟩
      · simp only
        rw [List.nodup_cons]
        exact ⟨fun h => (hpt ▸ r3a) (i2 pt h), i1⟩
      · intro x hx
        rcases List.mem_cons.mp hx with h | h
        · rw [h]; exact hmem
        · exact r2 x (i2 x h)

theorem foldr_insertAsc_spec (n : ℕ) (hn : 0 < n) : ∀ (pts : List ℕ), pts.Nodup →
    (∀ x ∈ pts, 0 < x ∧ x < n) →
    (pts.foldr insertAsc [0, n]).Pairwise (· < ·) ∧
    (∀ y, y ∈ pts.foldr insertAsc [0, n] ↔ y ∈ pts ∨ y = 0 ∨ y = n) ∧
    (pts.foldr insertAsc [0, n]).length = pts.length + 2 := by
  intro pts
  induction pts with
  | nil => intro _ _; simp [hn]
  | cons x t ih =>
    intro hnd hin
    obtain ⟨hx, hnt⟩ := List.nodup_cons.mp hnd
    obtain ⟨i1, i2, i3⟩ := ih hnt (fun y hy => hin y (List.mem_cons_of_mem _ hy))
    have hxin := hin x (by simp)
    have hxn : x ∉ t.foldr insertAsc [0, n] := by
      intro h
      rcases (i2 x).mp h with h | h | h
      · exact hx h
      · omega
      · omega
    obtain ⟨j1, j2, j3⟩ := insertAsc_spec x _ i1 hxn
    simp only [List.foldr]
    refine ⟨j1, ?_, by rw [j3, i3]; simp⟩
    intro y
    rw [j2 y, i2 y]
    simp only [List.mem_cons]
    tauto

theorem head_of_sorted_mem (l : List ℕ) (hs : l.Pairwise (· < ·)) (h0 : 0 ∈ l) : l.head? = some 0 := by
  cases l with
  | nil => simp at h0
  | cons a t =>
    rcases List.mem_cons.mp h0 with h | h
    · simp [h]
    · have := (List.pairwise_cons.mp hs).1 0 h; omega

theorem getLast_of_sorted_max (l : List ℕ) (hs : l.Pairwise (· < ·)) (n : ℕ) (hn : n ∈ l)
    (hmax : ∀ x ∈ l, x ≤ n) : l.getLast? = some n := by
  induction l with
  | nil => simp at hn
  | cons a t ih =>
    cases t with
    | nil => simp at hn; simp [hn]
    | cons b t' =>
      have hs' := (List.pairwise_cons.mp hs).2
      rw [List.getLast?_cons_cons]
      apply ih hs'
      · rcases List.mem_cons.mp hn with h | h
        · have := (List.pairwise_cons.mp hs).1 b (by simp)
          have := hmax b (by simp); omega
        · exact h
      · intro x hx; exact hmax x (List.mem_cons_of_mem _ hx)

/-- **the interval set produced for any sequence of draws partitions the SNV range**: whatever
    points are drawn (`breaks < n` of them), the intervals are one more than the points drawn, each
    non-empty, the first starts at 0, the last ends at `n`, and each ends where the next begins -/
theorem breaks_partition (n : ℕ) (choices : List ℕ) (hb : choices.length < n) :
    ∃ ivs, randomBreaks n choices = some ivs ∧
      ivs.length = (drawPoints (interiorPoints n) choices).length + 1 ∧
      (∀ p ∈ ivs, p.1 < p.2) ∧
      (ivs.map (·.1)).head? = some 0 ∧ (ivs.map (·.2)).getLast? = some n ∧
      (ivs.map (·.2)).dropLast = (ivs.map (·.1)).tail := by
  unfold randomBreaks
  have hn' : ¬ choices.length ≥ n := by omega
  have hn : 0 < n := by omega
  simp only [hn', if_false]
  refine ⟨_, rfl, ?_⟩
  have hnd : (interiorPoints n).Nodup := by
    unfold interiorPoints
    exact List.Nodup.map (fun a b e => by simpa using e) List.nodup_range
  have hmemI : ∀ x, x ∈ interiorPoints n → 0 < x ∧ x < n := by
    intro x hx
    unfold interiorPoints at hx
    obtain ⟨i, hi, rfl⟩ := List.mem_map.mp hx
    have := List.mem_range.mp hi
    omega
  obtain ⟨d1, d2, _⟩ := drawPoints_spec choices (interiorPoints n) hnd
  set pts := drawPoints (interiorPoints n) choices with hpts
  obtain ⟨f1, f2, f3⟩ := foldr_insertAsc_spec n hn pts d1 (fun x hx => hmemI x (d2 x hx))
  unfold breakPoints
  rw [← hpts]
  -- the point list is non-empty: write it as a :: l
  cases hl : pts.foldr insertAsc [0, n] with
  | nil => rw [hl] at f3; simp at f3
  | cons a l =>
    rw [hl] at f1 f2 f3
    obtain ⟨c1, c2, c3, c4⟩ := consecutivePairs_spec l a f1
    have ha : a = 0 := by
      have := head_of_sorted_mem (a :: l) f1 ((f2 0).mpr (Or.inr (Or.inl rfl)))
      simpa using this
    refine ⟨by rw [c1]; simp at f3; omega, c2, ?_, ?_, ?_⟩
    · rw [c3]
      cases l with
      | nil => simp at f3
      | cons b t => simp [List.dropLast, ha]
    · rw [c4]
      have hlast := getLast_of_sorted_max (a :: l) f1 n ((f2 n).mpr (Or.inr (Or.inr rfl)))
        (by
          intro x hx
          rcases (f2 x).mp hx with h | h | h
          · exact le_of_lt (hmemI x (d2 x h)).2
          · omega
          · omega)
      cases l with
      | nil => simp at f3
      | cons b t => simpa [List.getLast?_cons_cons] using hlast
    · rw [c3, c4]
      cases l with
      | nil => simp
      | cons b t => simp [List.dropLast]

/-! ### homozygosity screen and template re-insertion -/

theorem fixedAllele_foldl_spec (thr : ℚ) : ∀ (l : List (ℚ × ℕ)) (acc : Option ℕ),
    ((l.foldl (fun acc (pa : ℚ × ℕ) => if pa.1 ≥ thr then some pa.2 else acc) acc).isSome
      ↔ acc.isSome ∨ ∃ pa ∈ l, pa.1 ≥ thr) := by
  intro l
  induction l with
  | nil => intro acc; simp
  | cons x t ih =>
    intro acc
    simp only [List.foldl_cons]
    rw [ih]
    by_cases hx : x.1 ≥ thr
    · simp [hx]
    · simp only [hx, if_false, List.mem_cons, exists_eq_or_imp, false_or]

/-- **a site is held fixed exactly when some allele's single-SNV posterior probability of being
    homozygous reaches the threshold** -/
theorem fixed_iff (thr : ℚ) (probs : List ℚ) :
    (fixedAllele thr probs).isSome ↔ ∃ p ∈ probs, p ≥ thr := by
  unfold fixedAllele
  have := fixedAllele_foldl_spec thr probs.zipIdx none
  simp only [Option.isSome_none, Bool.false_eq_true, false_or] at this
  rw [show (probs.zipIdx.foldl (fun acc (x : ℚ × ℕ) => match x with
      | (p, a) => if p ≥ thr then some a else acc) none)
      = probs.zipIdx.foldl (fun acc (pa : ℚ × ℕ) => if pa.1 ≥ thr then some pa.2 else acc) none from rfl]
  rw [this]
  constructor
  · rintro ⟨pa, hpa, hge⟩
    exact ⟨pa.1, (List.mem_zipIdx_iff_getElem?.mp hpa) |> fun h => List.mem_of_getElem? h, hge⟩
  · rintro ⟨p, hp, hge⟩
    obtain ⟨i, hi, rfl⟩ := List.getElem_of_mem hp
    exact ⟨(probs[i], i), by rw [List.mem_zipIdx_iff_getElem?]; simp [hi], hge⟩

/-- the number of sampled columns a fixing pattern expects -/
def nHet (fixed : List (Option ℕ)) : ℕ := (fixed.filter Option.isNone).length

/-- index of site `j` among the sampled (non-fixed) sites -/
def hetIndex (fixed : List (Option ℕ)) (j : ℕ) : ℕ := ((fixed.take j).filter Option.isNone).length

/-- **fixed SNVs reappear in the correct column with the correct allele, sampled SNVs keep their
    sampled allele**: column `j` of the re-inserted haplotype is the fixed allele if site `j` was
    fixed, and otherwise the sampled allele of that SNV (the `hetIndex`-th sampled column) -/
theorem reinsert_spec : ∀ (fixed : List (Option ℕ)) (h : Hap), h.length = nHet fixed →
    (reinsertHap fixed h).length = fixed.length ∧
    ∀ j (hj : j < fixed.length), (reinsertHap fixed h).getD j 0 =
      match fixed[j] with
      | some a => a
      | none => h.getD (hetIndex fixed j) 0 := by
  intro fixed
  induction fixed with
  | nil => intro h _; simp [reinsertHap]
  | cons f fs ih =>
    intro h hl
    cases f with
    | some a =>
      have hl' : h.length = nHet fs := by simpa [nHet] using hl
      obtain ⟨i1, i2⟩ := ih h hl'
      refine ⟨by simp [reinsertHap, i1], ?_⟩
      intro j hj
      cases j with
      | zero => simp [reinsertHap]
      | succ j =>
        have := i2 j (by simpa using hj)
        simp only [reinsertHap, List.getD_cons_succ, List.getElem_cons_succ, this]
        simp [hetIndex]
    | none =>
      cases h with
      | nil => simp [nHet] at hl
      | cons x t =>
        have hl' : t.length = nHet fs := by simpa [nHet] using hl
        obtain ⟨i1, i2⟩ := ih t hl'
        refine ⟨by simp [reinsertHap, i1], ?_⟩
        intro j hj
        cases j with
        | zero => simp [reinsertHap, hetIndex]
        | succ j =>
          have := i2 j (by simpa using hj)
          simp only [reinsertHap, List.getD_cons_succ, List.getElem_cons_succ, this]
          cases hf : fs[j]'(by simpa using hj) with
          | some a => rfl
          | none => simp [hetIndex]

/-! ### restriction to the sampled columns and its round trip with re-insertion

`restrictHap` models `x[..., heterozygous]` (the columns handed to the sampler).  Re-insertion is a right inverse
of the restriction, hence injective: two different sampled haplotypes never collapse, and the multiplicity (dosage)
of every haplotype in a genotype is the same before and after re-insertion. -/

theorem restrict_reinsert : ∀ (fixed : List (Option ℕ)) (h : Hap), h.length = nHet fixed →
    restrictHap fixed (reinsertHap fixed h) = h := by
  intro fixed
  induction fixed with
  | nil => intro h hl; simp [nHet] at hl; simp [restrictHap, hl]
  | cons f fs ih =>
    intro h hl
    cases f with
    | some a =>
      have hl' : h.length = nHet fs := by simpa [nHet] using hl
      simp [reinsertHap, restrictHap, ih h hl']
    | none =>
      cases h with
      | nil => simp [nHet] at hl
      | cons x t =>
        have hl' : t.length = nHet fs := by simpa [nHet] using hl
        simp [reinsertHap, restrictHap, ih t hl']

theorem reinsertHap_injective (fixed : List (Option ℕ)) (h h' : Hap)
    (hl : h.length = nHet fixed) (hl' : h'.length = nHet fixed)
    (e : reinsertHap fixed h = reinsertHap fixed h') : h = h' := by
  rw [← restrict_reinsert fixed h hl, ← restrict_reinsert fixed h' hl', e]

theorem reinsert_count (fixed : List (Option ℕ)) (g : Genotype) (h : Hap)
    (hg : ∀ x ∈ g, x.length = nHet fixed) (hl : h.length = nHet fixed) :
    (reinsert fixed g).count (reinsertHap fixed h) = g.count h := by
  unfold reinsert
  induction g with
  | nil => simp
  | cons x t ih =>
    have hx := hg x (by simp)
    have ih' := ih (fun y hy => hg y (by simp [hy]))
    simp only [List.map_cons, List.count_cons, ih']
    congr 1
    by_cases e : x = h
    · simp [e]
    · have : reinsertHap fixed x ≠ reinsertHap fixed h :=
        fun e' => e (reinsertHap_injective fixed x h hx hl e')
      simp [e, this]

theorem restrict_length : ∀ (fixed : List (Option ℕ)) (full : Hap), full.length = fixed.length →
    (restrictHap fixed full).length = nHet fixed := by
  intro fixed
  induction fixed with
  | nil => intro full _; simp [restrictHap, nHet]
  | cons f fs ih =>
    intro full hl
    cases full with
    | nil => simp at hl
    | cons x t =>
      have := ih t (by simpa using hl)
      cases f <;> simp [restrictHap, nHet, this]

/-- a full-length haplotype is recovered from its sampled columns exactly when it carries the fixed allele at every fixed site -/
theorem reinsert_restrict_iff : ∀ (fixed : List (Option ℕ)) (full : Hap), full.length = fixed.length →
    (reinsertHap fixed (restrictHap fixed full) = full ↔
      ∀ j (hj : j < fixed.length) a, fixed[j] = some a → full.getD j 0 = a) := by
  intro fixed
  induction fixed with
  | nil => intro full hl; simp at hl; simp [hl, reinsertHap]
  | cons f fs ih =>
    intro full hl
    cases full with
    | nil => simp at hl
    | cons x t =>
      have iht := ih t (by simpa using hl)
      cases f with
      | some a =>
        simp only [restrictHap, reinsertHap, List.cons.injEq, iht]
        constructor
        · rintro ⟨rfl, h2⟩ j hj b hb
          cases j with
          | zero => simpa using hb
          | succ j => simpa using h2 j (by simpa using hj) b (by simpa using hb)
        · intro h
          refine ⟨by simpa using (h 0 (by simp) a (by simp)).symm, ?_⟩
          intro j hj b hb
          simpa using h (j+1) (by simpa using hj) b (by simpa using hb)
      | none =>
        simp only [restrictHap, reinsertHap, List.cons.injEq, true_and, iht]
        constructor
        · intro h2 j hj b hb
          cases j with
          | zero => simp at hb
          | succ j => simpa using h2 j (by simpa using hj) b (by simpa using hb)
        · intro h j hj b hb
          simpa using h (j+1) (by simpa using hj) b (by simpa using hb)

/-- genotype level: what the sampler produced is recovered from the reported trace by dropping the fixed sites -/
theorem restrict_reinsert_genotype (fixed : List (Option ℕ)) (g : Genotype)
    (hg : ∀ x ∈ g, x.length = nHet fixed) : restrict fixed (reinsert fixed g) = g := by
  unfold restrict reinsert
  rw [List.map_map]
  conv_rhs => rw [← List.map_id g]
  exact List.map_congr_left (fun x hx => restrict_reinsert fixed x (hg x hx))

/-- re-insertion does not care about the order of the haplotypes (the trace sorts them) -/
theorem reinsert_perm (fixed : List (Option ℕ)) {g g' : Genotype} (h : g.Perm g') :
    (reinsert fixed g).Perm (reinsert fixed g') := h.map _

/-- ploidy is unchanged and every reported haplotype spans all sites of the locus -/
theorem reinsert_shape (fixed : List (Option ℕ)) (g : Genotype) (hg : ∀ x ∈ g, x.length = nHet fixed) :
    (reinsert fixed g).length = g.length ∧ ∀ y ∈ reinsert fixed g, y.length = fixed.length := by
  refine ⟨by simp [reinsert], ?_⟩
  intro y hy
  obtain ⟨x, hx, rfl⟩ := List.mem_map.mp hy
  exact (reinsert_spec fixed x (hg x hx)).1

/-- every reported haplotype carries the fixed allele at every fixed site -/
theorem reinsert_fixed_sites (fixed : List (Option ℕ)) (g : Genotype) (hg : ∀ x ∈ g, x.length = nHet fixed)
    (j : ℕ) (hj : j < fixed.length) (a : ℕ) (hf : fixed[j] = some a) :
    ∀ y ∈ reinsert fixed g, y.getD j 0 = a := by
  intro y hy
  obtain ⟨x, hx, rfl⟩ := List.mem_map.mp hy
  have := (reinsert_spec fixed x (hg x hx)).2 j hj
  rw [this, hf]

/-! ### non-vacuity -/

example : randomBreaks 6 [2, 0, 1] = some [(0, 1), (1, 3), (3, 4), (4, 6)] ∧
    fixedAllele (99/100) [1/1000, 999/1000] = some 1 ∧
    reinsert [none, some 1, none, some 0] [[1, 0], [0, 1]] = [[1, 1, 0, 0], [0, 1, 1, 0]] := by
  decide +kernel

example : restrictHap [none, some 1, none, some 0] [1, 1, 0, 0] = [1, 0] ∧
    restrict [none, some 1, none, some 0] (reinsert [none, some 1, none, some 0] [[1, 0], [0, 1]]) = [[1, 0], [0, 1]] ∧
    (reinsert [none, some 1] [[1], [1], [0]]).count [1, 1] = 2 := by
  decide +kernel
end MCHap.C15
