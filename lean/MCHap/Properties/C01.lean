import MCHap.Proofs.MH
import MCHap.Proofs.Paths
import MCHap.Proofs.IntervalRefine
import MCHap.Proofs.IntervalKernel
import MCHap.Model.AssembleMoves
import MCHap.Properties.C04
import MCHap.Proofs.Prior
import Mathlib.Analysis.SpecialFunctions.Pow.Real
import Mathlib.Data.Fintype.BigOperators

/-!
# C01 — every move of the assemble sampler leaves the tempered posterior invariant

Target on unordered genotypes: `π(G) ∝ w(G)^T`, `w = likelihood × prior` (`asmW`), `T` the chain's
inverse temperature. An ordered genotype `g` (what the code stores) carries `π(G)/perms(G)`, i.e. is
proportional to `w(g)^T · factProd g` (`factProd g = ∏ multiplicity!`).

* mutation (`base_step`): `base_step_db` / `base_step_kernel_db` — detailed balance of the
  single-slot Metropolis–Hastings move with the haplotype-copy-count proposal ratio, for every
  ploidy, allele number, duplicated-haplotype pattern and every positive weight function.
* recombination / dosage (`interval_step`): `pathwise_db` instantiated on the multiset of
  (inside-segment, outside-segment) pairs: `recomb_db`, `dosage_db`; the return-option count is
  never zero (`*_return_pos`).
* temperature exchange: `exchange_db`.
* `asmW_perm`: the weight depends on the genotype only as a multiset of haplotypes.
* `stationary_of_db`: detailed balance ⇒ stationarity (finite state space).
-/
namespace MCHap.C01
open MCHap MCHap.MH MCHap.Paths Finset

/-! ### re-exports of the shared Metropolis–Hastings lemmas under this property's name -/

theorem factProd_swap {α : Type} [DecidableEq α] (pre post : List α) (a b : α) :
    factProd (pre ++ a :: post) * (pre ++ b :: post).count b
      = factProd (pre ++ b :: post) * (pre ++ a :: post).count a := MH.factProd_swap pre post a b

theorem mh_core (p q : ℝ) (hp : 0 < p) (hq : 0 < q) :
    p * min 1 (q / p) = q * min 1 (p / q) := MH.mh_core p q hp hq

/-- detailed balance of the single-slot MH move on ordered genotypes w.r.t. `w · ∏ multiplicity!`
    (∝ `w / perms`), for any positive weight `w` -/
theorem base_step_db {α : Type} [DecidableEq α] (w : List α → ℝ) (hw : ∀ g, 0 < w g)
    (pre post : List α) (a b : α) :
    let g := pre ++ a :: post
    let g' := pre ++ b :: post
    let πo := fun x : List α => w x * (factProd x : ℝ)
    πo g * min 1 ((w g' / w g) * ((g'.count b : ℝ) / (g.count a : ℝ)))
      = πo g' * min 1 ((w g / w g') * ((g.count a : ℝ) / (g'.count b : ℝ))) :=
  MH.base_step_db w hw pre post a b

/-- the generic path-wise lemma (uniform proposal among `paths s`, acceptance
    `min 1 (π s'/π s · n s / n s')`, involutive reversal ⇒ detailed balance) -/
theorem pathwise_db {S P : Type} [DecidableEq S] [DecidableEq P]
    (paths : S → Finset P) (tgt : S → P → S) (rev : S → P → P)
    (hmem : ∀ s p, p ∈ paths s → rev s p ∈ paths (tgt s p))
    (htgt : ∀ s p, p ∈ paths s → tgt (tgt s p) (rev s p) = s)
    (hinv : ∀ s p, p ∈ paths s → rev (tgt s p) (rev s p) = p)
    (π : S → ℝ) (hπ : ∀ s, 0 < π s) (s s' : S) :
    let n := fun x => ((paths x).card : ℝ)
    let acc := fun x y => min 1 ((π y / π x) * (n x / n y))
    ∑ p ∈ (paths s).filter (fun p => tgt s p = s'), π s * (1 / n s * acc s s')
      = ∑ q ∈ (paths s').filter (fun q => tgt s' q = s), π s' * (1 / n s' * acc s' s) :=
  MH.pathwise_db paths tgt rev hmem htgt hinv π hπ s s'

/-- `List.count` does not depend on which lawful `BEq` instance is used (the model's `copies` uses the
    structural instance on `List ℕ`, the generic lemmas the one derived from `DecidableEq`) -/
theorem count_eq_of_lawful {α : Type} (i1 i2 : BEq α) [@LawfulBEq α i1] [@LawfulBEq α i2]
    (a : α) (l : List α) : @List.count α i1 a l = @List.count α i2 a l := by
  induction l with
  | nil => rfl
  | cons b l ih =>
    rw [@List.count_cons α i1, @List.count_cons α i2, ih]
    by_cases h : b = a
    · subst h; simp
    · have h1 : (@BEq.beq α i1 b a) = false := by
        cases hb : @BEq.beq α i1 b a with
        | false => rfl
        | true => exact absurd (@LawfulBEq.eq_of_beq α i1 _ _ _ hb) h
      have h2 : (@BEq.beq α i2 b a) = false := by
        cases hb : @BEq.beq α i2 b a with
        | false => rfl
        | true => exact absurd (@LawfulBEq.eq_of_beq α i2 _ _ _ hb) h
      rw [h1, h2]

/-- the code's `count_haplotype_copies` is the multiplicity used by the generic lemmas -/
theorem copies_eq_count (g : Genotype) (h : ℕ) :
    copies g h = @List.count Hap instBEqOfDecidableEq (g.getD h []) g := by
  unfold copies
  exact count_eq_of_lawful _ _ _ _

/-! ### the model's mutation kernel -/

/-- The mutation move of the model at inverse temperature `T`: the slot holding haplotype `x`
    is proposed to become `y` (one of `n` equiprobable alternatives) and accepted with probability
    `min 1 (R^T · Q)`, `R = asmW g'/asmW g`, `Q = copies(g', y)/copies(g, x)` — the code's
    `(llk_ratio + lprior_ratio)*temp + lproposal_ratio`.  Detailed balance holds w.r.t.
    `asmW^T · factProd` on ordered genotypes, for every `T`, provided both states have positive weight. -/
theorem base_step_kernel_db (P : AsmParams) (T : ℝ) (n : ℕ) (pre post : Genotype) (x y : Hap)
    (hg : 0 < asmW P (pre ++ x :: post)) (hg' : 0 < asmW P (pre ++ y :: post)) :
    (((asmW P (pre ++ x :: post) : ℚ) : ℝ) ^ T * (factProd (pre ++ x :: post) : ℝ))
      * ((1 / (n : ℝ)) * min 1
          ((((asmW P (pre ++ y :: post) : ℚ) : ℝ) / ((asmW P (pre ++ x :: post) : ℚ) : ℝ)) ^ T
            * (((@List.count Hap instBEqOfDecidableEq y (pre ++ y :: post) : ℕ) : ℝ)
                / ((@List.count Hap instBEqOfDecidableEq x (pre ++ x :: post) : ℕ) : ℝ))))
    = (((asmW P (pre ++ y :: post) : ℚ) : ℝ) ^ T * (factProd (pre ++ y :: post) : ℝ))
      * ((1 / (n : ℝ)) * min 1
          ((((asmW P (pre ++ x :: post) : ℚ) : ℝ) / ((asmW P (pre ++ y :: post) : ℚ) : ℝ)) ^ T
            * (((@List.count Hap instBEqOfDecidableEq x (pre ++ x :: post) : ℕ) : ℝ)
                / ((@List.count Hap instBEqOfDecidableEq y (pre ++ y :: post) : ℕ) : ℝ)))) := by
  have pg : (0 : ℝ) < ((asmW P (pre ++ x :: post) : ℚ) : ℝ) := by exact_mod_cast hg
  have pg' : (0 : ℝ) < ((asmW P (pre ++ y :: post) : ℚ) : ℝ) := by exact_mod_cast hg'
  by_cases hxy : x = y
  · subst hxy; rfl
  · have hne : pre ++ x :: post ≠ pre ++ y :: post := by
      intro h
      exact hxy (List.cons.inj (List.append_cancel_left h)).1
    -- weight function: `asmW^T` on the two states involved, 1 elsewhere (only two states matter)
    let w : Genotype → ℝ := fun z => if z = pre ++ x :: post then ((asmW P (pre ++ x :: post) : ℚ) : ℝ) ^ T
      else if z = pre ++ y :: post then ((asmW P (pre ++ y :: post) : ℚ) : ℝ) ^ T else 1
    have hw : ∀ z, 0 < w z := by
      intro z; simp only [w]
      split
      · exact Real.rpow_pos_of_pos pg T
      · split
        · exact Real.rpow_pos_of_pos pg' T
        · exact one_pos
    have key := MH.base_step_db w hw pre post x y
    simp only at key
    have wg : w (pre ++ x :: post) = ((asmW P (pre ++ x :: post) : ℚ) : ℝ) ^ T := by simp [w]
    have wg' : w (pre ++ y :: post) = ((asmW P (pre ++ y :: post) : ℚ) : ℝ) ^ T := by
      simp only [w]; rw [if_neg (Ne.symm hne)]; simp
    rw [wg, wg'] at key
    rw [Real.div_rpow pg'.le pg.le T, Real.div_rpow pg.le pg'.le T]
    rw [mul_left_comm _ (1 / (n : ℝ)) _, mul_left_comm _ (1 / (n : ℝ)) _, key]

/-! ### interval moves on the multiset of segment pairs -/

variable {A B : Type} [DecidableEq A] [DecidableEq B]

/-- dosage move: detailed balance w.r.t. any positive target on multisets of (inside, outside) pairs -/
theorem dosage_db (π : Multiset (A × B) → ℝ) (hπ : ∀ s, 0 < π s) (s s' : Multiset (A × B)) :
    let n := fun x => ((dPaths x).card : ℝ)
    let acc := fun x y => min 1 ((π y / π x) * (n x / n y))
    ∑ p ∈ (dPaths s).filter (fun p => dTgt s p = s'), π s * (1 / n s * acc s s')
      = ∑ q ∈ (dPaths s').filter (fun q => dTgt s' q = s), π s' * (1 / n s' * acc s' s) :=
  MH.pathwise_db dPaths dTgt dRev dosage_hmem dosage_htgt dosage_hinv π hπ s s'

/-- recombination move: idem (ordered pairs: each unordered option of the code appears twice in
    `rPaths`, in the forward and in the return count alike, so the ratio `n s / n s'` is the code's) -/
theorem recomb_db (π : Multiset (A × B) → ℝ) (hπ : ∀ s, 0 < π s) (s s' : Multiset (A × B)) :
    let n := fun x => ((rPaths x).card : ℝ)
    let acc := fun x y => min 1 ((π y / π x) * (n x / n y))
    ∑ p ∈ (rPaths s).filter (fun p => rTgt s p = s'), π s * (1 / n s * acc s s')
      = ∑ q ∈ (rPaths s').filter (fun q => rTgt s' q = s), π s' * (1 / n s' * acc s' s) :=
  MH.pathwise_db rPaths rTgt rRev recomb_hmem recomb_htgt recomb_hinv π hπ s s'

/-- the return-option count of a dosage proposal is never zero (no `log(1/0)`) -/
theorem dosage_return_pos (G : Multiset (A × B)) (p) (hp : p ∈ dPaths G) :
    0 < (dPaths (dTgt G p)).card :=
  Finset.card_pos.mpr ⟨_, dosage_hmem G p hp⟩

theorem recomb_return_pos (G : Multiset (A × B)) (p) (hp : p ∈ rPaths G) :
    0 < (rPaths (rTgt G p)).card :=
  Finset.card_pos.mpr ⟨_, recomb_hmem G p hp⟩

/-! ### the literal option enumerators refine the abstract path sets

`interval_step` works on integer label pairs (in-interval label, out-of-interval label) per
haplotype and enumerates options by double loops over haplotype indices, skipping duplicates through
`get_haplotype_dosage`.  The theorems below tie those loops (`dosagePairs`, `recombPairs`,
`*_NOptions` of the model) to the path sets `dPaths` / `rPaths` on the multiset of label pairs for
which `dosage_db` / `recomb_db` are proved: same number of options (hence the same proposal and
return probabilities `1/n`), and every literal option is an abstract path with the same target. -/

theorem dosageNOptions_eq_card (L : List (ℕ × ℕ)) :
    dosageNOptions L = (dPaths (L : Multiset (ℕ × ℕ))).card := Refine.dosageNOptions_eq_card L

theorem recombNOptions_double_eq_card (L : List (ℕ × ℕ)) :
    2 * recombNOptions L = (rPaths (L : Multiset (ℕ × ℕ))).card := Refine.recombNOptions_double_eq_card L

theorem dosagePairs_sound (L : List (ℕ × ℕ)) (h0 h1 : ℕ) (h : (h0, h1) ∈ dosagePairs L) :
    ∃ (a0 : h0 < L.length) (a1 : h1 < L.length),
      (L[h0], L[h1].1) ∈ dPaths (L : Multiset (ℕ × ℕ)) ∧
      ((L.set h0 (L[h1].1, L[h0].2) : List (ℕ × ℕ)) : Multiset (ℕ × ℕ))
        = dTgt (L : Multiset (ℕ × ℕ)) (L[h0], L[h1].1) := Refine.dosagePairs_sound L h0 h1 h

theorem dosagePairs_injective (L : List (ℕ × ℕ)) (h0 h1 k0 k1 : ℕ)
    (h : (h0, h1) ∈ dosagePairs L) (k : (k0, k1) ∈ dosagePairs L)
    (e0 : L.getD h0 (0, 0) = L.getD k0 (0, 0))
    (e1 : (L.getD h1 (0, 0)).1 = (L.getD k1 (0, 0)).1) : h0 = k0 ∧ h1 = k1 :=
  Refine.dosagePairs_injective L h0 h1 k0 k1 h k e0 e1

theorem recombPairs_sound (L : List (ℕ × ℕ)) (h0 h1 : ℕ) (h : (h0, h1) ∈ recombPairs L) :
    ∃ (a0 : h0 < L.length) (a1 : h1 < L.length),
      (L[h0], L[h1]) ∈ rPaths (L : Multiset (ℕ × ℕ)) ∧
      (((L.set h0 (L[h1].1, L[h0].2)).set h1 (L[h0].1, L[h1].2) : List (ℕ × ℕ)) : Multiset (ℕ × ℕ))
        = rTgt (L : Multiset (ℕ × ℕ)) (L[h0], L[h1]) := Refine.recombPairs_sound L h0 h1 h

/-! ### temperature exchange -/

/-- exchange between the chain at `Ti` holding weight `wi` and the hotter chain `Tj < Ti` holding `wj`:
    acceptance `min 1 ((wj/wi)^(Ti − Tj))` (the code's `exp((U_j − U_i)(T_i − T_j))`) satisfies detailed
    balance for the product target `w^Ti ⊗ w^Tj` -/
theorem exchange_db (wi wj Ti Tj : ℝ) (hi : 0 < wi) (hj : 0 < wj) :
    wi ^ Ti * wj ^ Tj * min 1 ((wj / wi) ^ (Ti - Tj))
      = wj ^ Ti * wi ^ Tj * min 1 ((wi / wj) ^ (Ti - Tj)) := by
  have hp : 0 < wi ^ Ti * wj ^ Tj := mul_pos (Real.rpow_pos_of_pos hi _) (Real.rpow_pos_of_pos hj _)
  have hq : 0 < wj ^ Ti * wi ^ Tj := mul_pos (Real.rpow_pos_of_pos hj _) (Real.rpow_pos_of_pos hi _)
  have e1 : (wj / wi) ^ (Ti - Tj) = (wj ^ Ti * wi ^ Tj) / (wi ^ Ti * wj ^ Tj) := by
    rw [Real.div_rpow hj.le hi.le, Real.rpow_sub hj, Real.rpow_sub hi]
    have := Real.rpow_pos_of_pos hi Ti; have := Real.rpow_pos_of_pos hi Tj
    have := Real.rpow_pos_of_pos hj Ti; have := Real.rpow_pos_of_pos hj Tj
    field_simp
  have e2 : (wi / wj) ^ (Ti - Tj) = (wi ^ Ti * wj ^ Tj) / (wj ^ Ti * wi ^ Tj) := by
    rw [Real.div_rpow hi.le hj.le, Real.rpow_sub hj, Real.rpow_sub hi]
    have := Real.rpow_pos_of_pos hi Ti; have := Real.rpow_pos_of_pos hi Tj
    have := Real.rpow_pos_of_pos hj Ti; have := Real.rpow_pos_of_pos hj Tj
    field_simp
  rw [e1, e2]
  exact MH.mh_core _ _ hp hq

/-! ### the weight is a function of the multiset of haplotypes -/

/-- product over the dosage vector of any `φ` with `φ 0 = 1` = product over distinct haplotypes -/
theorem prod_dosage_go (φ : ℕ → ℚ) (h0 : φ 0 = 1) : ∀ (l seen : List (List ℕ)),
    ((haplotypeDosage.go seen l).map φ).prod
      = ∏ x ∈ l.toFinset \ seen.toFinset, φ (l.count x) := by
  intro l
  induction l with
  | nil => intro seen; simp [haplotypeDosage.go]
  | cons x t ih =>
    intro seen
    simp only [haplotypeDosage.go, List.map_cons, List.prod_cons]
    rw [ih (x :: seen)]
    by_cases hx : x ∈ seen
    · have hc : seen.contains x = true := by simpa using hx
      simp only [hc, if_true, h0, one_mul]
      have e : (x :: t).toFinset \ seen.toFinset = t.toFinset \ (x :: seen).toFinset := by
        ext y; simp only [List.toFinset_cons, Finset.mem_sdiff, Finset.mem_insert, List.mem_toFinset]
        constructor
        · rintro ⟨h1 | h1, h2⟩
          · exact absurd (h1 ▸ hx) h2
          · exact ⟨h1, fun h => h.elim (fun e => h2 (e ▸ hx)) h2⟩
        · rintro ⟨h1, h2⟩
          exact ⟨Or.inr h1, fun h => h2 (Or.inr h)⟩
      rw [e]
      apply Finset.prod_congr rfl
      intro y hy
      simp only [List.toFinset_cons, Finset.mem_sdiff, Finset.mem_insert, List.mem_toFinset, not_or] at hy
      rw [List.count_cons_of_ne (Ne.symm hy.2.1)]
    · have hc : seen.contains x = false := by simpa using hx
      simp only [hc]
      have e : (x :: t).toFinset \ seen.toFinset
          = insert x (t.toFinset \ (x :: seen).toFinset) := by
        ext y; simp only [List.toFinset_cons, Finset.mem_sdiff, Finset.mem_insert, List.mem_toFinset]
        constructor
        · rintro ⟨h1 | h1, h2⟩
          · exact Or.inl h1
          · by_cases hyx : y = x
            · exact Or.inl hyx
            · exact Or.inr ⟨h1, fun h => h.elim hyx h2⟩
        · rintro (h1 | ⟨h1, h2⟩)
          · exact ⟨Or.inl h1, h1 ▸ hx⟩
          · exact ⟨Or.inr h1, fun h => h2 (Or.inr h)⟩
      rw [e, Finset.prod_insert (by simp)]
      congr 1
      apply Finset.prod_congr rfl
      intro y hy
      simp only [List.toFinset_cons, Finset.mem_sdiff, Finset.mem_insert, List.mem_toFinset, not_or] at hy
      rw [List.count_cons_of_ne (Ne.symm hy.2.1)]

theorem sum_dosage_go : ∀ (l seen : List (List ℕ)),
    (haplotypeDosage.go seen l).sum = ∑ x ∈ l.toFinset \ seen.toFinset, l.count x := by
  intro l
  induction l with
  | nil => intro seen; simp [haplotypeDosage.go]
  | cons x t ih =>
    intro seen
    simp only [haplotypeDosage.go, List.sum_cons]
    rw [ih (x :: seen)]
    by_cases hx : x ∈ seen
    · have hc : seen.contains x = true := by simpa using hx
      simp only [hc, if_true, zero_add]
      have e : (x :: t).toFinset \ seen.toFinset = t.toFinset \ (x :: seen).toFinset := by
        ext y; simp only [List.toFinset_cons, Finset.mem_sdiff, Finset.mem_insert, List.mem_toFinset]
        constructor
        · rintro ⟨h1 | h1, h2⟩
          · exact absurd (h1 ▸ hx) h2
          · exact ⟨h1, fun h => h.elim (fun e => h2 (e ▸ hx)) h2⟩
        · rintro ⟨h1, h2⟩
          exact ⟨Or.inr h1, fun h => h2 (Or.inr h)⟩
      rw [e]
      apply Finset.sum_congr rfl
      intro y hy
      simp only [List.toFinset_cons, Finset.mem_sdiff, Finset.mem_insert, List.mem_toFinset, not_or] at hy
      rw [List.count_cons_of_ne (Ne.symm hy.2.1)]
    · have hc : seen.contains x = false := by simpa using hx
      simp only [hc]
      have e : (x :: t).toFinset \ seen.toFinset
          = insert x (t.toFinset \ (x :: seen).toFinset) := by
        ext y; simp only [List.toFinset_cons, Finset.mem_sdiff, Finset.mem_insert, List.mem_toFinset]
        constructor
        · rintro ⟨h1 | h1, h2⟩
          · exact Or.inl h1
          · by_cases hyx : y = x
            · exact Or.inl hyx
            · exact Or.inr ⟨h1, fun h => h.elim hyx h2⟩
        · rintro (h1 | ⟨h1, h2⟩)
          · exact ⟨Or.inl h1, h1 ▸ hx⟩
          · exact ⟨Or.inr h1, fun h => h2 (Or.inr h)⟩
      rw [e, Finset.sum_insert (by simp)]
      congr 1
      apply Finset.sum_congr rfl
      intro y hy
      simp only [List.toFinset_cons, Finset.mem_sdiff, Finset.mem_insert, List.mem_toFinset, not_or] at hy
      rw [List.count_cons_of_ne (Ne.symm hy.2.1)]

/-- the assemble prior of the dosage vector depends only on the multiset of haplotypes -/
theorem assemblePrior_dosage_perm (U : ℕ) (F : ℚ) {g g' : Genotype} (h : g.Perm g') :
    assemblePrior U F (haplotypeDosage g) = assemblePrior U F (haplotypeDosage g') := by
  have hs : (haplotypeDosage g).sum = (haplotypeDosage g').sum := by
    unfold haplotypeDosage
    rw [sum_dosage_go, sum_dosage_go, List.toFinset_eq_of_perm _ _ h]
    exact Finset.sum_congr rfl (fun x _ => h.count_eq x)
  have hp : ∀ (φ : ℕ → ℚ), φ 0 = 1 →
      ((haplotypeDosage g).map φ).prod = ((haplotypeDosage g').map φ).prod := by
    intro φ h0
    unfold haplotypeDosage
    rw [prod_dosage_go φ h0, prod_dosage_go φ h0, List.toFinset_eq_of_perm _ _ h]
    exact Finset.prod_congr rfl (fun x _ => by rw [h.count_eq x])
  unfold assemblePrior permsOfDosage
  simp only [prodList_eq, hs]
  rw [hp (fun d => rising (alphaOf F (1 / (U : ℚ))) d / (factorial d : ℚ)) (by simp [rising, factorial])]
  -- the factorial product in `permsOfDosage`
  have hf : ((List.map factorial (haplotypeDosage g)).foldr (· * ·) 1 : ℕ)
      = (List.map factorial (haplotypeDosage g')).foldr (· * ·) 1 := by
    have e : ∀ l : List ℕ, l.foldr (· * ·) 1 = l.prod := by
      intro l; induction l with
      | nil => rfl
      | cons a l ih => simp [List.foldr, ih]
    rw [e, e]
    have := hp (fun d => (factorial d : ℚ)) (by simp [factorial])
    have c1 : (((List.map factorial (haplotypeDosage g)).prod : ℕ) : ℚ)
        = ((haplotypeDosage g).map (fun d => (factorial d : ℚ))).prod := by
      rw [Nat.cast_list_prod, List.map_map]; rfl
    have c2 : (((List.map factorial (haplotypeDosage g')).prod : ℕ) : ℚ)
        = ((haplotypeDosage g').map (fun d => (factorial d : ℚ))).prod := by
      rw [Nat.cast_list_prod, List.map_map]; rfl
    have : (((List.map factorial (haplotypeDosage g)).prod : ℕ) : ℚ)
        = (((List.map factorial (haplotypeDosage g')).prod : ℕ) : ℚ) := by rw [c1, c2, this]
    exact_mod_cast this
  rw [hf]

/-- **the posterior weight depends on the current genotype only as a multiset of haplotypes** -/
theorem asmW_perm (P : AsmParams) {g g' : Genotype} (h : g.Perm g') : asmW P g = asmW P g' := by
  unfold asmW
  rw [C04.lik_perm_haps P.reads P.nb h, assemblePrior_dosage_perm P.U P.F h]

/-! ### the exchange as a transition of the pair of chains -/

/-- the exchange permutes the pair of chain states (nothing is created or lost), the likelihood each chain
    carries afterwards is the likelihood of the state it now holds, and two accepted exchanges restore the pair -/
theorem exchangeStep_spec (L : Genotype → ℚ) (gi gj : Genotype) (accept : Bool) :
    let r := exchangeStep gi gj (L gi) (L gj) accept
    (({r.1.1, r.2.1} : Multiset Genotype) = {gi, gj}) ∧ r.1.2 = L r.1.1 ∧ r.2.2 = L r.2.1 ∧
    (accept = true → r.1.1 = gj ∧ r.2.1 = gi) ∧ (accept = false → r.1.1 = gi ∧ r.2.1 = gj) := by
  cases accept
  · simp [exchangeStep]
  · simp [exchangeStep, Multiset.pair_comm gj gi]

theorem exchangeStep_involutive (gi gj : Genotype) (li lj : ℚ) :
    let r := exchangeStep gi gj li lj true
    exchangeStep r.1.1 r.2.1 r.1.2 r.2.2 true = ((gi, li), (gj, lj)) := by
  simp [exchangeStep]

/-! ### the literal mutation kernel of the model -/

/-- the option of `base_step` that proposes allele `a` at `(h, j)` -/
def baseOpt (P : AsmParams) (g : Genotype) (h j a : ℕ) : MoveOption :=
  { target := setAlleleAt g h j a,
    R := asmW P (setAlleleAt g h j a) / asmW P g,
    Q := (copies (setAlleleAt g h j a) h : ℚ) / (copies g h : ℚ) }

theorem baseStepOptions_eq (P : AsmParams) (g : Genotype) (h j nA : ℕ) :
    baseStepOptions P g h j nA
      = ((List.range nA).filter (· ≠ alleleAt g h j)).map (baseOpt P g h j) := rfl

theorem baseStepOptions_length (P : AsmParams) (g : Genotype) (h j nA : ℕ) (hc : alleleAt g h j < nA) :
    (baseStepOptions P g h j nA).length = nA - 1 := by
  rw [baseStepOptions_eq, List.length_map]
  have : ∀ (n c : ℕ), c < n → ((List.range n).filter (· ≠ c)).length = n - 1 := by
    intro n
    induction n with
    | zero => intro c hc; omega
    | succ n ih =>
      intro c hc
      rw [List.range_succ, List.filter_append, List.length_append]
      by_cases e : c = n
      · subst e
        have h1 : (List.range c).filter (· ≠ c) = List.range c := by
          apply List.filter_eq_self.mpr
          intro x hx; have := List.mem_range.mp hx; simp; omega
        rw [h1]; simp
      · have hc' : c < n := by omega
        rw [ih c hc']
        have : ([n].filter (· ≠ c)).length = 1 := by simp [Ne.symm e]
        rw [this]; omega
  exact this nA _ hc

theorem mem_baseStepOptions (P : AsmParams) (g : Genotype) (h j nA a : ℕ) (ha : a < nA)
    (hne : a ≠ alleleAt g h j) : baseOpt P g h j a ∈ baseStepOptions P g h j nA := by
  rw [baseStepOptions_eq, List.mem_map]
  exact ⟨a, by simp [List.mem_filter, ha, hne], rfl⟩

theorem setAllele_split (g : Genotype) (h j a : ℕ) (hh : h < g.length) :
    g = g.take h ++ g[h] :: g.drop (h + 1) ∧
    setAlleleAt g h j a = g.take h ++ (g[h].set j a) :: g.drop (h + 1) := by
  constructor
  · rw [List.getElem_cons_drop hh, List.take_append_drop]
  · unfold setAlleleAt
    rw [List.getD_eq_getElem?_getD, List.getElem?_eq_getElem hh]
    simp only [Option.getD_some]
    rw [List.set_eq_take_append_cons_drop, if_pos hh]


theorem getD_row (g : Genotype) (h : ℕ) (hh : h < g.length) : g.getD h [] = g[h] := by
  simp [List.getD_eq_getElem?_getD, hh]

theorem getD_row_set (g : Genotype) (h : ℕ) (hh : h < g.length) (x : Hap) : (g.set h x).getD h [] = x := by
  simp [List.getD_eq_getElem?_getD, hh]

theorem alleleAt_setAllele (g : Genotype) (h j a : ℕ) (hh : h < g.length) (hj : j < (g[h]).length) :
    alleleAt (setAlleleAt g h j a) h j = a := by
  unfold alleleAt setAlleleAt
  rw [getD_row g h hh, getD_row_set g h hh]
  simp [List.getD_eq_getElem?_getD, hj]

theorem setAllele_setAllele (g : Genotype) (h j a : ℕ) (hh : h < g.length) (hj : j < (g[h]).length) :
    setAlleleAt (setAlleleAt g h j a) h j (alleleAt g h j) = g := by
  unfold setAlleleAt alleleAt
  rw [getD_row g h hh, getD_row_set g h hh]
  have e2 : (g[h]).getD j 0 = (g[h])[j] := by simp [List.getD_eq_getElem?_getD, hj]
  rw [e2, List.set_set, List.set_set, List.set_getElem_self, List.set_getElem_self]

/-- **mutation move (literal kernel)**: for the option list of `base_step` at slot `(h, j)`, the option
    that proposes allele `a` and the option of the resulting state that proposes the old allele back
    balance w.r.t. `asmW^T · factProd` on ordered genotypes; both lists have `n_alleles − 1` options,
    each proposed with probability `1/(n_alleles − 1)` and accepted with `min 1 (R^T · Q)`. -/
theorem base_step_literal_db (P : AsmParams) (T : ℝ) (g : Genotype) (h j nA a : ℕ)
    (hh : h < g.length) (hj : j < (g[h]).length) (ha : a < nA) (hc : alleleAt g h j < nA)
    (hne : a ≠ alleleAt g h j)
    (pg : 0 < asmW P g) (pg' : 0 < asmW P (setAlleleAt g h j a)) :
    let g' := setAlleleAt g h j a
    let o := baseOpt P g h j a
    let o' := baseOpt P g' h j (alleleAt g h j)
    o ∈ baseStepOptions P g h j nA ∧ o' ∈ baseStepOptions P g' h j nA ∧ o.target = g' ∧ o'.target = g ∧
    (((asmW P g : ℚ) : ℝ) ^ T * (factProd g : ℝ))
        * ((1 / ((baseStepOptions P g h j nA).length : ℝ)) * min 1 (((o.R : ℚ) : ℝ) ^ T * ((o.Q : ℚ) : ℝ)))
      = (((asmW P g' : ℚ) : ℝ) ^ T * (factProd g' : ℝ))
        * ((1 / ((baseStepOptions P g' h j nA).length : ℝ)) * min 1 (((o'.R : ℚ) : ℝ) ^ T * ((o'.Q : ℚ) : ℝ))) := by
  intro g' o o'
  have hcur' : alleleAt g' h j = a := alleleAt_setAllele g h j a hh hj
  have hback : setAlleleAt g' h j (alleleAt g h j) = g := setAllele_setAllele g h j a hh hj
  refine ⟨mem_baseStepOptions P g h j nA a ha hne, ?_, rfl, hback, ?_⟩
  · exact mem_baseStepOptions P g' h j nA _ hc (by rw [hcur']; exact Ne.symm hne)
  · rw [baseStepOptions_length P g h j nA hc,
      baseStepOptions_length P g' h j nA (by rw [hcur']; exact ha)]
    obtain ⟨s1, s2⟩ := setAllele_split g h j a hh
    have hx : g.getD h [] = g[h] := getD_row g h hh
    have hg' : g' = g.take h ++ (g[h].set j a) :: g.drop (h + 1) := s2
    have key := base_step_kernel_db P T (nA - 1) (g.take h) (g.drop (h + 1)) g[h] (g[h].set j a)
      (by rw [← s1]; exact pg) (by rw [← hg']; exact pg')
    have cx : @List.count Hap instBEqOfDecidableEq g[h] (g.take h ++ g[h] :: g.drop (h + 1)) = copies g h := by
      rw [copies_eq_count, hx, ← s1]
    have hy : g'.getD h [] = g[h].set j a := by
      show (setAlleleAt g h j a).getD h [] = _
      unfold setAlleleAt; rw [hx]; exact getD_row_set g h hh _
    have cy : @List.count Hap instBEqOfDecidableEq (g[h].set j a)
        (g.take h ++ (g[h].set j a) :: g.drop (h + 1)) = copies g' h := by
      rw [copies_eq_count, hy, ← hg']
    rw [cx, cy, ← s1, ← hg'] at key
    simp only [o, o', baseOpt, hback]
    push_cast
    exact key


/-! ### the literal interval kernels of the model

`intervalStepOptions` is the model of `interval_step`: segment labels of the stored rows
(`haplotype_segment_labels`), the double-loop option enumerators, `structural_change` for the target,
the posterior ratio `R`, the proposal ratio `Q = n_options / n_return_options` counted on the option's
label array.  `kernelMass` is the probability it moves from the ordered genotype it is given to an
unordered genotype; the two theorems below state detailed balance of that literal kernel w.r.t.
`asmW^T` for every inverse temperature, every interval and every pair of genotypes with positive weight. -/

/-- mass the option kernel `opts` (uniform proposal, acceptance `min 1 (R^T · Q)`) puts on the
    unordered genotype `G'` -/
noncomputable def kernelMass (T : ℝ) (opts : List MoveOption) (G' : Multiset Hap) : ℝ :=
  ((opts.filter (fun o => decide (((o.target : Genotype) : Multiset Hap) = G'))).map
    (fun o => (1 / (opts.length : ℝ)) * min 1 ((((o.R : ℚ) : ℝ)) ^ T * ((o.Q : ℚ) : ℝ)))).sum

theorem map_filter_sum_congr {α : Type} (l : List α) (p : α → Bool) (f f' : α → ℝ)
    (h : ∀ x ∈ l, p x = true → f x = f' x) : ((l.filter p).map f).sum = ((l.filter p).map f').sum := by
  congr 1
  apply List.map_congr_left
  intro x hx
  rw [List.mem_filter] at hx
  exact h x hx.1 hx.2

theorem kernelMass_dosage (P : AsmParams) (T : ℝ) (g g' : Genotype) (lo hi : ℕ)
    (pg' : 0 < asmW P g') (pg : 0 < asmW P g) :
    kernelMass T (intervalStepOptions P g lo hi 1) (g' : Multiset Hap)
      = Kernel.dosageMass (fun x => ((asmW P x : ℚ) : ℝ) ^ T) P.nb lo hi g (g' : Multiset Hap) := by
  unfold kernelMass intervalStepOptions Kernel.dosageMass
  simp only [show (1 : ℕ) ≠ 0 from one_ne_zero, if_false, List.length_map]
  rw [List.filter_map, List.map_map]
  apply map_filter_sum_congr
  intro o _ ho
  simp only [Function.comp, decide_eq_true_eq] at ho ⊢
  have hw : asmW P (structuralChange g P.nb (o.map (·.1)) lo hi) = asmW P g' :=
    asmW_perm P (Quotient.exact ho)
  have p1 : (0 : ℝ) ≤ ((asmW P g' : ℚ) : ℝ) := by exact_mod_cast pg'.le
  have p2 : (0 : ℝ) ≤ ((asmW P g : ℚ) : ℝ) := by exact_mod_cast pg.le
  unfold Kernel.tgtOf
  rw [hw]
  push_cast
  rw [Real.div_rpow p1 p2]

theorem kernelMass_recomb (P : AsmParams) (T : ℝ) (g g' : Genotype) (lo hi : ℕ)
    (pg' : 0 < asmW P g') (pg : 0 < asmW P g) :
    kernelMass T (intervalStepOptions P g lo hi 0) (g' : Multiset Hap)
      = Kernel.recombMass (fun x => ((asmW P x : ℚ) : ℝ) ^ T) P.nb lo hi g (g' : Multiset Hap) := by
  unfold kernelMass intervalStepOptions Kernel.recombMass
  simp only [if_true, List.length_map]
  rw [List.filter_map, List.map_map]
  apply map_filter_sum_congr
  intro o _ ho
  simp only [Function.comp, decide_eq_true_eq] at ho ⊢
  have hw : asmW P (structuralChange g P.nb (o.map (·.1)) lo hi) = asmW P g' :=
    asmW_perm P (Quotient.exact ho)
  have p1 : (0 : ℝ) ≤ ((asmW P g' : ℚ) : ℝ) := by exact_mod_cast pg'.le
  have p2 : (0 : ℝ) ≤ ((asmW P g : ℚ) : ℝ) := by exact_mod_cast pg.le
  unfold Kernel.tgtOf
  rw [hw]
  push_cast
  rw [Real.div_rpow p1 p2]

/-- **interval dosage swap (literal kernel)**: detailed balance w.r.t. `asmW^T` on unordered
    genotypes — for every ploidy, locus length, interval, duplicated-haplotype pattern and
    temperature; the flow out of the stored row order `g` into the multiset of `g'` equals the flow
    back, so the kernel depends on the stored order only through the multiset. -/
theorem dosage_step_kernel_db (P : AsmParams) (T : ℝ) (g g' : Genotype) (lo hi : ℕ)
    (hw : ∀ x ∈ g, x.length = P.nb) (hw' : ∀ x ∈ g', x.length = P.nb) (hlo : lo ≤ hi) (hhi : hi ≤ P.nb)
    (pg : 0 < asmW P g) (pg' : 0 < asmW P g') :
    ((asmW P g : ℚ) : ℝ) ^ T * kernelMass T (intervalStepOptions P g lo hi 1) (g' : Multiset Hap)
      = ((asmW P g' : ℚ) : ℝ) ^ T * kernelMass T (intervalStepOptions P g' lo hi 1) (g : Multiset Hap) := by
  rw [kernelMass_dosage P T g g' lo hi pg' pg, kernelMass_dosage P T g' g lo hi pg pg']
  have rg : (0 : ℝ) < ((asmW P g : ℚ) : ℝ) := by exact_mod_cast pg
  have rg' : (0 : ℝ) < ((asmW P g' : ℚ) : ℝ) := by exact_mod_cast pg'
  exact Kernel.dosage_literal_db (fun x => ((asmW P x : ℚ) : ℝ) ^ T)
    (fun a b hab => congrArg (fun x : ℚ => (x : ℝ) ^ T) (asmW_perm P hab)) g g' P.nb lo hi hw hw' hlo hhi
    (Real.rpow_pos_of_pos rg T) (Real.rpow_pos_of_pos rg' T)

/-- **interval recombination (literal kernel)**: idem -/
theorem recomb_step_kernel_db (P : AsmParams) (T : ℝ) (g g' : Genotype) (lo hi : ℕ)
    (hw : ∀ x ∈ g, x.length = P.nb) (hw' : ∀ x ∈ g', x.length = P.nb) (hlo : lo ≤ hi) (hhi : hi ≤ P.nb)
    (pg : 0 < asmW P g) (pg' : 0 < asmW P g') :
    ((asmW P g : ℚ) : ℝ) ^ T * kernelMass T (intervalStepOptions P g lo hi 0) (g' : Multiset Hap)
      = ((asmW P g' : ℚ) : ℝ) ^ T * kernelMass T (intervalStepOptions P g' lo hi 0) (g : Multiset Hap) := by
  rw [kernelMass_recomb P T g g' lo hi pg' pg, kernelMass_recomb P T g' g lo hi pg pg']
  have rg : (0 : ℝ) < ((asmW P g : ℚ) : ℝ) := by exact_mod_cast pg
  have rg' : (0 : ℝ) < ((asmW P g' : ℚ) : ℝ) := by exact_mod_cast pg'
  exact Kernel.recomb_literal_db (fun x => ((asmW P x : ℚ) : ℝ) ^ T)
    (fun a b hab => congrArg (fun x : ℚ => (x : ℝ) ^ T) (asmW_perm P hab)) g g' P.nb lo hi hw hw' hlo hhi
    (Real.rpow_pos_of_pos rg T) (Real.rpow_pos_of_pos rg' T)

/-- the literal kernel's mass on an unordered target does not depend on the stored row order -/
theorem dosage_mass_order_independent (P : AsmParams) (T : ℝ) (g₁ g₂ g' : Genotype) (lo hi : ℕ)
    (hperm : g₁.Perm g₂)
    (hw : ∀ x ∈ g₁, x.length = P.nb) (hw' : ∀ x ∈ g', x.length = P.nb) (hlo : lo ≤ hi) (hhi : hi ≤ P.nb)
    (pg : 0 < asmW P g₁) (pg' : 0 < asmW P g') :
    kernelMass T (intervalStepOptions P g₁ lo hi 1) (g' : Multiset Hap)
      = kernelMass T (intervalStepOptions P g₂ lo hi 1) (g' : Multiset Hap) := by
  have hw2 : ∀ x ∈ g₂, x.length = P.nb := fun x hx => hw x (hperm.mem_iff.mpr hx)
  have pg2 : 0 < asmW P g₂ := by rw [← asmW_perm P hperm]; exact pg
  have e1 := dosage_step_kernel_db P T g₁ g' lo hi hw hw' hlo hhi pg pg'
  have e2 := dosage_step_kernel_db P T g₂ g' lo hi hw2 hw' hlo hhi pg2 pg'
  have hq : ((g₁ : Genotype) : Multiset Hap) = (g₂ : Multiset Hap) := Quotient.sound hperm
  rw [hq] at e1
  rw [← asmW_perm P hperm] at e2
  have rg : (0 : ℝ) < ((asmW P g₁ : ℚ) : ℝ) ^ T :=
    Real.rpow_pos_of_pos (by exact_mod_cast pg) T
  have := e1.trans e2.symm
  exact mul_left_cancel₀ (ne_of_gt rg) this

/-! ### detailed balance ⇒ stationarity -/

/-- finite-state lemma giving the "consequently" clause: a kernel in detailed balance with `π`
    whose rows sum to one leaves `π` invariant -/
theorem stationary_of_db {S : Type} [Fintype S] (π : S → ℝ) (K : S → S → ℝ)
    (hrow : ∀ s, ∑ s', K s s' = 1) (hdb : ∀ s s', π s * K s s' = π s' * K s' s) (s' : S) :
    ∑ s, π s * K s s' = π s' := by
  calc ∑ s, π s * K s s' = ∑ s, π s' * K s' s := Finset.sum_congr rfl (fun s _ => hdb s s')
    _ = π s' * ∑ s, K s' s := by rw [Finset.mul_sum]
    _ = π s' := by rw [hrow, mul_one]

/-! ### sweeps and random choices of invariant moves -/

/-- a kernel leaves `π` invariant -/
def Invariant {S : Type} [Fintype S] (π : S → ℝ) (K : S → S → ℝ) : Prop :=
  ∀ s', ∑ s, π s * K s s' = π s'

/-- sequential composition of two kernels (one move, then the other) -/
def kcomp {S : Type} [Fintype S] (K₁ K₂ : S → S → ℝ) : S → S → ℝ :=
  fun s s'' => ∑ s', K₁ s s' * K₂ s' s''

theorem invariant_of_db {S : Type} [Fintype S] (π : S → ℝ) (K : S → S → ℝ)
    (hrow : ∀ s, ∑ s', K s s' = 1) (hdb : ∀ s s', π s * K s s' = π s' * K s' s) : Invariant π K :=
  stationary_of_db π K hrow hdb

/-- **a sweep of invariant moves is invariant**: whatever the order in which an iteration applies
    its elementary moves (every site of every haplotype, then the interval moves, …) -/
theorem invariant_comp {S : Type} [Fintype S] (π : S → ℝ) (K₁ K₂ : S → S → ℝ)
    (h₁ : Invariant π K₁) (h₂ : Invariant π K₂) : Invariant π (kcomp K₁ K₂) := by
  intro s''
  unfold kcomp
  calc ∑ s, π s * ∑ s', K₁ s s' * K₂ s' s''
      = ∑ s, ∑ s', π s * K₁ s s' * K₂ s' s'' := by
        apply Finset.sum_congr rfl; intro s _; rw [Finset.mul_sum]
        apply Finset.sum_congr rfl; intro s' _; ring
    _ = ∑ s', ∑ s, π s * K₁ s s' * K₂ s' s'' := Finset.sum_comm
    _ = ∑ s', (∑ s, π s * K₁ s s') * K₂ s' s'' := by
        apply Finset.sum_congr rfl; intro s' _; rw [Finset.sum_mul]
    _ = ∑ s', π s' * K₂ s' s'' := by
        apply Finset.sum_congr rfl; intro s' _; rw [h₁ s']
    _ = π s'' := h₂ s''

theorem invariant_sweep {S : Type} [Fintype S] [DecidableEq S] (π : S → ℝ) (Ks : List (S → S → ℝ))
    (h : ∀ K ∈ Ks, Invariant π K) :
    Invariant π (Ks.foldr kcomp (fun s s' => if s = s' then 1 else 0)) := by
  induction Ks with
  | nil =>
    intro s'
    simp only [List.foldr_nil]
    rw [Finset.sum_eq_single s']
    · simp
    · intro b _ hb; simp [hb]
    · intro hs; exact absurd (Finset.mem_univ s') hs
  | cons K t ih =>
    simp only [List.foldr_cons]
    exact invariant_comp π K _ (h K List.mem_cons_self) (ih (fun K' hK' => h K' (List.mem_cons_of_mem _ hK')))

/-- **a state-independent random choice between invariant moves is invariant** (the choice of the
    interval, of the slot to update, of the move type by a fixed probability) -/
theorem invariant_mix {S : Type} [Fintype S] {ι : Type} [Fintype ι] (π : S → ℝ) (p : ι → ℝ)
    (hp : ∑ i, p i = 1) (K : ι → S → S → ℝ) (h : ∀ i, Invariant π (K i)) :
    Invariant π (fun s s' => ∑ i, p i * K i s s') := by
  intro s'
  calc ∑ s, π s * ∑ i, p i * K i s s'
      = ∑ s, ∑ i, p i * (π s * K i s s') := by
        apply Finset.sum_congr rfl; intro s _; rw [Finset.mul_sum]
        apply Finset.sum_congr rfl; intro i _; ring
    _ = ∑ i, ∑ s, p i * (π s * K i s s') := Finset.sum_comm
    _ = ∑ i, p i * π s' := by
        apply Finset.sum_congr rfl; intro i _; rw [← Finset.mul_sum, h i s']
    _ = π s' := by rw [← Finset.sum_mul, hp, one_mul]

/-! ### non-vacuity -/

/-- a triploid state with a duplicated haplotype: the model kernel of the mutation move at slot 0,
    site 1 has positive weights on both sides (hypotheses of `base_step_kernel_db` are satisfiable)
    and the proposal ratio is the copy-count ratio 1/2 -/
example :
    let r1 : Read := [[some (9/10), some (1/10)], [some (1/10), some (9/10)]]
    let P : AsmParams := { reads := [(r1, 2)], nb := 2, U := 4, F := 1/10 }
    let g : Genotype := [[0, 0], [0, 0], [1, 1]]
    0 < asmW P g ∧ 0 < asmW P [[0, 1], [0, 0], [1, 1]] ∧
    (baseStepOptions P g 0 1 2).map (·.Q) = [1/2] := by
  decide +kernel

/-- the hypotheses of `dosage_step_kernel_db` / `recomb_step_kernel_db` are satisfiable with a
    non-trivial flow: from a triploid state with a duplicated haplotype the dosage kernel on the interval
    `[0,1)` has one option (proposal ratio 1/2), the reverse state has two (ratio 2 back), and the
    recombination kernel has an option as well -/
example :
    let r1 : Read := [[some (9/10), some (1/10)], [some (1/10), some (9/10)]]
    let P : AsmParams := { reads := [(r1, 2)], nb := 2, U := 4, F := 1/10 }
    let g : Genotype := [[0, 0], [0, 0], [1, 1]]
    let g' : Genotype := [[1, 0], [0, 0], [1, 1]]
    0 < asmW P g ∧ 0 < asmW P g' ∧
    (intervalStepOptions P g 0 1 1).map (fun o => (o.target, o.Q)) = [(g', 1/2)] ∧
    (intervalStepOptions P g' 0 1 1).map (fun o => (o.target, o.Q))
      = [(g, 2), ([[1, 0], [0, 0], [0, 1]], 1)] ∧
    (intervalStepOptions P g 0 1 0).map (fun o => (o.target, o.Q)) = [([[1, 0], [0, 0], [0, 1]], 1)] := by
  decide +kernel

end MCHap.C01
