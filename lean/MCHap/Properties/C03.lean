import MCHap.Properties.C02
import MCHap.Properties.C11

/-!
# C03 — call-exact reports the true normalised posterior; both code paths agree

`exactJoint` lists `likelihood × prior` for every unordered genotype in the order the enumerator
visits them, which is the VCF genotype order (`C11.enumeration_is_vcf_order`).
-/
namespace MCHap.C03
open MCHap

/-- the probabilities (GP) sum to one -/
theorem posterior_sum_one (P : CallParams) (ploidy : ℕ) (h : (exactJoint P ploidy).sum ≠ 0) :
    (exactPosterior P ploidy).sum = 1 := C02.normalise_sum_one _ h

/-- entry `i` of GP is `likelihood × prior` of the `i`-th genotype **in VCF order**, normalised over
    all unordered genotypes -/
theorem posterior_entry (P : CallParams) (ploidy n' : ℕ) (hn : P.n = n' + 1) (hp : 1 ≤ ploidy)
    (i : ℕ) (hi : i < (vcfOrder ploidy n').length) :
    (exactPosterior P ploidy).getD i 0
      = callW P ((vcfOrder ploidy n')[i]) / ((vcfOrder ploidy n').map (callW P)).sum := by
  unfold exactPosterior exactJoint normalise
  rw [hn, C11.enumeration_is_vcf_order n' ploidy hp]
  simp [List.getD_eq_getElem?_getD, List.getElem?_map, hi]

/-! ### `argmax`: first maximum, invariant under positive scaling -/

theorem argmaxFirst_go_spec : ∀ (t : List ℚ) (best : ℚ) (bi i : ℕ) (pre : List ℚ),
    pre.length = i → bi < i → pre.getD bi 0 = best → (∀ j, j < i → pre.getD j 0 ≤ best) →
    (∀ j, j < bi → pre.getD j 0 < best) →
    let r := argmaxFirst.go best bi i t
    r < (pre ++ t).length ∧ (∀ j, j < (pre ++ t).length → (pre ++ t).getD j 0 ≤ (pre ++ t).getD r 0) ∧
    (∀ j, j < r → (pre ++ t).getD j 0 < (pre ++ t).getD r 0) := by
  intro t
  induction t with
  | nil =>
    intro best bi i pre hl hb hbest hle hlt
    simp only [argmaxFirst.go, List.append_nil]
    refine ⟨by omega, ?_, ?_⟩
    · intro j hj; rw [hbest]; exact hle j (by omega)
    · intro j hj; rw [hbest]; exact hlt j hj
  | cons y t ih =>
    intro best bi i pre hl hb hbest hle hlt
    have hget : ∀ j, j < i → (pre ++ [y]).getD j 0 = pre.getD j 0 := by
      intro j hj
      simp [List.getD_eq_getElem?_getD, List.getElem?_append_left (by omega : j < pre.length)]
    have hgeti : (pre ++ [y]).getD i 0 = y := by
      simp [List.getD_eq_getElem?_getD, ← hl]
    have e : pre ++ y :: t = (pre ++ [y]) ++ t := by simp
    unfold argmaxFirst.go
    split
    · rename_i hgt
      have := ih y i (i + 1) (pre ++ [y]) (by simp [hl]) (by omega) hgeti
        (by
          intro j hj
          rcases Nat.lt_or_ge j i with h | h
          · rw [hget j h]; exact le_trans (hle j h) (le_of_lt hgt)
          · have : j = i := by omega
            rw [this, hgeti])
        (by
          intro j hj
          rw [hget j hj]; exact lt_of_le_of_lt (hle j hj) hgt)
      rw [e]; exact this
    · rename_i hngt
      have hyle : y ≤ best := not_lt.mp hngt
      have := ih best bi (i + 1) (pre ++ [y]) (by simp [hl]) (by omega)
        (by rw [hget bi hb]; exact hbest)
        (by
          intro j hj
          rcases Nat.lt_or_ge j i with h | h
          · rw [hget j h]; exact hle j h
          · have : j = i := by omega
            rw [this, hgeti]; exact hyle)
        (by intro j hj; rw [hget j (by omega)]; exact hlt j hj)
      rw [e]; exact this

/-- `np.argmax`: an index of a maximum, and the first one -/
theorem argmaxFirst_spec (l : List ℚ) (hl : l ≠ []) :
    argmaxFirst l < l.length ∧ (∀ j, j < l.length → l.getD j 0 ≤ l.getD (argmaxFirst l) 0) ∧
    (∀ j, j < argmaxFirst l → l.getD j 0 < l.getD (argmaxFirst l) 0) := by
  cases l with
  | nil => exact absurd rfl hl
  | cons x t =>
    have := argmaxFirst_go_spec t x 0 1 [x] rfl (by omega) (by simp)
      (by intro j hj; have : j = 0 := by omega
          subst this; simp)
      (by intro j hj; omega)
    simpa [argmaxFirst] using this

/-- a first maximum is unique: two indices that are both "maximal and strictly above everything
    before" coincide -/
theorem first_max_unique (l : List ℚ) (i j : ℕ) (hi : i < l.length) (hj : j < l.length)
    (hmi : ∀ k, k < l.length → l.getD k 0 ≤ l.getD i 0) (hfi : ∀ k, k < i → l.getD k 0 < l.getD i 0)
    (hmj : ∀ k, k < l.length → l.getD k 0 ≤ l.getD j 0) (hfj : ∀ k, k < j → l.getD k 0 < l.getD j 0) :
    i = j := by
  rcases lt_trichotomy i j with h | h | h
  · have := hfj i h; have := hmi j hj; linarith
  · exact h
  · have := hfi j h; have := hmj i hi; linarith

/-- the reported genotype is a maximiser of the posterior -/
theorem mode_is_max (P : CallParams) (ploidy : ℕ) (hne : exactPosterior P ploidy ≠ []) (j : ℕ)
    (hj : j < (exactPosterior P ploidy).length) :
    (exactPosterior P ploidy).getD j 0 ≤ (arrayCall P ploidy).2 := by
  unfold arrayCall
  exact (argmaxFirst_spec _ hne).2.1 j hj

/-! ### the streaming path and the array path agree -/

theorem streamMode_go_spec : ∀ (t : List ℚ) (mi : ℕ) (mv total : ℚ) (i : ℕ) (pre : List ℚ),
    pre.length = i → mi < i → pre.getD mi 0 = mv → pre.sum = total →
    (∀ j, j < i → pre.getD j 0 ≤ mv) → (∀ j, j < mi → pre.getD j 0 < mv) →
    ∃ ri rv, streamMode.go (some (mi, mv)) total i t = (some (ri, rv), (pre ++ t).sum) ∧
      ri < (pre ++ t).length ∧ (pre ++ t).getD ri 0 = rv ∧
      (∀ j, j < (pre ++ t).length → (pre ++ t).getD j 0 ≤ rv) ∧
      (∀ j, j < ri → (pre ++ t).getD j 0 < rv) := by
  intro t
  induction t with
  | nil =>
    intro mi mv total i pre hl hb hbest hsum hle hlt
    refine ⟨mi, mv, by simp [streamMode.go, hsum], by simp; omega, by simpa using hbest, ?_, ?_⟩
    · intro j hj; simp at hj ⊢; exact hle j (by omega)
    · intro j hj; simp; exact hlt j hj
  | cons y t ih =>
    intro mi mv total i pre hl hb hbest hsum hle hlt
    have hget : ∀ j, j < i → (pre ++ [y]).getD j 0 = pre.getD j 0 := by
      intro j hj
      simp [List.getD_eq_getElem?_getD, List.getElem?_append_left (by omega : j < pre.length)]
    have hgeti : (pre ++ [y]).getD i 0 = y := by
      simp [List.getD_eq_getElem?_getD, ← hl]
    have e : pre ++ y :: t = (pre ++ [y]) ++ t := by simp
    have hs' : (pre ++ [y]).sum = total + y := by simp [hsum]
    unfold streamMode.go
    simp only
    by_cases hgt : y > mv
    · simp only [hgt, if_true]
      have := ih i y (total + y) (i + 1) (pre ++ [y]) (by simp [hl]) (by omega) hgeti hs'
        (by
          intro j hj
          rcases Nat.lt_or_ge j i with h | h
          · rw [hget j h]; exact le_trans (hle j h) (le_of_lt hgt)
          · have : j = i := by omega
            rw [this, hgeti])
        (by intro j hj; rw [hget j hj]; exact lt_of_le_of_lt (hle j hj) hgt)
      rw [e]; exact this
    · simp only [hgt, if_false]
      have hyle : y ≤ mv := not_lt.mp hgt
      have := ih mi mv (total + y) (i + 1) (pre ++ [y]) (by simp [hl]) (by omega)
        (by rw [hget mi hb]; exact hbest) hs'
        (by
          intro j hj
          rcases Nat.lt_or_ge j i with h | h
          · rw [hget j h]; exact hle j h
          · have : j = i := by omega
            rw [this, hgeti]; exact hyle)
        (by intro j hj; rw [hget j (by omega)]; exact hlt j hj)
      rw [e]; exact this

/-- the streaming pass returns the first maximum of the joint and the total -/
theorem streamMode_spec (l : List ℚ) (hl : l ≠ []) :
    (streamMode l).2.2 = l.sum ∧ (streamMode l).1 < l.length ∧
    l.getD (streamMode l).1 0 = (streamMode l).2.1 ∧
    (∀ j, j < l.length → l.getD j 0 ≤ (streamMode l).2.1) ∧
    (∀ j, j < (streamMode l).1 → l.getD j 0 < (streamMode l).2.1) := by
  cases l with
  | nil => exact absurd rfl hl
  | cons x t =>
    obtain ⟨ri, rv, h1, h2, h3, h4, h5⟩ := streamMode_go_spec t 0 x (0 + x) 1 [x] rfl (by omega)
      (by simp) (by simp)
      (by intro j hj; have : j = 0 := by omega
          subst this; simp)
      (by intro j hj; omega)
    have hrun : streamMode.go none 0 0 (x :: t) = (some (ri, rv), ([x] ++ t).sum) := by
      rw [streamMode.go]; exact h1
    unfold streamMode
    rw [hrun]
    exact ⟨by simp, by simpa using h2, by simpa using h3, by simpa using h4, by simpa using h5⟩

theorem getD_normalise (l : List ℚ) (j : ℕ) : (normalise l).getD j 0 = l.getD j 0 / l.sum := by
  unfold normalise
  by_cases h : j < l.length
  · simp [List.getD_eq_getElem?_getD, List.getElem?_map, h]
  · simp [List.getD_eq_getElem?_getD, List.getElem?_map, List.getElem?_eq_none (by omega : l.length ≤ j)]

/-- **report independence (GT and GPM)**: in exact arithmetic the low-memory streaming path and
    the full-array path (taken when GP or GL is requested) report the same genotype index and the
    same probability, whenever the normalising constant is positive -/
theorem stream_eq_array (P : CallParams) (ploidy : ℕ) (hne : exactJoint P ploidy ≠ [])
    (hpos : 0 < (exactJoint P ploidy).sum) : streamCall P ploidy = arrayCall P ploidy := by
  obtain ⟨hs1, hs2, hs3, hs4, hs5⟩ := streamMode_spec (exactJoint P ploidy) hne
  have hne' : exactPosterior P ploidy ≠ [] := by
    unfold exactPosterior normalise; simpa using hne
  obtain ⟨ha1, ha2, ha3⟩ := argmaxFirst_spec (exactPosterior P ploidy) hne'
  have hlen : (exactPosterior P ploidy).length = (exactJoint P ploidy).length := by
    simp [exactPosterior, normalise]
  set l := exactJoint P ploidy with hl
  set s := l.sum with hsdef
  -- transfer the array-path facts to the joint (divide by the positive total)
  have hidx : (streamMode l).1 = argmaxFirst (exactPosterior P ploidy) := by
    apply first_max_unique l _ _ hs2 (by rw [← hlen]; exact ha1)
    · intro k hk; rw [hs3]; exact hs4 k hk
    · intro k hk; rw [hs3]; exact hs5 k hk
    · intro k hk
      have := ha2 k (by rw [hlen]; exact hk)
      rw [show exactPosterior P ploidy = normalise l from rfl, getD_normalise, getD_normalise] at this
      exact (div_le_div_iff_of_pos_right hpos).mp this
    · intro k hk
      have := ha3 k hk
      rw [show exactPosterior P ploidy = normalise l from rfl, getD_normalise, getD_normalise] at this
      exact (div_lt_div_iff_of_pos_right hpos).mp this
  unfold streamCall arrayCall
  generalize hsm : streamMode l = sm at hs1 hs2 hs3 hs4 hs5 hidx
  obtain ⟨mi, mv, total⟩ := sm
  simp only at hs1 hs2 hs3 hidx ⊢
  rw [← hidx, show exactPosterior P ploidy = normalise l from rfl, getD_normalise, hs3, hs1]

/-! ### non-vacuity / concrete instance: all reported statistics are consistent -/

example :
    let r1 : Read := [[some (9/10), some (1/10)], [some (1/10), some (9/10)]]
    let r2 : Read := [[some (1/10), some (9/10)], [none, none]]
    let P : CallParams := { reads := [(r1, 2), (r2, 1)], nb := 2, haps := [[0, 0], [0, 1], [1, 1]],
                            F := 1/10, freqs := some [1/2, 1/4, 1/4] }
    (exactPosterior P 4).sum = 1 ∧ streamCall P 4 = arrayCall P 4 ∧
    (alleleFreqs P 4).sum = 1 ∧ (alleleCounts P 4).sum = 4 ∧
    (arrayCall P 4).2 ≤ supportProb P 4 (indexGenotype (arrayCall P 4).1 4) ∧
    supportProb P 4 (indexGenotype (arrayCall P 4).1 4) ≤ 1 := by
  decide +kernel

end MCHap.C03

/-! ### allele-level statistics: AFP sums to one, ACP to the ploidy; GPM ≤ SPM ≤ 1 -/
namespace MCHap.C03
open MCHap

/-- exchange of two finite sums over lists -/
theorem sum_comm_lists {α β : Type} (la : List α) (lb : List β) (f : α → β → ℚ) :
    (la.map (fun a => (lb.map (fun b => f a b)).sum)).sum
      = (lb.map (fun b => (la.map (fun a => f a b)).sum)).sum := by
  induction la with
  | nil => simp
  | cons a t ih =>
    simp only [List.map_cons, List.sum_cons, ih]
    rw [← List.sum_map_add]

theorem enum_mem (P : CallParams) (ploidy n' : ℕ) (hn : P.n = n' + 1) (hp : 1 ≤ ploidy) (g : List ℕ)
    (hg : g ∈ enumGenotypes P.n ploidy) : g.length = ploidy ∧ ∀ x ∈ g, x < P.n := by
  rw [hn, C11.enumeration_is_vcf_order n' ploidy hp] at hg
  obtain ⟨h1, _, h3⟩ := vcfOrder_mem ploidy n' g hg
  exact ⟨h1, fun x hx => by rw [hn]; exact Nat.lt_succ_of_le (h3 x hx)⟩

theorem zip_post_sum (P : CallParams) (ploidy : ℕ) :
    (((enumGenotypes P.n ploidy).zip (exactPosterior P ploidy)).map (fun gp => gp.2)).sum
      = (exactPosterior P ploidy).sum := by
  have hl : (exactPosterior P ploidy).length = (enumGenotypes P.n ploidy).length := by
    simp [exactPosterior, normalise, exactJoint]
  rw [← List.unzip_snd, List.unzip_zip (by omega)]

/-- **ACP sums to the ploidy** -/
theorem acp_sum_ploidy (P : CallParams) (ploidy n' : ℕ) (hn : P.n = n' + 1) (hp : 1 ≤ ploidy)
    (hs : (exactPosterior P ploidy).sum = 1) : (alleleCounts P ploidy).sum = ploidy := by
  unfold alleleCounts
  simp only
  rw [sum_comm_lists (List.range P.n) ((enumGenotypes P.n ploidy).zip (exactPosterior P ploidy))
    (fun a gp => gp.2 * ((gp.1.count a : ℕ) : ℚ))]
  have : ∀ gp ∈ (enumGenotypes P.n ploidy).zip (exactPosterior P ploidy),
      ((List.range P.n).map (fun a => gp.2 * ((gp.1.count a : ℕ) : ℚ))).sum = gp.2 * ploidy := by
    intro gp hgp
    obtain ⟨hlen, hlt⟩ := enum_mem P ploidy n' hn hp gp.1 (List.of_mem_zip hgp).1
    rw [List.sum_map_mul_left, C05.sum_count_range P.n gp.1 hlt, hlen]
  rw [List.map_congr_left this, List.sum_map_mul_right, zip_post_sum, hs, one_mul]

/-- **AFP sums to one** -/
theorem afp_sum_one (P : CallParams) (ploidy n' : ℕ) (hn : P.n = n' + 1) (hp : 1 ≤ ploidy)
    (hs : (exactPosterior P ploidy).sum = 1) : (alleleFreqs P ploidy).sum = 1 := by
  unfold alleleFreqs
  have : (alleleCounts P ploidy).map (· / (ploidy : ℚ))
      = (alleleCounts P ploidy).map (· * (ploidy : ℚ)⁻¹) := by
    apply List.map_congr_left; intro x _; exact div_eq_mul_inv _ _
  rw [this, List.sum_map_mul_right, List.map_id', acp_sum_ploidy P ploidy n' hn hp hs]
  have : (ploidy : ℚ) ≠ 0 := by positivity
  field_simp

/-- sum of a sub-selection of non-negative terms is at most the whole sum and at least any
    selected term -/
theorem filter_sum_bounds {α : Type} (l : List (α × ℚ)) (sel : α × ℚ → Bool)
    (hnn : ∀ x ∈ l, 0 ≤ x.2) :
    (l.filter sel).foldr (fun gp acc => gp.2 + acc) 0 ≤ (l.map (·.2)).sum ∧
    ∀ x ∈ l, sel x = true → x.2 ≤ (l.filter sel).foldr (fun gp acc => gp.2 + acc) 0 := by
  induction l with
  | nil => simp
  | cons y t ih =>
    have hy : 0 ≤ y.2 := hnn y (by simp)
    obtain ⟨i1, i2⟩ := ih (fun x hx => hnn x (List.mem_cons_of_mem _ hx))
    have hrest : 0 ≤ (t.filter sel).foldr (fun gp acc => gp.2 + acc) 0 := by
      have : ∀ l' : List (α × ℚ), (∀ x ∈ l', 0 ≤ x.2) → 0 ≤ l'.foldr (fun gp acc => gp.2 + acc) 0 := by
        intro l'; induction l' with
        | nil => intro _; simp
        | cons z r ihr =>
          intro h
          simp only [List.foldr]
          have := h z (by simp)
          have := ihr (fun x hx => h x (List.mem_cons_of_mem _ hx))
          linarith
      exact this _ (fun x hx => hnn x (List.mem_cons_of_mem _ (List.mem_of_mem_filter hx)))
    by_cases hsel : sel y = true
    · simp only [List.filter, hsel, List.foldr, List.map_cons, List.sum_cons]
      refine ⟨by linarith, ?_⟩
      intro x hx hsx
      rcases List.mem_cons.mp hx with h | h
      · rw [h]; linarith
      · have := i2 x h hsx; linarith
    · have hsel' : sel y = false := by simpa using hsel
      simp only [List.filter, hsel', List.map_cons, List.sum_cons]
      refine ⟨by linarith, ?_⟩
      intro x hx hsx
      rcases List.mem_cons.mp hx with h | h
      · rw [h] at hsx; rw [hsx] at hsel'; cases hsel'
      · exact i2 x h hsx

theorem sameSupport_refl (g : List ℕ) : sameSupport g g = true := by
  unfold sameSupport
  simp only [Bool.and_self]
  rw [List.all_eq_true]
  intro x hx
  simpa using hx

/-- **GPM ≤ SPM ≤ 1**: the probability `q` of any genotype `g` of the posterior (in particular the
    reported one) is at most the total probability of the genotypes sharing its set of distinct
    alleles, which is at most one — whenever the posterior entries are non-negative and sum to one -/
theorem gpm_le_spm_le_one (P : CallParams) (ploidy : ℕ)
    (hnn : ∀ q ∈ exactPosterior P ploidy, 0 ≤ q) (hs : (exactPosterior P ploidy).sum = 1)
    (g : List ℕ) (q : ℚ)
    (hmem : (g, q) ∈ (enumGenotypes P.n ploidy).zip (exactPosterior P ploidy)) :
    q ≤ supportProb P ploidy g ∧ supportProb P ploidy g ≤ 1 := by
  have hz : ∀ x ∈ (enumGenotypes P.n ploidy).zip (exactPosterior P ploidy), 0 ≤ x.2 :=
    fun x hx => hnn x.2 (List.of_mem_zip hx).2
  obtain ⟨b1, b2⟩ := filter_sum_bounds ((enumGenotypes P.n ploidy).zip (exactPosterior P ploidy))
    (fun gp => sameSupport gp.1 g) hz
  unfold supportProb
  simp only
  constructor
  · exact b2 (g, q) hmem (sameSupport_refl g)
  · have : (((enumGenotypes P.n ploidy).zip (exactPosterior P ploidy)).map (·.2)).sum = 1 := by
      rw [zip_post_sum]; exact hs
    rw [← this]; exact b1

/-! ### non-negativity from the inputs -/

/-- every called cell of every read is a probability-like number `≥ 0` -/
def ReadsNonneg (rs : Reads) : Prop :=
  ∀ rc ∈ rs, ∀ row ∈ rc.1, ∀ v ∈ row, ∀ x : ℚ, v = some x → 0 ≤ x

theorem cell_nonneg (r : Read) (hr : ∀ row ∈ r, ∀ v ∈ row, ∀ x : ℚ, v = some x → 0 ≤ x) (j a : ℕ) :
    0 ≤ cell r j a := by
  unfold cell
  split
  · exact zero_le_one
  · rename_i v hv
    by_cases hj : j < r.length
    · have e1 : r.getD j [] = r[j] := by simp [List.getD_eq_getElem?_getD, hj]
      rw [e1] at hv
      by_cases ha : a < (r[j]).length
      · have e2 : (r[j]).getD a none = (r[j])[a] := by simp [List.getD_eq_getElem?_getD, ha]
        rw [e2] at hv
        exact hr _ (List.getElem_mem hj) _ (List.getElem_mem ha) v hv
      · have : (r[j]).getD a none = none := by
          simp [List.getD_eq_getElem?_getD, List.getElem?_eq_none (by omega : (r[j]).length ≤ a)]
        rw [this] at hv; cases hv
    · have : r.getD j [] = [] := by
        simp [List.getD_eq_getElem?_getD, List.getElem?_eq_none (by omega : r.length ≤ j)]
      rw [this] at hv
      simp at hv

theorem hapProbF_nonneg (r : Read) (hr : ∀ row ∈ r, ∀ v ∈ row, ∀ x : ℚ, v = some x → 0 ≤ x)
    (nb : ℕ) (f : ℕ → ℕ) : 0 ≤ hapProbF r nb f := by
  unfold hapProbF
  induction (List.range nb) with
  | nil => simp
  | cons j t ih => simp only [List.foldr_cons]; exact mul_nonneg (cell_nonneg r hr _ _) ih

theorem sum_nonneg' (l : List ℚ) (h : ∀ x ∈ l, 0 ≤ x) : 0 ≤ l.sum := by
  induction l with
  | nil => simp
  | cons a t ih =>
    rw [List.sum_cons]
    exact add_nonneg (h a List.mem_cons_self) (ih (fun x hx => h x (List.mem_cons_of_mem _ hx)))

theorem readProb_nonneg (r : Read) (hr : ∀ row ∈ r, ∀ v ∈ row, ∀ x : ℚ, v = some x → 0 ≤ x)
    (nb : ℕ) (g : Genotype) : 0 ≤ readProb r nb g := by
  unfold readProb
  apply sum_nonneg'
  intro x hx
  rw [List.mem_map] at hx
  obtain ⟨h, _, rfl⟩ := hx
  exact div_nonneg (hapProbF_nonneg r hr nb _) (by positivity)

theorem lik_nonneg (rs : Reads) (hrs : ReadsNonneg rs) (nb : ℕ) (g : Genotype) : 0 ≤ lik rs nb g := by
  unfold lik
  induction rs with
  | nil => simp
  | cons rc t ih =>
    simp only [List.foldr_cons]
    apply mul_nonneg
    · exact pow_nonneg (readProb_nonneg rc.1 (hrs rc List.mem_cons_self) nb g) _
    · exact ih (fun x hx => hrs x (List.mem_cons_of_mem _ hx))

theorem rising_nonneg (a : ℚ) (ha : 0 ≤ a) (k : ℕ) : 0 ≤ rising a k := by
  induction k with
  | zero => simp [rising]
  | succ k ih => simp only [rising]; exact mul_nonneg ih (by positivity)

theorem prodList_nonneg (l : List ℚ) (h : ∀ x ∈ l, 0 ≤ x) : 0 ≤ prodList l := by
  unfold prodList
  induction l with
  | nil => simp
  | cons a t ih =>
    simp only [List.foldr_cons]
    exact mul_nonneg (h a List.mem_cons_self) (ih (fun x hx => h x (List.mem_cons_of_mem _ hx)))

theorem dmCounts_nonneg (alphas : List ℚ) (h : ∀ a ∈ alphas, 0 ≤ a) (c : List ℕ) :
    0 ≤ dmCounts alphas c := by
  unfold dmCounts
  simp only
  apply mul_nonneg
  · exact div_nonneg (by positivity) (rising_nonneg _ (sum_nonneg' _ h) _)
  · apply prodList_nonneg
    intro x hx
    rw [List.mem_map] at hx
    obtain ⟨ac, hac, rfl⟩ := hx
    exact div_nonneg (rising_nonneg _ (h _ (List.of_mem_zip hac).1) _) (by positivity)

theorem multinomialCounts_nonneg (fs : List ℚ) (h : ∀ a ∈ fs, 0 ≤ a) (c : List ℕ) :
    0 ≤ multinomialCounts fs c := by
  unfold multinomialCounts
  apply mul_nonneg (by positivity)
  apply prodList_nonneg
  intro x hx
  rw [List.mem_map] at hx
  obtain ⟨fc, hfc, rfl⟩ := hx
  exact div_nonneg (pow_nonneg (h _ (List.of_mem_zip hfc).1) _) (by positivity)

/-- prior frequencies are non-negative (flat frequencies always are) -/
def FreqsNonneg (freqs : Option (List ℚ)) : Prop :=
  match freqs with
  | none => True
  | some fs => ∀ f ∈ fs, 0 ≤ f

theorem freqOf_nonneg (n : ℕ) (freqs : Option (List ℚ)) (hf : FreqsNonneg freqs) (a : ℕ) :
    0 ≤ freqOf n freqs a := by
  unfold freqOf
  cases freqs with
  | none => simp only; positivity
  | some fs =>
    simp only
    by_cases ha : a < fs.length
    · have : fs.getD a 0 = fs[a] := by simp [List.getD_eq_getElem?_getD, ha]
      rw [this]; exact hf _ (List.getElem_mem ha)
    · have : fs.getD a 0 = 0 := by
        simp [List.getD_eq_getElem?_getD, List.getElem?_eq_none (by omega : fs.length ≤ a)]
      rw [this]

theorem callPrior_nonneg (n : ℕ) (F : ℚ) (hF0 : 0 ≤ F) (hF1 : F ≤ 1) (freqs : Option (List ℚ))
    (hf : FreqsNonneg freqs) (g : List ℕ) : 0 ≤ callPrior n F freqs g := by
  unfold callPrior
  simp only
  split
  · apply multinomialCounts_nonneg
    intro a ha
    rw [List.mem_map] at ha
    obtain ⟨i, _, rfl⟩ := ha
    exact freqOf_nonneg n freqs hf i
  · apply dmCounts_nonneg
    intro a ha
    rw [List.mem_map] at ha
    obtain ⟨f, hf', rfl⟩ := ha
    rw [List.mem_map] at hf'
    obtain ⟨i, _, rfl⟩ := hf'
    unfold alphaOf
    exact mul_nonneg (freqOf_nonneg n freqs hf i) (div_nonneg (by linarith) hF0)

theorem callW_nonneg (P : CallParams) (hr : ReadsNonneg P.reads) (hF0 : 0 ≤ P.F) (hF1 : P.F ≤ 1)
    (hf : FreqsNonneg P.freqs) (a : List ℕ) : 0 ≤ callW P a := by
  unfold callW likAlleles
  exact mul_nonneg (lik_nonneg _ hr _ _) (callPrior_nonneg _ _ hF0 hF1 _ hf _)

/-- **every entry of the reported posterior is non-negative** for reads with non-negative cell
    probabilities, `0 ≤ F ≤ 1` and non-negative prior frequencies -/
theorem posterior_nonneg (P : CallParams) (ploidy : ℕ) (hr : ReadsNonneg P.reads) (hF0 : 0 ≤ P.F)
    (hF1 : P.F ≤ 1) (hf : FreqsNonneg P.freqs) : ∀ q ∈ exactPosterior P ploidy, 0 ≤ q := by
  intro q hq
  unfold exactPosterior normalise at hq
  rw [List.mem_map] at hq
  obtain ⟨x, hx, rfl⟩ := hq
  have hj : ∀ y ∈ exactJoint P ploidy, 0 ≤ y := by
    intro y hy
    unfold exactJoint at hy
    rw [List.mem_map] at hy
    obtain ⟨a, _, rfl⟩ := hy
    exact callW_nonneg P hr hF0 hF1 hf a
  exact div_nonneg (hj x hx) (sum_nonneg' _ hj)

/-- `GPM ≤ SPM ≤ 1` from the inputs alone: non-negative read probabilities and prior, and a
    genotype space on which the posterior is defined (non-zero total) -/
theorem gpm_le_spm_le_one_of_inputs (P : CallParams) (ploidy : ℕ) (hr : ReadsNonneg P.reads)
    (hF0 : 0 ≤ P.F) (hF1 : P.F ≤ 1) (hf : FreqsNonneg P.freqs)
    (hne : (exactJoint P ploidy).sum ≠ 0) (g : List ℕ) (q : ℚ)
    (hmem : (g, q) ∈ (enumGenotypes P.n ploidy).zip (exactPosterior P ploidy)) :
    q ≤ supportProb P ploidy g ∧ supportProb P ploidy g ≤ 1 :=
  gpm_le_spm_le_one P ploidy (posterior_nonneg P ploidy hr hF0 hF1 hf)
    (posterior_sum_one P ploidy hne) g q hmem

end MCHap.C03
