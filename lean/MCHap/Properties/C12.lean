import MCHap.Model.Loci
import MCHap.Proofs.Loci
import Mathlib.Data.List.Basic
import Mathlib.Data.List.Nodup
import Mathlib.Data.List.Range
import Mathlib.Tactic

/-!
# C12 — haplotype encode / decode round trip

`fromRecord ref alts` is `LocusPrior.from_variant_record` (SNV columns = columns where some sequence
differs from REF, alleles numbered by first appearance with REF first), `encodeHaplotypes` is
`LocusPrior.encode_haplotypes`, `formatHaplotypes` is `Locus.format_haplotypes`.
All statements are about every reference window and every list of equal-length ALT sequences over any
characters (records without ALT and records whose ALTs equal REF included).
-/
namespace MCHap.C12
open MCHap

/-- the record is accepted exactly when every ALT has the length of REF (else `AssertionError`) -/
theorem fromRecord_isSome_iff (ref : Seq) (alts : List Seq) :
    (fromRecord ref alts).isSome ↔ ∀ a ∈ alts, a.length = ref.length := by
  unfold fromRecord
  by_cases h : (alts.all fun a => a.length == ref.length) = true
  · simp only [h, if_true, Option.isSome_some, true_iff]
    simpa [List.all_eq_true] using h
  · simp only [h, Bool.false_eq_true, if_false, Option.isSome_none, false_iff]
    intro hall
    apply h
    simpa [List.all_eq_true] using hall

theorem fromRecord_eq {ref : Seq} {alts : List Seq} (h : ∀ a ∈ alts, a.length = ref.length) :
    fromRecord ref alts
      = some { sequence := ref, variants := deriveVariants ref alts, alts := alts } := by
  unfold fromRecord
  have : (alts.all fun a => a.length == ref.length) = true := by
    simpa [List.all_eq_true] using h
  simp [this]

/-- recovered SNV positions: exactly the columns (in increasing order) at which some ALT differs from REF -/
theorem snvColumns_spec (ref : Seq) (alts : List Seq) :
    (snvColumns ref alts).Pairwise (· < ·) ∧
    ∀ j, j ∈ snvColumns ref alts ↔ j < ref.length ∧ ∃ s ∈ alts, charAt s j ≠ charAt ref j :=
  ⟨snvColumns_sorted ref alts, fun _ => mem_snvColumns⟩

/-- at every recovered SNV the REF base is allele 0 -/
theorem ref_is_allele_zero (ref : Seq) (alts : List Seq) :
    ∀ v ∈ deriveVariants ref alts,
      v.2.head? = some (charAt ref v.1) ∧ allelicIndex v.2 (charAt ref v.1) = 0 := by
  intro v hv
  obtain ⟨j, _, rfl⟩ := List.mem_map.mp hv
  constructor
  · simp [firstAppearanceAlleles, column, firstAppearance]
  · simp only [firstAppearanceAlleles, column, List.map_cons, firstAppearance]
    exact alleleIndex_head _ _

/-- the allele tuple of a recovered SNV has no repeated character and holds exactly the bases seen in
    that column; it has at least two alleles -/
theorem alleles_nodup (ref : Seq) (alts : List Seq) :
    ∀ v ∈ deriveVariants ref alts,
      v.2.Nodup ∧ (∀ c, c ∈ v.2 ↔ ∃ s ∈ ref :: alts, charAt s v.1 = c) ∧ 2 ≤ v.2.length := by
  intro v hv
  obtain ⟨j, hj, rfl⟩ := List.mem_map.mp hv
  refine ⟨nodup_firstAppearance _, ?_, ?_⟩
  · intro c
    simp only [firstAppearanceAlleles, mem_firstAppearance, column, List.mem_map]
  · obtain ⟨_, s, hs, hne⟩ := mem_snvColumns.mp hj
    have h1 : charAt ref j ∈ firstAppearanceAlleles ref alts j := charAt_mem_alleles (by simp) j
    have h2 : charAt s j ∈ firstAppearanceAlleles ref alts j :=
      charAt_mem_alleles (List.mem_cons_of_mem _ hs) j
    have hnd : (firstAppearanceAlleles ref alts j).Nodup := nodup_firstAppearance _
    have hsub : [charAt s j, charAt ref j].Subperm (firstAppearanceAlleles ref alts j) := by
      apply List.subperm_of_subset
      · simp [hne]
      · intro x hx
        simp only [List.mem_cons, List.not_mem_nil, or_false] at hx
        rcases hx with rfl | rfl <;> assumption
    simpa using hsub.length_le

theorem encodeHaplotypes_eq {ref : Seq} {alts : List Seq} (h : ∀ a ∈ alts, a.length = ref.length) :
    encodeHaplotypes { sequence := ref, variants := deriveVariants ref alts, alts := alts }
      = some ((ref :: alts).map (fun s =>
          (deriveVariants ref alts).map (fun v => allelicIndex v.2 (charAt s v.1)))) := by
  unfold encodeHaplotypes encodeWith
  have : ((ref :: alts).all fun s => (deriveVariants ref alts).all fun v => decide (v.1 < s.length)) = true := by
    simp only [List.all_eq_true, decide_eq_true_eq]
    intro s hs v hv
    obtain ⟨j, hj, rfl⟩ := List.mem_map.mp hv
    have hlen : s.length = ref.length := by
      rcases List.mem_cons.mp hs with rfl | hs
      · rfl
      · exact h s hs
    rw [hlen]
    exact (mem_snvColumns.mp hj).1
  simp only [this, if_true]

/-- every encoded allele is a valid index into its SNV's allele tuple (no gap `-1` is produced),
    one row per sequence and one entry per SNV -/
theorem encode_valid (ref : Seq) (alts : List Seq) (h : ∀ a ∈ alts, a.length = ref.length) :
    ∃ rows, encodeHaplotypes { sequence := ref, variants := deriveVariants ref alts, alts := alts } = some rows
      ∧ rows.length = 1 + alts.length
      ∧ ∀ row ∈ rows, List.Forall₂ (fun (a : ℤ) (v : Variant) => 0 ≤ a ∧ a < v.2.length)
          row (deriveVariants ref alts) := by
  refine ⟨_, encodeHaplotypes_eq h, by simp [Nat.add_comm], ?_⟩
  intro row hrow
  obtain ⟨s, hs, rfl⟩ := List.mem_map.mp hrow
  rw [List.forall₂_map_left_iff]
  apply List.forall₂_same.mpr
  intro v hv
  obtain ⟨j, _, rfl⟩ := List.mem_map.mp hv
  exact alleleIndex_nonneg_lt (charAt_mem_alleles hs j)

/-- the REF sequence encodes to allele 0 at every SNV -/
theorem ref_encodes_to_zero (ref : Seq) (alts : List Seq) (h : ∀ a ∈ alts, a.length = ref.length) :
    ∃ rows, encodeHaplotypes { sequence := ref, variants := deriveVariants ref alts, alts := alts } = some rows
      ∧ rows.head? = some (List.replicate (snvColumns ref alts).length 0) := by
  refine ⟨_, encodeHaplotypes_eq h, ?_⟩
  simp only [List.map_cons, List.head?_cons, Option.some.injEq]
  apply List.ext_getElem
  · simp [deriveVariants]
  · intro i h1 h2
    simp only [List.getElem_map, List.getElem_replicate]
    exact (ref_is_allele_zero ref alts _ (List.getElem_mem _)).2

/-- **Round trip.** Encoding the REF/ALT sequences of a fixed-length record into per-SNV integer alleles
    and rendering them back reproduces the sequences exactly (for any gap character). -/
theorem format_encode (ref : Seq) (alts : List Seq) (h : ∀ a ∈ alts, a.length = ref.length)
    (gap : Char) :
    ∃ L rows, fromRecord ref alts = some L ∧ encodeHaplotypes L = some rows ∧
      formatHaplotypes L.sequence L.variants rows gap = some (ref :: alts) := by
  refine ⟨_, _, fromRecord_eq h, encodeHaplotypes_eq h, ?_⟩
  simp only
  unfold formatHaplotypes
  rw [deriveVariants_offsets]
  have hb : ((snvColumns ref alts).all (· < ref.length)) = true := by
    simp only [List.all_eq_true, decide_eq_true_eq]
    exact fun j hj => (mem_snvColumns.mp hj).1
  simp only [templateSequence, hb, if_true]
  rw [List.map_map]
  refine (optAll_map_some (ref :: alts) _ id ?_).trans (by simp)
  intro s hs
  have hlen : s.length = ref.length := by
    rcases List.mem_cons.mp hs with rfl | hs'
    · rfl
    · exact h s hs'
  have hvc : variantChars gap ((deriveVariants ref alts).map (·.2))
      ((deriveVariants ref alts).map (fun v => allelicIndex v.2 (charAt s v.1)))
      = some ((deriveVariants ref alts).map (fun v => charAt s v.1)) := by
    apply variantChars_map
    intro v hv
    obtain ⟨j, _, rfl⟩ := List.mem_map.mp hv
    exact alleleChar_alleleIndex gap (charAt_mem_alleles hs j)
  simp only [Function.comp_apply, hvc, id]
  -- the template over `range ref.length`, placeholders exactly at the differing columns
  have htmpl : (List.range ref.length).map
        (fun i => if i ∈ snvColumns ref alts then none else some (charAt ref i))
      = (List.range ref.length).map
        (fun i => if colDiffers ref alts i then none else some (charAt ref i)) := by
    apply List.map_congr_left
    intro i hi
    have hi' : i < ref.length := List.mem_range.mp hi
    by_cases hc : colDiffers ref alts i = true
    · have : i ∈ snvColumns ref alts := by
        simp [snvColumns, List.mem_filter, hi', hc]
      simp [this, hc]
    · have : i ∉ snvColumns ref alts := by
        simp [snvColumns, List.mem_filter, hc]
      simp [this, hc]
  have hargs : (deriveVariants ref alts).map (fun v => charAt s v.1)
      = ((List.range ref.length).filter (colDiffers ref alts)).map (charAt s) := by
    simp [deriveVariants, snvColumns, List.map_map, Function.comp_def]
  rw [htmpl, hargs, fillTemplate_map]
  congr 1
  rw [← hlen]
  conv_rhs => rw [← map_charAt_range s]
  apply List.map_congr_left
  intro i _
  by_cases hc : colDiffers ref alts i = true
  · simp [hc]
  · have hf : colDiffers ref alts i = false := by simpa using hc
    simp only [hf, Bool.false_eq_true, if_false]
    rcases List.mem_cons.mp hs with rfl | hs'
    · rfl
    · exact (colDiffers_eq_false.mp hf s hs').symm

/-- a record without ALT, or whose ALTs all equal REF, has no SNV, encodes to empty rows and still
    round-trips; conversely no SNV means every ALT equals REF -/
theorem snvless_record (ref : Seq) (alts : List Seq) (h : ∀ a ∈ alts, a.length = ref.length) :
    (deriveVariants ref alts = [] ↔ ∀ a ∈ alts, a = ref) := by
  unfold deriveVariants
  rw [List.map_eq_nil_iff]
  constructor
  · intro hnil a ha
    apply List.ext_getElem (h a ha)
    intro i h1 h2
    have hnot : i ∉ snvColumns ref alts := by rw [hnil]; simp
    have := mt (mem_snvColumns.mpr) hnot
    push Not at this
    have hc := this h2 a ha
    simpa [charAt, List.getD_eq_getElem?_getD, List.getElem?_eq_getElem h1,
      List.getElem?_eq_getElem h2] using hc
  · intro hall
    apply List.eq_nil_iff_forall_not_mem.mpr
    intro j hj
    obtain ⟨_, s, hs, hne⟩ := mem_snvColumns.mp hj
    exact hne (by rw [hall s hs])

/-! ### the other direction, and the SNVPOS relation (a locus as `assemble` holds it) -/

/-- **Other direction.** For a locus with strictly increasing in-range SNV offsets and duplicate-free
    allele tuples, rendering any valid index vectors and encoding the strings with the same locus returns
    the index vectors. -/
theorem encode_format (seq : Seq) (variants : List Variant) (rows : List (List ℤ)) (gap : Char)
    (hL : ValidLocus seq variants) (hr : ∀ row ∈ rows, ValidRow variants row) :
    ∃ ss, formatHaplotypes seq variants rows gap = some ss ∧ encodeWith variants ss = some rows := by
  refine ⟨_, formatHaplotypes_eq seq variants rows gap hL hr, ?_⟩
  have hnd : (variants.map (·.1)).Nodup := hL.sorted.imp (fun h => Nat.ne_of_lt h)
  unfold encodeWith
  have hb : ((rows.map (formatted seq variants gap)).all
      fun s => variants.all fun v => decide (v.1 < s.length)) = true := by
    simp only [List.all_eq_true, decide_eq_true_eq, List.mem_map]
    rintro s ⟨row, _, rfl⟩ v hv
    rw [formatted_length]
    exact hL.bounded v hv
  simp only [hb, if_true, Option.some.injEq, List.map_map]
  conv_rhs => rw [← List.map_id rows]
  apply List.map_congr_left
  intro row hrow
  have hrow_eq := ((hr row hrow).spec hnd).1
  simp only [Function.comp_apply, id]
  conv_rhs => rw [hrow_eq]
  apply List.map_congr_left
  intro v hv
  obtain ⟨hlt, hc⟩ := charAt_formatted_variant gap hL (hr row hrow) hv
  rw [hc]
  exact alleleIndex_getElem (hL.nodup v hv) hlt

/-- **SNVPOS.** Let `assemble` hold a locus whose SNVs have the reference base as allele 0 (what
    `validate_reference_alleles` enforces) and print the ALT strings of the index vectors `rows`.
    The SNV positions `call` recovers from REF/ALT are exactly the SNVPOS of `assemble` at which some
    ALT haplotype carries a non-reference allele — the polymorphic subset. -/
theorem snv_positions_subset (seq : Seq) (variants : List Variant) (rows : List (List ℤ)) (gap : Char)
    (hL : ValidLocus seq variants) (href : ∀ v ∈ variants, v.2.head? = some (charAt seq v.1))
    (hr : ∀ row ∈ rows, ValidRow variants row) :
    ∃ ss, formatHaplotypes seq variants rows gap = some ss ∧
      snvColumns seq ss
        = (variants.map (·.1)).filter (fun j => rows.any (fun row => rowFun variants row j != 0)) := by
  refine ⟨_, formatHaplotypes_eq seq variants rows gap hL hr, ?_⟩
  have hb' : ∀ j ∈ variants.map (·.1), j < seq.length := by
    intro j hj
    obtain ⟨v, hv, rfl⟩ := List.mem_map.mp hj
    exact hL.bounded v hv
  conv_rhs => rw [← filter_range_mem_eq hL.sorted hb', List.filter_filter]
  unfold snvColumns
  apply List.filter_congr
  intro i hi
  have hi' : i < seq.length := List.mem_range.mp hi
  rw [Bool.eq_iff_iff, colDiffers_eq_true]
  simp only [List.mem_map, exists_exists_and_eq_and, Bool.and_eq_true, decide_eq_true_eq,
    List.any_eq_true, bne_iff_ne, ne_eq]
  by_cases hmem : i ∈ variants.map (·.1)
  · obtain ⟨v, hv, rfl⟩ := List.mem_map.mp hmem
    have hpos : 0 < v.2.length := by
      have := href v hv
      cases hv2 : v.2 with
      | nil => simp [hv2] at this
      | cons _ _ => simp
    have hzero : charAt seq v.1 = v.2[0] := by
      have := href v hv
      rw [List.head?_eq_getElem?, List.getElem?_eq_getElem hpos] at this
      exact (Option.some.inj this).symm
    have key : ∀ row ∈ rows,
        (charAt (formatted seq variants gap row) v.1 = charAt seq v.1 ↔ rowFun variants row v.1 = 0) := by
      intro row hrow
      obtain ⟨hlt, hc⟩ := charAt_formatted_variant gap hL (hr row hrow) hv
      rw [hc, hzero, (hL.nodup v hv).getElem_inj_iff]
    constructor
    · rintro ⟨row, hrow, hne⟩
      exact ⟨⟨row, hrow, fun h0 => hne ((key row hrow).mpr h0)⟩, v, hv, rfl⟩
    · rintro ⟨⟨row, hrow, hne⟩, _⟩
      exact ⟨row, hrow, fun hc => hne ((key row hrow).mp hc)⟩
  · constructor
    · rintro ⟨row, _, hne⟩
      exact absurd (charAt_formatted_other gap row hi' hmem) hne
    · rintro ⟨_, v, hv, rfl⟩
      exact absurd (List.mem_map.mpr ⟨v, hv, rfl⟩) hmem

/-- in particular every recovered SNV position is one of the SNVPOS `assemble` reported, in the same order -/
theorem snv_positions_sublist (seq : Seq) (variants : List Variant) (rows : List (List ℤ)) (gap : Char)
    (hL : ValidLocus seq variants) (href : ∀ v ∈ variants, v.2.head? = some (charAt seq v.1))
    (hr : ∀ row ∈ rows, ValidRow variants row) :
    ∃ ss, formatHaplotypes seq variants rows gap = some ss ∧
      (snvColumns seq ss).Sublist (variants.map (·.1)) := by
  obtain ⟨ss, h1, h2⟩ := snv_positions_subset seq variants rows gap hL href hr
  exact ⟨ss, h1, h2 ▸ List.filter_sublist⟩

/-! ### non-vacuity and concrete instances -/

/-- a tri-allelic, two-SNV record: `ACGT` with ALTs `ACGA, TCGT, GCGA` -/
example : (fromRecord "ACGT".toList ["ACGA".toList, "TCGT".toList, "GCGA".toList]).map (·.variants)
    = some [(0, ['A', 'T', 'G']), (3, ['T', 'A'])] := by decide

example : (fromRecord "ACGT".toList ["ACGA".toList, "TCGT".toList, "GCGA".toList]).bind encodeHaplotypes
    = some [[0, 0], [0, 1], [1, 0], [2, 1]] := by decide

/-- a valid locus with a tri-allelic SNV and valid rows (hypotheses of `encode_format` are satisfiable) -/
example : ValidLocus "ACGT".toList [(0, ['A', 'T', 'G']), (3, ['T', 'A'])] ∧
    ValidRow [(0, ['A', 'T', 'G']), (3, ['T', 'A'])] [2, 0] :=
  ⟨⟨by decide, by decide, by decide⟩, by unfold ValidRow; repeat constructor⟩

/-- polymorphic subset: the second SNV is reported by assemble but no ALT carries a non-reference allele there -/
example : (formatHaplotypes "ACGT".toList [(0, ['A', 'T', 'G']), (3, ['T', 'A'])] [[2, 0], [1, 0]]).map
    (snvColumns "ACGT".toList) = some [0] := by decide

/-- an unequal-length ALT is rejected (the `AssertionError` branch) -/
example : fromRecord "ACGT".toList ["ACG".toList] = none := by decide

/-- an out-of-range allele index is an `IndexError`, a negative one renders the gap character -/
example : formatHaplotypes "ACGT".toList [(0, ['A', 'T'])] [[2]] = none := by decide
example : formatHaplotypes "ACGT".toList [(0, ['A', 'T'])] [[-1]] = some ["-CGT".toList] := by decide

end MCHap.C12
