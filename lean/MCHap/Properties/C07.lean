import MCHap.Proofs.Vcf
import MCHap.Properties.C11
import Mathlib.Algebra.Order.Field.Rat
import Mathlib.Algebra.Order.Floor.Ring
import Mathlib.Data.Rat.Floor
import Mathlib.Algebra.BigOperators.Group.Finset.Basic
import Mathlib.Algebra.Order.BigOperators.Group.Finset
import Mathlib.Tactic

/-!
# C07 — output VCF records are well-formed and internally consistent

Theorems over `MCHap/Model/Vcf.lean`.

* `validRecord_sound`: the validator accepts a record only if every check passed; the conjunct lemmas
  (`gt_wellformed`, `cardinality_ok`, `alt_differs_only_at_snvs`, `counts_recomputed`,
  `float_sums_recomputed`) turn each check into the property's statement over the parsed record.
* `summarise_recompute` / `summarise_total`: the allele-count loop of `sumarise_vcf_record` is the recount of
  the GT columns, and raises exactly when a GT holds an unlisted allele.
* `gArray_length`, `callGArray_length`: a G-length field has `C(n_alleles + ploidy − 1, ploidy)` entries = the
  number of genotypes in the VCF order (C11), for every allele count (masked reference included);
  `assembleGP_length`, `assembleGP_no_IndexError`, `relabel_nAllele`: since the repairs of F3 / F4 the programs
  pass the record's allele count to `_genotype_posterior_as_array` / `relabel`, and these hold for every record;
  `gpArraySize_default_partial`, `relabel_default_nAllele_partial` + counter-examples state what the defaults
  (`len(labels)`, `labels.max() + 1`, the former program behaviour) give.
* `formatGT_sorted_dots_last`, `genotypeAsAlleles_perm`: the GT the code prints.
* `round3_error`, `sum_round_tolerance`: the derived tolerance for sums of 3-decimal values.
-/
namespace MCHap.C07
open MCHap MCHap.Vcf

/-! ## soundness of the validator -/

theorem validRecord_sound (h : Header) (r : Record) (c : Ctx) (hv : validRecord h r c = .ok ()) :
    filterCheckB h r = true ∧ cardCheckB h r c = true ∧ gtCheckB r c = true ∧ seqCheckB r c = true ∧
    intCountsB r c = true ∧ floatCountsB r c = true ∧ decimalsOkB r = true := by
  unfold validRecord at hv
  split at hv
  · exact absurd hv (by simp)
  · rename_i hnone
    have key := List.find?_eq_none.mp hnone
    simp only [checks, List.mem_cons, List.not_mem_nil, or_false,
      Bool.not_eq_false, Bool.not_eq_eq_eq_not, Bool.not_true, forall_eq_or_imp, forall_eq] at key
    simpa using key

/-- a record the validator accepts exists (non-vacuity of every `validRecord … = .ok ()` hypothesis below) -/
def exHeader : Header :=
  { info := [⟨"AN", .fixed 1, .integer⟩, ⟨"UAN", .fixed 1, .integer⟩, ⟨"AC", .A, .integer⟩,
             ⟨"NS", .fixed 1, .integer⟩, ⟨"MCI", .fixed 1, .integer⟩, ⟨"DP", .fixed 1, .integer⟩,
             ⟨"RCOUNT", .fixed 1, .integer⟩, ⟨"END", .fixed 1, .integer⟩, ⟨"NVAR", .fixed 1, .integer⟩,
             ⟨"SNVPOS", .dot, .integer⟩, ⟨"REFMASKED", .fixed 0, .flag⟩],
    format := [⟨"GT", .fixed 1, .string⟩, ⟨"DP", .fixed 1, .integer⟩, ⟨"RCOUNT", .fixed 1, .integer⟩,
               ⟨"MCI", .fixed 1, .integer⟩, ⟨"GP", .G, .float⟩],
    filters := ["PASS", "NOA"] }

def exCols : List String :=
  ["chr1", "11", "x", "ACGT", "AGGT", ".", "PASS",
   "AN=3;UAN=2;AC=2;REFMASKED;NS=2;MCI=0;DP=9;RCOUNT=12;END=14;NVAR=1;SNVPOS=2",
   "GT:DP:RCOUNT:MCI:GP", "0/1:5:7:0:0.5,0.5,0", "1/.:4:5:0:0,0,1"]

def exCtx : Ctx := ⟨[2, 2], "ACGT".toList, [(2, ['C', 'G'])]⟩

set_option maxRecDepth 100000 in
example : (parseLine exCols).map (fun r => validRecord exHeader r exCtx) = some (.ok ()) := by decide

/-! ## GT -/

/-- GT has exactly ploidy entries, each `.` or a listed allele index, numbers ascending and `.` last -/
theorem gt_wellformed (h : Header) (r : Record) (c : Ctx) (hv : validRecord h r c = .ok ()) :
    r.samples.length = c.ploidies.length ∧
    ∀ sp ∈ r.samples.zip c.ploidies, ∃ g : List (Option ℕ),
      sampleGT r sp.1 = some g ∧ g.length = sp.2 ∧ (∀ a, some a ∈ g → a ≤ r.nAlt) ∧
      g.Pairwise GTLe ∧
      ∃ (cs : List ℕ) (k : ℕ), g = cs.map some ++ List.replicate k none ∧ cs.Pairwise (· ≤ ·) := by
  have hg := (validRecord_sound h r c hv).2.2.1
  simp only [gtCheckB, Bool.and_eq_true, beq_iff_eq, List.all_eq_true] at hg
  refine ⟨hg.1, fun sp hsp => ?_⟩
  have h1 := hg.2 sp hsp
  unfold gtOkB at h1
  split at h1
  · simp at h1
  · rename_i g hgt
    simp only [Bool.and_eq_true, beq_iff_eq, gtAllelesOkB, List.all_eq_true] at h1
    obtain ⟨⟨hl, ha⟩, hs⟩ := h1
    have hp := (gtSortedB_iff g).mp hs
    refine ⟨g, hgt, hl, ?_, hp, pairwise_GTLe_split g hp⟩
    intro a hmem
    have := ha (some a) hmem
    simpa using this

/-! ## declared keys and cardinalities -/

/-- the values of a field are the single `.` or as many as its declared Number asks for -/
def CardOK (nAlt ploidy : ℕ) (d : Decl) (vals : List String) : Prop :=
  vals = ["."] ∨ (∀ n, expectedCard nAlt ploidy d.number = some n → vals.length = n)

theorem cardOkB_sound {nAlt p : ℕ} {d : Decl} {vals : List String} (h : cardOkB nAlt p d vals = true) :
    CardOK nAlt p d vals := by
  unfold cardOkB at h
  rcases Bool.or_eq_true _ _ |>.mp h with h | h
  · exact Or.inl (by simpa using h)
  · right
    intro n hn
    rw [hn] at h
    simpa using h

theorem findDecl_some {ds : List Decl} {k : String} {d : Decl} (h : findDecl ds k = some d) :
    d ∈ ds ∧ d.id = k := by
  unfold findDecl at h
  exact ⟨List.mem_of_find?_eq_some h, by simpa using List.find?_some h⟩

/-- every INFO / FORMAT key is declared in the header and carries the declared number of values
    (1 / A / R / G / fixed) for this record's allele count and the sample's ploidy -/
theorem cardinality_ok (h : Header) (r : Record) (c : Ctx) (hv : validRecord h r c = .ok ()) :
    (∀ kv ∈ r.info, ∃ d ∈ h.info, d.id = kv.1 ∧
      match kv.2 with
      | none => d.type = .flag ∧ d.number = .fixed 0
      | some vals => d.number ≠ .G ∧ CardOK r.nAlt 0 d vals) ∧
    (∀ sp ∈ r.samples.zip c.ploidies, sp.1.length = r.format.length ∧
      ∀ kv ∈ r.format.zip sp.1, ∃ d ∈ h.format, d.id = kv.1 ∧ CardOK r.nAlt sp.2 d kv.2) := by
  have hc := (validRecord_sound h r c hv).2.1
  simp only [cardCheckB, Bool.and_eq_true, List.all_eq_true, beq_iff_eq] at hc
  obtain ⟨⟨hi, _⟩, hs⟩ := hc
  constructor
  · intro kv hkv
    have h1 := hi kv hkv
    unfold infoEntryOkB at h1
    split at h1
    · simp at h1
    · rename_i d hd
      obtain ⟨hmem, hid⟩ := findDecl_some hd
      refine ⟨d, hmem, hid, ?_⟩
      split at h1
      · rename_i hnone
        rw [hnone]
        simp only [Bool.and_eq_true, beq_iff_eq] at h1
        exact h1
      · rename_i vals hsome
        rw [hsome]
        simp only [Bool.and_eq_true, bne_iff_ne, ne_eq] at h1
        exact ⟨h1.1.1.2, cardOkB_sound h1.1.2⟩
  · intro sp hsp
    have h1 := hs sp hsp
    simp only [sampleCardOkB, Bool.and_eq_true, beq_iff_eq, List.all_eq_true] at h1
    refine ⟨h1.1, fun kv hkv => ?_⟩
    have h2 := h1.2 kv hkv
    unfold formatEntryOkB at h2
    split at h2
    · simp at h2
    · rename_i d hd
      obtain ⟨hmem, hid⟩ := findDecl_some hd
      simp only [Bool.and_eq_true] at h2
      exact ⟨d, hmem, hid, cardOkB_sound h2.1.2⟩

/-! ## REF / ALT / SNVPOS -/

/-- REF is the reference sequence of `[POS, END]`; every ALT has REF's length and differs from REF only at
    an input variant's position (which is what SNVPOS lists), by one of that variant's alleles -/
theorem alt_differs_only_at_snvs (h : Header) (r : Record) (c : Ctx) (hv : validRecord h r c = .ok ()) :
    r.ref = c.refWindow ∧
    infoNats r "END" = some [r.pos + r.ref.length - 1] ∧
    infoNats r "SNVPOS" = some (c.snvs.map (·.1)) ∧
    ∀ alt ∈ r.alt, alt.length = r.ref.length ∧
      ∀ i, i < r.ref.length → alt[i]? ≠ r.ref[i]? →
        ∃ s ∈ c.snvs, s.1 = i + 1 ∧ ∃ ch, alt[i]? = some ch ∧ ch ∈ s.2 := by
  have hs := (validRecord_sound h r c hv).2.2.2.1
  simp only [seqCheckB, Bool.and_eq_true, beq_iff_eq, List.all_eq_true] at hs
  obtain ⟨⟨⟨⟨⟨⟨⟨href, _⟩, hend⟩, _⟩, hsnv⟩, _⟩, halt⟩, _⟩ := hs
  refine ⟨href, hend, hsnv, fun alt hmem => ?_⟩
  have h1 := halt alt hmem
  simp only [altOkB, Bool.and_eq_true, beq_iff_eq, List.all_eq_true, List.mem_range, Bool.or_eq_true,
    List.any_eq_true] at h1
  refine ⟨h1.1, fun i hi hne => ?_⟩
  rcases h1.2 i hi with heq | ⟨s, hs, hpos, hch⟩
  · exact absurd heq.symm hne
  · have hia : i < alt.length := by rw [h1.1]; exact hi
    refine ⟨s, hs, hpos, alt[i], by simp [hia], ?_⟩
    have : alt.getD i ' ' = alt[i] := by simp [List.getD_eq_getElem?_getD, hia]
    rw [this] at hch
    simpa using hch

/-! ## AC / AN / UAN / NS / DP / RCOUNT -/

/-- INFO AC/AN/UAN/NS are the model's summary of the parsed GT columns; INFO MCI/DP/RCOUNT the summaries of
    the sample fields (together with `summarise_recompute`: the recount of the sample columns) -/
theorem counts_recomputed (h : Header) (r : Record) (c : Ctx) (hv : validRecord h r c = .ok ()) :
    ∃ gts s, recordGTs r = some gts ∧ summariseGT r.nAlt gts = some s ∧
      infoInts r "AC" = some (if r.nAlt = 0 then [none] else s.ac.map (fun (x : ℕ) => some (Int.ofNat x))) ∧
      infoInts r "AN" = some [some (s.an : ℤ)] ∧
      infoInts r "UAN" = some [some (s.uan : ℤ)] ∧
      infoInts r "NS" = some [some (s.ns : ℤ)] ∧
      (∃ v, sampleInts r "MCI" = some v ∧ infoInts r "MCI" = some [some (mciCount v : ℤ)]) ∧
      (∃ v, sampleInts r "DP" = some v ∧ infoInts r "DP" = some [infoDP c.snvs.length v]) ∧
      (∃ v, sampleInts r "RCOUNT" = some v ∧ infoInts r "RCOUNT" = some [some (nanSum v)]) := by
  have hi := (validRecord_sound h r c hv).2.2.2.2.1
  unfold intCountsB at hi
  split at hi
  · simp at hi
  · rename_i gts hg
    split at hi
    · simp at hi
    · rename_i s hs
      simp only [Bool.and_eq_true, beq_iff_eq] at hi
      obtain ⟨⟨⟨⟨⟨⟨hac, han⟩, huan⟩, hns⟩, hmci⟩, hdp⟩, hrc⟩ := hi
      refine ⟨gts, s, hg, hs, hac, han, huan, hns, ?_, ?_, ?_⟩
      · split at hmci
        · simp at hmci
        · rename_i v hv'; exact ⟨v, hv', by simpa using hmci⟩
      · split at hdp
        · simp at hdp
        · rename_i v hv'; exact ⟨v, hv', by simpa using hdp⟩
      · split at hrc
        · simp at hrc
        · rename_i v hv'; exact ⟨v, hv', by simpa using hrc⟩

/-- `sumarise_vcf_record`'s loop is the recount of the GT columns: AC of ALT `i` = number of called
    alleles equal to `i + 1`, AN = number of called alleles, UAN = number of distinct called alleles,
    NS = number of samples with a called allele; it succeeds only if every called allele is listed -/
theorem summarise_recompute (nAlt : ℕ) (gts : List (List (Option ℕ))) (s : GTSummary)
    (h : summariseGT nAlt gts = some s) :
    (∀ a ∈ called gts, a ≤ nAlt) ∧
    s.ac = (List.range nAlt).map (fun i => (called gts).count (i + 1)) ∧
    s.an = (called gts).length ∧
    s.uan = (called gts).dedup.length ∧
    s.ns = gts.countP (fun g => g.any Option.isSome) := by
  unfold summariseGT at h
  cases hc : countAlleles nAlt gts with
  | none => simp [hc] at h
  | some c =>
    simp only [hc, Option.map_some, Option.some.injEq] at h
    obtain ⟨hle, hcEq⟩ := countAlleles_eq nAlt gts c hc
    have hlt : ∀ a ∈ called gts, a < nAlt + 1 := fun a ha => Nat.lt_succ_of_le (hle a ha)
    subst h
    refine ⟨hle, ?_, ?_, ?_, rfl⟩
    · simp only [hcEq]
      rw [List.range_succ_eq_map, List.map_cons, List.tail_cons, List.map_map]
      rfl
    · simp only [hcEq]; exact sum_count_range _ _ hlt
    · simp only [hcEq]; exact countP_pos_count_range _ _ hlt

/-- … and it raises (the `IndexError` of `allele_counts[a] += 1`) exactly when a GT holds an allele beyond
    the record's ALT list -/
theorem summarise_total (nAlt : ℕ) (gts : List (List (Option ℕ))) :
    (∃ s, summariseGT nAlt gts = some s) ↔ ∀ a ∈ called gts, a ≤ nAlt := by
  constructor
  · rintro ⟨s, hs⟩; exact (summarise_recompute nAlt gts s hs).1
  · intro hle
    obtain ⟨c, hc⟩ := foldlM_countGenotype_total gts (List.replicate (nAlt + 1) 0)
      (fun a ha => by simpa using Nat.lt_succ_of_le (hle a ha))
    refine ⟨{ ac := c.tail, an := c.sum, uan := c.countP (fun x => decide (0 < x)),
              ns := gts.countP hasCall }, ?_⟩
    simp [summariseGT, countAlleles, hc]

/-! ## R-length float sums -/

def RowClose (tol : ℚ) (a b : List (Option ℚ)) : Prop :=
  a.length = b.length ∧ ∀ xy ∈ a.zip b,
    (xy.1 = none ∧ xy.2 = none) ∨ ∃ x y, xy.1 = some x ∧ xy.2 = some y ∧ absRat (x - y) ≤ tol

theorem closeRow_sound {tol : ℚ} {a b : List (Option ℚ)} (h : closeRow tol a b = true) : RowClose tol a b := by
  simp only [closeRow, Bool.and_eq_true, beq_iff_eq, List.all_eq_true] at h
  refine ⟨h.1, fun xy hxy => ?_⟩
  have := h.2 xy hxy
  rcases xy with ⟨x, y⟩
  cases x <;> cases y <;> simp_all

theorem rFieldB_sound {r : Record} {key : String} {e : Option (List (Option ℚ))} {tol : ℚ}
    (h : rFieldB r key e tol = true) :
    ∃ ev v, e = some ev ∧ infoRats r key = some v ∧ RowClose tol v ev := by
  unfold rFieldB at h
  split at h
  · simp at h
  · rename_i ev
    split at h
    · simp at h
    · rename_i v hv; exact ⟨ev, v, rfl, hv, closeRow_sound h⟩

/-- INFO ACP and AFP equal the recomputation from the printed per-sample posterior allele counts
    (FORMAT/ACP, else FORMAT/AFP × ploidy) within the derived rounding bound `sumTol` -/
theorem float_sums_recomputed (h : Header) (r : Record) (c : Ctx) (hv : validRecord h r c = .ok ())
    (rows : List (List (Option ℚ))) (W : ℚ) (hrows : acpRows r c = some (rows, W)) :
    (∀ x, r.infoVals "ACP" = some x →
      ∃ e v, infoACP r.nAlt rows = some e ∧ infoRats r "ACP" = some v ∧ RowClose (sumTol W) v e) ∧
    (∀ x, r.infoVals "AFP" = some x →
      ∃ e v, infoAFP r.nAlt rows c.ploidies.sum = some e ∧ infoRats r "AFP" = some v ∧
        RowClose (sumTol (W / (c.ploidies.sum : ℚ))) v e) := by
  have hf := (validRecord_sound h r c hv).2.2.2.2.2.1
  simp only [floatCountsB, Bool.and_eq_true, hrows] at hf
  obtain ⟨⟨⟨⟨hacp, hafp⟩, _⟩, _⟩, _⟩ := hf
  constructor
  · intro x hx
    rw [hx] at hacp
    exact rFieldB_sound hacp
  · intro x hx
    rw [hx] at hafp
    exact rFieldB_sound hafp

/-! ## G-length arrays -/

/-- a G-length field of a record with `nAlt` ALT alleles has `C((nAlt + 1) + ploidy − 1, ploidy)` entries —
    one per genotype of the VCF ordering (C11) — whatever the record's flags (REFMASKED keeps REF as
    allele 0; no ALT means one allele) -/
theorem gArray_length (nAlt p : ℕ) (hp : 1 ≤ p) :
    expectedCard nAlt p .G = some (Nat.choose (nAlt + p) p) ∧
    Nat.choose (nAlt + p) p = (vcfOrder p nAlt).length := by
  have h1 : cwr (nAlt + 1) p = Nat.choose (nAlt + p) p := by
    rw [C11.genotype_count (nAlt + 1) p hp]; congr 1; omega
  exact ⟨by simp [expectedCard, h1], by rw [C11.vcf_order_length p nAlt hp, h1]⟩

/-- `as_array(len(haplotypes))` and `genotype_likelihoods` (call, call-exact, call-pedigree, assemble GL) -/
theorem callGArray_length (nAlt p : ℕ) : expectedCard nAlt p .G = some (callGArraySize nAlt p) := rfl

/-- assemble's GP array (`n_alleles=len(haplotypes)`) has the record's G length whether or not the reference
    haplotype was called -/
theorem assembleGP_length (nAlt p : ℕ) (refCalled : Bool) :
    expectedCard nAlt p .G = some (assembleGPSize nAlt refCalled p) := rfl

/-- the default sizing `n_alleles = len(labels)` is right only when the reference is among the labels … -/
theorem gpArraySize_default_partial (nAlt p : ℕ) :
    expectedCard nAlt p .G = some (gpArraySize (assembleNLabels nAlt true) none p) := rfl

/-- … and too short otherwise (1 ALT, diploid, REFMASKED: 1 entry instead of 3).  This was the program's
    sizing before the repair of F3. -/
example : expectedCard 1 2 .G = some 3 ∧ gpArraySize (assembleNLabels 1 false) none 2 = 1 := by decide

theorem gpArrayFill_ok (n p : ℕ) (hp : 1 ≤ p) (entries : List (List ℕ × ℚ))
    (hent : ∀ e ∈ entries, e.1.length = p ∧ ∀ a ∈ e.1, a < n) :
    ∃ arr, gpArrayFill (cwr n p) entries = some arr ∧ arr.length = cwr n p := by
  unfold gpArrayFill
  have key : ∀ (es : List (List ℕ × ℚ)) (arr : List ℚ), arr.length = cwr n p →
      (∀ e ∈ es, e.1.length = p ∧ ∀ a ∈ e.1, a < n) →
      ∃ arr', es.foldlM (fun (arr : List ℚ) e =>
          if genotypeIndex e.1 < arr.length then some (arr.set (genotypeIndex e.1) e.2) else none) arr
        = some arr' ∧ arr'.length = cwr n p := by
    intro es
    induction es with
    | nil => intro arr hl _; exact ⟨arr, by simp, hl⟩
    | cons e t ih =>
      intro arr hl he
      obtain ⟨hlen, hal⟩ := he e (by simp)
      have hidx : genotypeIndex e.1 < arr.length := by
        rw [hl, ← hlen]
        exact C11.index_lt n e.1 hal (by omega)
      obtain ⟨arr', h1, h2⟩ := ih (arr.set (genotypeIndex e.1) e.2) (by simpa using hl)
        (fun e' he' => he e' (by simp [he']))
      exact ⟨arr', by simp [List.foldlM_cons, hidx, h1], h2⟩
  exact key entries _ (by simp) hent

/-- every sorted genotype over the record's alleles lands inside assemble's GP array, reference called or not:
    `mchap assemble --report GP` cannot raise the `IndexError` of F3 -/
theorem assembleGP_no_IndexError (nAlt p : ℕ) (refCalled : Bool) (hp : 1 ≤ p) (entries : List (List ℕ × ℚ))
    (hent : ∀ e ∈ entries, e.1.length = p ∧ ∀ a ∈ e.1, a ≤ nAlt) :
    ∃ arr, assembleGPArray nAlt refCalled p entries = some arr ∧ arr.length = cwr (nAlt + 1) p := by
  unfold assembleGPArray assembleGPSize gpArraySize
  simp only [Option.getD_some]
  exact gpArrayFill_ok (nAlt + 1) p hp entries
    (fun e he => ⟨(hent e he).1, fun a ha => Nat.lt_succ_of_le ((hent e he).2 a ha)⟩)

/-- the old behaviour, as a statement about the default sizing: with the reference not among the labels the
    genotype 1/1 of a 1-ALT diploid record falls outside the array (`IndexError`) -/
example : (gpArrayFill (gpArraySize (assembleNLabels 1 false) none 2) [([1, 1], 1)]).isNone = true := by decide

/-- call / call-pedigree relabel a trace over the unmasked haplotypes with the record's allele count, whatever
    the mask -/
theorem relabel_nAllele (mask : List Bool) : callRelabelNAllele mask = mask.length := rfl

/-- the default `labels.max() + 1` restores the record's allele count only when the highest-numbered allele stayed
    in the MCMC … -/
theorem relabel_default_nAllele_partial (mask : List Bool) (hlast : mask.getLast? = some false) :
    relabelNAllele (keptLabels mask) none = mask.length := by
  have hne : mask ≠ [] := by intro h; simp [h] at hlast
  have hpos : 0 < mask.length := List.length_pos_iff.mpr hne
  have hlastD : mask.getD (mask.length - 1) true = false := by
    rw [List.getLast?_eq_getElem?] at hlast
    simp [List.getD_eq_getElem?_getD, hlast]
  unfold relabelNAllele keptLabels
  simp only [Option.getD_none]
  have hmem : mask.length - 1 ∈ (List.range mask.length).filter (fun i => !(mask.getD i true)) := by
    refine List.mem_filter.mpr ⟨List.mem_range.mpr (by omega), ?_⟩
    rw [hlastD]; rfl
  have hub : ∀ x ∈ (List.range mask.length).filter (fun i => !(mask.getD i true)), x ≤ mask.length - 1 := by
    intro x hx
    have := (List.mem_filter.mp hx).1
    simp at this; omega
  have h1 := (foldl_max_ge _ 0).2 _ hmem
  have h2 := foldl_max_le _ 0 (mask.length - 1) (by omega) hub
  omega

/-- … and is too small otherwise (3 alleles, the last with zero prior: 2).  This was the programs' value before
    the repair of F4. -/
example : relabelNAllele (keptLabels [false, false, true]) none = 2 ∧
    callRelabelNAllele [false, false, true] = 3 := by decide

/-! ## the GT the code prints -/

theorem genotypeAsAlleles_perm (labels : List ℤ) : (genotypeAsAlleles labels).Perm labels := by
  unfold genotypeAsAlleles
  have hneg : (fun a : ℤ => decide (a < 0)) = fun a => !(decide (0 ≤ a)) := by
    funext a
    by_cases h : 0 ≤ a
    · simp [h]
    · simp [h]; omega
  simp only [hneg]
  exact (List.filter_append_perm _ _).trans (List.mergeSort_perm _ _)

/-- `_genotype_as_alleles` followed by the GT formatter: as many entries as haplotypes, called alleles
    ascending, `.` (labels < 0) last; the printed string is these entries joined by `/` -/
theorem formatGT_sorted_dots_last (labels : List ℤ) :
    (gtEntries (genotypeAsAlleles labels)).length = labels.length ∧
    (gtEntries (genotypeAsAlleles labels)).Pairwise GTLe ∧
    gtSortedB (gtEntries (genotypeAsAlleles labels)) = true ∧
    formatGT (genotypeAsAlleles labels) =
      "/".intercalate ((gtEntries (genotypeAsAlleles labels)).map renderEntry) := by
  have hp : (gtEntries (genotypeAsAlleles labels)).Pairwise GTLe := by
    unfold gtEntries genotypeAsAlleles
    have hsorted : (labels.mergeSort (fun a b => decide (a ≤ b))).Pairwise (· ≤ ·) := by
      have := List.pairwise_mergeSort (le := fun (a b : ℤ) => decide (a ≤ b))
        (fun a b c hab hbc => by simp only [decide_eq_true_eq] at *; omega)
        (fun a b => by simp only [Bool.or_eq_true, decide_eq_true_eq]; omega) labels
      simpa using this
    rw [List.pairwise_map, List.pairwise_append]
    refine ⟨?_, ?_, ?_⟩
    · refine (hsorted.filter _).imp_of_mem ?_
      intro a b ha hb hab
      have ha' : 0 ≤ a := by simpa using (List.mem_filter.mp ha).2
      have hb' : 0 ≤ b := by simpa using (List.mem_filter.mp hb).2
      simp only [gtEntry, ha', hb', if_true, GTLe]
      omega
    · refine (hsorted.filter _).imp_of_mem ?_
      intro a b ha hb _
      have hb' : b < 0 := by simpa using (List.mem_filter.mp hb).2
      have : ¬ 0 ≤ b := by omega
      cases hga : gtEntry a <;> simp [gtEntry, this, GTLe]
    · intro a ha b hb
      have hb' : b < 0 := by simpa using (List.mem_filter.mp hb).2
      have : ¬ 0 ≤ b := by omega
      cases hga : gtEntry a <;> simp [gtEntry, this, GTLe]
  refine ⟨?_, hp, (gtSortedB_iff _).mpr hp, rfl⟩
  simp [gtEntries, (genotypeAsAlleles_perm labels).length_eq]

example : gtEntries [0, 2, 2, -1] = [some 0, some 2, some 2, none] ∧
    gtSortedB (gtEntries [0, 2, 2, -1]) = true := by decide

/-! ## rounding and the derived tolerance -/

/-- rounding to three decimals moves a value by at most 1/2000 -/
theorem round3_error (q : ℚ) : |q - (round3 q : ℚ) / 1000| ≤ 1 / 2000 := by
  have key : ∀ x : ℚ, |x - (roundHalfEven x : ℚ)| ≤ 1 / 2 := by
    intro x
    have hfl : (x.floor : ℤ) = ⌊x⌋ := rfl
    have h1 : ((⌊x⌋ : ℤ) : ℚ) ≤ x := Int.floor_le x
    have h2 : x < (⌊x⌋ : ℤ) + 1 := Int.lt_floor_add_one x
    unfold roundHalfEven
    simp only [hfl]
    split_ifs with ha hb hc
    · rw [abs_le]; constructor <;> linarith
    · rw [abs_le]; push_cast; constructor <;> linarith
    · rw [abs_le]; have ha' := not_lt.mp ha; have hb' := not_lt.mp hb; constructor <;> linarith
    · rw [abs_le]; have ha' := not_lt.mp ha; have hb' := not_lt.mp hb; push_cast; constructor <;> linarith
  have h := key (q * 1000)
  unfold round3
  rw [abs_le] at h ⊢
  constructor <;> linarith [h.1, h.2]

/-- derived bound for an INFO value that is a rounded weighted sum: if every printed per-sample value `r i` is
    within `δ` of the internal `x i`, and the printed total `S` is within `δ` of `Σ w i · x i` with weights
    `w i ≥ 0`, then `S` is within `(Σ w i + 1) · δ` of `Σ w i · r i`.  With `δ = 1/2000` (`round3_error`) this
    is the validator's `sumTol W − floatSlack`. -/
theorem sum_round_tolerance {n : ℕ} (w x r : Fin n → ℚ) (S δ : ℚ)
    (hw : ∀ i, 0 ≤ w i) (hr : ∀ i, |r i - x i| ≤ δ) (hS : |S - ∑ i, w i * x i| ≤ δ) :
    |S - ∑ i, w i * r i| ≤ ((∑ i, w i) + 1) * δ := by
  have h1 : |∑ i, w i * x i - ∑ i, w i * r i| ≤ (∑ i, w i) * δ := by
    rw [← Finset.sum_sub_distrib, Finset.sum_mul]
    refine (Finset.abs_sum_le_sum_abs _ _).trans (Finset.sum_le_sum fun i _ => ?_)
    rw [← mul_sub, abs_mul, abs_of_nonneg (hw i), abs_sub_comm]
    exact mul_le_mul_of_nonneg_left (hr i) (hw i)
  calc |S - ∑ i, w i * r i|
      = |(S - ∑ i, w i * x i) + (∑ i, w i * x i - ∑ i, w i * r i)| := by ring_nf
    _ ≤ |S - ∑ i, w i * x i| + |∑ i, w i * x i - ∑ i, w i * r i| := abs_add_le _ _
    _ ≤ δ + (∑ i, w i) * δ := add_le_add hS h1
    _ = ((∑ i, w i) + 1) * δ := by ring

example : sumTol 3 = (3 + 1) * (1 / 2000) + floatSlack := by unfold sumTol; ring

end MCHap.C07
